(* Proofs about model/ProxyProto.v: the chunk-level buffered reader delivers the byte stream independently of
   the chunking (within the header limit), and the parsers invert the specification's encoders. *)
From Coq Require Import List ZArith Bool Lia ZifyBool ZifyNat.
From Bfe Require Import lib.Val lib.Bytes model.ProxyProto.
Import ListNotations.
Open Scope Z_scope.

Local Arguments Z.mul : simpl never.
Local Arguments Z.add : simpl never.
Local Arguments Z.sub : simpl never.
Local Arguments Z.div : simpl never.
Local Arguments Z.modulo : simpl never.
Local Arguments Z.to_nat : simpl never.
Local Arguments Z.of_nat : simpl never.
Local Arguments BUFSZ : simpl never.
Local Arguments NOLIMIT : simpl never.

Lemma blen_app (a b : bytes) : blen (a ++ b) = blen a + blen b.
Proof. unfold blen. rewrite app_length. lia. Qed.
Lemma blen_nonneg (a : bytes) : 0 <= blen a.
Proof. unfold blen. lia. Qed.
Lemma blen_cons (x : Z) (a : bytes) : blen (x :: a) = 1 + blen a.
Proof. unfold blen. cbn [length]. lia. Qed.

(* ---------------- reader invariant ---------------- *)
Definition remaining (r : rd) : bytes := r_buf r ++ concat (r_chunks r).
Definition budget (r : rd) : Z := blen (r_buf r) + r_lim r.
Definition nonempty (c : bytes) : Prop := c <> [].
Definition inv (r : rd) : Prop :=
  r_err r = 0 /\ r_closed r = false /\ Forall nonempty (r_chunks r) /\ blen (remaining r) <= BUFSZ.

Lemma firstn_skipn_len (n : nat) (c : bytes) : blen (firstn n c) = Z.min (Z.of_nat n) (blen c).
Proof. unfold blen. rewrite firstn_length. lia. Qed.

Lemma fill_step r c cs :
  inv r -> r_chunks r = c :: cs -> 0 < r_lim r ->
  let r' := fill r in
  inv r' /\ remaining r' = remaining r /\ budget r' = budget r /\
  blen (r_buf r) < blen (r_buf r') /\ (length (concat (r_chunks r')) < length (concat (r_chunks r)))%nat.
Proof.
  intros (He & Hc & Hne & Hb) Hcs Hl. unfold fill.
  replace (r_lim r <=? 0) with false by lia. rewrite Hc, Hcs.
  set (n := Z.to_nat (Z.min (Z.min (BUFSZ - blen (r_buf r)) (r_lim r)) (blen c))).
  assert (Hcne : c <> []) by (rewrite Hcs in Hne; inversion Hne; assumption).
  assert (Hclen : 0 < blen c) by (unfold blen; destruct c; [congruence|cbn [length]; lia]).
  assert (Hrem : blen (r_buf r) + blen c + blen (concat cs) <= BUFSZ).
  { unfold remaining in Hb. rewrite Hcs in Hb. cbn [concat] in Hb. rewrite !blen_app in Hb. lia. }
  pose proof (blen_nonneg (concat cs)) as Hcs0. pose proof (blen_nonneg (r_buf r)) as Hb0.
  assert (Hn : (0 < n <= length c)%nat) by (unfold n, blen in *; lia).
  assert (Hfl : blen (firstn n c) = Z.of_nat n) by (rewrite firstn_skipn_len; unfold blen; lia).
  cbv zeta. unfold inv, remaining, budget. cbn [r_buf r_chunks r_lim r_err r_closed r_end].
  assert (Hsplit : firstn n c ++ skipn n c = c) by apply firstn_skipn.
  unfold remaining in Hb. rewrite Hcs in Hb |- *. cbn [concat] in Hb |- *.
  assert (Hne1 : Forall nonempty cs) by (rewrite Hcs in Hne; inversion Hne; assumption).
  destruct (skipn n c) as [|x c'] eqn:Esk.
  - rewrite app_nil_r in Hsplit. rewrite Hsplit in *.
    split; [split; [exact He|split; [first [exact Hc|reflexivity]|split; [exact Hne1|]]]|split; [|split; [|split]]].
    + rewrite <- app_assoc. exact Hb.
    + rewrite <- app_assoc. reflexivity.
    + rewrite blen_app. lia.
    + rewrite blen_app. lia.
    + rewrite app_length. unfold blen in Hclen. lia.
  - split; [split; [exact He|split; [first [exact Hc|reflexivity]|split]]|split; [|split; [|split]]].
    + constructor; [unfold nonempty; discriminate|exact Hne1].
    + cbn [concat]. rewrite <- app_assoc, (app_assoc (firstn n c)), Hsplit. exact Hb.
    + cbn [concat]. rewrite <- app_assoc, (app_assoc (firstn n c)), Hsplit. reflexivity.
    + rewrite blen_app. lia.
    + rewrite blen_app. lia.
    + cbn [concat]. rewrite !app_length. rewrite <- Esk, skipn_length. lia.
Qed.

Lemma fill_until_ok fuel : forall r n,
  inv r -> (length (concat (r_chunks r)) < fuel)%nat -> n <= blen (remaining r) -> n <= budget r ->
  let r' := fill_until n fuel r in
  inv r' /\ remaining r' = remaining r /\ budget r' = budget r /\ n <= blen (r_buf r').
Proof.
  induction fuel as [|fuel IH]; intros r n Hi Hf Hn Hb; [lia|].
  cbn [fill_until]. pose proof Hi as Hi0. destruct Hi as (He & Hc & Hne & Hbz). rewrite He. cbn [negb orb Z.eqb].
  rewrite orb_false_r.
  destruct (n <=? blen (r_buf r)) eqn:E.
  - cbv zeta. split; [exact Hi0|split; [reflexivity|split; [reflexivity|lia]]].
  - destruct (r_chunks r) as [|c cs] eqn:Ecs.
    + unfold remaining in Hn. rewrite Ecs in Hn. cbn [concat] in Hn. rewrite app_nil_r in Hn. lia.
    + assert (Hl : 0 < r_lim r) by (unfold budget in Hb; lia).
      destruct (fill_step r c cs Hi0 Ecs Hl) as (Hi' & Hr' & Hb' & _ & Hlen).
      rewrite Ecs in Hlen.
      destruct (IH (fill r) n Hi') as (H1 & H2 & H3 & H4); [lia|rewrite Hr'; exact Hn|rewrite Hb'; exact Hb|].
      cbv zeta. split; [exact H1|split; [congruence|split; [congruence|exact H4]]].
Qed.

Lemma fuel_ok r : (length (concat (r_chunks r)) < fuel_of r)%nat.
Proof. unfold fuel_of. lia. Qed.

Lemma firstn_buf_remaining n r : 0 <= n <= blen (r_buf r) ->
  firstn (Z.to_nat n) (r_buf r) = firstn (Z.to_nat n) (remaining r).
Proof.
  intros H. unfold remaining. rewrite firstn_app.
  replace (Z.to_nat n - length (r_buf r))%nat with 0%nat by (unfold blen in H; lia).
  cbn [firstn]. rewrite app_nil_r. reflexivity.
Qed.
Lemma skipn_buf_remaining n r : 0 <= n <= blen (r_buf r) ->
  skipn (Z.to_nat n) (r_buf r) ++ concat (r_chunks r) = skipn (Z.to_nat n) (remaining r).
Proof.
  intros H. unfold remaining. rewrite skipn_app.
  replace (Z.to_nat n - length (r_buf r))%nat with 0%nat by (unfold blen in H; lia).
  cbn [skipn]. reflexivity.
Qed.

Lemma peek_ok n r : inv r -> 0 <= n -> n <= blen (remaining r) -> n <= budget r ->
  exists r', peek n r = (firstn (Z.to_nat n) (remaining r), 0, r') /\
             inv r' /\ remaining r' = remaining r /\ budget r' = budget r /\ n <= blen (r_buf r').
Proof.
  intros Hi H0 Hn Hb. unfold peek.
  assert (Hbz : blen (remaining r) <= BUFSZ) by apply Hi.
  replace (BUFSZ <? n) with false by lia.
  destruct (fill_until_ok (fuel_of r) r n Hi (fuel_ok r) Hn Hb) as (H1 & H2 & H3 & H4).
  set (r1 := fill_until n (fuel_of r) r) in *.
  replace (blen (r_buf r1) <? n) with false by lia.
  exists r1. rewrite firstn_buf_remaining by lia. rewrite H2. auto.
Qed.

Lemma drop_ok n r : inv r -> 0 <= n <= blen (r_buf r) ->
  let r' := set_buf r (skipn (Z.to_nat n) (r_buf r)) in
  inv r' /\ remaining r' = skipn (Z.to_nat n) (remaining r) /\ budget r' = budget r - n.
Proof.
  intros (He & Hc & Hne & Hbz) Hn. cbv zeta. unfold inv, remaining at 1 2, budget, set_buf. cbn [r_buf r_chunks r_lim r_err r_closed r_end].
  rewrite skipn_buf_remaining by exact Hn.
  assert (Hl : blen (skipn (Z.to_nat n) (remaining r)) = blen (remaining r) - n).
  { unfold blen. rewrite skipn_length. unfold remaining. rewrite app_length. unfold blen in Hn. lia. }
  assert (Hl2 : blen (skipn (Z.to_nat n) (r_buf r)) = blen (r_buf r) - n).
  { unfold blen. rewrite skipn_length. unfold blen in Hn. lia. }
  split; [split; [exact He|split; [exact Hc|split; [exact Hne|lia]]]|split; [reflexivity|lia]].
Qed.

Lemma read_n_ok n r : inv r -> 0 <= n -> n <= blen (remaining r) -> n <= budget r ->
  exists r', read_n n r = (Some (firstn (Z.to_nat n) (remaining r)), 0, r') /\
             inv r' /\ remaining r' = skipn (Z.to_nat n) (remaining r) /\ budget r' = budget r - n.
Proof.
  intros Hi H0 Hn Hb. unfold read_n.
  destruct (fill_until_ok (fuel_of r) r n Hi (fuel_ok r) Hn Hb) as (H1 & H2 & H3 & H4).
  set (r1 := fill_until n (fuel_of r) r) in *.
  replace (blen (r_buf r1) <? n) with false by lia.
  destruct (drop_ok n r1 H1 ltac:(lia)) as (D1 & D2 & D3).
  eexists. split; [rewrite firstn_buf_remaining by lia; rewrite H2; reflexivity|].
  split; [exact D1|]. split; [rewrite D2, H2; reflexivity|rewrite D3, H3; reflexivity].
Qed.

(* after the header: the application reads everything that remains, then EOF *)
Lemma drain_ok cs : forall buf lim acc fuel,
  Forall nonempty cs -> (2 * length cs + 3 <= fuel)%nat -> blen (buf ++ concat cs) <= BUFSZ -> blen (concat cs) < lim ->
  drain fuel (mkRd buf cs lim 0 false E_EOF) acc = (acc ++ buf ++ concat cs, E_EOF).
Proof.
  induction cs as [|c cs IH]; intros buf lim acc fuel Hne Hf Hb Hl.
  - cbn [concat] in *. rewrite app_nil_r.
    destruct buf as [|x buf].
    + destruct fuel as [|fuel]; [cbn [length] in Hf; lia|].
      cbn [drain r_buf r_err negb Z.eqb]. unfold fill. cbn [r_lim r_closed r_chunks].
      destruct (lim <=? 0); unfold set_err; cbn [r_buf r_chunks r_lim r_err r_closed r_end];
        (destruct fuel as [|fuel]; [cbn [length] in Hf; lia|]); cbn [drain r_buf r_err]; rewrite app_nil_r; reflexivity.
    + destruct fuel as [|fuel]; [cbn [length] in Hf; lia|].
      cbn [drain r_buf]. unfold set_buf. cbn [r_buf r_chunks r_lim r_err r_closed r_end].
      destruct fuel as [|fuel]; [cbn [length] in Hf; lia|].
      cbn [drain r_buf r_err negb Z.eqb]. unfold fill. cbn [r_lim r_closed r_chunks].
      destruct (lim <=? 0); unfold set_err; cbn [r_buf r_chunks r_lim r_err r_closed r_end];
        (destruct fuel as [|fuel]; [cbn [length] in Hf; lia|]); cbn [drain r_buf r_err]; reflexivity.
  - inversion Hne as [|? ? Hc Hcs]; subst.
    assert (Hclen : 0 < blen c) by (unfold blen; destruct c; [unfold nonempty in Hc; congruence|cbn [length]; lia]).
    cbn [concat] in *. rewrite !blen_app in *. pose proof (blen_nonneg (concat cs)) as H0. pose proof (blen_nonneg buf) as H1.
    assert (Hfill : fill (mkRd [] (c :: cs) lim 0 false E_EOF) = mkRd c cs (lim - blen c) 0 false E_EOF).
    { unfold fill. cbn [r_buf r_chunks r_lim r_err r_closed r_end].
      replace (lim <=? 0) with false by lia.
      replace (Z.to_nat (Z.min (Z.min (BUFSZ - blen []) lim) (blen c))) with (length c) by (unfold blen in *; cbn [length]; lia).
      rewrite firstn_all, skipn_all. cbn [app]. reflexivity. }
    destruct buf as [|x buf].
    + destruct fuel as [|fuel]; [cbn [length] in Hf; lia|].
      cbn [drain r_buf r_err negb Z.eqb]. rewrite Hfill.
      rewrite IH; [cbn [app]; reflexivity|exact Hcs|cbn [length] in Hf; lia|rewrite blen_app; unfold blen in *; cbn [length] in *; lia|lia].
    + destruct fuel as [|fuel]; [cbn [length] in Hf; lia|].
      cbn [drain r_buf]. unfold set_buf. cbn [r_buf r_chunks r_lim r_err r_closed r_end].
      destruct fuel as [|fuel]; [cbn [length] in Hf; lia|].
      cbn [drain r_buf r_err negb Z.eqb]. rewrite Hfill.
      rewrite IH; [rewrite <- !app_assoc; reflexivity|exact Hcs|cbn [length] in Hf; lia|rewrite blen_app; unfold blen in *; cbn [length] in *; lia|lia].
Qed.

(* ---------------- v2 PROXY header ---------------- *)
Definition v2_stream (cmd fam L : Z) (rest : bytes) : bytes :=
  13 :: 10 :: 13 :: 10 :: 0 :: 13 :: 10 :: 81 :: 85 :: 73 :: 84 :: 10 :: cmd :: fam :: (L / 256) :: (L mod 256) :: rest.

Definition v2_hdr (fam : Z) (blk : bytes) : hdr :=
  if fam_hi fam =? 1 then mkHdr false fam (Some (sub blk 0 4)) (Some (sub blk 4 4)) (be16 (sub blk 8 2)) (be16 (sub blk 10 2))
  else if fam_hi fam =? 2 then mkHdr false fam (Some (sub blk 0 16)) (Some (sub blk 16 16)) (be16 (sub blk 32 2)) (be16 (sub blk 34 2))
  else mkHdr false fam None None 0 0.

Lemma be16_u16 L : 0 <= L < 65536 -> be16 [L / 256; L mod 256] = L.
Proof.
  intros H. unfold be16. cbn [nth]. pose proof (Z.div_mod L 256 ltac:(lia)). lia.
Qed.

Lemma blen_v2_stream cmd fam L rest : blen (v2_stream cmd fam L rest) = 16 + blen rest.
Proof. unfold v2_stream. rewrite !blen_cons. lia. Qed.

Lemma proxy_read_v2 os od r fam L rest :
  inv r -> remaining r = v2_stream 33 fam L rest ->
  0 <= L < 65536 -> fam_supported fam = true -> min_len fam <= L -> L <= blen rest -> 16 + L <= budget r ->
  exists r', proxy_read os od r = (RHdr (v2_hdr fam (firstn (Z.to_nat L) rest)), r') /\
             inv r' /\ remaining r' = skipn (Z.to_nat L) rest.
Proof.
  intros Hi Hrem HL Hfam Hmin Hrest Hbud.
  pose proof (blen_nonneg rest) as Hr0.
  assert (Hlen : blen (remaining r) = 16 + blen rest) by (rewrite Hrem; apply blen_v2_stream).
  unfold proxy_read.
  destruct (peek_ok 1 r Hi ltac:(lia) ltac:(lia) ltac:(lia)) as (r1 & E1 & I1 & R1 & B1 & _).
  rewrite E1, Hrem. change (Z.to_nat 1) with 1%nat. unfold v2_stream at 1. cbn [firstn nth].
  change ((13 =? 80) || (13 =? 13)) with true. cbn [negb].
  destruct (peek_ok 5 r1 I1 ltac:(lia) ltac:(rewrite R1; lia) ltac:(lia)) as (r2 & E2 & I2 & R2 & B2 & _).
  rewrite E2, R1, Hrem. change (Z.to_nat 5) with 5%nat. unfold v2_stream at 1. cbn [firstn].
  change (bytes_eqb [13; 10; 13; 10; 0] SIGV1) with false.
  destruct (peek_ok 12 r2 I2 ltac:(lia) ltac:(rewrite R2, R1; lia) ltac:(lia)) as (r3 & E3 & I3 & R3 & B3 & _).
  rewrite E3, R2, R1, Hrem. change (Z.to_nat 12) with 12%nat. unfold v2_stream at 1. cbn [firstn].
  change (bytes_eqb [13; 10; 13; 10; 0; 13; 10; 81; 85; 73; 84; 10] SIGV2) with true.
  assert (Hrem3 : remaining r3 = v2_stream 33 fam L rest) by congruence.
  unfold parse_v2.
  destruct (read_n_ok 12 r3 I3 ltac:(lia) ltac:(rewrite Hrem3, blen_v2_stream; lia) ltac:(lia)) as (r4 & E4 & I4 & R4 & B4).
  rewrite E4. cbv beta iota.
  rewrite Hrem3 in R4. change (Z.to_nat 12) with 12%nat in R4. unfold v2_stream in R4. cbn [skipn] in R4.
  destruct (read_n_ok 1 r4 I4 ltac:(lia) ltac:(rewrite R4, !blen_cons; lia) ltac:(lia)) as (r5 & E5 & I5 & R5 & B5).
  rewrite E5, R4. change (Z.to_nat 1) with 1%nat. cbn [firstn nth].
  change ((33 =? 32) || (33 =? 33)) with true. change (33 =? 32) with false. cbn [negb].
  rewrite R4 in R5. change (Z.to_nat 1) with 1%nat in R5. cbn [skipn] in R5.
  destruct (read_n_ok 1 r5 I5 ltac:(lia) ltac:(rewrite R5, !blen_cons; lia) ltac:(lia)) as (r6 & E6 & I6 & R6 & B6).
  rewrite E6, R5. change (Z.to_nat 1) with 1%nat. cbn [firstn nth]. rewrite Hfam. cbn [negb].
  rewrite R5 in R6. change (Z.to_nat 1) with 1%nat in R6. cbn [skipn] in R6.
  destruct (read_n_ok 2 r6 I6 ltac:(lia) ltac:(rewrite R6, !blen_cons; lia) ltac:(lia)) as (r7 & E7 & I7 & R7 & B7).
  rewrite E7, R6. change (Z.to_nat 2) with 2%nat. cbn [firstn]. rewrite be16_u16 by exact HL.
  replace (L <? min_len fam) with false by lia.
  rewrite R6 in R7. change (Z.to_nat 2) with 2%nat in R7. cbn [skipn] in R7.
  destruct (peek_ok L r7 I7 ltac:(lia) ltac:(rewrite R7; lia) ltac:(lia)) as (r8 & E8 & I8 & R8 & B8 & Hb8).
  rewrite E8, R7.
  destruct (drop_ok L r8 I8 ltac:(lia)) as (D1 & D2 & D3).
  rewrite R8, R7 in D2.
  unfold v2_hdr.
  destruct (fam_hi fam =? 1); [eexists; split; [reflexivity|split; [exact D1|exact D2]]|].
  destruct (fam_hi fam =? 2); eexists; (split; [reflexivity|split; [exact D1|exact D2]]).
Qed.

(* ---------------- the whole connection ---------------- *)
Definition ne_filter (chunks : list bytes) : list bytes :=
  filter (fun c => match c with [] => false | _ => true end) chunks.
Lemma ne_filter_concat chunks : concat (ne_filter chunks) = concat chunks.
Proof. induction chunks as [|[|x c] cs IH]; cbn [ne_filter filter concat app]; [reflexivity|exact IH|]. unfold ne_filter in IH. rewrite IH. reflexivity. Qed.
Lemma ne_filter_nonempty chunks : Forall nonempty (ne_filter chunks).
Proof. induction chunks as [|[|x c] cs IH]; cbn [ne_filter filter]; [constructor|exact IH|]. constructor; [unfold nonempty; discriminate|exact IH]. Qed.
Lemma nonempty_len (l : list bytes) : Forall nonempty l -> (length l <= length (concat l))%nat.
Proof.
  induction 1 as [|c l Hc _ IH]; [cbn; lia|]. cbn [length concat]. rewrite app_length.
  destruct c; [unfold nonempty in Hc; congruence|cbn [length]; lia].
Qed.

Lemma inv_start cs lim e : Forall nonempty cs -> blen (concat cs) <= BUFSZ -> inv (mkRd [] cs lim 0 false e).
Proof. intros H1 H2. unfold inv, remaining. cbn [r_buf r_chunks r_err r_closed app]. auto. Qed.

(* after a successfully parsed header (or none) the application receives exactly the remaining bytes, then EOF *)
Lemma drain_after r fuel : inv r -> (2 * length (concat (r_chunks r)) + 3 <= fuel)%nat ->
  drain fuel (mkRd (r_buf r) (r_chunks r) NOLIMIT (r_err r) false E_EOF) [] = (remaining r, E_EOF).
Proof.
  intros (He & Hc & Hne & Hb) Hf. rewrite He.
  rewrite drain_ok; [reflexivity|exact Hne|pose proof (nonempty_len _ Hne); lia|exact Hb|].
  unfold remaining in Hb. rewrite blen_app in Hb. pose proof (blen_nonneg (r_buf r)).
  change NOLIMIT with 9223372036854775807. change BUFSZ with 4096 in Hb. lia.
Qed.

Ltac destr_list l H :=
  repeat (destruct l as [|? l]; [exfalso; unfold blen in H; cbn [length] in H; lia|]);
  destruct l as [|? l]; [|exfalso; unfold blen in H; cbn [length] in H; lia].

Lemma conn_run_v2 tmo limit chunks os od fam L rest :
  concat chunks = v2_stream 33 fam L rest -> blen (concat chunks) <= BUFSZ ->
  0 <= L < 65536 -> fam_supported fam = true -> min_len fam <= L -> L <= blen rest -> 16 + L <= eff_limit limit ->
  conn_run tmo limit chunks os od =
  (let h := v2_hdr fam (firstn (Z.to_nat L) rest) in
   let '(s, d) := if h_local h || negb ((fam_hi (h_fam h) =? 1) || (fam_hi (h_fam h) =? 2)) then (None, None)
                  else match h_src h, h_dst h with
                       | Some a, Some b => (Some (a, h_sport h), Some (b, h_dport h))
                       | _, _ => (None, None)
                       end in
   VL [vaddr s; vaddr_d d; VB (skipn (Z.to_nat L) rest); VZ 0; VZ 0]).
Proof.
  intros Hs Hb HL Hfam Hmin Hrest Hlim. unfold conn_run. fold (ne_filter chunks).
  set (cs := ne_filter chunks).
  assert (Hcs : concat cs = concat chunks) by apply ne_filter_concat.
  assert (Hne : Forall nonempty cs) by apply ne_filter_nonempty.
  set (r0 := mkRd [] cs (eff_limit limit) 0 false (end_of tmo)).
  assert (Hi0 : inv r0) by (apply inv_start; [exact Hne|rewrite Hcs; exact Hb]).
  assert (Hr0 : remaining r0 = v2_stream 33 fam L rest) by (unfold remaining, r0; cbn [r_buf r_chunks app]; congruence).
  assert (Hb0 : 16 + L <= budget r0) by (unfold budget, r0, blen; cbn [r_buf r_lim length]; lia).
  destruct (proxy_read_v2 os od r0 fam L rest Hi0 Hr0 HL Hfam Hmin Hrest Hb0) as (r' & E & I' & R').
  rewrite E. cbv beta iota.
  rewrite drain_after; [|exact I'|].
  2:{ assert (Hl : (length (concat (r_chunks r')) <= length (remaining r'))%nat) by (unfold remaining; rewrite app_length; lia).
      rewrite R' in Hl. rewrite skipn_length in Hl.
      assert (Hl2 : blen (concat cs) = 16 + blen rest) by (rewrite Hcs, Hs; apply blen_v2_stream).
      unfold fuel_of, r0. cbn [r_chunks]. unfold blen in Hl2. lia. }
  rewrite R'. change (E_EOF =? E_EOF) with true. cbv beta iota zeta. reflexivity.
Qed.

Lemma enc_v2_proxy_stream fam src dst sp dp tlv payload :
  enc_v2_proxy fam src dst sp dp tlv ++ payload =
  v2_stream 33 fam (blen (block_ip src dst sp dp ++ tlv)) ((block_ip src dst sp dp ++ tlv) ++ payload).
Proof.
  unfold enc_v2_proxy, enc_v2, SIGV2, u16be, v2_stream. cbn [app]. rewrite <- !app_assoc. reflexivity.
Qed.

Lemma firstn_app_exactZ (a b : bytes) : firstn (Z.to_nat (blen a)) (a ++ b) = a.
Proof.
  unfold blen. rewrite Nat2Z.id. induction a as [|x a IH]; [reflexivity|]. cbn [length app firstn]. rewrite IH. reflexivity.
Qed.
Lemma skipn_app_exactZ (a b : bytes) : skipn (Z.to_nat (blen a)) (a ++ b) = b.
Proof.
  unfold blen. rewrite Nat2Z.id. induction a as [|x a IH]; [reflexivity|]. cbn [length app skipn]. exact IH.
Qed.

Theorem v2_proxy_roundtrip tmo limit chunks os od fam src dst sp dp tlv payload :
  concat chunks = enc_v2_proxy fam src dst sp dp tlv ++ payload ->
  blen (concat chunks) <= BUFSZ ->
  ((fam = 17 \/ fam = 18) /\ blen src = 4 /\ blen dst = 4) \/ ((fam = 33 \/ fam = 34) /\ blen src = 16 /\ blen dst = 16) ->
  0 <= sp < 65536 -> 0 <= dp < 65536 ->
  16 + blen (block_ip src dst sp dp ++ tlv) <= eff_limit limit ->
  conn_run tmo limit chunks os od =
  VL [VL [VB (canon_ip src); VZ sp]; VL [VB (canon_ip dst); VZ dp; VZ 1]; VB payload; VZ 0; VZ 0].
Proof.
  intros Hs Hb Hfam Hsp Hdp Hlim.
  rewrite enc_v2_proxy_stream in Hs.
  set (blk := block_ip src dst sp dp ++ tlv) in *.
  assert (Hblk : blen blk = blen src + blen dst + 4 + blen tlv).
  { unfold blk, block_ip, u16be. rewrite !blen_app. unfold blen. cbn [length]. lia. }
  pose proof (blen_nonneg tlv) as Ht0. pose proof (blen_nonneg payload) as Hp0.
  assert (HbL : 16 + blen blk + blen payload <= BUFSZ).
  { rewrite Hs, blen_v2_stream, blen_app in Hb. lia. }
  change BUFSZ with 4096 in HbL.
  assert (Hmin : fam_supported fam = true /\ min_len fam <= blen blk).
  { destruct Hfam as [[[->| ->] [H1 H2]]|[[->| ->] [H1 H2]]]; (split; [reflexivity|]);
      [change (min_len 17) with 12|change (min_len 18) with 12|change (min_len 33) with 36|change (min_len 34) with 36]; lia. }
  rewrite (conn_run_v2 tmo limit chunks os od fam (blen blk) (blk ++ payload) Hs Hb);
    [|pose proof (blen_nonneg blk); lia|apply Hmin|apply Hmin|rewrite blen_app; lia|exact Hlim].
  rewrite firstn_app_exactZ, skipn_app_exactZ.
  unfold blk, block_ip, u16be.
  destruct Hfam as [[[->| ->] [H1 H2]]|[[->| ->] [H1 H2]]]; destr_list src H1; destr_list dst H2;
    unfold v2_hdr; cbn [app sub firstn skipn];
    rewrite !be16_u16 by assumption; reflexivity.
Qed.

(* ---------------- v2 LOCAL header (after the repair: family, length and block are skipped) ---------------- *)
Lemma proxy_read_v2_local os od r fam L rest :
  inv r -> remaining r = v2_stream 32 fam L rest ->
  0 <= L < 65536 -> L <= blen rest -> 16 + L <= budget r ->
  exists r', proxy_read os od r = (RHdr (mkHdr true 0 None None 0 0), r') /\
             inv r' /\ remaining r' = skipn (Z.to_nat L) rest.
Proof.
  intros Hi Hrem HL Hrest Hbud.
  pose proof (blen_nonneg rest) as Hr0.
  assert (Hlen : blen (remaining r) = 16 + blen rest) by (rewrite Hrem; apply blen_v2_stream).
  unfold proxy_read.
  destruct (peek_ok 1 r Hi ltac:(lia) ltac:(lia) ltac:(lia)) as (r1 & E1 & I1 & R1 & B1 & _).
  rewrite E1, Hrem. change (Z.to_nat 1) with 1%nat. unfold v2_stream at 1. cbn [firstn nth].
  change ((13 =? 80) || (13 =? 13)) with true. cbn [negb].
  destruct (peek_ok 5 r1 I1 ltac:(lia) ltac:(rewrite R1; lia) ltac:(lia)) as (r2 & E2 & I2 & R2 & B2 & _).
  rewrite E2, R1, Hrem. change (Z.to_nat 5) with 5%nat. unfold v2_stream at 1. cbn [firstn].
  change (bytes_eqb [13; 10; 13; 10; 0] SIGV1) with false.
  destruct (peek_ok 12 r2 I2 ltac:(lia) ltac:(rewrite R2, R1; lia) ltac:(lia)) as (r3 & E3 & I3 & R3 & B3 & _).
  rewrite E3, R2, R1, Hrem. change (Z.to_nat 12) with 12%nat. unfold v2_stream at 1. cbn [firstn].
  change (bytes_eqb [13; 10; 13; 10; 0; 13; 10; 81; 85; 73; 84; 10] SIGV2) with true.
  assert (Hrem3 : remaining r3 = v2_stream 32 fam L rest) by congruence.
  unfold parse_v2.
  destruct (read_n_ok 12 r3 I3 ltac:(lia) ltac:(rewrite Hrem3, blen_v2_stream; lia) ltac:(lia)) as (r4 & E4 & I4 & R4 & B4).
  rewrite E4. cbv beta iota.
  rewrite Hrem3 in R4. change (Z.to_nat 12) with 12%nat in R4. unfold v2_stream in R4. cbn [skipn] in R4.
  destruct (read_n_ok 1 r4 I4 ltac:(lia) ltac:(rewrite R4, !blen_cons; lia) ltac:(lia)) as (r5 & E5 & I5 & R5 & B5).
  rewrite E5, R4. change (Z.to_nat 1) with 1%nat. cbn [firstn nth].
  change ((32 =? 32) || (32 =? 33)) with true. change (32 =? 32) with true. cbn [negb].
  rewrite R4 in R5. change (Z.to_nat 1) with 1%nat in R5. cbn [skipn] in R5.
  destruct (peek_ok 1 r5 I5 ltac:(lia) ltac:(rewrite R5, !blen_cons; lia) ltac:(lia)) as (r6 & E6 & I6 & R6 & B6 & _).
  rewrite E6. cbv beta iota.
  destruct (read_n_ok 3 r6 I6 ltac:(lia) ltac:(rewrite R6, R5, !blen_cons; lia) ltac:(lia)) as (r7 & E7 & I7 & R7 & B7).
  rewrite E7, R6, R5. change (Z.to_nat 3) with 3%nat. cbn [firstn skipn]. rewrite be16_u16 by exact HL.
  rewrite R6, R5 in R7. change (Z.to_nat 3) with 3%nat in R7. cbn [skipn] in R7.
  destruct (peek_ok L r7 I7 ltac:(lia) ltac:(rewrite R7; lia) ltac:(lia)) as (r8 & E8 & I8 & R8 & B8 & Hb8).
  rewrite E8.
  destruct (drop_ok L r8 I8 ltac:(lia)) as (D1 & D2 & D3).
  rewrite R8, R7 in D2.
  eexists; split; [reflexivity|split; [exact D1|exact D2]].
Qed.

Theorem v2_local_roundtrip tmo limit chunks os od fam block tlv payload :
  concat chunks = enc_v2 32 fam block tlv ++ payload ->
  blen (concat chunks) <= BUFSZ ->
  16 + blen (block ++ tlv) <= eff_limit limit ->
  conn_run tmo limit chunks os od = VL [VL []; VL []; VB payload; VZ 0; VZ 0].
Proof.
  intros Hs Hb Hlim.
  assert (Hs' : concat chunks = v2_stream 32 fam (blen (block ++ tlv)) ((block ++ tlv) ++ payload)).
  { rewrite Hs. unfold enc_v2, SIGV2, u16be, v2_stream. cbn [app]. rewrite <- !app_assoc. reflexivity. }
  set (blk := block ++ tlv) in *.
  pose proof (blen_nonneg blk) as Hk0. pose proof (blen_nonneg payload) as Hp0.
  assert (HbL : 16 + blen blk + blen payload <= 4096).
  { rewrite Hs', blen_v2_stream, blen_app in Hb. change BUFSZ with 4096 in Hb. lia. }
  unfold conn_run. fold (ne_filter chunks).
  set (cs := ne_filter chunks).
  assert (Hcs : concat cs = concat chunks) by apply ne_filter_concat.
  assert (Hne : Forall nonempty cs) by apply ne_filter_nonempty.
  set (r0 := mkRd [] cs (eff_limit limit) 0 false (end_of tmo)).
  assert (Hi0 : inv r0) by (apply inv_start; [exact Hne|rewrite Hcs; exact Hb]).
  assert (Hr0 : remaining r0 = v2_stream 32 fam (blen blk) (blk ++ payload)) by (unfold remaining, r0; cbn [r_buf r_chunks app]; congruence).
  assert (Hb0 : 16 + blen blk <= budget r0) by (unfold budget, r0, blen; cbn [r_buf r_lim length]; unfold blen in Hlim; lia).
  destruct (proxy_read_v2_local os od r0 fam (blen blk) (blk ++ payload) Hi0 Hr0 ltac:(lia) ltac:(rewrite blen_app; lia) Hb0) as (r' & E & I' & R').
  rewrite E. cbv beta iota.
  rewrite drain_after; [|exact I'|].
  2:{ assert (Hl : (length (concat (r_chunks r')) <= length (remaining r'))%nat) by (unfold remaining; rewrite app_length; lia).
      rewrite R' in Hl. rewrite skipn_length in Hl.
      assert (Hl2 : blen (concat cs) = 16 + blen (blk ++ payload)) by (rewrite Hcs, Hs'; apply blen_v2_stream).
      unfold fuel_of, r0. cbn [r_chunks]. unfold blen in Hl2. lia. }
  rewrite R', skipn_app_exactZ. change (E_EOF =? E_EOF) with true. cbv beta iota zeta. reflexivity.
Qed.

(* ---------------- no header ---------------- *)
Theorem no_header_passthrough tmo limit chunks os od b rest :
  concat chunks = b :: rest -> b <> 80 -> b <> 13 -> blen (concat chunks) <= BUFSZ ->
  conn_run tmo limit chunks os od = VL [VL []; VL []; VB (b :: rest); VZ 0; VZ 0].
Proof.
  intros Hs H80 H13 Hb.
  unfold conn_run. fold (ne_filter chunks).
  set (cs := ne_filter chunks).
  assert (Hcs : concat cs = concat chunks) by apply ne_filter_concat.
  assert (Hne : Forall nonempty cs) by apply ne_filter_nonempty.
  set (r0 := mkRd [] cs (eff_limit limit) 0 false (end_of tmo)).
  assert (Hi0 : inv r0) by (apply inv_start; [exact Hne|rewrite Hcs; exact Hb]).
  assert (Hr0 : remaining r0 = b :: rest) by (unfold remaining, r0; cbn [r_buf r_chunks app]; congruence).
  assert (Hl : 1 <= eff_limit limit) by (unfold eff_limit; destruct (limit <=? 0) eqn:E; lia).
  pose proof (blen_nonneg rest) as Hr.
  destruct (peek_ok 1 r0 Hi0 ltac:(lia) ltac:(rewrite Hr0, blen_cons; lia)
              ltac:(unfold budget, r0, blen; cbn [r_buf r_lim length]; lia)) as (r1 & E1 & I1 & R1 & B1 & _).
  unfold proxy_read. rewrite E1, Hr0. change (Z.to_nat 1) with 1%nat. cbn [firstn nth].
  replace ((b =? 80) || (b =? 13)) with false by lia. cbn [negb]. cbv beta iota.
  rewrite drain_after; [|exact I1|].
  2:{ assert (Hl1 : (length (concat (r_chunks r1)) <= length (remaining r1))%nat) by (unfold remaining; rewrite app_length; lia).
      rewrite R1, Hr0 in Hl1.
      assert (Hl2 : length (concat cs) = length (b :: rest)) by congruence.
      unfold fuel_of, r0. cbn [r_chunks]. lia. }
  rewrite R1, Hr0. change (E_EOF =? E_EOF) with true. cbv beta iota zeta. reflexivity.
Qed.

(* streams starting with 'P' or CR that are not a signature, when 12 bytes can be read *)
Lemma is_prefix_firstn (p s : bytes) : is_prefix p s = false -> (length p <= length s)%nat ->
  bytes_eqb (firstn (length p) s) p = false.
Proof.
  revert s. induction p as [|x p IH]; intros s H Hl; [cbn [is_prefix] in H; discriminate|].
  destruct s as [|y s]; [cbn [length] in Hl; lia|].
  cbn [is_prefix] in H. cbn [length firstn]. unfold bytes_eqb. cbn [list_Z_eqb].
  destruct (x =? y) eqn:E.
  - cbn [andb] in H. rewrite Z.eqb_sym, E. cbn [andb]. apply IH; [exact H|cbn [length] in Hl; lia].
  - rewrite Z.eqb_sym, E. reflexivity.
Qed.

Theorem no_header_passthrough_sig tmo limit chunks os od :
  is_prefix SIGV1 (concat chunks) = false -> is_prefix SIGV2 (concat chunks) = false ->
  12 <= blen (concat chunks) -> 12 <= eff_limit limit -> blen (concat chunks) <= BUFSZ ->
  conn_run tmo limit chunks os od = VL [VL []; VL []; VB (concat chunks); VZ 0; VZ 0].
Proof.
  intros H1 H2 H12 Hlim Hb.
  set (s := concat chunks) in *.
  unfold conn_run. fold (ne_filter chunks).
  set (cs := ne_filter chunks).
  assert (Hcs : concat cs = s) by apply ne_filter_concat.
  assert (Hne : Forall nonempty cs) by apply ne_filter_nonempty.
  set (r0 := mkRd [] cs (eff_limit limit) 0 false (end_of tmo)).
  assert (Hi0 : inv r0) by (apply inv_start; [exact Hne|rewrite Hcs; exact Hb]).
  assert (Hr0 : remaining r0 = s) by (unfold remaining, r0; cbn [r_buf r_chunks app]; exact Hcs).
  assert (Hbud : budget r0 = eff_limit limit) by (unfold budget, r0, blen; cbn [r_buf r_lim length]; lia).
  assert (Hfin : forall r1, inv r1 -> remaining r1 = s ->
            (let '(data, e) := drain (fuel_of r0 + fuel_of r0) (mkRd (r_buf r1) (r_chunks r1) NOLIMIT (r_err r1) false E_EOF) [] in
             VL [vaddr None; vaddr_d None; VB data; VZ (if e =? E_EOF then 0 else if e =? E_CLOSED then 1 else if e =? E_TMO then 2 else 3); VZ 0])
            = VL [VL []; VL []; VB s; VZ 0; VZ 0]).
  { intros r1 I1 R1. rewrite drain_after; [|exact I1|].
    - rewrite R1. reflexivity.
    - assert (Hl1 : (length (concat (r_chunks r1)) <= length (remaining r1))%nat) by (unfold remaining; rewrite app_length; lia).
      rewrite R1 in Hl1. unfold fuel_of, r0. cbn [r_chunks]. rewrite Hcs. lia. }
  unfold proxy_read.
  destruct (peek_ok 1 r0 Hi0 ltac:(lia) ltac:(rewrite Hr0; lia) ltac:(lia)) as (r1 & E1 & I1 & R1 & B1 & _).
  rewrite E1.
  destruct (negb ((nth 0 (firstn (Z.to_nat 1) (remaining r0)) 0 =? 80) || (nth 0 (firstn (Z.to_nat 1) (remaining r0)) 0 =? 13))).
  { cbv beta iota. apply Hfin; [exact I1|congruence]. }
  destruct (peek_ok 5 r1 I1 ltac:(lia) ltac:(rewrite R1, Hr0; lia) ltac:(lia)) as (r2 & E2 & I2 & R2 & B2 & _).
  rewrite E2, R1, Hr0. change (Z.to_nat 5) with (length SIGV1).
  rewrite is_prefix_firstn by (try exact H1; unfold blen in H12; cbn [SIGV1 length]; lia).
  destruct (peek_ok 12 r2 I2 ltac:(lia) ltac:(rewrite R2, R1, Hr0; lia) ltac:(lia)) as (r3 & E3 & I3 & R3 & B3 & _).
  rewrite E3, R2, R1, Hr0. change (Z.to_nat 12) with (length SIGV2).
  rewrite is_prefix_firstn by (try exact H2; unfold blen in H12; cbn [SIGV2 length]; lia).
  cbv beta iota. apply Hfin; [exact I3|congruence].
Qed.

(* finding 1 as a theorem: "PUT" then EOF has no signature, but nothing is delivered and the connection is closed *)
Lemma no_header_refuted_lemma :
  exists chunks, spec_classify 0 [] [] (concat chunks) = SNoHeader
                 /\ conn_run false 0 chunks [] [] = VL [VL []; VL []; VB []; VZ 0; VZ 1]
                 /\ short_sig_first 0 (concat chunks) = true.
Proof. exists [[80; 85; 84]]. vm_compute. repeat split. Qed.

(* ---------------- malformed header: nothing is delivered, the connection is closed ---------------- *)
Theorem malformed_no_data tmo limit chunks os od code r' :
  proxy_read os od (mkRd [] (ne_filter chunks) (eff_limit limit) 0 false (end_of tmo)) = (RErr code, r') ->
  conn_run tmo limit chunks os od = VL [VL []; VL []; VB []; VZ code; VZ 1].
Proof. intros H. unfold conn_run. fold (ne_filter chunks). rewrite H. reflexivity. Qed.

(* ---------------- v1: reading the line ---------------- *)
Lemma has_nl_app a b : has_nl (a ++ b) = has_nl a || has_nl b.
Proof. unfold has_nl. apply existsb_app. Qed.

Lemma prefix_no_nl (buf X l0 rest : bytes) :
  buf ++ X = l0 ++ 10 :: rest -> has_nl l0 = false -> has_nl buf = false -> blen buf <= blen l0.
Proof.
  revert l0. induction buf as [|x buf IH]; intros l0 H Hl Hb; [unfold blen; cbn [length]; lia|].
  destruct l0 as [|y l0].
  - cbn [app] in H. injection H as -> _. unfold has_nl in Hb. cbn [existsb] in Hb. discriminate.
  - cbn [app] in H. injection H as -> H.
    unfold has_nl in Hl, Hb. cbn [existsb] in Hl, Hb. apply orb_false_iff in Hl. apply orb_false_iff in Hb.
    rewrite !blen_cons. pose proof (IH l0 H (proj2 Hl) (proj2 Hb)). lia.
Qed.

Lemma prefix_with_nl (buf X l0 rest : bytes) :
  buf ++ X = l0 ++ 10 :: rest -> has_nl l0 = false -> has_nl buf = true ->
  exists t, buf = l0 ++ 10 :: t /\ rest = t ++ X.
Proof.
  revert l0. induction buf as [|x buf IH]; intros l0 H Hl Hb; [unfold has_nl in Hb; cbn [existsb] in Hb; discriminate|].
  destruct l0 as [|y l0].
  - cbn [app] in H. injection H as -> H. exists buf. split; [reflexivity|symmetry; exact H].
  - cbn [app] in H. injection H as -> H.
    unfold has_nl in Hl, Hb. cbn [existsb] in Hl, Hb. apply orb_false_iff in Hl. destruct Hl as [Hy Hl].
    rewrite Hy in Hb. cbn [orb] in Hb.
    destruct (IH l0 H Hl Hb) as (t & E1 & E2). exists t. split; [cbn [app]; rewrite E1; reflexivity|exact E2].
Qed.

Lemma cut_nl_app l0 t : has_nl l0 = false -> cut_nl (l0 ++ 10 :: t) = (l0 ++ [10], t).
Proof.
  induction l0 as [|y l0 IH]; intros H; [reflexivity|].
  unfold has_nl in H. cbn [existsb] in H. apply orb_false_iff in H. destruct H as [Hy H].
  cbn [app cut_nl]. rewrite Z.eqb_sym in Hy. rewrite Hy. rewrite (IH H). reflexivity.
Qed.

Lemma fill_until_nl_ok fuel : forall r l0 rest,
  inv r -> (length (concat (r_chunks r)) < fuel)%nat -> remaining r = l0 ++ 10 :: rest -> has_nl l0 = false ->
  blen l0 + 1 <= budget r ->
  let r' := fill_until_nl fuel r in
  inv r' /\ remaining r' = remaining r /\ has_nl (r_buf r') = true.
Proof.
  induction fuel as [|fuel IH]; intros r l0 rest Hi Hf Hrem Hl Hb; [lia|].
  cbn [fill_until_nl]. pose proof Hi as Hi0. destruct Hi as (He & Hc & Hne & Hbz). rewrite He.
  change (negb (0 =? 0)) with false. rewrite orb_false_r.
  destruct (has_nl (r_buf r)) eqn:E.
  - cbv zeta. split; [exact Hi0|split; [reflexivity|exact E]].
  - assert (Hpre : blen (r_buf r) <= blen l0) by (unfold remaining in Hrem; eapply prefix_no_nl; eauto).
    destruct (r_chunks r) as [|c cs] eqn:Ecs.
    + unfold remaining in Hrem. rewrite Ecs in Hrem. cbn [concat] in Hrem. rewrite app_nil_r in Hrem.
      rewrite Hrem, has_nl_app in E. unfold has_nl at 2 in E. cbn [existsb Z.eqb] in E.
      change (10 =? 10) with true in E. cbn [orb] in E. rewrite orb_true_r in E. discriminate.
    + assert (Hlim : 0 < r_lim r) by (unfold budget in Hb; lia).
      destruct (fill_step r c cs Hi0 Ecs Hlim) as (Hi' & Hr' & Hb' & _ & Hlen).
      rewrite Ecs in Hlen.
      destruct (IH (fill r) l0 rest Hi') as (H1 & H2 & H3); [lia|rewrite Hr'; exact Hrem|exact Hl|rewrite Hb'; exact Hb|].
      cbv zeta. split; [exact H1|split; [congruence|exact H3]].
Qed.

Lemma read_line_ok r l0 rest :
  inv r -> remaining r = l0 ++ 10 :: rest -> has_nl l0 = false -> blen l0 + 1 <= budget r ->
  exists r', read_line r = (Some (l0 ++ [10]), 0, r') /\ inv r' /\ remaining r' = rest.
Proof.
  intros Hi Hrem Hl Hb. unfold read_line.
  destruct (fill_until_nl_ok (fuel_of r) r l0 rest Hi (fuel_ok r) Hrem Hl Hb) as (H1 & H2 & H3).
  set (r1 := fill_until_nl (fuel_of r) r) in *.
  rewrite H3.
  assert (Hr1 : r_buf r1 ++ concat (r_chunks r1) = l0 ++ 10 :: rest) by (rewrite <- Hrem, <- H2; reflexivity).
  destruct (prefix_with_nl _ _ _ _ Hr1 Hl H3) as (t & E1 & E2).
  rewrite E1, cut_nl_app by exact Hl.
  eexists. split; [reflexivity|].
  destruct H1 as (He & Hc & Hne & Hbz).
  unfold inv, remaining, set_buf. cbn [r_buf r_chunks r_lim r_err r_closed r_end].
  split; [split; [exact He|split; [exact Hc|split; [exact Hne|]]]|symmetry; exact E2].
  unfold remaining in Hbz. rewrite E1 in Hbz. rewrite !blen_app, !blen_cons in Hbz. rewrite blen_app.
  pose proof (blen_nonneg l0). lia.
Qed.

(* ---------------- v1: text ---------------- *)
Definition noc (c : Z) (t : bytes) : Prop := existsb (Z.eqb c) t = false.

Lemma split_noc c t : noc c t -> split_byte c t = [t].
Proof.
  unfold noc. induction t as [|x t IH]; intros H; [reflexivity|].
  cbn [existsb] in H. apply orb_false_iff in H. destruct H as [Hx H].
  cbn [split_byte]. rewrite (IH H). rewrite Z.eqb_sym in Hx. rewrite Hx. reflexivity.
Qed.
Lemma split_app_noc c t s : noc c t -> split_byte c (t ++ c :: s) = t :: split_byte c s.
Proof.
  unfold noc. induction t as [|x t IH]; intros H.
  - cbn [app split_byte]. pose proof (split_byte_nonempty c s) as Hn.
    destruct (split_byte c s) as [|cur r]; [congruence|]. rewrite Z.eqb_refl. reflexivity.
  - cbn [existsb] in H. apply orb_false_iff in H. destruct H as [Hx H].
    cbn [app split_byte]. rewrite (IH H). rewrite Z.eqb_sym in Hx. rewrite Hx. reflexivity.
Qed.
Lemma split_join c toks : toks <> [] -> Forall (noc c) toks -> split_byte c (join_byte c toks) = toks.
Proof.
  induction toks as [|t toks IH]; intros Hne H; [congruence|].
  inversion H as [|? ? Ht Hr]; subst.
  destruct toks as [|t' toks]; [cbn [join_byte]; apply split_noc; exact Ht|].
  change (join_byte c (t :: t' :: toks)) with (t ++ c :: join_byte c (t' :: toks)).
  rewrite split_app_noc by exact Ht. rewrite IH; [reflexivity|discriminate|exact Hr].
Qed.

Definition digits (t : bytes) : Prop := forallb is_digit t = true.
Lemma digits_noc c t : is_digit c = false -> digits t -> noc c t.
Proof.
  unfold digits, noc. intros Hc. induction t as [|x t IH]; intros H; [reflexivity|].
  cbn [forallb] in H. apply andb_true_iff in H. destruct H as [Hx H].
  cbn [existsb]. rewrite (IH H), orb_false_r.
  destruct (c =? x) eqn:E; [|reflexivity]. apply Z.eqb_eq in E. subst. congruence.
Qed.
Lemma noc_app c a b : noc c a -> noc c b -> noc c (a ++ b).
Proof. unfold noc. intros H1 H2. rewrite existsb_app, H1, H2. reflexivity. Qed.
Lemma noc_cons c x a : (c =? x) = false -> noc c a -> noc c (x :: a).
Proof. unfold noc. intros H1 H2. cbn [existsb]. rewrite H1, H2. reflexivity. Qed.

(* exhaustive facts about the decimal text of octets and ports *)
Definition opt_eqb (a : option Z) (b : Z) : bool := match a with Some x => x =? b | None => false end.
Definition chk_octet (a : Z) : bool := forallb is_digit (dec_of_Z a) && opt_eqb (parse_octet (dec_of_Z a)) a.
Definition chk_port (p : Z) : bool := forallb is_digit (dec_of_Z p) && opt_eqb (parse_port_go (dec_of_Z p)) p.
Lemma all_octets : forallb (fun n => chk_octet (Z.of_nat n)) (seq 0 256) = true.
Proof. vm_compute. reflexivity. Qed.
Lemma all_ports : forallb (fun h => forallb (fun l => chk_port (Z.of_nat h * 256 + Z.of_nat l)) (seq 0 256)) (seq 0 256) = true.
Proof. vm_compute. reflexivity. Qed.
Lemma opt_eqb_eq a b : opt_eqb a b = true -> a = Some b.
Proof. destruct a as [x|]; cbn [opt_eqb]; [intros H; apply Z.eqb_eq in H; congruence|discriminate]. Qed.
Lemma octet_ok a : 0 <= a < 256 -> digits (dec_of_Z a) /\ parse_octet (dec_of_Z a) = Some a.
Proof.
  intros H. pose proof all_octets as A. rewrite forallb_forall in A.
  specialize (A (Z.to_nat a)). rewrite Z2Nat.id in A by lia.
  assert (Hin : In (Z.to_nat a) (seq 0 256)) by (apply in_seq; lia).
  specialize (A Hin). unfold chk_octet in A. apply andb_true_iff in A. destruct A as [A1 A2].
  split; [exact A1|apply opt_eqb_eq; exact A2].
Qed.
Lemma port_ok p : 0 <= p < 65536 -> digits (dec_of_Z p) /\ parse_port_go (dec_of_Z p) = Some p.
Proof.
  intros H. pose proof all_ports as A. rewrite forallb_forall in A.
  assert (Hh : 0 <= p / 256 < 256) by (split; [apply Z.div_pos; lia|apply Z.div_lt_upper_bound; lia]).
  assert (Hl : 0 <= p mod 256 < 256) by (apply Z.mod_pos_bound; lia).
  specialize (A (Z.to_nat (p / 256)) ltac:(apply in_seq; lia)). rewrite forallb_forall in A.
  specialize (A (Z.to_nat (p mod 256)) ltac:(apply in_seq; lia)).
  rewrite !Z2Nat.id in A by lia.
  replace (p / 256 * 256 + p mod 256) with p in A by (pose proof (Z.div_mod p 256 ltac:(lia)); lia).
  unfold chk_port in A. apply andb_true_iff in A. destruct A as [A1 A2].
  split; [exact A1|apply opt_eqb_eq; exact A2].
Qed.

Lemma wf4 (l : bytes) : blen l = 4 -> wf_bytes l = true ->
  exists a b c d, l = [a; b; c; d] /\ 0 <= a < 256 /\ 0 <= b < 256 /\ 0 <= c < 256 /\ 0 <= d < 256.
Proof.
  intros H W. destr_list l H. exists z, z0, z1, z2. split; [reflexivity|].
  unfold wf_bytes, wf_byte in W. cbn [forallb] in W. lia.
Qed.

Lemma dotted_ok a b c d : 0 <= a < 256 -> 0 <= b < 256 -> 0 <= c < 256 -> 0 <= d < 256 ->
  parse_ipv4 (dotted [a; b; c; d]) = Some [a; b; c; d] /\ noc 32 (dotted [a; b; c; d]) /\ noc 10 (dotted [a; b; c; d]) /\ noc 58 (dotted [a; b; c; d]).
Proof.
  intros Ha Hb Hc Hd.
  destruct (octet_ok a Ha) as [Da Pa]. destruct (octet_ok b Hb) as [Db Pb].
  destruct (octet_ok c Hc) as [Dc Pc]. destruct (octet_ok d Hd) as [Dd Pd].
  unfold dotted. cbn [map].
  split.
  - unfold parse_ipv4. rewrite split_join; [|discriminate|].
    + rewrite Pa, Pb, Pc, Pd. reflexivity.
    + repeat constructor; apply digits_noc; try assumption; reflexivity.
  - cbn [join_byte].
    repeat split; repeat (first [apply noc_app|apply noc_cons; [reflexivity|]]); apply digits_noc; try assumption; reflexivity.
Qed.

(* ---------------- v1 TCP4 header ---------------- *)
Definition v1_toks (src dst : bytes) (sp dp : Z) : list bytes :=
  [SIGV1; T_TCP4; dotted src; dotted dst; dec_of_Z sp; dec_of_Z dp].
Definition v1_body (src dst : bytes) (sp dp : Z) : bytes := join_byte 32 (v1_toks src dst sp dp).

Lemma enc_v1_tcp4_body src dst sp dp : enc_v1_tcp4 src dst sp dp = v1_body src dst sp dp ++ [13; 10].
Proof.
  unfold enc_v1_tcp4, v1_body, v1_toks. cbn [join_byte].
  repeat (rewrite <- app_assoc; cbn [app]). reflexivity.
Qed.

Lemma noc_join c toks : (c =? 32) = false -> Forall (noc c) toks -> noc c (join_byte 32 toks).
Proof.
  intros Hc. induction 1 as [|t toks Ht Hr IH]; [reflexivity|].
  destruct toks as [|t' toks]; [exact Ht|].
  change (join_byte 32 (t :: t' :: toks)) with (t ++ 32 :: join_byte 32 (t' :: toks)).
  apply noc_app; [exact Ht|apply noc_cons; [exact Hc|exact IH]].
Qed.

Lemma ends_crlf_ok body : ends_crlf ((body ++ [13]) ++ [10]) = true.
Proof. unfold ends_crlf, is_suffix. rewrite !rev_app_distr. reflexivity. Qed.
Lemma strip_crlf body : firstn (length ((body ++ [13]) ++ [10]) - 2) ((body ++ [13]) ++ [10]) = body.
Proof.
  rewrite <- app_assoc. rewrite app_length. cbn [app length].
  replace (length body + 2 - 2)%nat with (length body + 0)%nat by lia.
  rewrite firstn_app_2. cbn [firstn]. apply app_nil_r.
Qed.

Lemma proxy_read_v1_tcp4 os od r a b c d e f g h sp dp rest :
  inv r ->
  remaining r = v1_body [a; b; c; d] [e; f; g; h] sp dp ++ 13 :: 10 :: rest ->
  0 <= a < 256 -> 0 <= b < 256 -> 0 <= c < 256 -> 0 <= d < 256 ->
  0 <= e < 256 -> 0 <= f < 256 -> 0 <= g < 256 -> 0 <= h < 256 ->
  0 <= sp < 65536 -> 0 <= dp < 65536 ->
  blen (v1_body [a; b; c; d] [e; f; g; h] sp dp) + 2 <= budget r ->
  exists r', proxy_read os od r =
             (RHdr (mkHdr false 17 (Some (V4PREFIX ++ [a; b; c; d])) (Some (V4PREFIX ++ [e; f; g; h])) sp dp), r') /\
             inv r' /\ remaining r' = rest.
Proof.
  intros Hi Hrem Ha Hb Hc Hd He Hf Hg Hh Hsp Hdp Hbud.
  destruct (dotted_ok a b c d Ha Hb Hc Hd) as (PS & S32 & S10 & S58).
  destruct (dotted_ok e f g h He Hf Hg Hh) as (PD & D32 & D10 & D58).
  destruct (port_ok sp Hsp) as (DSp & PSp). destruct (port_ok dp Hdp) as (DDp & PDp).
  set (body := v1_body [a; b; c; d] [e; f; g; h] sp dp) in *.
  assert (Hbody : exists tl, body = 80 :: 82 :: 79 :: 88 :: 89 :: tl).
  { unfold body, v1_body, v1_toks, SIGV1. cbn [join_byte app]. eexists. reflexivity. }
  destruct Hbody as (tl & Hbody).
  pose proof (blen_nonneg tl) as Htl. pose proof (blen_nonneg rest) as Hrest.
  assert (Hlen : blen (remaining r) = blen body + 2 + blen rest) by (rewrite Hrem, blen_app, !blen_cons; lia).
  assert (Hbl : blen body = 5 + blen tl) by (rewrite Hbody, !blen_cons; lia).
  unfold proxy_read.
  destruct (peek_ok 1 r Hi ltac:(lia) ltac:(lia) ltac:(lia)) as (r1 & E1 & I1 & R1 & B1 & _).
  rewrite E1, Hrem, Hbody. change (Z.to_nat 1) with 1%nat. cbn [app firstn nth].
  change ((80 =? 80) || (80 =? 13)) with true. cbn [negb].
  destruct (peek_ok 5 r1 I1 ltac:(lia) ltac:(rewrite R1; lia) ltac:(lia)) as (r2 & E2 & I2 & R2 & B2 & _).
  rewrite E2, R1, Hrem, Hbody. change (Z.to_nat 5) with 5%nat. cbn [app firstn].
  change (bytes_eqb [80; 82; 79; 88; 89] SIGV1) with true.
  unfold parse_v1.
  assert (Htoks32 : Forall (noc 32) (v1_toks [a; b; c; d] [e; f; g; h] sp dp)).
  { unfold v1_toks. repeat constructor; try assumption; try reflexivity; apply digits_noc; try assumption; reflexivity. }
  assert (Htoks10 : Forall (noc 10) (v1_toks [a; b; c; d] [e; f; g; h] sp dp)).
  { unfold v1_toks. repeat constructor; try assumption; try reflexivity; apply digits_noc; try assumption; reflexivity. }
  assert (Hnl : has_nl (body ++ [13]) = false).
  { apply noc_app; [apply noc_join; [reflexivity|exact Htoks10]|reflexivity]. }
  assert (Hrem2 : remaining r2 = (body ++ [13]) ++ 10 :: rest).
  { rewrite R2, R1, Hrem, <- app_assoc. reflexivity. }
  destruct (read_line_ok r2 (body ++ [13]) rest I2 Hrem2 Hnl ltac:(rewrite blen_app; unfold blen at 2; cbn [length]; lia))
    as (r3 & E3 & I3 & R3).
  rewrite E3. rewrite ends_crlf_ok. cbn [negb]. rewrite strip_crlf.
  assert (Hsplit : split_byte 32 body = v1_toks [a; b; c; d] [e; f; g; h] sp dp).
  { unfold body, v1_body. apply split_join; [discriminate|exact Htoks32]. }
  rewrite Hsplit.
  unfold v1_toks. cbn [nth length].
  change (bytes_eqb T_TCP4 T_UNKNOWN) with false. cbn [andb].
  change (6 <? 6)%nat with false.
  change (bytes_eqb T_TCP4 T_TCP4) with true. cbv beta iota zeta.
  unfold v1_ip, parse_ip. unfold noc in S58, D58. unfold has_colon. rewrite S58, D58, PS, PD.
  change (has_to4 (V4PREFIX ++ [a; b; c; d])) with true. change (has_to4 (V4PREFIX ++ [e; f; g; h])) with true.
  change (17 =? 17) with true. change (17 =? 33) with false. cbn [negb andb orb].
  rewrite PSp, PDp.
  eexists. split; [reflexivity|split; [exact I3|exact R3]].
Qed.

Theorem v1_tcp4_roundtrip tmo limit chunks os od src dst sp dp payload :
  concat chunks = enc_v1_tcp4 src dst sp dp ++ payload ->
  blen (concat chunks) <= BUFSZ ->
  blen src = 4 -> blen dst = 4 -> wf_bytes src = true -> wf_bytes dst = true ->
  0 <= sp < 65536 -> 0 <= dp < 65536 ->
  blen (enc_v1_tcp4 src dst sp dp) <= eff_limit limit ->
  conn_run tmo limit chunks os od = VL [VL [VB src; VZ sp]; VL [VB dst; VZ dp; VZ 1]; VB payload; VZ 0; VZ 0].
Proof.
  intros Hs Hb Hls Hld Hws Hwd Hsp Hdp Hlim.
  destruct (wf4 src Hls Hws) as (a & b & c & d & -> & Ha & Hb' & Hc & Hd).
  destruct (wf4 dst Hld Hwd) as (e & f & g & h & -> & He & Hf & Hg & Hh).
  rewrite enc_v1_tcp4_body in Hs, Hlim.
  set (body := v1_body [a; b; c; d] [e; f; g; h] sp dp) in *.
  assert (Hs' : concat chunks = body ++ 13 :: 10 :: payload) by (rewrite Hs, <- app_assoc; reflexivity).
  unfold conn_run. fold (ne_filter chunks).
  set (cs := ne_filter chunks).
  assert (Hcs : concat cs = concat chunks) by apply ne_filter_concat.
  assert (Hne : Forall nonempty cs) by apply ne_filter_nonempty.
  set (r0 := mkRd [] cs (eff_limit limit) 0 false (end_of tmo)).
  assert (Hi0 : inv r0) by (apply inv_start; [exact Hne|rewrite Hcs; exact Hb]).
  assert (Hr0 : remaining r0 = body ++ 13 :: 10 :: payload) by (unfold remaining, r0; cbn [r_buf r_chunks app]; congruence).
  assert (Hb0 : blen body + 2 <= budget r0).
  { unfold budget, r0. cbn [r_buf r_lim]. rewrite blen_app in Hlim. unfold blen in *. cbn [length] in *. lia. }
  destruct (proxy_read_v1_tcp4 os od r0 a b c d e f g h sp dp payload Hi0 Hr0 Ha Hb' Hc Hd He Hf Hg Hh Hsp Hdp Hb0)
    as (r' & E & I' & R').
  rewrite E. cbv beta iota.
  rewrite drain_after; [|exact I'|].
  2:{ assert (Hl : (length (concat (r_chunks r')) <= length (remaining r'))%nat) by (unfold remaining; rewrite app_length; lia).
      rewrite R' in Hl.
      assert (Hl2 : length (concat cs) = length (body ++ 13 :: 10 :: payload)) by congruence.
      rewrite app_length in Hl2. cbn [length] in Hl2.
      unfold fuel_of, r0. cbn [r_chunks]. lia. }
  rewrite R'. change (E_EOF =? E_EOF) with true. cbv beta iota zeta. reflexivity.
Qed.

(* ---------------- v1 TCP6 header (IPv6 text parsing = the ParseIP oracle) ---------------- *)
Definition v6_toks (ta tb : bytes) (sp dp : Z) : list bytes := [SIGV1; T_TCP6; ta; tb; dec_of_Z sp; dec_of_Z dp].
Lemma enc_v1_tcp6_body ta tb sp dp : enc_v1_tcp6 ta tb sp dp = join_byte 32 (v6_toks ta tb sp dp) ++ [13; 10].
Proof.
  unfold enc_v1_tcp6, v6_toks. cbn [join_byte].
  repeat (rewrite <- app_assoc; cbn [app]). reflexivity.
Qed.

Theorem v1_tcp6_roundtrip tmo limit chunks os od ta tb sp dp payload :
  concat chunks = enc_v1_tcp6 ta tb sp dp ++ payload ->
  blen (concat chunks) <= BUFSZ ->
  noc 32 ta -> noc 10 ta -> has_colon ta = true -> noc 32 tb -> noc 10 tb -> has_colon tb = true ->
  os <> [] -> od <> [] ->
  0 <= sp < 65536 -> 0 <= dp < 65536 ->
  blen (enc_v1_tcp6 ta tb sp dp) <= eff_limit limit ->
  conn_run tmo limit chunks os od = VL [VL [VB (canon_ip os); VZ sp]; VL [VB (canon_ip od); VZ dp; VZ 1]; VB payload; VZ 0; VZ 0].
Proof.
  intros Hs Hb A32 A10 Ac B32 B10 Bc Hos Hod Hsp Hdp Hlim.
  destruct (port_ok sp Hsp) as (DSp & PSp). destruct (port_ok dp Hdp) as (DDp & PDp).
  rewrite enc_v1_tcp6_body in Hs, Hlim.
  set (body := join_byte 32 (v6_toks ta tb sp dp)) in *.
  assert (Hs' : concat chunks = body ++ 13 :: 10 :: payload) by (rewrite Hs, <- app_assoc; reflexivity).
  unfold conn_run. fold (ne_filter chunks).
  set (cs := ne_filter chunks).
  assert (Hcs : concat cs = concat chunks) by apply ne_filter_concat.
  assert (Hne : Forall nonempty cs) by apply ne_filter_nonempty.
  set (r0 := mkRd [] cs (eff_limit limit) 0 false (end_of tmo)).
  assert (Hi0 : inv r0) by (apply inv_start; [exact Hne|rewrite Hcs; exact Hb]).
  assert (Hr0 : remaining r0 = body ++ 13 :: 10 :: payload) by (unfold remaining, r0; cbn [r_buf r_chunks app]; congruence).
  assert (Hb0 : blen body + 2 <= budget r0).
  { unfold budget, r0. cbn [r_buf r_lim]. rewrite blen_app in Hlim. unfold blen in *. cbn [length] in *. lia. }
  assert (Hbody : exists tl, body = 80 :: 82 :: 79 :: 88 :: 89 :: tl).
  { unfold body, v6_toks, SIGV1. cbn [join_byte app]. eexists. reflexivity. }
  destruct Hbody as (tl & Hbody).
  pose proof (blen_nonneg tl) as Htl. pose proof (blen_nonneg payload) as Hpl.
  assert (Hlen : blen (remaining r0) = blen body + 2 + blen payload) by (rewrite Hr0, blen_app, !blen_cons; lia).
  assert (Hbl : blen body = 5 + blen tl) by (rewrite Hbody, !blen_cons; lia).
  unfold proxy_read.
  destruct (peek_ok 1 r0 Hi0 ltac:(lia) ltac:(lia) ltac:(lia)) as (r1 & E1 & I1 & R1 & B1 & _).
  rewrite E1, Hr0, Hbody. change (Z.to_nat 1) with 1%nat. cbn [app firstn nth].
  change ((80 =? 80) || (80 =? 13)) with true. cbn [negb].
  destruct (peek_ok 5 r1 I1 ltac:(lia) ltac:(rewrite R1; lia) ltac:(lia)) as (r2 & E2 & I2 & R2 & B2 & _).
  rewrite E2, R1, Hr0, Hbody. change (Z.to_nat 5) with 5%nat. cbn [app firstn].
  change (bytes_eqb [80; 82; 79; 88; 89] SIGV1) with true.
  unfold parse_v1.
  assert (Htoks32 : Forall (noc 32) (v6_toks ta tb sp dp)).
  { unfold v6_toks. repeat constructor; try assumption; try reflexivity; apply digits_noc; try assumption; reflexivity. }
  assert (Htoks10 : Forall (noc 10) (v6_toks ta tb sp dp)).
  { unfold v6_toks. repeat constructor; try assumption; try reflexivity; apply digits_noc; try assumption; reflexivity. }
  assert (Hnl : has_nl (body ++ [13]) = false).
  { apply noc_app; [apply noc_join; [reflexivity|exact Htoks10]|reflexivity]. }
  assert (Hrem2 : remaining r2 = (body ++ [13]) ++ 10 :: payload).
  { rewrite R2, R1, Hr0, <- app_assoc. reflexivity. }
  destruct (read_line_ok r2 (body ++ [13]) payload I2 Hrem2 Hnl ltac:(rewrite blen_app; unfold blen at 2; cbn [length]; lia))
    as (r3 & E3 & I3 & R3).
  rewrite E3. rewrite ends_crlf_ok. cbn [negb]. rewrite strip_crlf.
  assert (Hsplit : split_byte 32 body = v6_toks ta tb sp dp).
  { unfold body. apply split_join; [discriminate|exact Htoks32]. }
  rewrite Hsplit.
  unfold v6_toks. cbn [nth length].
  change (bytes_eqb T_TCP6 T_UNKNOWN) with false. cbn [andb].
  change (6 <? 6)%nat with false.
  change (bytes_eqb T_TCP6 T_TCP4) with false. change (bytes_eqb T_TCP6 T_TCP6) with true. cbv beta iota zeta.
  unfold v1_ip, parse_ip. rewrite Ac, Bc.
  destruct os as [|o1 os']; [congruence|]. destruct od as [|o2 od']; [congruence|].
  change (33 =? 17) with false. change (33 =? 33) with true. cbn [negb andb orb].
  rewrite PSp, PDp. cbv beta iota.
  rewrite drain_after; [|exact I3|].
  2:{ assert (Hl : (length (concat (r_chunks r3)) <= length (remaining r3))%nat) by (unfold remaining; rewrite app_length; lia).
      rewrite R3 in Hl.
      assert (Hl2 : length (concat cs) = length (body ++ 13 :: 10 :: payload)) by congruence.
      rewrite app_length in Hl2. cbn [length] in Hl2.
      unfold fuel_of, r0. cbn [r_chunks]. lia. }
  rewrite R3. change (E_EOF =? E_EOF) with true. cbv beta iota zeta. reflexivity.
Qed.

(* ---------------- v1 UNKNOWN header (short form, or anything up to CRLF) ---------------- *)
Theorem v1_unknown_roundtrip tmo limit chunks os od junk payload :
  concat chunks = enc_v1_unknown junk ++ payload ->
  blen (concat chunks) <= BUFSZ ->
  (junk = [] \/ exists j, junk = 32 :: j) -> noc 10 junk ->
  blen (enc_v1_unknown junk) <= eff_limit limit ->
  conn_run tmo limit chunks os od = VL [VL []; VL []; VB payload; VZ 0; VZ 0].
Proof.
  intros Hs Hb Hj Hj10 Hlim.
  set (body := SIGV1 ++ 32 :: T_UNKNOWN ++ junk).
  assert (Henc : enc_v1_unknown junk = body ++ [13; 10]).
  { unfold enc_v1_unknown, body. repeat (rewrite <- app_assoc; cbn [app]). reflexivity. }
  rewrite Henc in Hs, Hlim.
  assert (Hs' : concat chunks = body ++ 13 :: 10 :: payload) by (rewrite Hs, <- app_assoc; reflexivity).
  unfold conn_run. fold (ne_filter chunks).
  set (cs := ne_filter chunks).
  assert (Hcs : concat cs = concat chunks) by apply ne_filter_concat.
  assert (Hne : Forall nonempty cs) by apply ne_filter_nonempty.
  set (r0 := mkRd [] cs (eff_limit limit) 0 false (end_of tmo)).
  assert (Hi0 : inv r0) by (apply inv_start; [exact Hne|rewrite Hcs; exact Hb]).
  assert (Hr0 : remaining r0 = body ++ 13 :: 10 :: payload) by (unfold remaining, r0; cbn [r_buf r_chunks app]; congruence).
  assert (Hb0 : blen body + 2 <= budget r0).
  { unfold budget, r0. cbn [r_buf r_lim]. rewrite blen_app in Hlim. unfold blen in *. cbn [length] in *. lia. }
  assert (Hbody : exists tl, body = 80 :: 82 :: 79 :: 88 :: 89 :: tl).
  { unfold body, SIGV1. cbn [app]. eexists. reflexivity. }
  destruct Hbody as (tl & Hbody).
  pose proof (blen_nonneg tl) as Htl. pose proof (blen_nonneg payload) as Hpl.
  assert (Hlen : blen (remaining r0) = blen body + 2 + blen payload) by (rewrite Hr0, blen_app, !blen_cons; lia).
  assert (Hbl : blen body = 5 + blen tl) by (rewrite Hbody, !blen_cons; lia).
  unfold proxy_read.
  destruct (peek_ok 1 r0 Hi0 ltac:(lia) ltac:(lia) ltac:(lia)) as (r1 & E1 & I1 & R1 & B1 & _).
  rewrite E1, Hr0, Hbody. change (Z.to_nat 1) with 1%nat. cbn [app firstn nth].
  change ((80 =? 80) || (80 =? 13)) with true. cbn [negb].
  destruct (peek_ok 5 r1 I1 ltac:(lia) ltac:(rewrite R1; lia) ltac:(lia)) as (r2 & E2 & I2 & R2 & B2 & _).
  rewrite E2, R1, Hr0, Hbody. change (Z.to_nat 5) with 5%nat. cbn [app firstn].
  change (bytes_eqb [80; 82; 79; 88; 89] SIGV1) with true.
  unfold parse_v1.
  assert (Hnl : has_nl (body ++ [13]) = false).
  { apply noc_app; [|reflexivity]. unfold body. apply noc_app; [reflexivity|]. apply noc_cons; [reflexivity|].
    apply noc_app; [reflexivity|exact Hj10]. }
  assert (Hrem2 : remaining r2 = (body ++ [13]) ++ 10 :: payload).
  { rewrite R2, R1, Hr0, <- app_assoc. reflexivity. }
  destruct (read_line_ok r2 (body ++ [13]) payload I2 Hrem2 Hnl ltac:(rewrite blen_app; unfold blen at 2; cbn [length]; lia))
    as (r3 & E3 & I3 & R3).
  rewrite E3. rewrite ends_crlf_ok. cbn [negb]. rewrite strip_crlf.
  assert (Hsplit : exists more, split_byte 32 body = SIGV1 :: T_UNKNOWN :: more).
  { unfold body. rewrite split_app_noc by reflexivity.
    destruct Hj as [-> | (j & ->)].
    - rewrite app_nil_r. rewrite split_noc by reflexivity. eexists. reflexivity.
    - rewrite split_app_noc by reflexivity. eexists. reflexivity. }
  destruct Hsplit as (more & Hsplit). rewrite Hsplit. cbn [nth length].
  change (bytes_eqb T_UNKNOWN T_UNKNOWN) with true. cbn [andb Nat.leb]. cbv beta iota.
  rewrite drain_after; [|exact I3|].
  2:{ assert (Hl : (length (concat (r_chunks r3)) <= length (remaining r3))%nat) by (unfold remaining; rewrite app_length; lia).
      rewrite R3 in Hl.
      assert (Hl2 : length (concat cs) = length (body ++ 13 :: 10 :: payload)) by congruence.
      rewrite app_length in Hl2. cbn [length] in Hl2.
      unfold fuel_of, r0. cbn [r_chunks]. lia. }
  rewrite R3. change (E_EOF =? E_EOF) with true. cbv beta iota zeta. reflexivity.
Qed.

(* ---------------- the specification classifier on encoded v2 PROXY headers; the executable property ---------------- *)
Lemma be16_u16t L t : 0 <= L < 65536 -> be16 (L / 256 :: L mod 256 :: t) = L.
Proof. intros H. unfold be16. cbn [nth]. pose proof (Z.div_mod L 256 ltac:(lia)). lia. Qed.

Lemma spec_classify_v2_proxy limit os od fam src dst sp dp tlv payload :
  ((fam = 17 \/ fam = 18) /\ blen src = 4 /\ blen dst = 4) \/ ((fam = 33 \/ fam = 34) /\ blen src = 16 /\ blen dst = 16) ->
  0 <= sp < 65536 -> 0 <= dp < 65536 ->
  16 + blen (block_ip src dst sp dp ++ tlv) <= eff_limit limit ->
  blen (block_ip src dst sp dp ++ tlv) < 65536 ->
  spec_classify limit os od (enc_v2_proxy fam src dst sp dp tlv ++ payload) =
  SHeader (Some ((canon_ip src, sp), (canon_ip dst, dp))) payload.
Proof.
  intros Hfam Hsp Hdp Hlim HL.
  rewrite enc_v2_proxy_stream.
  set (blk := block_ip src dst sp dp ++ tlv) in *.
  assert (Hblk : blen blk = blen src + blen dst + 4 + blen tlv).
  { unfold blk, block_ip, u16be. rewrite !blen_app. unfold blen. cbn [length]. lia. }
  pose proof (blen_nonneg tlv) as Ht0. pose proof (blen_nonneg payload) as Hp0. pose proof (blen_nonneg blk) as Hk0.
  unfold spec_classify.
  change (is_prefix SIGV1 (v2_stream 33 fam (blen blk) (blk ++ payload))) with false.
  change (is_prefix SIGV2 (v2_stream 33 fam (blen blk) (blk ++ payload))) with true.
  cbv beta iota. unfold spec_v2. rewrite blen_v2_stream, blen_app.
  replace (eff_limit limit <? 16) with false by lia.
  replace (16 + (blen blk + blen payload) <? 16) with false by lia.
  unfold v2_stream. cbn [nth skipn]. rewrite !be16_u16t by lia.
  change ((33 =? 32) || (33 =? 33)) with true. change (33 =? 32) with false. cbn [negb].
  replace (eff_limit limit <? 16 + blen blk) with false by lia.
  replace (16 + (blen blk + blen payload) <? 16 + blen blk) with false by lia.
  unfold sub. cbn [skipn Nat.add].
  rewrite !firstn_app_exactZ, !skipn_app_exactZ.
  unfold blk, block_ip, u16be.
  destruct Hfam as [[[->| ->] [H1 H2]]|[[->| ->] [H1 H2]]]; destr_list src H1; destr_list dst H2;
    cbv beta iota zeta;
    [change (17 / 16) with 1; change (17 mod 16) with 1
    |change (18 / 16) with 1; change (18 mod 16) with 2
    |change (33 / 16) with 2; change (33 mod 16) with 1
    |change (34 / 16) with 2; change (34 mod 16) with 2];
    cbn [Z.leb Z.eqb Z.compare Pos.compare Pos.compare_cont Pos.eqb andb orb negb];
    unfold blen; cbn [app length]; 
    match goal with |- context [Z.of_nat ?n <? ?k] => replace (Z.of_nat n <? k) with false by lia end;
    cbn [app sub firstn skipn]; rewrite !be16_u16 by assumption; reflexivity.
Qed.

From Bfe Require Import lib.ValProofs run.RunC46.

Definition in_C46 (tmo : bool) (limit : Z) (chunks : list bytes) (os od : bytes) : val :=
  VL [VZ limit; vLB chunks; VB os; VB od; VZ (if tmo then 1 else 0)].
Lemma dec_in_C46 tmo limit chunks os od : dec_C46 (in_C46 tmo limit chunks os od) = Some (tmo, limit, chunks, os, od).
Proof.
  unfold in_C46, dec_C46, vLB, as_LB.
  assert (H : all_some (map as_B (map VB chunks)) = Some chunks).
  { induction chunks as [|c cs IH]; [reflexivity|]. cbn [map as_B all_some]. rewrite IH. reflexivity. }
  rewrite H. destruct tmo; reflexivity.
Qed.

(* the executable property evaluated by the harness holds of the model on every conformant v2 PROXY header *)
Theorem prop_C46_v2_proxy tmo limit chunks os od fam src dst sp dp tlv payload :
  concat chunks = enc_v2_proxy fam src dst sp dp tlv ++ payload ->
  blen (concat chunks) <= BUFSZ ->
  ((fam = 17 \/ fam = 18) /\ blen src = 4 /\ blen dst = 4) \/ ((fam = 33 \/ fam = 34) /\ blen src = 16 /\ blen dst = 16) ->
  0 <= sp < 65536 -> 0 <= dp < 65536 ->
  16 + blen (block_ip src dst sp dp ++ tlv) <= eff_limit limit ->
  prop_C46 (in_C46 tmo limit chunks os od) (run_C46 (in_C46 tmo limit chunks os od)) = true
  /\ kf_C46 (in_C46 tmo limit chunks os od) = 0.
Proof.
  intros Hs Hb Hfam Hsp Hdp Hlim.
  assert (HL : blen (block_ip src dst sp dp ++ tlv) < 65536).
  { rewrite Hs, enc_v2_proxy_stream, blen_v2_stream, blen_app in Hb. change BUFSZ with 4096 in Hb.
    pose proof (blen_nonneg payload). lia. }
  unfold prop_C46, kf_C46, run_C46. rewrite dec_in_C46.
  rewrite (v2_proxy_roundtrip tmo limit chunks os od fam src dst sp dp tlv payload Hs Hb Hfam Hsp Hdp Hlim).
  rewrite Hs, (spec_classify_v2_proxy limit os od fam src dst sp dp tlv payload Hfam Hsp Hdp Hlim HL).
  split; [|reflexivity].
  rewrite val_eqb_refl. apply orb_true_r.
Qed.

(* ---------------- central theorem, part by part ---------------- *)
(* receiver's-choice class: the property demands nothing *)
Lemma prop_C46_dontcare tmo limit chunks os od o :
  spec_classify limit os od (concat chunks) = SDontCare -> prop_C46 (in_C46 tmo limit chunks os od) o = true.
Proof. intros H. unfold prop_C46. rewrite dec_in_C46, H. apply orb_true_r. Qed.

Ltac break_match :=
  repeat first
    [ discriminate
    | match goal with
      | |- context [match ?x with _ => _ end] => destruct x eqn:?
      end ].

Lemma spec_v2_not_noheader lim s : spec_v2 lim s <> SNoHeader.
Proof. unfold spec_v2. break_match. Qed.
Lemma spec_v1_not_noheader lim os od s : spec_v1 lim os od s <> SNoHeader.
Proof. unfold spec_v1. break_match. Qed.

Lemma spec_noheader_inv limit os od s : spec_classify limit os od s = SNoHeader ->
  is_prefix SIGV1 s = false /\ is_prefix SIGV2 s = false /\ s <> [].
Proof.
  unfold spec_classify. intros H.
  destruct (is_prefix SIGV1 s) eqn:E1; [exfalso; eapply spec_v1_not_noheader; exact H|].
  destruct (is_prefix SIGV2 s) eqn:E2; [exfalso; eapply spec_v2_not_noheader; exact H|].
  destruct s as [|c s]; [cbn in H; discriminate|].
  repeat split; discriminate.
Qed.

(* no-header class outside finding 1: passed through untouched *)
Theorem prop_C46_noheader tmo limit chunks os od :
  blen (concat chunks) <= BUFSZ ->
  spec_classify limit os od (concat chunks) = SNoHeader ->
  kf_C46 (in_C46 tmo limit chunks os od) = 0 ->
  prop_C46 (in_C46 tmo limit chunks os od) (run_C46 (in_C46 tmo limit chunks os od)) = true.
Proof.
  intros Hb Hc Hk. unfold kf_C46 in Hk. unfold prop_C46, run_C46. rewrite dec_in_C46 in *. rewrite Hc in *.
  destruct (spec_noheader_inv _ _ _ _ Hc) as (H1 & H2 & Hne).
  destruct (short_sig_first limit (concat chunks)) eqn:Es; [discriminate|].
  destruct (concat chunks) as [|c rest] eqn:Ecs; [congruence|].
  unfold short_sig_first in Es.
  assert (Hrun : conn_run tmo limit chunks os od = VL [VL []; VL []; VB (c :: rest); VZ 0; VZ 0]).
  { destruct ((c =? 80) || (c =? 13)) eqn:Ec.
    - cbn [andb] in Es. rewrite <- Ecs.
      apply no_header_passthrough_sig; rewrite ?Ecs; try assumption; lia.
    - apply (no_header_passthrough tmo limit chunks os od c rest); rewrite ?Ecs; try assumption; try reflexivity; lia. }
  rewrite Hrun, val_eqb_refl. apply orb_true_r.
Qed.

(* conformant v2 LOCAL headers *)
Lemma spec_classify_v2_local limit os od fam block tlv payload :
  16 + blen (block ++ tlv) <= eff_limit limit -> blen (block ++ tlv) < 65536 ->
  spec_classify limit os od (enc_v2 32 fam block tlv ++ payload) = SHeader None payload.
Proof.
  intros Hlim HL.
  assert (Hs : enc_v2 32 fam block tlv ++ payload = v2_stream 32 fam (blen (block ++ tlv)) ((block ++ tlv) ++ payload)).
  { unfold enc_v2, SIGV2, u16be, v2_stream. cbn [app]. rewrite <- !app_assoc. reflexivity. }
  rewrite Hs. set (blk := block ++ tlv) in *.
  pose proof (blen_nonneg payload) as Hp0. pose proof (blen_nonneg blk) as Hk0.
  unfold spec_classify.
  change (is_prefix SIGV1 (v2_stream 32 fam (blen blk) (blk ++ payload))) with false.
  change (is_prefix SIGV2 (v2_stream 32 fam (blen blk) (blk ++ payload))) with true.
  cbv beta iota. unfold spec_v2. rewrite blen_v2_stream, blen_app.
  replace (eff_limit limit <? 16) with false by lia.
  replace (16 + (blen blk + blen payload) <? 16) with false by lia.
  unfold v2_stream. cbn [nth skipn]. rewrite !be16_u16t by lia.
  change ((32 =? 32) || (32 =? 33)) with true. change (32 =? 32) with true. cbn [negb].
  replace (eff_limit limit <? 16 + blen blk) with false by lia.
  replace (16 + (blen blk + blen payload) <? 16 + blen blk) with false by lia.
  cbn [skipn Nat.add]. rewrite skipn_app_exactZ. reflexivity.
Qed.

Theorem prop_C46_v2_local tmo limit chunks os od fam block tlv payload :
  concat chunks = enc_v2 32 fam block tlv ++ payload ->
  blen (concat chunks) <= BUFSZ ->
  16 + blen (block ++ tlv) <= eff_limit limit ->
  prop_C46 (in_C46 tmo limit chunks os od) (run_C46 (in_C46 tmo limit chunks os od)) = true
  /\ kf_C46 (in_C46 tmo limit chunks os od) = 0.
Proof.
  intros Hs Hb Hlim.
  assert (HL : blen (block ++ tlv) < 65536).
  { assert (Hs2 : enc_v2 32 fam block tlv ++ payload = v2_stream 32 fam (blen (block ++ tlv)) ((block ++ tlv) ++ payload)).
    { unfold enc_v2, SIGV2, u16be, v2_stream. cbn [app]. rewrite <- !app_assoc. reflexivity. }
    rewrite Hs, Hs2, blen_v2_stream, blen_app in Hb. change BUFSZ with 4096 in Hb. pose proof (blen_nonneg payload). lia. }
  unfold prop_C46, kf_C46, run_C46. rewrite dec_in_C46.
  rewrite (v2_local_roundtrip tmo limit chunks os od fam block tlv payload Hs Hb Hlim).
  rewrite Hs, (spec_classify_v2_local limit os od fam block tlv payload Hlim HL).
  split; [|reflexivity].
  rewrite val_eqb_refl. apply orb_true_r.
Qed.

(* conformant v1 TCP4 lines *)
Lemma all_ports_strict : forallb (fun h => forallb (fun l => opt_eqb (strict_port (dec_of_Z (Z.of_nat h * 256 + Z.of_nat l))) (Z.of_nat h * 256 + Z.of_nat l)) (seq 0 256)) (seq 0 256) = true.
Proof. vm_compute. reflexivity. Qed.
Lemma strict_port_ok p : 0 <= p < 65536 -> strict_port (dec_of_Z p) = Some p.
Proof.
  intros H. pose proof all_ports_strict as A. rewrite forallb_forall in A.
  assert (Hh : 0 <= p / 256 < 256) by (split; [apply Z.div_pos; lia|apply Z.div_lt_upper_bound; lia]).
  assert (Hl : 0 <= p mod 256 < 256) by (apply Z.mod_pos_bound; lia).
  specialize (A (Z.to_nat (p / 256)) ltac:(apply in_seq; lia)). rewrite forallb_forall in A.
  specialize (A (Z.to_nat (p mod 256)) ltac:(apply in_seq; lia)).
  rewrite !Z2Nat.id in A by lia.
  replace (p / 256 * 256 + p mod 256) with p in A by (pose proof (Z.div_mod p 256 ltac:(lia)); lia).
  apply opt_eqb_eq. exact A.
Qed.

Lemma spec_classify_v1_tcp4 limit os od a b c d e f g h sp dp payload :
  0 <= a < 256 -> 0 <= b < 256 -> 0 <= c < 256 -> 0 <= d < 256 ->
  0 <= e < 256 -> 0 <= f < 256 -> 0 <= g < 256 -> 0 <= h < 256 ->
  0 <= sp < 65536 -> 0 <= dp < 65536 ->
  blen (enc_v1_tcp4 [a; b; c; d] [e; f; g; h] sp dp) <= eff_limit limit ->
  spec_classify limit os od (enc_v1_tcp4 [a; b; c; d] [e; f; g; h] sp dp ++ payload) =
  SHeader (Some (([a; b; c; d], sp), ([e; f; g; h], dp))) payload.
Proof.
  intros Ha Hb Hc Hd He Hf Hg Hh Hsp Hdp Hlim.
  destruct (dotted_ok a b c d Ha Hb Hc Hd) as (PS & S32 & S10 & S58).
  destruct (dotted_ok e f g h He Hf Hg Hh) as (PD & D32 & D10 & D58).
  destruct (port_ok sp Hsp) as (DSp & PSp). destruct (port_ok dp Hdp) as (DDp & PDp).
  pose proof (strict_port_ok sp Hsp) as SSp. pose proof (strict_port_ok dp Hdp) as SDp.
  rewrite enc_v1_tcp4_body in *.
  set (body := v1_body [a; b; c; d] [e; f; g; h] sp dp) in *.
  assert (Hbody : exists tl, body = 80 :: 82 :: 79 :: 88 :: 89 :: tl).
  { unfold body, v1_body, v1_toks, SIGV1. cbn [join_byte app]. eexists. reflexivity. }
  destruct Hbody as (tl & Hbody).
  assert (Htoks32 : Forall (noc 32) (v1_toks [a; b; c; d] [e; f; g; h] sp dp)).
  { unfold v1_toks. repeat constructor; try assumption; try reflexivity; apply digits_noc; try assumption; reflexivity. }
  assert (Htoks10 : Forall (noc 10) (v1_toks [a; b; c; d] [e; f; g; h] sp dp)).
  { unfold v1_toks. repeat constructor; try assumption; try reflexivity; apply digits_noc; try assumption; reflexivity. }
  assert (Hnl : has_nl (body ++ [13]) = false).
  { apply noc_app; [apply noc_join; [reflexivity|exact Htoks10]|reflexivity]. }
  assert (Hsplit : split_byte 32 body = v1_toks [a; b; c; d] [e; f; g; h] sp dp).
  { unfold body, v1_body. apply split_join; [discriminate|exact Htoks32]. }
  assert (Hs : (body ++ [13; 10]) ++ payload = (body ++ [13]) ++ 10 :: payload).
  { rewrite <- !app_assoc. reflexivity. }
  rewrite Hs.
  unfold spec_classify.
  assert (Hp1 : is_prefix SIGV1 ((body ++ [13]) ++ 10 :: payload) = true).
  { rewrite Hbody. reflexivity. }
  rewrite Hp1. unfold spec_v1.
  rewrite has_nl_app. replace (has_nl (10 :: payload)) with true by reflexivity. rewrite orb_true_r. cbn [negb].
  rewrite cut_nl_app by exact Hnl. rewrite ends_crlf_ok. cbn [negb].
  assert (Hll : blen ((body ++ [13]) ++ [10]) = blen (body ++ [13; 10])) by (rewrite <- app_assoc; reflexivity).
  rewrite Hll. replace (eff_limit limit <? blen (body ++ [13; 10])) with false by lia.
  rewrite strip_crlf, Hsplit. unfold v1_toks. cbn [nth length].
  change (bytes_eqb T_TCP4 T_UNKNOWN) with false. cbn [andb].
  change (bytes_eqb T_TCP4 T_TCP4) with true. change (bytes_eqb T_TCP4 T_TCP6) with false. cbn [orb].
  change (6 <? 6)%nat with false. cbv beta iota zeta.
  unfold noc in S58, D58. unfold has_colon. rewrite S58, D58, PS, PD.
  unfold port_shape_ok. rewrite PSp, PDp. cbn [orb negb]. rewrite SSp, SDp.
  reflexivity.
Qed.

Theorem prop_C46_v1_tcp4 tmo limit chunks os od src dst sp dp payload :
  concat chunks = enc_v1_tcp4 src dst sp dp ++ payload ->
  blen (concat chunks) <= BUFSZ ->
  blen src = 4 -> blen dst = 4 -> wf_bytes src = true -> wf_bytes dst = true ->
  0 <= sp < 65536 -> 0 <= dp < 65536 ->
  blen (enc_v1_tcp4 src dst sp dp) <= eff_limit limit ->
  prop_C46 (in_C46 tmo limit chunks os od) (run_C46 (in_C46 tmo limit chunks os od)) = true
  /\ kf_C46 (in_C46 tmo limit chunks os od) = 0.
Proof.
  intros Hs Hb Hls Hld Hws Hwd Hsp Hdp Hlim.
  unfold prop_C46, kf_C46, run_C46. rewrite dec_in_C46.
  rewrite (v1_tcp4_roundtrip tmo limit chunks os od src dst sp dp payload Hs Hb Hls Hld Hws Hwd Hsp Hdp Hlim).
  destruct (wf4 src Hls Hws) as (a & b & c & d & -> & Ha & Hb' & Hc & Hd).
  destruct (wf4 dst Hld Hwd) as (e & f & g & h & -> & He & Hf & Hg & Hh).
  rewrite Hs, (spec_classify_v1_tcp4 limit os od a b c d e f g h sp dp payload) by assumption.
  split; [|reflexivity].
  rewrite val_eqb_refl. apply orb_true_r.
Qed.

(* conformant v1 UNKNOWN lines *)
Lemma spec_classify_v1_unknown limit os od junk payload :
  (junk = [] \/ exists j, junk = 32 :: j) -> noc 10 junk ->
  blen (enc_v1_unknown junk) <= eff_limit limit ->
  spec_classify limit os od (enc_v1_unknown junk ++ payload) = SHeader None payload.
Proof.
  intros Hj Hj10 Hlim.
  set (body := SIGV1 ++ 32 :: T_UNKNOWN ++ junk).
  assert (Henc : enc_v1_unknown junk = body ++ [13; 10]).
  { unfold enc_v1_unknown, body. repeat (rewrite <- app_assoc; cbn [app]). reflexivity. }
  rewrite Henc in *.
  assert (Hnl : has_nl (body ++ [13]) = false).
  { apply noc_app; [|reflexivity]. unfold body. apply noc_app; [reflexivity|]. apply noc_cons; [reflexivity|].
    apply noc_app; [reflexivity|exact Hj10]. }
  assert (Hsplit : exists more, split_byte 32 body = SIGV1 :: T_UNKNOWN :: more).
  { unfold body. rewrite split_app_noc by reflexivity.
    destruct Hj as [-> | (j & ->)].
    - rewrite app_nil_r. rewrite split_noc by reflexivity. eexists. reflexivity.
    - rewrite split_app_noc by reflexivity. eexists. reflexivity. }
  destruct Hsplit as (more & Hsplit).
  assert (Hs : (body ++ [13; 10]) ++ payload = (body ++ [13]) ++ 10 :: payload).
  { rewrite <- !app_assoc. reflexivity. }
  rewrite Hs. unfold spec_classify.
  assert (Hp1 : is_prefix SIGV1 ((body ++ [13]) ++ 10 :: payload) = true).
  { unfold body, SIGV1. reflexivity. }
  rewrite Hp1. unfold spec_v1.
  rewrite has_nl_app. replace (has_nl (10 :: payload)) with true by reflexivity. rewrite orb_true_r. cbn [negb].
  rewrite cut_nl_app by exact Hnl. rewrite ends_crlf_ok. cbn [negb].
  assert (Hll : blen ((body ++ [13]) ++ [10]) = blen (body ++ [13; 10])) by (rewrite <- app_assoc; reflexivity).
  rewrite Hll. replace (eff_limit limit <? blen (body ++ [13; 10])) with false by lia.
  rewrite strip_crlf, Hsplit. cbn [nth length].
  change (bytes_eqb T_UNKNOWN T_UNKNOWN) with true. cbn [andb Nat.leb]. reflexivity.
Qed.

Theorem prop_C46_v1_unknown tmo limit chunks os od junk payload :
  concat chunks = enc_v1_unknown junk ++ payload ->
  blen (concat chunks) <= BUFSZ ->
  (junk = [] \/ exists j, junk = 32 :: j) -> noc 10 junk ->
  blen (enc_v1_unknown junk) <= eff_limit limit ->
  prop_C46 (in_C46 tmo limit chunks os od) (run_C46 (in_C46 tmo limit chunks os od)) = true
  /\ kf_C46 (in_C46 tmo limit chunks os od) = 0.
Proof.
  intros Hs Hb Hj Hj10 Hlim.
  unfold prop_C46, kf_C46, run_C46. rewrite dec_in_C46.
  rewrite (v1_unknown_roundtrip tmo limit chunks os od junk payload Hs Hb Hj Hj10 Hlim).
  rewrite Hs, (spec_classify_v1_unknown limit os od junk payload Hj Hj10 Hlim).
  split; [|reflexivity].
  rewrite val_eqb_refl. apply orb_true_r.
Qed.

(* the general part of the central theorem, for arbitrary well-formed inputs *)
Lemma dec_C46_in i t l c os od : dec_C46 i = Some (t, l, c, os, od) ->
  prop_C46 i (run_C46 i) = prop_C46 (in_C46 t l c os od) (run_C46 (in_C46 t l c os od))
  /\ kf_C46 i = kf_C46 (in_C46 t l c os od).
Proof. intros H. unfold prop_C46, run_C46, kf_C46. rewrite dec_in_C46, H. split; reflexivity. Qed.

Theorem central_general i :
  wf_C46 i = true -> kf_C46 i = 0 -> guard_C46 i = true -> prop_C46 i (run_C46 i) = true.
Proof.
  unfold wf_C46, guard_C46. intros Hwf Hk Hg.
  destruct (dec_C46 i) as [[[[[t l] c] os] od]|] eqn:Hd; [|discriminate].
  destruct (dec_C46_in i t l c os od Hd) as [E1 E2]. rewrite E1. rewrite E2 in Hk.
  assert (Hb : blen (concat c) <= BUFSZ) by (change BUFSZ with 4096; lia).
  destruct (spec_classify l os od (concat c)) eqn:Ec; try discriminate.
  - apply prop_C46_noheader; assumption.
  - apply prop_C46_dontcare; assumption.
Qed.

(* ---------------- concrete instances (non-vacuity) ---------------- *)
Definition ex_chunks_v2 : list bytes :=
  [[13; 10; 13]; [10; 0; 13; 10; 81; 85; 73; 84; 10; 33; 17; 0]; [15; 1; 2; 3; 4; 5; 6; 7; 8; 0; 80; 1; 187; 9; 9; 9; 104]; [105]].
Lemma ex_v2_lemma :
  concat ex_chunks_v2 = enc_v2_proxy 17 [1; 2; 3; 4] [5; 6; 7; 8] 80 443 [9; 9; 9] ++ [104; 105]
  /\ conn_run false 0 ex_chunks_v2 [] [] = VL [VL [VB [1; 2; 3; 4]; VZ 80]; VL [VB [5; 6; 7; 8]; VZ 443; VZ 1]; VB [104; 105]; VZ 0; VZ 0].
Proof. split; vm_compute; reflexivity. Qed.
Definition ex_chunks_local : list bytes := [[13; 10; 13; 10; 0; 13; 10; 81; 85; 73; 84; 10; 32]; [0; 0; 0; 71; 69; 84]].
Lemma ex_local_lemma :
  concat ex_chunks_local = enc_v2 32 0 [] [] ++ [71; 69; 84]
  /\ conn_run false 0 ex_chunks_local [] [] = VL [VL []; VL []; VB [71; 69; 84]; VZ 0; VZ 0].
Proof. split; vm_compute; reflexivity. Qed.
(* "PROXY TCP4 1.2.3.4 5.6.7.8 80 443\r\nhi" and "PROXY UNKNOWN\r\nhi", byte-split *)
Definition ex_v1 : bytes := enc_v1_tcp4 [1; 2; 3; 4] [5; 6; 7; 8] 80 443 ++ [104; 105].
Lemma ex_v1_lemma :
  conn_run false 0 (map (fun b => [b]) ex_v1) [] [] = VL [VL [VB [1; 2; 3; 4]; VZ 80]; VL [VB [5; 6; 7; 8]; VZ 443; VZ 1]; VB [104; 105]; VZ 0; VZ 0]
  /\ conn_run false 0 [enc_v1_unknown [] ++ [104; 105]] [] [] = VL [VL []; VL []; VB [104; 105]; VZ 0; VZ 0].
Proof. split; vm_compute; reflexivity. Qed.
(* a v2 header with an unsupported command is refused without data *)
Lemma ex_malformed_lemma :
  conn_run false 0 [[13; 10; 13; 10; 0; 13; 10; 81; 85; 73; 84; 10; 34; 17; 0; 0; 104; 105]] [] [] = VL [VL []; VL []; VB []; VZ 2; VZ 1].
Proof. vm_compute. reflexivity. Qed.

Lemma central_examples :
  wf_C46 (VL [VZ 0; VL [VB [71; 69; 84; 32]; VB [47; 13; 10]]; VB []; VB []; VZ 1]) = true
  /\ guard_C46 (VL [VZ 0; VL [VB [71; 69; 84; 32]; VB [47; 13; 10]]; VB []; VB []; VZ 1]) = true
  /\ kf_C46 (VL [VZ 0; VL [VB [71; 69; 84; 32]; VB [47; 13; 10]]; VB []; VB []; VZ 1]) = 0
  /\ wf_C46 (in_C46 false 0 ex_chunks_v2 [] []) = true.
Proof. vm_compute. repeat split. Qed.
