(* Proofs about model/Huffman.v: table facts (finite, by vm_compute over the generated table), and
   the round trip of the Huffman encoder through the RFC (bit-level) decoder for every byte string. *)
From Coq Require Import List ZArith Bool Lia ZifyBool ZifyNat.
From Bfe Require Import lib.Val lib.Bytes gen.HpackTables model.Huffman.
Import ListNotations.
Open Scope Z_scope.

(* ---------- finite facts ---------- *)
Lemma table_wf_true : table_wf = true.
Proof. vm_compute. reflexivity. Qed.
Lemma prefix_free_true : prefix_free = true.
Proof. vm_compute. reflexivity. Qed.
Lemma kraft_complete_true : kraft_complete = true.
Proof. vm_compute. reflexivity. Qed.
Lemma in_symbols c : In c symbols <-> 0 <= c < 256.
Proof.
  unfold symbols. rewrite in_map_iff. split.
  - intros [n [Hn Hin]]. apply in_seq in Hin. lia.
  - intros H. exists (Z.to_nat c). split; [lia|]. apply in_seq. lia.
Qed.
Lemma wf_bytes_symbols s : wf_bytes s = true -> Forall (fun c => In c symbols) s.
Proof.
  unfold wf_bytes. rewrite forallb_forall. intros H. apply Forall_forall. intros c Hc.
  apply in_symbols. specialize (H c Hc). unfold wf_byte in H. lia.
Qed.

Lemma len_bounds_true :
  forallb (fun c => (5 <=? len_of c) && (len_of c <=? 30) && (0 <=? code_of c) && (code_of c <? 2 ^ len_of c)) symbols = true.
Proof. vm_compute. reflexivity. Qed.
Lemma huff_len_bounds c : In c symbols -> 5 <= len_of c <= 30 /\ 0 <= code_of c < 2 ^ len_of c.
Proof.
  intros Hc. pose proof (proj1 (forallb_forall _ _) len_bounds_true c Hc) as H. cbv beta in H.
  apply andb_true_iff in H. destruct H as [H H4]. apply andb_true_iff in H. destruct H as [H H3].
  apply andb_true_iff in H. destruct H as [H1 H2].
  apply Z.leb_le in H1. apply Z.leb_le in H2. apply Z.leb_le in H3. apply Z.ltb_lt in H4. auto.
Qed.

Lemma bits_msb_length n v : length (bits_msb n v) = n.
Proof. induction n; simpl; congruence. Qed.
Lemma code_bits_length c : length (code_bits c) = Z.to_nat (len_of c).
Proof. apply bits_msb_length. Qed.

Lemma is_prefix_b_spec p l : is_prefix_b p l = true <-> exists r, l = p ++ r.
Proof.
  revert l. induction p as [|x p IH]; intros l; simpl.
  - split; [intros _; exists l; reflexivity | reflexivity].
  - destruct l as [|y l]; [split; [discriminate | intros [r H]; discriminate]|].
    rewrite andb_true_iff, IH. split.
    + intros [Hxy [r ->]]. apply eqb_prop in Hxy. subst. exists r. reflexivity.
    + intros [r H]. inversion H; subst. split; [apply eqb_reflx | exists r; reflexivity].
Qed.
Lemma is_prefix_b_app p r : is_prefix_b p (p ++ r) = true.
Proof. apply is_prefix_b_spec. exists r. reflexivity. Qed.
Lemma prefix_both p q l :
  is_prefix_b p l = true -> is_prefix_b q l = true -> is_prefix_b p q = true \/ is_prefix_b q p = true.
Proof.
  revert q l. induction p as [|x p IH]; intros q l Hp Hq; [left; reflexivity|].
  destruct q as [|y q]; [right; reflexivity|].
  destruct l as [|z l]; [discriminate|]. simpl in *.
  apply andb_true_iff in Hp. destruct Hp as [Hx Hp]. apply andb_true_iff in Hq. destruct Hq as [Hy Hq].
  apply eqb_prop in Hx. apply eqb_prop in Hy. subst. rewrite eqb_reflx. simpl.
  eapply IH; eassumption.
Qed.

Definition pf_pairs : bool :=
  forallb (fun c => forallb (fun d => (c =? d) || negb (is_prefix_b (code_bits c) (code_bits d))) symbols) symbols.
Definition pf_eos : bool :=
  forallb (fun c => negb (is_prefix_b (code_bits c) eos_bits || is_prefix_b eos_bits (code_bits c))) symbols.
Lemma pf_pairs_true : forallb (fun c => forallb (fun d => (c =? d) || negb (is_prefix_b (code_bits c) (code_bits d))) symbols) symbols = true.
Proof. vm_compute. reflexivity. Qed.
Lemma pf_eos_true : forallb (fun c => negb (is_prefix_b (code_bits c) eos_bits || is_prefix_b eos_bits (code_bits c))) symbols = true.
Proof. vm_compute. reflexivity. Qed.
Lemma nao_true : forallb (fun c => negb (forallb (fun b => b) (code_bits c))) symbols = true.
Proof. vm_compute. reflexivity. Qed.

Lemma huff_prefix_free c d :
  In c symbols -> In d symbols -> is_prefix_b (code_bits c) (code_bits d) = true -> c = d.
Proof.
  intros Hc Hd Hp.
  pose proof (proj1 (forallb_forall _ _) pf_pairs_true c Hc) as H. cbv beta in H.
  pose proof (proj1 (forallb_forall _ _) H d Hd) as H2. cbv beta in H2.
  rewrite Hp in H2. apply orb_true_iff in H2. destruct H2 as [H2|H2].
  - apply Z.eqb_eq in H2. exact H2.
  - discriminate H2.
Qed.
Lemma huff_not_eos_prefix c :
  In c symbols -> is_prefix_b (code_bits c) eos_bits = false /\ is_prefix_b eos_bits (code_bits c) = false.
Proof.
  intros Hc.
  pose proof (proj1 (forallb_forall _ _) pf_eos_true c Hc) as H. cbv beta in H.
  apply negb_true_iff in H. apply orb_false_iff in H. exact H.
Qed.
Lemma code_not_all_ones c : In c symbols -> forallb (fun b => b) (code_bits c) = false.
Proof.
  intros Hc.
  pose proof (proj1 (forallb_forall _ _) nao_true c Hc) as H. cbv beta in H.
  apply negb_true_iff in H. exact H.
Qed.

(* ---------- the greedy symbol match finds exactly the encoded symbol ---------- *)
Lemma sym_match_code c rest : In c symbols -> sym_match (code_bits c ++ rest) = Some c.
Proof.
  intros Hc. unfold sym_match.
  destruct (find (fun cb => is_prefix_b (snd cb) (code_bits c ++ rest)) code_table) as [[d bd]|] eqn:E.
  - apply find_some in E. destruct E as [Hin Hp]. simpl in Hp.
    unfold code_table in Hin. apply in_map_iff in Hin. destruct Hin as [d' [Heq Hd]].
    inversion Heq; subst d' bd. simpl. f_equal.
    destruct (prefix_both _ _ _ Hp (is_prefix_b_app (code_bits c) rest)) as [H|H].
    + apply huff_prefix_free; assumption.
    + symmetry. apply huff_prefix_free; assumption.
  - exfalso. pose proof (find_none _ _ E (c, code_bits c)) as H. simpl in H.
    rewrite is_prefix_b_app in H. assert (In (c, code_bits c) code_table) as Hin.
    { unfold code_table. apply in_map_iff. exists c. split; [reflexivity|assumption]. }
    specialize (H Hin). discriminate.
Qed.

Lemma is_padding_code c rest : In c symbols -> is_padding (code_bits c ++ rest) = false.
Proof.
  intros Hc. unfold is_padding. rewrite forallb_app, (code_not_all_ones c Hc). simpl.
  apply andb_false_r.
Qed.
Lemma is_padding_ones pad : (length pad < 8)%nat -> forallb (fun b => b) pad = true -> is_padding pad = true.
Proof.
  intros Hl Ha. unfold is_padding. rewrite Ha, andb_true_r.
  rewrite firstn_all2 by lia. apply Nat.ltb_lt. assumption.
Qed.

Lemma skipn_app_exact {A} (a b : list A) n : n = length a -> skipn n (a ++ b) = b.
Proof. intros ->. rewrite skipn_app, skipn_all, Nat.sub_diag. reflexivity. Qed.

Lemma bit_decode_roundtrip s : forall fuel pad,
  Forall (fun c => In c symbols) s -> (length s <= fuel)%nat ->
  (length pad < 8)%nat -> forallb (fun b => b) pad = true ->
  bit_decode fuel (huff_bits s ++ pad) = Some s.
Proof.
  induction s as [|c s IH]; intros fuel pad Hs Hf Hl Ha.
  - simpl. destruct fuel; simpl; rewrite (is_padding_ones pad Hl Ha); reflexivity.
  - inversion Hs as [|? ? Hc Hs']; subst.
    destruct fuel as [|f]; [simpl in Hf; lia|].
    unfold huff_bits. simpl flat_map. rewrite <- app_assoc. fold (huff_bits s).
    cbn [bit_decode]. rewrite (is_padding_code c _ Hc), (sym_match_code c _ Hc).
    rewrite (skipn_app_exact (code_bits c)) by (symmetry; apply code_bits_length).
    rewrite IH; [reflexivity|assumption|simpl in Hf; lia|assumption|assumption].
Qed.

(* ---------- packing ---------- *)
Lemma byte_bits_pack b7 b6 b5 b4 b3 b2 b1 b0 :
  byte_bits (bits_val [b7; b6; b5; b4; b3; b2; b1; b0] 0) = [b7; b6; b5; b4; b3; b2; b1; b0]
  /\ wf_byte (bits_val [b7; b6; b5; b4; b3; b2; b1; b0] 0) = true.
Proof. destruct b7, b6, b5, b4, b3, b2, b1, b0; split; reflexivity. Qed.

Lemma pack_bits_spec k : forall l, length l = (8 * k)%nat ->
  bytes_bits (pack_bits l) = l /\ wf_bytes (pack_bits l) = true /\ length (pack_bits l) = k.
Proof.
  induction k as [|k IH]; intros l Hl.
  - destruct l; [simpl; auto | simpl in Hl; lia].
  - do 8 (destruct l as [|? l]; [simpl in Hl; lia|]).
    assert (length l = (8 * k)%nat) as Hl' by (simpl in Hl; lia).
    destruct (IH l Hl') as [H1 [H2 H3]].
    cbn [pack_bits]. destruct (byte_bits_pack b b0 b1 b2 b3 b4 b5 b6) as [Hb Hw].
    split; [|split].
    + cbn [bytes_bits flat_map]. rewrite Hb. fold (bytes_bits (pack_bits l)). rewrite H1. reflexivity.
    + cbn [wf_bytes forallb]. rewrite Hw. exact H2.
    + cbn [length]. rewrite H3. reflexivity.
Qed.

Lemma pad_len_spec n : exists k, (n + pad_len n = 8 * k)%nat /\ Z.of_nat k = (Z.of_nat n + 7) / 8 /\ (pad_len n < 8)%nat.
Proof.
  unfold pad_len. pose proof (Nat.div_mod n 8) as Hd. pose proof (Nat.mod_upper_bound n 8) as Hm.
  remember (n mod 8)%nat as r. remember (n / 8)%nat as q. clear Heqr Heqq.
  assert (r < 8)%nat as Hr by lia. assert (n = 8 * q + r)%nat as Hn by lia. clear Hd Hm.
  destruct (Nat.eq_dec r 0) as [->|Hnz].
  - exists q. change ((8 - 0) mod 8)%nat with 0%nat. split; [lia|split; [|lia]].
    apply Z.div_unique with (r := 7); lia.
  - exists (S q). assert ((8 - r) mod 8 = 8 - r)%nat as -> by (apply Nat.mod_small; lia).
    split; [lia|split; [|lia]].
    apply Z.div_unique with (r := Z.of_nat r - 1); lia.
Qed.

Lemma sum_len_bits s : Forall (fun c => In c symbols) s -> forall a,
  fold_left (fun a c => a + len_of c) s a = a + Z.of_nat (length (huff_bits s)).
Proof.
  induction 1 as [|c s Hc Hs IH]; intros a; simpl; [lia|].
  rewrite IH. unfold huff_bits in *. rewrite app_length, code_bits_length.
  pose proof (huff_len_bounds c Hc). lia.
Qed.

(* ---------- round trip ---------- *)
Lemma repeat_true_all n : forallb (fun b : bool => b) (repeat true n) = true.
Proof. induction n; simpl; auto. Qed.

Theorem huff_encode_facts s : wf_bytes s = true ->
  wf_bytes (huff_encode s) = true /\ blen (huff_encode s) = huff_enc_len s
  /\ exists pad, bytes_bits (huff_encode s) = huff_bits s ++ pad /\ (length pad < 8)%nat
                 /\ forallb (fun b => b) pad = true.
Proof.
  intros Hw. pose proof (wf_bytes_symbols s Hw) as Hs.
  unfold huff_encode. set (bits := huff_bits s).
  destruct (pad_len_spec (length bits)) as [k [Hk [Hz Hp]]].
  destruct (pack_bits_spec k (bits ++ repeat true (pad_len (length bits)))) as [H1 [H2 H3]].
  { rewrite app_length, repeat_length. exact Hk. }
  split; [exact H2|split].
  - unfold blen. rewrite H3, Hz. unfold huff_enc_len. rewrite (sum_len_bits s Hs 0). reflexivity.
  - exists (repeat true (pad_len (length bits))). split; [exact H1|split].
    + rewrite repeat_length. exact Hp.
    + apply repeat_true_all.
Qed.

Lemma huff_bits_length_ge s : Forall (fun c => In c symbols) s -> (length s <= length (huff_bits s))%nat.
Proof.
  induction 1 as [|c s Hc Hs IH]; simpl; [lia|].
  unfold huff_bits in *. simpl. rewrite app_length, code_bits_length.
  pose proof (huff_len_bounds c Hc). lia.
Qed.

Theorem huff_roundtrip_rfc s : wf_bytes s = true -> rfc_huff_decode (huff_encode s) = Some s.
Proof.
  intros Hw. pose proof (wf_bytes_symbols s Hw) as Hs.
  destruct (huff_encode_facts s Hw) as [_ [_ [pad [Hb [Hl Ha]]]]].
  unfold rfc_huff_decode. rewrite Hb. apply bit_decode_roundtrip; try assumption.
  pose proof (huff_bits_length_ge s Hs) as Hge.
  assert (length (bytes_bits (huff_encode s)) = (length (huff_encode s) * 8)%nat) as Hlen.
  { clear. induction (huff_encode s) as [|b l IH]; [reflexivity|].
    cbn [bytes_bits flat_map]. rewrite app_length. fold (bytes_bits l). rewrite IH.
    unfold byte_bits. rewrite bits_msb_length. simpl. lia. }
  rewrite Hb, app_length in Hlen. lia.
Qed.

Theorem huff_roundtrip s : wf_bytes s = true -> huff_decode_spec (huff_encode s) = HOk s.
Proof. intros Hw. unfold huff_decode_spec. rewrite (huff_roundtrip_rfc s Hw). reflexivity. Qed.
