(* C30: every sequence of WriteField / SetMaxDynamicTableSize / end-of-block operations round-trips. *)
From Coq Require Import List ZArith Bool Lia ZifyBool ZifyNat.
From Bfe Require Import lib.Val lib.Bytes gen.HpackTables model.Huffman model.Hpack run.RunC30
  proofs.HuffmanProofs proofs.HpackProofs proofs.HpackLimProofs proofs.HpackEmitProofs.
Import ListNotations.
Open Scope Z_scope.
Strategy opaque [enc_field search_table search_list].

Lemma wf_field_b_f f : wf_field_b f = true -> wf_f f.
Proof.
  unfold wf_field_b, wf_f. intros H. apply andb_true_iff in H. destruct H as [H H4].
  apply andb_true_iff in H. destruct H as [H H3]. apply andb_true_iff in H. destruct H as [H1 H2].
  apply Z.ltb_lt in H3. apply Z.ltb_lt in H4. auto.
Qed.

Lemma enc_write_some e f : tab_ok (edt e) -> exists e' b, enc_write e f = Some (e', b).
Proof.
  intros Hok. unfold enc_write.
  assert (tab_ok (edt (enc_clear e))) as Hok2 by (unfold enc_clear; destruct (epending e); exact Hok).
  rewrite (enc_field_unfold (enc_clear e) f (edt (enc_clear e)) eq_refl).
  destruct (snd (search_table (edt (enc_clear e)) f)); [eexists; eexists; reflexivity|].
  cbv zeta. destruct (negb (fsens f) && (fsize f <=? dmax (edt (enc_clear e)))).
  - rewrite (dt_add_ok _ _ Hok2). eexists; eexists; reflexivity.
  - eexists; eexists; reflexivity.
Qed.

Lemma val_fields_roundtrip l : val_fields (fields_val l) = Some l.
Proof.
  unfold val_fields, fields_val. induction l as [|f l IH]; [reflexivity|].
  cbn [map all_some]. destruct f as [n x s]. unfold field_val at 1. cbn [fname fvalue fsens].
  assert (val_field (VL [VB n; VB x; vbool s]) = Some (mkF n x s)) as -> by (destruct s; reflexivity).
  rewrite IH. reflexivity.
Qed.
Lemma list_Z_eqb_refl a : list_Z_eqb a a = true.
Proof. apply list_Z_eqb_eq. reflexivity. Qed.
Lemma fields_eqb_refl l : fields_eqb l l = true.
Proof.
  induction l as [|f l IH]; [reflexivity|]. cbn [fields_eqb]. rewrite IH.
  unfold field_eqb, bytes_eqb. rewrite !list_Z_eqb_refl, eqb_reflx. reflexivity.
Qed.

Section Seq.
Variable hd : bytes -> hres.
Hypothesis Hhd : hd_ok hd.
Variable L : Z.
Hypothesis HL : 0 <= L <= uint32_max.

Lemma block_ok_record e t blk cur : sim L e t -> block_ok L cur (block_record blk cur 0 e (mkD t [] true)) = true.
Proof.
  intros [Hokt [Hoke [Hal [Hlim [HmL [Hbig [HtL _]]]]]]].
  unfold block_record, block_ok. rewrite val_fields_roundtrip, fields_eqb_refl. cbn [ddt].
  destruct Hokt as [Hs1 [Hm1 Hle1]]. destruct Hoke as [Hs2 [Hm2 Hle2]].
  pose proof (tsum_nonneg (ents t)). pose proof (tsum_nonneg (ents (edt e))).
  rewrite Hs1, Hs2.
  repeat (apply andb_true_iff; split); try reflexivity; lia.
Qed.

Definition started_of (cur : list field) : bool := match cur with [] => false | _ => true end.

Lemma run_ops_ok : forall ops e t0 blk cur ff t out,
  wf_ops_b ops (started_of cur) = true -> Dec hd true t0 blk cur ff t -> sim L e t ->
  (epending e = true -> cur = []) ->
  exists res, run_ops hd ops e (mkD t0 [] true) blk out = Some (rev out ++ res)
              /\ blocks_ok L (expected_blocks ops cur) res = true.
Proof.
  induction ops as [|o ops IH]; intros e t0 blk cur ff t out Hwf Hdec Hsim Hpc.
  - exists []. split; [cbn [run_ops]; rewrite app_nil_r; reflexivity|reflexivity].
  - pose proof (Dec_first hd _ _ _ _ _ _ Hdec) as Hff. destruct o as [f|v| |k]; cbn [wf_ops_b] in Hwf.
    + apply andb_true_iff in Hwf. destruct Hwf as [Hf Hwf']. apply wf_field_b_f in Hf.
      pose proof Hsim as [_ [Hoke _]]. destruct (enc_write_some e f Hoke) as [e' [b Hw]].
      assert (epending e = true -> ff = true) as Hpf by (intros Hp; rewrite (Hpc Hp) in Hff; exact Hff).
      destruct (sim_write hd Hhd L e t f e' b HL Hsim Hf Hw ff Hpf) as [t' [Hd' [Hsim' Hpen']]].
      cbn [run_ops expected_blocks]. rewrite Hw.
      apply (IH e' t0 (blk ++ b) (cur ++ [f]) false t' out); [|eapply Dec_app; eassumption|exact Hsim'|].
      * destruct cur; exact Hwf'.
      * intros Hp. congruence.
    + apply andb_true_iff in Hwf. destruct Hwf as [Hwf Hwf']. apply andb_true_iff in Hwf. destruct Hwf as [Hv Hst].
      assert (cur = []) as -> by (destruct cur; [reflexivity|discriminate Hst]).
      destruct (sim_set_max L e t v HL Hsim ltac:(lia)) as [e' [Hs Hsim']].
      cbn [run_ops expected_blocks]. rewrite Hs.
      apply (IH e' t0 blk [] ff t out Hwf' Hdec Hsim'). reflexivity.
    + cbn [run_ops expected_blocks]. rewrite (Dec_run hd _ _ _ _ _ _ Hdec).
      change (0 =? ST_PANIC) with false. cbv iota.
      assert (epending e = true -> @nil field = []) as Hpc' by reflexivity.
      destruct (IH e t [] [] true t (block_record blk cur 0 e (mkD t [] true) :: out) Hwf (Dec_nil hd true t) Hsim Hpc') as [res [Hr Hb]].
      exists (block_record blk cur 0 e (mkD t [] true) :: res). split.
      * rewrite Hr. cbn [rev]. rewrite <- app_assoc. reflexivity.
      * cbn [blocks_ok]. rewrite (block_ok_record e t blk cur Hsim), Hb. reflexivity.
    + cbn [run_ops expected_blocks].
      assert (dec_run_e hd 0 (mkD t0 [] true) k [blk] [] = (mkD t [] true, take_b k cur, 0)) as ->.
      { apply (emit_independent hd 0 ltac:(lia)). rewrite dec_run_lim0. apply (Dec_run hd _ _ _ _ _ _ Hdec). }
      change (0 =? ST_PANIC) with false. cbv iota.
      assert (epending e = true -> @nil field = []) as Hpc' by reflexivity.
      destruct (IH e t [] [] true t (block_record blk (take_b k cur) 0 e (mkD t [] true) :: out) Hwf (Dec_nil hd true t) Hsim Hpc') as [res [Hr Hb]].
      exists (block_record blk (take_b k cur) 0 e (mkD t [] true) :: res). split.
      * rewrite Hr. cbn [rev]. rewrite <- app_assoc. reflexivity.
      * cbn [blocks_ok]. rewrite (block_ok_record e t blk (take_b k cur) Hsim), Hb. reflexivity.
Qed.

Lemma init_sim : exists e0, init_enc L = Some e0 /\ sim L e0 (ddt (init_dec L)).
Proof.
  pose proof u32_lt as [Hu1 [Hu2 Hu3]].
  unfold init_enc, enc_set_limit, new_encoder, init_dec. cbn [edt dmax empty_dt ddt].
  destruct (4096 >? L) eqn:E.
  - unfold dt_set_max, empty_dt. cbn [ents dsize evict_loop dallowed].
    assert (0 >? L = false) as -> by lia. eexists. split; [reflexivity|].
    unfold sim, tab_ok, tab_eq. cbn. repeat split; try lia; try discriminate.
  - eexists. split; [reflexivity|].
    unfold sim, tab_ok, tab_eq, empty_dt. cbn. repeat split; try lia; try discriminate.
Qed.

Theorem sequence_roundtrip ops : wf_ops_b ops false = true ->
  exists e0 out, init_enc L = Some e0 /\ run_ops hd ops e0 (init_dec L) [] [] = Some out
                 /\ blocks_ok L (expected_blocks ops []) out = true.
Proof.
  intros Hwf. destruct init_sim as [e0 [He Hsim]].
  destruct (run_ops_ok ops e0 (ddt (init_dec L)) [] [] true (ddt (init_dec L)) [] Hwf (Dec_nil hd true _) Hsim ltac:(reflexivity)) as [res [Hr Hb]].
  exists e0, res. split; [exact He|split; [exact Hr|exact Hb]].
Qed.
End Seq.

Lemma hd_ok_spec : hd_ok huff_decode_spec.
Proof. intros s Hs. apply huff_roundtrip. exact Hs. Qed.

(* closed forms through the wire functions, with the RFC (bit-level) Huffman decoder in the decoder model *)
Definition run_C30_with (hd : bytes -> hres) (L : Z) (ops : list op) : option (list val) :=
  match init_enc L with Some e => run_ops hd ops e (init_dec L) [] [] | None => None end.
Theorem sequence_roundtrip_closed hd L ops :
  hd_ok hd -> 0 <= L <= uint32_max -> wf_ops_b ops false = true ->
  exists out, run_C30_with hd L ops = Some out /\ blocks_ok L (expected_blocks ops []) out = true.
Proof.
  intros Hhd HL Hwf. destruct (sequence_roundtrip hd Hhd L HL ops Hwf) as [e0 [out [He [Hr Hb]]]].
  exists out. unfold run_C30_with. rewrite He. split; assumption.
Qed.

Definition ex_ops : list op :=
  [OSetMax 50; OWrite (mkF [58;109;101;116;104;111;100] [71;69;84] false);
   OWrite (mkF [120;45;97] [104;101;108;108;111;32;119;111;114;108;100] false);
   OWrite (mkF [120;45;97] [104;101;108;108;111;32;119;111;114;108;100] false);
   OWrite (mkF [99;111;111;107;105;101] [115;101;99;114;101;116] true); OEnd;
   OSetMax 0; OSetMax 4096; OWrite (mkF [120;45;97] [255;0;1] false); OEnd].
Lemma ex_ops_wf : wf_ops_b ex_ops false = true.
Proof. vm_compute. reflexivity. Qed.
Lemma ex_ops_runs :
  match run_C30_with huff_decode 100 ex_ops with
  | Some out => blocks_ok 100 (expected_blocks ex_ops []) out = true /\ length out = 2%nat
  | None => False
  end.
Proof. vm_compute. split; reflexivity. Qed.

(* central theorem: the model satisfies the executable property on every well-formed input *)
Theorem C30_central_lemma i : wf_C30 i = true -> kf_C30 i = 0 -> prop_C30 i (run_C30 i) = true.
Proof.
  unfold wf_C30, prop_C30, run_C30, run_C30_hd. intros Hwf _.
  destruct (decode_input i) as [[L ops]|]; [|discriminate].
  apply andb_true_iff in Hwf. destruct Hwf as [Hwf Hops]. apply andb_true_iff in Hwf. destruct Hwf as [HL1 HL2].
  destruct (sequence_roundtrip_closed huff_decode_spec L ops hd_ok_spec ltac:(lia) Hops) as [out [Hr Hb]].
  unfold run_C30_with in Hr. destruct (init_enc L); [|discriminate]. rewrite Hr. exact Hb.
Qed.
Definition ex_input : val :=
  VL [VZ 100; VL [VL [VZ 1; VZ 50]; VL [VZ 0; VB [58;109;101;116;104;111;100]; VB [71;69;84]; VZ 0];
                  VL [VZ 0; VB [120;45;97]; VB [104;101;108;108;111]; VZ 1]; VL [VZ 2; VZ 1];
                  VL [VZ 1; VZ 0]; VL [VZ 1; VZ 4096]; VL [VZ 0; VB [120;45;97]; VB [255;0;1]; VZ 0]; VL [VZ 2]]].
Lemma ex_input_wf : wf_C30 ex_input = true /\ agree_C30 ex_input (run_C30 ex_input) = true.
Proof. vm_compute. split; reflexivity. Qed.

(* ---- the same for the byte-trie Huffman decoder, through huff_decode_eq_spec ---- *)
From Bfe Require Import proofs.HuffmanEquivProofs.
Lemma hd_ok_trie : hd_ok huff_decode.
Proof.
  intros s Hs. destruct (huff_encode_facts s Hs) as [Hw _].
  rewrite (huff_decode_eq_spec _ Hw). apply huff_roundtrip. exact Hs.
Qed.
Theorem C30_central_trie_lemma i : wf_C30 i = true -> prop_C30 i (run_C30_hd huff_decode i) = true.
Proof.
  unfold wf_C30, prop_C30, run_C30_hd. intros Hwf.
  destruct (decode_input i) as [[L ops]|]; [|discriminate].
  apply andb_true_iff in Hwf. destruct Hwf as [Hwf Hops]. apply andb_true_iff in Hwf. destruct Hwf as [HL1 HL2].
  destruct (sequence_roundtrip_closed huff_decode L ops hd_ok_trie ltac:(lia) Hops) as [out [Hr Hb]].
  unfold run_C30_with in Hr. destruct (init_enc L); [|discriminate]. rewrite Hr. exact Hb.
Qed.
