(* Proofs about model/HostTable.v (C10): the trie with splat entries built by buildHostRoute refines the
   declarative "exact, else longest wildcard" specification on label paths. *)
From Coq Require Import List ZArith Bool Lia.
From Bfe Require Import lib.Val lib.ValProofs lib.Bytes model.HostTable.
Import ListNotations.
Open Scope Z_scope.

Lemma bytes_eqb_refl a : bytes_eqb a a = true.
Proof. apply bytes_eqb_eq. reflexivity. Qed.
Lemma bytes_eqb_sym a b : bytes_eqb a b = bytes_eqb b a.
Proof.
  destruct (bytes_eqb a b) eqn:E1, (bytes_eqb b a) eqn:E2; try reflexivity.
  - apply bytes_eqb_eq in E1. subst. rewrite bytes_eqb_refl in E2. discriminate.
  - apply bytes_eqb_eq in E2. subst. rewrite bytes_eqb_refl in E1. discriminate.
Qed.
Lemma paths_eqb_eq a b : paths_eqb a b = true <-> a = b.
Proof.
  revert b; induction a as [|x a IH]; intros [|y b]; simpl; split; intro H; try reflexivity; try discriminate.
  - apply andb_true_iff in H. destruct H as [H1 H2]. apply bytes_eqb_eq in H1. apply IH in H2. congruence.
  - inversion H; subst. rewrite bytes_eqb_refl. simpl. apply IH. reflexivity.
Qed.

Definition tbl_t := list (list bytes * route).
Definition fold_set (tbl : tbl_t) (t : trie route) : trie route :=
  fold_left (fun t e => tset (fst e) (snd e) t) tbl t.
Definition t_entry (t : trie route) := match t with Node e _ _ => e end.
Definition t_splat (t : trie route) := match t with Node _ s _ => s end.
Definition sub (k : bytes) (t : trie route) : trie route :=
  match t with Node _ _ ch => match @child route k ch with Some c => c | None => @tempty route end end.
Definition ok_head (k : bytes) (p' : list bytes) : bool := negb (is_star k && negb (is_nil p')).
(* the entries below label k, with k removed; entries Trie.Set rejects at this level are dropped *)
Fixpoint deriv (k : bytes) (tbl : tbl_t) : tbl_t :=
  match tbl with
  | [] => []
  | (k' :: p', v) :: r => if bytes_eqb k' k && ok_head k' p' then (p', v) :: deriv k r else deriv k r
  | ([], _) :: r => deriv k r
  end.

Lemma child_set_same k (c : trie route) ch : child k (set_child k c ch) = Some c.
Proof.
  induction ch as [|[k' c'] ch IH]; simpl.
  - rewrite bytes_eqb_refl. reflexivity.
  - destruct (bytes_eqb k k') eqn:E; simpl; rewrite ?bytes_eqb_refl, ?E; [reflexivity|exact IH].
Qed.
Lemma child_set_other k k0 (c : trie route) ch : bytes_eqb k k0 = false -> child k (set_child k0 c ch) = child k ch.
Proof.
  intros Hne. induction ch as [|[k' c'] ch IH]; simpl.
  - rewrite Hne. reflexivity.
  - destruct (bytes_eqb k0 k') eqn:E; simpl.
    + apply bytes_eqb_eq in E. subst k'. rewrite Hne. reflexivity.
    + destruct (bytes_eqb k k'); [reflexivity|exact IH].
Qed.
Lemma tget_empty p : tget p (@tempty route) = None.
Proof. destruct p; reflexivity. Qed.

(* one Set step seen through the three observations entry / splat / sub-trie *)
Lemma entry_tset p v t :
  t_entry (tset p v t) = if is_nil p then Some v else t_entry t.
Proof.
  destruct p as [|k p']; destruct t as [e s ch]; simpl; [reflexivity|].
  destruct (is_star k && negb (is_nil p')); reflexivity.
Qed.
Lemma splat_tset p v t :
  t_splat (tset p v t) = if paths_eqb p [star] then Some v else t_splat t.
Proof.
  destruct p as [|k p']; destruct t as [e s ch]; simpl; [reflexivity|].
  unfold is_star. destruct (bytes_eqb k star) eqn:Ek; simpl.
  - destruct p' as [|k2 p2]; simpl; reflexivity.
  - reflexivity.
Qed.
Lemma sub_tset k p v t :
  sub k (tset p v t) =
  match p with
  | k' :: p' => if bytes_eqb k' k && ok_head k' p' then tset p' v (sub k t) else sub k t
  | [] => sub k t
  end.
Proof.
  destruct p as [|k' p']; destruct t as [e s ch]; simpl; [reflexivity|].
  unfold ok_head. destruct (is_star k' && negb (is_nil p')) eqn:Eb; simpl.
  - rewrite andb_false_r. reflexivity.
  - rewrite andb_true_r. destruct (bytes_eqb k' k) eqn:Ek.
    + apply bytes_eqb_eq in Ek. subst k'. rewrite child_set_same. reflexivity.
    + rewrite child_set_other by (rewrite bytes_eqb_sym; exact Ek). reflexivity.
Qed.

Lemma entry_fold tbl : forall t,
  t_entry (fold_set tbl t) = or_else (find_last (fun e => is_nil (fst e)) snd tbl) (t_entry t).
Proof.
  induction tbl as [|[p v] tbl IH]; intros t; simpl; [reflexivity|].
  unfold fold_set in *. simpl. rewrite IH. rewrite entry_tset.
  destruct (find_last _ snd tbl); simpl; [reflexivity|]. destruct (is_nil p); reflexivity.
Qed.
Lemma splat_fold tbl : forall t,
  t_splat (fold_set tbl t) = or_else (find_last (fun e => paths_eqb (fst e) [star]) snd tbl) (t_splat t).
Proof.
  induction tbl as [|[p v] tbl IH]; intros t; simpl; [reflexivity|].
  unfold fold_set in *. simpl. rewrite IH. rewrite splat_tset.
  destruct (find_last _ snd tbl); simpl; [reflexivity|]. destruct (paths_eqb p [star]); reflexivity.
Qed.
Lemma sub_fold k tbl : forall t, sub k (fold_set tbl t) = fold_set (deriv k tbl) (sub k t).
Proof.
  induction tbl as [|[p v] tbl IH]; intros t; [reflexivity|].
  unfold fold_set in *. simpl fold_left. rewrite IH. rewrite sub_tset.
  destruct p as [|k' p']; simpl; [reflexivity|].
  destruct (bytes_eqb k' k && ok_head k' p'); reflexivity.
Qed.

(* recursive form of the specification *)
Fixpoint spec_rec (tbl : tbl_t) (q : list bytes) {struct q} : option route :=
  match q with
  | [] => find_last (fun e => is_nil (fst e)) snd tbl
  | k :: q' => or_else (spec_rec (deriv k tbl) q') (find_last (fun e => paths_eqb (fst e) [star]) snd tbl)
  end.
Lemma tget_sub k q t :
  tget (k :: q) t = or_else (tget q (sub k t)) (t_splat t).
Proof.
  destruct t as [e s ch]. simpl. destruct (child k ch); [reflexivity|]. rewrite tget_empty. reflexivity.
Qed.
Lemma or_else_none (a : option route) : or_else a None = a.
Proof. destruct a; reflexivity. Qed.
Lemma tget_fold q : forall tbl, tget q (fold_set tbl tempty) = spec_rec tbl q.
Proof.
  induction q as [|k q IH]; intros tbl.
  - change (tget [] (fold_set tbl tempty)) with (t_entry (fold_set tbl tempty)).
    rewrite entry_fold. simpl. apply or_else_none.
  - rewrite tget_sub, sub_fold, splat_fold. simpl sub. rewrite IH. simpl. rewrite or_else_none. reflexivity.
Qed.

(* from the recursive form to the declarative one *)
Lemma find_last_ext {A B} (f g : A -> bool) (h : A -> B) l :
  (forall x, f x = g x) -> find_last f h l = find_last g h l.
Proof. intros H. induction l as [|x l IH]; simpl; [reflexivity|]. rewrite IH, H. reflexivity. Qed.
Lemma exact_nil tbl : find_last (fun e => is_nil (fst e)) snd tbl = exact_of tbl [].
Proof. apply find_last_ext. intros [p v]. simpl. destruct p; simpl; [reflexivity|rewrite andb_false_r; reflexivity]. Qed.
Lemma exact_star tbl : find_last (fun e => paths_eqb (fst e) [star]) snd tbl = exact_of tbl [star].
Proof.
  apply find_last_ext. intros [p v]. simpl.
  destruct (paths_eqb p [star]) eqn:E; [|rewrite andb_false_r; reflexivity].
  apply paths_eqb_eq in E. subst p. reflexivity.
Qed.
Lemma exact_deriv k tbl q : exact_of (deriv k tbl) q = exact_of tbl (k :: q).
Proof.
  unfold exact_of. induction tbl as [|[p v] tbl IH]; simpl; [reflexivity|].
  destruct p as [|k' p']; simpl.
  - rewrite IH. destruct (find_last _ snd tbl); reflexivity.
  - unfold ok_head. destruct (bytes_eqb k' k) eqn:Ek; simpl.
    + destruct (negb (is_star k' && negb (is_nil p'))) eqn:Eo; simpl.
      * rewrite IH. reflexivity.
      * rewrite IH. destruct (find_last _ snd tbl); reflexivity.
    + rewrite IH. rewrite andb_false_r. destruct (find_last _ snd tbl); reflexivity.
Qed.
Lemma first_some_app {A B} (f : A -> option B) l1 l2 :
  first_some f (l1 ++ l2) = match first_some f l1 with Some v => Some v | None => first_some f l2 end.
Proof. induction l1 as [|x l1 IH]; simpl; [reflexivity|]. destruct (f x); [reflexivity|exact IH]. Qed.
Lemma first_some_map {A B C} (f : A -> option B) (g : C -> A) l :
  first_some f (map g l) = first_some (fun x => f (g x)) l.
Proof. induction l as [|x l IH]; simpl; [reflexivity|]. destruct (f (g x)); [reflexivity|exact IH]. Qed.
Lemma first_some_ext {A B} (f g : A -> option B) l : (forall x, f x = g x) -> first_some f l = first_some g l.
Proof. intros H. induction l as [|x l IH]; simpl; [reflexivity|]. rewrite H, IH. reflexivity. Qed.

Lemma spec_rec_decl q : forall tbl, spec_rec tbl q = spec_paths tbl q.
Proof.
  induction q as [|k q IH]; intros tbl.
  - simpl. rewrite exact_nil. unfold spec_paths, wild_of. simpl. destruct (exact_of tbl []); reflexivity.
  - simpl. rewrite IH, exact_star. unfold spec_paths, wild_of. simpl strict_prefixes_desc.
    rewrite exact_deriv, first_some_app, first_some_map. simpl first_some.
    rewrite (first_some_ext (fun pre => exact_of (deriv k tbl) (pre ++ [star]))
                            (fun x => exact_of tbl ((k :: x) ++ [star]))) by (intros x; apply exact_deriv).
    destruct (exact_of tbl (k :: q)); simpl; [reflexivity|].
    destruct (first_some _ (strict_prefixes_desc q)); simpl; [reflexivity|].
    destruct (exact_of tbl [star]); reflexivity.
Qed.

(* ---- headline ---- *)
Theorem trie_refines_spec tbl q : tget q (build_paths tbl) = spec_paths tbl q.
Proof. unfold build_paths. change (fold_left _ tbl tempty) with (fold_set tbl tempty). rewrite tget_fold. apply spec_rec_decl. Qed.

Theorem lookup_refines_spec tbl host :
  find_host_route tbl host = spec_paths (map entry_path tbl) (req_path host).
Proof. unfold find_host_route, build. apply trie_refines_spec. Qed.

(* ---- the fallback chain ---- *)
Definition chain (r : option route) (vips : list (bytes * bytes)) (dflt : bytes) (vip : option bytes) : presult :=
  match r with
  | Some (tag, prod) => POk tag prod
  | None =>
    match (match vip with Some v => assoc v vips | None => None end) with
    | Some prod => POk [] prod
    | None => if is_nil dflt then PErrNoProduct else POk [] dflt
    end
  end.
Theorem priority_chain tbl vips dflt host vip :
  lookup_product tbl vips dflt host vip =
  chain (spec_paths (map entry_path tbl) (req_path host)) vips dflt vip.
Proof. unfold lookup_product. rewrite lookup_refines_spec. reflexivity. Qed.

(* ---- declarative reading of spec_paths ---- *)
Lemma spd_in q : forall p, In p (strict_prefixes_desc q) <-> exists y, y <> [] /\ q = p ++ y.
Proof.
  induction q as [|k q IH]; intros p; simpl.
  - split; [tauto|]. intros (y & Hy & H). destruct p; destruct y; simpl in H; congruence.
  - rewrite in_app_iff, in_map_iff. split.
    + intros [(x & Hx & Hin)|[H|[]]].
      * subst p. apply IH in Hin. destruct Hin as (y & Hy & ->). exists y. split; [exact Hy|reflexivity].
      * subst p. exists (k :: q). split; [discriminate|reflexivity].
    + intros (y & Hy & H). destruct p as [|k' p'].
      * right. left. reflexivity.
      * left. simpl in H. inversion H; subst. exists p'. split; [reflexivity|]. apply IH. exists y. split; [exact Hy|reflexivity].
Qed.
Lemma first_some_none {A B} (f : A -> option B) l : (forall x, In x l -> f x = None) -> first_some f l = None.
Proof.
  induction l as [|x l IH]; intros H; simpl; [reflexivity|].
  rewrite (H x (or_introl eq_refl)). apply IH. intros y Hy. apply H. right. exact Hy.
Qed.
Lemma first_some_longest {B} (f : list bytes -> option B) v : forall pre r,
  r <> [] -> f pre = Some v ->
  (forall x y, x <> [] -> y <> [] -> r = x ++ y -> f (pre ++ x) = None) ->
  first_some f (strict_prefixes_desc (pre ++ r)) = Some v.
Proof.
  intros pre. revert f. induction pre as [|k pre IH]; intros f r Hr Hf Hlonger.
  - simpl in *. destruct r as [|k r]; [congruence|]. simpl. rewrite first_some_app.
    rewrite first_some_none.
    + simpl. rewrite Hf. reflexivity.
    + intros x Hin. apply in_map_iff in Hin. destruct Hin as (p & <- & Hin). apply spd_in in Hin.
      destruct Hin as (y & Hy & ->). apply (Hlonger (k :: p) y); [discriminate|exact Hy|reflexivity].
  - simpl. rewrite first_some_app, first_some_map.
    rewrite (IH (fun x => f (k :: x)) r Hr Hf); [reflexivity|].
    intros x y Hx Hy Heq. apply (Hlonger x y Hx Hy Heq).
Qed.
(* an exact entry always wins *)
Theorem exact_wins tbl q v : exact_of tbl q = Some v -> spec_paths tbl q = Some v.
Proof. unfold spec_paths. intros ->. reflexivity. Qed.
(* otherwise the wildcard entry with the LONGEST matching label prefix (= longest host suffix) wins,
   and it needs at least one extra label (r <> []) *)
Theorem wildcard_longest tbl pre r v :
  exact_of tbl (pre ++ r) = None -> r <> [] ->
  exact_of tbl (pre ++ [star]) = Some v ->
  (forall x y, x <> [] -> y <> [] -> r = x ++ y -> exact_of tbl ((pre ++ x) ++ [star]) = None) ->
  spec_paths tbl (pre ++ r) = Some v.
Proof.
  intros He Hr Hw Hl. unfold spec_paths, wild_of. rewrite He.
  apply (first_some_longest (fun p => exact_of tbl (p ++ [star])) v pre r Hr Hw Hl).
Qed.
(* no exact entry and no applicable wildcard entry: no route from the host table *)
Theorem no_entry_no_route tbl q :
  exact_of tbl q = None ->
  (forall pre y, y <> [] -> q = pre ++ y -> exact_of tbl (pre ++ [star]) = None) ->
  spec_paths tbl q = None.
Proof.
  intros He Hn. unfold spec_paths, wild_of. rewrite He. apply first_some_none.
  intros p Hin. apply spd_in in Hin. destruct Hin as (y & Hy & Hq). apply (Hn p y Hy Hq).
Qed.
(* exact_of is membership: the value comes from a usable configured entry with exactly this path *)
Lemma find_last_some {A B} (f : A -> bool) (g : A -> B) l v :
  find_last f g l = Some v -> exists x, In x l /\ f x = true /\ g x = v.
Proof.
  induction l as [|x l IH]; simpl; [discriminate|].
  destruct (find_last f g l) as [w|] eqn:E.
  - intros H. inversion H; subst. destruct (IH eq_refl) as (y & Hy & Hf & Hg). exists y. auto.
  - destruct (f x) eqn:Ef; [|discriminate]. intros H. inversion H; subst. exists x. auto.
Qed.
Lemma find_last_none {A B} (f : A -> bool) (g : A -> B) l :
  find_last f g l = None <-> forall x, In x l -> f x = false.
Proof.
  induction l as [|x l IH]; simpl; [split; [intros _ y []|reflexivity]|].
  destruct (find_last f g l) eqn:E.
  - split; [discriminate|]. intros H. exfalso.
    assert (Hx : Some b = None) by (apply IH; intros y Hy; apply H; right; exact Hy). discriminate.
  - destruct (f x) eqn:Ef.
    + split; [discriminate|]. intros H. rewrite (H x (or_introl eq_refl)) in Ef. discriminate.
    + split; [|reflexivity]. intros _ y [->|Hy]; [exact Ef|]. apply IH; [reflexivity|exact Hy].
Qed.
Theorem exact_of_sound tbl q v :
  exact_of tbl q = Some v -> In (q, v) tbl /\ valid_path q = true.
Proof.
  unfold exact_of. intros H. apply find_last_some in H. destruct H as ([p w] & Hin & Hf & Hg).
  simpl in *. apply andb_true_iff in Hf. destruct Hf as [Hv He]. apply paths_eqb_eq in He. subst. auto.
Qed.
Theorem exact_of_complete tbl q :
  exact_of tbl q = None -> forall v, In (q, v) tbl -> valid_path q = false.
Proof.
  unfold exact_of. intros H v Hin. apply find_last_none with (x := (q, v)) in H; [|exact Hin].
  simpl in H. assert (Hq : paths_eqb q q = true) by (apply paths_eqb_eq; reflexivity).
  rewrite Hq, andb_true_r in H. exact H.
Qed.

(* ---- case, port and trailing dot of the request host are ignored ---- *)
Lemma to_lower_app a b : to_lower (a ++ b) = to_lower a ++ to_lower b.
Proof. apply map_app. Qed.
Lemma to_lower_idem a : to_lower (to_lower a) = to_lower a.
Proof.
  unfold to_lower. rewrite map_map. apply map_ext. intros b. unfold lower_byte.
  destruct ((65 <=? b) && (b <=? 90)) eqn:E; [|rewrite E; reflexivity].
  apply andb_true_iff in E. destruct E as [E1 E2]. apply Z.leb_le in E1. apply Z.leb_le in E2.
  assert (H : (65 <=? b + 32) && (b + 32 <=? 90) = false).
  { apply andb_false_iff. right. apply Z.leb_gt. lia. }
  rewrite H. reflexivity.
Qed.
Theorem case_insensitive tbl h h' : eq_fold h h' = true -> find_host_route tbl h = find_host_route tbl h'.
Proof.
  unfold eq_fold. intros H. apply bytes_eqb_eq in H. unfold find_host_route, req_path. rewrite H. reflexivity.
Qed.
Lemma strip_port_app h p : forallb (fun b => negb (b =? COLON)) h = true ->
  strip_port (h ++ COLON :: p) = h.
Proof.
  induction h as [|x h IH]; simpl; intros H.
  - reflexivity.
  - apply andb_true_iff in H. destruct H as [Hx Hh]. apply negb_true_iff in Hx. rewrite Hx. f_equal. apply IH. exact Hh.
Qed.
Lemma strip_port_none h : forallb (fun b => negb (b =? COLON)) h = true -> strip_port h = h.
Proof.
  induction h as [|x h IH]; simpl; intros H; [reflexivity|].
  apply andb_true_iff in H. destruct H as [Hx Hh]. apply negb_true_iff in Hx. rewrite Hx. f_equal. apply IH. exact Hh.
Qed.
Lemma no_colon_lower h : forallb (fun b => negb (b =? COLON)) h = true ->
  forallb (fun b => negb (b =? COLON)) (to_lower h) = true.
Proof.
  induction h as [|x h IH]; simpl; intros H; [reflexivity|].
  apply andb_true_iff in H. destruct H as [Hx Hh]. rewrite (IH Hh), andb_true_r.
  apply negb_true_iff in Hx. apply Z.eqb_neq in Hx. apply negb_true_iff. apply Z.eqb_neq.
  unfold lower_byte, COLON in *. destruct ((65 <=? x) && (x <=? 90)) eqn:E; [|exact Hx].
  apply andb_true_iff in E. destruct E as [E1 E2]. apply Z.leb_le in E1. lia.
Qed.
Theorem port_ignored tbl h port : forallb (fun b => negb (b =? COLON)) h = true ->
  find_host_route tbl (h ++ COLON :: port) = find_host_route tbl h.
Proof.
  intros H. unfold find_host_route, req_path. rewrite to_lower_app. simpl to_lower.
  change (lower_byte COLON) with COLON.
  rewrite strip_port_app by (apply no_colon_lower; exact H).
  rewrite strip_port_none by (apply no_colon_lower; exact H). reflexivity.
Qed.
Lemma reverse_fqdn_dot h : ~ (exists h0, h = h0 ++ [DOT]) -> reverse_fqdn (h ++ [DOT]) = reverse_fqdn h.
Proof.
  intros Hn. unfold reverse_fqdn. rewrite rev_app_distr. simpl. change (DOT =? DOT) with true. simpl.
  destruct (rev h) as [|x r] eqn:E; [reflexivity|].
  destruct (x =? DOT) eqn:Ex; [|reflexivity].
  exfalso. apply Hn. apply Z.eqb_eq in Ex. subst x. exists (rev r).
  rewrite <- (rev_involutive h), E. reflexivity.
Qed.
Theorem trailing_dot_ignored tbl h :
  forallb (fun b => negb (b =? COLON)) h = true -> ~ (exists h0, h = h0 ++ [DOT]) ->
  find_host_route tbl (h ++ [DOT]) = find_host_route tbl h.
Proof.
  intros Hc Hn. unfold find_host_route, req_path, host_path. rewrite to_lower_app. simpl to_lower.
  change (lower_byte DOT) with DOT.
  assert (Hc' := no_colon_lower h Hc).
  assert (Hc2 : forallb (fun b => negb (b =? COLON)) (to_lower h ++ [DOT]) = true).
  { rewrite forallb_app, Hc'. reflexivity. }
  rewrite (strip_port_none _ Hc2), (strip_port_none _ Hc'). rewrite reverse_fqdn_dot; [reflexivity|].
  intros (h0 & Heq). apply Hn.
  (* to_lower h ends with '.' only if h does *)
  assert (Hl : forall a b, to_lower a = b ++ [DOT] -> exists a0, a = a0 ++ [DOT]).
  { intros a. induction a as [|x a IHa] using rev_ind; intros b Hb.
    - destruct b; discriminate.
    - rewrite to_lower_app in Hb. simpl in Hb. apply app_inj_tail in Hb. destruct Hb as [_ Hx].
      exists a. f_equal. f_equal. unfold lower_byte, DOT in *.
      destruct ((65 <=? x) && (x <=? 90)) eqn:E; [|exact Hx].
      apply andb_true_iff in E. destruct E as [E1 E2]. apply Z.leb_le in E1. lia. }
  apply (Hl h h0 Heq).
Qed.

(* ---- non-vacuity ---- *)
Definition s2b (l : list Z) : bytes := l.
(* "Example.com" -> (t1,p1); "*.example.com" -> (t2,p2); "*.com" -> (t3,p3) *)
Definition ex_tbl : list host_entry :=
  [ ([69;120;97;109;112;108;101;46;99;111;109], ([116;49], [112;49]));
    ([42;46;101;120;97;109;112;108;101;46;99;111;109], ([116;50], [112;50]));
    ([42;46;99;111;109], ([116;51], [112;51])) ].
Lemma ex_lookups :
  (* example.COM:8080 -> p1 (exact, case and port ignored) *)
  lookup_product ex_tbl [] [] [101;120;97;109;112;108;101;46;67;79;77;58;56;48;56;48] None = POk [116;49] [112;49] /\
  (* a.b.example.com. -> p2 (longest wildcard, two extra labels, trailing dot) *)
  lookup_product ex_tbl [] [] [97;46;98;46;101;120;97;109;112;108;101;46;99;111;109;46] None = POk [116;50] [112;50] /\
  (* other.com -> p3 (shorter wildcard) *)
  lookup_product ex_tbl [] [] [111;116;104;101;114;46;99;111;109] None = POk [116;51] [112;51] /\
  (* com -> no host entry ("*.com" needs one more label); VIP 1 -> product "v" *)
  lookup_product ex_tbl [([49], [118])] [100] [99;111;109] (Some [49]) = POk [] [118] /\
  (* com, VIP unknown -> default product "d" *)
  lookup_product ex_tbl [([49], [118])] [100] [99;111;109] (Some [50]) = POk [] [100] /\
  (* com, no VIP, no default -> ErrNoProduct *)
  lookup_product ex_tbl [([49], [118])] [] [99;111;109] None = PErrNoProduct.
Proof. vm_compute. repeat split; reflexivity. Qed.

(* ================= natural labels: tie of the reversed-string preprocessing to plain label lists ================= *)
(* rv: reverse the label order and every label (what ReverseFqdnHost + Split do to the natural labels) *)
Definition rv (ls : list bytes) : list bytes := rev (map (@rev Z) ls).

Lemma split_nonempty c l : exists cur rest, split_byte c l = cur :: rest.
Proof.
  pose proof (split_byte_nonempty c l) as H. destruct (split_byte c l) as [|cur rest]; [congruence|].
  exists cur, rest. reflexivity.
Qed.
Lemma split_cons c x s : split_byte c (x :: s) =
  match split_byte c s with
  | cur :: rest => if x =? c then [] :: cur :: rest else (x :: cur) :: rest
  | [] => [[]]
  end.
Proof. reflexivity. Qed.
(* strings.Split distributes over concatenation by gluing the boundary fields *)
Lemma split_app c a : forall b',
  split_byte c (a ++ b') =
  removelast (split_byte c a) ++ [last (split_byte c a) [] ++ hd [] (split_byte c b')] ++ tl (split_byte c b').
Proof.
  induction a as [|y a IH]; intros b'.
  - simpl. destruct (split_nonempty c b') as (h & t & ->). reflexivity.
  - rewrite <- app_comm_cons. rewrite (split_cons c y (a ++ b')), (split_cons c y a). rewrite IH.
    destruct (split_nonempty c a) as (cur & rest & ->).
    destruct (split_nonempty c b') as (h & t & ->). simpl hd. simpl tl.
    destruct rest as [|r0 rest'].
    + simpl. destruct (y =? c); reflexivity.
    + change (removelast (cur :: r0 :: rest')) with (cur :: removelast (r0 :: rest')).
      change (last (cur :: r0 :: rest') []) with (last (r0 :: rest') []).
      simpl app at 1.
      destruct (y =? c).
      * change (removelast ([] :: cur :: r0 :: rest')) with ([] :: cur :: removelast (r0 :: rest')).
        change (last ([] :: cur :: r0 :: rest') []) with (last (r0 :: rest') []). reflexivity.
      * change (removelast ((y :: cur) :: r0 :: rest')) with ((y :: cur) :: removelast (r0 :: rest')).
        change (last ((y :: cur) :: r0 :: rest') []) with (last (r0 :: rest') []). reflexivity.
Qed.
Lemma split_rev c s : split_byte c (rev s) = rv (split_byte c s).
Proof.
  unfold rv. induction s as [|x s IH]; [reflexivity|].
  simpl rev. rewrite split_app, IH, split_cons. destruct (split_nonempty c s) as (cur & rest & ->).
  simpl map. simpl rev. rewrite removelast_last, last_last.
  destruct (x =? c) eqn:Ex.
  - simpl. rewrite app_nil_r, <- app_assoc. reflexivity.
  - simpl. reflexivity.
Qed.

Lemma reverse_fqdn_strip h : reverse_fqdn h = rev (strip_dot h).
Proof.
  unfold reverse_fqdn, strip_dot. destruct (rev h) as [|x r] eqn:E; [reflexivity|].
  destruct (x =? DOT); [rewrite rev_involutive; reflexivity|symmetry; exact E].
Qed.
Lemma host_path_rv h : host_path h = rv (labels h).
Proof. unfold host_path, labels. rewrite reverse_fqdn_strip. apply split_rev. Qed.
Lemma rev_inj {A} (a b : list A) : rev a = rev b -> a = b.
Proof. intros H. rewrite <- (rev_involutive a), <- (rev_involutive b), H. reflexivity. Qed.
Lemma rv_inj a b : rv a = rv b -> a = b.
Proof.
  unfold rv. intros H. apply rev_inj in H. apply (f_equal (map (@rev Z))) in H.
  rewrite !map_map in H. rewrite (map_ext _ (fun x => x)) in H by (intros; apply rev_involutive).
  rewrite (map_ext (fun x => rev (rev x)) (fun x => x)) in H by (intros; apply rev_involutive).
  rewrite !map_id in H. exact H.
Qed.
Lemma paths_eqb_rv a b : paths_eqb (rv a) (rv b) = paths_eqb a b.
Proof.
  destruct (paths_eqb a b) eqn:E.
  - apply paths_eqb_eq in E. subst. apply paths_eqb_eq. reflexivity.
  - destruct (paths_eqb (rv a) (rv b)) eqn:E2; [|reflexivity]. apply paths_eqb_eq in E2. apply rv_inj in E2.
    subst. assert (H : paths_eqb b b = true) by (apply paths_eqb_eq; reflexivity). congruence.
Qed.
Lemma is_star_rev l : is_star (rev l) = is_star l.
Proof.
  unfold is_star. destruct (bytes_eqb l star) eqn:E.
  - apply bytes_eqb_eq in E. subst. reflexivity.
  - destruct (bytes_eqb (rev l) star) eqn:E2; [|reflexivity]. apply bytes_eqb_eq in E2.
    assert (l = star) by (apply rev_inj; rewrite E2; reflexivity). subst. discriminate.
Qed.
Lemma rv_cons x r : rv (x :: r) = rv r ++ [rev x].
Proof. reflexivity. Qed.
Lemma valid_path_snoc p x : valid_path (p ++ [x]) = forallb (fun l => negb (is_star l)) p.
Proof.
  induction p as [|k p IH]; simpl.
  - rewrite andb_false_r. reflexivity.
  - rewrite IH. destruct (p ++ [x]) eqn:E; [destruct p; discriminate|]. simpl. rewrite andb_true_r. reflexivity.
Qed.
Lemma forallb_rv r : forallb (fun l => negb (is_star l)) (rv r) = forallb (fun l => negb (is_star l)) r.
Proof.
  induction r as [|a r IH]; [reflexivity|]. rewrite rv_cons, forallb_app, IH. simpl.
  rewrite is_star_rev, andb_true_r. apply andb_comm.
Qed.
Lemma valid_rv ls : valid_path (rv ls) = valid_labels ls.
Proof. destruct ls as [|l0 r]; [reflexivity|]. rewrite rv_cons, valid_path_snoc. apply forallb_rv. Qed.
Lemma spd_snoc l y : strict_prefixes_desc (l ++ [y]) = l :: strict_prefixes_desc l.
Proof.
  induction l as [|k l IH]; [reflexivity|]. simpl. rewrite IH. reflexivity.
Qed.
Lemma spd_rv q : strict_prefixes_desc (rv q) = map rv (proper_suffixes q).
Proof.
  induction q as [|x q IH]; [reflexivity|]. rewrite rv_cons, spd_snoc, IH. reflexivity.
Qed.
Lemma exact_rv tbl q : exact_of (map entry_path tbl) (rv q) = nat_exact tbl q.
Proof.
  unfold exact_of, nat_exact. induction tbl as [|e tbl IH]; [reflexivity|]. simpl. rewrite IH.
  rewrite host_path_rv, valid_rv, paths_eqb_rv. reflexivity.
Qed.
(* the specification on trie paths is the specification on natural host labels *)
Theorem spec_paths_natural tbl host :
  spec_paths (map entry_path tbl) (req_path host) = spec_host tbl host.
Proof.
  unfold req_path, spec_host, spec_paths, wild_of. rewrite host_path_rv.
  set (q := labels (strip_port (to_lower host))). rewrite exact_rv.
  destruct (nat_exact tbl q); [reflexivity|]. rewrite spd_rv, first_some_map.
  apply first_some_ext. intros suf. rewrite <- exact_rv. reflexivity.
Qed.
Theorem lookup_product_natural tbl vips dflt host vip :
  lookup_product tbl vips dflt host vip = spec_product tbl vips dflt host vip.
Proof.
  rewrite priority_chain, spec_paths_natural. unfold chain, spec_product.
  destruct (spec_host tbl host) as [[tag prod]|]; [reflexivity|]. destruct vip; reflexivity.
Qed.


(* ================= insertion order is irrelevant when the normalised hosts are distinct ================= *)
(* buildHostRoute ranges over a Go map (random order).  For tables whose paths are pairwise distinct the result of
   every lookup is the same for every insertion order. *)
From Coq Require Import Permutation.
Lemma nodup_key_unique (tbl : tbl_t) q v v' :
  NoDup (map fst tbl) -> In (q, v) tbl -> In (q, v') tbl -> v = v'.
Proof.
  induction tbl as [|[p w] tbl IH]; simpl; [tauto|]. intros Hn H1 H2.
  inversion Hn as [|x l Hnin Hnd]; subst.
  destruct H1 as [H1|H1], H2 as [H2|H2].
  - congruence.
  - inversion H1; subst. exfalso. apply Hnin. apply (in_map fst) in H2. exact H2.
  - inversion H2; subst. exfalso. apply Hnin. apply (in_map fst) in H1. exact H1.
  - apply IH; assumption.
Qed.
Lemma exact_of_perm (tbl tbl' : tbl_t) q :
  NoDup (map fst tbl) -> Permutation tbl tbl' -> exact_of tbl q = exact_of tbl' q.
Proof.
  intros Hn Hp.
  assert (Hn' : NoDup (map fst tbl')) by (apply (Permutation_NoDup (Permutation_map fst Hp)); exact Hn).
  destruct (exact_of tbl q) as [v|] eqn:E1; destruct (exact_of tbl' q) as [v'|] eqn:E2; try reflexivity.
  - apply exact_of_sound in E1. apply exact_of_sound in E2. destruct E1 as [I1 _], E2 as [I2 _].
    f_equal. apply (nodup_key_unique tbl' q v v' Hn'); [apply (Permutation_in _ Hp); exact I1|exact I2].
  - apply exact_of_sound in E1. destruct E1 as [I1 V1].
    pose proof (exact_of_complete _ _ E2 v (Permutation_in _ Hp I1)). congruence.
  - apply exact_of_sound in E2. destruct E2 as [I2 V2].
    pose proof (exact_of_complete _ _ E1 v' (Permutation_in _ (Permutation_sym Hp) I2)). congruence.
Qed.
Theorem spec_paths_perm (tbl tbl' : tbl_t) q :
  NoDup (map fst tbl) -> Permutation tbl tbl' -> spec_paths tbl q = spec_paths tbl' q.
Proof.
  intros Hn Hp. unfold spec_paths, wild_of. rewrite (exact_of_perm tbl tbl' q Hn Hp).
  destruct (exact_of tbl' q); [reflexivity|]. apply first_some_ext. intros pre. apply exact_of_perm; assumption.
Qed.
Theorem order_irrelevant (tbl tbl' : list host_entry) host :
  NoDup (map (fun e => fst (entry_path e)) tbl) -> Permutation tbl tbl' ->
  find_host_route tbl host = find_host_route tbl' host.
Proof.
  intros Hn Hp. rewrite !lookup_refines_spec. apply spec_paths_perm.
  - rewrite map_map. exact Hn.
  - apply Permutation_map. exact Hp.
Qed.


(* ================= the lookup depends only on which labels are equal ================= *)
(* Any injective relabelling f that fixes "*" (e.g. reversing the characters of a label byte-wise or rune-wise, or any
   other encoding of labels) applied to the table and to the request leaves every answer unchanged.  Hence for
   non-ASCII hosts the only effects of Go's rune reversal / Unicode ToLower are the identifications they introduce
   (case folding beyond ASCII; invalid UTF-8 bytes collapsing to U+FFFD), never a different matching rule. *)
Section Relabel.
Variable f : bytes -> bytes.
Hypothesis f_inj : forall a b, f a = f b -> a = b.
Hypothesis f_star : f star = star.
Lemma is_star_f l : is_star (f l) = is_star l.
Proof.
  unfold is_star. destruct (bytes_eqb l star) eqn:E.
  - apply bytes_eqb_eq in E. subst. rewrite f_star. apply bytes_eqb_refl.
  - destruct (bytes_eqb (f l) star) eqn:E2; [|reflexivity]. apply bytes_eqb_eq in E2. rewrite <- f_star in E2.
    apply f_inj in E2. subst. rewrite bytes_eqb_refl in E. discriminate.
Qed.
Lemma valid_path_f p : valid_path (map f p) = valid_path p.
Proof. induction p as [|k p IH]; [reflexivity|]. simpl. rewrite IH, is_star_f. destruct p; reflexivity. Qed.
Lemma paths_eqb_f p q : paths_eqb (map f p) (map f q) = paths_eqb p q.
Proof.
  revert q. induction p as [|a p IH]; intros [|b' q]; simpl; try reflexivity. rewrite IH. f_equal.
  destruct (bytes_eqb a b') eqn:E.
  - apply bytes_eqb_eq in E. subst. apply bytes_eqb_refl.
  - destruct (bytes_eqb (f a) (f b')) eqn:E2; [|reflexivity]. apply bytes_eqb_eq in E2. apply f_inj in E2. subst.
    rewrite bytes_eqb_refl in E. discriminate.
Qed.
Definition relabel (tbl : tbl_t) : tbl_t := map (fun e => (map f (fst e), snd e)) tbl.
Lemma exact_of_f tbl q : exact_of (relabel tbl) (map f q) = exact_of tbl q.
Proof.
  unfold exact_of, relabel. induction tbl as [|e tbl IH]; [reflexivity|]. simpl. rewrite IH.
  rewrite valid_path_f, paths_eqb_f. reflexivity.
Qed.
Lemma spd_map q : strict_prefixes_desc (map f q) = map (map f) (strict_prefixes_desc q).
Proof.
  induction q as [|k q IH]; [reflexivity|]. simpl. rewrite IH, map_app, !map_map. reflexivity.
Qed.
Theorem spec_paths_relabel tbl q : spec_paths (relabel tbl) (map f q) = spec_paths tbl q.
Proof.
  unfold spec_paths, wild_of. rewrite exact_of_f. destruct (exact_of tbl q); [reflexivity|].
  rewrite spd_map, first_some_map. apply first_some_ext. intros pre.
  rewrite <- (exact_of_f tbl (pre ++ [star])). rewrite map_app. simpl. rewrite f_star. reflexivity.
Qed.
Theorem trie_relabel tbl q : tget (map f q) (build_paths (relabel tbl)) = tget q (build_paths tbl).
Proof. rewrite !trie_refines_spec. apply spec_paths_relabel. Qed.
End Relabel.

(* the executable property holds of the model on every well-formed input *)
From Bfe Require Import run.RunC10.
Theorem find_host_route_natural tbl host : find_host_route tbl host = spec_host tbl host.
Proof. rewrite lookup_refines_spec. apply spec_paths_natural. Qed.
Lemma with_C10_ext f g f' g' i :
  (forall a b c d e, f a b c d e = f' a b c d e) -> (forall a b, g a b = g' a b) ->
  with_C10 f g i = with_C10 f' g' i.
Proof.
  intros Hf Hg. unfold with_C10. destruct (dec_C10 i) as [[pre stages]|]; [|reflexivity].
  assert (Hq : forall t v d q, enc_query f g t v d q = enc_query f' g' t v d q).
  { intros t v d q. unfold enc_query. rewrite Hf, Hg. reflexivity. }
  f_equal. f_equal; [f_equal; apply map_ext; intros q; apply Hq|].
  f_equal. f_equal. apply map_ext. intros st. unfold enc_stage. f_equal. apply map_ext. intros q. apply Hq.
Qed.
Theorem prop_C10_of_model i : wf_C10 i = true -> kf_C10 i = 0 -> prop_C10 i (run_C10 i) = true.
Proof.
  intros Hwf _. unfold prop_C10, run_C10. rewrite Hwf. simpl.
  rewrite (with_C10_ext lookup_product find_host_route spec_product spec_host i
             lookup_product_natural find_host_route_natural).
  apply val_eqb_refl.
Qed.

(* ---- the VIP step matches on the address value ---- *)
Lemma vip_forms_equal a b c d : vip_of [a; b; c; d] = vip_of (V4_PREFIX ++ [a; b; c; d]).
Proof. reflexivity. Qed.
Definition retext (f : vip_entry -> bytes) (vs : list vip_entry) : list vip_entry :=
  map (fun e => mkVip (f e) (v_addr e) (v_canon e) (v_product e)) vs.
Lemma vip_text_irrelevant f vs : by_addr (retext f vs) = by_addr vs /\ by_canon (retext f vs) = by_canon vs.
Proof. unfold by_addr, by_canon, retext. rewrite !map_map. split; reflexivity. Qed.
Theorem vip_by_address_value full byhost tbl vs dflt host a b c d str f :
  enc_query full byhost tbl (retext f vs) dflt (host, ([a; b; c; d], str)) =
  enc_query full byhost tbl vs dflt (host, (V4_PREFIX ++ [a; b; c; d], str)).
Proof.
  unfold enc_query. destruct (vip_text_irrelevant f vs) as [-> ->]. reflexivity.
Qed.
