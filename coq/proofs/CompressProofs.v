(* C54 proofs *)
From Coq Require Import List ZArith Bool Lia.
From Bfe Require Import lib.Val lib.ValProofs lib.Bytes model.StaticFile model.Compress run.RunC54.
Import ListNotations.
Open Scope Z_scope.

(* ---------- header decisions ---------- *)
Lemma handler_only_if_accepted ae cenc has_clen has_rule cmd :
  let r := handler ae cenc has_clen has_rule cmd in
  h_wrapped r <> 0 ->
  ((h_wrapped r = 1 /\ h_cenc r = GZIP /\ has_token ae GZIP = true /\ cmd = 0) \/
   (h_wrapped r = 2 /\ h_cenc r = BR /\ has_token ae BR = true /\ cmd = 1)) /\
  h_has_clen r = false /\ (cenc = [] \/ cenc = IDENTITY) /\ has_rule = true.
Proof.
  unfold handler.
  destruct (has_token ae GZIP) eqn:G; destruct (has_token ae BR) eqn:B;
  destruct (bytes_eqb cenc []) eqn:E1; destruct (bytes_eqb cenc IDENTITY) eqn:E2;
  destruct has_rule; destruct (cmd =? 0) eqn:C0; destruct (cmd =? 1) eqn:C1; cbn; intros H; try congruence;
  try apply Z.eqb_eq in C0; try apply Z.eqb_eq in C1; try apply bytes_eqb_eq in E1; try apply bytes_eqb_eq in E2;
  (split; [|split; [reflexivity|split; [auto|reflexivity]]]); auto 10.
Qed.
Lemma handler_untouched ae cenc has_clen has_rule cmd :
  let r := handler ae cenc has_clen has_rule cmd in
  h_wrapped r = 0 -> h_cenc r = cenc /\ h_has_clen r = has_clen.
Proof.
  unfold handler.
  destruct (negb (has_token ae GZIP || has_token ae BR)); cbn; [auto|].
  destruct (negb (bytes_eqb cenc []) && negb (bytes_eqb cenc IDENTITY)); cbn; [auto|].
  destruct has_rule; cbn; [|auto].
  destruct (cmd =? 0); [destruct (has_token ae GZIP); cbn; [discriminate|auto]|].
  destruct (cmd =? 1); [destruct (has_token ae BR); cbn; [discriminate|auto]|auto].
Qed.
Lemma handler_already_encoded ae cenc has_clen has_rule cmd :
  cenc <> [] -> cenc <> IDENTITY ->
  handler ae cenc has_clen has_rule cmd = {| h_cenc := cenc; h_has_clen := has_clen; h_wrapped := 0 |}.
Proof.
  intros H1 H2. unfold handler.
  destruct (negb (has_token ae GZIP || has_token ae BR)); [reflexivity|].
  destruct (bytes_eqb cenc []) eqn:E1; [apply bytes_eqb_eq in E1; contradiction|].
  destruct (bytes_eqb cenc IDENTITY) eqn:E2; [apply bytes_eqb_eq in E2; contradiction|]. reflexivity.
Qed.

(* ---------- io.CopyN over a chunked source ---------- *)
Lemma take_n_concat : forall chunks n, concat (fst (take_n n chunks)) ++ concat (snd (take_n n chunks)) = concat chunks.
Proof.
  induction chunks as [|ch r IH]; intros n; [reflexivity|]. cbn [take_n].
  destruct (n <=? 0); [reflexivity|]. destruct (blen ch <=? n).
  - specialize (IH (n - blen ch)). destruct (take_n (n - blen ch) r) as [ps rest]. cbn [fst snd concat] in *.
    rewrite <- app_assoc, IH. reflexivity.
  - cbn [fst snd concat]. rewrite app_nil_r, app_assoc, firstn_skipn. reflexivity.
Qed.
Lemma total_cons ch l : total (ch :: l) = blen ch + total l.
Proof. unfold total, blen. cbn [concat]. rewrite app_length. lia. Qed.
Lemma blen_nonneg l : 0 <= blen l. Proof. unfold blen. lia. Qed.
(* nothing consumed although something was asked for: the source is exhausted *)
Lemma take_n_zero : forall chunks n, 0 < n -> total (fst (take_n n chunks)) = 0 ->
  snd (take_n n chunks) = [] /\ concat chunks = [].
Proof.
  induction chunks as [|ch r IH]; intros n Hn H; [auto|]. cbn [take_n] in *.
  destruct (n <=? 0) eqn:E; [lia|]. destruct (blen ch <=? n) eqn:E2.
  - specialize (IH (n - blen ch)). destruct (take_n (n - blen ch) r) as [ps rest]. cbn [fst snd] in *.
    rewrite total_cons in H. pose proof (blen_nonneg ch). pose proof (blen_nonneg (concat ps)). unfold total in *.
    assert (Hc : blen ch = 0) by lia. assert (ch = []) by (destruct ch; [reflexivity|unfold blen in Hc; cbn in Hc; lia]).
    subst ch. destruct IH as [I1 I2]; [unfold blen in *; cbn in *; lia|lia|]. cbn [concat app]. auto.
  - cbn [fst] in H. rewrite total_cons in H. unfold total in H. cbn [concat] in H.
    unfold blen in *. rewrite firstn_length in H. cbn [length] in H. lia.
Qed.
