(* C54 proofs *)
From Coq Require Import List ZArith Bool Lia.
From Bfe Require Import lib.Val lib.ValProofs lib.Bytes model.StaticFile model.Compress run.RunC54.
Import ListNotations.
Open Scope Z_scope.

(* ---------- header decisions ---------- *)
Lemma handler_only_if_accepted ae cenc has_clen has_rule cmd :
  let r := handler ae cenc has_clen has_rule cmd in
  h_wrapped r <> 0 ->
  ((h_wrapped r = 1 /\ h_cenc r = GZIP /\ has_token ae GZIP = true /\ cmd = 0) \/
   (h_wrapped r = 2 /\ h_cenc r = BR /\ has_token ae BR = true /\ cmd = 1)) /\
  h_has_clen r = false /\ (cenc = [] \/ cenc = IDENTITY) /\ has_rule = true.
Proof.
  unfold handler.
  destruct (has_token ae GZIP) eqn:G; destruct (has_token ae BR) eqn:B;
  destruct (bytes_eqb cenc []) eqn:E1; destruct (bytes_eqb cenc IDENTITY) eqn:E2;
  destruct has_rule; destruct (cmd =? 0) eqn:C0; destruct (cmd =? 1) eqn:C1; cbn; intros H; try congruence;
  try apply Z.eqb_eq in C0; try apply Z.eqb_eq in C1; try apply bytes_eqb_eq in E1; try apply bytes_eqb_eq in E2;
  (split; [|split; [reflexivity|split; [auto|reflexivity]]]); auto 10.
Qed.
Lemma handler_untouched ae cenc has_clen has_rule cmd :
  let r := handler ae cenc has_clen has_rule cmd in
  h_wrapped r = 0 -> h_cenc r = cenc /\ h_has_clen r = has_clen.
Proof.
  unfold handler.
  destruct (has_token ae GZIP) eqn:G; destruct (has_token ae BR) eqn:B;
  destruct (bytes_eqb cenc []) eqn:E1; destruct (bytes_eqb cenc IDENTITY) eqn:E2;
  destruct has_rule; destruct (cmd =? 0) eqn:C0; destruct (cmd =? 1) eqn:C1; cbn; intros H; try discriminate H; auto.
Qed.
Lemma handler_already_encoded ae cenc has_clen has_rule cmd :
  cenc <> [] -> cenc <> IDENTITY ->
  handler ae cenc has_clen has_rule cmd = {| h_cenc := cenc; h_has_clen := has_clen; h_wrapped := 0 |}.
Proof.
  intros H1 H2. unfold handler.
  destruct (negb (has_token ae GZIP || has_token ae BR)); [reflexivity|].
  destruct (bytes_eqb cenc []) eqn:E1; [apply bytes_eqb_eq in E1; contradiction|].
  destruct (bytes_eqb cenc IDENTITY) eqn:E2; [apply bytes_eqb_eq in E2; contradiction|]. reflexivity.
Qed.

(* ---------- io.CopyN over a chunked source ---------- *)
Lemma take_n_concat : forall chunks n, concat (fst (take_n n chunks)) ++ concat (snd (take_n n chunks)) = concat chunks.
Proof.
  induction chunks as [|ch r IH]; intros n; [reflexivity|]. cbn [take_n].
  destruct (n <=? 0); [reflexivity|]. destruct (blen ch <=? n).
  - specialize (IH (n - blen ch)). destruct (take_n (n - blen ch) r) as [ps rest]. cbn [fst snd concat] in *.
    rewrite <- app_assoc, IH. reflexivity.
  - cbn [fst snd concat]. rewrite app_nil_r, app_assoc, firstn_skipn. reflexivity.
Qed.
Lemma total_cons ch l : total (ch :: l) = blen ch + total l.
Proof. unfold total, blen. cbn [concat]. rewrite app_length. lia. Qed.
Lemma blen_nonneg l : 0 <= blen l. Proof. unfold blen. lia. Qed.
(* nothing consumed although something was asked for: the source is exhausted *)
Lemma take_n_zero : forall chunks n, 0 < n -> total (fst (take_n n chunks)) = 0 ->
  snd (take_n n chunks) = [] /\ concat chunks = [].
Proof.
  induction chunks as [|ch r IH]; intros n Hn H; [auto|]. cbn [take_n] in *.
  destruct (n <=? 0) eqn:E; [lia|]. destruct (blen ch <=? n) eqn:E2.
  - specialize (IH (n - blen ch)). destruct (take_n (n - blen ch) r) as [ps rest]. cbn [fst snd] in *.
    rewrite total_cons in H. pose proof (blen_nonneg ch). pose proof (blen_nonneg (concat ps)). unfold total in *.
    assert (Hc : blen ch = 0) by lia. assert (ch = []) by (destruct ch; [reflexivity|unfold blen in Hc; cbn in Hc; lia]).
    subst ch. destruct IH as [I1 I2]; [unfold blen in *; cbn in *; lia|lia|]. cbn [concat app]. auto.
  - cbn [fst] in H. rewrite total_cons in H. unfold total in H. cbn [concat] in H.
    unfold blen in *. rewrite firstn_length in H. cbn [length] in H. lia.
Qed.

(* ---------- the streaming filter over an abstract codec ---------- *)
Section CodecProofs.
  Variable W : Type.
  Variable wwrite : W -> bytes -> W * bytes.
  Variable wflush wclose : W -> W * bytes.
  Variable w0 : W.                                  (* a fresh compressor *)
  Variable decomp : bytes -> option bytes.          (* the client's decompressor *)

  Inductive wop := OW (b : bytes) | OF | OC.        (* Write / Flush / Close *)
  Definition wstep (w : W) (op : wop) : W * bytes :=
    match op with OW b => wwrite w b | OF => wflush w | OC => wclose w end.
  Fixpoint wexec (w : W) (ops : list wop) : W * bytes :=
    match ops with
    | [] => (w, [])
    | op :: r => let '(w1, o1) := wstep w op in let '(w2, o2) := wexec w1 r in (w2, o1 ++ o2)
    end.
  Definition writes (ops : list wop) : bytes :=
    concat (map (fun op => match op with OW b => b | _ => [] end) ops).
  Definition no_close (ops : list wop) : Prop := Forall (fun op => op <> OC) ops.

  (* the codec round-trips: whatever is written, with flushes anywhere, then closed, decompresses to the
     concatenation of the writes *)
  Hypothesis codec_ok : forall ops, no_close ops -> decomp (snd (wexec w0 (ops ++ [OC]))) = Some (writes ops).
  (* a flush always emits something (gzip: sync marker; brotli after data: a padded meta-block) *)
  Hypothesis flush_emits : forall w, snd (wflush w) <> [].

  Lemma wexec_app w a : forall b,
    wexec w (a ++ b) = let '(w1, o1) := wexec w a in let '(w2, o2) := wexec w1 b in (w2, o1 ++ o2).
  Proof.
    revert w. induction a as [|op r IH]; intros w b; cbn [app wexec].
    - destruct (wexec w b). reflexivity.
    - destruct (wstep w op) as [w1 o1]. rewrite IH. destruct (wexec w1 r) as [w2 o2].
      destruct (wexec w2 b) as [w3 o3]. rewrite app_assoc. reflexivity.
  Qed.
  Lemma write_all_wexec ps : forall w, write_all W wwrite w ps = wexec w (map OW ps).
  Proof.
    induction ps as [|p r IH]; intros w; [reflexivity|]. cbn [write_all map wexec wstep].
    destruct (wwrite w p) as [w1 o1]. rewrite IH. reflexivity.
  Qed.
  Lemma writes_app a b : writes (a ++ b) = writes a ++ writes b.
  Proof. unfold writes. rewrite map_app, concat_app. reflexivity. Qed.
  Lemma writes_OW ps : writes (map OW ps) = concat ps.
  Proof. unfold writes. rewrite map_map, map_id. reflexivity. Qed.
  Lemma no_close_OW ps : no_close (map OW ps).
  Proof. unfold no_close. rewrite Forall_map. apply Forall_forall. intros x _. discriminate. Qed.

  Let fread := filter_read W wwrite wflush wclose.
  Let cons_ := consume W wwrite wflush wclose.

  (* invariant: D = bytes already delivered to the client *)
  Definition Inv (body : bytes) (st : fstate W) (D : bytes) : Prop :=
    exists ops, no_close ops /\
      if f_closed W st
      then snd (wexec w0 (ops ++ [OC])) = D ++ f_buf W st /\ writes ops = body /\ f_src W st = []
      else wexec w0 ops = (f_w W st, D ++ f_buf W st) /\ writes ops ++ concat (f_src W st) = body.

  Lemma firstn_skipn_app (n : nat) (D l : bytes) : (D ++ firstn n l) ++ skipn n l = D ++ l.
  Proof. rewrite <- app_assoc, firstn_skipn. reflexivity. Qed.

  Lemma fread_step body flush st p D st' c out eof :
    0 < flush -> Inv body st D -> fread flush st p = (st', c, out, eof) ->
    Inv body st' (D ++ out) /\ (eof = true -> f_closed W st' = true /\ f_buf W st' = [] /\ out = []).
  Proof.
    intros Hf [ops [Hnc HI]]. unfold fread, filter_read.
    destruct (f_closed W st) eqn:EC.
    - (* already closed: the source is empty, nothing is written any more *)
      destruct HI as [Hout [Hw Hsrc]]. rewrite Hsrc. cbn [take_n write_all]. 
      change (total []) with 0. cbn [Z.eqb negb]. rewrite !app_nil_r.
      intros Heq. inversion Heq; subst st' c out eof; clear Heq. split.
      + exists ops. split; [exact Hnc|]. cbn [f_closed f_buf f_src]. rewrite firstn_skipn_app. auto.
      + cbn [f_closed f_buf]. destruct (f_buf W st); [|discriminate]. intros _. 
        rewrite firstn_nil, skipn_nil. auto.
    - destruct HI as [Hex Hbody].
      pose proof (take_n_concat (f_src W st) flush) as Hcat.
      pose proof (take_n_zero (f_src W st) flush Hf) as Hzero.
      destruct (take_n flush (f_src W st)) as [pieces rest]. cbn [fst snd] in Hcat, Hzero.
      rewrite write_all_wexec. destruct (wexec (f_w W st) (map OW pieces)) as [w1 o1] eqn:EW.
      assert (Hex1 : wexec w0 (ops ++ map OW pieces) = (w1, (D ++ f_buf W st) ++ o1)).
      { rewrite wexec_app, Hex, EW. reflexivity. }
      destruct (total pieces =? 0) eqn:Ec; cbn [negb].
      + (* source exhausted: close the writer *)
        apply Z.eqb_eq in Ec. destruct (Hzero Ec) as [Hrest Hnil]. 
        destruct (wclose w1) as [w2 o2] eqn:ECl.
        intros Heq. inversion Heq; subst st' c out eof; clear Heq. split.
        * exists (ops ++ map OW pieces). split; [apply Forall_app; split; [exact Hnc|apply no_close_OW]|].
          cbn [f_closed f_buf f_src]. rewrite firstn_skipn_app. split; [|split].
          -- rewrite wexec_app, Hex1. cbn [wexec wstep]. rewrite ECl. cbn [snd]. rewrite app_nil_r, <- !app_assoc. reflexivity.
          -- rewrite writes_app, writes_OW. rewrite Hnil in Hbody. rewrite app_nil_r in Hbody.
             rewrite Hnil in Hcat. apply app_eq_nil in Hcat. destruct Hcat as [Hp _]. rewrite Hp, app_nil_r. exact Hbody.
          -- exact Hrest.
        * cbn [f_closed f_buf]. intros He. destruct (f_buf W st ++ o1 ++ o2) eqn:Eb; [|discriminate].
          rewrite firstn_nil, skipn_nil. auto.
      + (* some bytes were compressed: flush *)
        destruct (wflush w1) as [w2 o2] eqn:EFl.
        intros Heq. inversion Heq; subst st' c out eof; clear Heq. split.
        * exists (ops ++ map OW pieces ++ [OF]). split.
          { apply Forall_app; split; [exact Hnc|]. apply Forall_app; split; [apply no_close_OW|]. constructor; [discriminate|constructor]. }
          cbn [f_closed f_buf f_src f_w]. rewrite firstn_skipn_app. split.
          -- rewrite app_assoc, wexec_app, Hex1. cbn [wexec wstep]. rewrite EFl. rewrite app_nil_r, <- !app_assoc. reflexivity.
          -- rewrite !writes_app, writes_OW. unfold writes at 2. cbn [map concat]. rewrite !app_nil_r.
             rewrite <- Hbody, <- Hcat, app_assoc. reflexivity.
        * intros He. exfalso. destruct (f_buf W st ++ o1 ++ o2) eqn:Eb; [|discriminate].
          apply app_eq_nil in Eb. destruct Eb as [_ Eb]. apply app_eq_nil in Eb. destruct Eb as [_ Eb].
          apply (flush_emits w1). rewrite EFl. exact Eb.
  Qed.

  (* the consumer reads until EOF: everything it received decompresses to the source body *)
  Lemma consume_ok body flush : 0 < flush -> forall ps st D cs outs,
    Inv body st D -> cons_ flush st ps = (cs, outs, true) -> decomp (D ++ outs) = Some body.
  Proof.
    intros Hf. induction ps as [|p r IH]; intros st D cs outs HI Hc; [discriminate|].
    unfold cons_ in Hc. cbn [consume] in Hc. fold fread in Hc.
    destruct (fread flush st p) as [[[st' c] out] eof] eqn:ER.
    destruct (fread_step body flush st p D st' c out eof Hf HI ER) as [HI' Heof].
    destruct eof.
    - inversion Hc; subst; clear Hc. destruct (Heof eq_refl) as [Hcl [Hb Ho]].
      destruct HI' as [ops [Hnc H]]. rewrite Hcl in H. destruct H as [Hout [Hw _]].
      rewrite Hb, Ho in Hout. rewrite !app_nil_r in Hout. rewrite app_nil_r. rewrite <- Hout, <- Hw. apply codec_ok. exact Hnc.
    - fold cons_ in Hc. destruct (cons_ flush st' r) as [[cs' outs'] e] eqn:EC. inversion Hc; subst; clear Hc.
      rewrite app_assoc. eapply IH; [exact HI'|exact EC].
  Qed.

  Theorem decodes_to_original_sec : forall chunks flush ps cs outs,
    0 < flush ->
    cons_ flush {| f_src := chunks; f_w := w0; f_buf := []; f_closed := false |} ps = (cs, outs, true) ->
    decomp outs = Some (concat chunks).
  Proof.
    intros chunks flush ps cs outs Hf Hc.
    change outs with ([] ++ outs).
    eapply (consume_ok (concat chunks) flush Hf ps); [|exact Hc].
    exists []. split; [constructor|]. cbn. auto.
  Qed.
End CodecProofs.

(* each Read consumes min(flushSize, what is left) bytes of the source, whatever the chunking *)
Lemma take_n_total : forall chunks n, 0 <= n -> total (fst (take_n n chunks)) = Z.min n (total chunks).
Proof.
  induction chunks as [|ch r IH]; intros n Hn; cbn [take_n].
  - cbn. lia.
  - pose proof (blen_nonneg ch) as Hc. assert (Ht : 0 <= total r) by apply blen_nonneg.
    destruct (n <=? 0) eqn:E.
    + cbn [fst]. rewrite total_cons. change (total []) with 0. lia.
    + destruct (blen ch <=? n) eqn:E2.
      * specialize (IH (n - blen ch)). destruct (take_n (n - blen ch) r) as [ps rest]. cbn [fst] in *.
        rewrite !total_cons, IH by lia. lia.
      * cbn [fst]. rewrite !total_cons. change (total []) with 0. unfold blen in *. rewrite firstn_length. lia.
Qed.

(* ---------- a concrete codec satisfying the two hypotheses (non-vacuity of the Section) ----------
   Write emits every byte x as [1; x], Flush emits [0], Close emits [2]. *)
Definition enc1 (b : bytes) : bytes := flat_map (fun x => [1; x]) b.
Definition t_write (w : unit) (b : bytes) : unit * bytes := (tt, enc1 b).
Definition t_flush (w : unit) : unit * bytes := (tt, [0]).
Definition t_close (w : unit) : unit * bytes := (tt, [2]).
Fixpoint t_decomp_fuel (n : nat) (l : bytes) : option bytes :=
  match n with
  | O => None
  | S n' => match l with
            | [2] => Some []
            | 0 :: r => t_decomp_fuel n' r
            | 1 :: x :: r => option_map (cons x) (t_decomp_fuel n' r)
            | _ => None
            end
  end.
Definition t_decomp (l : bytes) : option bytes := t_decomp_fuel (S (length l)) l.

Lemma t_decomp_write b : forall n rest, (length (enc1 b ++ rest) < n)%nat ->
  t_decomp_fuel n (enc1 b ++ rest) =
  option_map (app b) (t_decomp_fuel (n - length b) rest).
Proof.
  induction b as [|x b IH]; intros n rest Hn.
  - unfold enc1. cbn [flat_map app length]. rewrite Nat.sub_0_r. destruct (t_decomp_fuel n rest); reflexivity.
  - unfold enc1 in *. cbn [flat_map app length] in *. fold (enc1 b) in *. destruct n as [|n]; [lia|]. cbn [t_decomp_fuel].
    rewrite IH by (cbn [length] in Hn; lia). cbn [Nat.sub].
    destruct (t_decomp_fuel (n - length b) rest); reflexivity.
Qed.
Lemma t_codec_ok_gen : forall ops n, no_close ops -> (length (snd (wexec unit t_write t_flush t_close tt (ops ++ [OC]))) < n)%nat ->
  t_decomp_fuel n (snd (wexec unit t_write t_flush t_close tt (ops ++ [OC]))) = Some (writes ops).
Proof.
  induction ops as [|op r IH]; intros n Hnc Hn.
  - cbn in *. destruct n as [|n]; [lia|]. reflexivity.
  - inversion Hnc as [|? ? Hop Hr]; subst. cbn [app wexec] in *.
    destruct op as [b| |]; [| |contradiction].
    + cbn [wstep t_write] in *. destruct (wexec unit t_write t_flush t_close tt (r ++ [OC])) as [w2 o2] eqn:E.
      cbn [snd] in *. rewrite t_decomp_write by exact Hn.
      rewrite app_length in Hn.
      assert (Hl : (length b <= length (enc1 b))%nat).
      { clear. unfold enc1. induction b; cbn [flat_map app length]; lia. }
      specialize (IH (n - length b)%nat Hr). try rewrite E in IH. cbn [snd] in IH. rewrite IH by lia.
      unfold writes. cbn [map concat]. reflexivity.
    + cbn [wstep t_flush] in *. destruct (wexec unit t_write t_flush t_close tt (r ++ [OC])) as [w2 o2] eqn:E.
      cbn [snd app] in *. destruct n as [|n]; [lia|]. cbn [t_decomp_fuel].
      specialize (IH n Hr). try rewrite E in IH. cbn [snd] in IH. rewrite IH by (cbn [length] in Hn; lia).
      unfold writes. cbn [map concat app]. reflexivity.
Qed.
Lemma t_codec_ok : forall ops, no_close ops ->
  t_decomp (snd (wexec unit t_write t_flush t_close tt (ops ++ [OC]))) = Some (writes ops).
Proof. intros ops H. unfold t_decomp. apply t_codec_ok_gen; [exact H|lia]. Qed.
Lemma t_flush_emits : forall w, snd (t_flush w) <> [].
Proof. intros w. discriminate. Qed.

Lemma C54_example_lemma :
  consume unit t_write t_flush t_close 4
    {| f_src := [[10; 11; 12]; [13; 14]; [15]]; f_w := tt; f_buf := []; f_closed := false |} [3; 100; 1; 100; 100; 100]
  = ([4; 2; 0; 0], [1; 10; 1; 11; 1; 12; 1; 13; 0; 1; 14; 1; 15; 0; 2], true)
  /\ t_decomp [1; 10; 1; 11; 1; 12; 1; 13; 0; 1; 14; 1; 15; 0; 2] = Some [10; 11; 12; 13; 14; 15].
Proof. vm_compute. auto. Qed.

(* ---------- the property predicate holds of the model on every well-shaped input ---------- *)
Lemma as_LB_vLB cs : as_LB (vLB cs) = Some cs.
Proof.
  unfold as_LB, vLB. induction cs as [|c r IH]; [reflexivity|]. cbn [map all_some as_B]. rewrite IH. reflexivity.
Qed.
Lemma bytes_eqb_refl l : bytes_eqb l l = true.
Proof. apply bytes_eqb_eq. reflexivity. Qed.

Lemma is_prefix_firstn n (l : bytes) : is_prefix (firstn n l) l = true.
Proof. apply is_prefix_spec. exists (skipn n l). symmetry. apply firstn_skipn. Qed.

(* central theorem on typed operations: every decodable input is well-formed, there is no known-finding class *)
Theorem prop_op_of_model : forall x, prop_op x (run_op x) = true.
Proof.
  intros [codec level flush cs p [|]|cmd rule ae cenc has_cl level flush body|cmd quality flush ae cenc has_cl body]; cbn [prop_op run_op].
  - unfold err_delivered. rewrite is_prefix_firstn. reflexivity.
  - rewrite bytes_eqb_refl. reflexivity.
  - unfold handler, rule_matches. rewrite bytes_eqb_refl.
    destruct (has_token ae GZIP) eqn:G; destruct (has_token ae BR) eqn:B;
    destruct (bytes_eqb cenc []) eqn:E1; destruct (bytes_eqb cenc IDENTITY) eqn:E2;
    destruct (rule =? 1) eqn:R1; destruct (rule =? 3) eqn:R3; destruct has_cl;
    destruct (cmd =? 0) eqn:C0; destruct (cmd =? 1) eqn:C1;
    cbn; rewrite ?bytes_eqb_refl, ?G, ?B, ?E1, ?E2, ?R1, ?R3, ?C0, ?C1; cbn; try reflexivity;
    try (apply Z.eqb_eq in C0; apply Z.eqb_eq in C1; lia).
  - unfold load_handler, handler, action_ok, cmd_id. rewrite bytes_eqb_refl.
    destruct (bytes_eqb cmd CMD_GZIP) eqn:CG; [apply bytes_eqb_eq in CG; subst cmd|];
    [|destruct (bytes_eqb cmd CMD_BROTLI) eqn:CB; [apply bytes_eqb_eq in CB; subst cmd|]];
    cbn [andb orb];
    destruct (has_token ae GZIP) eqn:G; destruct (has_token ae BR) eqn:B;
    destruct (bytes_eqb cenc []) eqn:E1; destruct (bytes_eqb cenc IDENTITY) eqn:E2; destruct has_cl;
    repeat match goal with |- context [?a <=? ?b] => destruct (a <=? b) end;
    cbn; rewrite ?bytes_eqb_refl, ?G, ?B, ?E1, ?E2; cbn; try reflexivity;
    repeat match goal with |- context [eq_fold cmd ?x] => destruct (eq_fold cmd x) end; reflexivity.
Qed.
Theorem prop_C54_of_model : forall i, wf_C54 i = true -> kf_C54 i = 0 -> prop_C54 i (run_C54 i) = true.
Proof.
  intros i Hwf _. unfold wf_C54 in Hwf. unfold prop_C54, run_C54. destruct (dec_C54 i) as [x|]; [|discriminate].
  apply prop_op_of_model.
Qed.
Lemma C54_wf_example_lemma :
  let i := VL [VZ 2; VZ 0; VZ 1; VB GZIP; VB []; VZ 1; VZ 6; VZ 64; VB [104; 101; 108; 108; 111]] in
  wf_C54 i = true /\ run_C54 i = VL [VB GZIP; VZ 0; VZ 1; VB [104; 101; 108; 108; 111]; VZ 1].
Proof. vm_compute. split; reflexivity. Qed.
