(* C15, TLS part: proofs about model/SnapshotTls.v and model/SnapshotTlsWire.v. *)
From Coq Require Import List ZArith Bool Lia.
From Bfe Require Import lib.Val lib.ValProofs model.SnapshotTls model.SnapshotTlsWire.
Import ListNotations.
Open Scope Z_scope.

Lemma tl_nth_upd_eq {A} (l : list A) i x t : nth_error l i = Some t -> nth_error (tl_upd_nth l i x) i = Some x.
Proof. revert i; induction l as [|y l IH]; intros [|i] H; simpl in *; try discriminate; auto. Qed.
Lemma tl_nth_upd_neq {A} (l : list A) i j x : i <> j -> nth_error (tl_upd_nth l i x) j = nth_error l j.
Proof. revert i j; induction l as [|y l IH]; intros [|i] [|j] H; simpl; auto; congruence. Qed.

(* a step of thread j replaces thread j by its successor and leaves the other threads alone *)
Lemma tl_step_shape st j i t :
  nth_error (tthreads (tl_step st j)) i = Some t ->
  (nth_error (tthreads st) i = Some t) \/
  (i = j /\ exists t0, nth_error (tthreads st) i = Some t0 /\ t = snd (tl_step_thread (tsh st) t0)).
Proof.
  unfold tl_step. destruct (nth_error (tthreads st) j) as [tj|] eqn:Hj; [|auto].
  destruct (tl_step_thread (tsh st) tj) as [s' t'] eqn:Hs. simpl.
  destruct (Nat.eq_dec j i) as [->|Hne].
  - rewrite (tl_nth_upd_eq _ _ _ _ Hj). intros H. inversion H; subst. right. split; auto. exists tj. rewrite Hs. auto.
  - rewrite tl_nth_upd_neq by auto. auto.
Qed.

Lemma tl_step_sh st j :
  tsh (tl_step st j) = tsh st \/
  exists t0, nth_error (tthreads st) j = Some t0 /\ tsh (tl_step st j) = fst (tl_step_thread (tsh st) t0).
Proof.
  unfold tl_step. destruct (nth_error (tthreads st) j) as [tj|] eqn:Hj; [|auto].
  destruct (tl_step_thread (tsh st) tj) as [s' t'] eqn:Hs. simpl. right. exists tj. rewrite Hs. auto.
Qed.

Definition tl_fresh (t : tl_thread) : Prop :=
  match t with
  | TTReload r => True
  | TTShake h => th_pc h = 0%nat /\ th_vip h = th_name h /\ th_name h = th_def h
  end.

(* ---------------------------------------------------------------- the three certificate tables move together *)
Definition together (s : tshared) : Prop := mc_vip s = mc_name s /\ mc_name s = mc_def s.
Definition shake_ok (t : tl_thread) : Prop :=
  match t with TTShake h => th_vip h = th_name h /\ th_name h = th_def h | _ => True end.
Definition tog_inv (st : tl_state) : Prop := together (tsh st) /\ forall i t, nth_error (tthreads st) i = Some t -> shake_ok t.

Lemma reload_step_together s r : together s -> together (fst (tl_step_reload s r)).
Proof.
  unfold together, tl_step_reload. intros [H1 H2].
  destruct (tl_pc r) as [|[|[|[|[|[|[|[|[|[|[|n]]]]]]]]]]]; simpl;
    repeat match goal with |- context [if ?c then _ else _] => destruct c; simpl end; auto.
Qed.

Lemma tog_step st j : tog_inv st -> tog_inv (tl_step st j).
Proof.
  intros [Ht Hs]. split.
  - destruct (tl_step_sh st j) as [->|(t0 & Hn & ->)]; auto.
    destruct t0 as [r|h]; simpl.
    + pose proof (reload_step_together (tsh st) r Ht) as K. destruct (tl_step_reload (tsh st) r). exact K.
    + exact Ht.
  - intros i t Hn. destruct (tl_step_shape st j i t Hn) as [H|(-> & t0 & H0 & ->)]; [eapply Hs; eauto|].
    destruct t0 as [r|h]; simpl.
    + destruct (tl_step_reload (tsh st) r). exact I.
    + pose proof (Hs _ _ H0) as K. simpl in K. unfold tl_step_shake.
      destruct (th_pc h) as [|[|n]]; simpl; auto.
      * destruct (mc_w (tsh st)); simpl; auto.
      * destruct (tr_w (tsh st)); simpl; auto.
Qed.

Lemma tog_exec sched : forall st, tog_inv st -> tog_inv (tl_exec st sched).
Proof.
  induction sched as [|j r IH]; intros st H; [exact H|]. unfold tl_exec in *. simpl. apply IH. apply tog_step. exact H.
Qed.

(* For EVERY interleaving of any number of TLS reloads (complete reloads, bare MultiCert.Update calls, failing ones of
   every kind, at any stage) and handshakes: the vip table, the SNI table and the default certificate always come from
   ONE configuration version, and every handshake selected its certificate from tables of one version. *)
Theorem tls_tables_together :
  forall c r ts sched, Forall tl_fresh ts ->
    let st := tl_exec (mkTSt (tl_init c r) ts) sched in
    (mc_vip (tsh st) = mc_name (tsh st) /\ mc_name (tsh st) = mc_def (tsh st)) /\
    forall i h, nth_error (tthreads st) i = Some (TTShake h) -> th_vip h = th_name h /\ th_name h = th_def h.
Proof.
  intros c r ts sched Hf st.
  assert (I0 : tog_inv (mkTSt (tl_init c r) ts)).
  { split; [split; reflexivity|]. intros i t Hn. rewrite Forall_forall in Hf. pose proof (Hf _ (nth_error_In _ _ Hn)) as F.
    destruct t; simpl in *; auto. tauto. }
  destruct (tog_exec sched _ I0) as [H1 H2]. split; [exact H1|].
  intros i h Hn. exact (H2 i _ Hn).
Qed.

(* ---------------------------------------------------------------- a failing reload is the identity *)
Definition failing (r : tl_reload) : Prop :=
  (tl_fail r = 1 /\ tl_direct r = false) \/ tl_fail r = 2 \/ tl_fail r = 3.
Definition fail_wf (r : tl_reload) : Prop :=
  failing r /\ ((tl_pc r <= 3)%nat \/ tl_pc r = tl_done) /\
  (tl_fail r = 1 -> tl_pc r = 0%nat \/ tl_pc r = tl_done) /\ (tl_fail r = 2 -> (tl_pc r <= 1)%nat \/ tl_pc r = tl_done).

Lemma failing_step s r : fail_wf r -> fst (tl_step_reload s r) = s /\ fail_wf (snd (tl_step_reload s r)).
Proof.
  unfold fail_wf, failing, tl_step_reload, tl_done. intros (Hf & Hpc & H1 & H2).
  destruct (tl_pc r) as [|[|[|[|n]]]] eqn:E; simpl.
  - destruct (tl_fail r =? 1) eqn:F; [apply Z.eqb_eq in F|apply Z.eqb_neq in F]; simpl;
      (split; [reflexivity|]); repeat split; intros; try tauto; try lia.
  - destruct (tl_fail r =? 2) eqn:F; [apply Z.eqb_eq in F|apply Z.eqb_neq in F]; simpl;
      (split; [reflexivity|]); repeat split; intros; try tauto; try lia.
  - (split; [reflexivity|]); repeat split; intros; try tauto; try lia.
  - destruct (tl_fail r =? 3) eqn:F; [apply Z.eqb_eq in F|apply Z.eqb_neq in F]; simpl;
      (split; [reflexivity|]); repeat split; intros; try tauto; try lia.
  - assert (n = 7)%nat as -> by lia. simpl. rewrite E. repeat split; auto.
Qed.

Definition id_inv (s0 : tshared) (st : tl_state) : Prop :=
  tsh st = s0 /\
  forall i t, nth_error (tthreads st) i = Some t ->
    match t with
    | TTReload r => fail_wf r
    | TTShake h => ((1 <= th_pc h)%nat -> th_vip h = mc_vip s0 /\ th_name h = mc_name s0 /\ th_def h = mc_def s0) /\
                   ((2 <= th_pc h)%nat -> th_rule h = tr_rule s0)
    end.

Lemma id_step s0 st j : id_inv s0 st -> id_inv s0 (tl_step st j).
Proof.
  intros [Hs Ht]. split.
  - destruct (tl_step_sh st j) as [->|(t0 & Hn & ->)]; auto.
    destruct t0 as [r|h]; simpl; auto.
    pose proof (Ht _ _ Hn) as W. simpl in W. destruct (failing_step (tsh st) r W) as [K _].
    destruct (tl_step_reload (tsh st) r). simpl in *. congruence.
  - intros i t Hn. destruct (tl_step_shape st j i t Hn) as [H|(-> & t0 & H0 & ->)]; [eapply Ht; eauto|].
    pose proof (Ht _ _ H0) as W. destruct t0 as [r|h]; simpl in *.
    + destruct (failing_step (tsh st) r W) as [_ K]. destruct (tl_step_reload (tsh st) r). exact K.
    + destruct W as [W1 W2]. unfold tl_step_shake. rewrite Hs.
      destruct (th_pc h) as [|[|n]] eqn:E; simpl.
      * destruct (mc_w s0); simpl; rewrite ?E; split; intros; auto; try lia; try (apply W1; lia); try (apply W2; lia).
      * destruct (tr_w s0); simpl; rewrite ?E; split; intros; auto; try lia; try (apply W1; lia); try (apply W2; lia).
      * rewrite E. split; intros; [apply W1|apply W2]; lia.
Qed.

Lemma id_exec s0 sched : forall st, id_inv s0 st -> id_inv s0 (tl_exec st sched).
Proof.
  induction sched as [|j r IH]; intros st H; [exact H|]. unfold tl_exec in *. simpl. apply IH. apply id_step. exact H.
Qed.

Definition fresh_failing_or_shake (t : tl_thread) : Prop :=
  match t with
  | TTReload r => failing r /\ tl_pc r = (if tl_direct r then 1%nat else 0%nat) /\ (tl_direct r = true -> tl_fail r <> 1)
  | TTShake h => th_pc h = 0%nat
  end.

(* Failed reload = identity on the observable state: in EVERY interleaving of any number of failing TLS reloads
   (loading / CheckTlsConf fails, a rule names an unknown certificate, the default certificate is missing) and
   handshakes, the shared tables never change and every handshake is answered from the configuration that was
   installed before. *)
Theorem tls_failed_reload_identity :
  forall c r ts sched, Forall fresh_failing_or_shake ts ->
    let st := tl_exec (mkTSt (tl_init c r) ts) sched in
    tsh st = tl_init c r /\
    forall i h, nth_error (tthreads st) i = Some (TTShake h) ->
      ((1 <= th_pc h)%nat -> th_vip h = c /\ th_name h = c /\ th_def h = c) /\ ((2 <= th_pc h)%nat -> th_rule h = r).
Proof.
  intros c r ts sched Hf st.
  assert (I0 : id_inv (tl_init c r) (mkTSt (tl_init c r) ts)).
  { split; [reflexivity|]. intros i t Hn. rewrite Forall_forall in Hf. pose proof (Hf _ (nth_error_In _ _ Hn)) as F.
    destruct t as [x|h]; simpl in *.
    - destruct F as (F1 & F2 & F3). unfold fail_wf, tl_done. unfold failing in *.
      destruct (tl_direct x) eqn:D; rewrite F2; repeat split; auto; intros; try lia;
        try (exfalso; apply F3; auto; fail); try (left; lia).
    - rewrite F. split; intros; lia. }
  destruct (id_exec _ sched _ I0) as [H1 H2]. split; [exact H1|].
  intros i h Hn. exact (H2 i _ Hn).
Qed.

(* ---------------------------------------------------------------- sequential runs (what the harness does) *)
Definition TQ (c r : Z) : tshared := mkTS c c c false r false.

Lemma tl_nth_last {A} (ts : list A) t : nth_error (ts ++ [t]) (length ts) = Some t.
Proof. induction ts; simpl; auto. Qed.
Lemma tl_upd_last {A} (ts : list A) t t' : tl_upd_nth (ts ++ [t]) (length ts) t' = ts ++ [t'].
Proof. induction ts; simpl; auto. rewrite IHts. reflexivity. Qed.

Lemma tl_step_last s ts t :
  tl_step (mkTSt s (ts ++ [t])) (length ts) = mkTSt (fst (tl_step_thread s t)) (ts ++ [snd (tl_step_thread s t)]).
Proof.
  unfold tl_step. simpl. rewrite tl_nth_last. destruct (tl_step_thread s t) as [s' t']. simpl. rewrite tl_upd_last. reflexivity.
Qed.

Ltac run12 := unfold tl_run_new, tl_add, tl_run_thread; cbn [tsh tthreads]; repeat (rewrite tl_step_last; simpl).

(* Successful reload = all lookups new: a complete TLSConfReload that runs alone switches all tables to its version *)
Lemma run_good ts c r t :
  tl_run_new (mkTSt (TQ c r) ts) (new_tl_reload t 0 false) = mkTSt (TQ t t) (ts ++ [TTReload (mkTR t 0 false 11)]).
Proof. unfold new_tl_reload, TQ. run12. reflexivity. Qed.

Lemma run_direct ts c r t :
  tl_run_new (mkTSt (TQ c r) ts) (new_tl_reload t 0 true) = mkTSt (TQ t r) (ts ++ [TTReload (mkTR t 0 true 11)]).
Proof. unfold new_tl_reload, TQ. run12. reflexivity. Qed.

Lemma run_bad ts c r t k : k = 1 \/ k = 2 \/ k = 3 ->
  tl_run_new (mkTSt (TQ c r) ts) (new_tl_reload t k (negb (k =? 1))) = mkTSt (TQ c r) (ts ++ [TTReload (mkTR t k (negb (k =? 1)) 11)]).
Proof. intros [->|[->| ->]]; unfold new_tl_reload, TQ; run12; reflexivity. Qed.

Lemma run_probe ts c r who :
  tl_run_new (mkTSt (TQ c r) ts) (new_tl_shake who) = mkTSt (TQ c r) (ts ++ [TTShake (mkTH 2 who c c c r)]).
Proof. unfold new_tl_shake, TQ. run12. reflexivity. Qed.

Definition top_ok (o : top) : Prop :=
  match o with TBadR _ k => k = 1 \/ k = 2 \/ k = 3 | TBurst _ _ _ => False | _ => True end.

Lemma prop_tls_seq : forall ops ts c r, Forall top_ok ops ->
  prop_tls c r ops (tl_exec_ops (mkTSt (TQ c r) ts) ops) = true.
Proof.
  induction ops as [|o ops IH]; intros ts c r Hok; [reflexivity|].
  inversion Hok as [|? ? Ho Hr]; subst. destruct o as [t|t k|t|who|a b d]; simpl in Ho; try contradiction;
    cbn [tl_exec_ops tl_exec_op prop_tls].
  - rewrite run_good. cbn [prop_tls]. rewrite IH by assumption. reflexivity.
  - rewrite run_bad by assumption. cbn [prop_tls]. rewrite IH by assumption. reflexivity.
  - rewrite run_direct. cbn [prop_tls]. rewrite IH by assumption. reflexivity.
  - rewrite run_probe. cbn [tthreads]. rewrite tl_nth_last. unfold shake_view. cbn [th_who th_vip th_name th_def th_rule].
    destruct (choose_cert who c c c) as [k x]. rewrite val_eqb_refl, IH by assumption. reflexivity.
Qed.

Definition is_tburst (o : top) : bool := match o with TBurst _ _ _ => true | _ => false end.

Lemma decode_top_ok v o : decode_top v = Some o -> is_tburst o = false -> top_ok o.
Proof.
  intros H Hb. unfold decode_top in H.
  repeat match type of H with
         | match ?x with _ => _ end = _ => destruct x eqn:?; try discriminate
         end;
    inversion H; subst; simpl in *; try discriminate; auto.
  unfold rng in *.
  repeat match goal with
         | H : _ && _ = true |- _ => apply andb_true_iff in H; destruct H
         | H : (_ <=? _) = true |- _ => apply Z.leb_le in H
         end. lia.
Qed.

Lemma tl_all_some_Forall {A B} (f : A -> option B) (P : B -> Prop) :
  forall l r, all_some (map f l) = Some r -> (forall a b, f a = Some b -> In b r -> P b) -> Forall P r.
Proof.
  induction l as [|a l IH]; intros r H Hf; simpl in H.
  - inversion H. constructor.
  - destruct (f a) eqn:E; [|discriminate]. destruct (all_some (map f l)) eqn:E2; [|discriminate].
    inversion H; subst. constructor.
    + eapply Hf; eauto. left; reflexivity.
    + apply IH; auto. intros a' b' Hab Hin. eapply Hf; eauto. right; exact Hin.
Qed.

(* the model satisfies the TLS specification predicate on every burst-free TLS input *)
Theorem prop_tls_of_model_partial : forall i ops,
  decode_tls i = Some ops -> forallb (fun o => negb (is_tburst o)) ops = true ->
  match run_tls ops with VL vs => prop_tls 1 1 ops vs | _ => false end = true.
Proof.
  intros i ops Hd Hnb. unfold run_tls, tl_state0. change (tl_init 1 1) with (TQ 1 1).
  apply prop_tls_seq.
  unfold decode_tls in Hd.
  repeat match type of Hd with
         | match ?x with _ => _ end = _ => destruct x eqn:?; try discriminate
         end.
  eapply tl_all_some_Forall; [exact Hd|].
  intros a b Hab Hin. eapply decode_top_ok; eauto.
  rewrite forallb_forall in Hnb. specialize (Hnb b Hin). destruct (is_tburst b); auto; discriminate.
Qed.

(* ---------------------------------------------------------------- non-vacuity: the seeded defect in the model *)
Definition tl_step_bad (st : tl_state) (i : nat) : tl_state :=
  match nth_error (tthreads st) i with
  | Some (TTReload r) => let '(s', r') := tl_step_reload_bad (tsh st) r in mkTSt s' (tl_upd_nth (tthreads st) i (TTReload r'))
  | _ => tl_step st i
  end.

(* with the SNI table updated in place before the default-certificate check, a REJECTED update changes what a handshake
   gets, and the tables are no longer of one version *)
Lemma in_place_name_update_breaks :
  let st := fold_left tl_step_bad [0;0;0;1;1]%nat
              (mkTSt (tl_init 1 1) [new_tl_reload 2 3 true; new_tl_shake 0]) in
  mc_vip (tsh st) = 1 /\ mc_name (tsh st) = 2 /\
  nth_error (tthreads st) 1 = Some (TTShake (mkTH 2 0 1 2 1 1)) /\ choose_cert 0 1 2 1 = (2, 2).
Proof. vm_compute. repeat split; reflexivity. Qed.

Lemma tls_example :
  let st := tl_exec (mkTSt (tl_init 1 1) [new_tl_reload 2 3 true; new_tl_shake 0; new_tl_reload 3 0 false; new_tl_shake 1])
                    [0;0;0;1;1; 2;2;2;2;2;2;2;2;2;2;2; 3;3]%nat in
  Forall tl_fresh [new_tl_reload 2 3 true; new_tl_shake 0; new_tl_reload 3 0 false; new_tl_shake 1] /\
  nth_error (tthreads st) 1 = Some (TTShake (mkTH 2 0 1 1 1 1)) /\
  nth_error (tthreads st) 3 = Some (TTShake (mkTH 2 1 3 3 3 3)) /\ tsh st = tl_init 3 3.
Proof. vm_compute. repeat split; auto; repeat constructor. Qed.

From Bfe Require Import run.RunC15.

(* the same through the wire functions of the check *)
Theorem prop_C15_tls_of_model_partial : forall i ops,
  decode_tls i = Some ops -> forallb (fun o => negb (is_tburst o)) ops = true ->
  prop_C15 i (run_C15 i) = true.
Proof.
  intros i ops Hd Hnb. unfold prop_C15, run_C15. rewrite Hd.
  exact (prop_tls_of_model_partial i ops Hd Hnb).
Qed.
