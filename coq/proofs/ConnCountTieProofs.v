(* C07: the executable property predicate prop_ops (run/RunC07.v) accepts every observation list the model produces
   (exec), whatever the balancer's choices are. *)
From Coq Require Import List ZArith Bool Lia Arith.
From Bfe Require Import lib.Val lib.ValProofs model.ConnCount proofs.ConnCountProofs run.RunC07.
Import ListNotations.
Open Scope Z_scope.

(* ---- small facts about run_ops ---- *)
Lemma run_ops_snoc s l x s' :
  run_ops s (l ++ [x]) = Some s' -> exists s1, run_ops s l = Some s1 /\ step s1 (fst x) (snd x) = Some s'.
Proof.
  rewrite run_ops_app. destruct (run_ops s l) as [s1|]; [|discriminate].
  destruct x as [rid o]. cbn [run_ops fst snd]. destruct (step s1 rid o) as [s2|] eqn:E; [|discriminate].
  intro H. inversion H; subst. exists s1. split; [reflexivity|exact E].
Qed.

Lemma step_other s rid o s' r : step s rid o = Some s' -> r <> rid -> reqs s' r = reqs s r.
Proof.
  intros H Hr. unfold step in H.
  destruct (ph (reqs s rid)); destruct o; try discriminate;
    try (destruct (trans (reqs s rid)); try discriminate);
    inversion H; subst; cbn [reqs]; unfold upd; apply Nat.eqb_neq in Hr; rewrite Hr; reflexivity.
Qed.

Lemma run_ops_other rid l : forall s s' r, run_ops s (tag rid l) = Some s' -> r <> rid -> reqs s' r = reqs s r.
Proof.
  induction l as [|o l IH]; intros s s' r H Hr; cbn [tag map run_ops] in H; [inversion H; reflexivity|].
  destruct (step s rid o) as [s1|] eqn:E; [|discriminate].
  rewrite (IH s1 s' r H Hr). eapply step_other; eassumption.
Qed.

Lemma run_ops_inv_tag rid l s s' : (rid < NR)%nat -> inv NR s -> run_ops s (tag rid l) = Some s' -> inv NR s'.
Proof.
  intros Hlt Hi H. eapply run_inv; [|exact Hi|exact H].
  intros r o Hin. unfold tag in Hin. apply in_map_iff in Hin. destruct Hin as [x [Hx _]]. inversion Hx; subst. exact Hlt.
Qed.

Lemma step_ends_held s rid o s' :
  step s rid o = Some s' -> (o = Finish \/ o = TunnelEnd \/ o = TunnelGiveUp) -> held (reqs s' rid) = None.
Proof.
  intros H Ho. unfold step in H.
  destruct Ho as [Ho|[Ho|Ho]]; subst o; destruct (ph (reqs s rid)); try discriminate;
    try (destruct (trans (reqs s rid)); try discriminate);
    inversion H; subst; cbn [reqs]; rewrite upd_same; reflexivity.
Qed.

Lemma step_pick_held s rid b s' : step s rid (TunnelPick b) = Some s' -> held (reqs s' rid) = Some b.
Proof.
  intro H. unfold step in H. destruct (ph (reqs s rid)); try discriminate.
  destruct (trans (reqs s rid)); try discriminate. inversion H; subst; cbn [reqs]; rewrite upd_same; reflexivity.
Qed.

Lemma run_ops_ends rid l x s s' :
  run_ops s (tag rid (l ++ [x])) = Some s' -> (x = Finish \/ x = TunnelEnd \/ x = TunnelGiveUp) -> held (reqs s' rid) = None.
Proof.
  unfold tag. rewrite map_app. cbn [map]. intros H Hx.
  destruct (run_ops_snoc _ _ _ _ H) as [s1 [_ Hs]]. cbn [fst snd] in Hs. eapply step_ends_held; eassumption.
Qed.

(* ---- status of a simulated request ---- *)
Lemma simulate_status fuel dead rm : forall retry fwd steps choice m,
  simulate fuel dead rm retry fwd steps choice = Some m ->
  if m_held m then m_status m = 0 else m_status m <> 0.
Proof.
  induction fuel as [|f IH]; intros retry fwd steps choice m H; [discriminate|].
  cbn [simulate] in H.
  destruct (rm <? retry).
  { destruct choice; [|discriminate]. inversion H; subst; cbn. discriminate. }
  destruct choice as [|b choice']; [discriminate|].
  destruct (match fwd with v :: _ => v | [] => 1 end =? 0).
  { inversion H; subst; cbn. discriminate. }
  destruct (Nat.eqb b dead).
  { destruct (simulate f dead rm (retry + 1) (tl fwd) steps choice') as [m'|] eqn:Hm'; [|discriminate].
    inversion H; subst; cbn [m_held m_status]. eapply IH; exact Hm'. }
  destruct ((match steps with x :: _ => x | [] => 0 end =? 1) || (match steps with x :: _ => x | [] => 0 end =? 2)).
  { destruct (simulate f dead rm (retry + 1) (tl fwd) (tl steps) choice') as [m'|] eqn:Hm'; [|discriminate].
    inversion H; subst; cbn [m_held m_status]. eapply IH; exact Hm'. }
  destruct (match steps with x :: _ => x | [] => 0 end =? 3).
  { destruct choice'; [|discriminate]. inversion H; subst; cbn. reflexivity. }
  destruct choice'; [|discriminate]. inversion H; subst; cbn.
  destruct (match steps with x :: _ => x | [] => 0 end =? 4); discriminate.
Qed.

(* ---- the invariant between the model state, the harness bookkeeping and the property's holder table ---- *)
Definition K (h : hstate) (hold : nat -> option Z) : Prop :=
  inv NR (h_model h) /\
  forall rid, match h_hold h rid with
              | Some b => held (reqs (h_model h) rid) = Some b /\ hold rid = Some (Z.of_nat b)
              | None => held (reqs (h_model h) rid) = None /\ hold rid = None
              end.

Lemma K_init : K h_init (fun _ => None).
Proof. split; [apply inv_init|]. intro rid. cbn. auto. Qed.

Lemma holders_nonneg hold b : 0 <= holders hold b.
Proof.
  unfold holders, NR. cbn [seq fold_right].
  repeat match goal with |- context [match hold ?r with _ => _ end] => destruct (hold r) end;
  repeat match goal with |- context [if ?c then _ else _] => destruct c end; lia.
Qed.

Lemma counts_holders h hold b : K h hold -> counts (h_model h) b = holders hold (Z.of_nat b).
Proof.
  intros [[Hc _] Hk]. rewrite Hc. unfold holders, NR. cbn [seq fold_right inflight].
  assert (E : forall r, match held (reqs (h_model h) r) with Some x => if Nat.eqb x b then 1 else 0 | None => 0 end
                        = match hold r with Some x => if x =? Z.of_nat b then 1 else 0 | None => 0 end).
  { intro r. specialize (Hk r). destruct (h_hold h r) as [b0|]; destruct Hk as [H1 H2]; rewrite H1, H2; [|reflexivity].
    destruct (Nat.eqb b0 b) eqn:E1; destruct (Z.of_nat b0 =? Z.of_nat b) eqn:E2; try reflexivity.
    - apply Nat.eqb_eq in E1. apply Z.eqb_neq in E2. subst. lia.
    - apply Nat.eqb_neq in E1. apply Z.eqb_eq in E2. lia. }
  rewrite !E. lia.
Qed.

(* the head conjuncts of prop_ops for an observation built by obs_val *)
Lemma counts_clause (s : state) :
  all_some (map as_Z (map (fun b => VZ (counts s b)) (seq 0 NB)))
  = Some (map (fun b => counts s b) (seq 0 NB)).
Proof. reflexivity. Qed.

Lemma head_ok h hold s :
  K h hold -> h_model h = s ->
  ((length (map (fun b => counts s b) (seq 0 NB)) =? 4)%nat && forallb (fun x => 0 <=? x) (map (fun b => counts s b) (seq 0 NB))
   && forallb (fun b => nth (Z.to_nat b) (map (fun b => counts s b) (seq 0 NB)) (-1) =? holders hold b) [0; 1; 2; 3]) = true.
Proof.
  intros HK Hs. subst s. unfold NB. cbn [seq map length Nat.eqb forallb nth Z.to_nat Pos.to_nat Pos.iter_op Init.Nat.add].
  rewrite (counts_holders h hold 0 HK), (counts_holders h hold 1 HK), (counts_holders h hold 2 HK), (counts_holders h hold 3 HK).
  change (Z.of_nat 0) with 0. change (Z.of_nat 1) with 1. change (Z.of_nat 2) with 2. change (Z.of_nat 3) with 3.
  rewrite !Z.eqb_refl.
  pose proof (holders_nonneg hold 0). pose proof (holders_nonneg hold 1).
  pose proof (holders_nonneg hold 2). pose proof (holders_nonneg hold 3).
  repeat (apply andb_true_iff; split); try reflexivity; apply Z.leb_le; assumption.
Qed.

Lemma last_map_VZ (ch : list nat) : ch <> [] ->
  last (map (fun b => VZ (Z.of_nat b)) ch) (VZ (-1)) = VZ (Z.of_nat (last ch O)).
Proof.
  induction ch as [|a ch IH]; intro H; [congruence|].
  destruct ch as [|b ch]; [reflexivity|].
  change (last (map (fun b0 => VZ (Z.of_nat b0)) (a :: b :: ch)) (VZ (-1))) with (last (map (fun b0 => VZ (Z.of_nat b0)) (b :: ch)) (VZ (-1))).
  change (last (a :: b :: ch) O) with (last (b :: ch) O). apply IH. discriminate.
Qed.

(* updating one slot re-establishes K *)
Lemma K_update h hold rid s' (hb : option nat) ch st tn av :
  K h hold -> inv NR s' ->
  (forall r, r <> rid -> reqs s' r = reqs (h_model h) r) ->
  held (reqs s' rid) = hb ->
  K (mkH s' (upd (h_hold h) rid hb) ch st tn av)
    (upd hold rid (match hb with Some b => Some (Z.of_nat b) | None => None end)).
Proof.
  intros [Hi Hk] Hi' Hoth Hh. split; [exact Hi'|]. intro r. cbn [h_hold h_model]. unfold upd.
  destruct (Nat.eqb r rid) eqn:E.
  - apply Nat.eqb_eq in E. subst r. destruct hb; auto.
  - apply Nat.eqb_neq in E. rewrite (Hoth r E). apply Hk.
Qed.

Definition rids_ok (ops : list hop) : Prop := Forall (fun o => (op_rid o < NR)%nat) ops.

Theorem prop_accepts_exec rm choose : forall ops k h hold l,
  rids_ok ops -> K h hold -> exec rm ops choose k h = Some l -> prop_ops ops l hold = true.
Proof.
  induction ops as [|o ops IH]; intros k h hold l Hr HK H; cbn [exec] in H.
  { inversion H; reflexivity. }
  inversion Hr as [|? ? Hrid Hr']; subst.
  destruct o as [rid fwd steps rr rf|rid|rid kind st|b v]; cbn [op_rid] in Hrid.
  - (* HStart *)
    unfold is_held in H. destruct (h_hold h rid) as [b0|] eqn:Hh; [discriminate|].
    set (ch := choose k (HStart rid fwd steps rr rf)) in *.
    destruct (simulate 40 DEAD rm (if any_avail h then 0 else rm + 1) fwd steps ch) as [m|] eqn:Sim; [|discriminate].
    destruct (negb (Nat.eqb (m_used m) (length ch)) || negb (choices_avail h ch)); [discriminate|].
    destruct (run_ops (reset (h_model h) rid) (tag rid (m_ops m))) as [s'|] eqn:Run; [|discriminate].
    match type of H with match exec rm ops choose (S k) ?hh with _ => _ end = _ => set (h' := hh) in * end.
    destruct (exec rm ops choose (S k) h') as [l'|] eqn:Ex; [|discriminate]. inversion H; subst l; clear H.
    pose proof HK as [Hi Hk]. pose proof (Hk rid) as Hkr. rewrite Hh in Hkr. destruct Hkr as [Hheld Hhold].
    assert (Hi0 : inv NR (reset (h_model h) rid)) by (apply reset_inv; assumption).
    assert (Hi' : inv NR s') by (eapply run_ops_inv_tag; eassumption).
    assert (Hoth : forall r, r <> rid -> reqs s' r = reqs (h_model h) r).
    { intros r Hne. rewrite (run_ops_other rid _ _ _ r Run Hne). unfold reset. cbn [reqs]. unfold upd.
      apply Nat.eqb_neq in Hne. rewrite Hne. reflexivity. }
    assert (P0 : ph (reqs (reset (h_model h) rid) rid) = PLoop) by (unfold reset; cbn [reqs]; rewrite upd_same; reflexivity).
    destruct (simulate_valid 40 DEAD rm _ fwd steps ch m _ rid Sim P0) as [s'' [Run' End]].
    unfold tag in Run. rewrite Run in Run'. inversion Run'; subst s''; clear Run'.
    pose proof (simulate_status 40 DEAD rm _ fwd steps ch m Sim) as St.
    unfold sim_end in End.
    cbn [prop_ops obs_val counts_val op_rid].
    destruct (m_held m) eqn:MH.
    + destruct End as [_ [Hhd Hne]].
      assert (HK' : K h' (upd hold rid (Some (Z.of_nat (last ch O))))).
      { apply (K_update h hold rid s' (Some (last ch O))); assumption. }
      cbn [vbool VT Z.eqb Pos.eqb]. rewrite (last_map_VZ ch Hne).
      rewrite (counts_clause s'). rewrite (head_ok h' _ s' HK' eq_refl). cbn [andb Z.eqb].
      eapply IH; eassumption.
    + destruct End as [_ Hhd].
      assert (HK' : K h' (upd hold rid None)).
      { apply (K_update h hold rid s' None); assumption. }
      cbn [vbool VF Z.eqb].
      rewrite (counts_clause s'). rewrite (head_ok h' _ s' HK' eq_refl). cbn [andb].
      destruct (final_status rr (m_status m) =? 0) eqn:Z0.
      { apply Z.eqb_eq in Z0. exfalso. revert Z0. unfold final_status.
        destruct (rr =? 0); [discriminate|]. destruct (rr =? 2); [discriminate|exact St]. }
      cbn [negb andb].
      eapply IH; eassumption.
  - (* HRelease *)
    unfold is_held in H. destruct (h_hold h rid) as [b0|] eqn:Hh; cbn [negb] in H.
    + (* held: released *)
      destruct (run_ops (h_model h) (tag rid (if h_tun h rid then [TunnelEnd] else [RoundTrip 0; Finish]))) as [s'|] eqn:Run; [|discriminate].
      match type of H with match exec rm ops choose (S k) ?hh with _ => _ end = _ => set (h' := hh) in * end.
      destruct (exec rm ops choose (S k) h') as [l'|] eqn:Ex; [|discriminate]. inversion H; subst l; clear H.
      pose proof HK as [Hi Hk].
      assert (Hi' : inv NR s') by (eapply run_ops_inv_tag; eassumption).
      assert (Hoth : forall r, r <> rid -> reqs s' r = reqs (h_model h) r) by (intros r Hne; eapply run_ops_other; eassumption).
      assert (Hhd : held (reqs s' rid) = None).
      { destruct (h_tun h rid).
        - apply (run_ops_ends rid [] TunnelEnd _ _ Run). auto.
        - apply (run_ops_ends rid [RoundTrip 0] Finish _ _ Run). auto. }
      assert (HK' : K h' (upd hold rid None)) by (apply (K_update h hold rid s' None); assumption).
      cbn [prop_ops obs_val counts_val op_rid vbool VF Z.eqb].
      rewrite (counts_clause s'). rewrite (head_ok h' _ s' HK' eq_refl). cbn [andb].
      eapply IH; eassumption.
    + (* nothing to release *)
      destruct (exec rm ops choose (S k) h) as [l'|] eqn:Ex; [|discriminate]. inversion H; subst l; clear H.
      assert (HK' : K h (upd hold rid None)).
      { destruct HK as [Hi Hk]. split; [exact Hi|]. intro r. unfold upd. destruct (Nat.eqb r rid) eqn:E; [|apply Hk].
        apply Nat.eqb_eq in E. subst r. specialize (Hk rid). rewrite Hh in *. destruct Hk; auto. }
      cbn [prop_ops obs_val counts_val op_rid vbool VF Z.eqb].
      rewrite (counts_clause (h_model h)). rewrite (head_ok h _ (h_model h) HK' eq_refl). cbn [andb].
      eapply IH; eassumption.
  - (* HTunnel *)
    unfold is_held in H. destruct (h_hold h rid) as [b0|] eqn:Hh; [discriminate|].
    set (ch := choose k (HTunnel rid kind st)) in *.
    destruct (negb (choices_avail h ch)); [discriminate|].
    destruct (tunnel_ops kind ch st) as [[tops heldf]|] eqn:TO; [|discriminate].
    destruct (run_ops (reset (h_model h) rid) (tag rid tops)) as [s'|] eqn:Run; [|discriminate].
    match type of H with match exec rm ops choose (S k) ?hh with _ => _ end = _ => set (h' := hh) in * end.
    destruct (exec rm ops choose (S k) h') as [l'|] eqn:Ex; [|discriminate]. inversion H; subst l; clear H.
    pose proof HK as [Hi Hk]. pose proof (Hk rid) as Hkr. rewrite Hh in Hkr. destruct Hkr as [Hheld Hhold].
    assert (Hi0 : inv NR (reset (h_model h) rid)) by (apply reset_inv; assumption).
    assert (Hi' : inv NR s') by (eapply run_ops_inv_tag; eassumption).
    assert (Hoth : forall r, r <> rid -> reqs s' r = reqs (h_model h) r).
    { intros r Hne. rewrite (run_ops_other rid _ _ _ r Run Hne). unfold reset. cbn [reqs]. unfold upd.
      apply Nat.eqb_neq in Hne. rewrite Hne. reflexivity. }
    cbn [prop_ops obs_val counts_val op_rid].
    unfold tunnel_ops in TO. destruct ch as [|b [|b2 ch2]] eqn:Ech; try discriminate.
    + (* gave up *)
      inversion TO; subst tops heldf; clear TO.
      assert (Hhd : held (reqs s' rid) = None).
      { unfold give_up in Run.
        match type of Run with run_ops _ (tag rid [?a; ?b1; ?c; ?d; ?e; ?f; ?g]) = _ =>
          apply (run_ops_ends rid [a; b1; c; d; e; f] g _ _ Run) end. auto. }
      assert (HK' : K h' (upd hold rid None)) by (apply (K_update h hold rid s' None); assumption).
      cbn [vbool VF Z.eqb].
      rewrite (counts_clause s'). rewrite (head_ok h' _ s' HK' eq_refl). cbn [andb negb Z.eqb].
      eapply IH; eassumption.
    + destruct (Nat.ltb b DEAD && negb (kind =? 2)); [|discriminate].
      destruct (st =? 0); inversion TO; subst tops heldf; clear TO.
      * (* tunnel established and held *)
        assert (Hhd : held (reqs s' rid) = Some b).
        { cbn [tag map run_ops] in Run. destruct (step (reset (h_model h) rid) rid (TunnelPick b)) as [s1|] eqn:E1; [|discriminate].
          inversion Run; subst s1. eapply step_pick_held; exact E1. }
        assert (HK' : K h' (upd hold rid (Some (Z.of_nat b)))).
        { apply (K_update h hold rid s' (Some b)); assumption. }
        cbn [vbool VT Z.eqb Pos.eqb map last].
        rewrite (counts_clause s'). rewrite (head_ok h' _ s' HK' eq_refl). cbn [andb Z.eqb].
        eapply IH; eassumption.
      * (* tunnel ended at once *)
        assert (Hhd : held (reqs s' rid) = None).
        { apply (run_ops_ends rid [TunnelPick b] TunnelEnd _ _ Run). auto. }
        assert (HK' : K h' (upd hold rid None)) by (apply (K_update h hold rid s' None); assumption).
        cbn [vbool VF Z.eqb].
        rewrite (counts_clause s'). rewrite (head_ok h' _ s' HK' eq_refl). cbn [andb negb Z.eqb].
        eapply IH; eassumption.
  - (* HAdmin *)
    match type of H with match exec rm ops choose (S k) ?hh with _ => _ end = _ => set (h' := hh) in * end.
    destruct (exec rm ops choose (S k) h') as [l'|] eqn:Ex; [|discriminate]. inversion H; subst l; clear H.
    assert (HK' : K h' hold) by (destruct HK as [Hi Hk]; split; [exact Hi|exact Hk]).
    cbn [prop_ops obs_val counts_val op_rid vbool VF Z.eqb].
    rewrite (counts_clause (h_model h)). rewrite (head_ok h' _ (h_model h) HK' eq_refl). cbn [andb].
    eapply IH; eassumption.
Qed.

(* ---- through the wire functions ---- *)
Lemma decode_op_rid v o : decode_op v = Some o -> (op_rid o < NR)%nat.
Proof.
  unfold decode_op, decode_start. intro H.
  repeat match type of H with
         | context [match ?x with _ => _ end] => destruct x eqn:?; try discriminate
         end;
  inversion H; subst; cbn [op_rid]; unfold NR;
  repeat match goal with E : (_ && _) = true |- _ => apply andb_true_iff in E; destruct E end;
  repeat match goal with E : (_ <=? _) = true |- _ => apply Z.leb_le in E | E : (_ <? _) = true |- _ => apply Z.ltb_lt in E end; lia.
Qed.

Lemma all_some_Forall {A B} (f : A -> option B) (P : B -> Prop) :
  (forall a b, f a = Some b -> P b) -> forall l r, all_some (map f l) = Some r -> Forall P r.
Proof.
  intros Hf. induction l as [|a l IH]; intros r H; cbn [map all_some] in H; [inversion H; constructor|].
  destruct (f a) as [b|] eqn:E; [|discriminate].
  destruct (all_some (map f l)) as [r'|]; [|discriminate]. inversion H; subst. constructor; [eapply Hf; exact E|apply IH; reflexivity].
Qed.

Lemma decode_rids v rm ops : decode_C07 v = Some (rm, ops) -> rids_ok ops.
Proof.
  unfold decode_C07. intro H.
  repeat match type of H with
         | context [match ?x with _ => _ end] => destruct x eqn:?; try discriminate
         end.
  inversion H; subst. eapply all_some_Forall; [apply decode_op_rid|eassumption].
Qed.

Theorem prop_of_run v : wf_C07 v = true -> kf_C07 v = 0 -> prop_C07 v (run_C07 v) = true.
Proof.
  unfold wf_C07, prop_C07, run_C07. intros W _.
  destruct (decode_C07 v) as [[rm ops]|] eqn:D; [|discriminate].
  destruct (exec rm ops (rr_choices rm) 0 h_init) as [l|] eqn:E; [|discriminate].
  eapply prop_accepts_exec; [eapply decode_rids; exact D|apply K_init|exact E].
Qed.

Example wf_example :
  wf_C07 (VL [VZ 3; VZ 0; VL [VL [VZ 3; VZ 0; VZ 0; VZ 0]; VL [VZ 1; VZ 1; VL []; VL [VZ 3]];
                              VL [VZ 3; VZ 2; VZ 1; VZ 0]; VL [VZ 2; VZ 1]; VL [VZ 2; VZ 0]; VL [VZ 2; VZ 2]]]) = true.
Proof. reflexivity. Qed.
