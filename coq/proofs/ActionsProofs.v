From Coq Require Import List ZArith Bool Lia String.
From Bfe Require Import lib.Val lib.ValProofs lib.Bytes gen.Actions model.Actions run.RunC49.
Import ListNotations.
Open Scope Z_scope.

Lemma bytes_eqb_refl a : bytes_eqb a a = true.
Proof. apply bytes_eqb_eq. reflexivity. Qed.
Lemma mem_In x l : mem x l = true <-> In x l.
Proof.
  unfold mem. rewrite existsb_exists. split.
  - intros [y [Hy He]]. apply bytes_eqb_eq in He. subst. exact Hy.
  - intros H. exists x. split; [exact H|apply bytes_eqb_refl].
Qed.

Lemma existsb_false_forall {A} (f : A -> bool) l : (forall x, In x l -> f x = false) -> existsb f l = false.
Proof.
  induction l as [|x r IH]; intros H; [reflexivity|]. simpl. rewrite (H x (or_introl eq_refl)). simpl.
  apply IH. intros y Hy. apply H. right. exact Hy.
Qed.

(* ---------- split / join on a separator byte ---------- *)
Definition no_byte (c : Z) (s : bytes) : Prop := existsb (Z.eqb c) s = false.

Lemma split_no_sep c l : Forall (no_byte c) (split_byte c l).
Proof.
  induction l as [|x r IH]; simpl.
  - constructor; [reflexivity|constructor].
  - pose proof (split_byte_nonempty c r) as Hne.
    destruct (split_byte c r) as [|cur rest]; [congruence|].
    inversion IH as [|? ? Hcur Hrest]; subst.
    destruct (x =? c) eqn:E.
    + constructor; [reflexivity|]. constructor; assumption.
    + constructor; [|assumption]. unfold no_byte in *. simpl. rewrite Z.eqb_sym, E. exact Hcur.
Qed.
Lemma split_single c s : no_byte c s -> split_byte c s = [s].
Proof.
  unfold no_byte. induction s as [|x r IH]; simpl; [reflexivity|].
  intros H. apply orb_false_iff in H. destruct H as [Hx Hr]. rewrite (IH Hr).
  rewrite Z.eqb_sym, Hx. reflexivity.
Qed.
Lemma split_app_sep c s rest : no_byte c s -> split_byte c (s ++ c :: rest) = s :: split_byte c rest.
Proof.
  unfold no_byte. induction s as [|x r IH]; simpl.
  - intros _. pose proof (split_byte_nonempty c rest) as Hne.
    destruct (split_byte c rest) as [|cur rs]; [congruence|]. rewrite Z.eqb_refl. reflexivity.
  - intros H. apply orb_false_iff in H. destruct H as [Hx Hr]. rewrite (IH Hr).
    rewrite Z.eqb_sym, Hx. reflexivity.
Qed.
Lemma split_join c segs : segs <> [] -> Forall (no_byte c) segs -> split_byte c (join_byte c segs) = segs.
Proof.
  induction segs as [|s r IH]; [congruence|]. intros _ HF. inversion HF as [|? ? Hs Hr]; subst.
  destruct r as [|s2 r'].
  - simpl. apply split_single. exact Hs.
  - change (join_byte c (s :: s2 :: r')) with (s ++ c :: join_byte c (s2 :: r')).
    rewrite (split_app_sep _ _ _ Hs). f_equal. apply IH; [discriminate|exact Hr].
Qed.

(* ---------- parsing one parameter ---------- *)
Lemma parse_seg_nil : parse_seg [] = [].
Proof. reflexivity. Qed.
Lemma parse_seg_cases seg :
  parse_seg seg = [] \/ exists k v, parse_seg seg = [(k, v)] /\ unescape (raw_key seg) = Some k.
Proof.
  unfold parse_seg, raw_key. destruct (existsb (Z.eqb 59) seg); [left; reflexivity|].
  destruct seg as [|c r]; [left; reflexivity|].
  destruct (cut_eq (c :: r)) as [k v]. simpl fst.
  destruct (unescape k) as [k'|]; [|left; reflexivity].
  destruct (unescape v) as [v'|]; [|left; reflexivity].
  right. exists k', v'. split; reflexivity.
Qed.

(* parse of a filtered query = parse of the kept parameters *)
Lemma parse_filter del raw :
  parse_query (query_filter del raw)
  = flat_map parse_seg (filter (fun seg => negb (del (unescape (raw_key seg)))) (split_byte 38 raw)).
Proof.
  unfold query_filter, parse_query. destruct raw as [|c r].
  - simpl. destruct (negb (del (Some []))); reflexivity.
  - set (segs := split_byte 38 (c :: r)).
    assert (HF : Forall (no_byte 38) segs) by apply split_no_sep.
    set (kept := filter _ segs).
    assert (HK : Forall (no_byte 38) kept).
    { apply Forall_forall. intros x Hx. apply filter_In in Hx. destruct Hx as [Hx _].
      rewrite Forall_forall in HF. apply HF. exact Hx. }
    destruct kept as [|k1 kr] eqn:E.
    + reflexivity.
    + rewrite split_join; [reflexivity|discriminate|exact HK].
Qed.

Lemma flat_map_filter_del keys segs :
  flat_map parse_seg (filter (fun seg => negb (del_pred keys (unescape (raw_key seg)))) segs)
  = filter (fun kv => negb (in_keys keys kv)) (flat_map parse_seg segs).
Proof.
  induction segs as [|s r IH]; [reflexivity|]. simpl.
  rewrite filter_app, <- IH.
  destruct (parse_seg_cases s) as [H0 | [k [v [Hp Hk]]]].
  - rewrite H0. simpl. destruct (negb _); simpl; [rewrite H0|]; reflexivity.
  - rewrite Hp, Hk. unfold del_pred, in_keys. simpl.
    destruct (mem k keys); simpl; [|rewrite Hp]; reflexivity.
Qed.
Lemma flat_map_filter_keep keys segs :
  flat_map parse_seg (filter (fun seg => negb (negb (del_pred keys (unescape (raw_key seg))))) segs)
  = filter (in_keys keys) (flat_map parse_seg segs).
Proof.
  induction segs as [|s r IH]; [reflexivity|]. simpl.
  rewrite filter_app, <- IH.
  destruct (parse_seg_cases s) as [H0 | [k [v [Hp Hk]]]].
  - rewrite H0. simpl. destruct (negb _); simpl; [rewrite H0|]; reflexivity.
  - rewrite Hp, Hk. unfold del_pred, in_keys. simpl.
    destruct (mem k keys); simpl; [rewrite Hp|]; reflexivity.
Qed.

(* QUERY_DEL: the decoded parameters afterwards are exactly the others, values and order kept *)
Lemma query_del_parse raw keys :
  parse_query (query_del raw keys) = filter (fun kv => negb (in_keys keys kv)) (parse_query raw).
Proof. unfold query_del. rewrite parse_filter. apply flat_map_filter_del. Qed.
Lemma query_del_all_except_parse raw keys :
  parse_query (query_del_all_except raw keys) = filter (in_keys keys) (parse_query raw).
Proof. unfold query_del_all_except. rewrite parse_filter. apply flat_map_filter_keep. Qed.

(* no deleted key remains, however it was written in the raw query *)
Lemma query_del_complete raw keys k :
  In k keys -> ~ In k (map fst (parse_query (query_del raw keys))).
Proof.
  intros Hk Hin. rewrite query_del_parse in Hin. apply in_map_iff in Hin.
  destruct Hin as [[k' v] [Hf Hi]]. simpl in Hf. subst k'. apply filter_In in Hi. destruct Hi as [_ Hi].
  unfold in_keys in Hi. simpl in Hi. apply mem_In in Hk. rewrite Hk in Hi. discriminate.
Qed.
Lemma query_del_preserves_others raw keys k v :
  ~ In k keys -> (In (k, v) (parse_query raw) <-> In (k, v) (parse_query (query_del raw keys))).
Proof.
  intros Hk. rewrite query_del_parse, filter_In. unfold in_keys. simpl.
  destruct (mem k keys) eqn:E; [apply mem_In in E; contradiction|]. simpl. tauto.
Qed.
Lemma query_del_all_except_only raw keys k :
  In k (map fst (parse_query (query_del_all_except raw keys))) -> In k keys.
Proof.
  intros Hin. rewrite query_del_all_except_parse in Hin. apply in_map_iff in Hin.
  destruct Hin as [[k' v] [Hf Hi]]. simpl in Hf. subst k'. apply filter_In in Hi. destruct Hi as [_ Hi].
  apply mem_In. exact Hi.
Qed.

(* witnesses: the forms that survived the old raw-string edit *)
Lemma query_del_examples :
  query_del (bs "%61=1&b=2&a&a=3&A=4&a%20b=5"%string) [bs "a"%string] = bs "b=2&A=4&a%20b=5"%string
  /\ parse_query (bs "%61=1&b=2&a&a=3"%string) = [(bs "a", bs "1"); (bs "b", bs "2"); (bs "a", []); (bs "a", bs "3")]%string
  /\ query_del_all_except (bs "%61=1&b=2&a&c"%string) [bs "a"%string] = bs "%61=1&a"%string.
Proof. vm_compute. repeat split. Qed.

(* ---------- QUERY_RENAME ---------- *)
Lemma no_byte_app c a b : no_byte c a -> no_byte c b -> no_byte c (a ++ b).
Proof. unfold no_byte. intros Ha Hb. rewrite existsb_app, Ha, Hb. reflexivity. Qed.
Lemma no_byte_skipn c n s : no_byte c s -> no_byte c (skipn n s).
Proof.
  unfold no_byte. revert s. induction n as [|n IH]; intros s H; [exact H|].
  destruct s as [|x r]; [reflexivity|]. simpl in *. apply orb_false_iff in H. apply IH. apply H.
Qed.

Lemma cut_eq_spec seg k v : cut_eq seg = (k, v) ->
  no_byte 61 k /\ ((seg = k /\ v = []) \/ seg = k ++ 61 :: v).
Proof.
  revert k v. induction seg as [|c r IH]; intros k v H; simpl in H.
  - injection H as <- <-. split; [reflexivity|left; split; reflexivity].
  - destruct (c =? 61) eqn:E.
    + injection H as <- <-. apply Z.eqb_eq in E. subst c. split; [reflexivity|right; reflexivity].
    + destruct (cut_eq r) as [a b] eqn:Er. injection H as <- <-.
      destruct (IH a b eq_refl) as [Hn Hc]. split.
      * unfold no_byte in *. cbn [existsb]. rewrite Z.eqb_sym, E. exact Hn.
      * destruct Hc as [[-> ->] | ->]; [left; split; reflexivity|right; reflexivity].
Qed.
Lemma cut_eq_plain a : no_byte 61 a -> cut_eq a = (a, []).
Proof.
  unfold no_byte. induction a as [|c r IH]; cbn [existsb cut_eq]; [reflexivity|]. intros H.
  apply orb_false_iff in H. destruct H as [Hc Hr]. rewrite Z.eqb_sym, Hc, (IH Hr). reflexivity.
Qed.
Lemma cut_eq_app a v : no_byte 61 a -> cut_eq (a ++ 61 :: v) = (a, v).
Proof.
  unfold no_byte. induction a as [|c r IH]; cbn [existsb cut_eq app]; [rewrite Z.eqb_refl; reflexivity|]. intros H.
  apply orb_false_iff in H. destruct H as [Hc Hr]. rewrite Z.eqb_sym, Hc, (IH Hr). reflexivity.
Qed.
Lemma skipn_length_app {A} (a b : list A) : skipn (List.length a) (a ++ b) = b.
Proof. induction a as [|x r IH]; [reflexivity|exact IH]. Qed.

(* a byte that is neither '%', '+' nor a hex digit survives decoding *)
Lemma unescape_keeps c : hexval c = None -> c <> 37 -> c <> 43 ->
  forall n s k, (List.length s <= n)%nat -> unescape s = Some k -> existsb (Z.eqb c) s = true -> existsb (Z.eqb c) k = true.
Proof.
  intros Hh H37 H43. induction n as [|n IH]; intros s k Hl Hu He.
  - destruct s; [discriminate|simpl in Hl; lia].
  - destruct s as [|x r]; [discriminate|]. simpl in Hu, He, Hl.
    destruct (x =? 37) eqn:Ex.
    + destruct r as [|h1 [|h2 r']]; try discriminate.
      destruct (hexval h1) as [a|] eqn:E1; [|discriminate].
      destruct (hexval h2) as [b|] eqn:E2; [|discriminate].
      destruct (unescape r') as [t|] eqn:Et; [|discriminate]. injection Hu as <-.
      simpl in He. apply Z.eqb_eq in Ex. subst x.
      assert (N0 : (c =? 37) = false) by (apply Z.eqb_neq; exact H37).
      assert (N1 : (c =? h1) = false) by (apply Z.eqb_neq; intros ->; congruence).
      assert (N2 : (c =? h2) = false) by (apply Z.eqb_neq; intros ->; congruence).
      rewrite N0, N1, N2 in He. simpl in He. simpl. apply orb_true_iff. right.
      apply (IH r' t); [simpl in Hl; lia|exact Et|exact He].
    + destruct (unescape r) as [t|] eqn:Et; [|discriminate]. injection Hu as <-. simpl.
      destruct (c =? x) eqn:Ec.
      * apply Z.eqb_eq in Ec. subst x. destruct (c =? 43) eqn:E43; [apply Z.eqb_eq in E43; contradiction|].
        rewrite Z.eqb_refl. reflexivity.
      * simpl in He. apply orb_true_iff. right. apply (IH r t); [lia|exact Et|exact He].
Qed.
Lemma unescape_plain s : existsb (fun c => (c =? 37) || (c =? 43)) s = false -> unescape s = Some s.
Proof.
  induction s as [|x r IH]; [reflexivity|]. simpl. intros H. apply orb_false_iff in H. destruct H as [Hx Hr].
  apply orb_false_iff in Hx. destruct Hx as [H37 H43]. rewrite H37, (IH Hr), H43. reflexivity.
Qed.

Lemma plain_name_facts s : plain_name s = true ->
  s <> [] /\ no_byte 37 s /\ no_byte 43 s /\ no_byte 38 s /\ no_byte 61 s /\ no_byte 59 s.
Proof.
  unfold plain_name. intros H. apply andb_true_iff in H. destruct H as [Hne H]. apply negb_true_iff in H.
  split; [destruct s; [discriminate|discriminate]|].
  assert (forall c, In c [37; 43; 38; 61; 59] -> no_byte c s).
  { intros c Hc. unfold no_byte. apply existsb_false_forall. intros x Hx.
    destruct (c =? x) eqn:E; [|reflexivity]. apply Z.eqb_eq in E. subst x.
    assert (Hf : existsb (fun c0 => existsb (Z.eqb c0) [37; 43; 38; 61; 59]) s = true).
    { apply existsb_exists. exists c. split; [exact Hx|]. apply existsb_exists. exists c. split; [exact Hc|apply Z.eqb_refl]. }
    congruence. }
  repeat split; apply H0; simpl; auto 10.
Qed.
Lemma plain_unescape s : plain_name s = true -> unescape s = Some s.
Proof.
  intros H. destruct (plain_name_facts _ H) as [_ [H37 [H43 _]]]. apply unescape_plain.
  apply existsb_false_forall. intros x Hx. apply orb_false_iff. split.
  - destruct (x =? 37) eqn:E; [|reflexivity]. apply Z.eqb_eq in E. subst x.
    unfold no_byte in H37. assert (existsb (Z.eqb 37) s = true) by (apply existsb_exists; exists 37; split; [exact Hx|reflexivity]). congruence.
  - destruct (x =? 43) eqn:E; [|reflexivity]. apply Z.eqb_eq in E. subst x.
    unfold no_byte in H43. assert (existsb (Z.eqb 43) s = true) by (apply existsb_exists; exists 43; split; [exact Hx|reflexivity]). congruence.
Qed.

Lemma rename_seg_parse old new seg :
  plain_name old = true -> plain_name new = true ->
  parse_seg (rename_seg old new seg) = map (rename_pair old new) (parse_seg seg).
Proof.
  intros Ho Hn.
  destruct (plain_name_facts _ Ho) as [Hone [_ [_ [_ [_ Ho59]]]]].
  destruct (plain_name_facts _ Hn) as [Hnne [_ [_ [_ [Hn61 Hn59]]]]].
  unfold rename_seg, raw_rest, raw_key. destruct (cut_eq seg) as [k v] eqn:Ec. cbn [fst].
  destruct (cut_eq_spec _ _ _ Ec) as [Hk61 Hshape].
  destruct (unescape k) as [k'|] eqn:Ek.
  2:{ (* undecodable key: untouched, and it parses to nothing *)
      unfold parse_seg. destruct (existsb (Z.eqb 59) seg); [reflexivity|].
      destruct seg as [|c r]; [reflexivity|]. rewrite Ec, Ek. reflexivity. }
  destruct (bytes_eqb k' old) eqn:Eo.
  2:{ (* other key: untouched; its pair is not renamed *)
      unfold parse_seg. destruct (existsb (Z.eqb 59) seg); [reflexivity|].
      destruct seg as [|c r]; [reflexivity|]. rewrite Ec, Ek.
      destruct (unescape v); [|reflexivity]. unfold rename_pair. cbn [map fst]. rewrite Eo. reflexivity. }
  apply bytes_eqb_eq in Eo. subst k'.
  (* the raw key decodes to old: it contains no ';' *)
  assert (Hk59 : no_byte 59 k).
  { unfold no_byte. destruct (existsb (Z.eqb 59) k) eqn:E; [|reflexivity]. exfalso.
    assert (existsb (Z.eqb 59) old = true).
    { apply (unescape_keeps 59 eq_refl ltac:(discriminate) ltac:(discriminate) (List.length k) k old (le_n _) Ek E). }
    unfold no_byte in Ho59. congruence. }
  assert (Hkne : k <> []) by (intros ->; simpl in Ek; injection Ek as <-; congruence).
  assert (Hrest : skipn (List.length k) seg = [] /\ v = [] /\ seg = k \/ skipn (List.length k) seg = 61 :: v /\ seg = k ++ 61 :: v).
  { destruct Hshape as [[-> ->] | ->].
    - left. rewrite skipn_all. repeat split.
    - right. rewrite skipn_length_app. split; reflexivity. }
  assert (Hsegne : seg <> []) by (destruct Hrest as [[_ [_ ->]] | [_ ->]]; [exact Hkne|destruct k; discriminate]).
  unfold parse_seg at 2. rewrite Ec.
  destruct Hrest as [[Hs [-> Hseg]] | [Hs Hseg]]; rewrite Hs.
  - (* bare key *)
    rewrite app_nil_r. subst seg. unfold no_byte in Hk59. rewrite Hk59.
    destruct k as [|c r]; [congruence|]. rewrite Ek. cbn [unescape map].
    unfold parse_seg. unfold no_byte in Hn59. rewrite Hn59.
    destruct new as [|n1 nr]; [congruence|]. rewrite (cut_eq_plain _ Hn61), (plain_unescape _ Hn). cbn [unescape].
    unfold rename_pair. cbn [fst snd]. rewrite bytes_eqb_refl. reflexivity.
  - (* key=value *)
    assert (H59 : existsb (Z.eqb 59) (new ++ 61 :: v) = existsb (Z.eqb 59) seg).
    { subst seg. rewrite !existsb_app. unfold no_byte in Hn59, Hk59. rewrite Hn59, Hk59. reflexivity. }
    unfold parse_seg at 1. rewrite H59. destruct (existsb (Z.eqb 59) seg); [reflexivity|].
    destruct seg as [|c r]; [congruence|].
    destruct new as [|n1 nr]; [congruence|]. cbn [app].
    change (n1 :: nr ++ 61 :: v) with ((n1 :: nr) ++ 61 :: v).
    rewrite (cut_eq_app _ _ Hn61), (plain_unescape _ Hn), Ek.
    destruct (unescape v); [|reflexivity]. unfold rename_pair. cbn [map fst snd]. rewrite bytes_eqb_refl. reflexivity.
Qed.

Lemma rename_seg_no_amp old new seg : plain_name new = true -> no_byte 38 seg -> no_byte 38 (rename_seg old new seg).
Proof.
  intros Hn Hs. destruct (plain_name_facts _ Hn) as [_ [_ [_ [Hn38 _]]]].
  unfold rename_seg. destruct (unescape (raw_key seg)); [|exact Hs].
  destruct (bytes_eqb b old); [|exact Hs]. apply no_byte_app; [exact Hn38|]. apply no_byte_skipn. exact Hs.
Qed.

Lemma flat_map_rename old new segs :
  plain_name old = true -> plain_name new = true ->
  flat_map parse_seg (map (rename_seg old new) segs) = map (rename_pair old new) (flat_map parse_seg segs).
Proof.
  intros Ho Hn. induction segs as [|s r IH]; [reflexivity|].
  cbn [map flat_map]. rewrite map_app, <- IH. f_equal. apply rename_seg_parse; assumption.
Qed.

Lemma query_rename_parse raw old new :
  plain_name old = true -> plain_name new = true ->
  parse_query (query_rename raw old new) = map (rename_pair old new) (parse_query raw).
Proof.
  intros Ho Hn. unfold query_rename, rename_raw. destruct (mem old (map fst (parse_query raw))) eqn:Em.
  - unfold parse_query.
    assert (HF : Forall (no_byte 38) (map (rename_seg old new) (split_byte 38 raw))).
    { apply Forall_forall. intros x Hx. apply in_map_iff in Hx. destruct Hx as [s [<- Hs]].
      apply rename_seg_no_amp; [exact Hn|]. pose proof (split_no_sep 38 raw) as H. rewrite Forall_forall in H. apply H. exact Hs. }
    rewrite split_join; [|pose proof (split_byte_nonempty 38 raw); destruct (split_byte 38 raw); [congruence|discriminate]|exact HF].
    apply flat_map_rename; assumption.
  - (* key absent: nothing to rename *)
    symmetry. rewrite <- (map_id (parse_query raw)) at 2. apply map_ext_in. intros [k v] Hin.
    unfold rename_pair. cbn [fst snd]. destruct (bytes_eqb k old) eqn:E; [|reflexivity].
    apply bytes_eqb_eq in E. subst k. exfalso.
    assert (mem old (map fst (parse_query raw)) = true).
    { apply mem_In. apply in_map_iff. exists (old, v). split; [reflexivity|exact Hin]. }
    congruence.
Qed.

Lemma query_rename_example :
  plain_name (bs "a"%string) = true /\ plain_name (bs "new"%string) = true
  /\ query_rename (bs "%61=1&b=2&a&a=3&x=a"%string) (bs "a"%string) (bs "new"%string) = bs "new=1&b=2&new&new=3&x=a"%string.
Proof. vm_compute. repeat split. Qed.

(* ================= the executable property holds of the model ================= *)
Lemma url_eqb_refl u : url_eqb u u = true.
Proof. apply val_eqb_refl. Qed.
Lemma hdr_eqb_refl h : hdr_eqb h h = true.
Proof. apply val_eqb_refl. Qed.
Lemma pairs_eqb_refl l : pairs_eqb l l = true.
Proof. apply val_eqb_refl. Qed.

(* ---- suffixes ---- *)
Lemma is_suffix_app x s : is_suffix s (x ++ s) = true.
Proof. unfold is_suffix. rewrite rev_app_distr. apply is_prefix_spec. exists (rev x). reflexivity. Qed.
Lemma is_suffix_split s l : is_suffix s l = true -> firstn (List.length l - List.length s) l ++ s = l.
Proof.
  unfold is_suffix. intros H. apply is_prefix_spec in H. destruct H as [r Hr].
  assert (Hl : l = rev r ++ s).
  { rewrite <- (rev_involutive l), Hr, rev_app_distr, rev_involutive. reflexivity. }
  rewrite Hl at 1 2. rewrite app_length.
  replace (List.length (rev r) + List.length s - List.length s)%nat with (List.length (rev r) + 0)%nat by lia.
  rewrite firstn_app_2. simpl. rewrite app_nil_r. symmetry. exact Hl.
Qed.
Lemma firstn_app_exact {A} (x s : list A) : firstn (List.length (x ++ s) - List.length s) (x ++ s) = x.
Proof.
  rewrite app_length. replace (List.length x + List.length s - List.length s)%nat with (List.length x + 0)%nat by lia.
  rewrite firstn_app_2. simpl. apply app_nil_r.
Qed.


(* ---- the cached parsed query ---- *)
Lemma has_key_set k k' vs m : has_key k (hdr_set k' vs m) = bytes_eqb k k' || has_key k m.
Proof.
  unfold has_key. induction m as [|[k0 v0] r IH]; cbn [hdr_set existsb fst].
  - rewrite orb_false_r. reflexivity.
  - destruct (bytes_eqb k' k0) eqn:E.
    + apply bytes_eqb_eq in E. subst k0. cbn [existsb fst]. destruct (bytes_eqb k k'); reflexivity.
    + destruct (bytes_ltb k' k0); cbn [existsb fst]; [reflexivity|]. rewrite IH.
      destruct (bytes_eqb k k0), (bytes_eqb k k'); reflexivity.
Qed.
Lemma has_key_qmap_gen pairs acc k :
  has_key k (fold_left (fun m kv => hdr_add (fst kv) (snd kv) m) pairs acc) = mem k (map fst pairs) || has_key k acc.
Proof.
  revert acc. induction pairs as [|[k0 v0] r IH]; intros acc; cbn [fold_left map fst snd].
  - reflexivity.
  - rewrite IH. unfold hdr_add. rewrite has_key_set. unfold mem. cbn [existsb].
    destruct (existsb (bytes_eqb k) (map fst r)), (bytes_eqb k k0), (has_key k acc); reflexivity.
Qed.
Lemma has_key_qmap pairs k : has_key k (qmap_of pairs) = mem k (map fst pairs).
Proof. unfold qmap_of. rewrite has_key_qmap_gen. apply orb_false_r. Qed.
Lemma has_key_del k k' m : has_key k (hdr_del k' m) = negb (bytes_eqb k' k) && has_key k m.
Proof.
  unfold has_key, hdr_del. induction m as [|[k0 v0] r IH]; cbn [filter existsb fst].
  - rewrite andb_false_r. reflexivity.
  - destruct (bytes_eqb k' k0) eqn:E; cbn [negb existsb fst].
    + apply bytes_eqb_eq in E. subst k0. rewrite IH.
      destruct (bytes_eqb k' k) eqn:E2.
      * reflexivity.
      * cbn [negb andb]. destruct (bytes_eqb k k') eqn:E3; [|reflexivity].
        apply bytes_eqb_eq in E3. subst k'. rewrite bytes_eqb_refl in E2. discriminate.
    + rewrite IH. destruct (bytes_eqb k k0) eqn:E2; [|reflexivity].
      apply bytes_eqb_eq in E2. subst k0. rewrite E. reflexivity.
Qed.
Lemma has_key_fold_del keys m k : In k keys -> has_key k (fold_left (fun m k => hdr_del k m) keys m) = false.
Proof.
  assert (Hmono : forall keys m, has_key k m = false -> has_key k (fold_left (fun m k => hdr_del k m) keys m) = false).
  { intros ks. induction ks as [|k0 r IH]; intros m0 H; [exact H|]. cbn [fold_left]. apply IH.
    rewrite has_key_del, H. apply andb_false_r. }
  revert m. induction keys as [|k0 r IH]; intros m H; [contradiction|]. cbn [fold_left].
  destruct H as [-> | H].
  - apply Hmono. rewrite has_key_del, bytes_eqb_refl. reflexivity.
  - apply IH. exact H.
Qed.

(* rw_do (one action on a fresh request) written out *)
Lemma rw_do_spec c params u :
  rw_do c params u =
  let p0 := nth 0 params [] in
  let p1 := nth 1 params [] in
  match c with
  | HostSet => mkUrl p0 (u_path u) (u_query u)
  | HostFromPath => host_from_path u
  | HostSuffixReplace => host_suffix_replace u p0 p1
  | PathSet => mkUrl (u_host u) p0 (u_query u)
  | PathPrefixAdd => path_prefix_add u p0
  | PathPrefixTrim => path_prefix_trim u p0
  | QueryAdd => mkUrl (u_host u) (u_path u) (query_add (u_query u) p0 p1)
  | QueryRename => mkUrl (u_host u) (u_path u) (query_rename (u_query u) p0 p1)
  | QueryDel => mkUrl (u_host u) (u_path u) (query_del (u_query u) params)
  | QueryDelAllExcept => mkUrl (u_host u) (u_path u) (query_del_all_except (u_query u) params)
  end.
Proof.
  destruct c; unfold rw_do, rw_step; cbn [s_url s_cache]; try reflexivity.
  unfold cache_of. cbn [s_url s_cache]. rewrite has_key_qmap. unfold query_rename.
  destruct (mem (nth 0 params []) (map fst (parse_query (u_query u)))); [reflexivity|]. destruct u; reflexivity.
Qed.

Lemma cache_effect_model c p u : cache_effect c p (s_cache (rw_step c p (mkSt u None))) = true.
Proof.
  destruct c; unfold cache_effect, rw_step; cbn [s_url s_cache]; try reflexivity.
  - (* QUERY_DEL *) apply forallb_forall. intros k Hk. apply negb_true_iff. apply has_key_fold_del. exact Hk.
  - (* QUERY_DEL_ALL_EXCEPT *) apply forallb_forall. intros kv Hkv. apply filter_In in Hkv. apply Hkv.
Qed.

Lemma rw_effect_model c p u : rw_effect c p u (rw_do c p u) = true.
Proof.
  rewrite rw_do_spec.
  destruct c; unfold rw_effect; cbn [u_host u_path u_query];
    try (apply url_eqb_refl); try (rewrite !bytes_eqb_refl; reflexivity).
  - (* HOST_SUFFIX_REPLACE *)
    unfold host_suffix_replace, has_suffix, trim_suffix.
    destruct (is_suffix (nth 0 p []) (u_host u)) eqn:E; [|apply url_eqb_refl].
    cbn [u_host u_path u_query]. rewrite !bytes_eqb_refl, is_suffix_app. cbn [andb].
    rewrite firstn_app_exact. rewrite (is_suffix_split _ _ E). apply bytes_eqb_refl.
  - (* QUERY_RENAME *)
    rewrite !bytes_eqb_refl. cbn [andb].
    destruct (plain_name (nth 0 p []) && plain_name (nth 1 p [])) eqn:Ep.
    + apply andb_true_iff in Ep. destruct Ep as [Ho Hn]. rewrite (query_rename_parse _ _ _ Ho Hn). apply pairs_eqb_refl.
    + unfold query_rename, keys_of.
      destruct (mem (nth 0 p []) (map fst (parse_query (u_query u)))); [reflexivity|].
      rewrite bytes_eqb_refl. reflexivity.
  - (* QUERY_DEL *)
    rewrite !bytes_eqb_refl. cbn [andb]. rewrite query_del_parse, pairs_eqb_refl, andb_true_r.
    apply negb_true_iff. apply existsb_false_forall. intros k Hk.
    destruct (mem k p) eqn:E; [|reflexivity]. exfalso. apply mem_In in E.
    unfold keys_of in Hk. exact (query_del_complete _ _ _ E Hk).
  - (* QUERY_DEL_ALL_EXCEPT *)
    rewrite !bytes_eqb_refl. cbn [andb]. rewrite query_del_all_except_parse, pairs_eqb_refl, andb_true_r.
    apply forallb_forall. intros k Hk. apply mem_In.
    unfold keys_of in Hk. exact (query_del_all_except_only _ _ _ Hk).
Qed.

(* ---- acceptance of documented commands ---- *)
Lemma assoc_In {A} k (l : list (bytes * A)) a : assoc k l = Some a -> In (k, a) l.
Proof.
  induction l as [|[k' v] r IH]; simpl; [discriminate|].
  destruct (bytes_eqb k k') eqn:E.
  - intros H; injection H as ->. apply bytes_eqb_eq in E. subst. left. reflexivity.
  - intros H. right. apply IH. exact H.
Qed.

Definition doc_rewrite_fact (c : bytes) : bool :=
  bytes_eqb (to_upper c) c && mem c rewrite_allowed
  && match assoc c action_check_table with Some _ => true | None => false end
  && negb (bytes_eqb c s_REQ_HEADER_SET || bytes_eqb c s_REQ_HEADER_ADD).
Lemma doc_rewrite_facts : forallb doc_rewrite_fact doc_rewrite = true.
Proof. vm_compute. reflexivity. Qed.

Lemma valid_rewrite_accepted c p : valid_rewrite_conf c p = true -> rewrite_accepts c p = true.
Proof.
  unfold valid_rewrite_conf. intros H.
  apply andb_true_iff in H. destruct H as [H Har]. apply andb_true_iff in H. destruct H as [Hdoc Hne].
  apply mem_In in Hdoc. pose proof doc_rewrite_facts as HF. rewrite forallb_forall in HF.
  specialize (HF c Hdoc). unfold doc_rewrite_fact in HF.
  apply andb_true_iff in HF. destruct HF as [HF Hnh]. apply andb_true_iff in HF. destruct HF as [HF Hin].
  apply andb_true_iff in HF. destruct HF as [Hup Hal]. apply bytes_eqb_eq in Hup.
  unfold rewrite_accepts, action_file_check, table_accepts. rewrite Hup, Hal, Hne, Hnh.
  destruct (assoc c action_check_table) as [ar|]; [|discriminate]. rewrite Har. reflexivity.
Qed.

Definition doc_header_fact (ca : bytes * Z) : bool :=
  match assoc (fst ca) header_check_table with Some ar => ar =? snd ca | None => false end
  && match header_cmd (fst ca) with
     | Some (_, HSet) | Some (_, HAdd) => negb (snd ca =? 1)
     | Some (_, HDel) => true
     | _ => false
     end.
Lemma doc_header_facts : forallb doc_header_fact doc_header = true.
Proof. vm_compute. reflexivity. Qed.
Lemma valid_header_accepted c p :
  valid_header_conf c p = true -> header_accepts c p = true /\ header_cmd c <> None.
Proof.
  unfold valid_header_conf. destruct (assoc c doc_header) as [ar|] eqn:E; [|discriminate].
  intros H. apply andb_true_iff in H. destruct H as [H Hv]. apply andb_true_iff in H. destruct H as [Hl Hne].
  apply assoc_In in E. pose proof doc_header_facts as HF. rewrite forallb_forall in HF.
  specialize (HF _ E). unfold doc_header_fact in HF. cbn [fst snd] in HF.
  apply andb_true_iff in HF. destruct HF as [Ht Hc].
  unfold header_accepts, table_accepts.
  destruct (assoc c header_check_table) as [ar'|]; [|discriminate]. apply Z.eqb_eq in Ht. subst ar'.
  rewrite Hl, Hne, orb_true_r. cbn [andb].
  destruct (header_cmd c) as [[b []]|]; try discriminate; split; try reflexivity; try discriminate;
    apply negb_true_iff in Hc; rewrite Hc in Hv; exact Hv.
Qed.

Definition doc_redirect_fact (c : bytes) : bool :=
  match assoc c redirect_check_table with Some ar => ar =? 1 | None => false end
  && match rd_cmd_of c with Some _ => true | None => false end.
Lemma doc_redirect_facts : forallb doc_redirect_fact doc_redirect = true.
Proof. vm_compute. reflexivity. Qed.
Lemma valid_redirect_accepted c p :
  valid_redirect_conf c p = true -> redirect_accepts c p = true /\ rd_cmd_of c <> None.
Proof.
  unfold valid_redirect_conf. intros H.
  apply andb_true_iff in H. destruct H as [H Hs]. apply andb_true_iff in H. destruct H as [Hdoc Hl].
  apply mem_In in Hdoc. pose proof doc_redirect_facts as HF. rewrite forallb_forall in HF.
  specialize (HF c Hdoc). unfold doc_redirect_fact in HF.
  apply andb_true_iff in HF. destruct HF as [Ht Hc].
  unfold redirect_accepts, table_accepts.
  destruct (assoc c redirect_check_table) as [ar|]; [|discriminate]. apply Z.eqb_eq in Ht. subst ar.
  rewrite Hl, orb_true_r. cbn [andb].
  split; [|destruct (rd_cmd_of c); discriminate].
  destruct (bytes_eqb c s_SCHEME_SET); [|reflexivity]. cbn [negb orb] in *.
  unfold mem in Hs. cbn [existsb] in Hs. rewrite orb_false_r in Hs.
  apply orb_true_iff in Hs. destruct Hs as [Hs|Hs]; apply bytes_eqb_eq in Hs; rewrite Hs; reflexivity.
Qed.

(* ---- header map ---- *)
Lemma hdr_del_set k vs h : hdr_del k (hdr_set k vs h) = hdr_del k h.
Proof.
  unfold hdr_del. induction h as [|[k' v'] r IH]; simpl.
  - rewrite bytes_eqb_refl. reflexivity.
  - destruct (bytes_eqb k k') eqn:E.
    + simpl. rewrite bytes_eqb_refl. simpl. reflexivity.
    + destruct (bytes_ltb k k'); simpl; rewrite ?bytes_eqb_refl, ?E; simpl; [reflexivity|].
      rewrite IH. reflexivity.
Qed.
Lemma hdr_get_set k vs h : hdr_get k (hdr_set k vs h) = vs.
Proof.
  unfold hdr_get. induction h as [|[k' v'] r IH]; simpl.
  - rewrite bytes_eqb_refl. reflexivity.
  - destruct (bytes_eqb k k') eqn:E.
    + simpl. rewrite bytes_eqb_refl. reflexivity.
    + destruct (bytes_ltb k k'); simpl; rewrite ?bytes_eqb_refl, ?E; [reflexivity|exact IH].
Qed.
Lemma hdr_get_del k h : hdr_get k (hdr_del k h) = [].
Proof.
  unfold hdr_get, hdr_del. induction h as [|[k' v'] r IH]; simpl; [reflexivity|].
  destruct (bytes_eqb k k') eqn:E; simpl; [exact IH|]. rewrite E. exact IH.
Qed.
Lemma hdr_del_del k h : hdr_del k (hdr_del k h) = hdr_del k h.
Proof.
  unfold hdr_del. induction h as [|[k' v'] r IH]; simpl; [reflexivity|].
  destruct (bytes_eqb k k') eqn:E; simpl; [exact IH|]. rewrite E. simpl. rewrite IH. reflexivity.
Qed.

Lemma hdr_effect_model c p h : hdr_effect c p h (header_apply c p h) = true.
Proof.
  destruct c; unfold hdr_effect, header_apply, hdr_add; try reflexivity;
    rewrite ?hdr_del_set, ?hdr_get_set, ?hdr_del_del, ?hdr_get_del, hdr_eqb_refl; cbn [andb]; apply val_eqb_refl.
Qed.
Lemma header_effect_model vars c p a b a' b' :
  header_run vars c p a b = Some (a', b') -> header_effect vars c p a b a' b' = true.
Proof.
  unfold header_run, header_effect. destruct (header_accepts c p); [|discriminate].
  destruct (header_cmd c) as [[is_req hc]|]; [|discriminate].
  destruct is_req; intros H; injection H as <- <-; rewrite hdr_eqb_refl; cbn [andb]; apply hdr_effect_model.
Qed.
Lemma rewrite_effect_st_model c p u : rewrite_effect_st c p u (action_step c p (mkSt u None)) = true.
Proof.
  unfold rewrite_effect_st, action_step. destruct (rw_cmd_of c) as [rc|]; [|reflexivity].
  pose proof (rw_effect_model rc p u) as H. unfold rw_do in H. rewrite H, cache_effect_model. reflexivity.
Qed.
Lemma direct_effect_model c p u h st' h' :
  direct_run c p u h = Some (st', h') -> direct_effect (to_upper c) p u h st' h' = true.
Proof.
  unfold direct_run, direct_effect. destruct (action_file_check c p); [|discriminate].
  destruct (header_cmd (to_upper c)) as [[[] []]|]; intros H; injection H as <- <-; cbn [s_url];
    rewrite ?url_eqb_refl, ?hdr_eqb_refl; cbn [andb]; try apply hdr_effect_model; apply rewrite_effect_st_model.
Qed.
Lemma valid_rewrite_checked c p : valid_rewrite_conf c p = true -> action_file_check c p = true.
Proof.
  intros H. apply valid_rewrite_accepted in H. unfold rewrite_accepts in H. apply andb_true_iff in H. apply H.
Qed.

Lemma redirect_effect_model c p u t : redirect_run c p u = Some t -> redirect_effect c p u t = true.
Proof.
  unfold redirect_run, redirect_effect. destruct (redirect_accepts c p); [|discriminate].
  destruct (rd_cmd_of c) as [[]|]; [| | | |discriminate]; intros H; injection H as <-; apply bytes_eqb_refl.
Qed.

(* ---- wire round trip ---- *)
Lemma as_LB_vLB l : as_LB (vLB l) = Some l.
Proof.
  unfold as_LB, vLB. rewrite map_map. simpl.
  induction l as [|x l IH]; simpl; [reflexivity|]. rewrite IH. reflexivity.
Qed.
Lemma dec_enc_hdr h : dec_hdr (enc_hdr h) = Some h.
Proof.
  unfold dec_hdr, enc_hdr.
  induction h as [|[k vs] r IH]; [reflexivity|].
  cbn [map fst snd]. unfold dec_hkv at 1. rewrite as_LB_vLB. cbn [all_some]. rewrite IH. reflexivity.
Qed.
Lemma dec_enc_st st : dec_st (enc_st st) = Some st.
Proof.
  destruct st as [[h p q] [m|]]; unfold enc_st, dec_st, enc_cache, dec_cache; cbn [s_url s_cache u_host u_path u_query].
  - pose proof (dec_enc_hdr m) as Hm. unfold enc_hdr in *. rewrite Hm. reflexivity.
  - reflexivity.
Qed.

(* ---- reload histories of the rewrite table ---- *)
Lemma all_valid_ok c : all_valid c = true -> rw_conf_ok c = true.
Proof.
  unfold all_valid, rw_conf_ok, rules_accept. intros H. apply forallb_forall. intros pr Hpr.
  rewrite forallb_forall in H. specialize (H pr Hpr). apply forallb_forall. intros r Hr.
  rewrite forallb_forall in H. specialize (H r Hr). apply forallb_forall. intros a Ha.
  rewrite forallb_forall in H. apply valid_rewrite_accepted. apply H. exact Ha.
Qed.
Lemma prop_rw_ops_model t ops : prop_rw_ops t ops (run_rw_ops t ops) = true.
Proof.
  revert t. induction ops as [|o rest IH]; intros t; [reflexivity|].
  destruct o as [c|p u]; cbn [run_rw_ops prop_rw_ops].
  - unfold rw_table_load. destruct (rw_conf_ok c) eqn:Eok.
    + change (is_load_ok (VL [VZ 1])) with true. cbn iota. apply IH.
    + change (is_load_ok (VErr 1)) with false. cbn iota. rewrite val_eqb_refl, IH. cbn [andb]. rewrite andb_true_r.
      apply negb_true_iff. destruct (all_valid c) eqn:Ev; [|reflexivity]. rewrite (all_valid_ok _ Ev) in Eok. discriminate.
  - unfold rw_request. destruct (rw_lookup p t) as [rs|].
    + rewrite dec_enc_st, IH. reflexivity.
    + rewrite val_eqb_refl, IH. reflexivity.
Qed.
(* a successful reload replaces the table: the rest of the history does not depend on what was loaded before *)
Lemma rw_reload_replaces t c ops : rw_conf_ok c = true -> run_rw_ops t (RLoad c :: ops) = VL [VZ 1] :: run_rw_ops c ops.
Proof. intros H. cbn [run_rw_ops]. unfold rw_table_load. rewrite H. reflexivity. Qed.
Lemma rw_dropped_product_untouched t c p u ops :
  rw_conf_ok c = true -> rw_lookup p c = None ->
  run_rw_ops t (RLoad c :: RReq p u :: ops) = VL [VZ 1] :: enc_st (mkSt u None) :: run_rw_ops c ops.
Proof. intros H Hl. rewrite rw_reload_replaces by exact H. cbn [run_rw_ops]. unfold rw_request. rewrite Hl. reflexivity. Qed.

(* ---- reload histories of the redirect table ---- *)
Lemma rd_valid_ok c : rd_valid c = true -> rd_conf_ok c = true.
Proof.
  unfold rd_valid, rd_conf_ok. intros H. apply forallb_forall. intros pr Hpr.
  rewrite forallb_forall in H. specialize (H pr Hpr). apply forallb_forall. intros r Hr.
  rewrite forallb_forall in H. specialize (H r Hr). unfold rd_rule_ok.
  destruct (snd (fst r)) as [|[cmd ps] [|]]; try discriminate.
  apply andb_true_iff in H. destruct H as [Hv Hs]. rewrite Hs, andb_true_r.
  apply (valid_redirect_accepted _ _ Hv).
Qed.
Lemma rd_step_prop_model t p u : rd_step_prop t p u (enc_rd (rd_request t p u)) = true.
Proof.
  unfold rd_step_prop, rd_request. destruct (rd_lookup p t) as [rs|]; [|reflexivity].
  destruct (rd_first_match rs) as [[[m acts] st]|]; [|reflexivity].
  destruct acts as [|[cmd ps] [|]]; try reflexivity.
  unfold redirect_effect. destruct (rd_cmd_of cmd) as [[]|]; cbn [enc_rd rd_do];
    rewrite ?bytes_eqb_refl, Z.eqb_refl; reflexivity.
Qed.
Lemma prop_rd_ops_model t ops : prop_rd_ops t ops (run_rd_ops t ops) = true.
Proof.
  revert t. induction ops as [|o rest IH]; intros t; [reflexivity|].
  destruct o as [c|p u]; cbn [run_rd_ops prop_rd_ops].
  - unfold rd_table_load. destruct (rd_conf_ok c) eqn:Eok.
    + change (is_load_ok (VL [VZ 1])) with true. cbn iota. apply IH.
    + change (is_load_ok (VErr 1)) with false. cbn iota. rewrite val_eqb_refl, IH. cbn [andb]. rewrite andb_true_r.
      apply negb_true_iff. destruct (rd_valid c) eqn:Ev; [|reflexivity]. rewrite (rd_valid_ok _ Ev) in Eok. discriminate.
  - rewrite rd_step_prop_model, IH. reflexivity.
Qed.
Lemma rd_reload_replaces t c ops : rd_conf_ok c = true -> run_rd_ops t (DLoad c :: ops) = VL [VZ 1] :: run_rd_ops c ops.
Proof. intros H. cbn [run_rd_ops]. unfold rd_table_load. rewrite H. reflexivity. Qed.
Lemma rd_dropped_product_not_redirected t c p u ops :
  rd_conf_ok c = true -> rd_lookup p c = None ->
  run_rd_ops t (DLoad c :: DReq p u :: ops) = VL [VZ 1] :: VL [VZ 0] :: run_rd_ops c ops.
Proof. intros H Hl. rewrite rd_reload_replaces by exact H. cbn [run_rd_ops]. unfold rd_request. rewrite Hl. reflexivity. Qed.

(* ---- reload histories of the header table ---- *)
Lemma hd_valid_ok c : hd_valid c = true -> hd_conf_ok c = true.
Proof.
  unfold hd_valid, hd_conf_ok. intros H. apply forallb_forall. intros pr Hpr.
  rewrite forallb_forall in H. specialize (H pr Hpr). apply forallb_forall. intros r Hr.
  rewrite forallb_forall in H. specialize (H r Hr). unfold hd_rule_ok.
  apply andb_true_iff in H. destruct H as [Hne Ha]. rewrite Hne. cbn [andb].
  apply forallb_forall. intros a Hin. rewrite forallb_forall in Ha. specialize (Ha a Hin).
  destruct (valid_header_accepted _ _ Ha) as [H1 H2]. unfold hd_action_ok. rewrite H1.
  destruct (header_cmd (fst a)); [reflexivity|congruence].
Qed.
Lemma prop_hd_ops_model vars t ops : prop_hd_ops t ops (run_hd_ops vars t ops) = true.
Proof.
  revert t. induction ops as [|o rest IH]; intros t; [reflexivity|].
  destruct o as [c|p a b]; cbn [run_hd_ops prop_hd_ops].
  - unfold hd_table_load. destruct (hd_conf_ok c) eqn:Eok.
    + change (is_load_ok (VL [VZ 1])) with true. cbn iota. apply IH.
    + change (is_load_ok (VErr 1)) with false. cbn iota. rewrite val_eqb_refl, IH. cbn [andb]. rewrite andb_true_r.
      apply negb_true_iff. destruct (hd_valid c) eqn:Ev; [|reflexivity]. rewrite (hd_valid_ok _ Ev) in Eok. discriminate.
  - unfold hd_request, hd_side. rewrite IH, andb_true_r.
    destruct (hd_lookup s_global t), (hd_lookup p t); rewrite ?dec_enc_hdr; try reflexivity. apply val_eqb_refl.
Qed.
Lemma hd_reload_replaces vars t c ops :
  hd_conf_ok c = true -> run_hd_ops vars t (HLoad c :: ops) = VL [VZ 1] :: run_hd_ops vars c ops.
Proof. intros H. cbn [run_hd_ops]. unfold hd_table_load. rewrite H. reflexivity. Qed.
Lemma hd_dropped_product_untouched vars t c p a b ops :
  hd_conf_ok c = true -> hd_lookup s_global c = None -> hd_lookup p c = None ->
  run_hd_ops vars t (HLoad c :: HReq p a b :: ops) = VL [VZ 1] :: VL [enc_hdr a; enc_hdr b] :: run_hd_ops vars c ops.
Proof.
  intros H Hg Hl. rewrite hd_reload_replaces by exact H. cbn [run_hd_ops]. unfold hd_request, hd_side. rewrite Hg, Hl. reflexivity.
Qed.

Lemma spec_model ci : spec ci (model ci) = true.
Proof.
  destruct ci as [c p u | c p a b vars | c p u | c p u h | rs u | ops | ops | ops vars]; unfold model, spec.
  - destruct (rewrite_run c p u) as [u'|] eqn:E.
    + unfold rewrite_run in E. destruct (rewrite_accepts c p); [|discriminate]. injection E as <-.
      apply rewrite_effect_st_model.
    + unfold rewrite_run in E. destruct (rewrite_accepts c p) eqn:Ea; [discriminate|].
      apply negb_true_iff. destruct (valid_rewrite_conf c p) eqn:Ev; [|reflexivity].
      rewrite (valid_rewrite_accepted _ _ Ev) in Ea. discriminate.
  - destruct (header_run vars c p a b) as [[a' b']|] eqn:E.
    + apply header_effect_model. exact E.
    + apply negb_true_iff. destruct (valid_header_conf c p) eqn:Ev; [|reflexivity].
      destruct (valid_header_accepted _ _ Ev) as [Ha Hc]. unfold header_run in E. rewrite Ha in E.
      destruct (header_cmd c) as [[[] hc]|]; try discriminate. congruence.
  - destruct (redirect_run c p u) as [t|] eqn:E.
    + apply redirect_effect_model. exact E.
    + apply negb_true_iff. destruct (valid_redirect_conf c p) eqn:Ev; [|reflexivity].
      destruct (valid_redirect_accepted _ _ Ev) as [Ha Hc]. unfold redirect_run in E. rewrite Ha in E.
      destruct (rd_cmd_of c); [discriminate|congruence].
  - destruct (direct_run c p u h) as [[u' h']|] eqn:E.
    + apply direct_effect_model. exact E.
    + apply negb_true_iff. destruct (valid_rewrite_conf c p) eqn:Ev; [|reflexivity].
      unfold direct_run in E. rewrite (valid_rewrite_checked _ _ Ev) in E.
      destruct (header_cmd (to_upper c)) as [[[] []]|]; discriminate.
  - destruct (rewrite_rules_run rs u) as [st|] eqn:E; [reflexivity|].
    apply negb_true_iff. unfold rewrite_rules_run in E. destruct (rules_accept rs) eqn:Ea; [discriminate|].
    destruct (forallb (fun r : rw_rule => forallb (fun a => valid_rewrite_conf (fst a) (snd a)) (snd r)) rs) eqn:Ev; [|exact Ev]. exfalso.
    assert (rules_accept rs = true); [|congruence].
    unfold rules_accept. apply forallb_forall. intros r Hr. rewrite forallb_forall in Ev. specialize (Ev r Hr).
    apply forallb_forall. intros a Ha. rewrite forallb_forall in Ev. apply valid_rewrite_accepted. apply Ev. exact Ha.
  - apply prop_rw_ops_model.
  - apply prop_rd_ops_model.
  - apply prop_hd_ops_model.
Qed.

Lemma dec_out_st ci st : (match ci with IRewrite _ _ _ | IRules _ _ => True | _ => False end) ->
  dec_out ci (enc_st st) = Some (OUrl st).
Proof.
  intros H. pose proof (dec_enc_st st) as Hs. destruct ci; try contradiction;
    unfold dec_out; unfold enc_st in *; rewrite Hs; reflexivity.
Qed.
Lemma dec_enc_out ci : dec_out ci (enc_out (model ci)) = Some (model ci).
Proof.
  destruct ci as [c p u | c p a b vars | c p u | c p u h0 | rs u | ops | ops | ops vars]; unfold model.
  - destruct (rewrite_run c p u) as [st|]; [|reflexivity]. apply dec_out_st. exact I.
  - destruct (header_run vars c p a b) as [[a' b']|]; [|reflexivity].
    pose proof (dec_enc_hdr a') as Ha. pose proof (dec_enc_hdr b') as Hb.
    unfold enc_out, dec_out. unfold enc_hdr in *. rewrite Ha, Hb. reflexivity.
  - destruct (redirect_run c p u) as [t|]; reflexivity.
  - destruct (direct_run c p u h0) as [[st h']|]; [|reflexivity].
    pose proof (dec_enc_hdr h') as Hb. pose proof (dec_enc_st st) as Hs.
    unfold enc_out, dec_out. unfold enc_hdr, enc_st in *. rewrite Hs, Hb. reflexivity.
  - destruct (rewrite_rules_run rs u) as [st|]; [|reflexivity]. apply dec_out_st. exact I.
  - reflexivity.
  - reflexivity.
  - reflexivity.
Qed.

Lemma prop_C49_of_model i : wf_C49 i = true -> prop_C49 i (run_C49 i) = true.
Proof.
  unfold wf_C49, prop_C49, run_C49. destruct (dec_in i) as [ci|]; [intros _|discriminate].
  rewrite dec_enc_out. apply spec_model.
Qed.

Definition ex_corpus_case : val :=
  VL [VZ 1; VB (bs "QUERY_DEL"%string); VL [VB (bs "a"%string)];
      VL [VB (bs "example.com"%string); VB (bs "/"%string); VB (bs "%61=1&b=2&a&a=3"%string)]].
Lemma wf_example : wf_C49 ex_corpus_case = true /\ kf_C49 ex_corpus_case = 0
  /\ run_C49 ex_corpus_case = VL [VB (bs "example.com"%string); VB (bs "/"%string); VB (bs "b=2"%string); VL [VL [VL [VB (bs "b"%string); VL [VB (bs "2"%string)]]]]].
Proof. vm_compute. repeat split. Qed.
