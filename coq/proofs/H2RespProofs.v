(* Proofs about the HTTP/2 response-writer model (C38). *)
From Coq Require Import List ZArith Bool Lia.
From Bfe Require Import lib.Val lib.ValProofs lib.Bytes model.H2Resp run.RunC38.
Import ListNotations.
Open Scope Z_scope.

Definition no_end (fs : list frame) : Prop := forall f, In f fs -> f_end f = false.
(* exactly one END_STREAM, on the last frame *)
Definition ends_once (fs : list frame) : Prop :=
  exists pre l, fs = pre ++ [l] /\ no_end pre /\ f_end l = true.

Lemma no_end_nil : no_end []. Proof. intros f []. Qed.
Lemma no_end_app a b : no_end a -> no_end b -> no_end (a ++ b).
Proof. intros Ha Hb f Hf. apply in_app_or in Hf. destruct Hf; auto. Qed.
Lemma no_end_one f : f_end f = false -> no_end [f].
Proof. intros H g [<-|[]]. exact H. Qed.

(* ---------- write_header ---------- *)
Lemma wh_sentH e c s : sentH (write_header e c s) = sentH s.
Proof. unfold write_header. destruct (wroteH s); reflexivity. Qed.
Lemma wh_buf e c s : buf (write_header e c s) = buf s.
Proof. unfold write_header. destruct (wroteH s); reflexivity. Qed.
Lemma wh_berr e c s : berr (write_header e c s) = berr s.
Proof. unfold write_header. destruct (wroteH s); reflexivity. Qed.

(* ---------- first_headers ---------- *)
Lemma first_headers_shape e done p s f s1 es :
  first_headers e done p s = (f, s1, es) ->
  (exists fl, f = FH es fl) /\ sentH s1 = true /\ buf s1 = buf s /\ berr s1 = berr s
  /\ es = (done && match trailers s1 with [] => true | _ => false end && (blen p =? 0)) || e_head e.
Proof.
  unfold first_headers. cbv zeta.
  match goal with |- (match ?X with pair _ _ => _ end) = _ -> _ => destruct X as [[snp scl] clen1] end.
  intro H. inversion H; subst. clear H. simpl.
  split; [eexists; reflexivity|]. repeat split; reflexivity.
Qed.

(* ---------- body_frames ---------- *)
Lemma body_frames_state e done p s1 fr s2 :
  body_frames e done p s1 = (fr, s2) ->
  sentH s2 = sentH s1 /\ buf s2 = buf s1 /\ berr s2 = berr s1.
Proof.
  unfold body_frames.
  destruct (if done then promote (e_perm e) (hh s1) (trailers s1) else (hh s1, trailers s1)) as [h2 tr2].
  destruct (done && match tr2 with [] => false | _ => true end).
  - destruct (encode_trailers (e_hop e) h2 tr2); intro H; inversion H; subst; simpl; repeat split; reflexivity.
  - intro H; inversion H; subst; simpl; repeat split; reflexivity.
Qed.

Lemma body_frames_notdone e p s1 fr s2 :
  body_frames e false p s1 = (fr, s2) -> no_end fr.
Proof.
  unfold body_frames. simpl. intro H.
  destruct ((0 <? blen p) || false); inversion H; subst.
  - apply no_end_one. reflexivity.
  - apply no_end_nil.
Qed.

Lemma body_frames_done e p s1 fr s2 :
  body_frames e true p s1 = (fr, s2) -> ends_once fr.
Proof.
  unfold body_frames.
  destruct (promote (e_perm e) (hh s1) (trailers s1)) as [h2 tr2].
  remember (encode_trailers (e_hop e) h2 tr2) as enc eqn:Eenc. clear Eenc.
  destruct tr2 as [|t tr2]; cbn [andb negb].
  - rewrite orb_true_r. intro H. inversion H; subst.
    exists [], (FD true p). split; [reflexivity|]. split; [apply no_end_nil|reflexivity].
  - rewrite orb_false_r.
    assert (Hp : no_end (if 0 <? blen p then [FD false p] else []))
      by (destruct (0 <? blen p); [apply no_end_one; reflexivity|apply no_end_nil]).
    destruct enc as [|fl0 fl]; intro H; inversion H; subst.
    + exists (if 0 <? blen p then [FD false p] else []), (FD true []). repeat split; [exact Hp].
    + exists (if 0 <? blen p then [FD false p] else []), (FH true (fl0 :: fl)). repeat split; [exact Hp].
Qed.

(* ---------- write_chunk ---------- *)
(* the state components that matter for the bufio layer *)
Lemma write_chunk_state e done p s fr n s' :
  write_chunk e done p s = (fr, n, s') ->
  sentH s' = true /\ buf s' = buf s /\ berr s' = berr s.
Proof.
  unfold write_chunk.
  pose proof (wh_sentH e 200 s) as Hs. pose proof (wh_buf e 200 s) as Hb. pose proof (wh_berr e 200 s) as He.
  set (s0 := write_header e 200 s) in *.
  destruct (sentH s0) eqn:Es0.
  - cbn iota beta.
    destruct (e_head e); [intro H; inversion H; subst; rewrite Es0, Hb, He; repeat split; reflexivity|].
    destruct ((blen p =? 0) && negb done); [intro H; inversion H; subst; rewrite Es0, Hb, He; repeat split; reflexivity|].
    destruct (body_frames e done p s0) as [fr2 s2] eqn:Eb. intro H; inversion H; subst.
    destruct (body_frames_state _ _ _ _ _ _ Eb) as [A [B C]]. rewrite A, B, C, Es0, Hb, He. repeat split; reflexivity.
  - destruct (first_headers e done p s0) as [[f s1] es] eqn:Ef.
    destruct (first_headers_shape _ _ _ _ _ _ _ Ef) as [_ [A [B [C _]]]].
    destruct es; [intro H; inversion H; subst; rewrite A, B, C, Hb, He; repeat split; reflexivity|].
    destruct (e_head e); [intro H; inversion H; subst; rewrite A, B, C, Hb, He; repeat split; reflexivity|].
    destruct ((blen p =? 0) && negb done); [intro H; inversion H; subst; rewrite A, B, C, Hb, He; repeat split; reflexivity|].
    destruct (body_frames e done p s1) as [fr2 s2] eqn:Eb. intro H; inversion H; subst.
    destruct (body_frames_state _ _ _ _ _ _ Eb) as [A' [B' C']]. rewrite A', B', C', A, B, C, Hb, He. repeat split; reflexivity.
Qed.

(* not done, not HEAD: no END_STREAM, everything accepted *)
Lemma write_chunk_notdone e p s fr n s' :
  e_head e = false -> write_chunk e false p s = (fr, n, s') ->
  no_end fr /\ n = blen p.
Proof.
  intro Hh. unfold write_chunk. rewrite Hh.
  set (s0 := write_header e 200 s).
  destruct (sentH s0) eqn:Es0.
  - cbn iota beta. rewrite andb_true_r.
    destruct (blen p =? 0) eqn:Ep.
    + intro H; inversion H; subst. apply Z.eqb_eq in Ep. split; [apply no_end_nil|lia].
    + destruct (body_frames e false p s0) as [fr2 s2] eqn:Eb. intro H; inversion H; subst.
      split; [apply (body_frames_notdone _ _ _ _ _ Eb)|reflexivity].
  - destruct (first_headers e false p s0) as [[f s1] es] eqn:Ef.
    destruct (first_headers_shape _ _ _ _ _ _ _ Ef) as [[fl Hf] [_ [_ [_ Hes]]]].
    rewrite Hh in Hes. simpl in Hes. subst es f. rewrite andb_true_r.
    destruct (blen p =? 0) eqn:Ep.
    + intro H; inversion H; subst. apply Z.eqb_eq in Ep. split; [apply no_end_one; reflexivity|lia].
    + destruct (body_frames e false p s1) as [fr2 s2] eqn:Eb. intro H; inversion H; subst.
      split; [|reflexivity].
      apply (no_end_app [FH false fl] fr2); [apply no_end_one; reflexivity|apply (body_frames_notdone _ _ _ _ _ Eb)].
Qed.

(* done, not HEAD: exactly one END_STREAM, at the end *)
Lemma write_chunk_done e p s fr n s' :
  e_head e = false -> write_chunk e true p s = (fr, n, s') -> ends_once fr.
Proof.
  intro Hh. unfold write_chunk. rewrite Hh.
  set (s0 := write_header e 200 s).
  destruct (sentH s0) eqn:Es0.
  - cbn iota beta. rewrite andb_false_r.
    destruct (body_frames e true p s0) as [fr2 s2] eqn:Eb. intro H; inversion H; subst.
    apply (body_frames_done _ _ _ _ _ Eb).
  - destruct (first_headers e true p s0) as [[f s1] es] eqn:Ef.
    destruct (first_headers_shape _ _ _ _ _ _ _ Ef) as [[fl Hf] [_ [_ [_ Hes]]]].
    subst f. destruct es.
    + intro H; inversion H; subst. exists [], (FH true fl). split; [reflexivity|]. split; [apply no_end_nil|reflexivity].
    + rewrite andb_false_r.
      destruct (body_frames e true p s1) as [fr2 s2] eqn:Eb. intro H; inversion H; subst.
      destruct (body_frames_done _ _ _ _ _ Eb) as [pre [l [E [Hp Hl]]]].
      exists (FH false fl :: pre), l. rewrite E. split; [reflexivity|].
      split; [|exact Hl]. intros g [<-|Hg]; [reflexivity|apply Hp, Hg].
Qed.

(* HEAD: the first call writes one HEADERS frame with END_STREAM, later calls write nothing *)
Lemma write_chunk_head e done p s fr n s' :
  e_head e = true -> write_chunk e done p s = (fr, n, s') ->
  (if sentH s then fr = [] else exists fl, fr = [FH true fl]).
Proof.
  intro Hh. unfold write_chunk. rewrite Hh. rewrite <- (wh_sentH e 200 s).
  set (s0 := write_header e 200 s).
  destruct (sentH s0) eqn:Es0.
  - cbn iota beta. intro H; inversion H; subst. reflexivity.
  - destruct (first_headers e done p s0) as [[f s1] es] eqn:Ef.
    destruct (first_headers_shape _ _ _ _ _ _ _ Ef) as [[fl Hf] [_ [_ [_ Hes]]]].
    rewrite Hh, orb_true_r in Hes. subst es f.
    intro H; inversion H; subst. exists fl. reflexivity.
Qed.

(* ---------- bufio ---------- *)
(* non-HEAD *)
Lemma bw_flush_notdone e s fr s' :
  e_head e = false -> berr s = false -> bw_flush e false s = (fr, s') ->
  no_end fr /\ berr s' = false.
Proof.
  intros Hh Hb. unfold bw_flush. rewrite Hb.
  destruct (buf s) as [|b0 br] eqn:Ebuf; [intro H; inversion H; subst; split; [apply no_end_nil|exact Hb]|].
  destruct (write_chunk e false (b0 :: br) s) as [[fr1 n] s1] eqn:Ew.
  destruct (write_chunk_notdone _ _ _ _ _ _ Hh Ew) as [A B].
  rewrite B, Z.ltb_irrefl. intro H; inversion H; subst. split; [exact A|reflexivity].
Qed.

Lemma bw_write_notdone e : e_head e = false -> forall fuel p s acc fr s',
  berr s = false -> no_end acc -> bw_write fuel e p s acc = Some (fr, s') ->
  no_end fr /\ berr s' = false.
Proof.
  intro Hh. induction fuel as [|f IH]; intros p s acc fr s' Hb Ha; simpl; rewrite Hb; simpl.
  - destruct (e_bsz e - blen (buf s) <? blen p); [discriminate|].
    intro H; inversion H; subst. split; [exact Ha|reflexivity].
  - destruct (e_bsz e - blen (buf s) <? blen p).
    + simpl. destruct (buf s) as [|b0 br] eqn:Ebuf.
      * destruct (write_chunk e false p s) as [[fr1 n] s1] eqn:Ew.
        destruct (write_chunk_notdone _ _ _ _ _ _ Hh Ew) as [A B].
        destruct (write_chunk_state _ _ _ _ _ _ _ Ew) as [_ [_ D]].
        apply IH; [rewrite D; exact Hb|apply no_end_app; assumption].
      * destruct (bw_flush e false (set_buf s ((b0 :: br) ++ firstn (Z.to_nat (e_bsz e - blen (b0 :: br))) p) false))
          as [fr1 s1] eqn:Ef.
        destruct (bw_flush_notdone e _ fr1 s1 Hh (eq_refl : berr (set_buf s _ false) = false) Ef) as [A B].
        apply IH; [exact B|apply no_end_app; assumption].
    + simpl. intro H; inversion H; subst. split; [exact Ha|reflexivity].
Qed.

(* HEAD: invariant between the state and the frames written so far *)
Definition head_inv (s : rws) (fs : list frame) : Prop :=
  (if sentH s then exists fl, fs = [FH true fl] else fs = []) /\ (berr s = true -> sentH s = true).

Lemma head_chunk e done p s acc fr n s' :
  e_head e = true -> head_inv s acc -> write_chunk e done p s = (fr, n, s') ->
  (if sentH s' then exists fl, acc ++ fr = [FH true fl] else acc ++ fr = []) /\ sentH s' = true.
Proof.
  intros Hh [Hi _] Hw.
  pose proof (write_chunk_head _ _ _ _ _ _ _ Hh Hw) as B.
  destruct (write_chunk_state _ _ _ _ _ _ _ Hw) as [C _]. rewrite C. split; [|reflexivity].
  destruct (sentH s).
  - subst fr. rewrite app_nil_r. exact Hi.
  - subst acc. exact B.
Qed.

Lemma head_flush e done s acc fr s' :
  e_head e = true -> head_inv s acc -> bw_flush e done s = (fr, s') -> head_inv s' (acc ++ fr).
Proof.
  intros Hh Hi. unfold bw_flush.
  destruct (berr s) eqn:Eb; [intro H; inversion H; subst; rewrite app_nil_r; exact Hi|].
  destruct (buf s) as [|b0 br] eqn:Ebuf; [intro H; inversion H; subst; rewrite app_nil_r; exact Hi|].
  destruct (write_chunk e done (b0 :: br) s) as [[fr1 n] s1] eqn:Ew.
  destruct (head_chunk _ _ _ _ _ _ _ _ Hh Hi Ew) as [B C].
  destruct (n <? blen (b0 :: br)); intro H; inversion H; subst;
    split; simpl; rewrite ?C in *; try exact B; intros _; reflexivity.
Qed.

Lemma head_write e : e_head e = true -> forall fuel p s acc fr s',
  head_inv s acc -> bw_write fuel e p s acc = Some (fr, s') -> head_inv s' fr.
Proof.
  intro Hh. induction fuel as [|f IH]; intros p s acc fr s' Hi; simpl.
  - destruct ((e_bsz e - blen (buf s) <? blen p) && negb (berr s)); [discriminate|].
    destruct (berr s) eqn:Eb; intro H; inversion H; subst; [exact Hi|].
    destruct Hi as [A B]. split; simpl; [exact A|discriminate].
  - destruct ((e_bsz e - blen (buf s) <? blen p) && negb (berr s)) eqn:Ec.
    + apply andb_true_iff in Ec. destruct Ec as [_ Ec]. apply negb_true_iff in Ec.
      destruct (buf s) as [|b0 br] eqn:Ebuf.
      * destruct (write_chunk e false p s) as [[fr1 n] s1] eqn:Ew.
        destruct (head_chunk _ _ _ _ _ _ _ _ Hh Hi Ew) as [B C].
        apply IH. split; [exact B|intros _; exact C].
      * destruct (bw_flush e false (set_buf s ((b0 :: br) ++ firstn (Z.to_nat (e_bsz e - blen (b0 :: br))) p) false))
          as [fr1 s1] eqn:Ef.
        assert (Hi' : head_inv (set_buf s ((b0 :: br) ++ firstn (Z.to_nat (e_bsz e - blen (b0 :: br))) p) false) acc)
          by (destruct Hi as [A B]; split; simpl; [exact A|discriminate]).
        apply IH. apply (head_flush _ _ _ _ _ _ Hh Hi' Ef).
    + destruct (berr s) eqn:Eb; intro H; inversion H; subst; [exact Hi|].
      destruct Hi as [A B]. split; simpl; [exact A|discriminate].
Qed.

(* ---------- scripts ---------- *)
Lemma do_flush_notdone e s fr s' :
  e_head e = false -> berr s = false -> do_flush e false s = (fr, s') -> no_end fr /\ berr s' = false.
Proof.
  intros Hh Hb. unfold do_flush. destruct (buf s) eqn:Ebuf.
  - destruct (write_chunk e false [] s) as [[fr1 n] s1] eqn:Ew. intro H; inversion H; subst.
    destruct (write_chunk_notdone _ _ _ _ _ _ Hh Ew) as [A _].
    destruct (write_chunk_state _ _ _ _ _ _ _ Ew) as [_ [_ D]]. split; [exact A|rewrite D; exact Hb].
  - apply bw_flush_notdone; assumption.
Qed.

Lemma step_notdone e o s fr s' res :
  e_head e = false -> berr s = false -> step e o s = (fr, s', res) -> no_end fr /\ berr s' = false.
Proof.
  intros Hh Hb. destruct o; cbn [step]; cbv zeta.
  - intro H; inversion H; subst. split; [apply no_end_nil|exact Hb].
  - intro H; inversion H; subst. split; [apply no_end_nil|exact Hb].
  - intro H; inversion H; subst. split; [apply no_end_nil|rewrite wh_berr; exact Hb].
  - destruct (negb (body_allowed (status (write_header e 200 s))));
      [intro H; inversion H; subst; split; [apply no_end_nil|rewrite wh_berr; exact Hb]|].
    match goal with |- context [if ?c then _ else _] => destruct c end;
      [intro H; inversion H; subst; split; [apply no_end_nil|simpl; rewrite wh_berr; exact Hb]|].
    match goal with |- context [bw_write fuel_write e p ?S []] =>
      destruct (bw_write fuel_write e p S []) as [[fr1 s1]|] eqn:Ew end;
      [|intro H; inversion H; subst; split; [apply no_end_nil|simpl; rewrite wh_berr; exact Hb]].
    intro H; inversion H; subst.
    eapply (bw_write_notdone e Hh); [| |exact Ew]; [simpl; rewrite wh_berr; exact Hb|apply no_end_nil].
  - destruct (do_flush e false s) as [fr1 s1] eqn:Ef. intro H; inversion H; subst.
    eapply do_flush_notdone; eassumption.
  - intro H; inversion H; subst. split; [apply no_end_nil|exact Hb].
Qed.

Lemma run_ops_notdone e : e_head e = false -> forall ops s fr s' res,
  berr s = false -> run_ops e ops s = (fr, s', res) -> no_end fr /\ berr s' = false.
Proof.
  intro Hh. induction ops as [|o r IH]; intros s fr s' res Hb; simpl.
  - intro H; inversion H; subst. split; [apply no_end_nil|exact Hb].
  - destruct (step e o s) as [[fr1 s1] res1] eqn:Es.
    destruct (run_ops e r s1) as [[fr2 s2] res2] eqn:Er. intro H; inversion H; subst.
    destruct (step_notdone _ _ _ _ _ _ Hh Hb Es) as [A B].
    destruct (IH _ _ _ _ B Er) as [C D]. split; [apply no_end_app; assumption|exact D].
Qed.

Lemma do_flush_head e done s acc fr s' :
  e_head e = true -> head_inv s acc -> do_flush e done s = (fr, s') -> head_inv s' (acc ++ fr).
Proof.
  intros Hh Hi. unfold do_flush. destruct (buf s) eqn:Ebuf.
  - destruct (write_chunk e done [] s) as [[fr1 n] s1] eqn:Ew. intro H; inversion H; subst.
    destruct (head_chunk _ _ _ _ _ _ _ _ Hh Hi Ew) as [B C]. split; [exact B|intros _; exact C].
  - apply head_flush; assumption.
Qed.

Lemma wh_head_inv e c s acc : head_inv s acc -> head_inv (write_header e c s) acc.
Proof. intros [A B]. split; rewrite ?wh_sentH, ?wh_berr; assumption. Qed.

Lemma bw_write_acc e : forall fuel p s0 a0 fr0 s0', bw_write fuel e p s0 a0 = Some (fr0, s0') ->
  forall pre, bw_write fuel e p s0 (pre ++ a0) = Some (pre ++ fr0, s0').
Proof.
  induction fuel as [|f IHf]; intros p0 s0 a0 fr0 s0' Hw pre; simpl in *.
  - destruct ((e_bsz e - blen (buf s0) <? blen p0) && negb (berr s0)); [discriminate|].
    destruct (berr s0); inversion Hw; subst; reflexivity.
  - destruct ((e_bsz e - blen (buf s0) <? blen p0) && negb (berr s0)).
    + destruct (buf s0).
      * destruct (write_chunk e false p0 s0) as [[x1 x2] x3]. specialize (IHf _ _ _ _ _ Hw pre).
        rewrite app_assoc in IHf. exact IHf.
      * destruct (bw_flush e false _) as [x1 x2]. specialize (IHf _ _ _ _ _ Hw pre).
        rewrite app_assoc in IHf. exact IHf.
    + destruct (berr s0); inversion Hw; subst; reflexivity.
Qed.

Lemma step_head e o s acc fr s' res :
  e_head e = true -> head_inv s acc -> step e o s = (fr, s', res) -> head_inv s' (acc ++ fr).
Proof.
  intros Hh Hi. destruct o; cbn [step]; cbv zeta.
  - intro H; inversion H; subst. rewrite app_nil_r. exact Hi.
  - intro H; inversion H; subst. rewrite app_nil_r. exact Hi.
  - intro H; inversion H; subst. rewrite app_nil_r. apply wh_head_inv, Hi.
  - destruct (negb (body_allowed (status (write_header e 200 s))));
      [intro H; inversion H; subst; rewrite app_nil_r; apply wh_head_inv, Hi|].
    match goal with |- context [if ?c then _ else _] => destruct c end;
      [intro H; inversion H; subst; rewrite app_nil_r; apply (wh_head_inv e 200 s acc Hi)|].
    match goal with |- context [bw_write fuel_write e p ?S []] =>
      destruct (bw_write fuel_write e p S []) as [[fr1 s1]|] eqn:Ew end;
      [|intro H; inversion H; subst; rewrite app_nil_r; apply (wh_head_inv e 200 s acc Hi)].
    intro H; inversion H; subst.
    pose proof (bw_write_acc e _ _ _ _ _ _ Ew acc) as G. rewrite app_nil_r in G.
    eapply (head_write e Hh); [|exact G]. apply (wh_head_inv e 200 s acc Hi).
  - destruct (do_flush e false s) as [fr1 s1] eqn:Ef. intro H; inversion H; subst.
    eapply do_flush_head; eassumption.
  - intro H; inversion H; subst. rewrite app_nil_r. exact Hi.
Qed.

Lemma run_ops_head e : e_head e = true -> forall ops s acc fr s' res,
  head_inv s acc -> run_ops e ops s = (fr, s', res) -> head_inv s' (acc ++ fr).
Proof.
  intro Hh. induction ops as [|o r IH]; intros s acc fr s' res Hi; simpl.
  - intro H; inversion H; subst. rewrite app_nil_r. exact Hi.
  - destruct (step e o s) as [[fr1 s1] res1] eqn:Es.
    destruct (run_ops e r s1) as [[fr2 s2] res2] eqn:Er. intro H; inversion H; subst.
    rewrite app_assoc. eapply IH; [|exact Er]. eapply step_head; eassumption.
Qed.

(* ---------- the headline theorem ---------- *)
Theorem end_stream_exactly_once_and_last e ops : ends_once (frames_of e ops).
Proof.
  unfold frames_of, run_handler.
  destruct (run_ops e ops rws0) as [[fr1 s1] res1] eqn:Er.
  destruct (do_flush e true s1) as [fr2 s2] eqn:Ef. simpl.
  destruct (e_head e) eqn:Hh.
  - (* HEAD *)
    assert (Hi0 : head_inv rws0 []) by (split; simpl; [reflexivity|discriminate]).
    pose proof (run_ops_head e Hh ops rws0 [] fr1 s1 res1 Hi0 Er) as Hi1. simpl in Hi1.
    destruct (do_flush_head _ _ _ _ _ _ Hh Hi1 Ef) as [B C].
    assert (Hs : sentH s2 = true).
    { (* the final flush either calls write_chunk (sentH becomes true) or finds the sticky error (sentH already true) *)
      unfold do_flush in Ef. destruct (buf s1) as [|z0 l0] eqn:Ebuf.
      - destruct (write_chunk e true [] s1) as [[x1 x2] x3] eqn:Ew. inversion Ef; subst.
        destruct (write_chunk_state _ _ _ _ _ _ _ Ew) as [D _]. exact D.
      - unfold bw_flush in Ef. rewrite Ebuf in Ef. destruct (berr s1) eqn:Eb.
        + inversion Ef; subst. destruct Hi1 as [_ D]. apply D. exact Eb.
        + destruct (write_chunk e true (z0 :: l0) s1) as [[x1 x2] x3] eqn:Ew.
          destruct (write_chunk_state _ _ _ _ _ _ _ Ew) as [D _].
          destruct (x2 <? blen (z0 :: l0)); inversion Ef; subst; simpl; exact D. }
    rewrite Hs in B. destruct B as [fl B]. exists [], (FH true fl). rewrite B.
    split; [reflexivity|]. split; [apply no_end_nil|reflexivity].
  - (* GET *)
    destruct (run_ops_notdone e Hh ops rws0 fr1 s1 res1 eq_refl Er) as [A B].
    assert (Hd : ends_once fr2).
    { unfold do_flush in Ef. destruct (buf s1) as [|z0 l0] eqn:Ebuf.
      - destruct (write_chunk e true [] s1) as [[x1 x2] x3] eqn:Ew. inversion Ef; subst.
        apply (write_chunk_done _ _ _ _ _ _ Hh Ew).
      - unfold bw_flush in Ef. rewrite B, Ebuf in Ef.
        destruct (write_chunk e true (z0 :: l0) s1) as [[x1 x2] x3] eqn:Ew.
        pose proof (write_chunk_done _ _ _ _ _ _ Hh Ew) as Hd.
        destruct (x2 <? blen (z0 :: l0)); inversion Ef; subst; exact Hd. }
    destruct Hd as [pre [l [E [Hp Hl]]]]. exists (fr1 ++ pre), l. rewrite E, app_assoc.
    split; [reflexivity|]. split; [apply no_end_app; assumption|exact Hl].
Qed.

(* witnesses *)
Definition b_Trailer := s_Trailer.
Definition b_Foo := [70;111;111].
Definition b_hi := [104;105].
Definition b_Connection := [67;111;110;110;101;99;116;105;111;110].
Definition b_close := [99;108;111;115;101].
Definition env_get := mkE false 4096 [b_Connection] false 0 BIG BIG.

(* Trailer: Foo declared, Foo never set (the class that used to lose END_STREAM): the stream now ends with an empty
   DATA frame *)
Lemma unset_trailer_witness :
  let ops := [OSet b_Trailer b_Foo; OWrite b_hi] in
  exists fl, frames_of env_get ops = [FH false fl; FD false b_hi; FD true []].
Proof. vm_compute. eexists. reflexivity. Qed.

(* the same handler that also sets Foo ends with a trailers HEADERS frame carrying END_STREAM *)
Lemma trailers_witness :
  let ops := [OSet b_Trailer b_Foo; OWrite b_hi; OSet b_Foo b_close] in
  exists fl, frames_of env_get ops = [FH false fl; FD false b_hi; FH true [(to_lower b_Foo, b_close)]].
Proof. vm_compute. eexists. reflexivity. Qed.

(* a declared trailer named Connection (used to be sent) is dropped *)
Lemma conn_trailer_witness :
  let ops := [OSet b_Trailer b_Connection; OWrite b_hi; OSet b_Connection b_close] in
  exists fl, frames_of env_get ops = [FH false fl; FD false b_hi; FD true []]
  /\ mem_bytes (to_lower b_Connection) (map fst fl) = false.
Proof. vm_compute. eexists. split; reflexivity. Qed.

(* ---------- body_exact: DATA payloads = the bytes whose Write returned nil ---------- *)
Definition data_of (fs : list frame) : bytes := concat (map f_data fs).
Lemma data_app a b : data_of (a ++ b) = data_of a ++ data_of b.
Proof. unfold data_of. rewrite map_app, concat_app. reflexivity. Qed.

Lemma blen_nil p : blen p = 0 -> p = [].
Proof. unfold blen. destruct p; [reflexivity|simpl; lia]. Qed.

Lemma body_frames_data e done p s1 fr s2 :
  body_frames e done p s1 = (fr, s2) -> data_of fr = p.
Proof.
  unfold body_frames.
  destruct (if done then promote (e_perm e) (hh s1) (trailers s1) else (hh s1, trailers s1)) as [h2 tr2].
  set (es := done && negb match tr2 with [] => false | _ => true end).
  assert (Hfr2 : data_of (if (0 <? blen p) || es then [FD es p] else []) = p).
  { destruct (0 <? blen p) eqn:E; cbn [orb].
    - unfold data_of. simpl. apply app_nil_r.
    - apply Z.ltb_ge in E. assert (p = []) by (apply blen_nil; unfold blen in *; lia). subst p.
      destruct es; reflexivity. }
  destruct (done && match tr2 with [] => false | _ => true end).
  - destruct (encode_trailers (e_hop e) h2 tr2); intro H; inversion H; subst;
      rewrite data_app, Hfr2; unfold data_of; simpl; rewrite app_nil_r; reflexivity.
  - intro H; inversion H; subst. exact Hfr2.
Qed.

Lemma write_chunk_data e done p s fr n s' :
  e_head e = false -> write_chunk e done p s = (fr, n, s') -> data_of fr = p.
Proof.
  intro Hh. unfold write_chunk. rewrite Hh.
  set (s0 := write_header e 200 s).
  destruct (sentH s0) eqn:Es0.
  - cbn iota beta.
    destruct ((blen p =? 0) && negb done) eqn:Ec.
    + intro H; inversion H; subst. apply andb_true_iff in Ec. destruct Ec as [Ec _]. apply Z.eqb_eq in Ec.
      symmetry. apply blen_nil, Ec.
    + destruct (body_frames e done p s0) as [fr2 s2] eqn:Eb. intro H; inversion H; subst.
      apply (body_frames_data _ _ _ _ _ _ Eb).
  - destruct (first_headers e done p s0) as [[f s1] es] eqn:Ef.
    destruct (first_headers_shape _ _ _ _ _ _ _ Ef) as [[fl Hf] [_ [_ [_ Hes]]]]. subst f.
    destruct es.
    + intro H; inversion H; subst. rewrite Hh, orb_false_r in Hes. symmetry in Hes.
      apply andb_true_iff in Hes. destruct Hes as [_ Hes]. apply Z.eqb_eq in Hes. symmetry. apply blen_nil, Hes.
    + destruct ((blen p =? 0) && negb done) eqn:Ec.
      * intro H; inversion H; subst. apply andb_true_iff in Ec. destruct Ec as [Ec _]. apply Z.eqb_eq in Ec.
        symmetry. apply blen_nil, Ec.
      * destruct (body_frames e done p s1) as [fr2 s2] eqn:Eb. intro H; inversion H; subst.
        change (data_of ([FH false fl] ++ fr2) = p). rewrite data_app. apply (body_frames_data _ _ _ _ _ _ Eb).
Qed.

Lemma bw_flush_data e done s fr s' :
  e_head e = false -> berr s = false -> bw_flush e done s = (fr, s') ->
  data_of fr = buf s /\ (done = false -> buf s' = [] /\ berr s' = false).
Proof.
  intros Hh Hb. unfold bw_flush. rewrite Hb.
  destruct (buf s) as [|b0 br] eqn:Ebuf.
  - intro H; inversion H; subst. split; [reflexivity|]. intros _. split; assumption.
  - destruct (write_chunk e done (b0 :: br) s) as [[fr1 n] s1] eqn:Ew.
    pose proof (write_chunk_data _ _ _ _ _ _ _ Hh Ew) as Hd.
    destruct (n <? blen (b0 :: br)) eqn:En; intro H; inversion H; subst; (split; [exact Hd|]).
    + intros ->. destruct (write_chunk_notdone _ _ _ _ _ _ Hh Ew) as [_ B]. rewrite B, Z.ltb_irrefl in En. discriminate.
    + intros _. split; reflexivity.
Qed.

Lemma skipn_blen p : skipn (Z.to_nat (blen p)) p = [].
Proof. unfold blen. rewrite Nat2Z.id. apply skipn_all. Qed.

Lemma bw_write_data e : e_head e = false -> forall fuel p s acc fr s',
  berr s = false -> bw_write fuel e p s acc = Some (fr, s') ->
  data_of fr ++ buf s' = data_of acc ++ buf s ++ p.
Proof.
  intro Hh. induction fuel as [|f IH]; intros p s acc fr s' Hb; simpl; rewrite Hb; simpl.
  - destruct (e_bsz e - blen (buf s) <? blen p); [discriminate|].
    intro H; inversion H; subst. reflexivity.
  - destruct (e_bsz e - blen (buf s) <? blen p).
    + simpl. destruct (buf s) as [|b0 br] eqn:Ebuf.
      * destruct (write_chunk e false p s) as [[fr1 n] s1] eqn:Ew.
        destruct (write_chunk_notdone _ _ _ _ _ _ Hh Ew) as [_ B].
        destruct (write_chunk_state _ _ _ _ _ _ _ Ew) as [_ [C D]].
        pose proof (write_chunk_data _ _ _ _ _ _ _ Hh Ew) as Hd.
        intro Hw. apply IH in Hw; [|rewrite D; exact Hb].
        rewrite Hw, data_app, Hd, C, Ebuf, B, skipn_blen. simpl. rewrite !app_nil_r. reflexivity.
      * set (n := Z.to_nat (e_bsz e - blen (b0 :: br))).
        destruct (bw_flush e false (set_buf s ((b0 :: br) ++ firstn n p) false)) as [fr1 s1] eqn:Ef.
        destruct (bw_flush_data e false _ fr1 s1 Hh (eq_refl : berr (set_buf s _ false) = false) Ef) as [Hd Hs].
        destruct (Hs eq_refl) as [Hs1 Hs2]. simpl in Hd.
        intro Hw. apply IH in Hw; [|exact Hs2].
        rewrite Hw, data_app, Hd, Hs1. simpl.
        rewrite <- !app_assoc. simpl. rewrite <- app_assoc, firstn_skipn. reflexivity.
    + simpl. intro H; inversion H; subst. simpl. reflexivity.
Qed.

(* state + frames + results so far, against the payloads of the Write operations so far *)
Lemma step_data e o s fr s' res :
  e_head e = false -> berr s = false -> step e o s = (fr, s', res) ->
  data_of fr ++ buf s' = buf s ++ accepted (write_payloads [o]) res
  /\ length res = length (write_payloads [o]).
Proof.
  intros Hh Hb. destruct o; cbn [step]; cbv zeta.
  - intro H; inversion H; subst. simpl. rewrite app_nil_r. split; reflexivity.
  - intro H; inversion H; subst. simpl. rewrite app_nil_r. split; reflexivity.
  - intro H; inversion H; subst. simpl. rewrite wh_buf, app_nil_r. split; reflexivity.
  - destruct (negb (body_allowed (status (write_header e 200 s))));
      [intro H; inversion H; subst; simpl; rewrite wh_buf, !app_nil_r; split; reflexivity|].
    match goal with |- context [if ?c then _ else _] => destruct c end;
      [intro H; inversion H; subst; simpl; rewrite wh_buf, !app_nil_r; split; reflexivity|].
    match goal with |- context [bw_write fuel_write e p ?S []] =>
      destruct (bw_write fuel_write e p S []) as [[fr1 s1]|] eqn:Ew end;
      [|intro H; inversion H; subst; simpl; rewrite wh_buf, !app_nil_r; split; reflexivity].
    intro H; inversion H; subst.
    assert (Hb' : berr (set_wroteB (write_header e 200 s) (wroteB (write_header e 200 s) + blen p)) = false)
      by (simpl; rewrite wh_berr; exact Hb).
    pose proof (bw_write_data e Hh _ _ _ _ _ _ Hb' Ew) as Hd.
    destruct (bw_write_notdone e Hh _ _ _ _ _ _ Hb' no_end_nil Ew) as [_ Hbe]. rewrite Hbe.
    simpl in *. rewrite wh_buf in Hd. rewrite Hd, !app_nil_r. split; reflexivity.
  - destruct (do_flush e false s) as [fr1 s1] eqn:Ef. intro H; inversion H; subst. simpl. rewrite app_nil_r.
    split; [|reflexivity].
    unfold do_flush in Ef. destruct (buf s) as [|z0 l0] eqn:Ebuf.
    + destruct (write_chunk e false [] s) as [[x1 x2] x3] eqn:Ew. inversion Ef; subst.
      destruct (write_chunk_state _ _ _ _ _ _ _ Ew) as [_ [C _]].
      rewrite (write_chunk_data _ _ _ _ _ _ _ Hh Ew), C, Ebuf. reflexivity.
    + destruct (bw_flush_data _ _ _ _ _ Hh Hb Ef) as [Hd Hs]. destruct (Hs eq_refl) as [Hs1 _].
      rewrite Hd, Hs1, Ebuf, app_nil_r. reflexivity.
  - intro H; inversion H; subst. simpl. rewrite app_nil_r. split; reflexivity.
Qed.

Lemma accepted_app w1 r1 w2 r2 :
  length r1 = length w1 -> accepted (w1 ++ w2) (r1 ++ r2) = accepted w1 r1 ++ accepted w2 r2.
Proof.
  revert r1. induction w1 as [|w w1 IH]; intros [|r r1] Hl; simpl in *; try discriminate; [reflexivity|].
  rewrite IH by lia. rewrite app_assoc. reflexivity.
Qed.

Lemma run_ops_data e : e_head e = false -> forall ops s fr s' res,
  berr s = false -> run_ops e ops s = (fr, s', res) ->
  data_of fr ++ buf s' = buf s ++ accepted (write_payloads ops) res
  /\ length res = length (write_payloads ops).
Proof.
  intro Hh. induction ops as [|o r IH]; intros s fr s' res Hb; simpl.
  - intro H; inversion H; subst. simpl. rewrite app_nil_r. split; reflexivity.
  - destruct (step e o s) as [[fr1 s1] res1] eqn:Es.
    destruct (run_ops e r s1) as [[fr2 s2] res2] eqn:Er. intro H; inversion H; subst.
    destruct (step_notdone _ _ _ _ _ _ Hh Hb Es) as [_ B].
    destruct (step_data _ _ _ _ _ _ Hh Hb Es) as [D1 L1].
    destruct (IH _ _ _ _ B Er) as [D2 L2].
    change (write_payloads (o :: r)) with (write_payloads [o] ++ write_payloads r) in *.
    simpl in L1, D1. rewrite app_nil_r in L1, D1.
    split; [|rewrite !app_length; lia].
    rewrite accepted_app by exact L1.
    rewrite data_app, <- app_assoc, D2, app_assoc, D1, <- app_assoc. reflexivity.
Qed.

Theorem body_exact e ops fr res s :
  run_handler e ops = (fr, res, s) ->
  length res = length (write_payloads ops) /\
  data_of fr = if e_head e then [] else accepted (write_payloads ops) res.
Proof.
  unfold run_handler.
  destruct (run_ops e ops rws0) as [[fr1 s1] res1] eqn:Er.
  destruct (do_flush e true s1) as [fr2 s2] eqn:Ef.
  intro H; inversion H; subst. clear H.
  destruct (e_head e) eqn:Hh.
  - (* HEAD: the only frame is HEADERS *)
    pose proof (end_stream_exactly_once_and_last e ops) as He. unfold frames_of, run_handler in He.
    rewrite Er, Ef in He. simpl in He.
    assert (Hi0 : head_inv rws0 []) by (split; simpl; [reflexivity|discriminate]).
    pose proof (run_ops_head e Hh ops rws0 [] fr1 s1 res Hi0 Er) as Hi1. simpl in Hi1.
    destruct (do_flush_head _ _ _ _ _ _ Hh Hi1 Ef) as [B _].
    split.
    + (* results: one per Write, independent of the request method *)
      clear -Er. revert Er. generalize rws0. revert fr1 s1 res.
      induction ops as [|o r IH]; intros fr1 s1 res s0; simpl.
      * intro H; inversion H; reflexivity.
      * destruct (step e o s0) as [[f1 t1] r1] eqn:Es. destruct (run_ops e r t1) as [[f2 t2] r2] eqn:Er2.
        intro H; inversion H; subst. rewrite app_length. rewrite (IH _ _ _ _ Er2).
        change (write_payloads (o :: r)) with (write_payloads [o] ++ write_payloads r). rewrite app_length.
        f_equal. destruct o; cbn [step] in Es; cbv zeta in Es.
        -- inversion Es; reflexivity.
        -- inversion Es; reflexivity.
        -- inversion Es; reflexivity.
        -- destruct (negb (body_allowed (status (write_header e 200 s0)))); [inversion Es; reflexivity|].
           match type of Es with context [if ?c then _ else _] => destruct c end; [inversion Es; reflexivity|].
           match type of Es with context [bw_write fuel_write e p ?S []] =>
             destruct (bw_write fuel_write e p S []) as [[x1 x2]|] end; inversion Es; reflexivity.
        -- destruct (do_flush e false s0) as [x1 x2]. inversion Es; reflexivity.
        -- inversion Es; reflexivity.
    + destruct (sentH s); [destruct B as [fl B]; rewrite B; reflexivity|rewrite B; reflexivity].
  - destruct (run_ops_notdone e Hh ops rws0 fr1 s1 res eq_refl Er) as [_ B].
    destruct (run_ops_data e Hh ops rws0 fr1 s1 res eq_refl Er) as [D L]. simpl in D.
    split; [exact L|]. rewrite data_app, <- D. f_equal.
    unfold do_flush in Ef. destruct (buf s1) as [|z0 l0] eqn:Ebuf.
    + destruct (write_chunk e true [] s1) as [[x1 x2] x3] eqn:Ew. inversion Ef; subst.
      apply (write_chunk_data _ _ _ _ _ _ _ Hh Ew).
    + destruct (bw_flush_data _ _ _ _ _ Hh B Ef) as [Hd _]. rewrite Hd, Ebuf. reflexivity.
Qed.

(* ---------- connection_specific_removed ---------- *)
Ltac bsolve :=
  repeat match goal with
         | |- context [if ?b then _ else _] => destruct b eqn:?
         | H : context [if ?b then _ else _] |- _ => destruct b eqn:?
         end;
  repeat match goal with
         | H : (_ && _) = true |- _ => apply andb_true_iff in H; destruct H
         | H : (_ && _) = false |- _ => apply andb_false_iff in H; destruct H
         | H : (_ <=? _) = true |- _ => apply Z.leb_le in H
         | H : (_ <=? _) = false |- _ => apply Z.leb_gt in H
         end; try lia; try reflexivity.

Lemma upper_lower c : upper_byte (lower_byte c) = upper_byte c.
Proof. unfold upper_byte, lower_byte. bsolve. Qed.
Lemma lower_lower c : lower_byte (lower_byte c) = lower_byte c.
Proof. unfold lower_byte. bsolve. Qed.
Lemma upper_upper c : upper_byte (upper_byte c) = upper_byte c.
Proof. unfold upper_byte. bsolve. Qed.
Lemma lower_upper c : lower_byte (upper_byte c) = lower_byte c.
Proof. unfold upper_byte, lower_byte. bsolve. Qed.

Lemma is_tchar_lower c : is_tchar (lower_byte c) = is_tchar c.
Proof.
  unfold lower_byte. destruct ((65 <=? c) && (c <=? 90)) eqn:E; [|reflexivity].
  apply andb_true_iff in E. destruct E as [E1 E2]. apply Z.leb_le in E1. apply Z.leb_le in E2.
  unfold is_tchar, is_upper, is_lower.
  assert (A : (65 <=? c) && (c <=? 90) = true) by (apply andb_true_iff; split; apply Z.leb_le; lia).
  assert (B : (97 <=? c + 32) && (c + 32 <=? 122) = true) by (apply andb_true_iff; split; apply Z.leb_le; lia).
  rewrite A, B. simpl. rewrite orb_true_r. reflexivity.
Qed.
Lemma is_tchar_upper c : is_tchar (upper_byte c) = is_tchar c.
Proof.
  unfold upper_byte. destruct ((97 <=? c) && (c <=? 122)) eqn:E; [|reflexivity].
  apply andb_true_iff in E. destruct E as [E1 E2]. apply Z.leb_le in E1. apply Z.leb_le in E2.
  unfold is_tchar, is_upper, is_lower.
  assert (A : (97 <=? c) && (c <=? 122) = true) by (apply andb_true_iff; split; apply Z.leb_le; lia).
  assert (B : (65 <=? c - 32) && (c - 32 <=? 90) = true) by (apply andb_true_iff; split; apply Z.leb_le; lia).
  rewrite A, B. simpl. rewrite orb_true_r. reflexivity.
Qed.

Lemma tchar_to_lower s : forallb is_tchar (to_lower s) = forallb is_tchar s.
Proof. unfold to_lower. induction s as [|c r IH]; simpl; [reflexivity|]. rewrite is_tchar_lower, IH. reflexivity. Qed.

Lemma canon_go_lower s : forall up, canon_go up (to_lower s) = canon_go up s.
Proof.
  unfold to_lower. induction s as [|c r IH]; intro up; simpl; [reflexivity|].
  destruct up; rewrite ?upper_lower, ?lower_lower, IH; reflexivity.
Qed.

Lemma canon_go_tchar s : forall up, forallb is_tchar (canon_go up s) = forallb is_tchar s.
Proof.
  induction s as [|c r IH]; intro up; simpl; [reflexivity|].
  destruct up; rewrite ?is_tchar_upper, ?is_tchar_lower, IH; reflexivity.
Qed.
Lemma canon_go_idem s : forall up, canon_go up (canon_go up s) = canon_go up s.
Proof.
  induction s as [|c r IH]; intro up; simpl; [reflexivity|].
  destruct up; rewrite ?upper_upper, ?lower_lower, IH; reflexivity.
Qed.

Definition canonical (k : bytes) : Prop := canon k = k.
Lemma canon_idem k : canonical (canon k).
Proof.
  unfold canonical, canon. destruct (forallb is_tchar k) eqn:E.
  - rewrite canon_go_tchar, E. apply canon_go_idem.
  - rewrite E. reflexivity.
Qed.

Lemma mem_bytes_In k l : mem_bytes k l = true <-> In k l.
Proof.
  unfold mem_bytes. rewrite existsb_exists. split.
  - intros [x [Hx He]]. apply bytes_eqb_eq in He. subst. exact Hx.
  - intro H. exists k. split; [exact H|apply bytes_eqb_eq; reflexivity].
Qed.

(* the hop list covers the connection-specific fields (true of HopHeaders) *)
Definition hop_ok (hop : list bytes) : Prop :=
  forallb (fun c => mem_bytes (canon c) hop) conn_specific = true.

Lemma conn_specific_tchar c : In c conn_specific -> forallb is_tchar c = true.
Proof. intro H. repeat (destruct H as [<-|H]; [vm_compute; reflexivity|]). destruct H. Qed.

Lemma not_conn hop k :
  hop_ok hop -> mem_bytes (canon k) hop = false -> mem_bytes (to_lower k) conn_specific = false.
Proof.
  intros Hh Hn. destruct (mem_bytes (to_lower k) conn_specific) eqn:E; [|reflexivity].
  exfalso. apply mem_bytes_In in E.
  pose proof (conn_specific_tchar _ E) as Ht. rewrite tchar_to_lower in Ht.
  unfold hop_ok in Hh. rewrite forallb_forall in Hh. specialize (Hh _ E).
  assert (Hk : canon (to_lower k) = canon k).
  { unfold canon. rewrite tchar_to_lower, Ht. apply canon_go_lower. }
  rewrite Hk, Hn in Hh. discriminate.
Qed.

Definition frame_ok (f : frame) : Prop := match f with FH _ fl => fields_ok fl = true | FD _ _ => True end.
Definition frames_ok (fs : list frame) : Prop := forall f, In f fs -> frame_ok f.
Lemma frames_ok_nil : frames_ok []. Proof. intros f []. Qed.
Lemma frames_ok_app a b : frames_ok a -> frames_ok b -> frames_ok (a ++ b).
Proof. intros Ha Hb f Hf. apply in_app_or in Hf. destruct Hf; auto. Qed.
Lemma frames_ok_one f : frame_ok f -> frames_ok [f].
Proof. intros H g [<-|[]]. exact H. Qed.

Lemma fields_ok_app a b : fields_ok (a ++ b) = fields_ok a && fields_ok b.
Proof. unfold fields_ok. apply forallb_app. Qed.

Lemma valid_name_no_upper k : valid_name k = true -> no_upper k = true.
Proof.
  unfold valid_name, no_upper. destruct k as [|c r]; [discriminate|]. intro H.
  rewrite forallb_forall in *. intros x Hx. specialize (H x Hx).
  apply andb_true_iff in H. destruct H as [H _]. apply andb_true_iff in H. destruct H as [_ H]. exact H.
Qed.

Lemma enc_key_ok h k : mem_bytes (to_lower k) conn_specific = false -> fields_ok (enc_key h k) = true.
Proof.
  intro Hn. unfold enc_key. destruct (valid_name (to_lower k)) eqn:Ev; [|reflexivity].
  apply valid_name_no_upper in Ev.
  assert (Hone : forall v, fields_ok [(to_lower k, v)] = true).
  { intro v. unfold fields_ok. cbn [forallb fst]. rewrite Ev, Hn. reflexivity. }
  induction (hget h k) as [|v r IH]; [reflexivity|]. cbn [flat_map].
  rewrite fields_ok_app, IH, andb_true_r.
  match goal with |- context [if ?c then _ else _] => destruct c end; [apply Hone|reflexivity].
Qed.

Lemma encode_ok h keys :
  (forall k, In k keys -> mem_bytes (to_lower k) conn_specific = false) -> fields_ok (encode_headers h keys) = true.
Proof.
  unfold encode_headers. induction keys as [|k r IH]; intro H; [reflexivity|]. simpl.
  rewrite fields_ok_app, enc_key_ok, IH; [reflexivity| |]; [intros x Hx; apply H; right; exact Hx|apply H; left; reflexivity].
Qed.

Lemma insert_sorted_In x k l : In x (insert_sorted k l) -> x = k \/ In x l.
Proof.
  induction l as [|y r IH]; simpl; [intros [<-|[]]; left; reflexivity|].
  destruct (bytes_ltb y k); simpl.
  - intros [<-|H]; [right; left; reflexivity|]. destruct (IH H) as [->|H']; [left; reflexivity|right; right; exact H'].
  - intros [<-|H]; [left; reflexivity|right; exact H].
Qed.
Lemma sort_keys_In x l : In x (sort_keys l) -> In x l.
Proof.
  unfold sort_keys. induction l as [|k r IH]; simpl; [intros []|].
  intro H. apply insert_sorted_In in H. destruct H as [->|H]; [left; reflexivity|right; apply IH, H].
Qed.

(* state invariant: no key of the snapshot has a canonical form in the hop list; declared trailers are canonical *)
Definition st_ok (hop : list bytes) (s : rws) : Prop :=
  Forall (fun k => mem_bytes (canon k) hop = false) (hkeys (snap s))
  /\ Forall canonical (trailers s).

Lemma filter_keys (f : bytes * list bytes -> bool) h x : In x (hkeys (filter f h)) -> In x (hkeys h) /\ exists vv, f (x, vv) = true.
Proof.
  unfold hkeys. rewrite !in_map_iff. intros [[k vv] [<- Hin]]. apply filter_In in Hin. destruct Hin as [Hin Hf].
  split; [exists (k, vv); split; [reflexivity|exact Hin]|exists vv; exact Hf].
Qed.

Lemma write_header_ok e c s : st_ok (e_hop e) s -> st_ok (e_hop e) (write_header e c s).
Proof.
  intros [B C]. unfold write_header. destruct (wroteH s); [split; [exact B|exact C]|].
  split; [|exact C]. simpl.
  destruct (hh s) as [|x r] eqn:Eh; [exact B|]. rewrite <- Eh in *.
  apply Forall_forall. intros k Hk. unfold clone_header in Hk. apply filter_keys in Hk. destruct Hk as [Hin [vv Hf]].
  simpl in Hf. apply negb_true_iff in Hf. exact Hf.
Qed.

Lemma declare_canon tr k : Forall canonical tr -> Forall canonical (declare_trailer tr k).
Proof.
  intro H. unfold declare_trailer.
  destruct (mem_bytes (canon k) [s_TransferEncoding; s_ContentLength; s_Trailer]); [exact H|].
  destruct (mem_bytes (canon k) tr); [exact H|]. apply Forall_app. split; [exact H|]. constructor; [apply canon_idem|constructor].
Qed.
Lemma declare_fold_canon l : forall tr, Forall canonical tr -> Forall canonical (fold_left declare_trailer l tr).
Proof. induction l as [|k r IH]; intros tr H; simpl; [exact H|]. apply IH, declare_canon, H. Qed.
Lemma declare_snapshot_canon snp tr : Forall canonical tr -> Forall canonical (declare_from_snapshot snp tr).
Proof.
  unfold declare_from_snapshot. generalize (hget snp s_Trailer) as vs. intro vs. revert tr.
  induction vs as [|v r IH]; intros tr H; simpl; [exact H|]. apply IH, declare_fold_canon, H.
Qed.

Lemma const_fields_ok :
  fields_ok [(s_content_type, [])] = true /\ fields_ok [(s_date, [])] = true
  /\ (forall v, fields_ok [(s_content_length, v)] = true) /\ (forall v, fields_ok [(s_status, v)] = true).
Proof. repeat split; intros; vm_compute; reflexivity. Qed.

Lemma first_headers_ok e done p s f s1 es :
  hop_ok (e_hop e) -> st_ok (e_hop e) s -> first_headers e done p s = (f, s1, es) ->
  frame_ok f /\ st_ok (e_hop e) s1.
Proof.
  intros Hhop [B C]. unfold first_headers. cbv zeta.
  match goal with |- (match ?X with pair _ _ => _ end) = _ -> _ => destruct X as [[snp scl] clen1] eqn:EX end.
  assert (Hsnp : Forall (fun k => mem_bytes (canon k) (e_hop e) = false) (hkeys snp)).
  { assert (Hsub : forall x, In x (hkeys snp) -> In x (hkeys (snap s))).
    { destruct (hfirst (snap s) s_ContentLength); [inversion EX; subst; auto|].
      destruct (parse_int64 (z :: b)) as [n|]; [destruct (0 <=? n)|]; inversion EX; subst;
        intros x Hx; apply filter_keys in Hx; apply Hx. }
    apply Forall_forall. intros x Hx. rewrite Forall_forall in B. apply B, Hsub, Hx. }
  intro H. inversion H; subst. clear H. split.
  - destruct const_fields_ok as [K1 [K2 [K3 K4]]]. simpl. rewrite !fields_ok_app.
    assert (E1 : fields_ok (status_field (status s)) = true)
      by (unfold status_field; destruct (status s =? 0); [reflexivity|apply K4]).
    assert (E2 : fields_ok (encode_headers snp (sort_keys (hkeys snp))) = true).
    { apply encode_ok. intros k Hk. apply sort_keys_In in Hk. rewrite Forall_forall in Hsnp.
      eapply not_conn; [exact Hhop|apply Hsnp, Hk]. }
    rewrite E1, E2. simpl.
    repeat match goal with |- context [if ?c then _ else _] => destruct c end;
      repeat match goal with |- context [match ?c with [] => _ | _ => _ end] => destruct c end;
      rewrite ?K1, ?K2, ?K3; reflexivity.
  - split; [exact Hsnp|]. simpl. apply declare_snapshot_canon, C.
Qed.

Lemma promote_ok n h tr :
  Forall canonical tr -> Forall canonical (snd (promote n h tr)).
Proof.
  intros Ht. unfold promote.
  assert (G : forall l (acc : hmap * list bytes), Forall canonical (snd acc) ->
    let r := fold_left (fun (acc : hmap * list bytes) (e : bytes * list bytes) =>
      let '(k, vv) := e in
      if is_prefix s_TrailerPrefix k then (hput (fst acc) (canon (skipn 8 k)) vv, declare_trailer (snd acc) (skipn 8 k))
      else acc) l acc in
    Forall canonical (snd r)).
  { induction l as [|[k vv] r IH]; intros acc B; cbn [fold_left]; [assumption|].
    apply IH; destruct (is_prefix s_TrailerPrefix k); cbn [fst snd]; try assumption.
    apply declare_canon, B. }
  specialize (G (perm_nth n (filter (fun e => is_prefix s_TrailerPrefix (fst e)) h)) (h, tr) Ht). cbv zeta in G.
  destruct (fold_left _ (perm_nth n (filter (fun e => is_prefix s_TrailerPrefix (fst e)) h)) (h, tr)) as [h' tr'] eqn:E. simpl in G. simpl.
  destruct tr' as [|a [|b r]]; try exact G.
  apply Forall_forall. intros x Hx. apply sort_keys_In in Hx. rewrite Forall_forall in G. apply G, Hx.
Qed.

Lemma body_frames_ok e done p s1 fr s2 :
  hop_ok (e_hop e) -> st_ok (e_hop e) s1 -> body_frames e done p s1 = (fr, s2) ->
  frames_ok fr /\ st_ok (e_hop e) s2.
Proof.
  intros Hhop [B C]. unfold body_frames.
  assert (P2 : Forall canonical (snd (if done then promote (e_perm e) (hh s1) (trailers s1) else (hh s1, trailers s1))))
    by (destruct done; [apply promote_ok; assumption|assumption]).
  destruct (if done then promote (e_perm e) (hh s1) (trailers s1) else (hh s1, trailers s1)) as [h2 tr2]. simpl in P2.
  assert (Hfr2 : forall es, frames_ok (if (0 <? blen p) || es then [FD es p] else []))
    by (intro es; destruct ((0 <? blen p) || es); [apply frames_ok_one; exact I|apply frames_ok_nil]).
  assert (Hst : st_ok (e_hop e) (mkR h2 (wroteH s1) (status s1) (snap s1) (sentH s1) tr2 (sentCL s1) (wroteB s1) (buf s1) (berr s1)))
    by (split; [exact B|exact P2]).
  destruct (done && match tr2 with [] => false | _ => true end).
  - destruct (encode_trailers (e_hop e) h2 tr2) as [|f0 fl] eqn:Ee; intro H; inversion H; subst; (split; [|exact Hst]).
    + apply frames_ok_app; [apply Hfr2|apply frames_ok_one; exact I].
    + apply frames_ok_app; [apply Hfr2|apply frames_ok_one]. unfold frame_ok. rewrite <- Ee.
      unfold encode_trailers. apply encode_ok. intros k Hk. apply filter_In in Hk. destruct Hk as [Hk Hn].
      apply negb_true_iff in Hn. rewrite Forall_forall in P2. eapply not_conn; [exact Hhop|].
      rewrite (P2 _ Hk). exact Hn.
  - intro H; inversion H; subst. split; [apply Hfr2|exact Hst].
Qed.

Lemma write_chunk_ok e done p s fr n s' :
  hop_ok (e_hop e) -> st_ok (e_hop e) s -> write_chunk e done p s = (fr, n, s') ->
  frames_ok fr /\ st_ok (e_hop e) s'.
Proof.
  intros Hhop Hs. unfold write_chunk.
  pose proof (write_header_ok e 200 s Hs) as Hs0. set (s0 := write_header e 200 s) in *.
  destruct (sentH s0).
  - cbn iota beta.
    destruct (e_head e); [intro H; inversion H; subst; split; [apply frames_ok_nil|exact Hs0]|].
    destruct ((blen p =? 0) && negb done); [intro H; inversion H; subst; split; [apply frames_ok_nil|exact Hs0]|].
    destruct (body_frames e done p s0) as [fr2 s2] eqn:Eb. intro H; inversion H; subst.
    apply (body_frames_ok _ _ _ _ _ _ Hhop Hs0 Eb).
  - destruct (first_headers e done p s0) as [[f s1] es] eqn:Ef.
    destruct (first_headers_ok _ _ _ _ _ _ _ Hhop Hs0 Ef) as [F1 S1].
    destruct es; [intro H; inversion H; subst; split; [apply frames_ok_one, F1|exact S1]|].
    destruct (e_head e); [intro H; inversion H; subst; split; [apply frames_ok_one, F1|exact S1]|].
    destruct ((blen p =? 0) && negb done); [intro H; inversion H; subst; split; [apply frames_ok_one, F1|exact S1]|].
    destruct (body_frames e done p s1) as [fr2 s2] eqn:Eb. intro H; inversion H; subst.
    destruct (body_frames_ok _ _ _ _ _ _ Hhop S1 Eb) as [F2 S2]. split; [|exact S2].
    apply (frames_ok_app [f] fr2); [apply frames_ok_one, F1|exact F2].
Qed.

Lemma set_buf_ok hop s b er : st_ok hop s -> st_ok hop (set_buf s b er). Proof. intro H. exact H. Qed.

Lemma bw_flush_ok e done s fr s' :
  hop_ok (e_hop e) -> st_ok (e_hop e) s -> bw_flush e done s = (fr, s') -> frames_ok fr /\ st_ok (e_hop e) s'.
Proof.
  intros Hhop Hs. unfold bw_flush.
  destruct (berr s); [intro H; inversion H; subst; split; [apply frames_ok_nil|exact Hs]|].
  destruct (buf s) as [|b0 br]; [intro H; inversion H; subst; split; [apply frames_ok_nil|exact Hs]|].
  destruct (write_chunk e done (b0 :: br) s) as [[fr1 n] s1] eqn:Ew.
  destruct (write_chunk_ok _ _ _ _ _ _ _ Hhop Hs Ew) as [F S].
  destruct (n <? blen (b0 :: br)); intro H; inversion H; subst; split; assumption.
Qed.

Lemma bw_write_ok e : hop_ok (e_hop e) -> forall fuel p s acc fr s',
  st_ok (e_hop e) s -> frames_ok acc -> bw_write fuel e p s acc = Some (fr, s') ->
  frames_ok fr /\ st_ok (e_hop e) s'.
Proof.
  intro Hhop. induction fuel as [|f IH]; intros p s acc fr s' Hs Ha; simpl.
  - destruct ((e_bsz e - blen (buf s) <? blen p) && negb (berr s)); [discriminate|].
    destruct (berr s); intro H; inversion H; subst; split; assumption.
  - destruct ((e_bsz e - blen (buf s) <? blen p) && negb (berr s)).
    + destruct (buf s) as [|b0 br].
      * destruct (write_chunk e false p s) as [[fr1 n] s1] eqn:Ew.
        destruct (write_chunk_ok _ _ _ _ _ _ _ Hhop Hs Ew) as [F S].
        apply IH; [exact S|apply frames_ok_app; assumption].
      * destruct (bw_flush e false (set_buf s ((b0 :: br) ++ firstn (Z.to_nat (e_bsz e - blen (b0 :: br))) p) false))
          as [fr1 s1] eqn:Ef.
        destruct (bw_flush_ok _ _ _ _ _ Hhop (set_buf_ok _ s _ false Hs) Ef) as [F S].
        apply IH; [exact S|apply frames_ok_app; assumption].
    + destruct (berr s); intro H; inversion H; subst; split; assumption.
Qed.

Lemma do_flush_ok e done s fr s' :
  hop_ok (e_hop e) -> st_ok (e_hop e) s -> do_flush e done s = (fr, s') -> frames_ok fr /\ st_ok (e_hop e) s'.
Proof.
  intros Hhop Hs. unfold do_flush. destruct (buf s).
  - destruct (write_chunk e done [] s) as [[fr1 n] s1] eqn:Ew. intro H; inversion H; subst.
    apply (write_chunk_ok _ _ _ _ _ _ _ Hhop Hs Ew).
  - apply bw_flush_ok; assumption.
Qed.

Lemma step_ok e o s fr s' res :
  hop_ok (e_hop e) -> st_ok (e_hop e) s -> step e o s = (fr, s', res) -> frames_ok fr /\ st_ok (e_hop e) s'.
Proof.
  intros Hhop Hs. destruct o; cbn [step]; cbv zeta.
  - intro H; inversion H; subst. split; [apply frames_ok_nil|exact Hs].
  - intro H; inversion H; subst. split; [apply frames_ok_nil|exact Hs].
  - intro H; inversion H; subst. split; [apply frames_ok_nil|apply write_header_ok, Hs].
  - pose proof (write_header_ok e 200 s Hs) as Hs1.
    destruct (negb (body_allowed (status (write_header e 200 s))));
      [intro H; inversion H; subst; split; [apply frames_ok_nil|exact Hs1]|].
    match goal with |- context [if ?c then _ else _] => destruct c end;
      [intro H; inversion H; subst; split; [apply frames_ok_nil|exact Hs1]|].
    match goal with |- context [bw_write fuel_write e p ?S []] =>
      destruct (bw_write fuel_write e p S []) as [[fr1 s1]|] eqn:Ew end;
      [|intro H; inversion H; subst; split; [apply frames_ok_nil|exact Hs1]].
    intro H; inversion H; subst.
    eapply (bw_write_ok e Hhop); [| |exact Ew]; [exact Hs1|apply frames_ok_nil].
  - destruct (do_flush e false s) as [fr1 s1] eqn:Ef. intro H; inversion H; subst.
    eapply do_flush_ok; eassumption.
  - intro H; inversion H; subst. split; [apply frames_ok_nil|exact Hs].
Qed.

Lemma run_ops_ok e : hop_ok (e_hop e) -> forall ops s fr s' res,
  st_ok (e_hop e) s -> run_ops e ops s = (fr, s', res) -> frames_ok fr /\ st_ok (e_hop e) s'.
Proof.
  intro Hhop. induction ops as [|o r IH]; intros s fr s' res Hs; simpl.
  - intro H; inversion H; subst. split; [apply frames_ok_nil|exact Hs].
  - destruct (step e o s) as [[fr1 s1] res1] eqn:Es.
    destruct (run_ops e r s1) as [[fr2 s2] res2] eqn:Er. intro H; inversion H; subst.
    destruct (step_ok _ _ _ _ _ _ Hhop Hs Es) as [F1 S1].
    destruct (IH _ _ _ _ S1 Er) as [F2 S2]. split; [apply frames_ok_app; assumption|exact S2].
Qed.

(* every field name in every HEADERS frame (response headers and trailers) is lower case and not connection-specific *)
Theorem connection_specific_removed e ops :
  hop_ok (e_hop e) ->
  forall es fl, In (FH es fl) (frames_of e ops) -> fields_ok fl = true.
Proof.
  intros Hhop es fl Hin. unfold frames_of, run_handler in Hin.
  destruct (run_ops e ops rws0) as [[fr1 s1] res1] eqn:Er.
  destruct (do_flush e true s1) as [fr2 s2] eqn:Ef. simpl in Hin.
  assert (H0 : st_ok (e_hop e) rws0) by (split; constructor).
  destruct (run_ops_ok e Hhop _ _ _ _ _ H0 Er) as [F1 S1].
  destruct (do_flush_ok _ _ _ _ _ Hhop S1 Ef) as [F2 _].
  apply (frames_ok_app _ _ F1 F2 _ Hin).
Qed.

Lemma hop_ok_real :
  hop_ok [ [67;111;110;110;101;99;116;105;111;110]; [75;101;101;112;45;65;108;105;118;101];
           [80;114;111;120;121;45;65;117;116;104;101;110;116;105;99;97;116;101];
           [80;114;111;120;121;45;65;117;116;104;111;114;105;122;97;116;105;111;110];
           [80;114;111;120;121;45;67;111;110;110;101;99;116;105;111;110];
           [84;114;97;110;115;102;101;114;45;69;110;99;111;100;105;110;103]; [85;112;103;114;97;100;101] ].
Proof. vm_compute. reflexivity. Qed.

(* ---------- status first, trailers last ---------- *)
(* a field list without :status *)
Definition nostat (fl : list (bytes * bytes)) : bool := negb (mem_bytes s_status (map fst fl)).
Lemma nostat_app a b : nostat (a ++ b) = nostat a && nostat b.
Proof. unfold nostat, mem_bytes. rewrite map_app, existsb_app, negb_orb. reflexivity. Qed.
Lemma enc_key_nostat h k : nostat (enc_key h k) = true.
Proof.
  unfold enc_key. destruct (valid_name (to_lower k)) eqn:Ev; [|reflexivity].
  assert (Hne : bytes_eqb s_status (to_lower k) = false).
  { destruct (bytes_eqb s_status (to_lower k)) eqn:E; [|reflexivity]. apply bytes_eqb_eq in E. rewrite <- E in Ev.
    vm_compute in Ev. discriminate. }
  induction (hget h k) as [|v r IH]; [reflexivity|]. cbn [flat_map]. rewrite nostat_app, IH, andb_true_r.
  match goal with |- context [if ?c then _ else _] => destruct c end; [|reflexivity].
  unfold nostat, mem_bytes. cbn [map fst existsb]. rewrite Hne. reflexivity.
Qed.
Lemma encode_nostat h keys : nostat (encode_headers h keys) = true.
Proof.
  unfold encode_headers. induction keys as [|k r IH]; [reflexivity|]. cbn [flat_map].
  rewrite nostat_app, enc_key_nostat, IH. reflexivity.
Qed.
Definition frame_nostat (f : frame) : Prop := match f with FH _ fl => nostat fl = true | FD _ _ => True end.

Definition all_FD (l : list frame) : Prop := forall f, In f l -> is_FH f = false.
Lemma all_FD_nil : all_FD []. Proof. intros f []. Qed.
Lemma all_FD_app a b : all_FD a -> all_FD b -> all_FD (a ++ b).
Proof. intros Ha Hb f Hf. apply in_app_or in Hf. destruct Hf; auto. Qed.
Lemma all_FD_one e d : all_FD [FD e d]. Proof. intros f [<-|[]]. reflexivity. Qed.
Lemma all_FD_removelast l : all_FD l -> all_FD (removelast l).
Proof.
  intros H f Hf. apply H. clear H. induction l as [|x r IH]; [destruct Hf|].
  simpl in Hf. destruct r; [destruct Hf|]. destruct Hf as [<-|Hf]; [left; reflexivity|right; apply IH, Hf].
Qed.

(* S = the status the handler chose *)
Definition wq (S : Z) (s : rws) : Prop := wroteH s = true /\ status s = S.
(* frames so far: nothing before the response HEADERS; afterwards HEADERS(:status S ...) followed by DATA only *)
Definition ainv (S : Z) (s : rws) (acc : list frame) : Prop :=
  (if sentH s then exists es fl rest, acc = FH es (status_field S ++ fl) :: rest /\ all_FD rest /\ nostat fl = true
   else acc = [])
  /\ (berr s = true -> sentH s = true).

Lemma wh_wq e s S : status (write_header e 200 s) = S -> wq S (write_header e 200 s).
Proof. intro H. split; [|exact H]. unfold write_header. destruct (wroteH s) eqn:E; [exact E|reflexivity]. Qed.
Lemma wq_wh e c s S : wq S s -> write_header e c s = s.
Proof. intros [A _]. unfold write_header. rewrite A. reflexivity. Qed.

Lemma first_headers_status e done p s f s1 es :
  first_headers e done p s = (f, s1, es) ->
  (exists fl, f = FH es (status_field (status s) ++ fl) /\ nostat fl = true)
  /\ wroteH s1 = wroteH s /\ status s1 = status s.
Proof.
  unfold first_headers. cbv zeta.
  match goal with |- (match ?X with pair _ _ => _ end) = _ -> _ => destruct X as [[snp scl] clen1] end.
  intro H. inversion H; subst. clear H. cbn [wroteH status]. split; [|split; reflexivity].
  eexists. split; [reflexivity|].
  rewrite !nostat_app, encode_nostat. cbn [andb].
  repeat match goal with |- context [if ?c then _ else _] => destruct c end;
    repeat match goal with |- context [match ?c with [] => _ | _ => _ end] => destruct c end;
    vm_compute; reflexivity.
Qed.

Lemma body_frames_wq e done p s1 fr s2 :
  body_frames e done p s1 = (fr, s2) -> wroteH s2 = wroteH s1 /\ status s2 = status s1.
Proof.
  unfold body_frames.
  destruct (if done then promote (e_perm e) (hh s1) (trailers s1) else (hh s1, trailers s1)) as [h2 tr2].
  destruct (done && match tr2 with [] => false | _ => true end).
  - destruct (encode_trailers (e_hop e) h2 tr2); intro H; inversion H; subst; simpl; split; reflexivity.
  - intro H; inversion H; subst; simpl; split; reflexivity.
Qed.

Lemma body_frames_FD e p s1 fr s2 : body_frames e false p s1 = (fr, s2) -> all_FD fr.
Proof.
  unfold body_frames. simpl. intro H.
  destruct ((0 <? blen p) || false); inversion H; subst; [apply all_FD_one|apply all_FD_nil].
Qed.

Lemma body_frames_last e p s1 fr s2 :
  body_frames e true p s1 = (fr, s2) -> exists pre l, fr = pre ++ [l] /\ all_FD pre /\ frame_nostat l.
Proof.
  unfold body_frames.
  destruct (promote (e_perm e) (hh s1) (trailers s1)) as [h2 tr2].
  remember (encode_trailers (e_hop e) h2 tr2) as enc eqn:Eenc.
  assert (Hen : nostat enc = true) by (subst enc; apply encode_nostat).
  clear Eenc.
  destruct tr2 as [|t tr2]; cbn [andb negb].
  - rewrite orb_true_r. intro H. inversion H; subst. exists [], (FD true p).
    split; [reflexivity|]. split; [apply all_FD_nil|exact I].
  - rewrite orb_false_r.
    assert (Hp : all_FD (if 0 <? blen p then [FD false p] else []))
      by (destruct (0 <? blen p); [apply all_FD_one|apply all_FD_nil]).
    destruct enc as [|fl0 fl]; intro H; inversion H; subst; eexists _, _;
      (split; [reflexivity|]; split; [exact Hp|]); [exact I|exact Hen].
Qed.

(* write_chunk while the handler runs *)
Lemma wc_shape e p s acc fr n s' S :
  status (write_header e 200 s) = S -> ainv S s acc -> write_chunk e false p s = (fr, n, s') ->
  ainv S s' (acc ++ fr) /\ wq S s'.
Proof.
  intros HS [Ha Hb] Hw.
  destruct (write_chunk_state _ _ _ _ _ _ _ Hw) as [Hsent [_ Hberr]].
  pose proof (wh_wq e s S HS) as Hq.
  revert Hw. unfold write_chunk.
  rewrite <- (wh_sentH e 200 s) in Ha. set (s0 := write_header e 200 s) in *.
  destruct (sentH s0) eqn:Es0.
  - cbn iota beta. destruct Ha as [es [fl [rest [Ea [Hr Hn]]]]].
    assert (G : forall fr2 s2, all_FD fr2 -> wroteH s2 = wroteH s0 -> status s2 = status s0 -> sentH s2 = true ->
                berr s2 = berr s -> ainv S s2 (acc ++ fr2) /\ wq S s2).
    { intros fr2 s2 F W1 W2 W3 W4. split; [split|].
      - rewrite W3. exists es, fl, (rest ++ fr2). subst acc. split; [reflexivity|]. split; [apply all_FD_app; assumption|exact Hn].
      - intros _. exact W3.
      - destruct Hq as [Q1 Q2]. split; [rewrite W1; exact Q1|rewrite W2; exact Q2]. }
    destruct (e_head e); [intro H; inversion H; subst; apply G; try reflexivity; [apply all_FD_nil|exact Es0|apply wh_berr]|].
    destruct ((blen p =? 0) && negb false);
      [intro H; inversion H; subst; apply G; try reflexivity; [apply all_FD_nil|exact Es0|apply wh_berr]|].
    destruct (body_frames e false p s0) as [fr2 s2] eqn:Eb. intro H; inversion H; subst.
    destruct (body_frames_wq _ _ _ _ _ _ Eb) as [W1 W2].
    apply G; [apply (body_frames_FD _ _ _ _ _ Eb)|exact W1|exact W2|exact Hsent|exact Hberr].
  - subst acc.
    destruct (first_headers e false p s0) as [[f s1] es] eqn:Ef.
    destruct (first_headers_status _ _ _ _ _ _ _ Ef) as [[fl [Hf Hn]] [W1 W2]].
    rewrite HS in Hf. subst f.
    assert (G : forall fr2 s2, all_FD fr2 -> wroteH s2 = wroteH s1 -> status s2 = status s1 -> sentH s2 = true ->
                ainv S s2 ([] ++ FH es (status_field S ++ fl) :: fr2) /\ wq S s2).
    { intros fr2 s2 F V1 V2 V3. split; [split|].
      - rewrite V3. exists es, fl, fr2. split; [reflexivity|]. split; [exact F|exact Hn].
      - intros _. exact V3.
      - destruct Hq as [Q1 Q2]. split; [rewrite V1, W1; exact Q1|rewrite V2, W2; exact Q2]. }
    destruct (first_headers_shape _ _ _ _ _ _ _ Ef) as [_ [V3 _]].
    destruct es; [intro H; inversion H; subst; apply G; try reflexivity; [apply all_FD_nil|exact V3]|].
    destruct (e_head e); [intro H; inversion H; subst; apply G; try reflexivity; [apply all_FD_nil|exact V3]|].
    destruct ((blen p =? 0) && negb false);
      [intro H; inversion H; subst; apply G; try reflexivity; [apply all_FD_nil|exact V3]|].
    destruct (body_frames e false p s1) as [fr2 s2] eqn:Eb. intro H; inversion H; subst.
    destruct (body_frames_wq _ _ _ _ _ _ Eb) as [V1 V2].
    apply (G fr2 s'); [apply (body_frames_FD _ _ _ _ _ Eb)|exact V1|exact V2|exact Hsent].
Qed.

Lemma set_buf_ainv S s acc b : ainv S s acc -> ainv S (set_buf s b false) acc.
Proof. intros [A B]. split; [exact A|discriminate]. Qed.

Lemma fl_shape e s acc fr s' S :
  wq S s -> ainv S s acc -> bw_flush e false s = (fr, s') -> ainv S s' (acc ++ fr) /\ wq S s'.
Proof.
  intros Hq Ha. unfold bw_flush.
  destruct (berr s) eqn:Eb; [intro H; inversion H; subst; rewrite app_nil_r; split; assumption|].
  destruct (buf s) as [|b0 br] eqn:Ebuf; [intro H; inversion H; subst; rewrite app_nil_r; split; assumption|].
  destruct (write_chunk e false (b0 :: br) s) as [[fr1 n] s1] eqn:Ew.
  assert (HS : status (write_header e 200 s) = S) by (rewrite (wq_wh e 200 s S Hq); apply Hq).
  destruct (wc_shape _ _ _ _ _ _ _ _ HS Ha Ew) as [[A1 A2] Q].
  destruct (write_chunk_state _ _ _ _ _ _ _ Ew) as [Hsent _].
  destruct (n <? blen (b0 :: br)); intro H; inversion H; subst; (split; [split|exact Q]); simpl;
    rewrite ?Hsent in *; try exact A1; intros _; reflexivity.
Qed.

Lemma bw_shape e S : forall fuel p s acc fr s',
  wq S s -> ainv S s acc -> bw_write fuel e p s acc = Some (fr, s') -> ainv S s' fr /\ wq S s'.
Proof.
  induction fuel as [|f IH]; intros p s acc fr s' Hq Ha; simpl.
  - destruct ((e_bsz e - blen (buf s) <? blen p) && negb (berr s)); [discriminate|].
    destruct (berr s) eqn:Eb; intro H; inversion H; subst; (split; [|exact Hq]); [exact Ha|apply set_buf_ainv, Ha].
  - destruct ((e_bsz e - blen (buf s) <? blen p) && negb (berr s)).
    + destruct (buf s) as [|b0 br] eqn:Ebuf.
      * destruct (write_chunk e false p s) as [[fr1 n] s1] eqn:Ew.
        assert (HS : status (write_header e 200 s) = S) by (rewrite (wq_wh e 200 s S Hq); apply Hq).
        destruct (wc_shape _ _ _ _ _ _ _ _ HS Ha Ew) as [A Q]. apply IH; assumption.
      * destruct (bw_flush e false (set_buf s ((b0 :: br) ++ firstn (Z.to_nat (e_bsz e - blen (b0 :: br))) p) false))
          as [fr1 s1] eqn:Ef.
        destruct (fl_shape e (set_buf s ((b0 :: br) ++ firstn (Z.to_nat (e_bsz e - blen (b0 :: br))) p) false) acc fr1 s1 S Hq (set_buf_ainv _ _ _ _ Ha) Ef) as [A Q]. apply IH; assumption.
    + destruct (berr s) eqn:Eb; intro H; inversion H; subst; (split; [|exact Hq]); [exact Ha|apply set_buf_ainv, Ha].
Qed.

(* between operations: the status is decided (wroteH) or still open (then nothing is buffered) *)
Definition sinv (S : Z) (s : rws) (r : list hop_) : Prop :=
  (if wroteH s then status s = S else spec_status r = S /\ buf s = [] /\ berr s = false).

Lemma step_shape e o r s acc fr s' res S :
  sinv S s (o :: r) -> ainv S s acc -> step e o s = (fr, s', res) ->
  sinv S s' r /\ ainv S s' (acc ++ fr).
Proof.
  intros Hs Ha. destruct o; cbn [step]; cbv zeta.
  - intro H; inversion H; subst. rewrite app_nil_r. split; [exact Hs|exact Ha].
  - intro H; inversion H; subst. rewrite app_nil_r. split; [exact Hs|exact Ha].
  - intro H; inversion H; subst. rewrite app_nil_r. unfold sinv, write_header in *.
    destruct (wroteH s) eqn:Ew; [rewrite Ew; split; [exact Hs|exact Ha]|]. simpl in *.
    split; [apply Hs|]. destruct Ha as [A B]. split; assumption.
  - assert (HS : status (write_header e 200 s) = S).
    { unfold sinv, write_header in *. destruct (wroteH s); [exact Hs|apply Hs]. }
    pose proof (wh_wq e s S HS) as Hq.
    assert (Ha1 : ainv S (write_header e 200 s) acc)
      by (destruct Ha as [A B]; split; rewrite ?wh_sentH, ?wh_berr; assumption).
    assert (Hdone : sinv S (write_header e 200 s) r /\ ainv S (write_header e 200 s) (acc ++ []))
      by (rewrite app_nil_r; split; [unfold sinv; destruct Hq as [Q1 Q2]; rewrite Q1; exact Q2|exact Ha1]).
    destruct (negb (body_allowed (status (write_header e 200 s)))); [intro H; inversion H; subst; exact Hdone|].
    match goal with |- context [if ?c then _ else _] => destruct c end; [intro H; inversion H; subst; exact Hdone|].
    match goal with |- context [bw_write fuel_write e p ?S0 []] =>
      destruct (bw_write fuel_write e p S0 []) as [[fr1 s1]|] eqn:Ew end; [|intro H; inversion H; subst; exact Hdone].
    intro H; inversion H; subst.
    pose proof (bw_write_acc e _ _ _ _ _ _ Ew acc) as G. rewrite app_nil_r in G.
    destruct (bw_shape e _ fuel_write p (set_wroteB (write_header e 200 s) (wroteB (write_header e 200 s) + blen p)) acc _ _ Hq Ha1 G) as [A Q].
    split; [unfold sinv; destruct Q as [Q1 Q2]; rewrite Q1; exact Q2|exact A].
  - assert (HS : status (write_header e 200 s) = S).
    { unfold sinv, write_header in *. destruct (wroteH s); [exact Hs|apply Hs]. }
    assert (Hq : buf s <> [] -> wq S s).
    { intro Hne. unfold sinv in Hs. destruct (wroteH s) eqn:Ew; [split; [exact Ew|exact Hs]|].
      destruct Hs as [_ [Hb _]]. contradiction. }
    destruct (do_flush e false s) as [fr1 s1] eqn:Ef. intro H. injection H as E1 E2 E3. subst fr1 s1 res.
    unfold do_flush in Ef. destruct (buf s) as [|z0 l0] eqn:Ebuf.
    + destruct (write_chunk e false [] s) as [[x1 x2] x3] eqn:Ew. injection Ef as E1 E2. subst x1 x3.
      destruct (wc_shape _ _ _ _ _ _ _ _ HS Ha Ew) as [A Q].
      split; [unfold sinv; destruct Q as [Q1 Q2]; rewrite Q1; exact Q2|exact A].
    + assert (Hq' : wq S s) by (apply Hq; discriminate).
      destruct (fl_shape _ _ _ _ _ _ Hq' Ha Ef) as [A Q].
      split; [unfold sinv; destruct Q as [Q1 Q2]; rewrite Q1; exact Q2|exact A].
  - intro H; inversion H; subst. rewrite app_nil_r. split; [exact Hs|exact Ha].
Qed.

Lemma run_ops_shape e S : forall ops s acc fr s' res,
  sinv S s ops -> ainv S s acc -> run_ops e ops s = (fr, s', res) ->
  sinv S s' [] /\ ainv S s' (acc ++ fr).
Proof.
  induction ops as [|o r IH]; intros s acc fr s' res Hs Ha; simpl.
  - intro H; inversion H; subst. rewrite app_nil_r. split; assumption.
  - destruct (step e o s) as [[fr1 s1] res1] eqn:Es.
    destruct (run_ops e r s1) as [[fr2 s2] res2] eqn:Er. intro H; inversion H; subst.
    destruct (step_shape _ _ _ _ _ _ _ _ _ Hs Ha Es) as [Hs1 Ha1].
    rewrite app_assoc. eapply IH; eassumption.
Qed.

Definition rest_ok (l : list frame) : Prop := forall f, In f l -> frame_nostat f.
Lemma all_FD_rest_ok l : all_FD l -> rest_ok l.
Proof. intros H f Hf. specialize (H f Hf). destruct f; [discriminate|exact I]. Qed.
Lemma rest_ok_app a b : rest_ok a -> rest_ok b -> rest_ok (a ++ b).
Proof. intros Ha Hb f Hf. apply in_app_or in Hf. destruct Hf; auto. Qed.
Lemma rest_ok_one f : frame_nostat f -> rest_ok [f].
Proof. intros H g [<-|[]]. exact H. Qed.

Lemma wc_done_shape e p s acc fr n s' S :
  status (write_header e 200 s) = S -> ainv S s acc -> write_chunk e true p s = (fr, n, s') ->
  exists es fl rest, acc ++ fr = FH es (status_field S ++ fl) :: rest /\ all_FD (removelast rest)
                     /\ nostat fl = true /\ rest_ok rest.
Proof.
  intros HS [Ha _]. unfold write_chunk.
  rewrite <- (wh_sentH e 200 s) in Ha. set (s0 := write_header e 200 s) in *.
  destruct (sentH s0) eqn:Es0.
  - cbn iota beta. destruct Ha as [es [fl [rest [Ea [Hr Hn]]]]]. subst acc.
    destruct (e_head e).
    { intro H; inversion H; subst fr. exists es, fl, rest. rewrite app_nil_r. split; [reflexivity|].
      split; [apply all_FD_removelast, Hr|]. split; [exact Hn|apply all_FD_rest_ok, Hr]. }
    rewrite andb_false_r.
    destruct (body_frames e true p s0) as [fr2 s2] eqn:Eb. intro H; inversion H; subst fr.
    destruct (body_frames_last _ _ _ _ _ Eb) as [pre [l [E [Hp Hl]]]].
    exists es, fl, (rest ++ fr2). split; [reflexivity|].
    split; [rewrite E, app_assoc, removelast_last; apply all_FD_app; assumption|]. split; [exact Hn|].
    rewrite E. apply rest_ok_app; [apply all_FD_rest_ok, Hr|].
    apply rest_ok_app; [apply all_FD_rest_ok, Hp|apply rest_ok_one, Hl].
  - subst acc.
    destruct (first_headers e true p s0) as [[f s1] es] eqn:Ef.
    destruct (first_headers_status _ _ _ _ _ _ _ Ef) as [[fl [Hf Hn]] _]. rewrite HS in Hf. subst f.
    assert (Hnil : all_FD (removelast []) /\ nostat fl = true /\ rest_ok [])
      by (split; [apply all_FD_nil|split; [exact Hn|intros f []]]).
    destruct es; [intro H; inversion H; subst fr; exists true, fl, []; split; [reflexivity|exact Hnil]|].
    destruct (e_head e); [intro H; inversion H; subst fr; exists false, fl, []; split; [reflexivity|exact Hnil]|].
    rewrite andb_false_r.
    destruct (body_frames e true p s1) as [fr2 s2] eqn:Eb. intro H; inversion H; subst fr.
    destruct (body_frames_last _ _ _ _ _ Eb) as [pre [l [E [Hp Hl]]]].
    exists false, fl, fr2. split; [reflexivity|]. split; [rewrite E, removelast_last; exact Hp|]. split; [exact Hn|].
    rewrite E. apply rest_ok_app; [apply all_FD_rest_ok, Hp|apply rest_ok_one, Hl].
Qed.

(* The first frame is the response HEADERS and its first field is :status = the handler's status; no other field of
   any HEADERS frame is named :status; every further frame except possibly the last one is DATA (so trailers, if any,
   are the last frame, after the whole body). *)
Theorem status_first_trailers_last e ops :
  exists es fl rest,
    frames_of e ops = FH es (status_field (spec_status ops) ++ fl) :: rest /\ all_FD (removelast rest)
    /\ nostat fl = true /\ rest_ok rest.
Proof.
  unfold frames_of, run_handler.
  destruct (run_ops e ops rws0) as [[fr1 s1] res1] eqn:Er.
  destruct (do_flush e true s1) as [fr2 s2] eqn:Ef. simpl.
  set (S := spec_status ops).
  assert (Hs0 : sinv S rws0 ops) by (unfold sinv; simpl; repeat split; reflexivity).
  assert (Ha0 : ainv S rws0 []) by (split; simpl; [reflexivity|discriminate]).
  destruct (run_ops_shape e S ops rws0 [] fr1 s1 res1 Hs0 Ha0 Er) as [Hs1 Ha1]. simpl in Ha1.
  assert (HS : status (write_header e 200 s1) = S).
  { unfold sinv, write_header in *. destruct (wroteH s1); [exact Hs1|]. simpl. destruct Hs1 as [Hs1 _]. simpl in Hs1.
    exact Hs1. }
  unfold do_flush in Ef. destruct (buf s1) as [|z0 l0] eqn:Ebuf.
  - destruct (write_chunk e true [] s1) as [[x1 x2] x3] eqn:Ew. inversion Ef; subst x1 x3.
    apply (wc_done_shape _ _ _ _ _ _ _ _ HS Ha1 Ew).
  - unfold bw_flush in Ef. rewrite Ebuf in Ef. destruct (berr s1) eqn:Eb.
    + inversion Ef; subst fr2 s2. rewrite app_nil_r. destruct Ha1 as [A B]. rewrite (B Eb) in A.
      destruct A as [es [fl [rest [E [Hr Hn]]]]]. exists es, fl, rest. split; [exact E|].
      split; [apply all_FD_removelast, Hr|]. split; [exact Hn|apply all_FD_rest_ok, Hr].
    + destruct (write_chunk e true (z0 :: l0) s1) as [[x1 x2] x3] eqn:Ew.
      assert (fr2 = x1) by (destruct (x2 <? blen (z0 :: l0)); inversion Ef; reflexivity). subst fr2.
      apply (wc_done_shape _ _ _ _ _ _ _ _ HS Ha1 Ew).
Qed.

(* ---------- body-less statuses: every Write is refused ---------- *)
Definition all_refused (res : list Z) : bool := forallb (fun r => negb (r =? 0)) res.
Lemma accepted_refused ws : forall res, all_refused res = true -> accepted ws res = [].
Proof.
  induction ws as [|w ws IH]; intros [|r res] H; simpl; try reflexivity.
  simpl in H. apply andb_true_iff in H. destruct H as [H1 H2]. apply negb_true_iff in H1. rewrite H1. simpl.
  apply IH, H2.
Qed.

Lemma step_bodyless e o r s fr s' res S :
  sinv S s (o :: r) -> body_allowed S = false -> step e o s = (fr, s', res) -> all_refused res = true.
Proof.
  intros Hs Hb. destruct o; cbn [step]; cbv zeta; try (intro H; inversion H; reflexivity).
  - assert (HS : status (write_header e 200 s) = S).
    { unfold sinv, write_header in *. destruct (wroteH s); [exact Hs|apply Hs]. }
    rewrite HS, Hb. cbn [negb]. intro H; inversion H; reflexivity.
  - destruct (do_flush e false s) as [fr1 s1]. intro H; inversion H; reflexivity.
Qed.

Lemma run_ops_bodyless e S : body_allowed S = false -> forall ops s acc fr s' res,
  sinv S s ops -> ainv S s acc -> run_ops e ops s = (fr, s', res) -> all_refused res = true.
Proof.
  intro Hb. induction ops as [|o r IH]; intros s acc fr s' res Hs Ha; simpl.
  - intro H; inversion H; reflexivity.
  - destruct (step e o s) as [[fr1 s1] res1] eqn:Es.
    destruct (run_ops e r s1) as [[fr2 s2] res2] eqn:Er. intro H; inversion H; subst.
    destruct (step_shape _ _ _ _ _ _ _ _ _ Hs Ha Es) as [Hs1 Ha1].
    unfold all_refused. rewrite forallb_app. apply andb_true_iff. split.
    + apply (step_bodyless _ _ _ _ _ _ _ _ Hs Hb Es).
    + apply (IH _ _ _ _ _ Hs1 Ha1 Er).
Qed.

Theorem bodyless_refused e ops fr res s :
  run_handler e ops = (fr, res, s) -> body_allowed (spec_status ops) = false -> all_refused res = true.
Proof.
  unfold run_handler.
  destruct (run_ops e ops rws0) as [[fr1 s1] res1] eqn:Er.
  destruct (do_flush e true s1) as [fr2 s2]. intro H; inversion H; subst. intro Hb.
  assert (Hs0 : sinv (spec_status ops) rws0 ops) by (unfold sinv; simpl; repeat split; reflexivity).
  assert (Ha0 : ainv (spec_status ops) rws0 []) by (split; simpl; [reflexivity|discriminate]).
  apply (run_ops_bodyless e _ Hb ops rws0 [] fr1 s1 res Hs0 Ha0 Er).
Qed.

(* ---------- the central statement: prop_C38 holds of the model's observation ---------- *)
Definition pjf (fl : list (bytes * bytes)) : list (bytes * bytes) :=
  map (fun kv => (fst kv, project (fst kv) (snd kv))) fl.
Definition pj (f : frame) : frame := match f with FH e fl => FH e (pjf fl) | FD e d => FD e d end.

Lemma pjf_names fl : map fst (pjf fl) = map fst fl.
Proof. unfold pjf. rewrite map_map. reflexivity. Qed.
Lemma pj_end f : f_end (pj f) = f_end f. Proof. destruct f; reflexivity. Qed.
Lemma pj_data f : f_data (pj f) = f_data f. Proof. destruct f; reflexivity. Qed.
Lemma pj_isFH f : is_FH (pj f) = is_FH f. Proof. destruct f; reflexivity. Qed.
Lemma forallb_map {A B} (f : B -> bool) (g : A -> B) l : forallb f (map g l) = forallb (fun x => f (g x)) l.
Proof. induction l as [|x r IH]; [reflexivity|]. simpl. rewrite IH. reflexivity. Qed.
Lemma forallb_ext {A} (f g : A -> bool) l : (forall x, f x = g x) -> forallb f l = forallb g l.
Proof. intro H. induction l as [|x r IH]; [reflexivity|]. simpl. rewrite H, IH. reflexivity. Qed.
Lemma fields_ok_pjf fl : fields_ok (pjf fl) = fields_ok fl.
Proof. unfold fields_ok, pjf. rewrite forallb_map. reflexivity. Qed.

Lemma dec_enc_fields fl :
  all_some (map dec_field (map (fun kv => VL [VB (fst kv); VB (project (fst kv) (snd kv))]) fl)) = Some (pjf fl).
Proof. induction fl as [|kv r IH]; [reflexivity|]. simpl. simpl in IH. rewrite IH. reflexivity. Qed.
Lemma dec_enc_frame f : dec_frame (enc_frame f) = Some (pj f).
Proof.
  destruct f as [e fl|e d]; destruct e; unfold enc_frame, vbool, VT, VF, dec_frame; rewrite ?dec_enc_fields; reflexivity.
Qed.
Lemma dec_enc_frames fr : all_some (map dec_frame (map enc_frame fr)) = Some (map pj fr).
Proof. induction fr as [|f r IH]; [reflexivity|]. simpl. rewrite dec_enc_frame, IH. reflexivity. Qed.
Lemma as_LZ_vLZ l : as_LZ (vLZ l) = Some l.
Proof. unfold as_LZ, vLZ. induction l as [|x r IH]; [reflexivity|]. simpl. simpl in IH. rewrite IH. reflexivity. Qed.

Lemma removelast_map {A B} (f : A -> B) l : removelast (map f l) = map f (removelast l).
Proof. induction l as [|x r IH]; [reflexivity|]. simpl. destruct r; [reflexivity|]. simpl in *. rewrite IH. reflexivity. Qed.

Lemma count_end_pj l : count_end (map pj l) = count_end l.
Proof.
  unfold count_end. induction l as [|f r IH]; [reflexivity|]. simpl. rewrite pj_end. destruct (f_end f); simpl; rewrite IH; reflexivity.
Qed.
Lemma ends_once_count fr : ends_once fr -> count_end fr = 1%nat /\ f_end (last fr (FD false [])) = true.
Proof.
  intros [pre [l [E [Hp Hl]]]]. subst fr. split.
  - unfold count_end. rewrite filter_app. simpl. rewrite Hl.
    assert (Hn : filter f_end pre = []).
    { clear -Hp. induction pre as [|f r IH]; [reflexivity|]. simpl. rewrite (Hp f (or_introl eq_refl)).
      apply IH. intros g Hg. apply Hp. right. exact Hg. }
    rewrite Hn. reflexivity.
  - rewrite last_last. exact Hl.
Qed.

Lemma spec_status_range ops : forallb op_ok ops = true -> 100 <= spec_status ops <= 999.
Proof.
  induction ops as [|o r IH]; simpl; [lia|]. intro H. apply andb_true_iff in H. destruct H as [H1 H2].
  destruct o; try (apply IH; exact H2); try lia.
  simpl in H1. apply andb_true_iff in H1. destruct H1 as [A B]. apply Z.leb_le in A. apply Z.leb_le in B. lia.
Qed.

Lemma project_status v : project s_status v = v.
Proof. reflexivity. Qed.

Lemma last_map_pj l d : last (map pj l) (pj d) = pj (last l d).
Proof. induction l as [|x r IH]; [reflexivity|]. simpl. destruct r; [reflexivity|]. exact IH. Qed.

Lemma stream_ok_pj S body fr : stream_ok S body fr = true -> stream_ok S body (map pj fr) = true.
Proof.
  destruct fr as [|f rest]; [discriminate|]. destruct f as [e0 fl0|]; [|discriminate].
  destruct fl0 as [|[k0 v0] fl0]; [discriminate|].
  intro H. cbn [stream_ok] in H.
  repeat (apply andb_true_iff in H; let H' := fresh "C" in destruct H as [H H']).
  rename H into Cfirst.
  assert (Ek : k0 = s_status) by (apply bytes_eqb_eq; exact Cfirst). subst k0.
  cbn [map pj pjf fst snd stream_ok]. rewrite project_status.
  change (map (fun kv : bytes * bytes => (fst kv, project (fst kv) (snd kv))) fl0) with (pjf fl0).
  rewrite pjf_names.
  change (FH e0 ((s_status, v0) :: pjf fl0) :: map pj rest) with (map pj (FH e0 ((s_status, v0) :: fl0) :: rest)).
  rewrite count_end_pj. change (FD false []) with (pj (FD false [])). rewrite last_map_pj, pj_end.
  rewrite removelast_map, !forallb_map, map_map.
  pose (sp := andb_true_iff).
  apply sp; split; [apply sp; split; [apply sp; split; [apply sp; split; [apply sp; split; [apply sp; split; [apply sp; split; [apply sp; split|]|]|]|]|]|]|]; try assumption.
  - erewrite forallb_ext; [exact C4|]. intros [e1 fl1|e1 d1]; simpl; [rewrite pjf_names|]; reflexivity.
  - erewrite forallb_ext; [exact C1|]. intros [e1 fl1|e1 d1]; simpl; [rewrite fields_ok_pjf|]; reflexivity.
  - erewrite map_ext; [exact C0|]. intros f. apply pj_data.
  - erewrite forallb_ext; [exact C|]. intros f. rewrite pj_isFH. reflexivity.
Qed.

(* ---------- the scheduler pass (chunking by window and maximum frame size) preserves the stream shape ---------- *)
Definition is_FD_noend (f : frame) : Prop := exists d, f = FD false d.
Lemma chunk_shape fuel : forall g w es p,
  exists pre lastc, fst (chunk_data fuel g w es p) = pre ++ [FD es lastc]
    /\ (forall f, In f pre -> is_FD_noend f) /\ concat (map f_data pre) ++ lastc = p.
Proof.
  induction fuel as [|f IH]; intros g w es p; cbn [chunk_data].
  - exists [], p. split; [reflexivity|]. split; [intros x []|reflexivity].
  - destruct p as [|b0 br]; [exists [], []; split; [reflexivity|]; split; [intros x []|reflexivity]|].
    set (p := b0 :: br). set (a := Z.min w max_frame).
    destruct (a <? blen p).
    + destruct (IH g (after_take g w a) es (skipn (Z.to_nat a) p)) as [pre [lastc [E [Hp Hc]]]].
      destruct (chunk_data f g (after_take g w a) es (skipn (Z.to_nat a) p)) as [r w'] eqn:Ec. cbn [fst] in *.
      exists (FD false (firstn (Z.to_nat a) p) :: pre), lastc. rewrite E. split; [reflexivity|]. split.
      * intros x [<-|Hx]; [eexists; reflexivity|apply Hp, Hx].
      * cbn [map f_data concat]. rewrite <- app_assoc, Hc. apply firstn_skipn.
    + exists [], p. split; [reflexivity|]. split; [intros x []|reflexivity].
Qed.

(* one wire pass over a list = pass over the first part, then over the second with the window left *)
Lemma wire_app g : forall a w b, exists w', wire_frames g w (a ++ b) = wire_frames g w a ++ wire_frames g w' b.
Proof.
  induction a as [|x a IH]; intros w b; [exists w; reflexivity|].
  destruct x as [e fl|e p]; cbn [app wire_frames].
  - destruct (IH w b) as [w' E]. exists w'. rewrite E. reflexivity.
  - destruct (chunk_data (length p) g w e p) as [c w1]. destruct (IH w1 b) as [w' E]. exists w'.
    rewrite E, app_assoc. reflexivity.
Qed.

Lemma wire_FH_in g : forall fs w e fl, In (FH e fl) (wire_frames g w fs) -> In (FH e fl) fs.
Proof.
  induction fs as [|x r IH]; intros w e fl H; [destruct H|].
  destruct x as [e1 fl1|e1 p]; cbn [wire_frames] in H.
  - destruct H as [H|H]; [left; exact H|right; eapply IH; exact H].
  - destruct (chunk_data (length p) g w e1 p) as [c w1] eqn:Ec.
    apply in_app_or in H. destruct H as [H|H]; [|right; eapply IH; exact H].
    exfalso. destruct (chunk_shape (length p) g w e1 p) as [pre [lastc [E [Hp _]]]]. rewrite Ec in E. cbn [fst] in E.
    rewrite E in H. apply in_app_or in H. destruct H as [H|[H|[]]]; [destruct (Hp _ H) as [d Hd]; discriminate|discriminate].
Qed.

Lemma wire_all_FD g : forall fs w, all_FD fs -> all_FD (wire_frames g w fs).
Proof.
  intros fs w H f Hf. destruct f as [e fl|e d]; [|reflexivity].
  apply wire_FH_in in Hf. apply (H _ Hf).
Qed.

Lemma wire_data g : forall fs w, data_of (wire_frames g w fs) = data_of fs.
Proof.
  induction fs as [|x r IH]; intros w; [reflexivity|].
  destruct x as [e fl|e p]; cbn [wire_frames].
  - change (FH e fl :: wire_frames g w r) with ([FH e fl] ++ wire_frames g w r).
    change (FH e fl :: r) with ([FH e fl] ++ r). rewrite !data_app, IH. reflexivity.
  - destruct (chunk_data (length p) g w e p) as [c w1] eqn:Ec.
    destruct (chunk_shape (length p) g w e p) as [pre [lastc [E [_ Hc]]]]. rewrite Ec in E. cbn [fst] in E.
    change (FD e p :: r) with ([FD e p] ++ r). rewrite !data_app, IH. f_equal.
    rewrite E, data_app. unfold data_of. cbn [map f_data concat]. rewrite !app_nil_r. exact Hc.
Qed.

Lemma count_end_app a b : count_end (a ++ b) = (count_end a + count_end b)%nat.
Proof. unfold count_end. rewrite filter_app, app_length. reflexivity. Qed.
Lemma wire_count_end g : forall fs w, count_end (wire_frames g w fs) = count_end fs.
Proof.
  induction fs as [|x r IH]; intros w; [reflexivity|].
  destruct x as [e fl|e p]; cbn [wire_frames].
  - change (FH e fl :: wire_frames g w r) with ([FH e fl] ++ wire_frames g w r).
    change (FH e fl :: r) with ([FH e fl] ++ r). rewrite !count_end_app, IH. reflexivity.
  - destruct (chunk_data (length p) g w e p) as [c w1] eqn:Ec.
    destruct (chunk_shape (length p) g w e p) as [pre [lastc [E [Hp _]]]]. rewrite Ec in E. cbn [fst] in E.
    change (FD e p :: r) with ([FD e p] ++ r). rewrite !count_end_app, IH. f_equal.
    rewrite E, count_end_app.
    assert (Hn : count_end pre = 0%nat).
    { unfold count_end. clear -Hp. induction pre as [|y pre IHp]; [reflexivity|]. cbn [filter].
      destruct (Hp y (or_introl eq_refl)) as [d ->]. cbn [f_end]. apply IHp. intros z Hz. apply Hp. right. exact Hz. }
    rewrite Hn. unfold count_end. cbn [filter f_end]. destruct e; reflexivity.
Qed.

Lemma wire_nonempty g fs w : fs <> [] -> wire_frames g w fs <> [].
Proof.
  destruct fs as [|x r]; [intro H; contradiction|]. intros _.
  destruct x as [e fl|e p]; cbn [wire_frames]; [discriminate|].
  destruct (chunk_data (length p) g w e p) as [c w1] eqn:Ec.
  destruct (chunk_shape (length p) g w e p) as [pre [lastc [E _]]]. rewrite Ec in E. cbn [fst] in E. rewrite E.
  destruct pre; discriminate.
Qed.

Lemma last_app_nonempty {A} (a b : list A) d : b <> [] -> last (a ++ b) d = last b d.
Proof.
  intro Hb. induction a as [|x a IH]; [reflexivity|]. cbn [app]. destruct (a ++ b) eqn:E.
  - destruct a; [simpl in E; contradiction|discriminate].
  - rewrite <- E in *. simpl. rewrite E. rewrite <- E. exact IH.
Qed.

Lemma wire_last_end g : forall fs w d, fs <> [] -> f_end (last (wire_frames g w fs) d) = f_end (last fs d).
Proof.
  induction fs as [|x r IH]; intros w d Hne; [contradiction|].
  destruct r as [|y r].
  - destruct x as [e fl|e p]; cbn [wire_frames]; [reflexivity|].
    destruct (chunk_data (length p) g w e p) as [c w1] eqn:Ec.
    destruct (chunk_shape (length p) g w e p) as [pre [lastc [E _]]]. rewrite Ec in E. cbn [fst] in E.
    rewrite app_nil_r, E, last_last. reflexivity.
  - assert (Hyr : y :: r <> []) by discriminate.
    change (last (x :: y :: r) d) with (last (y :: r) d).
    remember (y :: r) as yr eqn:Eyr.
    destruct x as [e fl|e p]; cbn [wire_frames].
    + change (FH e fl :: wire_frames g w yr) with ([FH e fl] ++ wire_frames g w yr).
      rewrite last_app_nonempty by (apply wire_nonempty; exact Hyr). apply IH. exact Hyr.
    + destruct (chunk_data (length p) g w e p) as [c w1].
      rewrite last_app_nonempty by (apply wire_nonempty; exact Hyr). apply IH. exact Hyr.
Qed.

Lemma forallb_In {A} (f : A -> bool) l : (forall x, In x l -> f x = true) -> forallb f l = true.
Proof. intro H. apply forallb_forall. exact H. Qed.

Lemma stream_ok_wire g w S body fs : stream_ok S body fs = true -> stream_ok S body (wire_frames g w fs) = true.
Proof.
  destruct fs as [|f rest]; [discriminate|]. destruct f as [e0 fl0|]; [|discriminate].
  destruct fl0 as [|[k0 v0] fl0]; [discriminate|].
  intro H. cbn [stream_ok] in H.
  repeat (apply andb_true_iff in H; let H' := fresh "C" in destruct H as [H H']).
  cbn [wire_frames stream_ok].
  change (FH e0 ((k0, v0) :: fl0) :: wire_frames g w rest) with (wire_frames g w (FH e0 ((k0, v0) :: fl0) :: rest)).
  pose (sp := andb_true_iff).
  apply sp; split; [apply sp; split; [apply sp; split; [apply sp; split; [apply sp; split; [apply sp; split; [apply sp; split; [apply sp; split|]|]|]|]|]|]|]; try assumption.
  - apply forallb_In. intros x Hx. destruct x as [e1 fl1|]; [|reflexivity].
    apply wire_FH_in in Hx. rewrite forallb_forall in C4. apply (C4 _ Hx).
  - rewrite wire_count_end. exact C3.
  - rewrite wire_last_end by discriminate. exact C2.
  - apply forallb_In. intros x Hx. destruct x as [e1 fl1|]; [|reflexivity].
    apply wire_FH_in in Hx. rewrite forallb_forall in C1. apply (C1 _ Hx).
  - change (concat (map f_data (wire_frames g w (FH e0 ((k0, v0) :: fl0) :: rest)))) with
      (data_of (wire_frames g w (FH e0 ((k0, v0) :: fl0) :: rest))). rewrite wire_data. exact C0.
  - (* trailers stay last *)
    assert (Hfd : all_FD (removelast rest))
      by (intros x Hx; rewrite forallb_forall in C; specialize (C _ Hx); apply negb_true_iff in C; exact C).
    apply forallb_In. intros x Hx. apply negb_true_iff.
    destruct rest as [|q0 qs] eqn:Erest; [destruct Hx|].
    assert (Hne : q0 :: qs <> []) by discriminate.
    destruct (exists_last Hne) as [rest' [r0 Er]]. rewrite Er in *. clear Hne.
    rewrite removelast_last in Hfd.
    destruct (wire_app g rest' w [r0]) as [w' E]. rewrite E in Hx.
    destruct r0 as [e1 fl1|e1 p1]; cbn [wire_frames] in Hx.
    + rewrite removelast_last in Hx. apply (wire_all_FD g rest' w Hfd _ Hx).
    + destruct (chunk_data (length p1) g w' e1 p1) as [c w1] eqn:Ec. rewrite app_nil_r in Hx.
      assert (Hall : all_FD (wire_frames g w rest' ++ c)).
      { apply all_FD_app; [apply wire_all_FD, Hfd|].
        destruct (chunk_shape (length p1) g w' e1 p1) as [pre [lastc [E2 [Hp _]]]]. rewrite Ec in E2. cbn [fst] in E2.
        rewrite E2. apply all_FD_app; [|apply all_FD_one]. intros y Hy. destruct (Hp _ Hy) as [d ->]. reflexivity. }
      apply (all_FD_removelast _ Hall _ Hx).
Qed.

Lemma strip_rst_after e l : strip_rst (e_open e) (map enc_frame l ++ rst_after e) = map enc_frame l.
Proof.
  unfold strip_rst, rst_after. destruct (e_open e); [|apply app_nil_r].
  rewrite rev_app_distr. cbn [rev app]. unfold is_rst_no_error.
  replace (val_eqb RST_NO_ERROR RST_NO_ERROR) with true by reflexivity. apply rev_involutive.
Qed.

Theorem prop_C38_central_perm n i : wf_C38 i = true -> kf_C38 i = 0 -> prop_C38 i (run_perm n i) = true.
Proof.
  intros Hwf _. unfold wf_C38 in Hwf. unfold prop_C38, run_perm.
  destruct (dec_input i) as [[e0 ops]|] eqn:Hd; [|discriminate].
  apply andb_true_iff in Hwf. destruct Hwf as [Hhop Hops].
  change (e_open e0) with (e_open (with_perm n e0)).
  change (prop_frames e0 ops) with (prop_frames (with_perm n e0) ops).
  change (hop_okb (e_hop e0)) with (hop_okb (e_hop (with_perm n e0))) in Hhop.
  set (e := with_perm n e0) in *. cbv zeta.
  destruct (run_handler e ops) as [[fr res] s] eqn:Hr.
  unfold prop_stream. change (e_open e0) with (e_open e). change (prop_frames e0 ops) with (prop_frames e ops).
  rewrite strip_rst_after, dec_enc_frames, as_LZ_vLZ. unfold prop_frames.
  destruct (body_exact _ _ _ _ _ Hr) as [Hlen Hdata].
  rewrite Hlen, Nat.eqb_refl. cbn [andb].
  apply stream_ok_pj. apply stream_ok_wire.
  pose proof (spec_status_range ops Hops) as HS.
  assert (Hfr : frames_of e ops = fr) by (unfold frames_of; rewrite Hr; reflexivity).
  destruct (status_first_trailers_last e ops) as [es [fl [rest [E [Hfd [Hn Hro]]]]]]. rewrite Hfr in E.
  pose proof (end_stream_exactly_once_and_last e ops) as Hend. rewrite Hfr in Hend.
  pose proof (connection_specific_removed e ops Hhop) as Hcs. rewrite Hfr in Hcs.
  assert (Hbody : data_of fr = spec_body e ops res).
  { unfold spec_body. rewrite Hdata. destruct (e_head e); [reflexivity|]. cbn [orb].
    destruct (body_allowed (spec_status ops)) eqn:Eb; [reflexivity|]. cbn [negb].
    apply accepted_refused. apply (bodyless_refused _ _ _ _ _ Hr Eb). }
  destruct (ends_once_count _ Hend) as [Hc Hl].
  unfold status_field in E. destruct (spec_status ops =? 0) eqn:E0; [apply Z.eqb_eq in E0; lia|].
  cbn [app] in E. rewrite E in *. cbn [stream_ok].
  pose (sp := andb_true_iff).
  apply sp; split; [apply sp; split; [apply sp; split; [apply sp; split; [apply sp; split; [apply sp; split; [apply sp; split; [apply sp; split|]|]|]|]|]|]|].
  - apply bytes_eqb_eq. reflexivity.
  - apply bytes_eqb_eq. reflexivity.
  - exact Hn.
  - apply forallb_forall. intros f Hf. specialize (Hro f Hf). destruct f; [exact Hro|reflexivity].
  - rewrite Hc. reflexivity.
  - exact Hl.
  - apply forallb_forall. intros f Hf. destruct f as [e1 fl1|]; [|reflexivity]. apply (Hcs e1 fl1 Hf).
  - apply bytes_eqb_eq. exact Hbody.
  - apply forallb_forall. intros f Hf. rewrite (Hfd f Hf). reflexivity.
Qed.

Theorem prop_C38_central i : wf_C38 i = true -> kf_C38 i = 0 -> prop_C38 i (run_C38 i) = true.
Proof. apply prop_C38_central_perm. Qed.

(* the correspondence predicate accepts the model's own observation, for every iteration order it enumerates *)
Lemma run_perm_two n i : exists a b, run_perm n i = VL [a; b].
Proof.
  unfold run_perm. destruct (dec_input i) as [[e ops]|]; [|eexists; eexists; reflexivity].
  cbv zeta. destruct (run_handler (with_perm n e) ops) as [[fr res] s]. eexists; eexists; reflexivity.
Qed.
Lemma agree_C38_perm n i : In n perms -> agree_C38 i (run_perm n i) = true.
Proof.
  intro Hn. destruct (run_perm_two n i) as [a [b E]]. rewrite E. unfold agree_C38.
  apply existsb_exists. exists n. split; [exact Hn|]. rewrite E. apply val_eqb_refl.
Qed.

(* two "Trailer:" keys naming the same trailer: the value sent depends on Go's map iteration order; both outcomes
   are observations of the model (orders 0 and 1) *)
Lemma collision_witness :
  let ops := [OWrite b_hi; OFlush; OSet (s_TrailerPrefix ++ [102;111;111]) [49]; OSet (s_TrailerPrefix ++ b_Foo) [50]] in
  frames_of (with_perm 0 env_get) ops <> frames_of (with_perm 1 env_get) ops
  /\ last (frames_of (with_perm 0 env_get) ops) (FD false []) = FH true [(to_lower b_Foo, [50])]
  /\ last (frames_of (with_perm 1 env_get) ops) (FD false []) = FH true [(to_lower b_Foo, [49])].
Proof. vm_compute. split; [discriminate|split; reflexivity]. Qed.

(* a corpus case (corpus/C38: was-kf1-declared-unset) as a wire value *)
Definition real_hop : list bytes :=
  [ [67;111;110;110;101;99;116;105;111;110]; [75;101;101;112;45;65;108;105;118;101];
    [80;114;111;120;121;45;65;117;116;104;101;110;116;105;99;97;116;101];
    [80;114;111;120;121;45;65;117;116;104;111;114;105;122;97;116;105;111;110];
    [80;114;111;120;121;45;67;111;110;110;101;99;116;105;111;110];
    [84;114;97;110;115;102;101;114;45;69;110;99;111;100;105;110;103]; [85;112;103;114;97;100;101] ].
Definition corpus_case : val :=
  VL [VZ 0; VZ 4096; vLB real_hop; VL [VL [VZ 1; VB b_Trailer; VB b_Foo]; VL [VZ 4; VB b_hi; VZ 1]]].
Lemma corpus_case_wf : wf_C38 corpus_case = true /\ prop_C38 corpus_case (run_C38 corpus_case) = true.
Proof. vm_compute. split; reflexivity. Qed.

(* ---------- bufio.Writer.Write never runs out of fuel ---------- *)
Lemma write_chunk_n e p s fr n s' :
  write_chunk e false p s = (fr, n, s') -> n = blen p \/ (n = 0 /\ sentH s = false).
Proof.
  unfold write_chunk. rewrite <- (wh_sentH e 200 s). set (s0 := write_header e 200 s).
  destruct (sentH s0) eqn:Es0.
  - cbn iota beta. destruct (e_head e); [intro H; inversion H; left; reflexivity|].
    destruct ((blen p =? 0) && negb false) eqn:Ec.
    + intro H; inversion H. left. apply andb_true_iff in Ec. destruct Ec as [Ec _]. apply Z.eqb_eq in Ec. lia.
    + destruct (body_frames e false p s0) as [fr2 s2]. intro H; inversion H. left. reflexivity.
  - destruct (first_headers e false p s0) as [[f s1] es].
    destruct es; [intro H; inversion H; right; split; reflexivity|].
    destruct (e_head e); [intro H; inversion H; left; reflexivity|].
    destruct ((blen p =? 0) && negb false) eqn:Ec.
    + intro H; inversion H. left. apply andb_true_iff in Ec. destruct Ec as [Ec _]. apply Z.eqb_eq in Ec. lia.
    + destruct (body_frames e false p s1) as [fr2 s2]. intro H; inversion H. left. reflexivity.
Qed.

Lemma bw_write_nil e fuel s acc : 0 <= e_bsz e -> blen (buf s) <= e_bsz e -> bw_write fuel e [] s acc <> None.
Proof.
  intros Hb Hl.
  assert (E : (e_bsz e - blen (buf s) <? blen []) = false) by (apply Z.ltb_ge; change (blen (@nil Z)) with 0; lia).
  destruct fuel; cbn [bw_write]; rewrite E; cbn [andb]; destruct (berr s); discriminate.
Qed.

Lemma bw_write_S f e p s acc :
  bw_write (S f) e p s acc =
  if (e_bsz e - blen (buf s) <? blen p) && negb (berr s) then
    match buf s with
    | [] => let '(fr, n, s') := write_chunk e false p s in bw_write f e (skipn (Z.to_nat n) p) s' (acc ++ fr)
    | _ => let n := Z.to_nat (e_bsz e - blen (buf s)) in
           let '(fr, s') := bw_flush e false (set_buf s (buf s ++ firstn n p) false) in
           bw_write f e (skipn n p) s' (acc ++ fr)
    end
  else if berr s then Some (acc, s) else Some (acc, set_buf s (buf s ++ p) false).
Proof. reflexivity. Qed.

(* header already sent, nothing buffered: at most one direct write *)
Lemma bw_write_fuel1 e fuel p s acc :
  0 <= e_bsz e -> sentH s = true -> buf s = [] -> bw_write (S fuel) e p s acc <> None.
Proof.
  intros Hb Hs Hbuf. rewrite bw_write_S, Hbuf.
  destruct ((e_bsz e - blen [] <? blen p) && negb (berr s)); [|destruct (berr s); discriminate].
  destruct (write_chunk e false p s) as [[fr n] s'] eqn:Ew.
  destruct (write_chunk_n _ _ _ _ _ _ Ew) as [Hn|[_ Hn]]; [|rewrite Hs in Hn; discriminate].
  destruct (write_chunk_state _ _ _ _ _ _ _ Ew) as [_ [Hb' _]].
  subst n. rewrite skipn_blen. apply bw_write_nil; [exact Hb|]. rewrite Hb', Hbuf. unfold blen. simpl. lia.
Qed.

Lemma bw_write_fuel2 e fuel p s acc :
  0 <= e_bsz e -> buf s = [] -> bw_write (S (S fuel)) e p s acc <> None.
Proof.
  intros Hb Hbuf. rewrite bw_write_S, Hbuf.
  destruct ((e_bsz e - blen [] <? blen p) && negb (berr s)); [|destruct (berr s); discriminate].
  destruct (write_chunk e false p s) as [[fr n] s'] eqn:Ew.
  destruct (write_chunk_state _ _ _ _ _ _ _ Ew) as [Hs' [Hb' _]].
  destruct (write_chunk_n _ _ _ _ _ _ Ew) as [Hn|[Hn _]]; subst n.
  - rewrite skipn_blen. apply bw_write_nil; [exact Hb|]. rewrite Hb', Hbuf. unfold blen. simpl. lia.
  - cbn [Z.to_nat skipn]. apply bw_write_fuel1; [exact Hb|exact Hs'|rewrite Hb'; exact Hbuf].
Qed.

Theorem bw_write_fuel e fuel p s acc : 0 <= e_bsz e -> bw_write (S (S (S fuel))) e p s acc <> None.
Proof.
  intros Hb. destruct (buf s) as [|b0 br] eqn:Hbuf; [apply bw_write_fuel2; assumption|].
  rewrite bw_write_S, Hbuf. cbv zeta.
  destruct ((e_bsz e - blen (b0 :: br) <? blen p) && negb (berr s)); [|destruct (berr s); discriminate].
  set (s1 := set_buf s ((b0 :: br) ++ firstn (Z.to_nat (e_bsz e - blen (b0 :: br))) p) false).
  destruct (bw_flush e false s1) as [fr1 s2] eqn:Ef.
  unfold bw_flush in Ef. cbn [berr s1 set_buf buf] in Ef.
  destruct ((b0 :: br) ++ firstn (Z.to_nat (e_bsz e - blen (b0 :: br))) p) as [|c0 cr] eqn:Eb; [discriminate|].
  destruct (write_chunk e false (c0 :: cr) s1) as [[fr n] s'] eqn:Ew.
  destruct (write_chunk_state _ _ _ _ _ _ _ Ew) as [Hs' _].
  destruct (n <? blen (c0 :: cr)); inversion Ef; subst.
  - (* short write: the sticky error ends the loop *)
    rewrite bw_write_S. cbn [berr set_buf]. rewrite andb_false_r. discriminate.
  - apply bw_write_fuel2; [exact Hb|reflexivity].
Qed.

(* so no Write ever reports fuel exhaustion: every result is 0 (accepted) or 1 (refused) *)
Theorem write_results_01 e ops fr res s :
  0 <= e_bsz e -> run_handler e ops = (fr, res, s) -> forallb (fun r => (r =? 0) || (r =? 1)) res = true.
Proof.
  intros Hb. unfold run_handler.
  destruct (run_ops e ops rws0) as [[fr1 s1] res1] eqn:Er. destruct (do_flush e true s1) as [fr2 s2].
  intro H; inversion H; subst. clear H. revert Er. generalize rws0. revert fr1 s1 res.
  induction ops as [|o r IH]; intros fr1 s1 res s0; simpl.
  - intro H; inversion H; reflexivity.
  - destruct (step e o s0) as [[f1 t1] r1] eqn:Es. destruct (run_ops e r t1) as [[f2 t2] r2] eqn:Er2.
    intro H; inversion H; subst. rewrite forallb_app, (IH _ _ _ _ Er2), andb_true_r.
    destruct o; cbn [step] in Es; cbv zeta in Es; try (inversion Es; reflexivity).
    + destruct (negb (body_allowed (status (write_header e 200 s0)))); [inversion Es; reflexivity|].
      match type of Es with context [if ?c then _ else _] => destruct c end; [inversion Es; reflexivity|].
      match type of Es with context [bw_write fuel_write e p ?S0 []] =>
        assert (Hf : bw_write fuel_write e p S0 [] <> None) by (apply (bw_write_fuel e 3); exact Hb);
        destruct (bw_write fuel_write e p S0 []) as [[x1 x2]|] end; [|exfalso; apply Hf; reflexivity].
      inversion Es; subst. destruct (berr t1); reflexivity.
    + destruct (do_flush e false s0) as [x1 x2]. inversion Es; reflexivity.
Qed.

(* the scheduler pass on a final 10-byte write against a 4-byte window and grants of 3: 4 + 3 + 3 bytes, END_STREAM last *)
Lemma wire_example :
  wire_frames 3 4 [FH false []; FD true [1;2;3;4;5;6;7;8;9;10]]
  = [FH false []; FD false [1;2;3;4]; FD false [5;6;7]; FD true [8;9;10]].
Proof. vm_compute. reflexivity. Qed.

(* ---------- the HEADERS/CONTINUATION split of a header block ---------- *)
Lemma split_block_nil fuel m : split_block fuel m [] = [].
Proof. destruct fuel; reflexivity. Qed.

Lemma blen_length (b : bytes) : blen b = Z.of_nat (length b). Proof. reflexivity. Qed.

(* one round of the loop: the fragment is a non-empty prefix of at most m bytes, the rest is strictly shorter *)
Lemma split_round m (b : bytes) :
  0 < m -> b <> [] ->
  let frag := if m <? blen b then firstn (Z.to_nat m) b else b in
  let rest := skipn (length frag) b in
  frag ++ rest = b /\ 0 < blen frag <= m /\ (length rest < length b)%nat
  /\ blen frag = (if m <? blen b then m else blen b) /\ blen rest = blen b - blen frag.
Proof.
  intros Hm Hb. cbv zeta. unfold blen.
  assert (Hlb : (0 < length b)%nat) by (destruct b; [contradiction|simpl; lia]).
  destruct (m <? Z.of_nat (length b)) eqn:E.
  - apply Z.ltb_lt in E.
    assert (Hk : (Z.to_nat m <= length b)%nat) by lia.
    rewrite (firstn_length_le b Hk). rewrite firstn_skipn, skipn_length.
    split; [reflexivity|]. split; [lia|]. split; [lia|]. split; lia.
  - apply Z.ltb_ge in E. rewrite skipn_all, app_nil_r. simpl length.
    split; [reflexivity|]. split; [lia|]. split; [lia|]. split; lia.
Qed.

Theorem split_block_ok m : 0 < m -> forall fuel b, (length b <= fuel)%nat ->
  let fs := split_block fuel m b in
  concat (map fst fs) = b
  /\ Forall (fun x => 0 < blen (fst x) <= m) fs
  /\ (b <> [] -> exists pre l, fs = pre ++ [(l, true)] /\ Forall (fun x => snd x = false) pre).
Proof.
  intro Hm. induction fuel as [|f IH]; intros b Hl; cbv zeta.
  - destruct b; [|simpl in Hl; lia]. simpl. split; [reflexivity|]. split; [constructor|]. intro H; contradiction.
  - destruct b as [|c r]; [simpl; split; [reflexivity|]; split; [constructor|]; intro H; contradiction|].
    assert (Hb : c :: r <> []) by discriminate.
    destruct (split_round m (c :: r) Hm Hb) as [Hcat [Hlen [Hshort _]]]. cbv zeta in *.
    cbn [split_block].
    remember (c :: r) as b eqn:Eb.
    set (frag := if m <? blen b then firstn (Z.to_nat m) b else b) in *.
    set (rest := skipn (length frag) b) in *.
    assert (Hrl : (length rest <= f)%nat) by lia.
    destruct (IH rest Hrl) as [I1 [I2 I3]]. cbv zeta in *.
    cbn [map fst concat]. rewrite I1. split; [exact Hcat|]. split; [constructor; [exact Hlen|exact I2]|].
    intros _. destruct rest as [|r0 rr] eqn:Er.
    + rewrite split_block_nil. exists [], frag. split; [reflexivity|constructor].
    + rewrite <- Er in *. assert (Hr : rest <> []) by (rewrite Er; discriminate).
      destruct (I3 Hr) as [pre [l [E Hp]]]. exists ((frag, false) :: pre), l. rewrite E.
      split; [reflexivity|]. constructor; [reflexivity|exact Hp].
Qed.

(* the statement for the real constant *)
Theorem header_fragments_ok b :
  let fs := header_fragments b in
  concat (map fst fs) = b
  /\ Forall (fun x => 0 < blen (fst x) <= max_hdr_frame) fs
  /\ (b <> [] -> exists pre l, fs = pre ++ [(l, true)] /\ Forall (fun x => snd x = false) pre).
Proof. apply split_block_ok; [reflexivity|apply Nat.le_refl]. Qed.

(* lengths: the executable split the harness observation is validated against is the split of the block *)
Definition frag_len (x : bytes * bool) : Z * bool := (blen (fst x), snd x).

Lemma split_lens_block m : 0 < m -> forall fuel b, map frag_len (split_block fuel m b) = split_lens fuel m (blen b).
Proof.
  intro Hm. induction fuel as [|f IH]; intros b; [reflexivity|].
  destruct b as [|c r]; [reflexivity|].
  assert (Hb : c :: r <> []) by discriminate.
  destruct (split_round m (c :: r) Hm Hb) as [_ [Hlen [_ [Hfl Hrl]]]]. cbv zeta in *.
  cbn [split_block split_lens]. remember (c :: r) as b eqn:Eb.
  set (frag := if m <? blen b then firstn (Z.to_nat m) b else b) in *.
  set (rest := skipn (length frag) b) in *.
  assert (Hpos : (blen b <=? 0) = false) by (apply Z.leb_gt; subst b; unfold blen; simpl length; lia).
  rewrite Hpos. cbn [map]. rewrite IH, Hrl. unfold frag_len at 1. cbn [fst snd]. rewrite Hfl.
  f_equal. f_equal. rewrite <- Hfl, <- Hrl.
  destruct rest as [|r0 rr]; [reflexivity|]. unfold blen. simpl length. symmetry. apply Z.eqb_neq. lia.
Qed.

Lemma split_lens_fuel m : 0 < m -> forall f1 f2 l,
  l <= Z.of_nat f1 * m -> l <= Z.of_nat f2 * m -> split_lens f1 m l = split_lens f2 m l.
Proof.
  intro Hm. induction f1 as [|f1 IH]; intros f2 l H1 H2.
  - assert (l <= 0) by lia. destruct f2; [reflexivity|]. simpl.
    replace (l <=? 0) with true by (symmetry; apply Z.leb_le; lia). reflexivity.
  - destruct f2 as [|f2].
    + assert (l <= 0) by lia. simpl. replace (l <=? 0) with true by (symmetry; apply Z.leb_le; lia). reflexivity.
    + cbn [split_lens]. destruct (l <=? 0) eqn:E; [reflexivity|]. apply Z.leb_gt in E.
      f_equal. apply IH; destruct (m <? l) eqn:Em;
        try (apply Z.ltb_lt in Em); try (apply Z.ltb_ge in Em); rewrite ?Nat2Z.inj_succ in *; nia.
Qed.

Theorem header_fragment_lens_of_block b :
  header_fragment_lens (blen b) = map frag_len (header_fragments b).
Proof.
  unfold header_fragment_lens, header_fragments.
  rewrite (split_lens_block max_hdr_frame eq_refl).
  apply (split_lens_fuel max_hdr_frame eq_refl).
  - rewrite Nat2Z.inj_add, Z2Nat.id by (apply Z.div_pos; [unfold blen; lia|reflexivity]).
    pose proof (Z.mul_succ_div_gt (blen b) max_hdr_frame eq_refl). unfold max_hdr_frame in *. lia.
  - unfold blen, max_hdr_frame. nia.
Qed.

(* the executable predicate of prop_C38 on the fragment lengths holds of the model's split of every non-empty block *)
Lemma block_ok_split m : 0 < m -> m = max_hdr_frame -> forall fuel l,
  0 < l -> l <= Z.of_nat fuel * m -> block_ok (split_lens fuel m l) = true.
Proof.
  intros Hm Em. induction fuel as [|f IH]; intros l Hl Hf; [simpl in Hf; lia|].
  cbn [split_lens]. replace (l <=? 0) with false by (symmetry; apply Z.leb_gt; lia).
  destruct (m <? l) eqn:E.
  - apply Z.ltb_lt in E. replace (l - m =? 0) with false by (symmetry; apply Z.eqb_neq; lia).
    assert (Hrec : block_ok (split_lens f m (l - m)) = true)
      by (apply IH; [lia|rewrite Nat2Z.inj_succ in Hf; nia]).
    destruct (split_lens f m (l - m)) as [|y ys] eqn:Es; [discriminate|].
    change (block_ok ((m, false) :: y :: ys)) with ((0 <? m) && (m <=? max_hdr_frame) && negb false && block_ok (y :: ys)).
    rewrite Hrec. rewrite <- Em.
    replace (0 <? m) with true by (symmetry; apply Z.ltb_lt; lia). rewrite Z.leb_refl. reflexivity.
  - apply Z.ltb_ge in E. replace (l - l) with 0 by lia. cbn [Z.eqb].
    assert (Hn : split_lens f m 0 = []) by (destruct f; reflexivity). rewrite Hn. cbn [block_ok].
    replace (0 <? l) with true by (symmetry; apply Z.ltb_lt; lia). rewrite <- Em.
    replace (l <=? m) with true by (symmetry; apply Z.leb_le; lia). reflexivity.
Qed.

Theorem header_fragment_lens_ok l : 0 < l -> block_ok (header_fragment_lens l) = true.
Proof.
  intro Hl. unfold header_fragment_lens. apply (block_ok_split max_hdr_frame eq_refl eq_refl); [exact Hl|].
  rewrite Nat2Z.inj_add, Z2Nat.id by (apply Z.div_pos; [lia|reflexivity]).
  pose proof (Z.mul_succ_div_gt l max_hdr_frame eq_refl). unfold max_hdr_frame in *. lia.
Qed.

Lemma header_fragments_examples :
  map snd (header_fragment_lens 16383) = [true] /\ header_fragment_lens 16384 = [(16384, true)]
  /\ header_fragment_lens 16385 = [(16384, false); (1, true)]
  /\ header_fragment_lens 32768 = [(16384, false); (16384, true)]
  /\ header_fragment_lens 32769 = [(16384, false); (16384, false); (1, true)].
Proof. vm_compute. repeat split; reflexivity. Qed.
