(* Proofs about the HTTP/2 response-writer model (C38). *)
From Coq Require Import List ZArith Bool Lia.
From Bfe Require Import lib.Val lib.Bytes model.H2Resp run.RunC38.
Import ListNotations.
Open Scope Z_scope.

Definition no_end (fs : list frame) : Prop := forall f, In f fs -> f_end f = false.
(* exactly one END_STREAM, on the last frame *)
Definition ends_once (fs : list frame) : Prop :=
  exists pre l, fs = pre ++ [l] /\ no_end pre /\ f_end l = true.

Lemma no_end_nil : no_end []. Proof. intros f []. Qed.
Lemma no_end_app a b : no_end a -> no_end b -> no_end (a ++ b).
Proof. intros Ha Hb f Hf. apply in_app_or in Hf. destruct Hf; auto. Qed.
Lemma no_end_one f : f_end f = false -> no_end [f].
Proof. intros H g [<-|[]]. exact H. Qed.

(* ---------- write_header ---------- *)
Lemma wh_sentH e c s : sentH (write_header e c s) = sentH s.
Proof. unfold write_header. destruct (wroteH s); reflexivity. Qed.
Lemma wh_buf e c s : buf (write_header e c s) = buf s.
Proof. unfold write_header. destruct (wroteH s); reflexivity. Qed.
Lemma wh_berr e c s : berr (write_header e c s) = berr s.
Proof. unfold write_header. destruct (wroteH s); reflexivity. Qed.

(* ---------- first_headers ---------- *)
Lemma first_headers_shape e done p s f s1 es :
  first_headers e done p s = (f, s1, es) ->
  (exists fl, f = FH es fl) /\ sentH s1 = true /\ buf s1 = buf s /\ berr s1 = berr s
  /\ es = (done && match trailers s1 with [] => true | _ => false end && (blen p =? 0)) || e_head e.
Proof.
  unfold first_headers. cbv zeta.
  match goal with |- (match ?X with pair _ _ => _ end) = _ -> _ => destruct X as [[snp scl] clen1] end.
  intro H. inversion H; subst. clear H. simpl.
  split; [eexists; reflexivity|]. repeat split; reflexivity.
Qed.

(* ---------- body_frames ---------- *)
Lemma body_frames_state done p s1 fr s2 lost :
  body_frames done p s1 = (fr, s2, lost) ->
  sentH s2 = sentH s1 /\ buf s2 = buf s1 /\ berr s2 = berr s1.
Proof.
  unfold body_frames.
  destruct (if done then promote (hh s1) (trailers s1) else (hh s1, trailers s1)) as [h2 tr2].
  destruct (done && match tr2 with [] => false | _ => true end).
  - destruct (encode_headers h2 tr2); intro H; inversion H; subst; simpl; repeat split; reflexivity.
  - intro H; inversion H; subst; simpl; repeat split; reflexivity.
Qed.

Lemma body_frames_notdone p s1 fr s2 lost :
  body_frames false p s1 = (fr, s2, lost) -> no_end fr /\ lost = false.
Proof.
  unfold body_frames. simpl. intro H.
  destruct ((0 <? blen p) || false); inversion H; subst; split; try reflexivity.
  - apply no_end_one. reflexivity.
  - apply no_end_nil.
Qed.

Lemma body_frames_done p s1 fr s2 lost :
  body_frames true p s1 = (fr, s2, lost) ->
  if lost then no_end fr else ends_once fr.
Proof.
  unfold body_frames.
  destruct (promote (hh s1) (trailers s1)) as [h2 tr2].
  remember (encode_headers h2 tr2) as enc eqn:Eenc. clear Eenc.
  destruct tr2 as [|t tr2]; cbn [andb negb].
  - rewrite orb_true_r. intro H. inversion H; subst.
    exists [], (FD true p). split; [reflexivity|]. split; [apply no_end_nil|reflexivity].
  - rewrite orb_false_r.
    destruct enc as [|fl0 fl]; intro H; inversion H; subst.
    + destruct (0 <? blen p); [apply no_end_one; reflexivity|apply no_end_nil].
    + exists (if 0 <? blen p then [FD false p] else []), (FH true (fl0 :: fl)).
      split; [reflexivity|]. split; [|reflexivity].
      destruct (0 <? blen p); [apply no_end_one; reflexivity|apply no_end_nil].
Qed.

(* ---------- write_chunk ---------- *)
(* the state components that matter for the bufio layer *)
Lemma write_chunk_state e done p s fr n s' lost :
  write_chunk e done p s = (fr, n, s', lost) ->
  sentH s' = true /\ buf s' = buf s /\ berr s' = berr s.
Proof.
  unfold write_chunk.
  pose proof (wh_sentH e 200 s) as Hs. pose proof (wh_buf e 200 s) as Hb. pose proof (wh_berr e 200 s) as He.
  set (s0 := write_header e 200 s) in *.
  destruct (sentH s0) eqn:Es0.
  - cbn iota beta.
    destruct (e_head e); [intro H; inversion H; subst; rewrite Es0, Hb, He; repeat split; reflexivity|].
    destruct ((blen p =? 0) && negb done); [intro H; inversion H; subst; rewrite Es0, Hb, He; repeat split; reflexivity|].
    destruct (body_frames done p s0) as [[fr2 s2] l2] eqn:Eb. intro H; inversion H; subst.
    destruct (body_frames_state _ _ _ _ _ _ Eb) as [A [B C]]. rewrite A, B, C, Es0, Hb, He. repeat split; reflexivity.
  - destruct (first_headers e done p s0) as [[f s1] es] eqn:Ef.
    destruct (first_headers_shape _ _ _ _ _ _ _ Ef) as [_ [A [B [C _]]]].
    destruct es; [intro H; inversion H; subst; rewrite A, B, C, Hb, He; repeat split; reflexivity|].
    destruct (e_head e); [intro H; inversion H; subst; rewrite A, B, C, Hb, He; repeat split; reflexivity|].
    destruct ((blen p =? 0) && negb done); [intro H; inversion H; subst; rewrite A, B, C, Hb, He; repeat split; reflexivity|].
    destruct (body_frames done p s1) as [[fr2 s2] l2] eqn:Eb. intro H; inversion H; subst.
    destruct (body_frames_state _ _ _ _ _ _ Eb) as [A' [B' C']]. rewrite A', B', C', A, B, C, Hb, He. repeat split; reflexivity.
Qed.

(* not done, not HEAD: no END_STREAM, everything accepted *)
Lemma write_chunk_notdone e p s fr n s' lost :
  e_head e = false -> write_chunk e false p s = (fr, n, s', lost) ->
  no_end fr /\ n = blen p /\ lost = false.
Proof.
  intro Hh. unfold write_chunk. rewrite Hh.
  set (s0 := write_header e 200 s).
  destruct (sentH s0) eqn:Es0.
  - cbn iota beta. rewrite andb_true_r.
    destruct (blen p =? 0) eqn:Ep.
    + intro H; inversion H; subst. apply Z.eqb_eq in Ep. repeat split; [apply no_end_nil|lia].
    + destruct (body_frames false p s0) as [[fr2 s2] l2] eqn:Eb. intro H; inversion H; subst.
      destruct (body_frames_notdone _ _ _ _ _ Eb) as [A B]. repeat split; assumption.
  - destruct (first_headers e false p s0) as [[f s1] es] eqn:Ef.
    destruct (first_headers_shape _ _ _ _ _ _ _ Ef) as [[fl Hf] [_ [_ [_ Hes]]]].
    rewrite Hh in Hes. simpl in Hes. subst es f. rewrite andb_true_r.
    destruct (blen p =? 0) eqn:Ep.
    + intro H; inversion H; subst. apply Z.eqb_eq in Ep. repeat split; [apply no_end_one; reflexivity|lia].
    + destruct (body_frames false p s1) as [[fr2 s2] l2] eqn:Eb. intro H; inversion H; subst.
      destruct (body_frames_notdone _ _ _ _ _ Eb) as [A B]. repeat split; [|assumption].
      apply (no_end_app [FH false fl] fr2); [apply no_end_one; reflexivity|assumption].
Qed.

(* done, not HEAD: exactly one END_STREAM at the end, unless the trailers frame was lost *)
Lemma write_chunk_done e p s fr n s' lost :
  e_head e = false -> write_chunk e true p s = (fr, n, s', lost) ->
  if lost then no_end fr else ends_once fr.
Proof.
  intro Hh. unfold write_chunk. rewrite Hh.
  set (s0 := write_header e 200 s).
  destruct (sentH s0) eqn:Es0.
  - cbn iota beta. rewrite andb_false_r.
    destruct (body_frames true p s0) as [[fr2 s2] l2] eqn:Eb. intro H; inversion H; subst.
    apply (body_frames_done _ _ _ _ _ Eb).
  - destruct (first_headers e true p s0) as [[f s1] es] eqn:Ef.
    destruct (first_headers_shape _ _ _ _ _ _ _ Ef) as [[fl Hf] [_ [_ [_ Hes]]]].
    subst f. destruct es.
    + intro H; inversion H; subst. exists [], (FH true fl). split; [reflexivity|]. split; [apply no_end_nil|reflexivity].
    + rewrite andb_false_r.
      destruct (body_frames true p s1) as [[fr2 s2] l2] eqn:Eb. intro H; inversion H; subst.
      pose proof (body_frames_done _ _ _ _ _ Eb) as Hd. destruct lost.
      * apply (no_end_app [FH false fl] fr2); [apply no_end_one; reflexivity|exact Hd].
      * destruct Hd as [pre [l [E [Hp Hl]]]]. exists (FH false fl :: pre), l. rewrite E. split; [reflexivity|].
        split; [|exact Hl]. intros g [<-|Hg]; [reflexivity|apply Hp, Hg].
Qed.

(* HEAD: the first call writes one HEADERS frame with END_STREAM, later calls write nothing *)
Lemma write_chunk_head e done p s fr n s' lost :
  e_head e = true -> write_chunk e done p s = (fr, n, s', lost) ->
  lost = false /\ (if sentH s then fr = [] else exists fl, fr = [FH true fl]).
Proof.
  intro Hh. unfold write_chunk. rewrite Hh. rewrite <- (wh_sentH e 200 s).
  set (s0 := write_header e 200 s).
  destruct (sentH s0) eqn:Es0.
  - cbn iota beta. intro H; inversion H; subst. split; reflexivity.
  - destruct (first_headers e done p s0) as [[f s1] es] eqn:Ef.
    destruct (first_headers_shape _ _ _ _ _ _ _ Ef) as [[fl Hf] [_ [_ [_ Hes]]]].
    rewrite Hh, orb_true_r in Hes. subst es f.
    intro H; inversion H; subst. split; [reflexivity|]. exists fl. reflexivity.
Qed.

(* ---------- bufio ---------- *)
Lemma set_buf_sentH s b er : sentH (set_buf s b er) = sentH s. Proof. reflexivity. Qed.

(* non-HEAD *)
Lemma bw_flush_notdone e s fr s' lost :
  e_head e = false -> berr s = false -> bw_flush e false s = (fr, s', lost) ->
  no_end fr /\ berr s' = false.
Proof.
  intros Hh Hb. unfold bw_flush. rewrite Hb.
  destruct (buf s) as [|b0 br] eqn:Ebuf; [intro H; inversion H; subst; split; [apply no_end_nil|exact Hb]|].
  destruct (write_chunk e false (b0 :: br) s) as [[[fr1 n] s1] l1] eqn:Ew.
  destruct (write_chunk_notdone _ _ _ _ _ _ _ Hh Ew) as [A [B C]].
  rewrite B, Z.ltb_irrefl. intro H; inversion H; subst. split; [exact A|reflexivity].
Qed.

Lemma bw_write_notdone e : e_head e = false -> forall fuel p s acc fr s',
  berr s = false -> no_end acc -> bw_write fuel e p s acc = Some (fr, s') ->
  no_end fr /\ berr s' = false.
Proof.
  intro Hh. induction fuel as [|f IH]; intros p s acc fr s' Hb Ha; simpl; rewrite Hb; simpl.
  - destruct (e_bsz e - blen (buf s) <? blen p); [discriminate|].
    intro H; inversion H; subst. split; [exact Ha|reflexivity].
  - destruct (e_bsz e - blen (buf s) <? blen p).
    + simpl. destruct (buf s) as [|b0 br] eqn:Ebuf.
      * destruct (write_chunk e false p s) as [[[fr1 n] s1] l1] eqn:Ew.
        destruct (write_chunk_notdone _ _ _ _ _ _ _ Hh Ew) as [A [B C]].
        destruct (write_chunk_state _ _ _ _ _ _ _ _ Ew) as [_ [_ D]].
        apply IH; [rewrite D; exact Hb|apply no_end_app; assumption].
      * destruct (bw_flush e false (set_buf s ((b0 :: br) ++ firstn (Z.to_nat (e_bsz e - blen (b0 :: br))) p) false))
          as [[fr1 s1] l1] eqn:Ef.
        destruct (bw_flush_notdone e _ fr1 s1 l1 Hh (eq_refl : berr (set_buf s _ false) = false) Ef) as [A B].
        apply IH; [exact B|apply no_end_app; assumption].
    + simpl. intro H; inversion H; subst. split; [exact Ha|reflexivity].
Qed.

(* HEAD: invariant between the state and the frames written so far *)
Definition head_inv (s : rws) (fs : list frame) : Prop :=
  (if sentH s then exists fl, fs = [FH true fl] else fs = []) /\ (berr s = true -> sentH s = true).

Lemma head_chunk e done p s acc fr n s' lost :
  e_head e = true -> head_inv s acc -> write_chunk e done p s = (fr, n, s', lost) ->
  lost = false /\ (if sentH s' then exists fl, acc ++ fr = [FH true fl] else acc ++ fr = []) /\ sentH s' = true.
Proof.
  intros Hh [Hi _] Hw.
  destruct (write_chunk_head _ _ _ _ _ _ _ _ Hh Hw) as [A B].
  destruct (write_chunk_state _ _ _ _ _ _ _ _ Hw) as [C _]. rewrite C. split; [exact A|]. split; [|reflexivity].
  destruct (sentH s).
  - subst fr. rewrite app_nil_r. exact Hi.
  - subst acc. exact B.
Qed.

Lemma head_flush e done s acc fr s' lost :
  e_head e = true -> head_inv s acc -> bw_flush e done s = (fr, s', lost) ->
  lost = false /\ head_inv s' (acc ++ fr).
Proof.
  intros Hh Hi. unfold bw_flush.
  destruct (berr s) eqn:Eb; [intro H; inversion H; subst; rewrite app_nil_r; split; [reflexivity|exact Hi]|].
  destruct (buf s) as [|b0 br] eqn:Ebuf; [intro H; inversion H; subst; rewrite app_nil_r; split; [reflexivity|exact Hi]|].
  destruct (write_chunk e done (b0 :: br) s) as [[[fr1 n] s1] l1] eqn:Ew.
  destruct (head_chunk _ _ _ _ _ _ _ _ _ Hh Hi Ew) as [A [B C]].
  destruct (n <? blen (b0 :: br)); intro H; inversion H; subst; (split; [reflexivity|]);
    split; simpl; rewrite ?C in *; try exact B; intros _; reflexivity.
Qed.

Lemma head_write e : e_head e = true -> forall fuel p s acc fr s',
  head_inv s acc -> bw_write fuel e p s acc = Some (fr, s') -> head_inv s' fr.
Proof.
  intro Hh. induction fuel as [|f IH]; intros p s acc fr s' Hi; simpl.
  - destruct ((e_bsz e - blen (buf s) <? blen p) && negb (berr s)); [discriminate|].
    destruct (berr s) eqn:Eb; intro H; inversion H; subst; [exact Hi|].
    destruct Hi as [A B]. split; simpl; [exact A|discriminate].
  - destruct ((e_bsz e - blen (buf s) <? blen p) && negb (berr s)) eqn:Ec.
    + apply andb_true_iff in Ec. destruct Ec as [_ Ec]. apply negb_true_iff in Ec.
      destruct (buf s) as [|b0 br] eqn:Ebuf.
      * destruct (write_chunk e false p s) as [[[fr1 n] s1] l1] eqn:Ew.
        destruct (head_chunk _ _ _ _ _ _ _ _ _ Hh Hi Ew) as [A [B C]].
        destruct (write_chunk_state _ _ _ _ _ _ _ _ Ew) as [_ [_ D]].
        apply IH. split; [exact B|intros _; exact C].
      * destruct (bw_flush e false (set_buf s ((b0 :: br) ++ firstn (Z.to_nat (e_bsz e - blen (b0 :: br))) p) false))
          as [[fr1 s1] l1] eqn:Ef.
        assert (Hi' : head_inv (set_buf s ((b0 :: br) ++ firstn (Z.to_nat (e_bsz e - blen (b0 :: br))) p) false) acc)
          by (destruct Hi as [A B]; split; simpl; [exact A|discriminate]).
        destruct (head_flush _ _ _ _ _ _ _ Hh Hi' Ef) as [_ B]. apply IH. exact B.
    + destruct (berr s) eqn:Eb; intro H; inversion H; subst; [exact Hi|].
      destruct Hi as [A B]. split; simpl; [exact A|discriminate].
Qed.

(* ---------- scripts ---------- *)
Lemma do_flush_notdone e s fr s' lost :
  e_head e = false -> berr s = false -> do_flush e false s = (fr, s', lost) -> no_end fr /\ berr s' = false.
Proof.
  intros Hh Hb. unfold do_flush. destruct (buf s) eqn:Ebuf.
  - destruct (write_chunk e false [] s) as [[[fr1 n] s1] l1] eqn:Ew. intro H; inversion H; subst.
    destruct (write_chunk_notdone _ _ _ _ _ _ _ Hh Ew) as [A _].
    destruct (write_chunk_state _ _ _ _ _ _ _ _ Ew) as [_ [_ D]]. split; [exact A|rewrite D; exact Hb].
  - apply bw_flush_notdone; assumption.
Qed.

Lemma step_notdone e o s fr s' res :
  e_head e = false -> berr s = false -> step e o s = (fr, s', res) -> no_end fr /\ berr s' = false.
Proof.
  intros Hh Hb. destruct o; simpl.
  - intro H; inversion H; subst. split; [apply no_end_nil|exact Hb].
  - intro H; inversion H; subst. split; [apply no_end_nil|exact Hb].
  - intro H; inversion H; subst. split; [apply no_end_nil|rewrite wh_berr; exact Hb].
  - destruct (negb (body_allowed (status (write_header e 200 s))));
      [intro H; inversion H; subst; split; [apply no_end_nil|rewrite wh_berr; exact Hb]|].
    match goal with |- context [if ?c then _ else _] => destruct c end;
      [intro H; inversion H; subst; split; [apply no_end_nil|simpl; rewrite wh_berr; exact Hb]|].
    match goal with |- context [bw_write fuel_write e p ?S []] =>
      destruct (bw_write fuel_write e p S []) as [[fr1 s1]|] eqn:Ew end;
      [|intro H; inversion H; subst; split; [apply no_end_nil|simpl; rewrite wh_berr; exact Hb]].
    intro H; inversion H; subst.
    eapply (bw_write_notdone e Hh); [| |exact Ew]; [simpl; rewrite wh_berr; exact Hb|apply no_end_nil].
  - destruct (do_flush e false s) as [[fr1 s1] l1] eqn:Ef. intro H; inversion H; subst.
    eapply do_flush_notdone; eassumption.
Qed.

Lemma run_ops_notdone e : e_head e = false -> forall ops s fr s' res,
  berr s = false -> run_ops e ops s = (fr, s', res) -> no_end fr /\ berr s' = false.
Proof.
  intro Hh. induction ops as [|o r IH]; intros s fr s' res Hb; simpl.
  - intro H; inversion H; subst. split; [apply no_end_nil|exact Hb].
  - destruct (step e o s) as [[fr1 s1] res1] eqn:Es.
    destruct (run_ops e r s1) as [[fr2 s2] res2] eqn:Er. intro H; inversion H; subst.
    destruct (step_notdone _ _ _ _ _ _ Hh Hb Es) as [A B].
    destruct (IH _ _ _ _ B Er) as [C D]. split; [apply no_end_app; assumption|exact D].
Qed.

Lemma head_inv_hdr s acc h : head_inv s acc -> head_inv (set_hh s h) acc.
Proof. intro H. exact H. Qed.

Lemma do_flush_head e done s acc fr s' lost :
  e_head e = true -> head_inv s acc -> do_flush e done s = (fr, s', lost) ->
  lost = false /\ head_inv s' (acc ++ fr).
Proof.
  intros Hh Hi. unfold do_flush. destruct (buf s) eqn:Ebuf.
  - destruct (write_chunk e done [] s) as [[[fr1 n] s1] l1] eqn:Ew. intro H; inversion H; subst.
    destruct (head_chunk _ _ _ _ _ _ _ _ _ Hh Hi Ew) as [A [B C]]. split; [exact A|].
    split; [exact B|intros _; exact C].
  - apply head_flush; assumption.
Qed.

Lemma wh_head_inv e c s acc : head_inv s acc -> head_inv (write_header e c s) acc.
Proof. intros [A B]. split; rewrite ?wh_sentH, ?wh_berr; assumption. Qed.

Lemma step_head e o s acc fr s' res :
  e_head e = true -> head_inv s acc -> step e o s = (fr, s', res) -> head_inv s' (acc ++ fr).
Proof.
  intros Hh Hi. destruct o; simpl.
  - intro H; inversion H; subst. rewrite app_nil_r. exact Hi.
  - intro H; inversion H; subst. rewrite app_nil_r. exact Hi.
  - intro H; inversion H; subst. rewrite app_nil_r. apply wh_head_inv, Hi.
  - destruct (negb (body_allowed (status (write_header e 200 s))));
      [intro H; inversion H; subst; rewrite app_nil_r; apply wh_head_inv, Hi|].
    match goal with |- context [if ?c then _ else _] => destruct c end;
      [intro H; inversion H; subst; rewrite app_nil_r; apply (wh_head_inv e 200 s acc Hi)|].
    match goal with |- context [bw_write fuel_write e p ?S []] =>
      destruct (bw_write fuel_write e p S []) as [[fr1 s1]|] eqn:Ew end;
      [|intro H; inversion H; subst; rewrite app_nil_r; apply (wh_head_inv e 200 s acc Hi)].
    intro H; inversion H; subst.
    (* bw_write started from acc = []: replay it from acc *)
    assert (G : forall fuel p s0 a0 fr0 s0', bw_write fuel e p s0 a0 = Some (fr0, s0') ->
                forall pre, bw_write fuel e p s0 (pre ++ a0) = Some (pre ++ fr0, s0')).
    { induction fuel as [|f IHf]; intros p0 s0 a0 fr0 s0' Hw pre; simpl in *.
      - destruct ((e_bsz e - blen (buf s0) <? blen p0) && negb (berr s0)); [discriminate|].
        destruct (berr s0); inversion Hw; subst; reflexivity.
      - destruct ((e_bsz e - blen (buf s0) <? blen p0) && negb (berr s0)).
        + destruct (buf s0).
          * destruct (write_chunk e false p0 s0) as [[[x1 x2] x3] x4]. rewrite <- app_assoc. apply IHf. exact Hw.
          * destruct (bw_flush e false _) as [[x1 x2] x3]. rewrite <- app_assoc. apply IHf. exact Hw.
        + destruct (berr s0); inversion Hw; subst; reflexivity. }
    specialize (G _ _ _ _ _ _ Ew acc). rewrite app_nil_r in G.
    eapply (head_write e Hh); [|exact G]. apply (wh_head_inv e 200 s acc Hi).
  - destruct (do_flush e false s) as [[fr1 s1] l1] eqn:Ef. intro H; inversion H; subst.
    eapply do_flush_head; eassumption.
Qed.

Lemma run_ops_head e : e_head e = true -> forall ops s acc fr s' res,
  head_inv s acc -> run_ops e ops s = (fr, s', res) -> head_inv s' (acc ++ fr).
Proof.
  intro Hh. induction ops as [|o r IH]; intros s acc fr s' res Hi; simpl.
  - intro H; inversion H; subst. rewrite app_nil_r. exact Hi.
  - destruct (step e o s) as [[fr1 s1] res1] eqn:Es.
    destruct (run_ops e r s1) as [[fr2 s2] res2] eqn:Er. intro H; inversion H; subst.
    rewrite app_assoc. eapply IH; [|exact Er]. eapply step_head; eassumption.
Qed.

(* ---------- the headline theorem ---------- *)
Theorem end_stream_exactly_once_and_last e ops fr res s lost :
  run_handler e ops = (fr, res, s, lost) ->
  (lost = false -> ends_once fr) /\ (lost = true -> no_end fr /\ e_head e = false).
Proof.
  unfold run_handler.
  destruct (run_ops e ops rws0) as [[fr1 s1] res1] eqn:Er.
  destruct (do_flush e true s1) as [[fr2 s2] l2] eqn:Ef.
  intro H; inversion H; subst. clear H.
  destruct (e_head e) eqn:Hh.
  - (* HEAD *)
    assert (Hi0 : head_inv rws0 []) by (split; simpl; [reflexivity|discriminate]).
    pose proof (run_ops_head e Hh ops rws0 [] fr1 s1 res Hi0 Er) as Hi1. simpl in Hi1.
    destruct (do_flush_head _ _ _ _ _ _ _ Hh Hi1 Ef) as [A [B C]]. subst lost.
    split; [intros _|discriminate].
    assert (Hs : sentH s = true).
    { (* the final flush either calls write_chunk (sentH becomes true) or finds the sticky error (sentH already true) *)
      unfold do_flush in Ef. destruct (buf s1) eqn:Ebuf.
      - destruct (write_chunk e true [] s1) as [[[x1 x2] x3] x4] eqn:Ew. inversion Ef; subst.
        destruct (write_chunk_state _ _ _ _ _ _ _ _ Ew) as [D _]. exact D.
      - unfold bw_flush in Ef. rewrite Ebuf in Ef. destruct (berr s1) eqn:Eb.
        + inversion Ef; subst. destruct Hi1 as [_ D]. apply D. reflexivity.
        + destruct (write_chunk e true (z :: l) s1) as [[[x1 x2] x3] x4] eqn:Ew.
          destruct (write_chunk_state _ _ _ _ _ _ _ _ Ew) as [D _].
          destruct (x2 <? blen (z :: l)); inversion Ef; subst; simpl; exact D. }
    rewrite Hs in B. destruct B as [fl B]. exists [], (FH true fl). rewrite B.
    split; [reflexivity|]. split; [apply no_end_nil|reflexivity].
  - (* GET *)
    destruct (run_ops_notdone e Hh ops rws0 fr1 s1 res eq_refl Er) as [A B].
    assert (Hd : if lost then no_end fr2 else ends_once fr2).
    { unfold do_flush in Ef. destruct (buf s1) eqn:Ebuf.
      - destruct (write_chunk e true [] s1) as [[[x1 x2] x3] x4] eqn:Ew. inversion Ef; subst.
        apply (write_chunk_done _ _ _ _ _ _ _ Hh Ew).
      - unfold bw_flush in Ef. rewrite B, Ebuf in Ef.
        destruct (write_chunk e true (z :: l) s1) as [[[x1 x2] x3] x4] eqn:Ew.
        pose proof (write_chunk_done _ _ _ _ _ _ _ Hh Ew) as Hd.
        destruct (x2 <? blen (z :: l)); inversion Ef; subst; exact Hd. }
    split; intro Hl; subst lost.
    + destruct Hd as [pre [l [E [Hp Hl]]]]. exists (fr1 ++ pre), l. rewrite E, app_assoc.
      split; [reflexivity|]. split; [apply no_end_app; assumption|exact Hl].
    + split; [apply no_end_app; assumption|reflexivity].
Qed.
