(* With maxStrLen = 0 the limited decoder functions are the unlimited ones. *)
From Coq Require Import List ZArith Bool Lia.
From Bfe Require Import lib.Val lib.Bytes gen.HpackTables model.Huffman model.Hpack.
Import ListNotations.
Open Scope Z_scope.

Section Lim0.
Variable hd : bytes -> hres.
Lemma read_string_lim0 p : read_string_lim hd 0 p = read_string hd p.
Proof.
  destruct p as [|b0 p0]; [reflexivity|]. unfold read_string_lim, read_string, too_long. cbn [Z.eqb negb andb].
  reflexivity.
Qed.
Lemma parse_literal_lim0 d n it p : parse_literal_lim hd 0 d n it p = parse_literal hd d n it p.
Proof. reflexivity. Qed.
Lemma parse_repr_lim0 first d p : parse_repr_lim hd 0 first d p = parse_repr hd first d p.
Proof. reflexivity. Qed.
Lemma parse_loop_lim0 : forall fuel first d buf acc, parse_loop_lim hd 0 fuel first d buf acc = parse_loop hd fuel first d buf acc.
Proof.
  induction fuel as [|f IH]; intros first d buf acc; destruct buf as [|b p0]; try reflexivity.
  cbn [parse_loop_lim parse_loop]. rewrite parse_repr_lim0.
  destruct (parse_repr hd first d (b :: p0)) as [[d' o] rest| |c|]; try reflexivity.
  destruct o as [x|]; unfold too_long; cbn [Z.eqb negb andb orb next_first]; apply IH.
Qed.
Lemma dec_write_lim0 d p : dec_write_lim hd 0 d p = dec_write hd d p.
Proof. destruct p; [reflexivity|]. unfold dec_write_lim, dec_write. rewrite parse_loop_lim0. reflexivity. Qed.
Lemma dec_run_lim0 : forall chunks d acc, dec_run_lim hd 0 d chunks acc = dec_run hd d chunks acc.
Proof.
  induction chunks as [|c r IH]; intros d acc; [reflexivity|]. cbn [dec_run_lim dec_run]. rewrite dec_write_lim0.
  destruct (dec_write hd d c) as [[d' fs] st]. destruct (st =? 0); [apply IH|reflexivity].
Qed.
End Lim0.
