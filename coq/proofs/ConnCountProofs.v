(* C07 proofs about model/ConnCount.v *)
From Coq Require Import List ZArith Bool Lia Arith.
From Bfe Require Import lib.Val model.ConnCount.
Import ListNotations.
Open Scope Z_scope.

Definition ind (o : option nat) (b : nat) : Z :=
  match o with Some x => if Nat.eqb x b then 1 else 0 | None => 0 end.

Lemma inflight_upd rs n rid r' b :
  (rid < n)%nat ->
  inflight (upd rs rid r') n b = inflight rs n b - ind (held (rs rid)) b + ind (held r') b.
Proof.
  induction n as [|n IH]; intro H; [lia|].
  cbn [inflight]. unfold upd at 2.
  destruct (Nat.eqb n rid) eqn:E.
  - apply Nat.eqb_eq in E. subst n.
    clear IH.
    assert (G : forall m, (m <= rid)%nat -> inflight (upd rs rid r') m b = inflight rs m b).
    { induction m as [|m IHm]; intro Hm; [reflexivity|]. cbn [inflight]. rewrite IHm by lia.
      unfold upd. destruct (Nat.eqb m rid) eqn:E2; [apply Nat.eqb_eq in E2; lia|reflexivity]. }
    rewrite G by lia. fold (ind (held r') b). fold (ind (held (rs rid)) b). lia.
  - apply Nat.eqb_neq in E. rewrite IH by lia. fold (ind (held (rs n)) b). lia.
Qed.

Lemma inflight_upd_out rs n rid r' b :
  (n <= rid)%nat -> inflight (upd rs rid r') n b = inflight rs n b.
Proof.
  induction n as [|n IH]; intro H; [reflexivity|]. cbn [inflight]. rewrite IH by lia.
  unfold upd. destruct (Nat.eqb n rid) eqn:E; [apply Nat.eqb_eq in E; lia|reflexivity].
Qed.

(* per-request invariant: the ghost `held` and request.Trans.Backend agree except between bal.Balance and IncConnNum *)
Definition rinv (r : rstate) : Prop :=
  match ph r with
  | PLoop | PDone => trans r = held r
  | PChosen => held r = None /\ trans r <> None
  | PSent => trans r = held r /\ trans r <> None
  | PFinished => held r = None
  end.

Definition inv (n : nat) (s : state) : Prop :=
  (forall b, counts s b = inflight (reqs s) n b) /\ (forall rid, rinv (reqs s rid)).

Lemma inv_init n : inv n s_init.
Proof.
  split; [|intro; reflexivity].
  intro b. cbn. induction n as [|n IH]; [reflexivity|]. cbn [inflight]. rewrite <- IH. reflexivity.
Qed.

Lemma upd_same {A} (f : nat -> A) k v : upd f k v k = v.
Proof. unfold upd. rewrite Nat.eqb_refl. reflexivity. Qed.

Lemma dec_at c x b : dec c x b = c b - (if Nat.eqb x b then 1 else 0).
Proof. unfold dec, upd. rewrite Nat.eqb_sym. destruct (Nat.eqb x b) eqn:E; [apply Nat.eqb_eq in E; subst; lia|lia]. Qed.
Lemma inc_at c x b : inc c x b = c b + (if Nat.eqb x b then 1 else 0).
Proof. unfold inc, upd. rewrite Nat.eqb_sym. destruct (Nat.eqb x b) eqn:E; [apply Nat.eqb_eq in E; subst; lia|lia]. Qed.
Lemma dec_opt_at c o b : dec_opt c o b = c b - ind o b.
Proof. destruct o as [x|]; cbn [dec_opt ind]; [apply dec_at|lia]. Qed.

Lemma rinv_upd rs rid r' :
  (forall k, rinv (rs k)) -> rinv r' -> forall k, rinv (upd rs rid r' k).
Proof. intros H Hr k. unfold upd. destruct (Nat.eqb k rid); auto. Qed.

Ltac close_counts Hlt Hc :=
  let b' := fresh "b'" in
  intro b'; cbn [counts reqs]; rewrite inflight_upd by exact Hlt; cbn [held];
  rewrite ?dec_opt_at, ?inc_at, Hc.

Lemma step_inv n s rid o s' :
  (rid < n)%nat -> inv n s -> step s rid o = Some s' -> inv n s'.
Proof.
  intros Hlt [Hc Hr] Hs. unfold step in Hs. pose proof (Hr rid) as Hrid. unfold rinv in Hrid.
  destruct (ph (reqs s rid)) eqn:P; destruct o; try discriminate.
  - (* PLoop BalanceOk *) inversion Hs; subst; clear Hs. split.
    + close_counts Hlt Hc. rewrite Hrid. cbn [ind]. lia.
    + cbn [reqs]. apply rinv_upd; [exact Hr|]. unfold rinv; cbn. split; [reflexivity|discriminate].
  - (* PLoop BalanceErr *) inversion Hs; subst; clear Hs. split.
    + close_counts Hlt Hc. lia.
    + cbn [reqs]. apply rinv_upd; [exact Hr|]. unfold rinv; cbn. exact Hrid.
  - (* PLoop TunnelPick *) destruct (trans (reqs s rid)) eqn:T; [discriminate|].
    inversion Hs; subst; clear Hs. split.
    + close_counts Hlt Hc. rewrite <- Hrid. cbn [ind]. lia.
    + cbn [reqs]. apply rinv_upd; [exact Hr|]. unfold rinv; cbn. split; [reflexivity|discriminate].
  - (* PLoop TunnelGiveUp *) destruct (trans (reqs s rid)) eqn:T; [discriminate|].
    inversion Hs; subst; clear Hs. split.
    + close_counts Hlt Hc. rewrite <- Hrid. cbn [ind]. lia.
    + cbn [reqs]. apply rinv_upd; [exact Hr|]. unfold rinv; cbn. reflexivity.
  - (* PChosen ForwardFinish *) inversion Hs; subst; clear Hs. destruct Hrid as [Hh Ht]. split.
    + close_counts Hlt Hc. lia.
    + cbn [reqs]. apply rinv_upd; [exact Hr|]. unfold rinv; cbn. symmetry; exact Hh.
  - (* PChosen ForwardGoOn *) destruct Hrid as [Hh Ht]. destruct (trans (reqs s rid)) as [b0|] eqn:T; [|discriminate].
    inversion Hs; subst; clear Hs. split.
    + close_counts Hlt Hc. rewrite Hh. cbn [ind]. lia.
    + cbn [reqs]. apply rinv_upd; [exact Hr|]. unfold rinv; cbn. split; [reflexivity|discriminate].
  - (* PSent RoundTrip *) inversion Hs; subst; clear Hs. destruct Hrid as [Hh Ht]. split.
    + close_counts Hlt Hc. lia.
    + cbn [reqs]. apply rinv_upd; [exact Hr|]. unfold rinv; cbn. destruct (r =? 1); cbn; exact Hh.
  - (* PSent TunnelDialFail *) inversion Hs; subst; clear Hs. destruct Hrid as [Hh Ht]. split.
    + close_counts Hlt Hc. rewrite Hh. cbn [ind]. lia.
    + cbn [reqs]. apply rinv_upd; [exact Hr|]. unfold rinv; cbn. reflexivity.
  - (* PSent TunnelEnd *) inversion Hs; subst; clear Hs. destruct Hrid as [Hh Ht]. split.
    + close_counts Hlt Hc. rewrite Hh. cbn [ind]. lia.
    + cbn [reqs]. apply rinv_upd; [exact Hr|]. unfold rinv; cbn. reflexivity.
  - (* PDone Finish *) inversion Hs; subst; clear Hs. split.
    + close_counts Hlt Hc. rewrite Hrid. cbn [ind]. lia.
    + cbn [reqs]. apply rinv_upd; [exact Hr|]. unfold rinv; cbn. reflexivity.
Qed.

(* reusing the slot of a request that holds nothing keeps the invariant *)
Lemma reset_inv n s rid : (rid < n)%nat -> inv n s -> held (reqs s rid) = None -> inv n (reset s rid).
Proof.
  intros Hlt [Hc Hr] Hh. split.
  - intro b. unfold reset. cbn [counts reqs]. rewrite inflight_upd by exact Hlt. rewrite Hh, Hc. cbn. lia.
  - unfold reset. cbn [reqs]. apply rinv_upd; [exact Hr|reflexivity].
Qed.

Lemma run_inv n t : forall s s',
  (forall rid o, In (rid, o) t -> (rid < n)%nat) -> inv n s -> run_ops s t = Some s' -> inv n s'.
Proof.
  induction t as [|[rid o] t IH]; intros s s' Hb Hi Hr; cbn in Hr.
  - inversion Hr; subst; exact Hi.
  - destruct (step s rid o) as [s1|] eqn:E; [|discriminate].
    apply (IH s1 s'); [intros; apply (Hb rid0 o0); right; assumption| |exact Hr].
    eapply step_inv; [|exact Hi|exact E]. apply (Hb rid o). left; reflexivity.
Qed.

(* headline: counts = in-flight requests, for every interleaving of any number of requests *)
Theorem count_equals_inflight n t s :
  (forall rid o, In (rid, o) t -> (rid < n)%nat) -> run_ops s_init t = Some s ->
  forall b, counts s b = inflight (reqs s) n b.
Proof. intros Hb Hr. exact (proj1 (run_inv n t s_init s Hb (inv_init n) Hr)). Qed.

Lemma inflight_nonneg rs n b : 0 <= inflight rs n b.
Proof. induction n as [|n IH]; cbn [inflight]; [lia|]. destruct (held (rs n)) as [x|]; [destruct (Nat.eqb x b)|]; lia. Qed.

Theorem count_nonneg n t s :
  (forall rid o, In (rid, o) t -> (rid < n)%nat) -> run_ops s_init t = Some s -> forall b, 0 <= counts s b.
Proof. intros Hb Hr b. rewrite (count_equals_inflight n t s Hb Hr). apply inflight_nonneg. Qed.

(* quiescence: every request is either untouched or has passed FinishReq *)
Definition quiescent (s : state) : Prop :=
  forall rid, ph (reqs s rid) = PFinished \/ reqs s rid = r_init.

Theorem zero_at_quiescence n t s :
  (forall rid o, In (rid, o) t -> (rid < n)%nat) -> run_ops s_init t = Some s -> quiescent s ->
  forall b, counts s b = 0.
Proof.
  intros Hb Hr Hq b. pose proof (run_inv n t s_init s Hb (inv_init n) Hr) as [Hc Hi].
  rewrite Hc. clear Hc. induction n as [|k IH]; [reflexivity|]. cbn [inflight].
  assert (Hh : held (reqs s k) = None).
  { destruct (Hq k) as [P|P]; [|rewrite P; reflexivity]. pose proof (Hi k) as R. unfold rinv in R. rewrite P in R. exact R. }
  rewrite Hh.
  assert (G : forall m, inflight (reqs s) m b = 0).
  { induction m as [|m IHm]; [reflexivity|]. cbn [inflight]. rewrite IHm.
    destruct (Hq m) as [P|P]; [pose proof (Hi m) as R; unfold rinv in R; rewrite P in R; rewrite R|rewrite P]; reflexivity. }
  rewrite G. reflexivity.
Qed.

(* the defect the repair removed: with the pre-fix step a forward-phase Finish drives the count to -1 *)
Theorem forward_finish_refuted_prefix :
  exists t s, runp_ops s_init t = Some s /\ counts s 0%nat = -1.
Proof.
  exists [(0%nat, BalanceOk 0%nat); (0%nat, ForwardFinish); (0%nat, Finish)].
  eexists. split; [reflexivity|reflexivity].
Qed.

(* the same trace on the repaired code *)
Example forward_finish_fixed :
  exists s, run_ops s_init [(0%nat, BalanceOk 0%nat); (0%nat, ForwardFinish); (0%nat, Finish)] = Some s /\ counts s 0%nat = 0.
Proof. eexists. split; reflexivity. Qed.

(* non-vacuity: two concurrent requests, one retried from backend 2 to backend 0, the other in flight on backend 0 *)
Example two_requests :
  exists s, run_ops s_init [(0%nat, BalanceOk 2%nat); (0%nat, ForwardGoOn); (1%nat, BalanceOk 0%nat); (1%nat, ForwardGoOn);
                        (0%nat, RoundTrip 1); (0%nat, BalanceOk 0%nat); (0%nat, ForwardGoOn)] = Some s
            /\ counts s 0%nat = 2 /\ counts s 2%nat = 0 /\ inflight (reqs s) 2 0%nat = 2.
Proof. eexists. split; [reflexivity|split; [reflexivity|split; reflexivity]]. Qed.

(* ---- the operation traces the harness derives (ConnCount.simulate) are valid traces of the model, and end in the
   state the harness assumes: finished, or in flight on the last chosen backend ---- *)
Lemma run_ops_app s t1 t2 :
  run_ops s (t1 ++ t2) = match run_ops s t1 with Some s1 => run_ops s1 t2 | None => None end.
Proof.
  revert s; induction t1 as [|[rid o] t1 IH]; intro s; [reflexivity|].
  cbn [app run_ops]. destruct (step s rid o); [apply IH|reflexivity].
Qed.

Lemma step_balance_ok s slot b :
  ph (reqs s slot) = PLoop ->
  exists s1, step s slot (BalanceOk b) = Some s1 /\ reqs s1 slot = mkR PChosen (Some b) None.
Proof. intro H. unfold step. rewrite H. eexists. split; [reflexivity|]. cbn [reqs]. apply upd_same. Qed.

Lemma step_balance_err s slot :
  ph (reqs s slot) = PLoop ->
  exists s1, step s slot BalanceErr = Some s1 /\ ph (reqs s1 slot) = PDone.
Proof. intro H. unfold step. rewrite H. eexists. split; [reflexivity|]. cbn [reqs]. rewrite upd_same. reflexivity. Qed.

Lemma step_forward_finish s slot b :
  reqs s slot = mkR PChosen (Some b) None ->
  exists s1, step s slot ForwardFinish = Some s1 /\ ph (reqs s1 slot) = PDone.
Proof. intro H. unfold step. rewrite H. cbn [ph]. eexists. split; [reflexivity|]. cbn [reqs]. rewrite upd_same. reflexivity. Qed.

Lemma step_forward_goon s slot b :
  reqs s slot = mkR PChosen (Some b) None ->
  exists s1, step s slot ForwardGoOn = Some s1 /\ reqs s1 slot = mkR PSent (Some b) (Some b).
Proof. intro H. unfold step. rewrite H. cbn [ph trans]. eexists. split; [reflexivity|]. cbn [reqs]. apply upd_same. Qed.

Lemma step_round_trip s slot b x :
  reqs s slot = mkR PSent (Some b) (Some b) ->
  exists s1, step s slot (RoundTrip x) = Some s1 /\ reqs s1 slot = mkR (if x =? 1 then PLoop else PDone) (Some b) (Some b).
Proof. intro H. unfold step. rewrite H. cbn [ph trans held]. eexists. split; [reflexivity|]. cbn [reqs]. apply upd_same. Qed.

Lemma step_finish s slot :
  ph (reqs s slot) = PDone ->
  exists s1, step s slot Finish = Some s1 /\ ph (reqs s1 slot) = PFinished /\ held (reqs s1 slot) = None.
Proof. intro H. unfold step. rewrite H. eexists. split; [reflexivity|]. cbn [reqs]. rewrite upd_same. split; reflexivity. Qed.

Definition sim_end (m : sim) (choice : list nat) (r : rstate) : Prop :=
  if m_held m then ph r = PSent /\ held r = Some (last choice 0%nat) /\ choice <> []
  else ph r = PFinished /\ held r = None.

Lemma simulate_valid fuel dead rm : forall retry fwd steps choice m s slot,
  simulate fuel dead rm retry fwd steps choice = Some m ->
  ph (reqs s slot) = PLoop ->
  exists s', run_ops s (map (fun x => (slot, x)) (m_ops m)) = Some s' /\ sim_end m choice (reqs s' slot).
Proof.
  induction fuel as [|f IH]; intros retry fwd steps choice m s slot H P; [discriminate|].
  cbn [simulate] in H.
  destruct (rm <? retry).
  { destruct choice; [|discriminate]. inversion H; subst m; clear H. cbn [m_ops map run_ops].
    destruct (step_balance_err s slot P) as [s1 [E1 P1]]. rewrite E1.
    destruct (step_finish s1 slot P1) as [s2 [E2 [P2 H2]]]. rewrite E2.
    exists s2. split; [reflexivity|]. unfold sim_end. cbn. auto. }
  destruct choice as [|b choice']; [discriminate|].
  (* the three leading operations of an attempt that fails and is retried *)
  assert (Retry : forall rest fwd' steps' m',
            simulate f dead rm (retry + 1) fwd' steps' choice' = Some m' ->
            m = mkSim ([BalanceOk b; ForwardGoOn; RoundTrip 1] ++ m_ops m') (m_status m') (S (m_used m')) (m_held m') ->
            rest = tt ->
            exists s', run_ops s (map (fun x => (slot, x)) (m_ops m)) = Some s' /\ sim_end m (b :: choice') (reqs s' slot)).
  { intros _ fwd' steps' m' Hm' Em _. subst m. cbn [m_ops]. rewrite map_app, run_ops_app. cbn [map run_ops].
    destruct (step_balance_ok s slot b P) as [s1 [E1 R1]]. rewrite E1.
    destruct (step_forward_goon s1 slot b R1) as [s2 [E2 R2]]. rewrite E2.
    destruct (step_round_trip s2 slot b 1 R2) as [s3 [E3 R3]]. rewrite E3. cbn [Z.eqb Pos.eqb] in R3.
    assert (P3 : ph (reqs s3 slot) = PLoop) by (rewrite R3; reflexivity).
    destruct (IH _ _ _ _ m' s3 slot Hm' P3) as [s' [Er En]]. exists s'. split; [exact Er|].
    unfold sim_end in *. cbn [m_held]. destruct (m_held m').
    - destruct En as [A [B C]]. split; [exact A|]. split; [|discriminate].
      rewrite B. f_equal. destruct choice' as [|c0 cs]; [congruence|reflexivity].
    - exact En. }
  destruct (match fwd with v :: _ => v | [] => 1 end =? 0).
  { inversion H; subst m; clear H Retry. cbn [m_ops map run_ops].
    destruct (step_balance_ok s slot b P) as [s1 [E1 R1]]. rewrite E1.
    destruct (step_forward_finish s1 slot b R1) as [s2 [E2 P2]]. rewrite E2.
    destruct (step_finish s2 slot P2) as [s3 [E3 [P3 H3]]]. rewrite E3.
    exists s3. split; [reflexivity|]. unfold sim_end. cbn. auto. }
  destruct (Nat.eqb b dead).
  { destruct (simulate f dead rm (retry + 1) (tl fwd) steps choice') as [m'|] eqn:Hm'; [|discriminate].
    assert (Em : m = mkSim ([BalanceOk b; ForwardGoOn; RoundTrip 1] ++ m_ops m') (m_status m') (S (m_used m')) (m_held m'))
      by (injection H as Em; symmetry; exact Em).
    eapply (Retry tt); [exact Hm'|exact Em|reflexivity]. }
  destruct ((match steps with x :: _ => x | [] => 0 end =? 1) || (match steps with x :: _ => x | [] => 0 end =? 2)).
  { destruct (simulate f dead rm (retry + 1) (tl fwd) (tl steps) choice') as [m'|] eqn:Hm'; [|discriminate].
    assert (Em : m = mkSim ([BalanceOk b; ForwardGoOn; RoundTrip 1] ++ m_ops m') (m_status m') (S (m_used m')) (m_held m'))
      by (injection H as Em; symmetry; exact Em).
    eapply (Retry tt); [exact Hm'|exact Em|reflexivity]. }
  clear Retry.
  destruct (match steps with x :: _ => x | [] => 0 end =? 3).
  { destruct choice'; [|discriminate]. inversion H; subst m; clear H. cbn [m_ops map run_ops].
    destruct (step_balance_ok s slot b P) as [s1 [E1 R1]]. rewrite E1.
    destruct (step_forward_goon s1 slot b R1) as [s2 [E2 R2]]. rewrite E2.
    exists s2. split; [reflexivity|]. unfold sim_end. cbn [m_held]. rewrite R2. cbn. repeat split; discriminate. }
  destruct choice'; [|discriminate]. inversion H; subst m; clear H. cbn [m_ops map run_ops].
  destruct (step_balance_ok s slot b P) as [s1 [E1 R1]]. rewrite E1.
  destruct (step_forward_goon s1 slot b R1) as [s2 [E2 R2]]. rewrite E2.
  destruct (step_round_trip s2 slot b 0 R2) as [s3 [E3 R3]]. rewrite E3. cbn [Z.eqb] in R3.
  assert (P3 : ph (reqs s3 slot) = PDone) by (rewrite R3; reflexivity).
  destruct (step_finish s3 slot P3) as [s4 [E4 [P4 H4]]]. rewrite E4.
  exists s4. split; [reflexivity|]. unfold sim_end. cbn. auto.
Qed.

(* consequence for the harness: while a derived trace leaves a request held, it is in flight on the last chosen backend,
   and the backend's count is the number of such requests (count_equals_inflight) *)
Example simulate_example :
  simulate 40 2 2 0 [1; 1] [1; 3] [0; 2; 1]%nat
  = Some (mkSim [BalanceOk 0; ForwardGoOn; RoundTrip 1; BalanceOk 2; ForwardGoOn; RoundTrip 1; BalanceOk 1; ForwardGoOn] 0 3 true).
Proof. reflexivity. Qed.
