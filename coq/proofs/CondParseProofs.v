(* Proofs about the condition grammar model (C16) and the prototype/builder tables (C17). *)
From Coq Require Import List Arith Lia Bool ZArith.
From Bfe Require Import lib.Val lib.ValProofs gen.CondPrec gen.CondProtos model.CondParse run.RunC16.
Import ListNotations.
Local Open Scope nat_scope.

(* ================================================================== fuel *)
Section Fuel.
Variable t : table.

Lemma len_both : forall f,
  (forall minp ts e r, parse_expr t f minp ts = Some (e, r) -> length r < length ts) /\
  (forall minp lhs ts e r, climb t f minp lhs ts = Some (e, r) -> length r <= length ts).
Proof.
  induction f as [|f [IHp IHc]]; split; intros; try discriminate.
  - simpl in H.
    destruct ts as [|k ts']; [discriminate|].
    destruct k; try discriminate.
    + apply IHc in H. simpl. lia.
    + destruct (parse_expr t f (top t) ts') as [[e1 r1]|] eqn:E; [|discriminate].
      apply IHp in E. apply IHc in H. simpl. lia.
    + destruct (parse_expr t f 0 ts') as [[e1 r1]|] eqn:E; [|discriminate].
      destruct r1 as [|k1 r1]; [discriminate|]. destruct k1; try discriminate.
      apply IHp in E. apply IHc in H. simpl in *. lia.
  - simpl in H. destruct ts as [|k r0]; [inversion H; subst; simpl; lia|].
    destruct (binop t k) as [[[p la] mk]|] eqn:Eb; [|inversion H; subst; lia].
    destruct (Nat.leb minp p); [|inversion H; subst; lia].
    destruct (parse_expr t f (if la then S p else p) r0) as [[rhs r1]|] eqn:E; [|discriminate].
    apply IHp in E. apply IHc in H. simpl. lia.
Qed.

(* once the fuel exceeds 2*|ts| the result no longer depends on it: fuel is never the reason for None *)
Lemma fuel_stable : forall n ts, length ts <= n ->
  forall f f', 2 * length ts + 1 <= f -> 2 * length ts + 1 <= f' ->
  (forall minp, parse_expr t f minp ts = parse_expr t f' minp ts) /\
  (forall minp lhs, climb t f minp lhs ts = climb t f' minp lhs ts).
Proof.
  induction n as [|n IH]; intros ts Hn f f' Hf Hf';
    (destruct f as [|f]; [lia|]); (destruct f' as [|f']; [lia|]).
  - destruct ts; [|simpl in Hn; lia]. split; intros; reflexivity.
  - destruct ts as [|k ts']; [split; intros; reflexivity|].
    simpl in Hn, Hf, Hf'.
    assert (Hts' : length ts' <= n) by lia.
    destruct (IH ts' Hts' f f') as [IHp IHc]; [lia|lia|].
    assert (Hsub : forall r1, length r1 < length ts' -> forall minp lhs, climb t f minp lhs r1 = climb t f' minp lhs r1).
    { intros r1 Hr1. apply (IH r1); lia. }
    split.
    + intros minp. simpl.
      destruct k; try reflexivity.
      * apply IHc.
      * rewrite IHp. destruct (parse_expr t f' (top t) ts') as [[e1 r1]|] eqn:E; [|reflexivity].
        apply (proj1 (len_both f')) in E. apply Hsub. exact E.
      * rewrite IHp. destruct (parse_expr t f' 0 ts') as [[e1 r1]|] eqn:E; [|reflexivity].
        destruct r1 as [|k1 r1]; [reflexivity|]. destruct k1; try reflexivity.
        apply (proj1 (len_both f')) in E. apply Hsub. simpl in E. lia.
    + intros minp lhs. simpl.
      destruct (binop t k) as [[[p la] mk]|]; [|reflexivity].
      destruct (Nat.leb minp p); [|reflexivity].
      rewrite IHp. destruct (parse_expr t f' (if la then S p else p) ts') as [[rhs r1]|] eqn:E; [|reflexivity].
      apply (proj1 (len_both f')) in E. apply Hsub. exact E.
Qed.

Lemma parse_fuel_enough : forall ts f, 2 * length ts + 2 <= f ->
  parse_expr t f 0 ts = parse_expr t (2 * length ts + 2) 0 ts.
Proof.
  intros ts f Hf. apply (proj1 (fuel_stable (length ts) ts (le_n _) f (2 * length ts + 2) ltac:(lia) ltac:(lia))).
Qed.
End Fuel.

(* ================================================================== round trip *)
Section RT.
Variable t : table.
Hypothesis Hdoc : table_matches_doc t = true.

Lemma doc_facts : p_or t < p_and t /\ p_and t < top t /\ l_and t = true /\ l_or t = true.
Proof.
  unfold table_matches_doc in Hdoc. repeat rewrite andb_true_iff in Hdoc.
  destruct Hdoc as [[[[H0 H1] H2] H3] H4].
  apply Nat.ltb_lt in H0, H1, H2. unfold top. repeat split; try assumption; lia.
Qed.
Let Hord : p_or t < p_and t := proj1 doc_facts.
Let Hmax : p_and t < top t := proj1 (proj2 doc_facts).
Let Hla : l_and t = true := proj1 (proj2 (proj2 doc_facts)).
Let Hlo : l_or t = true := proj2 (proj2 (proj2 doc_facts)).

Definition lev (e : expr) : nat :=
  match e with Or _ _ => p_or t | And _ _ => p_and t | _ => top t end.

Definition pe := parse_expr t.
Definition cl := climb t.

(* "eventually": result independent of fuel once large enough *)
Definition ev_parse minp ts r := exists f0, forall f, f0 <= f -> pe f minp ts = r.
Definition ev_climb minp lhs ts r := exists f0, forall f, f0 <= f -> cl f minp lhs ts = r.

Lemma ev_climb_stop minp lhs ts :
  match ts with
  | [] => True
  | k :: _ => match binop t k with Some (p, _, _) => p < minp | None => True end
  end -> ev_climb minp lhs ts (Some (lhs, ts)).
Proof.
  intros H. exists 1. intros f Hf. destruct f as [|f]; [lia|]. unfold cl. simpl.
  destruct ts as [|k r]; [reflexivity|].
  destruct (binop t k) as [[[p la] mk]|]; [|reflexivity].
  destruct (Nat.leb_spec minp p); [lia|reflexivity].
Qed.

(* printer w.r.t. table t: same shape as print_doc *)
Fixpoint pr (e : expr) : list tok :=
  match e with
  | Atom n => [TAtom n]
  | Not a => TNot :: paren (Nat.ltb (lev a) (top t)) (pr a)
  | And a b => paren (Nat.ltb (lev a) (p_and t)) (pr a) ++ TAnd :: paren (Nat.leb (lev b) (p_and t)) (pr b)
  | Or a b => paren (Nat.ltb (lev a) (p_or t)) (pr a) ++ TOr :: paren (Nat.leb (lev b) (p_or t)) (pr b)
  end.

Lemma ev_parse_atom minp n rest r :
  ev_climb minp (Atom n) rest r -> ev_parse minp (TAtom n :: rest) r.
Proof.
  intros [f0 H]. exists (S f0). intros f Hf. destruct f as [|f]; [lia|].
  unfold pe. simpl. apply H. lia.
Qed.

Lemma ev_parse_paren minp e rest r :
  ev_parse 0 (pr e ++ TR :: rest) (Some (e, TR :: rest)) ->
  ev_climb minp e rest r -> ev_parse minp (TL :: (pr e ++ [TR]) ++ rest) r.
Proof.
  intros [f1 H1] [f2 H2]. exists (S (f1 + f2)). intros f Hf. destruct f as [|f]; [lia|].
  unfold pe. simpl. rewrite <- app_assoc. simpl.
  fold (pe f 0 (pr e ++ TR :: rest)). rewrite H1 by lia. apply H2. lia.
Qed.

Lemma ev_parse_not minp a rest r :
  ev_parse (top t) (paren (Nat.ltb (lev a) (top t)) (pr a) ++ rest) (Some (a, rest)) ->
  ev_climb minp (Not a) rest r ->
  ev_parse minp (TNot :: paren (Nat.ltb (lev a) (top t)) (pr a) ++ rest) r.
Proof.
  intros [f1 H1] [f2 H2]. exists (S (f1 + f2)). intros f Hf. destruct f as [|f]; [lia|].
  unfold pe. simpl. fold (pe f (top t) (paren (Nat.ltb (lev a) (top t)) (pr a) ++ rest)).
  rewrite H1 by lia. apply H2. lia.
Qed.

Lemma ev_climb_op minp lhs k p mk rhs ts rest r :
  binop t k = Some (p, true, mk) -> minp <= p ->
  ev_parse (S p) ts (Some (rhs, rest)) ->
  ev_climb minp (mk lhs rhs) rest r ->
  ev_climb minp lhs (k :: ts) r.
Proof.
  intros Hb Hp [f1 H1] [f2 H2]. exists (S (f1 + f2)). intros f Hf. destruct f as [|f]; [lia|].
  unfold cl. simpl. rewrite Hb. destruct (Nat.leb_spec minp p); [|lia].
  fold (pe f (S p) ts). rewrite H1 by lia. apply H2. lia.
Qed.

(* the text after a printed expression must not start with an operator that binds tighter than it *)
Definition rok (l : nat) (rest : list tok) : Prop :=
  match rest with
  | [] => True
  | k :: _ => match binop t k with Some (p, _, _) => p <= l | None => True end
  end.

Lemma stop_of_rok l minp lhs rest : rok l rest -> l < minp -> ev_climb minp lhs rest (Some (lhs, rest)).
Proof.
  intros H Hl. apply ev_climb_stop. destruct rest as [|k r]; [exact I|]. simpl in H.
  destruct (binop t k) as [[[p la] mk]|]; [lia|exact I].
Qed.

Lemma rok_weaken l l' rest : rok l rest -> l <= l' -> rok l' rest.
Proof.
  intros H Hl. destruct rest as [|k r]; [exact I|]. simpl in *.
  destruct (binop t k) as [[[p la] mk]|]; [lia|exact I].
Qed.

Lemma rok_TR l rest : rok l (TR :: rest). Proof. exact I. Qed.

Lemma binop_and : binop t TAnd = Some (p_and t, true, And).
Proof. simpl. rewrite Hla. reflexivity. Qed.
Lemma binop_or : binop t TOr = Some (p_or t, true, Or).
Proof. simpl. rewrite Hlo. reflexivity. Qed.

Lemma Q : forall e minp rest r,
  minp <= lev e -> rok (lev e) rest -> ev_climb minp e rest r -> ev_parse minp (pr e ++ rest) r.
Proof.
  induction e as [n | a IHa | a IHa b IHb | a IHa b IHb]; intros minp rest r Hm Hr Hc; simpl.
  - apply ev_parse_atom; assumption.
  - (* Not *)
    apply ev_parse_not; [|assumption].
    assert (Hr100 : rok (p_not t) rest).
    { destruct rest as [|k ?]; [exact I|]. simpl. destruct k; simpl; try exact I; unfold top in Hmax; lia. }
    unfold paren. destruct (Nat.ltb_spec (lev a) (top t)) as [Hl|Hl].
    + apply ev_parse_paren.
      * apply IHa; [lia|apply rok_TR|]. apply ev_climb_stop. simpl. exact I.
      * eapply stop_of_rok; [exact Hr100|unfold top; lia].
    + apply IHa; [lia| eapply rok_weaken; [exact Hr100|unfold top in *; lia] |].
      eapply stop_of_rok; [exact Hr100|unfold top; lia].
  - (* And *)
    simpl in Hm, Hr.
    assert (Hrhs : ev_parse (S (p_and t)) (paren (Nat.leb (lev b) (p_and t)) (pr b) ++ rest) (Some (b, rest))).
    { unfold paren. destruct (Nat.leb_spec (lev b) (p_and t)) as [Hl|Hl].
      - apply ev_parse_paren.
        + apply IHb; [lia|apply rok_TR|]. apply ev_climb_stop. simpl. exact I.
        + eapply stop_of_rok; [exact Hr|lia].
      - apply IHb; [lia| eapply rok_weaken; [exact Hr|lia] |].
        eapply stop_of_rok; [exact Hr|lia]. }
    rewrite <- app_assoc. simpl.
    unfold paren at 1. destruct (Nat.ltb_spec (lev a) (p_and t)) as [Hl|Hl].
    + simpl. apply ev_parse_paren.
      * apply IHa; [lia|apply rok_TR|]. apply ev_climb_stop. simpl. exact I.
      * eapply ev_climb_op; [exact binop_and| exact Hm | exact Hrhs | exact Hc].
    + apply IHa; [lia| simpl; lia |].
      eapply ev_climb_op; [exact binop_and| exact Hm | exact Hrhs | exact Hc].
  - (* Or *)
    simpl in Hm, Hr.
    assert (Hrhs : ev_parse (S (p_or t)) (paren (Nat.leb (lev b) (p_or t)) (pr b) ++ rest) (Some (b, rest))).
    { unfold paren. destruct (Nat.leb_spec (lev b) (p_or t)) as [Hl|Hl].
      - apply ev_parse_paren.
        + apply IHb; [lia|apply rok_TR|]. apply ev_climb_stop. simpl. exact I.
        + eapply stop_of_rok; [exact Hr|lia].
      - apply IHb; [lia| eapply rok_weaken; [exact Hr|lia] |].
        eapply stop_of_rok; [exact Hr|lia]. }
    rewrite <- app_assoc. simpl.
    unfold paren at 1. destruct (Nat.ltb_spec (lev a) (p_or t)) as [Hl|Hl].
    + simpl. apply ev_parse_paren.
      * apply IHa; [lia|apply rok_TR|]. apply ev_climb_stop. simpl. exact I.
      * eapply ev_climb_op; [exact binop_or| exact Hm | exact Hrhs | exact Hc].
    + apply IHa; [lia| simpl; lia |].
      eapply ev_climb_op; [exact binop_or| exact Hm | exact Hrhs | exact Hc].
Qed.

Theorem roundtrip_ev : forall e, ev_parse 0 (pr e) (Some (e, [])).
Proof.
  intros e. rewrite <- (app_nil_r (pr e)). apply Q; [lia|exact I|].
  apply ev_climb_stop. exact I.
Qed.

(* the printer for table t is the documented printer *)
Ltac cmp_tac :=
  repeat match goal with
         | |- context[Nat.ltb ?x ?y] => destruct (Nat.ltb_spec x y)
         | |- context[Nat.leb ?x ?y] => destruct (Nat.leb_spec x y)
         end; try reflexivity; unfold top in *; lia.
Lemma pr_is_print_doc : forall e, pr e = print_doc e.
Proof.
  pose proof Hord as Ho. pose proof Hmax as Hm.
  induction e as [n | a IHa | a IHa b IHb | a IHa b IHb]; simpl; rewrite ?IHa, ?IHb; try reflexivity.
  - f_equal. f_equal. destruct a; cbn [lev level]; cmp_tac.
  - f_equal; [|f_equal]; f_equal.
    + destruct a; cbn [lev level]; cmp_tac.
    + destruct b; cbn [lev level]; cmp_tac.
  - f_equal; [|f_equal; f_equal].
    + destruct a; cbn [lev level]; cmp_tac.
    + destruct b; cbn [lev level]; cmp_tac.
Qed.

Theorem parse_print_roundtrip_t : forall e, parse t (print_doc e) = Some e.
Proof.
  intros e. destruct (roundtrip_ev e) as [f0 H]. rewrite pr_is_print_doc in H.
  unfold parse.
  rewrite <- (parse_fuel_enough t (print_doc e) (f0 + (2 * length (print_doc e) + 2))) by lia.
  unfold pe in H. rewrite H by lia. reflexivity.
Qed.
End RT.

(* ================================================================== independence of the level numbering *)
Section Indep.
Variables t t' : table.
Hypothesis Hd : table_matches_doc t = true.
Hypothesis Hd' : table_matches_doc t' = true.

Definition same_cmp (m m' : nat) : Prop :=
  Nat.leb m (p_and t) = Nat.leb m' (p_and t') /\ Nat.leb m (p_or t) = Nat.leb m' (p_or t').

Lemma indep : forall f,
  (forall m m' ts, same_cmp m m' -> parse_expr t f m ts = parse_expr t' f m' ts) /\
  (forall m m' lhs ts, same_cmp m m' -> climb t f m lhs ts = climb t' f m' lhs ts).
Proof.
  destruct (doc_facts t Hd) as [Ho [Hm [Hla Hlo]]].
  destruct (doc_facts t' Hd') as [Ho' [Hm' [Hla' Hlo']]].
  assert (Stop : same_cmp (top t) (top t')).
  { split; rewrite !(proj2 (Nat.leb_gt _ _)); try reflexivity; unfold top in *; lia. }
  assert (S0 : same_cmp 0 0) by (split; reflexivity).
  assert (Sand : same_cmp (S (p_and t)) (S (p_and t'))).
  { split; rewrite !(proj2 (Nat.leb_gt _ _)); try reflexivity; lia. }
  assert (Sor : same_cmp (S (p_or t)) (S (p_or t'))).
  { split.
    - rewrite !(proj2 (Nat.leb_le _ _)); try reflexivity; lia.
    - rewrite !(proj2 (Nat.leb_gt _ _)); try reflexivity; lia. }
  induction f as [|f [IHp IHc]]; split; intros; try reflexivity.
  - simpl. destruct ts as [|k r]; [reflexivity|]. destruct k; try reflexivity.
    + apply IHc. assumption.
    + rewrite (IHp (top t) (top t') r Stop).
      destruct (parse_expr t' f (top t') r) as [[e1 r1]|]; [|reflexivity]. apply IHc. assumption.
    + rewrite (IHp 0 0 r S0).
      destruct (parse_expr t' f 0 r) as [[e1 r1]|]; [|reflexivity].
      destruct r1 as [|k1 r1]; [reflexivity|]. destruct k1; try reflexivity. apply IHc. assumption.
  - simpl. destruct ts as [|k r]; [reflexivity|]. pose proof H as Hsc. destruct H as [Ha Hb].
    destruct k; simpl; try reflexivity.
    + rewrite Ha, Hla, Hla'. destruct (Nat.leb m' (p_and t')); [|reflexivity].
      rewrite (IHp _ _ r Sand).
      destruct (parse_expr t' f (S (p_and t')) r) as [[e1 r1]|]; [|reflexivity]. apply IHc. exact Hsc.
    + rewrite Hb, Hlo, Hlo'. destruct (Nat.leb m' (p_or t')); [|reflexivity].
      rewrite (IHp _ _ r Sor).
      destruct (parse_expr t' f (S (p_or t')) r) as [[e1 r1]|]; [|reflexivity]. apply IHc. exact Hsc.
Qed.

Theorem parse_table_indep : forall ts, parse t ts = parse t' ts.
Proof.
  intros ts. unfold parse. rewrite (proj1 (indep _) 0 0 ts); [reflexivity|split; reflexivity].
Qed.
End Indep.

(* ================================================================== C16 statements *)
Lemma src_table_matches_doc : table_matches_doc src_table = true.
Proof. vm_compute. reflexivity. Qed.
Lemma doc_table_matches_doc : table_matches_doc doc_table = true.
Proof. reflexivity. Qed.

Theorem parse_print_roundtrip : forall t, table_matches_doc t = true ->
  forall e, parse t (print_doc e) = Some e.
Proof. intros t H e. apply parse_print_roundtrip_t. exact H. Qed.

Theorem src_roundtrip_eval : forall e env,
  option_map (eval env) (parse src_table (print_doc e)) = Some (eval env e).
Proof. intros e env. rewrite (parse_print_roundtrip _ src_table_matches_doc). reflexivity. Qed.

Theorem src_parse_is_doc_parse : forall ts, parse src_table ts = parse doc_table ts.
Proof. apply parse_table_indep; [exact src_table_matches_doc|exact doc_table_matches_doc]. Qed.

Theorem prop_C16_of_model : forall i, kf_C16 i = 0%Z -> prop_C16 i (run_C16 i) = true.
Proof.
  intros i _. unfold prop_C16, run_C16. destruct (decode_C16 i) as [[ts env]|]; [|reflexivity].
  unfold eval_tokens. rewrite src_parse_is_doc_parse. apply val_eqb_refl.
Qed.

(* what the precedence means on the three-operand mixes (read with the documented table) *)
Lemma doc_or_and : forall a b c, parse doc_table [TAtom a; TOr; TAtom b; TAnd; TAtom c] = Some (Or (Atom a) (And (Atom b) (Atom c))).
Proof. reflexivity. Qed.
Lemma doc_and_or : forall a b c, parse doc_table [TAtom a; TAnd; TAtom b; TOr; TAtom c] = Some (Or (And (Atom a) (Atom b)) (Atom c)).
Proof. reflexivity. Qed.
Lemma doc_and_and : forall a b c, parse doc_table [TAtom a; TAnd; TAtom b; TAnd; TAtom c] = Some (And (And (Atom a) (Atom b)) (Atom c)).
Proof. reflexivity. Qed.
Lemma doc_or_or : forall a b c, parse doc_table [TAtom a; TOr; TAtom b; TOr; TAtom c] = Some (Or (Or (Atom a) (Atom b)) (Atom c)).
Proof. reflexivity. Qed.
Lemma doc_not_and : forall a b, parse doc_table [TNot; TAtom a; TAnd; TAtom b] = Some (And (Not (Atom a)) (Atom b)).
Proof. reflexivity. Qed.
Lemma doc_not_not : forall a, parse doc_table [TNot; TNot; TAtom a] = Some (Not (Not (Atom a))).
Proof. reflexivity. Qed.
Lemma doc_paren : forall a b c, parse doc_table [TL; TAtom a; TOr; TAtom b; TR; TAnd; TAtom c] = Some (And (Or (Atom a) (Atom b)) (Atom c)).
Proof. reflexivity. Qed.

(* the pre-fix table of cond.y (%left LAND before %left LOR) violates the property *)
Definition inverted_table := {| p_and := 1; p_or := 2; p_not := 3; l_and := true; l_or := true |}.
Lemma inverted_refuted :
  exists ts env e, parse doc_table ts = Some e /\
    option_map (eval env) (parse inverted_table ts) <> Some (eval env e).
Proof.
  exists [TAtom 0; TOr; TAtom 1; TAnd; TAtom 2], (fun n => Nat.eqb n 0), (Or (Atom 0) (And (Atom 1) (Atom 2))).
  split; [reflexivity|]. vm_compute. discriminate.
Qed.

(* ================================================================== parentheses first: any table *)
Section Full.
Variable t : table.

Definition evp minp ts r := exists f0, forall f, f0 <= f -> parse_expr t f minp ts = r.
Definition evc minp lhs ts r := exists f0, forall f, f0 <= f -> climb t f minp lhs ts = r.
Definition nobin (rest : list tok) : Prop :=
  match rest with [] => True | k :: _ => binop t k = None end.

Lemma evc_stop minp lhs rest : nobin rest -> evc minp lhs rest (Some (lhs, rest)).
Proof.
  intro H. exists 1. intros f Hf. destruct f as [|f]; [lia|]. simpl.
  destruct rest as [|k r]; [reflexivity|]. simpl in H. rewrite H. reflexivity.
Qed.

Lemma evp_paren minp s e rest r :
  evp 0 (s ++ TR :: rest) (Some (e, TR :: rest)) -> evc minp e rest r -> evp minp (TL :: s ++ TR :: rest) r.
Proof.
  intros [f1 H1] [f2 H2]. exists (S (f1 + f2)). intros f Hf. destruct f as [|f]; [lia|].
  simpl. rewrite H1 by lia. apply H2. lia.
Qed.

Lemma evc_op minp lhs k p la mk rhs ts rest r :
  binop t k = Some (p, la, mk) -> minp <= p ->
  evp (if la then S p else p) ts (Some (rhs, rest)) -> evc minp (mk lhs rhs) rest r -> evc minp lhs (k :: ts) r.
Proof.
  intros Hb Hp [f1 H1] [f2 H2]. exists (S (f1 + f2)). intros f Hf. destruct f as [|f]; [lia|].
  simpl. rewrite Hb. destruct (Nat.leb_spec minp p); [|lia]. rewrite H1 by lia. apply H2. lia.
Qed.

Lemma full_rt : forall e rest, nobin rest -> evp 0 (print_full e ++ rest) (Some (e, rest)).
Proof.
  induction e as [n | a IHa | a IHa b IHb | a IHa b IHb]; intros rest Hr.
  - (* atom *)
    destruct (evc_stop 0 (Atom n) rest Hr) as [f0 H]. exists (S f0). intros f Hf. destruct f as [|f]; [lia|].
    simpl. apply H. lia.
  - (* not *)
    simpl. rewrite <- app_assoc. simpl.
    assert (Hin : evp (top t) (TL :: print_full a ++ TR :: rest) (Some (a, rest))).
    { apply (evp_paren _ (print_full a) a); [apply IHa; reflexivity|apply evc_stop; exact Hr]. }
    destruct Hin as [f1 H1]. destruct (evc_stop 0 (Not a) rest Hr) as [f2 H2].
    exists (S (f1 + f2)). intros f Hf. destruct f as [|f]; [lia|]. simpl.
    rewrite H1 by lia. apply H2. lia.
  - (* and *)
    simpl. rewrite <- !app_assoc. simpl. rewrite <- !app_assoc. simpl.
    apply (evp_paren _ (print_full a) a); [apply IHa; reflexivity|].
    eapply (evc_op 0 a TAnd (p_and t) (l_and t) And b); [reflexivity|lia| |apply evc_stop; exact Hr].
    apply (evp_paren _ (print_full b) b); [apply IHb; reflexivity|apply evc_stop; exact Hr].
  - (* or *)
    simpl. rewrite <- !app_assoc. simpl. rewrite <- !app_assoc. simpl.
    apply (evp_paren _ (print_full a) a); [apply IHa; reflexivity|].
    eapply (evc_op 0 a TOr (p_or t) (l_or t) Or b); [reflexivity|lia| |apply evc_stop; exact Hr].
    apply (evp_paren _ (print_full b) b); [apply IHb; reflexivity|apply evc_stop; exact Hr].
Qed.

Theorem parse_print_full : forall e, parse t (print_full e) = Some e.
Proof.
  intros e. destruct (full_rt e [] I) as [f0 H]. rewrite app_nil_r in H. unfold parse.
  rewrite <- (parse_fuel_enough t (print_full e) (f0 + (2 * length (print_full e) + 2))) by lia.
  rewrite H by lia. reflexivity.
Qed.
End Full.
