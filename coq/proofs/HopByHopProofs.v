(* Proofs about the C26 model (model/HopByHop.v). *)
From Coq Require Import List ZArith Bool Lia.
From Bfe Require Import lib.Val lib.ValProofs lib.Bytes gen.HopHeaders model.HopByHop run.RunC26.
Import ListNotations.
Open Scope Z_scope.

(* ---- the generated tables cover the property's list ---- *)
Lemma spec_names_covered :
  forallb (fun k => mem_bytes k hop_list || mem_bytes k write_exclude) spec_hop_names = true.
Proof. vm_compute. reflexivity. Qed.

Lemma mem_bytes_In k l : mem_bytes k l = true <-> In k l.
Proof.
  unfold mem_bytes. rewrite existsb_exists. split.
  - intros [x [Hin Heq]]. apply bytes_eqb_eq in Heq. subst. exact Hin.
  - intros Hin. exists k. split; [exact Hin|]. apply bytes_eqb_eq. reflexivity.
Qed.

Lemma bytes_eqb_refl a : bytes_eqb a a = true.
Proof. apply bytes_eqb_eq. reflexivity. Qed.
Lemma bytes_eqb_neq a b : bytes_eqb a b = false <-> a <> b.
Proof.
  split.
  - intros H E. subst. rewrite bytes_eqb_refl in H. discriminate.
  - intros H. destruct (bytes_eqb a b) eqn:E; [|reflexivity]. apply bytes_eqb_eq in E. contradiction.
Qed.

(* ---- header map lemmas ---- *)
Lemma hdel_In k e m : In e (hdel k m) <-> In e m /\ fst e <> k.
Proof.
  unfold hdel. rewrite filter_In. split; intros [H1 H2]; split; try exact H1.
  - apply negb_true_iff, bytes_eqb_neq in H2. congruence.
  - apply negb_true_iff, bytes_eqb_neq. congruence.
Qed.

Lemma hfind_In k vs m : hfind k m = Some vs -> In (k, vs) m.
Proof.
  induction m as [|[k' vs'] r IH]; simpl; [discriminate|].
  destruct (bytes_eqb k k') eqn:E.
  - intros H. inversion H; subst. apply bytes_eqb_eq in E. subst. left. reflexivity.
  - intros H. right. apply IH. exact H.
Qed.

Lemma In_hfind k vs m : NoDup (map fst m) -> In (k, vs) m -> hfind k m = Some vs.
Proof.
  induction m as [|[k' vs'] r IH]; simpl; [intros _ []|].
  intros Hnd [Heq|Hin].
  - inversion Heq; subst. rewrite bytes_eqb_refl. reflexivity.
  - inversion Hnd as [|? ? Hni Hnd']; subst.
    destruct (bytes_eqb k k') eqn:E.
    + apply bytes_eqb_eq in E. subst. exfalso. apply Hni. apply in_map_iff. exists (k', vs). split; [reflexivity|exact Hin].
    + apply IH; assumption.
Qed.

Lemma NoDup_map_filter {A B} (f : A -> B) (p : A -> bool) l : NoDup (map f l) -> NoDup (map f (filter p l)).
Proof.
  induction l as [|x r IH]; simpl; [intros H; exact H|].
  intros H. inversion H as [|? ? Hni Hnd]; subst.
  destruct (p x); simpl.
  - constructor; [|apply IH; exact Hnd].
    intros Hin. apply Hni. apply in_map_iff in Hin. destruct Hin as [y [Hy Hin]].
    apply filter_In in Hin. apply in_map_iff. exists y. split; [exact Hy|apply Hin].
  - apply IH. exact Hnd.
Qed.

(* ---- hopByHopHeaderRemove ---- *)
Lemma hop_step_sub m h e : In e (hop_step m h) -> In e m.
Proof.
  unfold hop_step. destruct (hfind h m) as [vs|]; [|intros H; exact H].
  match goal with |- context [if ?c then _ else _] => destruct c end; [intros H; exact H|].
  intros H. apply hdel_In in H. apply H.
Qed.
Lemma hop_step_nodup m h : NoDup (map fst m) -> NoDup (map fst (hop_step m h)).
Proof.
  intros H. unfold hop_step. destruct (hfind h m) as [vs|]; [|exact H].
  match goal with |- context [if ?c then _ else _] => destruct c end; [exact H|].
  unfold hdel. apply NoDup_map_filter. exact H.
Qed.
Lemma hop_step_removes m h vs :
  NoDup (map fst m) -> In (h, vs) (hop_step m h) -> h = s_te /\ vs = [s_trailers].
Proof.
  intros Hnd. unfold hop_step. destruct (hfind h m) as [vs'|] eqn:Hf.
  - destruct (bytes_eqb h s_te && match vs' with [v] => bytes_eqb v s_trailers | _ => false end) eqn:Hc.
    + intros Hin. apply In_hfind in Hin; [|exact Hnd]. rewrite Hf in Hin. inversion Hin; subst.
      apply andb_true_iff in Hc. destruct Hc as [H1 H2]. apply bytes_eqb_eq in H1.
      destruct vs as [|v [|? ?]]; try discriminate. apply bytes_eqb_eq in H2. subst. split; reflexivity.
    + intros Hin. apply hdel_In in Hin. destruct Hin as [_ Hne]. simpl in Hne. congruence.
  - intros Hin. apply In_hfind in Hin; [|exact Hnd]. congruence.
Qed.

Lemma hop_fold_sub l : forall m e, In e (fold_left hop_step l m) -> In e m.
Proof.
  induction l as [|h r IH]; simpl; intros m e H; [exact H|].
  apply IH in H. eapply hop_step_sub. exact H.
Qed.
Lemma hop_fold_removes l : forall m h vs,
  NoDup (map fst m) -> In h l -> In (h, vs) (fold_left hop_step l m) -> h = s_te /\ vs = [s_trailers].
Proof.
  induction l as [|h0 r IH]; simpl; intros m h vs Hnd Hin He; [contradiction|].
  destruct Hin as [->|Hin].
  - apply hop_fold_sub in He. eapply hop_step_removes; eassumption.
  - eapply IH; [apply hop_step_nodup; exact Hnd|exact Hin|exact He].
Qed.

Lemma hop_remove_sub m e : In e (hop_remove m) -> In e m.
Proof. apply hop_fold_sub. Qed.

Lemma written_In e m : In e (written m) <-> In e m /\ ~ In (fst e) write_exclude.
Proof.
  unfold written. rewrite filter_In. split; intros [H1 H2]; split; try exact H1.
  - intros Hin. apply mem_bytes_In in Hin. rewrite Hin in H2. discriminate.
  - apply negb_true_iff. destruct (mem_bytes (fst e) write_exclude) eqn:E; [|reflexivity].
    apply mem_bytes_In in E. contradiction.
Qed.

(* C26 headline, at the level of header maps: of a header map with unique keys (every Go map), no entry whose key is
   one of the property's hop-by-hop names reaches the backend, except the entry Te = ["trailers"]. *)
Theorem listed_removed : forall m k vs,
  NoDup (map fst m) -> In k spec_hop_names -> In (k, vs) (to_backend m) -> k = s_te /\ vs = [s_trailers].
Proof.
  intros m k vs Hnd Hk Hin. unfold to_backend in Hin. apply written_In in Hin. destruct Hin as [Hin Hex]. simpl in Hex.
  pose proof spec_names_covered as Hc. rewrite forallb_forall in Hc. specialize (Hc k Hk).
  apply orb_true_iff in Hc. destruct Hc as [Hh|He].
  - apply mem_bytes_In in Hh. eapply hop_fold_removes; eassumption.
  - apply mem_bytes_In in He. contradiction.
Qed.

(* what reaches the backend is a sub-map of what the handlers saw: nothing is added by this stage *)
Theorem to_backend_sub : forall m e, In e (to_backend m) -> In e m.
Proof. intros m e H. apply written_In in H. destruct H as [H _]. apply hop_remove_sub. exact H. Qed.

(* ---- the Connection-nominated clause is false of the code ---- *)
Definition w_pairs : list (bytes * bytes) :=
  [ (s_connection, [120;45;102;111;111;44;32;99;108;111;115;101]);      (* Connection: x-foo, close *)
    ([88;45;70;111;111], [49]) ].                                       (* X-Foo: 1 *)
Lemma connection_tokens_refuted_w :
  backend_lines host_C26 w_pairs = Some [line_of s_host host_C26; [88;45;70;111;111;58;32;49]]
  /\ nominated (conn_tokens w_pairs) [88;45;70;111;111] = true
  /\ prop_C26 (VL [VZ 0; VL [VL [VB s_connection; VB [120;45;102;111;111;44;32;99;108;111;115;101]];
                            VL [VB [88;45;70;111;111]; VB [49]]]])
              (run_C26 (VL [VZ 0; VL [VL [VB s_connection; VB [120;45;102;111;111;44;32;99;108;111;115;101]];
                            VL [VB [88;45;70;111;111]; VB [49]]]])) = false.
Proof. vm_compute. repeat split; reflexivity. Qed.

Theorem connection_tokens_refuted :
  exists pairs ls k, backend_lines host_C26 pairs = Some ls /\ nominated (conn_tokens pairs) k = true /\
                     In (line_of k [49]) ls.
Proof.
  exists w_pairs, [line_of s_host host_C26; [88;45;70;111;111;58;32;49]], [88;45;70;111;111].
  destruct connection_tokens_refuted_w as [H1 [H2 _]]. split; [exact H1|]. split; [exact H2|].
  right. left. vm_compute. reflexivity.
Qed.

(* non-vacuity for listed_removed: a map holding every listed field and an ordinary one *)
Definition ex_pairs : list (bytes * bytes) :=
  map (fun k => (k, [49])) spec_hop_names ++ [([88;45;70;111;111], [50]); (s_te, s_trailers)].
Lemma listed_removed_nonvacuous :
  let m := parse_headers ex_pairs in
  NoDup (map fst m) /\ length m = 9%nat /\ to_backend (hdel s_te m ++ [(s_te, [s_trailers])]) =
     [([88;45;70;111;111], [[50]]); (s_te, [s_trailers])].
Proof. vm_compute. split; [|split; reflexivity]. repeat constructor; simpl; intuition discriminate. Qed.
