(* Proofs about model/ClusterLookup.v (C12). *)
From Coq Require Import List ZArith Bool Lia.
From Bfe Require Import lib.Val lib.ValProofs lib.Bytes model.BasicRoute model.ClusterLookup.
Import ListNotations.
Open Scope Z_scope.

Section Proofs.
Context {C : Type}.
Variable holds : C -> request -> bool.

Definition deferred (b : option bytes) : Prop := b = None \/ b = Some ADVANCED_MODE.

Lemma bytes_eqb_refl a : bytes_eqb a a = true.
Proof. apply bytes_eqb_eq. reflexivity. Qed.
Lemma bytes_eqb_neq a b : a <> b -> bytes_eqb a b = false.
Proof. intro H. destruct (bytes_eqb a b) eqn:E; [apply bytes_eqb_eq in E; contradiction|reflexivity]. Qed.

Lemma lookup_deferred basic adv req :
  deferred (basic_result basic req) -> lookup_cluster holds basic adv req = advanced_part holds adv req.
Proof.
  unfold lookup_cluster. intros [H|H]; rewrite H; [reflexivity|]. rewrite bytes_eqb_refl. reflexivity.
Qed.

Lemma basic_wins basic adv req cl :
  basic_result basic req = Some cl -> cl <> ADVANCED_MODE -> lookup_cluster holds basic adv req = COk cl.
Proof. unfold lookup_cluster. intros -> H. rewrite (bytes_eqb_neq _ _ H). reflexivity. Qed.

Lemma first_match_split pre c cl post req :
  Forall (fun r => holds (fst r) req = false) pre -> holds c req = true ->
  first_match holds (pre ++ (c, cl) :: post) req = Some cl.
Proof.
  induction pre as [|[c0 cl0] pre IH]; intros Hpre Hc; simpl.
  - rewrite Hc. reflexivity.
  - inversion Hpre as [|x l Hx Hl]; subst. simpl in Hx. rewrite Hx. apply IH; assumption.
Qed.
Lemma first_match_none rules req :
  Forall (fun r => holds (fst r) req = false) rules -> first_match holds rules req = None.
Proof.
  induction rules as [|[c cl] rules IH]; intros H; simpl; [reflexivity|].
  inversion H as [|x l Hx Hl]; subst. simpl in Hx. rewrite Hx. apply IH; assumption.
Qed.
Lemma first_match_find rules req :
  first_match holds rules req = option_map snd (find (fun r => holds (fst r) req) rules).
Proof.
  induction rules as [|[c cl] rules IH]; simpl; [reflexivity|]. destruct (holds c req); [reflexivity|exact IH].
Qed.

Lemma advanced_first_match basic pre c cl post req :
  deferred (basic_result basic req) ->
  Forall (fun r => holds (fst r) req = false) pre -> holds c req = true -> cl <> [] ->
  lookup_cluster holds basic (Some (pre ++ (c, cl) :: post)) req = COk cl.
Proof.
  intros Hd Hpre Hc Hcl. rewrite (lookup_deferred _ _ _ Hd). unfold advanced_part.
  rewrite (first_match_split _ _ _ _ _ Hpre Hc). destruct cl; [congruence|reflexivity].
Qed.
Lemma no_match_error basic rules req :
  deferred (basic_result basic req) ->
  Forall (fun r => holds (fst r) req = false) rules ->
  lookup_cluster holds basic (Some rules) req = CErrNoMatchRule.
Proof.
  intros Hd Hr. rewrite (lookup_deferred _ _ _ Hd). unfold advanced_part. rewrite (first_match_none _ _ Hr). reflexivity.
Qed.
Lemma no_product_rule basic req :
  deferred (basic_result basic req) -> lookup_cluster holds basic None req = CErrNoProductRule.
Proof. intros Hd. rewrite (lookup_deferred _ _ _ Hd). reflexivity. Qed.
Lemma advanced_mode_falls_through basic adv req :
  basic_result basic req = Some ADVANCED_MODE ->
  lookup_cluster holds basic adv req = advanced_part holds adv req.
Proof. intros H. apply lookup_deferred. right. exact H. Qed.

(* refinement to the executable specification *)
Lemma lookup_refines_spec basic adv req :
  lookup_cluster holds basic adv req = spec_cluster holds (basic_result basic req) adv req.
Proof.
  unfold lookup_cluster, spec_cluster. destruct (basic_result basic req) as [cl|].
  - destruct (bytes_eqb cl ADVANCED_MODE); [|reflexivity].
    unfold advanced_part. destruct adv as [rules|]; [|reflexivity]. rewrite first_match_find.
    destruct (find _ rules) as [[c cl']|]; reflexivity.
  - unfold advanced_part. destruct adv as [rules|]; [|reflexivity]. rewrite first_match_find.
    destruct (find _ rules) as [[c cl']|]; reflexivity.
Qed.
End Proofs.

(* ---------- per-product isolation ---------- *)
Section Isolation.
Context {C : Type}.
Variable holds : C -> request -> bool.
Lemma find_product_app {A} p (pre : list (bytes * A)) e post :
  find_product p pre = None -> fst e = p -> find_product p (pre ++ e :: post) = Some (snd e).
Proof.
  intros Hpre He. induction pre as [|[n x] pre IH]; simpl in *.
  - destruct e as [n x]. simpl in *. subst n. rewrite bytes_eqb_refl. reflexivity.
  - destruct (bytes_eqb p n); [discriminate|]. apply IH. exact Hpre.
Qed.
(* the answer for product p is computed from p's own entry alone: whatever other products (pre, post) the table
   holds, and whatever their rules are *)
Theorem products_isolated (pre post : list (product_entry C)) e p req :
  fst e = p -> find_product p pre = None ->
  lookup_table holds (pre ++ e :: post) p req = lookup_cluster holds (fst (snd e)) (snd (snd e)) req.
Proof.
  intros He Hpre. unfold lookup_table, product_entry in *. rewrite (find_product_app p pre e post Hpre He).
  destruct (snd e) as [basic adv]. reflexivity.
Qed.
Corollary other_products_irrelevant (pre pre' post post' : list (product_entry C)) e p req :
  fst e = p -> find_product p pre = None -> find_product p pre' = None ->
  lookup_table holds (pre ++ e :: post) p req = lookup_table holds (pre' ++ e :: post') p req.
Proof. intros He H1 H2. rewrite !products_isolated by assumption. reflexivity. Qed.
(* a product that is in neither map has no rules at all *)
Theorem unknown_product (tbl : list (product_entry C)) p req :
  find_product p tbl = None -> lookup_table holds tbl p req = CErrNoProductRule.
Proof. unfold lookup_table. intros ->. reflexivity. Qed.
End Isolation.

(* the executable property holds of the model on every well-formed input (uses the C11 refinement) *)
From Bfe Require Import proofs.BasicRouteProofs run.RunC11 run.RunC12.
Lemma find_load prods : forall tbl p, load_table prods = Some tbl ->
  find_product p tbl =
  match find_product p prods with
  | Some (ob, oa) => match load_opt ob with Some bt => Some (bt, oa) | None => None end
  | None => None
  end.
Proof.
  induction prods as [|[n [ob oa]] prods IH]; intros tbl p; simpl.
  - intros H. inversion H; subst. reflexivity.
  - destruct (load_opt ob) as [bt|] eqn:El; [|discriminate].
    destruct (load_table prods) as [t|] eqn:Et; [|discriminate]. intros H. inversion H; subst. simpl.
    destruct (bytes_eqb p n); [rewrite El; reflexivity|]. apply IH. reflexivity.
Qed.
Lemma find_loaded prods : forall tbl p ob oa, load_table prods = Some tbl ->
  find_product p prods = Some (ob, oa) -> load_opt ob <> None.
Proof.
  induction prods as [|[n [ob0 oa0]] prods IH]; intros tbl p ob oa; simpl; [discriminate|].
  destruct (load_opt ob0) as [bt|] eqn:El; [|discriminate].
  destruct (load_table prods) as [t|] eqn:Et; [|discriminate]. intros _.
  destruct (bytes_eqb p n).
  - intros H. inversion H; subst. rewrite El. discriminate.
  - apply (IH t p ob oa eq_refl).
Qed.
Lemma request_refines_spec prods tbl q :
  load_table prods = Some tbl -> lookup_table cond_holds tbl (fst q) (snd q) = spec_request prods q.
Proof.
  intros Hl. unfold lookup_table, spec_request. rewrite (find_load prods tbl (fst q) Hl).
  destruct (find_product (fst q) prods) as [[ob oa]|] eqn:Ef; [|reflexivity].
  pose proof (find_loaded prods tbl (fst q) ob oa Hl Ef) as Hne.
  destruct (load_opt ob) as [bt|] eqn:El; [|congruence].
  rewrite lookup_refines_spec. unfold load_opt in El. destruct ob as [rules|].
  - destruct (load_rules rules) as [t|] eqn:Er; [|discriminate]. inversion El; subst. simpl basic_result.
    rewrite (get_refines_doc _ _ _ _ Er). reflexivity.
  - inversion El; subst. reflexivity.
Qed.
Lemma stage_refines_spec st : stage_out model_answer st = stage_out spec_answer st.
Proof.
  unfold stage_out. destruct (load_table (fst st)) as [tbl|] eqn:El; [|reflexivity].
  f_equal. apply map_ext. intros q. unfold model_answer, spec_answer.
  rewrite (request_refines_spec (fst st) tbl q El). reflexivity.
Qed.
Theorem prop_C12_of_model i : wf_C12 i = true -> kf_C12 i = 0 -> prop_C12 i (run_C12 i) = true.
Proof.
  unfold wf_C12, prop_C12, run_C12. destruct (dec_C12 i) as [stages|]; [|discriminate]. intros _ _.
  rewrite (map_ext _ _ stage_refines_spec). apply val_eqb_refl.
Qed.

(* non-vacuity: product with basic table {www.a.com /a* -> B ; www.c.com * -> ADVANCED_MODE} and advanced rules
   [POST -> P ; /x prefix -> X ; default -> D] *)
From Coq Require Import String.
Local Open Scope string_scope.
Definition ex_basic : option htrees :=
  load_rules [mkRule [b "www.a.com"] [b "/a*"] (b "B"); mkRule [b "www.c.com"] [] ADVANCED_MODE].
Definition ex_adv : option (list (cond * bytes)) :=
  Some [(CMethodIn [b "POST"], b "P"); (CPathPrefixIn [b "/x"], b "X"); (CDefault, b "D")].
Lemma ex_lookups :
  ex_basic <> None /\
  lookup_cluster cond_holds ex_basic ex_adv (mkReq (b "www.a.com:8080") (b "/a/1") (b "POST") true) = COk (b "B") /\
  lookup_cluster cond_holds ex_basic ex_adv (mkReq (b "www.c.com") (b "/x") (b "POST") true) = COk (b "P") /\
  lookup_cluster cond_holds ex_basic ex_adv (mkReq (b "www.c.com") (b "/x") (b "GET") true) = COk (b "X") /\
  lookup_cluster cond_holds ex_basic ex_adv (mkReq (b "www.a.com") (b "/b") (b "GET") true) = COk (b "D") /\
  lookup_cluster cond_holds ex_basic (Some [(CMethodIn [b "POST"], b "P")]) (mkReq (b "www.a.com") (b "/b") (b "GET") true) = CErrNoMatchRule /\
  lookup_cluster cond_holds ex_basic None (mkReq (b "www.c.com") (b "/") (b "GET") true) = CErrNoProductRule.
Proof. vm_compute. repeat split; try reflexivity. discriminate. Qed.
(* two products over the same hosts: "pa" has the basic rule, "pb" only advanced rules; the same request is a basic
   hit under pa and falls to pb's own advanced rules under pb *)
Definition ex_table : list (product_entry cond) :=
  [ (b "pa", (ex_basic, None)); (b "pb", (None, ex_adv)) ].
Lemma ex_isolation :
  lookup_table cond_holds ex_table (b "pa") (mkReq (b "www.a.com") (b "/a/1") (b "GET") true) = COk (b "B") /\
  lookup_table cond_holds ex_table (b "pb") (mkReq (b "www.a.com") (b "/a/1") (b "GET") true) = COk (b "D") /\
  lookup_table cond_holds ex_table (b "pa") (mkReq (b "www.a.com") (b "/zzz") (b "GET") true) = CErrNoProductRule /\
  lookup_table cond_holds ex_table (b "pc") (mkReq (b "www.a.com") (b "/a/1") (b "GET") true) = CErrNoProductRule.
Proof. vm_compute. repeat split; reflexivity. Qed.
