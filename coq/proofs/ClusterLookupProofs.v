(* Proofs about model/ClusterLookup.v (C12). *)
From Coq Require Import List ZArith Bool Lia.
From Bfe Require Import lib.Val lib.ValProofs lib.Bytes model.BasicRoute model.ClusterLookup.
Import ListNotations.
Open Scope Z_scope.

Section Proofs.
Context {C : Type}.
Variable holds : C -> request -> bool.

Definition deferred (b : option bytes) : Prop := b = None \/ b = Some ADVANCED_MODE.

Lemma bytes_eqb_refl a : bytes_eqb a a = true.
Proof. apply bytes_eqb_eq. reflexivity. Qed.
Lemma bytes_eqb_neq a b : a <> b -> bytes_eqb a b = false.
Proof. intro H. destruct (bytes_eqb a b) eqn:E; [apply bytes_eqb_eq in E; contradiction|reflexivity]. Qed.

Lemma lookup_deferred basic adv req :
  deferred (basic_result basic req) -> lookup_cluster holds basic adv req = advanced_part holds adv req.
Proof.
  unfold lookup_cluster. intros [H|H]; rewrite H; [reflexivity|]. rewrite bytes_eqb_refl. reflexivity.
Qed.

Lemma basic_wins basic adv req cl :
  basic_result basic req = Some cl -> cl <> ADVANCED_MODE -> lookup_cluster holds basic adv req = COk cl.
Proof. unfold lookup_cluster. intros -> H. rewrite (bytes_eqb_neq _ _ H). reflexivity. Qed.

Lemma first_match_split pre c cl post req :
  Forall (fun r => holds (fst r) req = false) pre -> holds c req = true ->
  first_match holds (pre ++ (c, cl) :: post) req = Some cl.
Proof.
  induction pre as [|[c0 cl0] pre IH]; intros Hpre Hc; simpl.
  - rewrite Hc. reflexivity.
  - inversion Hpre as [|x l Hx Hl]; subst. simpl in Hx. rewrite Hx. apply IH; assumption.
Qed.
Lemma first_match_none rules req :
  Forall (fun r => holds (fst r) req = false) rules -> first_match holds rules req = None.
Proof.
  induction rules as [|[c cl] rules IH]; intros H; simpl; [reflexivity|].
  inversion H as [|x l Hx Hl]; subst. simpl in Hx. rewrite Hx. apply IH; assumption.
Qed.
Lemma first_match_find rules req :
  first_match holds rules req = option_map snd (find (fun r => holds (fst r) req) rules).
Proof.
  induction rules as [|[c cl] rules IH]; simpl; [reflexivity|]. destruct (holds c req); [reflexivity|exact IH].
Qed.

Lemma advanced_first_match basic pre c cl post req :
  deferred (basic_result basic req) ->
  Forall (fun r => holds (fst r) req = false) pre -> holds c req = true -> cl <> [] ->
  lookup_cluster holds basic (Some (pre ++ (c, cl) :: post)) req = COk cl.
Proof.
  intros Hd Hpre Hc Hcl. rewrite (lookup_deferred _ _ _ Hd). unfold advanced_part.
  rewrite (first_match_split _ _ _ _ _ Hpre Hc). destruct cl; [congruence|reflexivity].
Qed.
Lemma no_match_error basic rules req :
  deferred (basic_result basic req) ->
  Forall (fun r => holds (fst r) req = false) rules ->
  lookup_cluster holds basic (Some rules) req = CErrNoMatchRule.
Proof.
  intros Hd Hr. rewrite (lookup_deferred _ _ _ Hd). unfold advanced_part. rewrite (first_match_none _ _ Hr). reflexivity.
Qed.
Lemma no_product_rule basic req :
  deferred (basic_result basic req) -> lookup_cluster holds basic None req = CErrNoProductRule.
Proof. intros Hd. rewrite (lookup_deferred _ _ _ Hd). reflexivity. Qed.
Lemma advanced_mode_falls_through basic adv req :
  basic_result basic req = Some ADVANCED_MODE ->
  lookup_cluster holds basic adv req = advanced_part holds adv req.
Proof. intros H. apply lookup_deferred. right. exact H. Qed.

(* refinement to the executable specification *)
Lemma lookup_refines_spec basic adv req :
  lookup_cluster holds basic adv req = spec_cluster holds (basic_result basic req) adv req.
Proof.
  unfold lookup_cluster, spec_cluster. destruct (basic_result basic req) as [cl|].
  - destruct (bytes_eqb cl ADVANCED_MODE); [|reflexivity].
    unfold advanced_part. destruct adv as [rules|]; [|reflexivity]. rewrite first_match_find.
    destruct (find _ rules) as [[c cl']|]; reflexivity.
  - unfold advanced_part. destruct adv as [rules|]; [|reflexivity]. rewrite first_match_find.
    destruct (find _ rules) as [[c cl']|]; reflexivity.
Qed.
End Proofs.

(* the executable property holds of the model on every well-formed input (uses the C11 refinement) *)
From Bfe Require Import proofs.BasicRouteProofs run.RunC11 run.RunC12.
Theorem prop_C12_of_model i : dec_C12 i <> None -> prop_C12 i (run_C12 i) = true.
Proof.
  unfold prop_C12, run_C12. destruct (dec_C12 i) as [[[ob oa] req]|]; [|congruence]. intros _.
  destruct ob as [rules|]; simpl load_opt.
  - destruct (load_rules rules) as [t|] eqn:El; [|reflexivity].
    refine (prop_shape _ _ _). rewrite lookup_refines_spec. simpl basic_result.
    rewrite (get_refines_doc _ _ _ _ El). apply val_eqb_refl.
  - refine (prop_shape _ _ _). rewrite lookup_refines_spec. apply val_eqb_refl.
Qed.

(* non-vacuity: product with basic table {www.a.com /a* -> B ; www.c.com * -> ADVANCED_MODE} and advanced rules
   [POST -> P ; /x prefix -> X ; default -> D] *)
From Coq Require Import String.
Local Open Scope string_scope.
Definition ex_basic : option htrees :=
  load_rules [mkRule [b "www.a.com"] [b "/a*"] (b "B"); mkRule [b "www.c.com"] [] ADVANCED_MODE].
Definition ex_adv : option (list (cond * bytes)) :=
  Some [(CMethodIn [b "POST"], b "P"); (CPathPrefixIn [b "/x"], b "X"); (CDefault, b "D")].
Lemma ex_lookups :
  ex_basic <> None /\
  lookup_cluster cond_holds ex_basic ex_adv (mkReq (b "www.a.com:8080") (b "/a/1") (b "POST")) = COk (b "B") /\
  lookup_cluster cond_holds ex_basic ex_adv (mkReq (b "www.c.com") (b "/x") (b "POST")) = COk (b "P") /\
  lookup_cluster cond_holds ex_basic ex_adv (mkReq (b "www.c.com") (b "/x") (b "GET")) = COk (b "X") /\
  lookup_cluster cond_holds ex_basic ex_adv (mkReq (b "www.a.com") (b "/b") (b "GET")) = COk (b "D") /\
  lookup_cluster cond_holds ex_basic (Some [(CMethodIn [b "POST"], b "P")]) (mkReq (b "www.a.com") (b "/b") (b "GET")) = CErrNoMatchRule /\
  lookup_cluster cond_holds ex_basic None (mkReq (b "www.c.com") (b "/") (b "GET")) = CErrNoProductRule.
Proof. vm_compute. repeat split; try reflexivity. discriminate. Qed.
