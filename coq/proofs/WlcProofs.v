(* C04 proofs: the candidate list of leastConnsBalance is exactly the set of eligible backends that
   minimise connections/weight (cross-multiplied comparison, no division). *)
From Coq Require Import List ZArith Lia Bool Arith.
From Bfe Require Import lib.Val model.Swrr model.Wlc.
Import ListNotations.
Open Scope Z_scope.

Definition is_min (bb : wb) (l : list wb) : Prop :=
  forall b, In b l -> wb_elig b = true -> comp bb b <= 0.

Lemma elig_pos b : wb_elig b = true -> 0 < wb_w b.
Proof.
  unfold wb_elig, elig, wb_w. intros H. apply andb_true_iff in H. destruct H as [_ H]. apply Z.ltb_lt in H. exact H.
Qed.
Lemma comp_refl a : comp a a = 0.
Proof. unfold comp. lia. Qed.
Lemma comp_anti a b : comp a b = - comp b a.
Proof. unfold comp. lia. Qed.
Lemma comp_trans_le a b c : 0 < wb_w a -> 0 < wb_w b -> 0 < wb_w c ->
  comp a b <= 0 -> comp b c <= 0 -> comp a c <= 0.
Proof.
  unfold comp. intros Ha Hb Hc H1 H2.
  assert (E : wb_w b * (wb_conn a * wb_w c - wb_conn c * wb_w a)
              = wb_w c * (wb_conn a * wb_w b - wb_conn b * wb_w a) + wb_w a * (wb_conn b * wb_w c - wb_conn c * wb_w b)) by ring.
  assert (wb_w b * (wb_conn a * wb_w c - wb_conn c * wb_w a) <= 0) by (rewrite E; nia).
  nia.
Qed.
Lemma comp_trans_lt a b c : 0 < wb_w a -> 0 < wb_w b -> 0 < wb_w c ->
  comp a b < 0 -> comp b c <= 0 -> comp a c < 0.
Proof.
  unfold comp. intros Ha Hb Hc H1 H2.
  assert (E : wb_w b * (wb_conn a * wb_w c - wb_conn c * wb_w a)
              = wb_w c * (wb_conn a * wb_w b - wb_conn b * wb_w a) + wb_w a * (wb_conn b * wb_w c - wb_conn c * wb_w b)) by ring.
  assert (wb_w b * (wb_conn a * wb_w c - wb_conn c * wb_w a) < 0) by (rewrite E; nia).
  nia.
Qed.

Lemma tied_elig bb b : tied bb b = true -> wb_elig b = true.
Proof. unfold tied. intros H. apply andb_true_iff in H. tauto. Qed.
Lemma filter_tied_nil bb l : filter wb_elig l = [] -> filter (tied bb) l = [].
Proof.
  induction l as [|x r IH]; simpl; [reflexivity|]. destruct (wb_elig x) eqn:E; [discriminate|].
  intros H. unfold tied at 1. rewrite E. simpl. apply IH. exact H.
Qed.
Lemma filter_none {X} (f : X -> bool) l : (forall x, In x l -> f x = false) -> filter f l = [].
Proof.
  induction l as [|x r IH]; simpl; intros H; [reflexivity|]. rewrite (H x (or_introl eq_refl)). apply IH.
  intros y Hy. apply H. right. exact Hy.
Qed.

Definition inv (pre : list wb) (best : option wb) (single : bool) : Prop :=
  match best with
  | None => filter wb_elig pre = []
  | Some bb => In bb pre /\ wb_elig bb = true /\ is_min bb pre /\ (single = true -> filter (tied bb) pre = [bb])
  end.

Lemma lc_best_spec : forall s pre best single,
  inv pre best single -> inv (pre ++ s) (fst (lc_best s best single)) (snd (lc_best s best single)).
Proof.
  induction s as [|b r IH]; intros pre best single Hinv.
  - simpl. rewrite app_nil_r. exact Hinv.
  - replace (pre ++ b :: r) with ((pre ++ [b]) ++ r) by (rewrite <- app_assoc; reflexivity).
    simpl lc_best. destruct (wb_elig b) eqn:Eb; simpl negb; cbv iota.
    + destruct best as [bb|].
      * destruct Hinv as [Hin [Hel [Hmin Hs]]].
        pose proof (elig_pos _ Hel) as Hwbb. pose proof (elig_pos _ Eb) as Hwb.
        destruct (Z.gtb_spec (comp bb b) 0) as [Hgt|Hle].
        { (* b strictly better *)
          apply IH. unfold inv. split; [apply in_or_app; right; left; reflexivity|]. split; [exact Eb|].
          assert (Hlt : forall x, In x pre -> wb_elig x = true -> comp b x < 0).
          { intros x Hx Ex. apply (comp_trans_lt b bb x); auto using elig_pos.
            rewrite comp_anti. lia. }
          split.
          - intros x Hx Ex. apply in_app_or in Hx. destruct Hx as [Hx|[Hx|[]]].
            + specialize (Hlt x Hx Ex). lia.
            + subst x. rewrite comp_refl. lia.
          - intros _. rewrite filter_app. rewrite (filter_none (tied b) pre).
            + simpl. unfold tied. rewrite Eb, comp_refl. reflexivity.
            + intros x Hx. unfold tied. destruct (wb_elig x) eqn:Ex; [|reflexivity]. simpl.
              specialize (Hlt x Hx Ex). apply Z.eqb_neq. lia. }
        destruct (Z.eqb_spec (comp bb b) 0) as [Heq|Hne].
        { apply IH. unfold inv. split; [apply in_or_app; left; exact Hin|]. split; [exact Hel|]. split; [|discriminate].
          intros x Hx Ex. apply in_app_or in Hx. destruct Hx as [Hx|[Hx|[]]]; [apply Hmin; assumption|subst x; lia]. }
        { apply IH. unfold inv. split; [apply in_or_app; left; exact Hin|]. split; [exact Hel|]. split.
          - intros x Hx Ex. apply in_app_or in Hx. destruct Hx as [Hx|[Hx|[]]]; [apply Hmin; assumption|subst x; lia].
          - intros Hsg. rewrite filter_app, (Hs Hsg). simpl. unfold tied. rewrite Eb. simpl.
            destruct (Z.eqb_spec (comp bb b) 0); [contradiction|]. reflexivity. }
      * (* first eligible backend *)
        unfold inv in Hinv. apply IH. unfold inv. split; [apply in_or_app; right; left; reflexivity|]. split; [exact Eb|]. split.
        -- intros x Hx Ex. apply in_app_or in Hx. destruct Hx as [Hx|[Hx|[]]].
           ++ exfalso. assert (Hf : In x (filter wb_elig pre)) by (apply filter_In; split; assumption).
              rewrite Hinv in Hf. exact Hf.
           ++ subst x. rewrite comp_refl. lia.
        -- intros _. rewrite filter_app, (filter_tied_nil b pre Hinv). simpl. unfold tied. rewrite Eb, comp_refl. reflexivity.
    + (* ineligible: skipped *)
      apply IH. destruct best as [bb|]; unfold inv in *.
      * destruct Hinv as [Hin [Hel [Hmin Hs]]]. split; [apply in_or_app; left; exact Hin|]. split; [exact Hel|]. split.
        -- intros x Hx Ex. apply in_app_or in Hx. destruct Hx as [Hx|[Hx|[]]]; [apply Hmin; assumption|subst x; congruence].
        -- intros Hsg. rewrite filter_app, (Hs Hsg). simpl. unfold tied. rewrite Eb. reflexivity.
      * rewrite filter_app, Hinv. simpl. rewrite Eb. reflexivity.
Qed.

(* candidates = the eligible backends tied with a minimal one, in list order *)
Theorem least_conns_spec bs cands : least_conns bs = Some cands ->
  exists bb, In bb bs /\ wb_elig bb = true /\ is_min bb bs /\ cands = filter (tied bb) bs.
Proof.
  unfold least_conns. pose proof (lc_best_spec bs [] None true eq_refl) as H. simpl app in H.
  destruct (lc_best bs None true) as [[bb|] sg]; simpl in H; [|discriminate].
  destruct H as [Hin [Hel [Hmin Hs]]]. destruct sg; intros E; inversion E; subst; exists bb; repeat split; auto.
  symmetry. apply Hs. reflexivity.
Qed.
Theorem least_conns_none bs : least_conns bs = None <-> filter wb_elig bs = [].
Proof.
  unfold least_conns. pose proof (lc_best_spec bs [] None true eq_refl) as H. simpl app in H.
  destruct (lc_best bs None true) as [[bb|] sg]; simpl in H.
  - destruct H as [Hin [Hel _]]. split; [destruct sg; discriminate|].
    intros E. exfalso. assert (Hf : In bb (filter wb_elig bs)) by (apply filter_In; split; assumption).
    rewrite E in Hf. exact Hf.
  - split; intros; [exact H|reflexivity].
Qed.

Definition minimal_in (bs : list wb) (c : wb) : Prop :=
  In c bs /\ wb_elig c = true /\
  forall b, In b bs -> wb_elig b = true -> wb_conn c * wb_w b <= wb_conn b * wb_w c.

Theorem candidates_exact bs cands : least_conns bs = Some cands ->
  forall c, In c cands <-> minimal_in bs c.
Proof.
  intros H. destruct (least_conns_spec bs cands H) as [bb [Hin [Hel [Hmin E]]]]. subst cands.
  intros c. unfold minimal_in. rewrite filter_In. split.
  - intros [Hc Ht]. pose proof (tied_elig _ _ Ht) as Ec. split; [exact Hc|]. split; [exact Ec|].
    intros b Hb Eb. unfold tied in Ht. rewrite Ec in Ht. simpl in Ht. apply Z.eqb_eq in Ht.
    assert (comp c b <= 0).
    { apply (comp_trans_le c bb b); auto using elig_pos. rewrite comp_anti. lia. }
    unfold comp in *. lia.
  - intros [Hc [Ec Hall]]. split; [exact Hc|]. unfold tied. rewrite Ec. simpl. apply Z.eqb_eq.
    specialize (Hall bb Hin Hel). specialize (Hmin c Hc Ec). unfold comp in *. lia.
Qed.

Theorem candidates_nonempty bs cands : least_conns bs = Some cands -> cands <> [].
Proof.
  intros H. destruct (least_conns_spec bs cands H) as [bb [Hin [Hel [Hmin E]]]]. subst cands.
  intro E. assert (Hf : In bb (filter (tied bb) bs)).
  { apply filter_In. split; [exact Hin|]. unfold tied. rewrite Hel, comp_refl. reflexivity. }
  rewrite E in Hf. exact Hf.
Qed.

(* ------------------------------------------------------------------------------------------- *)
(* leastConnsSmoothBalance: the pick is one of the candidates; only credits change.             *)
From Bfe Require Import proofs.SwrrProofs.

Definition pj_b (b : wb) : Z * Z * bool := (wb_id b, wb_w b, b_av (fst b)).

Lemma put_back_pj bs upd : map pj_b (put_back bs upd) = map pj_b bs.
Proof.
  unfold put_back. rewrite map_map. apply map_ext. intros [b n]. unfold wb_id. simpl.
  destruct (find_c (b_id b) upd); [|reflexivity]. unfold pj_b, wb_id, wb_w. simpl.
  destruct b as [[[i w] c0] a]. reflexivity.
Qed.

Lemma cands_view_nonempty cands : cands <> [] -> (forall c, In c cands -> wb_elig c = true) ->
  filter elig (map fst cands) <> [].
Proof.
  destruct cands as [|c r]; [congruence|]. intros _ H. simpl.
  specialize (H c (or_introl eq_refl)). unfold wb_elig in H. rewrite H. discriminate.
Qed.

Theorem wlc_smooth_some bs p bs' : wlc_smooth bs = Some (p, bs') ->
  (exists c, minimal_in bs c /\ wb_id c = p) /\ map pj_b bs' = map pj_b bs.
Proof.
  unfold wlc_smooth. destruct (least_conns bs) as [cands|] eqn:E; [|discriminate].
  pose proof (candidates_exact bs cands E) as Hex.
  assert (Hgen : forall l, l = map fst cands -> forall q upd, smooth l = Some (q, upd) -> exists c, minimal_in bs c /\ wb_id c = q).
  { intros l El q upd Hs. subst l. destruct (smooth_some _ _ _ Hs) as [[b [Hb [He Hid]]] _].
    apply in_map_iff in Hb. destruct Hb as [c [Ec Hc]]. exists c. split; [apply Hex; exact Hc|]. subst b. exact Hid. }
  destruct cands as [|c [|c2 r]].
  - simpl. discriminate.
  - intros H; inversion H; subst. split; [|reflexivity]. exists c. split; [apply Hex; left; reflexivity|reflexivity].
  - destruct (smooth (map fst (c :: c2 :: r))) as [[q upd]|] eqn:Es; [|discriminate]. intros H; inversion H; subst.
    split; [eapply Hgen; [reflexivity|exact Es]|apply put_back_pj].
Qed.

Theorem wlc_smooth_none bs : wlc_smooth bs = None <-> filter wb_elig bs = [].
Proof.
  rewrite <- least_conns_none. unfold wlc_smooth. destruct (least_conns bs) as [cands|] eqn:E; [|tauto].
  split; [|discriminate]. intros H. exfalso.
  pose proof (candidates_nonempty bs cands E) as Hne.
  assert (Hel : forall c, In c cands -> wb_elig c = true) by (intros c Hc; apply (candidates_exact bs cands E) in Hc; apply Hc).
  pose proof (cands_view_nonempty cands Hne Hel) as Hv.
  destruct cands as [|c [|c2 r]]; [congruence|discriminate|].
  destruct (smooth (map fst (c :: c2 :: r))) as [[q upd]|] eqn:Es; [discriminate|].
  apply smooth_none in Es. contradiction.
Qed.

(* ------------------------------------------------------------------------------------------- *)
(* The model run satisfies the executable specification wspec on every operation history.        *)
Definition wproj (b : wb) : Z * Z * bool * Z := (wb_id b, wb_w b, b_av (fst b), wb_conn b).

Lemma wc_elig_proj b : wc_elig (wproj b) = wb_elig b.
Proof. destruct b as [[[[i w] c] a] n]. reflexivity. Qed.
Lemma filter_wproj bs : filter wc_elig (map wproj bs) = map wproj (filter wb_elig bs).
Proof.
  induction bs as [|b r IH]; [reflexivity|]. cbn [filter map]. rewrite wc_elig_proj. destruct (wb_elig b); cbn [map]; rewrite IH; reflexivity.
Qed.

Lemma minimal_pick_ok bs c : minimal_in bs c -> minimal_pick (map wproj bs) (wb_id c) = true.
Proof.
  intros [Hin [Hel Hmin]]. unfold minimal_pick. rewrite filter_wproj.
  assert (Hc : In c (filter wb_elig bs)) by (apply filter_In; tauto).
  destruct (filter wb_elig bs) as [|x r] eqn:E; [contradiction|]. rewrite <- E in *. clear E x r.
  destruct (map wproj (filter wb_elig bs)) as [|y ys] eqn:E2.
  { apply (in_map wproj) in Hc. rewrite E2 in Hc. contradiction. }
  rewrite <- E2. clear E2 y ys.
  apply existsb_exists. exists (wproj c). split; [apply in_map; exact Hc|].
  destruct c as [[[[i w] cc] a] n] eqn:Ec. unfold wproj at 1. simpl. unfold wb_id at 1. simpl. rewrite Z.eqb_refl. simpl.
  apply forallb_forall. intros y Hy. apply in_map_iff in Hy. destruct Hy as [b [Eb Hb]]. subst y.
  apply filter_In in Hb. destruct Hb as [Hb He]. specialize (Hmin b Hb He).
  destruct b as [[[[i' w'] c'] a'] n']. unfold wproj. simpl. unfold wb_conn, wb_w in Hmin. simpl in Hmin.
  apply Z.leb_le. exact Hmin.
Qed.
Lemma minimal_pick_none bs : filter wb_elig bs = [] -> minimal_pick (map wproj bs) (-1) = true.
Proof. intros H. unfold minimal_pick. rewrite filter_wproj, H. reflexivity. Qed.

Lemma put_back_wproj bs upd : map wproj (put_back bs upd) = map wproj bs.
Proof.
  unfold put_back. rewrite map_map. apply map_ext. intros [b n]. unfold wb_id. simpl.
  destruct (find_c (b_id b) upd); [|reflexivity]. destruct b as [[[i w] c0] a]. reflexivity.
Qed.
Lemma wlc_smooth_wproj bs p bs' : wlc_smooth bs = Some (p, bs') -> map wproj bs' = map wproj bs.
Proof.
  unfold wlc_smooth. destruct (least_conns bs) as [[|c [|c2 r]]|]; try discriminate.
  - intros H; inversion H; reflexivity.
  - destruct (smooth _) as [[q upd]|]; [|discriminate]. intros H; inversion H; subst. apply put_back_wproj.
Qed.
Lemma wproj_set_conn bs id n :
  map wproj (set_conn bs id n) = map (fun b : Z * Z * bool * Z => let '(i, w, a, _) := b in if i =? id then (i, w, a, n) else b) (map wproj bs).
Proof.
  unfold set_conn. rewrite !map_map. apply map_ext. intros [[[[i w] c] a] m]. cbv [wb_id wproj wb_w wb_conn b_id b_w b_av fst snd].
  destruct (i =? id); reflexivity.
Qed.
Lemma wproj_set_av bs id a :
  map wproj (set_av bs id a) = map (fun b : Z * Z * bool * Z => let '(i, w, _, n) := b in if i =? id then (i, w, a, n) else b) (map wproj bs).
Proof.
  unfold set_av. rewrite !map_map. apply map_ext. intros [[[[i w] c] a0] m]. cbv [wb_id wproj wb_w wb_conn b_id b_w b_av fst snd].
  destruct (i =? id); reflexivity.
Qed.

Theorem wrun_spec : forall ops bs, wspec (map wproj bs) ops (wrun bs ops) = true.
Proof.
  induction ops as [|o r IH]; intros bs; [reflexivity|]. destruct o as [[|]|id n|id a]; simpl.
  - destruct (wlc_smooth bs) as [[p bs']|] eqn:E; simpl.
    + destruct (wlc_smooth_some _ _ _ E) as [[c [Hc Hid]] _]. subst p. rewrite (minimal_pick_ok bs c Hc). simpl.
      rewrite <- (wlc_smooth_wproj _ _ _ E). apply IH.
    + apply wlc_smooth_none in E. rewrite (minimal_pick_none bs E). simpl. apply IH.
  - destruct (least_conns bs) as [[|c cr]|] eqn:E; simpl.
    + exfalso. exact (candidates_nonempty bs [] E eq_refl).
    + assert (Hc : minimal_in bs c) by (apply (candidates_exact bs _ E); left; reflexivity).
      rewrite (minimal_pick_ok bs c Hc). simpl. apply IH.
    + apply least_conns_none in E. rewrite (minimal_pick_none bs E). simpl. apply IH.
  - rewrite <- wproj_set_conn. apply IH.
  - rewrite <- wproj_set_av. apply IH.
Qed.

From Bfe Require Import run.RunC04.
Lemma as_LZ_vLZ l : as_LZ (vLZ l) = Some l.
Proof. unfold as_LZ, vLZ. rewrite map_map. simpl. induction l as [|x r IH]; [reflexivity|]. simpl. rewrite IH. reflexivity. Qed.
Lemma wproj_init conf : map wproj (winit conf) = wc_init conf.
Proof. unfold winit, wc_init. rewrite map_map. apply map_ext. intros [i w]. reflexivity. Qed.

Theorem prop_of_model_C04 : forall i conf ops, dec_in i = Some (conf, ops) -> prop_C04 i (run_C04 i) = true.
Proof.
  intros i conf ops H. unfold prop_C04, run_C04. rewrite H, as_LZ_vLZ, <- wproj_init. apply wrun_spec.
Qed.

Definition wf_C04 (i : val) : bool := match dec_in i with Some _ => true | None => false end.
Theorem central_C04 : forall i, wf_C04 i = true -> kf_C04 i = 0 -> prop_C04 i (run_C04 i) = true.
Proof.
  intros i H _. unfold wf_C04 in H. destruct (dec_in i) as [[conf ops]|] eqn:E; [|discriminate].
  exact (prop_of_model_C04 i conf ops E).
Qed.
Definition sample_C04 : val :=
  VL [VL [VL [VZ 0; VZ 2]; VL [VZ 1; VZ 1]; VL [VZ 2; VZ 0]];
      VL [VL [VZ 1; VZ 0; VZ 4]; VL [VZ 1; VZ 1; VZ 2]; VL [VZ 0; VZ 4]; VL [VZ 2; VZ 0; VZ 0]; VL [VZ 0; VZ 3]; VL [VZ 0; VZ 4]];
      VZ 12345].
Lemma sample_C04_wf : wf_C04 sample_C04 = true.
Proof. reflexivity. Qed.

(* ---------------------------------------------------------------- least connections during slow-start ramps (kind 7) *)
Lemma wproj_with_conn cs (l : list sb) : map wproj (with_conn cs (map fst l)) = wcfg7 cs l.
Proof. unfold with_conn, wcfg7. rewrite !map_map. apply map_ext. intros [b s]. reflexivity. Qed.

(* One Balance(WlcSmooth) call with slow start and arbitrary connection counts: the pick minimises
   connNum / CURRENT weight (the weight checkSlowStart has just computed, not the target weight) among the eligible
   backends; -1 iff none is eligible. *)
Theorem pick7_minimal cs T l p l' :
  pick2 (wlc_bal_c cs) T l = (p, l') -> minimal_pick (wcfg7 cs (check_ss T l)) p = true.
Proof.
  unfold pick2, wlc_bal_c. rewrite <- wproj_with_conn.
  destruct (wlc_smooth (with_conn cs (map fst (check_ss T l)))) as [[q u]|] eqn:E; intros H; inversion H; subst; clear H.
  - destruct (wlc_smooth_some _ _ _ E) as [[c [Hc Hid]] _]. subst p. apply minimal_pick_ok. exact Hc.
  - apply minimal_pick_none. apply wlc_smooth_none. exact E.
Qed.
