(* C04 proofs: the candidate list of leastConnsBalance is exactly the set of eligible backends that
   minimise connections/weight (cross-multiplied comparison, no division). *)
From Coq Require Import List ZArith Lia Bool Arith.
From Bfe Require Import lib.Val model.Swrr model.Wlc.
Import ListNotations.
Open Scope Z_scope.

Definition is_min (bb : wb) (l : list wb) : Prop :=
  forall b, In b l -> wb_elig b = true -> comp bb b <= 0.

Lemma elig_pos b : wb_elig b = true -> 0 < wb_w b.
Proof.
  unfold wb_elig, elig, wb_w. intros H. apply andb_true_iff in H. destruct H as [_ H]. apply Z.ltb_lt in H. exact H.
Qed.
Lemma comp_refl a : comp a a = 0.
Proof. unfold comp. lia. Qed.
Lemma comp_anti a b : comp a b = - comp b a.
Proof. unfold comp. lia. Qed.
Lemma comp_trans_le a b c : 0 < wb_w a -> 0 < wb_w b -> 0 < wb_w c ->
  comp a b <= 0 -> comp b c <= 0 -> comp a c <= 0.
Proof.
  unfold comp. intros Ha Hb Hc H1 H2.
  assert (E : wb_w b * (wb_conn a * wb_w c - wb_conn c * wb_w a)
              = wb_w c * (wb_conn a * wb_w b - wb_conn b * wb_w a) + wb_w a * (wb_conn b * wb_w c - wb_conn c * wb_w b)) by ring.
  assert (wb_w b * (wb_conn a * wb_w c - wb_conn c * wb_w a) <= 0) by (rewrite E; nia).
  nia.
Qed.
Lemma comp_trans_lt a b c : 0 < wb_w a -> 0 < wb_w b -> 0 < wb_w c ->
  comp a b < 0 -> comp b c <= 0 -> comp a c < 0.
Proof.
  unfold comp. intros Ha Hb Hc H1 H2.
  assert (E : wb_w b * (wb_conn a * wb_w c - wb_conn c * wb_w a)
              = wb_w c * (wb_conn a * wb_w b - wb_conn b * wb_w a) + wb_w a * (wb_conn b * wb_w c - wb_conn c * wb_w b)) by ring.
  assert (wb_w b * (wb_conn a * wb_w c - wb_conn c * wb_w a) < 0) by (rewrite E; nia).
  nia.
Qed.

Lemma tied_elig bb b : tied bb b = true -> wb_elig b = true.
Proof. unfold tied. intros H. apply andb_true_iff in H. tauto. Qed.
Lemma filter_tied_nil bb l : filter wb_elig l = [] -> filter (tied bb) l = [].
Proof.
  induction l as [|x r IH]; simpl; [reflexivity|]. destruct (wb_elig x) eqn:E; [discriminate|].
  intros H. unfold tied at 1. rewrite E. simpl. apply IH. exact H.
Qed.
Lemma filter_none {X} (f : X -> bool) l : (forall x, In x l -> f x = false) -> filter f l = [].
Proof.
  induction l as [|x r IH]; simpl; intros H; [reflexivity|]. rewrite (H x (or_introl eq_refl)). apply IH.
  intros y Hy. apply H. right. exact Hy.
Qed.

Definition inv (pre : list wb) (best : option wb) (single : bool) : Prop :=
  match best with
  | None => filter wb_elig pre = []
  | Some bb => In bb pre /\ wb_elig bb = true /\ is_min bb pre /\ (single = true -> filter (tied bb) pre = [bb])
  end.

Lemma lc_best_spec : forall s pre best single,
  inv pre best single -> inv (pre ++ s) (fst (lc_best s best single)) (snd (lc_best s best single)).
Proof.
  induction s as [|b r IH]; intros pre best single Hinv.
  - simpl. rewrite app_nil_r. exact Hinv.
  - replace (pre ++ b :: r) with ((pre ++ [b]) ++ r) by (rewrite <- app_assoc; reflexivity).
    simpl lc_best. destruct (wb_elig b) eqn:Eb; simpl negb; cbv iota.
    + destruct best as [bb|].
      * destruct Hinv as [Hin [Hel [Hmin Hs]]].
        pose proof (elig_pos _ Hel) as Hwbb. pose proof (elig_pos _ Eb) as Hwb.
        destruct (Z.gtb_spec (comp bb b) 0) as [Hgt|Hle].
        { (* b strictly better *)
          apply IH. unfold inv. split; [apply in_or_app; right; left; reflexivity|]. split; [exact Eb|].
          assert (Hlt : forall x, In x pre -> wb_elig x = true -> comp b x < 0).
          { intros x Hx Ex. apply (comp_trans_lt b bb x); auto using elig_pos.
            rewrite comp_anti. lia. }
          split.
          - intros x Hx Ex. apply in_app_or in Hx. destruct Hx as [Hx|[Hx|[]]].
            + specialize (Hlt x Hx Ex). lia.
            + subst x. rewrite comp_refl. lia.
          - intros _. rewrite filter_app. rewrite (filter_none (tied b) pre).
            + simpl. unfold tied. rewrite Eb, comp_refl. reflexivity.
            + intros x Hx. unfold tied. destruct (wb_elig x) eqn:Ex; [|reflexivity]. simpl.
              specialize (Hlt x Hx Ex). apply Z.eqb_neq. lia. }
        destruct (Z.eqb_spec (comp bb b) 0) as [Heq|Hne].
        { apply IH. unfold inv. split; [apply in_or_app; left; exact Hin|]. split; [exact Hel|]. split; [|discriminate].
          intros x Hx Ex. apply in_app_or in Hx. destruct Hx as [Hx|[Hx|[]]]; [apply Hmin; assumption|subst x; lia]. }
        { apply IH. unfold inv. split; [apply in_or_app; left; exact Hin|]. split; [exact Hel|]. split.
          - intros x Hx Ex. apply in_app_or in Hx. destruct Hx as [Hx|[Hx|[]]]; [apply Hmin; assumption|subst x; lia].
          - intros Hsg. rewrite filter_app, (Hs Hsg). simpl. unfold tied. rewrite Eb. simpl.
            destruct (Z.eqb_spec (comp bb b) 0); [contradiction|]. reflexivity. }
      * (* first eligible backend *)
        unfold inv in Hinv. apply IH. unfold inv. split; [apply in_or_app; right; left; reflexivity|]. split; [exact Eb|]. split.
        -- intros x Hx Ex. apply in_app_or in Hx. destruct Hx as [Hx|[Hx|[]]].
           ++ exfalso. assert (Hf : In x (filter wb_elig pre)) by (apply filter_In; split; assumption).
              rewrite Hinv in Hf. exact Hf.
           ++ subst x. rewrite comp_refl. lia.
        -- intros _. rewrite filter_app, (filter_tied_nil b pre Hinv). simpl. unfold tied. rewrite Eb, comp_refl. reflexivity.
    + (* ineligible: skipped *)
      apply IH. destruct best as [bb|]; unfold inv in *.
      * destruct Hinv as [Hin [Hel [Hmin Hs]]]. split; [apply in_or_app; left; exact Hin|]. split; [exact Hel|]. split.
        -- intros x Hx Ex. apply in_app_or in Hx. destruct Hx as [Hx|[Hx|[]]]; [apply Hmin; assumption|subst x; congruence].
        -- intros Hsg. rewrite filter_app, (Hs Hsg). simpl. unfold tied. rewrite Eb. reflexivity.
      * rewrite filter_app, Hinv. simpl. rewrite Eb. reflexivity.
Qed.

(* candidates = the eligible backends tied with a minimal one, in list order *)
Theorem least_conns_spec bs cands : least_conns bs = Some cands ->
  exists bb, In bb bs /\ wb_elig bb = true /\ is_min bb bs /\ cands = filter (tied bb) bs.
Proof.
  unfold least_conns. pose proof (lc_best_spec bs [] None true eq_refl) as H. simpl app in H.
  destruct (lc_best bs None true) as [[bb|] sg]; simpl in H; [|discriminate].
  destruct H as [Hin [Hel [Hmin Hs]]]. destruct sg; intros E; inversion E; subst; exists bb; repeat split; auto.
  symmetry. apply Hs. reflexivity.
Qed.
Theorem least_conns_none bs : least_conns bs = None <-> filter wb_elig bs = [].
Proof.
  unfold least_conns. pose proof (lc_best_spec bs [] None true eq_refl) as H. simpl app in H.
  destruct (lc_best bs None true) as [[bb|] sg]; simpl in H.
  - destruct H as [Hin [Hel _]]. split; [destruct sg; discriminate|].
    intros E. exfalso. assert (Hf : In bb (filter wb_elig bs)) by (apply filter_In; split; assumption).
    rewrite E in Hf. exact Hf.
  - split; intros; [exact H|reflexivity].
Qed.

Definition minimal_in (bs : list wb) (c : wb) : Prop :=
  In c bs /\ wb_elig c = true /\
  forall b, In b bs -> wb_elig b = true -> wb_conn c * wb_w b <= wb_conn b * wb_w c.

Theorem candidates_exact bs cands : least_conns bs = Some cands ->
  forall c, In c cands <-> minimal_in bs c.
Proof.
  intros H. destruct (least_conns_spec bs cands H) as [bb [Hin [Hel [Hmin E]]]]. subst cands.
  intros c. unfold minimal_in. rewrite filter_In. split.
  - intros [Hc Ht]. pose proof (tied_elig _ _ Ht) as Ec. split; [exact Hc|]. split; [exact Ec|].
    intros b Hb Eb. unfold tied in Ht. rewrite Ec in Ht. simpl in Ht. apply Z.eqb_eq in Ht.
    assert (comp c b <= 0).
    { apply (comp_trans_le c bb b); auto using elig_pos. rewrite comp_anti. lia. }
    unfold comp in *. lia.
  - intros [Hc [Ec Hall]]. split; [exact Hc|]. unfold tied. rewrite Ec. simpl. apply Z.eqb_eq.
    specialize (Hall bb Hin Hel). specialize (Hmin c Hc Ec). unfold comp in *. lia.
Qed.

Theorem candidates_nonempty bs cands : least_conns bs = Some cands -> cands <> [].
Proof.
  intros H. destruct (least_conns_spec bs cands H) as [bb [Hin [Hel [Hmin E]]]]. subst cands.
  intro E. assert (Hf : In bb (filter (tied bb) bs)).
  { apply filter_In. split; [exact Hin|]. unfold tied. rewrite Hel, comp_refl. reflexivity. }
  rewrite E in Hf. exact Hf.
Qed.

(* ------------------------------------------------------------------------------------------- *)
(* leastConnsSmoothBalance: the pick is one of the candidates; only credits change.             *)
From Bfe Require Import proofs.SwrrProofs.

Definition pj_b (b : wb) : Z * Z * bool := (wb_id b, wb_w b, b_av (fst b)).

Lemma put_back_pj bs upd : map pj_b (put_back bs upd) = map pj_b bs.
Proof.
  unfold put_back. rewrite map_map. apply map_ext. intros [b n]. unfold wb_id. simpl.
  destruct (find_c (b_id b) upd); [|reflexivity]. unfold pj_b, wb_id, wb_w. simpl.
  destruct b as [[[i w] c0] a]. reflexivity.
Qed.

Lemma cands_view_nonempty cands : cands <> [] -> (forall c, In c cands -> wb_elig c = true) ->
  filter elig (map fst cands) <> [].
Proof.
  destruct cands as [|c r]; [congruence|]. intros _ H. simpl.
  specialize (H c (or_introl eq_refl)). unfold wb_elig in H. rewrite H. discriminate.
Qed.

Theorem wlc_smooth_some bs p bs' : wlc_smooth bs = Some (p, bs') ->
  (exists c, minimal_in bs c /\ wb_id c = p) /\ map pj_b bs' = map pj_b bs.
Proof.
  unfold wlc_smooth. destruct (least_conns bs) as [cands|] eqn:E; [|discriminate].
  pose proof (candidates_exact bs cands E) as Hex.
  assert (Hgen : forall q upd, smooth (map fst cands) = Some (q, upd) -> exists c, minimal_in bs c /\ wb_id c = q).
  { intros q upd Hs. destruct (smooth_some _ _ _ Hs) as [[b [Hb [He Hid]]] _].
    apply in_map_iff in Hb. destruct Hb as [c [Ec Hc]]. exists c. split; [apply Hex; exact Hc|]. subst b. exact Hid. }
  destruct cands as [|c [|c2 r]].
  - simpl. discriminate.
  - intros H; inversion H; subst. split; [|reflexivity]. exists c. split; [apply Hex; left; reflexivity|reflexivity].
  - destruct (smooth (map fst (c :: c2 :: r))) as [[q upd]|] eqn:Es; [|discriminate]. intros H; inversion H; subst.
    split; [eapply Hgen; exact Es|apply put_back_pj].
Qed.

Theorem wlc_smooth_none bs : wlc_smooth bs = None <-> filter wb_elig bs = [].
Proof.
  rewrite <- least_conns_none. unfold wlc_smooth. destruct (least_conns bs) as [cands|] eqn:E; [|tauto].
  split; [|discriminate]. intros H. exfalso.
  pose proof (candidates_nonempty bs cands E) as Hne.
  assert (Hel : forall c, In c cands -> wb_elig c = true) by (intros c Hc; apply (candidates_exact bs cands E) in Hc; apply Hc).
  pose proof (cands_view_nonempty cands Hne Hel) as Hv.
  destruct cands as [|c [|c2 r]]; [congruence|discriminate|].
  destruct (smooth (map fst (c :: c2 :: r))) as [[q upd]|] eqn:Es; [discriminate|].
  apply smooth_none in Es. contradiction.
Qed.
