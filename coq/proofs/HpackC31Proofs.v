(* C31: the decoder model (with the RFC Huffman decoder) on a whole block refines rfc_decode; closure through prop_C31. *)
From Coq Require Import List ZArith Bool Lia ZifyBool ZifyNat.
From Bfe Require Import lib.Val lib.Bytes gen.HpackTables model.Huffman model.Hpack run.RunC31
  proofs.HuffmanProofs proofs.HpackProofs proofs.HpackRfcProofs proofs.HpackIncrProofs.
Import ListNotations.
Open Scope Z_scope.

Lemma trel_init mx : 0 <= mx -> trel (empty_dt mx mx) (mkR [] mx).
Proof. intros H. unfold trel, tab_ok, empty_dt. cbn. repeat split; lia. Qed.

Theorem decoder_refines_rfc_oneshot mx p : 0 <= mx -> wf_bytes p = true ->
  let '(d, fs, st) := dec_run huff_decode_spec (new_decoder mx) [p] [] in
  st <> ST_PANIC /\
  match rfc_decode mx p with
  | Some (t, want) => st = 0 /\ fs = want /\ trel (ddt d) t
  | None => st <> 0
  end.
Proof.
  intros Hmx Hw. cbn [dec_run]. unfold dec_write, new_decoder. destruct p as [|b p0].
  - cbn. split; [discriminate|]. split; [reflexivity|split; [reflexivity|apply trel_init; exact Hmx]].
  - cbn [dsave ddt dfirst app]. unfold rfc_decode.
    pose proof (parse_loop_rfc (S (length (b :: p0))) true (empty_dt mx mx) (mkR [] mx) (b :: p0) [] Hw (trel_init mx Hmx)) as Hl.
    change (dallowed (empty_dt mx mx)) with mx in Hl.
    destruct (parse_loop huff_decode_spec (S (length (b :: p0))) true (empty_dt mx mx) (b :: p0) []) as [[dd acc'] st].
    destruct (rfc_block (S (length (b :: p0))) mx true (mkR [] mx) (b :: p0)) as [[t' fs]|]; cbn [loop_rel] in Hl.
    + destruct Hl as [Hnp [Hst [Hsv [Hacc Hrel]]]]. subst st. change (0 =? 0) with true. cbv iota.
      cbn [dec_run]. unfold dec_close. rewrite Hsv. split; [discriminate|].
      split; [reflexivity|split; [|exact Hrel]]. rewrite Hacc, app_nil_r, rev_involutive. reflexivity.
    + destruct Hl as [Hnp Hl]. destruct (st =? 0) eqn:E.
      * assert (st = 0) by lia. subst st. destruct Hl as [Hl|Hl]; [congruence|].
        cbn [dec_run]. unfold dec_close. destruct (dsave dd); [congruence|].
        split; discriminate.
      * split; [exact Hnp|lia].
Qed.

Lemma fields_eqb_refl l : fields_eqb l l = true.
Proof.
  induction l as [|f l IH]; [reflexivity|]. cbn [fields_eqb]. rewrite IH.
  unfold field_eqb, bytes_eqb. rewrite !(proj2 (list_Z_eqb_eq _ _) eq_refl), eqb_reflx. reflexivity.
Qed.
Lemma val_fields_roundtrip l : val_fields (fields_val l) = Some l.
Proof.
  unfold val_fields, fields_val. induction l as [|f l IH]; [reflexivity|].
  cbn [map all_some]. destruct f as [n x s]. unfold field_val at 1. cbn [fname fvalue fsens].
  assert (val_field (VL [VB n; VB x; vbool s]) = Some (mkF n x s)) as -> by (destruct s; reflexivity).
  rewrite IH. reflexivity.
Qed.

(* the model (RFC Huffman decoder plugged in), fed a whole block, satisfies the executable property *)
Theorem prop_C31_of_model_oneshot mx p : 0 <= mx -> wf_bytes p = true ->
  prop_C31 (VL [VZ mx; VL [VB p]]) (observe huff_decode_spec mx [p]) = true.
Proof.
  intros Hmx Hw. pose proof (decoder_refines_rfc_oneshot mx p Hmx Hw) as H.
  unfold prop_C31, observe. cbn [decode_input map as_B all_some concat]. rewrite app_nil_r.
  destruct (dec_run huff_decode_spec (new_decoder mx) [p] []) as [[d fs] st]. destruct H as [Hnp H].
  assert (st =? ST_PANIC = false) as -> by (unfold ST_PANIC in *; lia).
  rewrite val_fields_roundtrip.
  destruct (rfc_decode mx p) as [[t want]|].
  - destruct H as [-> [-> [Hr [Hm [Hs _]]]]]. rewrite fields_eqb_refl, Hs, Hr.
    change (tab_size (rev (ents (ddt d)))) with (tsum (rev (ents (ddt d)))). rewrite tsum_rev, rev_length.
    unfold vnat. rewrite !Z.eqb_refl. reflexivity.
  - apply negb_true_iff. lia.
Qed.

Lemma wf_bytes_concat chunks : forallb wf_bytes chunks = true -> wf_bytes (concat chunks) = true.
Proof.
  induction chunks as [|c r IH]; [reflexivity|]. cbn [forallb concat]. intros H.
  apply andb_true_iff in H. destruct H as [H1 H2]. unfold wf_bytes in *. rewrite forallb_app, H1. apply IH. exact H2.
Qed.

(* any chunking: refinement of the reference on the concatenation *)
Theorem decoder_refines_rfc mx chunks : 0 <= mx -> forallb wf_bytes chunks = true ->
  let '(d, fs, st) := dec_run huff_decode_spec (new_decoder mx) chunks [] in
  st <> ST_PANIC /\
  match rfc_decode mx (concat chunks) with
  | Some (t, want) => st = 0 /\ fs = want /\ trel (ddt d) t
  | None => st <> 0
  end.
Proof.
  intros Hmx Hw. rewrite dec_run_concat. apply decoder_refines_rfc_oneshot; [exact Hmx|apply wf_bytes_concat; exact Hw].
Qed.

Theorem C31_central_lemma i : wf_C31 i = true -> kf_C31 i = 0 -> prop_C31 i (run_C31 i) = true.
Proof.
  unfold wf_C31, prop_C31, run_C31. intros Hwf _. destruct (decode_input i) as [[mx chunks]|]; [|discriminate].
  apply andb_true_iff in Hwf. destruct Hwf as [Hmx Hw]. apply Z.leb_le in Hmx.
  pose proof (decoder_refines_rfc mx chunks Hmx Hw) as H. unfold observe.
  destruct (dec_run huff_decode_spec (new_decoder mx) chunks []) as [[d fs] st]. destruct H as [Hnp H].
  assert (st =? ST_PANIC = false) as -> by (unfold ST_PANIC in *; lia).
  rewrite val_fields_roundtrip.
  destruct (rfc_decode mx (concat chunks)) as [[t want]|].
  - destruct H as [-> [-> [Hr [Hm [Hs _]]]]]. rewrite fields_eqb_refl, Hs, Hr.
    change (tab_size (rev (ents (ddt d)))) with (tsum (rev (ents (ddt d)))). rewrite tsum_rev, rev_length.
    unfold vnat. rewrite !Z.eqb_refl. reflexivity.
  - apply negb_true_iff. lia.
Qed.
Definition ex_input31 : val := VL [VZ 4096; VL [VB [32; 63]; VB [33; 130; 64]; VB []; VB [1; 120; 129]; VB [7; 190]]].
Lemma ex_input31_ok : wf_C31 ex_input31 = true /\ agree_C31 ex_input31 (run_C31 ex_input31) = true
  /\ run_C31 ex_input31 = VL [VL [VL [VB [58;109;101;116;104;111;100]; VB [71;69;84]; VZ 0]; VL [VB [120]; VB [48]; VZ 0];
                                   VL [VB [120]; VB [48]; VZ 0]]; VZ 0; VZ 34; VZ 64; VZ 1].
Proof. vm_compute. repeat split; reflexivity. Qed.
