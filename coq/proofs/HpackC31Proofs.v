(* C31: the decoder model (with the RFC Huffman decoder) on a whole block refines rfc_decode; closure through prop_C31. *)
From Coq Require Import List ZArith Bool Lia ZifyBool ZifyNat.
From Bfe Require Import lib.Val lib.Bytes gen.HpackTables model.Huffman model.Hpack run.RunC31
  proofs.HuffmanProofs proofs.HpackProofs proofs.HpackRfcProofs proofs.HpackIncrProofs proofs.HpackLimProofs proofs.HpackEmitProofs proofs.HpackSafeProofs.
Import ListNotations.
Open Scope Z_scope.

Lemma trel_init mx : 0 <= mx -> trel (empty_dt mx mx) (mkR [] mx).
Proof. intros H. unfold trel, tab_ok, empty_dt. cbn. repeat split; lia. Qed.

Theorem decoder_refines_rfc_oneshot mx p : 0 <= mx -> wf_bytes p = true ->
  let '(d, fs, st) := dec_run huff_decode_spec (new_decoder mx) [p] [] in
  st <> ST_PANIC /\
  match rfc_decode mx p with
  | Some (t, want) => st = 0 /\ fs = want /\ trel (ddt d) t
  | None => st <> 0
  end.
Proof.
  intros Hmx Hw. cbn [dec_run]. unfold dec_write, new_decoder. destruct p as [|b p0].
  - cbn. split; [discriminate|]. split; [reflexivity|split; [reflexivity|apply trel_init; exact Hmx]].
  - cbn [dsave ddt dfirst app]. unfold rfc_decode.
    pose proof (parse_loop_rfc (S (length (b :: p0))) true (empty_dt mx mx) (mkR [] mx) (b :: p0) [] Hw (trel_init mx Hmx)) as Hl.
    change (dallowed (empty_dt mx mx)) with mx in Hl.
    destruct (parse_loop huff_decode_spec (S (length (b :: p0))) true (empty_dt mx mx) (b :: p0) []) as [[dd acc'] st].
    destruct (rfc_block (S (length (b :: p0))) mx true (mkR [] mx) (b :: p0)) as [[t' fs]|]; cbn [loop_rel] in Hl.
    + destruct Hl as [Hnp [Hst [Hsv [Hacc Hrel]]]]. subst st. change (0 =? 0) with true. cbv iota.
      cbn [dec_run]. unfold dec_close. rewrite Hsv. split; [discriminate|].
      split; [reflexivity|split; [|exact Hrel]]. rewrite Hacc, app_nil_r, rev_involutive. reflexivity.
    + destruct Hl as [Hnp Hl]. destruct (st =? 0) eqn:E.
      * assert (st = 0) by lia. subst st. destruct Hl as [Hl|Hl]; [congruence|].
        cbn [dec_run]. unfold dec_close. destruct (dsave dd); [congruence|].
        split; discriminate.
      * split; [exact Hnp|lia].
Qed.

Lemma fields_eqb_refl l : fields_eqb l l = true.
Proof.
  induction l as [|f l IH]; [reflexivity|]. cbn [fields_eqb]. rewrite IH.
  unfold field_eqb, bytes_eqb. rewrite !(proj2 (list_Z_eqb_eq _ _) eq_refl), eqb_reflx. reflexivity.
Qed.
Lemma val_fields_roundtrip l : val_fields (fields_val l) = Some l.
Proof.
  unfold val_fields, fields_val. induction l as [|f l IH]; [reflexivity|].
  cbn [map all_some]. destruct f as [n x s]. unfold field_val at 1. cbn [fname fvalue fsens].
  assert (val_field (VL [VB n; VB x; vbool s]) = Some (mkF n x s)) as -> by (destruct s; reflexivity).
  rewrite IH. reflexivity.
Qed.

Lemma wf_bytes_concat chunks : forallb wf_bytes chunks = true -> wf_bytes (concat chunks) = true.
Proof.
  induction chunks as [|c r IH]; [reflexivity|]. cbn [forallb concat]. intros H.
  apply andb_true_iff in H. destruct H as [H1 H2]. unfold wf_bytes in *. rewrite forallb_app, H1. apply IH. exact H2.
Qed.

(* any chunking: refinement of the reference on the concatenation *)
Theorem decoder_refines_rfc mx chunks : 0 <= mx -> forallb wf_bytes chunks = true ->
  let '(d, fs, st) := dec_run huff_decode_spec (new_decoder mx) chunks [] in
  st <> ST_PANIC /\
  match rfc_decode mx (concat chunks) with
  | Some (t, want) => st = 0 /\ fs = want /\ trel (ddt d) t
  | None => st <> 0
  end.
Proof.
  intros Hmx Hw. rewrite dec_run_concat. apply decoder_refines_rfc_oneshot; [exact Hmx|apply wf_bytes_concat; exact Hw].
Qed.

Theorem C31_central_lemma i : wf_C31 i = true -> kf_C31 i = 0 -> prop_C31 i (run_C31 i) = true.
Proof.
  unfold wf_C31, prop_C31, run_C31. intros Hwf _. destruct (decode_input i) as [[[[mx M] k] chunks]|]; [|discriminate].
  apply andb_true_iff in Hwf. destruct Hwf as [Hwf Hw].
  apply andb_true_iff in Hwf. destruct Hwf as [Hmx HM].
  apply Z.leb_le in Hmx. apply Z.eqb_eq in HM. subst M.
  pose proof (decoder_refines_rfc mx chunks Hmx Hw) as H. unfold observe.
  rewrite <- dec_run_lim0 in H.
  destruct (dec_run_lim huff_decode_spec 0 (new_decoder mx) chunks []) as [[d fs] st] eqn:Erun. destruct H as [Hnp H].
  destruct (rfc_decode mx (concat chunks)) as [[t want]|].
  - destruct H as [-> [-> [Hr [Hm [Hs _]]]]].
    rewrite (emit_independent huff_decode_spec 0 ltac:(lia) _ k _ _ _ Erun).
    change (0 =? ST_PANIC) with false. cbv iota.
    rewrite val_fields_roundtrip, fields_eqb_refl, Hs, Hr.
    change (tab_size (rev (ents (ddt d)))) with (tsum (rev (ents (ddt d)))). rewrite tsum_rev, rev_length.
    unfold vnat. rewrite !Z.eqb_refl. reflexivity.
  - destruct (k <? 0) eqn:Ek.
    + rewrite (run_e_all huff_decode_spec 0 chunks _ k [] ltac:(lia)), Erun.
      assert (st =? ST_PANIC = false) as -> by (unfold ST_PANIC in *; lia).
      rewrite val_fields_roundtrip. apply orb_true_iff. left. apply negb_true_iff. lia.
    + assert (forall v, huff_decode_spec v <> HPanic) as Hnp'
        by (intros v; unfold huff_decode_spec; destruct (rfc_huff_decode v); discriminate).
      assert (safe_state (new_decoder mx)) as Hss
        by (split; [unfold new_decoder, empty_dt, tab_ok; cbn; lia|reflexivity]).
      pose proof (run_e_safe huff_decode_spec Hnp' 0 chunks (new_decoder mx) k [] Hss Hw) as Hsafe.
      destruct (dec_run_e huff_decode_spec 0 (new_decoder mx) k chunks []) as [[d2 fs2] st2].
      assert (st2 =? ST_PANIC = false) as -> by (unfold ST_PANIC in *; lia).
      rewrite val_fields_roundtrip. apply orb_true_iff. right. lia.
Qed.
Definition ex_input31 : val := VL [VZ 4096; VZ 0; VZ 2; VL [VB [32; 63]; VB [33; 130; 64]; VB []; VB [1; 120; 129]; VB [7; 190]]].
Lemma ex_input31_ok : wf_C31 ex_input31 = true /\ agree_C31 ex_input31 (run_C31 ex_input31) = true
  /\ run_C31 ex_input31 = VL [VL [VL [VB [58;109;101;116;104;111;100]; VB [71;69;84]; VZ 0]; VL [VB [120]; VB [48]; VZ 0]]; VZ 0; VZ 34; VZ 64; VZ 1].
Proof. vm_compute. repeat split; reflexivity. Qed.

(* ---- the decoder model does not depend on which of two Huffman decoders it is given when they agree on byte
        strings; with huff_decode_eq_spec this transfers every result to the byte-trie decoder ---- *)
From Bfe Require Import proofs.HuffmanEquivProofs.
Section Ext.
Variables hd1 hd2 : bytes -> hres.
Hypothesis Hext : forall v, wf_bytes v = true -> hd1 v = hd2 v.

Lemma wf_bytes_firstn p k : wf_bytes p = true -> wf_bytes (firstn k p) = true.
Proof.
  unfold wf_bytes. rewrite !forallb_forall. intros H x Hx. apply H.
  rewrite <- (firstn_skipn k p). apply in_or_app. left. exact Hx.
Qed.
Lemma read_string_ext p : wf_bytes p = true -> read_string hd1 p = read_string hd2 p.
Proof.
  intros Hw. destruct p as [|b0 p0]; [reflexivity|]. unfold read_string.
  destruct (read_varint 7 (b0 :: p0)) as [len r| |c|] eqn:E; try reflexivity.
  destruct (read_varint_wf 7 _ _ _ ltac:(lia) Hw E) as [Hwr _].
  destruct (blen r <? len); [reflexivity|]. destruct (128 <=? b0); [|reflexivity].
  rewrite (Hext _ (wf_bytes_firstn r (Z.to_nat len) Hwr)). reflexivity.
Qed.
Lemma parse_literal_ext d n it p : 0 <= n -> wf_bytes p = true -> parse_literal hd1 d n it p = parse_literal hd2 d n it p.
Proof.
  intros Hn Hw. unfold parse_literal.
  destruct (read_varint n p) as [idx r| |c|] eqn:E; try reflexivity.
  destruct (read_varint_wf n _ _ _ Hn Hw E) as [Hwr _].
  destruct (idx >? 0).
  - destruct (dec_at d idx) as [[nm x]|]; [|reflexivity]. rewrite (read_string_ext r Hwr). reflexivity.
  - rewrite (read_string_ext r Hwr). destruct (read_string hd2 r) as [nm r1| |c|] eqn:E1; try reflexivity.
    rewrite (read_string_ext r1 (read_string_wf _ _ _ _ Hwr E1)). reflexivity.
Qed.
Lemma parse_repr_ext first d p : wf_bytes p = true -> parse_repr hd1 first d p = parse_repr hd2 first d p.
Proof.
  intros Hw. destruct p as [|b p0]; [reflexivity|]. unfold parse_repr.
  destruct (128 <=? b); [reflexivity|].
  destruct (64 <=? b); [apply parse_literal_ext; [lia|exact Hw]|].
  destruct (b <? 16); [apply parse_literal_ext; [lia|exact Hw]|].
  destruct (b <? 32); [apply parse_literal_ext; [lia|exact Hw]|]. reflexivity.
Qed.
Lemma parse_repr_rest_wf hd first d p x rest : wf_bytes p = true -> parse_repr hd first d p = ROk x rest -> wf_bytes rest = true.
Proof.
  intros Hw H. destruct p as [|b p0]; [discriminate|]. unfold parse_repr in H.
  assert (forall n it, 0 <= n -> parse_literal hd d n it (b :: p0) = ROk x rest -> wf_bytes rest = true) as Hlit.
  { intros n it Hn Hl. unfold parse_literal in Hl.
    destruct (read_varint n (b :: p0)) as [idx r| |c|] eqn:E; try discriminate.
    destruct (read_varint_wf n _ _ _ Hn Hw E) as [Hwr _].
    assert (exists nm r1, wf_bytes r1 = true /\
              match read_string hd r1 with
              | ROk v r2 => if it =? 0 then match dt_add d (mkF nm v false) with
                                            | Some d' => ROk (d', Some (mkF nm v (it =? 2))) r2 | None => RPanic end
                            else ROk (d, Some (mkF nm v (it =? 2))) r2
              | RNeedMore => RNeedMore | RErr c => RErr c | RPanic => RPanic
              end = ROk x rest) as [nm [r1 [Hw1 Hl1]]].
    { destruct (idx >? 0).
      - destruct (dec_at d idx) as [[nm y]|]; [|discriminate]. exists nm, r. split; [exact Hwr|exact Hl].
      - destruct (read_string hd r) as [nm r1| |c|] eqn:E1; try discriminate.
        exists nm, r1. split; [eapply read_string_wf; eassumption|exact Hl]. }
    destruct (read_string hd r1) as [v r2| |c|] eqn:E2; try discriminate.
    pose proof (read_string_wf _ _ _ _ Hw1 E2) as Hw2.
    destruct (it =? 0); [destruct (dt_add d (mkF nm v false)); [|discriminate]|]; inversion Hl1; subst; exact Hw2. }
  destruct (128 <=? b).
  - unfold parse_indexed in H. destruct (read_varint 7 (b :: p0)) as [idx r| |c|] eqn:E; try discriminate.
    destruct (read_varint_wf 7 _ _ _ ltac:(lia) Hw E) as [Hwr _].
    destruct (dec_at d idx) as [[n v]|]; [|discriminate]. inversion H; subst. exact Hwr.
  - destruct (64 <=? b); [apply (Hlit 6 0); [lia|exact H]|].
    destruct (b <? 16); [apply (Hlit 4 1); [lia|exact H]|].
    destruct (b <? 32); [apply (Hlit 4 2); [lia|exact H]|].
    unfold parse_size_update in H. destruct (negb first); [discriminate|].
    destruct (read_varint 5 (b :: p0)) as [v r| |c|] eqn:E; try discriminate.
    destruct (read_varint_wf 5 _ _ _ ltac:(lia) Hw E) as [Hwr _].
    destruct (v >? dallowed d); [discriminate|]. destruct (dt_set_max d v); [|discriminate]. inversion H; subst. exact Hwr.
Qed.
Lemma parse_loop_ext : forall fuel first d p acc, wf_bytes p = true ->
  parse_loop hd1 fuel first d p acc = parse_loop hd2 fuel first d p acc.
Proof.
  induction fuel as [|f IH]; intros first d p acc Hw; destruct p as [|b p0]; try reflexivity.
  cbn [parse_loop]. rewrite (parse_repr_ext first d (b :: p0) Hw).
  destruct (parse_repr hd2 first d (b :: p0)) as [[d' o] rest| |c|] eqn:E; try reflexivity.
  apply IH. eapply parse_repr_rest_wf; eassumption.
Qed.
Lemma dec_run_ext mx chunks : forallb wf_bytes chunks = true ->
  dec_run hd1 (new_decoder mx) chunks [] = dec_run hd2 (new_decoder mx) chunks [].
Proof.
  intros Hw. rewrite (dec_run_concat hd1), (dec_run_concat hd2). pose proof (wf_bytes_concat chunks Hw) as Hwc.
  cbn [dec_run]. unfold dec_write, new_decoder. destruct (concat chunks) as [|b p0]; [reflexivity|].
  cbn [dsave ddt dfirst app]. rewrite (parse_loop_ext _ true _ (b :: p0) [] Hwc).
  destruct (parse_loop hd2 (S (length (b :: p0))) true (empty_dt mx mx) (b :: p0) []) as [[dd a] st].
  destruct (st =? 0); reflexivity.
Qed.
End Ext.

Theorem run_C31_trie_eq i : wf_C31 i = true ->
  match decode_input i with Some (_, _, k, _) => k < 0 | None => True end -> run_C31_trie i = run_C31 i.
Proof.
  unfold wf_C31, run_C31_trie, run_C31. destruct (decode_input i) as [[[[mx M] k] chunks]|]; [|discriminate].
  intros H Hk. apply andb_true_iff in H. destruct H as [H Hw].
  apply andb_true_iff in H. destruct H as [_ HM].
  apply Z.eqb_eq in HM. subst M. unfold observe. rewrite !run_e_all by exact Hk. rewrite !dec_run_lim0.
  rewrite (dec_run_ext huff_decode huff_decode_spec huff_decode_eq_spec mx chunks Hw). reflexivity.
Qed.
Theorem decoder_refines_rfc_trie mx chunks : 0 <= mx -> forallb wf_bytes chunks = true ->
  let '(d, fs, st) := dec_run huff_decode (new_decoder mx) chunks [] in
  st <> ST_PANIC /\
  match rfc_decode mx (concat chunks) with
  | Some (t, want) => st = 0 /\ fs = want /\ trel (ddt d) t
  | None => st <> 0
  end.
Proof.
  intros Hmx Hw. rewrite (dec_run_ext huff_decode huff_decode_spec huff_decode_eq_spec mx chunks Hw).
  apply decoder_refines_rfc; assumption.
Qed.
