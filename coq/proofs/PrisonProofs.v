(* C53 proofs *)
From Coq Require Import List ZArith Bool Lia.
From Bfe Require Import lib.Val lib.ValProofs model.Prison run.RunC53.
Import ListNotations.
Open Scope Z_scope.

(* ---------- 1. keys are independent: the rule restricted to key k is the single-key machine ---------- *)
Definition proj (st : state) (k : Z) : option counter * option Z := (fst st k, snd st k).

Lemma rac_same c st k t : 0 <= k ->
  proj (fst (record_and_check c st k t)) k = fst (step1 c (proj st k) t) /\
  snd (record_and_check c st k t) = snd (step1 c (proj st k) t).
Proof.
  intros Hk. unfold record_and_check, proj. destruct (k <? 0) eqn:E; [lia|].
  destruct (step1 c (fst st k, snd st k) t) as [[a p] d]. simpl. unfold upd. rewrite Z.eqb_refl. auto.
Qed.
Lemma rac_other c st k k' t : k' <> k -> proj (fst (record_and_check c st k t)) k' = proj st k'.
Proof.
  intros Hk. unfold record_and_check, proj. destruct (k <? 0); [reflexivity|].
  destruct (step1 c (fst st k, snd st k) t) as [[a p] d]. simpl. unfold upd.
  destruct (k' =? k) eqn:E; [lia|reflexivity].
Qed.

(* verdicts given to key k inside a multi-key history *)
Fixpoint verdicts_of (k : Z) (ops : list (Z * Z)) (ds : list bool) : list bool :=
  match ops, ds with
  | (k', _) :: r, d :: ds' => if k' =? k then d :: verdicts_of k r ds' else verdicts_of k r ds'
  | _, _ => []
  end.
Definition times_of (k : Z) (ops : list (Z * Z)) : list Z := map snd (filter (fun o => fst o =? k) ops).

Lemma keys_independent_gen c k : 0 <= k -> forall ops st,
  verdicts_of k ops (run_ops c st ops) = run1 c (proj st k) (times_of k ops).
Proof.
  intros Hk. induction ops as [|[k' t] r IH]; intros st; [reflexivity|].
  cbn [run_ops]. destruct (record_and_check c st k' t) as [st' d] eqn:E. cbn [verdicts_of].
  unfold times_of. cbn [filter fst]. destruct (k' =? k) eqn:Ek.
  - apply Z.eqb_eq in Ek. subst k'. cbn [map snd run1].
    destruct (rac_same c st k t Hk) as [H1 H2]. rewrite E in H1, H2.
    destruct (step1 c (proj st k) t) as [ap' d'] eqn:E1. cbn [fst snd] in H1, H2. subst d'.
    f_equal. rewrite IH. rewrite H1. reflexivity.
  - rewrite IH. fold (times_of k r). f_equal.
    assert (Hne : k <> k') by lia.
    pose proof (rac_other c st k' k t Hne) as H. rewrite E in H. exact H.
Qed.
Theorem keys_independent c k ops : 0 <= k ->
  verdicts_of k ops (run_ops c empty_state ops) = run1 c (None, None) (times_of k ops).
Proof. intros Hk. apply keys_independent_gen. exact Hk. Qed.

(* ---------- 2. the single-key machine: burst, jail, release ---------- *)
Lemma step1_count c n s t : n + 1 <= c_threshold c -> t <= s + c_period c ->
  step1 c (Some (n, s), None) t = ((Some (n + 1, s), None), false).
Proof.
  intros Hn Ht. unfold step1, should_deny1, record_access1, inc_and_check. simpl.
  destruct (s + c_period c <? t) eqn:E; [lia|]. destruct (c_threshold c <? n + 1) eqn:E2; [lia|]. reflexivity.
Qed.
Lemma step1_fresh c t : 1 <= c_threshold c ->
  step1 c (None, None) t = ((Some (1, t), None), false).
Proof.
  intros Hn. unfold step1, should_deny1, record_access1, inc_and_check. simpl.
  destruct (t + c_period c <? t); destruct (c_threshold c <? 0 + 1) eqn:E2; try lia; reflexivity.
Qed.
(* the request that exceeds the threshold inside the window is denied and the key is jailed
   until window start + period + stay *)
Lemma step1_jail c n s t : c_threshold c < n + 1 -> t <= s + c_period c -> 0 < c_stay c ->
  step1 c (Some (n, s), None) t = ((None, Some (c_stay c + (s + c_period c - t) + t)), true).
Proof.
  intros Hn Ht Hs. unfold step1, should_deny1, record_access1, inc_and_check. simpl.
  destruct (s + c_period c <? t) eqn:E; [lia|]. destruct (c_threshold c <? n + 1) eqn:E2; [|lia].
  destruct (t <? c_stay c + (s + c_period c - t) + t) eqn:E3; [reflexivity|lia].
Qed.
Lemma step1_jailed c a f t : t < f -> step1 c (a, Some f) t = ((a, Some f), true).
Proof. intros H. unfold step1, should_deny1. destruct (t <? f) eqn:E; [reflexivity|lia]. Qed.
Lemma step1_release c f t : f <= t -> step1 c (None, Some f) t = step1 c (None, None) t.
Proof. intros H. unfold step1, should_deny1. destruct (t <? f) eqn:E; [lia|reflexivity]. Qed.

(* n further requests inside the window, still at or below the threshold: all admitted, counted *)
Lemma run1_window c s : forall ts n,
  Forall (fun t => t <= s + c_period c) ts -> n + Z.of_nat (length ts) <= c_threshold c -> 0 <= n ->
  run1 c (Some (n, s), None) ts = repeat false (length ts) /\
  final1 c (Some (n, s), None) ts = (Some (n + Z.of_nat (length ts), s), None).
Proof.
  induction ts as [|t r IH]; intros n Hw Hn H0.
  - simpl. rewrite Z.add_0_r. auto.
  - inversion Hw as [|? ? Ht Hr]; subst. cbn [run1 final1 length repeat].
    rewrite step1_count; [|cbn [length] in Hn; lia|exact Ht].
    cbn [fst]. destruct (IH (n + 1)) as [H1 H2]; [exact Hr|cbn [length] in Hn; lia|lia|].
    rewrite H1, H2. split; [reflexivity|]. f_equal. f_equal. f_equal. cbn [length]. lia.
Qed.

(* C53_jail_after_threshold: from a fresh key, a first request at t1 followed by further requests inside
   [t1, t1+period]: the first threshold requests are admitted, request number threshold+1 is denied, and the key
   is in prison with free time t1 + period + stay *)
Theorem jail_after_threshold_lemma : forall c t1 ts t,
  1 <= c_threshold c -> 0 < c_stay c ->
  Z.of_nat (length ts) = c_threshold c - 1 ->
  Forall (fun x => x <= t1 + c_period c) ts -> t <= t1 + c_period c ->
  run1 c (None, None) (t1 :: ts ++ [t]) = repeat false (S (length ts)) ++ [true] /\
  final1 c (None, None) (t1 :: ts ++ [t]) = (None, Some (t1 + c_period c + c_stay c)).
Proof.
  intros c t1 ts t HT HS Hlen Hw Ht.
  cbn [run1 final1 app]. rewrite step1_fresh by exact HT. cbn [fst].
  assert (Hrun : forall st ts1 ts2, run1 c st (ts1 ++ ts2) = run1 c st ts1 ++ run1 c (final1 c st ts1) ts2).
  { intros st ts1; revert st; induction ts1 as [|x r IH]; intros st ts2; [reflexivity|].
    cbn [run1 final1 app]. destruct (step1 c st x) as [st' d]. cbn [fst]. rewrite IH. reflexivity. }
  assert (Hfin : forall st ts1 ts2, final1 c st (ts1 ++ ts2) = final1 c (final1 c st ts1) ts2).
  { intros st ts1; revert st; induction ts1 as [|x r IH]; intros st ts2; [reflexivity|].
    cbn [final1 app]. apply IH. }
  rewrite Hrun, Hfin.
  destruct (run1_window c t1 ts 1 Hw) as [H1 H2]; [lia|lia|].
  rewrite H1, H2. cbn [run1 final1].
  rewrite step1_jail; [|lia|exact Ht|exact HS]. cbn [fst repeat app].
  split; [reflexivity|]. f_equal. f_equal. lia.
Qed.

(* while in prison every request before the free time is denied and nothing changes *)
Theorem stays_jailed_lemma : forall c f ts, Forall (fun t => t < f) ts ->
  run1 c (None, Some f) ts = repeat true (length ts) /\ final1 c (None, Some f) ts = (None, Some f).
Proof.
  intros c f. induction ts as [|t r IH]; intros H; [auto|].
  inversion H as [|? ? Ht Hr]; subst. cbn [run1 final1 length repeat].
  rewrite step1_jailed by exact Ht. cbn [fst]. destruct (IH Hr) as [H1 H2]. rewrite H1, H2. auto.
Qed.

(* C53_release: the first request at or after the free time is admitted and opens a fresh window *)
Theorem release_lemma : forall c f t, 1 <= c_threshold c -> f <= t ->
  step1 c (None, Some f) t = ((Some (1, t), None), false).
Proof. intros c f t HT H. rewrite step1_release by exact H. apply step1_fresh. exact HT. Qed.

(* ---------- 2b. below the threshold nothing is ever denied (window form) ---------- *)
Lemma count_in_nonneg l a b : 0 <= count_in l a b.
Proof. induction l as [|t r IH]; simpl; [lia|]. destruct ((a <=? t) && (t <=? b)); lia. Qed.
Lemma windows_ok_tl c t r : windows_ok c (t :: r) -> windows_ok c r.
Proof.
  intros H a Ha. specialize (H a (or_intror Ha)). simpl in H.
  destruct ((a <=? t) && (t <=? a + c_period c)); lia.
Qed.
Lemma step1_reset c n s t : 1 <= c_threshold c -> s + c_period c < t ->
  step1 c (Some (n, s), None) t = ((Some (1, t), None), false).
Proof.
  intros HT Ht. unfold step1, should_deny1, record_access1, inc_and_check. simpl.
  destruct (s + c_period c <? t) eqn:E; [|lia]. simpl. destruct (c_threshold c <? 1) eqn:E2; [lia|]. reflexivity.
Qed.

Lemma never_denied_open c : 0 <= c_period c -> forall ts n s,
  nondecr s ts -> windows_ok c ts -> n + count_in ts s (s + c_period c) <= c_threshold c ->
  run1 c (Some (n, s), None) ts = repeat false (length ts).
Proof.
  intros HP. induction ts as [|t r IH]; intros n s Hs Hw Hn; [reflexivity|].
  destruct Hs as [Hst Hr]. cbn [run1 length repeat].
  pose proof (Hw t (or_introl eq_refl)) as Hwt. cbn [count_in] in Hwt, Hn.
  assert (Et : ((t <=? t) && (t <=? t + c_period c)) = true) by (apply andb_true_iff; split; apply Z.leb_le; lia).
  rewrite Et in Hwt. pose proof (count_in_nonneg r t (t + c_period c)) as Hc0.
  destruct (Z_le_gt_dec t (s + c_period c)) as [Hle|Hgt].
  - assert (Es : ((s <=? t) && (t <=? s + c_period c)) = true) by (apply andb_true_iff; split; apply Z.leb_le; lia).
    rewrite Es in Hn. pose proof (count_in_nonneg r s (s + c_period c)) as Hc1.
    rewrite step1_count by lia. f_equal. apply IH; [|apply (windows_ok_tl c t r Hw)|lia].
    clear -Hr Hst. destruct r as [|x r]; [exact I|]. destruct Hr as [H1 H2]. split; [lia|exact H2].
  - rewrite step1_reset by lia. f_equal. apply IH; [exact Hr|apply (windows_ok_tl c t r Hw)|lia].
Qed.

Theorem below_threshold_never_denied_lemma : forall c ts,
  0 <= c_period c -> (match ts with [] => True | t :: r => nondecr t r end) -> windows_ok c ts ->
  run1 c (None, None) ts = repeat false (length ts).
Proof.
  intros c ts HP Hs Hw. destruct ts as [|t r]; [reflexivity|]. cbn [run1 length repeat].
  pose proof (Hw t (or_introl eq_refl)) as Hwt. cbn [count_in] in Hwt.
  assert (Et : ((t <=? t) && (t <=? t + c_period c)) = true) by (apply andb_true_iff; split; apply Z.leb_le; lia).
  rewrite Et in Hwt. pose proof (count_in_nonneg r t (t + c_period c)) as Hc0.
  rewrite step1_fresh by lia. f_equal. apply never_denied_open; [exact HP|exact Hs|apply (windows_ok_tl c t r Hw)|lia].
Qed.

(* ---------- 3. refinement: the model equals the reference automaton of RunC53 ---------- *)
Definition abs (ap : option counter * option Z) : kstate :=
  match ap with
  | (Some (n, s), None) => {| k_open := true; k_start := s; k_count := n; k_jailed := false; k_free := 0 |}
  | (_, Some f) => {| k_open := false; k_start := 0; k_count := 0; k_jailed := true; k_free := f |}
  | (None, None) => k0
  end.
Definition shape_ok (ap : option counter * option Z) : Prop :=
  match ap with (Some _, Some _) => False | _ => True end.

Lemma step1_refines c ap t : shape_ok ap ->
  shape_ok (fst (step1 c ap t)) /\ abs (fst (step1 c ap t)) = fst (spec_step c (abs ap) t) /\
  snd (step1 c ap t) = snd (spec_step c (abs ap) t).
Proof.
  destruct ap as [[[n s]|] [f|]]; intros Hs; try contradiction;
    unfold step1, spec_step, should_deny1, record_access1, inc_and_check, abs, k0; cbn [k_open k_jailed k_free k_start k_count andb negb fst snd c_period].
  - rewrite Z.leb_antisym. destruct (s + c_period c <? t) eqn:E; cbn [fst snd negb];
    [destruct (c_threshold c <? 0 + 1) eqn:E2|destruct (c_threshold c <? n + 1) eqn:E2]; cbn [fst snd];
    try replace (c_stay c + (t + c_period c - t) + t) with (t + c_period c + c_stay c) by lia;
    try replace (c_stay c + (s + c_period c - t) + t) with (s + c_period c + c_stay c) by lia;
    try (destruct (t <? t + c_period c + c_stay c) eqn:E3; cbn [fst snd]; auto);
    try (destruct (t <? s + c_period c + c_stay c) eqn:E4; cbn [fst snd]; auto); auto.
  - destruct (t <? f) eqn:E; cbn [fst snd]; [auto|].
    destruct (t + c_period c <? t); cbn [fst snd];
    destruct (c_threshold c <? 0 + 1) eqn:E2; cbn [fst snd];
    replace (c_stay c + (t + c_period c - t) + t) with (t + c_period c + c_stay c) by lia;
    try (destruct (t <? t + c_period c + c_stay c) eqn:E3; cbn [fst snd]; auto); auto.
  - destruct (t + c_period c <? t); cbn [fst snd];
    destruct (c_threshold c <? 0 + 1) eqn:E2; cbn [fst snd];
    replace (c_stay c + (t + c_period c - t) + t) with (t + c_period c + c_stay c) by lia;
    try (destruct (t <? t + c_period c + c_stay c) eqn:E3; cbn [fst snd]; auto); auto.
Qed.

Lemma run_refines c : forall ops st m,
  (forall k, shape_ok (proj st k) /\ abs (proj st k) = m k) ->
  run_ops c st ops = spec_run c m ops.
Proof.
  induction ops as [|[k t] r IH]; intros st m H; [reflexivity|].
  cbn [run_ops spec_run]. unfold record_and_check. destruct (k <? 0) eqn:Ek.
  - f_equal. apply IH. exact H.
  - destruct (H k) as [Hs Ha]. destruct (step1_refines c (proj st k) t Hs) as [H1 [H2 H3]].
    unfold proj in *. destruct (step1 c (fst st k, snd st k) t) as [ap d]. rewrite <- Ha.
    destruct (spec_step c (abs (fst st k, snd st k)) t) as [s' d']. cbn [fst snd] in *. subst d'.
    f_equal. apply IH. intros k'. unfold upd. cbn [fst snd]. destruct (k' =? k) eqn:E.
    + split; [destruct ap; exact H1|]. destruct ap; exact H2.
    + apply H.
Qed.

Lemma list_bool_eqb_refl l : list_bool_eqb l l = true.
Proof. induction l as [|b l IH]; [reflexivity|]. simpl. rewrite IH. destruct b; reflexivity. Qed.
Lemma bools_of_vbool l : bools_of (VL (map vbool l)) = Some l.
Proof.
  unfold bools_of. induction l as [|b l IH]; [reflexivity|]. cbn [map all_some].
  rewrite map_map in *. destruct b; cbn [vbool VT VF]; rewrite IH; reflexivity.
Qed.


(* ---------- 4. with LRU eviction: nobody is denied without cause ---------- *)
Section Justified.
  Variable c : cfg.
  Hypothesis HP : 0 <= c_period c.

  Lemma count_key_app k a b l1 l2 : count_key k a b (l1 ++ l2) = count_key k a b l1 + count_key k a b l2.
  Proof. induction l1 as [|[k' t] r IH]; [reflexivity|]. cbn [app count_key]. rewrite IH. lia. Qed.
  Lemma count_key_nonneg k a b l : 0 <= count_key k a b l.
  Proof. induction l as [|[k' t] r IH]; cbn [count_key]; [lia|]. destruct ((k' =? k) && (a <=? t) && (t <=? b)); lia. Qed.

  Definition just_acc (past : list (Z * Z)) (e : Z * counter) : Prop :=
    In (fst e, snd (snd e)) past /\ fst (snd e) <= count_key (fst e) (snd (snd e)) (snd (snd e) + c_period c) past.
  Definition just_pr (past : list (Z * Z)) (e : Z * Z) : Prop :=
    exists s, In (fst e, s) past /\ c_threshold c < count_key (fst e) s (s + c_period c) past /\ snd e = s + c_period c + c_stay c.
  Lemma just_acc_mono past x e : just_acc past e -> just_acc (past ++ x) e.
  Proof.
    intros [H1 H2]. split; [apply in_or_app; left; exact H1|]. rewrite count_key_app.
    pose proof (count_key_nonneg (fst e) (snd (snd e)) (snd (snd e) + c_period c) x). lia.
  Qed.
  Lemma just_pr_mono past x e : just_pr past e -> just_pr (past ++ x) e.
  Proof.
    intros [s [H1 [H2 H3]]]. exists s. split; [apply in_or_app; left; exact H1|]. split; [|exact H3]. rewrite count_key_app.
    pose proof (count_key_nonneg (fst e) s (s + c_period c) x). lia.
  Qed.

  (* generic facts about the recency lists *)
  Lemma lru_find_In {A} k (l : list (Z * A)) v : lru_find k l = Some v -> In (k, v) l.
  Proof.
    induction l as [|[k' v'] r IH]; cbn [lru_find]; [discriminate|]. destruct (k' =? k) eqn:E.
    - intros H. inversion H; subst. apply Z.eqb_eq in E. subst. left. reflexivity.
    - intros H. right. apply IH. exact H.
  Qed.
  Lemma Forall_lru_remove {A} (P : Z * A -> Prop) k l : Forall P l -> Forall P (lru_remove k l).
  Proof.
    induction l as [|[k' v'] r IH]; intros H; [constructor|]. inversion H; subst. cbn [lru_remove].
    destruct (k' =? k); [assumption|constructor; auto].
  Qed.
  Lemma Forall_removelast {A} (P : A -> Prop) l : Forall P l -> Forall P (removelast l).
  Proof.
    induction l as [|x r IH]; intros H; [constructor|]. inversion H; subst. destruct r as [|y r]; [constructor|].
    change (removelast (x :: y :: r)) with (x :: removelast (y :: r)). constructor; auto.
  Qed.
  Lemma Forall_lru_update {A} (P : Z * A -> Prop) k v l : Forall P l -> P (k, v) -> Forall P (lru_update k v l).
  Proof.
    induction l as [|[k' v'] r IH]; intros H Hv; [constructor|]. inversion H; subst. cbn [lru_update].
    destruct (k' =? k) eqn:E; [apply Z.eqb_eq in E; subst; constructor; assumption|constructor; auto].
  Qed.
  Lemma Forall_lru_add {A} (P : Z * A -> Prop) cap k v l : Forall P l -> P (k, v) -> Forall P (lru_add cap k v l).
  Proof.
    intros H Hv. unfold lru_add. destruct (lru_find k l).
    - constructor; [exact Hv|apply Forall_lru_remove; exact H].
    - destruct (cap <? Z.of_nat (length ((k, v) :: l))); [apply Forall_removelast|]; constructor; assumption.
  Qed.

  Lemma sd_spec (P : Z * Z -> Prop) pr k t d pr' : should_deny_l pr k t = (d, pr') -> Forall P pr ->
    Forall P pr' /\ (d = true -> exists f, In (k, f) pr /\ t < f).
  Proof.
    unfold should_deny_l, lru_get. intros H HF. destruct (lru_find k pr) as [f|] eqn:Ef.
    - pose proof (lru_find_In k pr f Ef) as Hin. rewrite Forall_forall in HF. pose proof (HF _ Hin) as Hf.
      assert (HR : Forall P (lru_remove k pr)) by (apply Forall_lru_remove; apply Forall_forall; exact HF).
      destruct (t <? f) eqn:Et; cbn [lru_remove] in H; try rewrite Z.eqb_refl in H; inversion H; subst.
      + split; [constructor; assumption|]. intros _. exists f. split; [exact Hin|lia].
      + split; [exact HR|discriminate].
    - inversion H; subst. split; [exact HF|discriminate].
  Qed.

  Definition Inv (past : list (Z * Z)) (st : lstate) : Prop :=
    Forall (just_acc past) (l_acc st) /\ Forall (just_pr past) (l_pr st).
  Definition times_le (past : list (Z * Z)) (m : Z) : Prop := forall k s, In (k, s) past -> 0 <= k -> s <= m.

  Lemma count_last k t past : 0 <= k ->
    count_key k t (t + c_period c) (past ++ [(k, t)]) >= 1.
  Proof.
    intros Hk. rewrite count_key_app. cbn [count_key]. rewrite Z.eqb_refl.
    replace (t <=? t) with true by (symmetry; apply Z.leb_le; lia).
    replace (t <=? t + c_period c) with true by (symmetry; apply Z.leb_le; lia). cbn [andb].
    pose proof (count_key_nonneg k t (t + c_period c) past). lia.
  Qed.

  Lemma step_justified past st k t st' d :
    Inv past st -> times_le past t -> 0 <= k ->
    record_and_check_l c st k t = (st', d) ->
    Inv (past ++ [(k, t)]) st' /\ (d = true -> denial_justified c (past ++ [(k, t)]) k t = true).
  Proof.
    intros [HA HPr] Hle Hk. set (sofar := past ++ [(k, t)]).
    assert (HA' : Forall (just_acc sofar) (l_acc st)) by (eapply Forall_impl; [|exact HA]; intros e; apply just_acc_mono).
    assert (HP' : Forall (just_pr sofar) (l_pr st)) by (eapply Forall_impl; [|exact HPr]; intros e; apply just_pr_mono).
    assert (Hden : forall f, (exists s, In (k, s) sofar /\ c_threshold c < count_key k s (s + c_period c) sofar /\ f = s + c_period c + c_stay c) ->
                   t < f -> denial_justified c sofar k t = true).
    { intros f [s [H1 [H2 H3]]] Hlt. unfold denial_justified. apply existsb_exists. exists (k, s). split; [exact H1|].
      cbn [fst snd]. rewrite Z.eqb_refl. cbn [andb]. apply andb_true_iff. split; apply Z.ltb_lt; lia. }
    unfold record_and_check_l. destruct (k <? 0) eqn:Ek; [lia|].
    destruct (should_deny_l (l_pr st) k t) as [d1 pr1] eqn:E1.
    destruct (sd_spec (just_pr sofar) _ _ _ _ _ E1 HP') as [HP1 Hd1].
    destruct d1.
    - intros H. inversion H; subst. split; [split; assumption|]. intros _.
      destruct (Hd1 eq_refl) as [f [Hin Hlt]]. rewrite Forall_forall in HP'. apply (Hden f (HP' _ Hin) Hlt).
    - (* the counter *)
      set (got := match lru_get k (l_acc st) with
                  | (Some cs, acc') => (cs, acc')
                  | (None, _) => ((0, t), lru_add (l_acap st) k (0, t) (l_acc st)) end).
      assert (Hgot : Forall (just_acc sofar) (snd got) /\
                     In (k, snd (fst got)) sofar /\ snd (fst got) <= t /\
                     fst (fst got) <= count_key k (snd (fst got)) (snd (fst got) + c_period c) past).
      { subst got. unfold lru_get. destruct (lru_find k (l_acc st)) as [[n s]|] eqn:Ef.
        - pose proof (lru_find_In k _ _ Ef) as Hin. cbn [fst snd].
          rewrite Forall_forall in HA. destruct (HA _ Hin) as [Hi Hn]. cbn [fst snd] in Hi, Hn.
          split; [constructor; [rewrite Forall_forall in HA'; apply (HA' _ Hin)|apply Forall_lru_remove; exact HA']|].
          split; [apply in_or_app; left; exact Hi|]. split; [apply (Hle k s Hi Hk)|exact Hn].
        - cbn [fst snd]. assert (Hnew : just_acc sofar (k, (0, t))).
          { split; cbn [fst snd]; [apply in_or_app; right; left; reflexivity|apply count_key_nonneg]. }
          split; [apply Forall_lru_add; assumption|]. split; [apply in_or_app; right; left; reflexivity|].
          split; [lia|apply count_key_nonneg]. }
      destruct got as [[n s] acc1]. cbn [fst snd] in Hgot. destruct Hgot as [Hacc1 [Hin [Hst Hn]]].
      unfold inc_and_check. cbn [fst snd].
      set (cs1 := if s + c_period c <? t then (0, t) else (n, s)).
      assert (Hcs1 : In (k, snd cs1) sofar /\ fst cs1 + 1 <= count_key k (snd cs1) (snd cs1 + c_period c) sofar /\ t <= snd cs1 + c_period c).
      { subst cs1. destruct (s + c_period c <? t) eqn:Er; cbn [fst snd].
        - split; [apply in_or_app; right; left; reflexivity|]. pose proof (count_last k t past Hk). fold sofar in H. lia.
        - split; [exact Hin|]. split; [|lia]. unfold sofar. rewrite count_key_app. cbn [count_key]. rewrite Z.eqb_refl.
          replace (s <=? t) with true by (symmetry; apply Z.leb_le; lia).
          replace (t <=? s + c_period c) with true by (symmetry; apply Z.leb_le; lia). cbn [andb]. lia. }
      destruct cs1 as [c1 s1]. cbn [fst snd] in Hcs1. destruct Hcs1 as [Hin1 [Hc1 Hw1]].
      assert (Hnewacc : just_acc sofar (k, (c1 + 1, s1))) by (split; cbn [fst snd]; assumption).
      pose proof (Forall_lru_update (just_acc sofar) k (c1 + 1, s1) acc1 Hacc1 Hnewacc) as Hacc2.
      destruct (c_threshold c <? c1 + 1) eqn:Eb.
      + (* jailed *)
        assert (Hnewpr : just_pr sofar (k, c_stay c + (s1 + c_period c - t) + t)).
        { exists s1. cbn [fst snd]. split; [exact Hin1|]. split; [lia|lia]. }
        pose proof (Forall_lru_add (just_pr sofar) (l_pcap st) k _ pr1 HP1 Hnewpr) as HP2.
        destruct (should_deny_l (lru_add (l_pcap st) k (c_stay c + (s1 + c_period c - t) + t) pr1) k t) as [d2 pr3] eqn:E2.
        destruct (sd_spec (just_pr sofar) _ _ _ _ _ E2 HP2) as [HP3 Hd2].
        intros H. inversion H; subst. split; [split; cbn [l_acc l_pr]; [apply Forall_lru_remove; exact Hacc2|exact HP3]|].
        intros Hd. destruct (Hd2 Hd) as [f [Hinf Hlt]]. rewrite Forall_forall in HP2. apply (Hden f (HP2 _ Hinf) Hlt).
      + destruct (should_deny_l pr1 k t) as [d2 pr3] eqn:E2.
        destruct (sd_spec (just_pr sofar) _ _ _ _ _ E2 HP1) as [HP3 Hd2].
        intros H. inversion H; subst. split; [split; cbn [l_acc l_pr]; assumption|].
        intros Hd. destruct (Hd2 Hd) as [f [Hinf Hlt]]. rewrite Forall_forall in HP1. apply (Hden f (HP1 _ Hinf) Hlt).
  Qed.
End Justified.

Fixpoint sorted_from (m : Z) (ops : list (Z * Z)) : bool :=
  match ops with
  | [] => true
  | (k, t) :: r => if k <? 0 then sorted_from m r else (m <=? t) && sorted_from t r
  end.
Fixpoint first_time (ops : list (Z * Z)) : Z :=
  match ops with [] => 0 | (k, t) :: r => if k <? 0 then first_time r else t end.
(* request times (of signable requests) are non-decreasing *)
Definition sorted_all (ops : list (Z * Z)) : bool := sorted_from (first_time ops) ops.

Lemma run_lru_justified c : 0 <= c_period c -> forall ops past st m,
  Inv c past st -> times_le past m -> sorted_from m ops = true -> stable ops = true ->
  all_justified c past ops (run_lru c st ops) = true.
Proof.
  intros HP. induction ops as [|[k t] r IH]; intros past st m HI Hle Hs Hstab; [reflexivity|].
  cbn [run_lru]. cbn [sorted_from] in Hs. unfold stable in Hstab. cbn [forallb fst snd] in Hstab.
  apply andb_true_iff in Hstab. destruct Hstab as [Hst1 Hstab]. fold (stable r) in Hstab.
  assert (Hmono : forall x, Inv c past st -> Inv c (past ++ x) st).
  { intros x [H1 H2]. split; (eapply Forall_impl; [|eassumption]); intros e; [apply just_acc_mono|apply just_pr_mono]. }
  destruct (k =? -2) eqn:E2.
  - apply Z.eqb_eq in E2. subst k. cbn [all_justified]. change (-2 <? 0) with true in Hs.
    change (-2 =? -2) with true in Hst1. cbn [negb orb] in Hst1. unfold rl_cfg. rewrite Hst1.
    apply (IH (past ++ [(-2, t)]) (reload_l st t) m); [|intros k s Hin Hk; apply in_app_or in Hin; destruct Hin as [Hin|[Hin|[]]]; [apply (Hle k s Hin Hk)|inversion Hin; subst; lia]|exact Hs|exact Hstab].
    destruct (Hmono [(-2, t)] HI) as [H1 H2]. split; assumption.
  - destruct (record_and_check_l c st k t) as [st' d] eqn:ER. cbn [all_justified].
    destruct (k <? 0) eqn:Ek.
    + unfold record_and_check_l in ER. rewrite Ek in ER. inversion ER; subst. cbn [andb].
      apply (IH (past ++ [(k, t)]) st' m); [apply Hmono; exact HI| |exact Hs|exact Hstab].
      intros k' s Hin Hk. apply in_app_or in Hin. destruct Hin as [Hin|[Hin|[]]]; [apply (Hle k' s Hin Hk)|inversion Hin; subst; lia].
    + apply andb_true_iff in Hs. destruct Hs as [Hmt Hs]. apply Z.leb_le in Hmt.
      assert (Hk : 0 <= k) by lia.
      assert (Hle' : times_le past t) by (intros k' s Hin Hk'; pose proof (Hle k' s Hin Hk'); lia).
      destruct (step_justified c HP past st k t st' d HI Hle' Hk ER) as [HI' Hd].
      apply andb_true_iff. split.
      * destruct d; [|reflexivity]. rewrite (Hd eq_refl). replace (0 <=? k) with true by (symmetry; apply Z.leb_le; exact Hk). reflexivity.
      * apply (IH (past ++ [(k, t)]) st' t); [exact HI'| |exact Hs|exact Hstab].
        intros k' s Hin Hk'. apply in_app_or in Hin. destruct Hin as [Hin|[Hin|[]]]; [apply (Hle' k' s Hin Hk')|inversion Hin; subst; lia].
Qed.


(* ---------- 5. several rules (processRules): the model judges every request as the reference automata do ---------- *)
Definition Rst (st : state) (m : Z -> kstate) : Prop := forall k, shape_ok (proj st k) /\ abs (proj st k) = m k.
Lemma rac_refines c st m k t : Rst st m ->
  Rst (fst (record_and_check c st k t)) (fst (spec_rac c m k t)) /\
  snd (record_and_check c st k t) = snd (spec_rac c m k t).
Proof.
  intros H. unfold record_and_check, spec_rac. destruct (k <? 0) eqn:Ek; [split; [exact H|reflexivity]|].
  destruct (H k) as [Hs Ha]. destruct (step1_refines c (proj st k) t Hs) as [H1 [H2 H3]].
  unfold proj in *. destruct (step1 c (fst st k, snd st k) t) as [ap d]. rewrite <- Ha.
  destruct (spec_step c (abs (fst st k, snd st k)) t) as [s' d']. cbn [fst snd] in *. subst d'.
  split; [|reflexivity]. intros k'. unfold proj, upd. cbn [fst snd]. destruct (k' =? k) eqn:E.
  - split; [destruct ap; exact H1|]. destruct ap; exact H2.
  - apply (H k').
Qed.

Section MultiSim.
  Variables SA SB : Type.
  Variable stepA : cfg -> SA -> Z -> Z -> SA * bool.
  Variable stepB : cfg -> SB -> Z -> Z -> SB * bool.
  Variable R : SA -> SB -> Prop.
  Hypothesis Hstep : forall c a b k t, R a b ->
    R (fst (stepA c a k t)) (fst (stepB c b k t)) /\ snd (stepA c a k t) = snd (stepB c b k t).
  Definition RL (ra : list (mrule * SA)) (rb : list (mrule * SB)) : Prop :=
    Forall2 (fun x y => fst x = fst y /\ R (snd x) (snd y)) ra rb.

  Lemma process_rules_sim k t : forall ra rb, RL ra rb ->
    RL (fst (process_rules SA stepA ra k t)) (fst (process_rules SB stepB rb k t)) /\
    snd (process_rules SA stepA ra k t) = snd (process_rules SB stepB rb k t).
  Proof.
    induction ra as [|[r a] ra IH]; intros rb H; inversion H as [|x [r' b] l l' [Hr HR] Hl]; subst; [split; [constructor|reflexivity]|].
    cbn [fst snd] in Hr, HR. subst r'. cbn [process_rules].
    destruct (IH l' Hl) as [IH1 IH2].
    destruct (m_match r); cbn [negb].
    - destruct (Hstep (m_cfg r) a b k t HR) as [HR' Hd].
      destruct (stepA (m_cfg r) a k t) as [a' d]. destruct (stepB (m_cfg r) b k t) as [b' d']. cbn [fst snd] in HR', Hd. subst d'.
      destruct (d && (m_cmd r =? 0)); [split; [constructor; [split; [reflexivity|exact HR']|exact Hl]|reflexivity]|].
      destruct (d && (m_cmd r =? 1)); [split; [constructor; [split; [reflexivity|exact HR']|exact Hl]|reflexivity]|].
      destruct (process_rules SA stepA ra k t) as [ra' [[ret c] p]]. destruct (process_rules SB stepB l' k t) as [rb' [[ret' c'] p']].
      cbn [fst snd] in *. inversion IH2; subst. split; [constructor; [split; [reflexivity|exact HR']|exact IH1]|reflexivity].
    - destruct (process_rules SA stepA ra k t) as [ra' [[ret c] p]]. destruct (process_rules SB stepB l' k t) as [rb' [[ret' c'] p']].
      cbn [fst snd] in *. inversion IH2; subst. split; [constructor; [split; [reflexivity|exact HR]|exact IH1]|reflexivity].
  Qed.

  Lemma run_multi_sim : forall ops ga gb pa pb, RL ga gb -> RL pa pb ->
    run_multi SA stepA ga pa ops = run_multi SB stepB gb pb ops.
  Proof.
    induction ops as [|[k t] r IH]; intros ga gb pa pb Hg Hp; [reflexivity|]. cbn [run_multi]. unfold process_all.
    destruct (process_rules_sim k t ga gb Hg) as [Hg1 Hg2]. destruct (process_rules_sim k t pa pb Hp) as [Hp1 Hp2].
    destruct (process_rules SA stepA ga k t) as [ga' [[ret c] p]]. destruct (process_rules SB stepB gb k t) as [gb' [[ret' c'] p']].
    cbn [fst snd] in *. inversion Hg2; subst. destruct (ret' =? 0).
    - destruct (process_rules SA stepA pa k t) as [pa' [[ret2 c2] p2]]. destruct (process_rules SB stepB pb k t) as [pb' [[ret2' c2'] p2']].
      cbn [fst snd] in *. inversion Hp2; subst. f_equal. apply IH; assumption.
    - f_equal. apply IH; assumption.
  Qed.
End MultiSim.

Lemma with_state_RL rs : RL state (Z -> kstate) Rst (with_state empty_state rs) (with_state (fun _ => k0) rs).
Proof.
  unfold with_state, RL. induction rs as [|r rs IH]; [constructor|]. cbn [map]. constructor; [|exact IH].
  split; [reflexivity|]. intros k. split; [exact I|reflexivity].
Qed.
Theorem multi_is_reference : forall x, run_minp x = spec_minp x.
Proof.
  intros x. unfold run_minp, spec_minp.
  apply (run_multi_sim state (Z -> kstate) record_and_check spec_rac Rst rac_refines); apply with_state_RL.
Qed.

(* central theorem.  Well-formed: the input decodes, and either no dictionary can overflow (distinct keys <= both sizes:
   the reference automaton decides), or period >= 0 and the request times are non-decreasing (LRU eviction possible:
   every denial must be justified); no reload changes period/stay/threshold *)
Definition wf_C53 (i : val) : bool :=
  match dec_C53 i with
  | Some x => stable (in_ops x) && (no_evict x || ((0 <=? c_period (in_cfg x)) && sorted_all (in_ops x)))
  | None => match dec_multi i with Some _ => true | None => false end       (* several rules: every decodable input *)
  end.
Theorem prop_C53_of_model : forall i, wf_C53 i = true -> kf_C53 i = 0 -> prop_C53 i (run_C53 i) = true.
Proof.
  intros i Hwf _. unfold wf_C53 in Hwf. unfold prop_C53, run_C53. destruct (dec_C53 i) as [x|];
    [|destruct (dec_multi i) as [x|]; [|discriminate]; rewrite multi_is_reference; apply val_eqb_refl].
  rewrite bools_of_vbool. unfold run_inp. apply andb_true_iff in Hwf. destruct Hwf as [Hstab Hwf]. rewrite Hstab.
  cbn [negb]. rewrite andb_true_r. destruct (no_evict x) eqn:Ene.
  - rewrite (run_refines (in_cfg x) (in_ops x) empty_state (fun _ => k0)).
    + apply list_bool_eqb_refl.
    + intros k. split; [exact I|reflexivity].
  - cbn [orb] in Hwf. apply andb_true_iff in Hwf. destruct Hwf as [HP Hs]. apply Z.leb_le in HP.
    apply (run_lru_justified (in_cfg x) HP (in_ops x) [] _ (first_time (in_ops x))); [split; constructor|intros k s []|exact Hs|exact Hstab].
Qed.

Theorem model_is_reference c ops : run_ops c empty_state ops = spec_run c (fun _ => k0) ops.
Proof. apply run_refines. intros k. split; [exact I|reflexivity]. Qed.

Lemma C53_example_lemma :
  let c := {| c_period := 5; c_stay := 4; c_threshold := 2 |} in
  run_ops c empty_state [(1, 0); (2, 0); (1, 1); (1, 3); (2, 3); (1, 8); (1, 9); (1, 10)]
  = [false; false; false; true; false; true; false; false].
Proof. vm_compute. reflexivity. Qed.

Lemma C53_wf_example_lemma :
  let i := VL [VZ 5; VZ 4; VZ 2; VZ 100; VZ 100;
               VL [VL [VZ 1; VZ 0]; VL [VZ 2; VZ 0]; VL [VZ 1; VZ 2]; VL [VZ 1; VZ 4]; VL [VZ 2; VZ 4]; VL [VZ 1; VZ 8];
                   VL [VZ 1; VZ 10]; VL [VZ 1; VZ 12]]] in
  wf_C53 i = true /\ run_C53 i = VL [VZ 0; VZ 0; VZ 0; VZ 1; VZ 0; VZ 1; VZ 0; VZ 0].
Proof. vm_compute. split; reflexivity. Qed.
(* with one access slot, key 1 keeps evicting key 0's counter: nobody ever reaches threshold 1 *)
Lemma C53_evict_example_lemma :
  run_lru {| c_period := 5; c_stay := 4; c_threshold := 1 |} {| l_acc := []; l_pr := []; l_acap := 1; l_pcap := 100 |}
          [(0, 0); (1, 0); (0, 0); (1, 0); (0, 0); (1, 0)] = [false; false; false; false; false; false]
  /\ run_ops {| c_period := 5; c_stay := 4; c_threshold := 1 |} empty_state
          [(0, 0); (1, 0); (0, 0); (1, 0); (0, 0); (1, 0)] = [false; false; true; true; true; true].
Proof. vm_compute. split; reflexivity. Qed.

Lemma C53_wf_evict_example_lemma :
  let i := VL [VZ 5; VZ 4; VZ 1; VZ 1; VZ 100;
               VL [VL [VZ 0; VZ 0]; VL [VZ 1; VZ 0]; VL [VZ 0; VZ 0]; VL [VZ 1; VZ 0]; VL [VZ 0; VZ 0]; VL [VZ 1; VZ 0]]] in
  wf_C53 i = true /\ run_C53 i = VL [VZ 0; VZ 0; VZ 0; VZ 0; VZ 0; VZ 0].
Proof. vm_compute. split; reflexivity. Qed.
