(* C29: the model's observation satisfies the executable property prop_C29 on every well-formed input. *)
From Coq Require Import List ZArith Bool Lia.
From Bfe Require Import lib.Val lib.ValProofs lib.Bytes model.HopByHop proofs.HopByHopProofs model.ClientAddr
     proofs.ClientAddrProofs run.RunC29.
Import ListNotations.
Open Scope Z_scope.

Lemma all_some_map_Some {A B} (f : A -> B) (g : B -> option A) l :
  (forall x, g (f x) = Some x) -> all_some (map g (map f l)) = Some l.
Proof.
  intros H. induction l as [|x l IH]; simpl; [reflexivity|]. rewrite H, IH. reflexivity.
Qed.
Lemma as_LB_vLB l : as_LB (vLB l) = Some l.
Proof. unfold as_LB, vLB. apply all_some_map_Some. reflexivity. Qed.

Lemma spec_candidate_eq m : spec_candidate m = header_candidate m.
Proof. reflexivity. Qed.

(* well-formed input: the peer's address text is an ip text (no comma, no blank) *)
Definition wf_C29 (i : val) : bool :=
  match dec_C29 i with Some x => ip_text_ok (a_text (i_peer x)) | None => false end.

Theorem prop_C29_of_model : forall i, wf_C29 i = true -> prop_C29 i (run_C29 i) = true.
Proof.
  intros i Hwf. unfold wf_C29 in Hwf. unfold prop_C29, run_C29.
  destruct (dec_C29 i) as [x|] eqn:Hd; [|discriminate].
  set (parse := lookup (i_orc x)). set (peer := i_peer x) in *. set (table := i_table x).
  set (host := host_C29). set (local := local_C29 (i_op x)).
  set (r := process parse host local table peer (i_hdrs x)).
  cbv zeta.
  set (h := if i_op x =? 1 then to_backend (r_headers r) else r_headers r).
  assert (Hh : forall k, In k addr_keys -> values_of k h = values_of k (r_headers r)).
  { intros k Hk. unfold h. destruct (i_op x =? 1); [apply upstream_survives; exact Hk|reflexivity]. }
  rewrite (Hh s_xff), (Hh s_xrip), (Hh s_xrport) by (simpl; tauto).
  clearbody h. clear Hh.
  assert (Htr : r_trusted r = trusted table (a_ip peer)) by reflexivity.
  destruct (xff_ends_with_peer parse host local table peer (i_hdrs x) Hwf) as [v [Hv Hl]].
  fold r in Hv.
  rewrite Htr.
  destruct (trusted table (a_ip peer)) eqn:Ht.
  - (* trusted *)
    cbn [vbool VT]. cbn [Z.eqb Pos.eqb andb negb]. rewrite as_LB_vLB, Hv, Hl, bytes_eqb_refl. cbn [andb].
    rewrite spec_candidate_eq.
    destruct (header_candidate (hdel s_host (parse_headers (i_hdrs x)))) as [cip cport] eqn:Hc.
    destruct cip as [|c0 cr]; [reflexivity|].
    fold parse. destruct (parse (c0 :: cr)) as [[ip text]|] eqn:Hp; [|reflexivity].
    assert (Hne : c0 :: cr <> []) by discriminate.
    destruct (trusted_honours parse host local table peer (i_hdrs x) (c0 :: cr) cport ip text Ht Hc Hne Hp)
      as [_ [Hca [Hri Hrp]]]. fold r in Hca, Hri, Hrp.
    rewrite Hri, Hca, Hrp. cbn [enc_addr a_ip a_port]. rewrite !val_eqb_refl, bytes_eqb_refl. cbn [andb].
    destruct (atoi cport); [apply Z.eqb_refl|reflexivity].
  - (* untrusted *)
    cbn [vbool VF]. cbn [Z.eqb andb negb]. rewrite as_LB_vLB, Hv, Hl, bytes_eqb_refl. cbn [andb].
    destruct (untrusted_uses_peer parse host local table peer (i_hdrs x) Ht) as [_ [Hca [Hri Hrp]]]. fold r in Hca, Hri, Hrp.
    rewrite Hca, Hri, Hrp. cbn [enc_addr]. rewrite !val_eqb_refl. reflexivity.
Qed.

(* non-vacuity: a concrete well-formed wire input (trusted peer 127.0.0.2 with X-Real-Ip: 1.2.3.4) *)
Definition ex_wire : val :=
  VL [VZ 1;
      VL [VL [VB [49;50;55;46;48;46;48;46;49]; VB [49;50;55;46;48;46;48;46;57];
              VB [0;0;0;0;0;0;0;0;0;0;255;255;127;0;0;1]; VB [0;0;0;0;0;0;0;0;0;0;255;255;127;0;0;9]]];
      VL [VB [0;0;0;0;0;0;0;0;0;0;255;255;127;0;0;2]; VB [49;50;55;46;48;46;48;46;50]; VZ 40000];
      VL [VL [VB s_xrip; VB [49;46;50;46;51;46;52]]];
      VL [VL [VB [49;46;50;46;51;46;52]; VB [0;0;0;0;0;0;0;0;0;0;255;255;1;2;3;4]; VB [49;46;50;46;51;46;52]]]].
Lemma ex_wire_ok :
  wf_C29 ex_wire = true /\
  run_C29 ex_wire = VL [VZ 1; VL [VB [0;0;0;0;0;0;0;0;0;0;255;255;1;2;3;4]; VZ 0];
                        VL [VB [49;50;55;46;48;46;48;46;50]]; VL [VB [49;46;50;46;51;46;52]]; VL [VB [48]];
                        VL [VB [52;48;48;48;48]]; VL [VB host_C29]; VL [VB [49;50;55;46;48;46;48;46;49]]].
Proof. vm_compute. split; reflexivity. Qed.
