(* Proofs about the C29 model (model/ClientAddr.v). *)
From Coq Require Import List ZArith Bool Lia.
From Bfe Require Import lib.Val lib.ValProofs lib.Bytes gen.HopHeaders model.HopByHop proofs.HopByHopProofs model.ClientAddr.
Import ListNotations.
Open Scope Z_scope.

(* ---- header map lemmas ---- *)
Lemma hfind_app_none k a b : hfind k a = None -> hfind k (a ++ b) = hfind k b.
Proof.
  induction a as [|[k' vs] r IH]; simpl; [reflexivity|].
  destruct (bytes_eqb k k'); [discriminate|exact IH].
Qed.
Lemma hfind_app_some k a b vs : hfind k a = Some vs -> hfind k (a ++ b) = Some vs.
Proof.
  induction a as [|[k' vs'] r IH]; simpl; [discriminate|].
  destruct (bytes_eqb k k'); [intros H; exact H|exact IH].
Qed.
Lemma hfind_hdel_same k m : hfind k (hdel k m) = None.
Proof.
  induction m as [|[k' vs] r IH]; simpl; [reflexivity|].
  destruct (bytes_eqb k k') eqn:E; simpl; [exact IH|]. rewrite E. exact IH.
Qed.
Lemma hfind_hdel_other k k' m : k <> k' -> hfind k (hdel k' m) = hfind k m.
Proof.
  intros Hne. induction m as [|[k2 vs] r IH]; simpl; [reflexivity|].
  destruct (bytes_eqb k' k2) eqn:E; simpl.
  - apply bytes_eqb_eq in E. subst k2.
    destruct (bytes_eqb k k') eqn:E2; [apply bytes_eqb_eq in E2; contradiction|exact IH].
  - destruct (bytes_eqb k k2); [reflexivity|exact IH].
Qed.
Lemma hfind_hset_same k v m : hfind k (hset k v m) = Some [v].
Proof.
  unfold hset. rewrite hfind_app_none by apply hfind_hdel_same. simpl. rewrite bytes_eqb_refl. reflexivity.
Qed.
Lemma hfind_hset_other k k' v m : k <> k' -> hfind k (hset k' v m) = hfind k m.
Proof.
  intros Hne. unfold hset. destruct (hfind k m) as [vs|] eqn:E.
  - apply hfind_app_some. rewrite hfind_hdel_other by exact Hne. exact E.
  - rewrite hfind_app_none by (rewrite hfind_hdel_other by exact Hne; exact E).
    simpl. destruct (bytes_eqb k k') eqn:E2; [apply bytes_eqb_eq in E2; contradiction|reflexivity].
Qed.
Lemma values_hset_same k v m : values_of k (hset k v m) = [v].
Proof. unfold values_of. rewrite hfind_hset_same. reflexivity. Qed.
Lemma values_hset_other k k' v m : k <> k' -> values_of k (hset k' v m) = values_of k m.
Proof. intros H. unfold values_of. rewrite hfind_hset_other by exact H. reflexivity. Qed.

Lemma hfind_append_elem_other k k' v m : k <> k' -> hfind k (append_elem k' v m) = hfind k m.
Proof. intros H. unfold append_elem. destruct (hfind k' m); apply hfind_hset_other; exact H. Qed.
Lemma values_append_elem_other k k' v m : k <> k' -> values_of k (append_elem k' v m) = values_of k m.
Proof. intros H. unfold values_of. rewrite hfind_append_elem_other by exact H. reflexivity. Qed.
Lemma values_append_elem_same k v m :
  values_of k (append_elem k v m) =
  [match hfind k m with Some prior => join_cs prior ++ comma_sp ++ v | None => v end].
Proof. unfold append_elem. destruct (hfind k m); apply values_hset_same. Qed.

(* ---- the address fields pass the hop-by-hop stage of the reverse proxy untouched (C26 model) ---- *)
Lemma hfind_filter_key (p : bytes -> bool) k m :
  p k = true -> hfind k (filter (fun e => p (fst e)) m) = hfind k m.
Proof.
  intros Hp. induction m as [|[k' vs] r IH]; simpl; [reflexivity|].
  destruct (p k') eqn:E; simpl.
  - destruct (bytes_eqb k k'); [reflexivity|exact IH].
  - destruct (bytes_eqb k k') eqn:E2; [|exact IH]. apply bytes_eqb_eq in E2. subst. congruence.
Qed.
Lemma hfind_hop_step k h m : k <> h -> hfind k (hop_step m h) = hfind k m.
Proof.
  intros Hne. unfold hop_step. destruct (hfind h m); [|reflexivity].
  match goal with |- context [if ?c then _ else _] => destruct c end; [reflexivity|].
  apply hfind_hdel_other. exact Hne.
Qed.
Lemma hfind_hop_fold k l : forall m, ~ In k l -> hfind k (fold_left hop_step l m) = hfind k m.
Proof.
  induction l as [|h r IH]; simpl; intros m Hni; [reflexivity|].
  rewrite IH by (intros H; apply Hni; right; exact H).
  apply hfind_hop_step. intros E. apply Hni. left. symmetry. exact E.
Qed.
Lemma hfind_to_backend k m :
  mem_bytes k hop_list = false -> mem_bytes k write_exclude = false -> hfind k (to_backend m) = hfind k m.
Proof.
  intros Hh He. unfold to_backend, written.
  rewrite (hfind_filter_key (fun x => negb (mem_bytes x write_exclude))) by (rewrite He; reflexivity).
  apply hfind_hop_fold. intros Hin. apply mem_bytes_In in Hin. congruence.
Qed.
Definition addr_keys : list bytes := [s_xff; s_xrip; s_xrport; s_xfp; s_xfh; s_xbfeip].
Theorem upstream_survives : forall k m, In k addr_keys -> values_of k (to_backend m) = values_of k m.
Proof.
  intros k m Hk. unfold values_of. rewrite hfind_to_backend; [reflexivity| |].
  - destruct Hk as [<-|[<-|[<-|[<-|[<-|[<-|[]]]]]]]; vm_compute; reflexivity.
  - destruct Hk as [<-|[<-|[<-|[<-|[<-|[<-|[]]]]]]]; vm_compute; reflexivity.
Qed.

(* ---- comma lists ---- *)
Lemma split_byte_app c a b : split_byte c (a ++ c :: b) = split_byte c a ++ split_byte c b.
Proof.
  induction a as [|x a IH]; simpl.
  - pose proof (split_byte_nonempty c b) as Hne. destruct (split_byte c b) as [|cur rest]; [congruence|].
    rewrite Z.eqb_refl. reflexivity.
  - rewrite IH. pose proof (split_byte_nonempty c a) as Hne.
    destruct (split_byte c a) as [|cur rest]; [congruence|]. simpl.
    destruct (x =? c); reflexivity.
Qed.
Lemma split_byte_none c b : forallb (fun x => negb (x =? c)) b = true -> split_byte c b = [b].
Proof.
  induction b as [|x b IH]; simpl; [reflexivity|].
  intros H. apply andb_true_iff in H. destruct H as [H1 H2]. rewrite (IH H2).
  apply negb_true_iff in H1. rewrite H1. reflexivity.
Qed.
Lemma last_app_ne {A} (l1 l2 : list A) d : l2 <> [] -> last (l1 ++ l2) d = last l2 d.
Proof.
  intros Hne. induction l1 as [|x l1 IH]; simpl; [reflexivity|].
  destruct (l1 ++ l2) eqn:E; [|exact IH].
  apply app_eq_nil in E. destruct E as [_ E]. contradiction.
Qed.

(* an address text: no comma, no blank (true of every net.IP.String()) *)
Definition ip_text_ok (t : bytes) : bool := forallb (fun x => negb (x =? 44) && negb (is_space x)) t.

Lemma trim_left_clean t : forallb (fun x => negb (is_space x)) t = true -> trim_left is_space t = t.
Proof.
  destruct t as [|x r]; simpl; [reflexivity|]. intros H. apply andb_true_iff in H. destruct H as [H _].
  apply negb_true_iff in H. rewrite H. reflexivity.
Qed.
Lemma forallb_rev {A} (f : A -> bool) l : forallb f (rev l) = forallb f l.
Proof.
  induction l as [|x l IH]; simpl; [reflexivity|].
  rewrite forallb_app. simpl. rewrite IH. rewrite andb_true_r. apply andb_comm.
Qed.
Lemma trim_sp_clean t : forallb (fun x => negb (is_space x)) t = true -> trim_sp t = t.
Proof.
  intros H. unfold trim_sp, trim, trim_right. rewrite (trim_left_clean t H).
  rewrite trim_left_clean by (rewrite forallb_rev; exact H). apply rev_involutive.
Qed.
Lemma trim_sp_blank_clean t : forallb (fun x => negb (is_space x)) t = true -> trim_sp (32 :: t) = t.
Proof.
  intros H. unfold trim_sp, trim. simpl. fold (trim is_space t). apply (trim_sp_clean t H).
Qed.

Lemma ip_text_ok_split t :
  ip_text_ok t = true ->
  forallb (fun x => negb (x =? 44)) t = true /\ forallb (fun x => negb (is_space x)) t = true.
Proof.
  unfold ip_text_ok. induction t as [|x t IH]; simpl; [intros _; split; reflexivity|].
  intros H. apply andb_true_iff in H. destruct H as [H1 H2]. apply andb_true_iff in H1. destruct H1 as [Ha Hb].
  destruct (IH H2) as [I1 I2]. rewrite Ha, Hb, I1, I2. split; reflexivity.
Qed.

Lemma last_elem_plain t : ip_text_ok t = true -> last_elem t = t.
Proof.
  intros H. destruct (ip_text_ok_split t H) as [H1 H2]. unfold last_elem.
  rewrite split_byte_none by exact H1. simpl. apply trim_sp_clean. exact H2.
Qed.
Lemma last_elem_appended pre t : ip_text_ok t = true -> last_elem (pre ++ comma_sp ++ t) = t.
Proof.
  intros H. destruct (ip_text_ok_split t H) as [H1 H2]. unfold last_elem, comma_sp. simpl.
  rewrite split_byte_app. rewrite last_app_ne by apply split_byte_nonempty.
  rewrite split_byte_none by (simpl; exact H1). simpl. apply trim_sp_blank_clean. exact H2.
Qed.

(* ---- the theorems ---- *)
Lemma keys_distinct :
  s_xff <> s_xfp /\ s_xff <> s_xrip /\ s_xff <> s_xrport /\ s_xrip <> s_xrport /\ s_xrip <> s_xfp /\ s_xrport <> s_xfp.
Proof. repeat split; discriminate. Qed.
Lemma keys_distinct2 :
  s_xff <> s_xbfeip /\ s_xrip <> s_xbfeip /\ s_xrport <> s_xbfeip /\ s_xff <> s_xfh /\ s_xfp <> s_xfh.
Proof. repeat split; discriminate. Qed.

Section WithParse.
Variable parse : bytes -> option (ip16 * bytes).
Variables host local : bytes.

(* X-Forwarded-For upstream is always one field ending with the peer's ip *)
Theorem xff_ends_with_peer : forall table peer pairs,
  ip_text_ok (a_text peer) = true ->
  exists v, values_of s_xff (r_headers (process parse host local table peer pairs)) = [v] /\ last_elem v = a_text peer.
Proof.
  intros table peer pairs Hok. destruct keys_distinct as [D1 [D2 [D3 [D4 [D5 D6]]]]].
  destruct keys_distinct2 as [E1 [E2 [E3 [E4 E5]]]].
  unfold process. simpl. set (m := hdel s_host (parse_headers pairs)).
  set (ca := set_client_addr parse (trusted table (a_ip peer)) peer m).
  set (m0 := match host with [] => m | _ => append_elem s_xfh host m end).
  assert (Hx : forall ca', values_of s_xff (set_default_header host local peer ca' m) =
               [match hfind s_xff m0 with Some prior => join_cs prior ++ comma_sp ++ a_text peer | None => a_text peer end]).
  { intros ca'. unfold set_default_header. cbv zeta. fold m0. rewrite values_hset_other by exact E1. destruct ca' as [a|].
    - rewrite values_hset_other by exact D3. rewrite values_hset_other by exact D2.
      rewrite values_append_elem_other by exact D1. apply values_append_elem_same.
    - rewrite values_append_elem_other by exact D1. apply values_append_elem_same. }
  rewrite Hx. eexists. split; [reflexivity|].
  destruct (hfind s_xff m0); [apply last_elem_appended|apply last_elem_plain]; exact Hok.
Qed.

Theorem untrusted_uses_peer : forall table peer pairs,
  trusted table (a_ip peer) = false ->
  let r := process parse host local table peer pairs in
  r_trusted r = false /\ r_caddr r = Some peer /\
  values_of s_xrip (r_headers r) = [a_text peer] /\
  values_of s_xrport (r_headers r) = [dec_of_Z (a_port peer)].
Proof.
  intros table peer pairs Ht. destruct keys_distinct as [D1 [D2 [D3 [D4 [D5 D6]]]]].
  destruct keys_distinct2 as [E1 [E2 [E3 [E4 E5]]]].
  unfold process. rewrite Ht. cbv zeta. cbn [r_trusted r_caddr r_headers]. unfold set_client_addr. cbn [negb].
  split; [reflexivity|]. split; [reflexivity|].
  unfold set_default_header. cbv zeta. split.
  - rewrite values_hset_other by exact E2. rewrite values_hset_other by exact D4. apply values_hset_same.
  - rewrite values_hset_other by exact E3. apply values_hset_same.
Qed.

(* what setClientAddr takes from the headers of a trusted peer *)
Definition header_candidate (m : hmap) : bytes * bytes :=
  match hfirst s_xrip m with
  | [] => (first_split s_xff m, first_split s_xfp m)
  | ip => (ip, hfirst s_xrport m)
  end.

Theorem trusted_honours : forall table peer pairs cip cport ip text,
  trusted table (a_ip peer) = true ->
  header_candidate (hdel s_host (parse_headers pairs)) = (cip, cport) ->
  cip <> [] -> parse cip = Some (ip, text) ->
  let r := process parse host local table peer pairs in
  let port := match atoi cport with Some p => p | None => 0 end in
  r_trusted r = true /\ r_caddr r = Some (mk_addr ip text port) /\
  values_of s_xrip (r_headers r) = [text] /\ values_of s_xrport (r_headers r) = [dec_of_Z port].
Proof.
  intros table peer pairs cip cport ip text Ht Hc Hne Hp. destruct keys_distinct as [D1 [D2 [D3 [D4 [D5 D6]]]]].
  destruct keys_distinct2 as [F1 [F2 [F3 [F4 F5]]]].
  unfold process. rewrite Ht. cbv zeta. cbn [r_trusted r_caddr r_headers]. split; [reflexivity|].
  set (m := hdel s_host (parse_headers pairs)) in *.
  assert (Hca : set_client_addr parse true peer m =
                Some (mk_addr ip text match atoi cport with Some p => p | None => 0 end)).
  { unfold set_client_addr. simpl. unfold header_candidate in Hc.
    destruct (hfirst s_xrip m) as [|c0 cr] eqn:E.
    - inversion Hc; subst. destruct (first_split s_xff m) as [|y ys] eqn:E2; [contradiction|].
      rewrite Hp. reflexivity.
    - inversion Hc; subst. rewrite Hp. reflexivity. }
  rewrite Hca. split; [reflexivity|]. unfold set_default_header. cbv zeta. split.
  - rewrite values_hset_other by exact F2. rewrite values_hset_other by exact D4. apply values_hset_same.
  - rewrite values_hset_other by exact F3. apply values_hset_same.
Qed.

(* X-Bfe-Ip upstream is the local address of the connection, whatever the client sent *)
Theorem bfe_ip_overwritten : forall table peer pairs,
  values_of s_xbfeip (r_headers (process parse host local table peer pairs)) = [local].
Proof. intros. unfold process. simpl. unfold set_default_header. cbv zeta. apply values_hset_same. Qed.

(* a trusted peer without usable address headers leaves ClientAddr unset (nil) *)
Theorem trusted_without_headers_nil : forall table peer pairs,
  trusted table (a_ip peer) = true ->
  fst (header_candidate (hdel s_host (parse_headers pairs))) = [] ->
  r_caddr (process parse host local table peer pairs) = None.
Proof.
  intros table peer pairs Ht Hc. unfold process. rewrite Ht. simpl.
  unfold set_client_addr. simpl. unfold header_candidate in Hc.
  destruct (hfirst s_xrip (hdel s_host (parse_headers pairs))) as [|c0 cr]; simpl in Hc.
  - rewrite Hc. reflexivity.
  - discriminate.
Qed.
End WithParse.

(* ---- non-vacuity witnesses ---- *)
Definition ex_peer : addr := mk_addr [0;0;0;0;0;0;0;0;0;0;255;255;203;0;113;9] [50;48;51;46;48;46;49;49;51;46;57] 40000.
Definition ex_table : list range :=
  [([0;0;0;0;0;0;0;0;0;0;255;255;10;0;0;0], [0;0;0;0;0;0;0;0;0;0;255;255;10;255;255;255])].
Definition ex_table_t : list range :=
  [([0;0;0;0;0;0;0;0;0;0;255;255;203;0;113;0], [0;0;0;0;0;0;0;0;0;0;255;255;203;0;113;255])].
Definition ex_hdrs : list (bytes * bytes) :=
  [ ([120;45;114;101;97;108;45;105;112], [49;46;50;46;51;46;52]);              (* x-real-ip: 1.2.3.4 *)
    (s_xrport, [56;48]);                                                       (* X-Real-Port: 80 *)
    (s_xff, [54;46;54;46;54;46;54;44;32;55;46;55;46;55;46;55]) ].              (* X-Forwarded-For: 6.6.6.6, 7.7.7.7 *)
Definition ex_parse (t : bytes) : option (ip16 * bytes) :=
  if bytes_eqb t [49;46;50;46;51;46;52] then Some ([0;0;0;0;0;0;0;0;0;0;255;255;1;2;3;4], [49;46;50;46;51;46;52]) else None.

Lemma untrusted_example :
  trusted ex_table (a_ip ex_peer) = false /\ ip_text_ok (a_text ex_peer) = true /\
  let r := process ex_parse [] [] ex_table ex_peer ex_hdrs in
  r_caddr r = Some ex_peer /\
  values_of s_xff (r_headers r) = [[54;46;54;46;54;46;54;44;32;55;46;55;46;55;46;55;44;32] ++ a_text ex_peer].
Proof. vm_compute. repeat split; reflexivity. Qed.
Lemma trusted_example :
  trusted ex_table_t (a_ip ex_peer) = true /\
  header_candidate (hdel s_host (parse_headers ex_hdrs)) = ([49;46;50;46;51;46;52], [56;48]) /\
  ex_parse [49;46;50;46;51;46;52] = Some ([0;0;0;0;0;0;0;0;0;0;255;255;1;2;3;4], [49;46;50;46;51;46;52]) /\
  r_caddr (process ex_parse [] [] ex_table_t ex_peer ex_hdrs) =
    Some (mk_addr [0;0;0;0;0;0;0;0;0;0;255;255;1;2;3;4] [49;46;50;46;51;46;52] 80).
Proof. vm_compute. repeat split; reflexivity. Qed.
