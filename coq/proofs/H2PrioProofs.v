(* Proofs about the priority-tree model (C36): acyclicity is an invariant of every history of
   open/close/adjustStreamPriority, and the ancestor walk terminates within |nodes| steps. *)
From Coq Require Import List ZArith Bool Lia.
From Bfe Require Import lib.Val lib.ValProofs model.H2Prio run.RunC36.
Import ListNotations.
Open Scope Z_scope.


Lemma reach_trans par x y z : reach par x y -> reach par y z -> reach par x z.
Proof. induction 1 as [x y E|x y w E R IH]; intro H; eapply reachS; eauto. Qed.

Lemma reach_first par x z : reach par x z -> exists y, par x = Some y /\ (y = z \/ reach par y z).
Proof. destruct 1 as [x y E|x y w E R]; exists y; auto. Qed.

(* ---- one generic re-parenting lemma: some edges are removed, some nodes are re-pointed to t ---- *)
Section Repoint.
  Variables (par par' : Z -> option Z) (t : Z).
  Hypothesis Hnew : forall x, par' x = par x \/ par' x = None \/
                              (par' x = Some t /\ x <> t /\ ~ reach par t x).

  Lemma reach_new_inv x z : reach par' x z ->
    reach par x z \/
    ((t = z \/ reach par t z) /\ exists k, (x = k \/ reach par' x k) /\ k <> t /\ ~ reach par t k).
  Proof.
    induction 1 as [x z E|x y z E R IH].
    - destruct (Hnew x) as [H|[H|(H & Hne & Hnr)]].
      + left. apply reach1. congruence.
      + congruence.
      + right. split. { left. congruence. } exists x. auto.
    - destruct IH as [IH|(Htz & k & Hk & Hkt & Hkr)].
      + destruct (Hnew x) as [H|[H|(H & Hne & Hnr)]].
        * left. eapply reachS; eauto. congruence.
        * congruence.
        * right. assert (y = t) by congruence. subst y. split; [right; exact IH|]. exists x. auto.
      + right. split; [exact Htz|]. exists k. split; [|auto]. right.
        destruct Hk as [->|Hk]; [apply reach1; exact E|eapply reachS; eauto].
  Qed.

  Lemma repoint_acyclic : acyclic par -> acyclic par'.
  Proof.
    intros Hac x Hx. destruct (reach_new_inv _ _ Hx) as [H|(Htx & k & Hk & Hkt & Hkr)].
    - exact (Hac x H).
    - destruct Hk as [<-|Hk].
      + destruct Htx as [E|R]; [congruence|exact (Hkr R)].
      + destruct (reach_new_inv _ _ Hk) as [H|(Htk & _)].
        * apply Hkr. destruct Htx as [->|R]; [exact H|eapply reach_trans; eauto].
        * destruct Htk as [E|R]; [congruence|exact (Hkr R)].
  Qed.
End Repoint.

Lemma upd_eq {A} (f : Z -> A) k v : upd f k v k = v.
Proof. unfold upd. rewrite Z.eqb_refl. reflexivity. Qed.
Lemma upd_ne {A} (f : Z -> A) k v x : x <> k -> upd f k v x = f x.
Proof. unfold upd. intro H. destruct (Z.eqb_spec x k); congruence. Qed.

Lemma upd_none_acyclic par k : acyclic par -> acyclic (upd par k None).
Proof.
  apply (repoint_acyclic par _ 0). intro x. destruct (Z.eq_dec x k) as [->|H].
  - right; left. apply upd_eq.
  - left. apply upd_ne; exact H.
Qed.

Lemma upd_some_acyclic par k t :
  acyclic par -> k <> t -> ~ reach par t k -> acyclic (upd par k (Some t)).
Proof.
  intros Hac Hne Hnr. apply (repoint_acyclic par _ t); [|exact Hac]. intro x.
  destruct (Z.eq_dec x k) as [->|H].
  - right; right. rewrite upd_eq. auto.
  - left. apply upd_ne; exact H.
Qed.

Lemma oeqb_eq a b : oeqb a b = true <-> a = b.
Proof.
  destruct a, b; simpl; split; intro H; try congruence; try reflexivity.
  - apply Z.eqb_eq in H. congruence.
  - inversion H. apply Z.eqb_refl.
Qed.

(* ---- the ancestor walk is correct when it answers ---- *)
Lemma walk_true par fuel p st : walk par fuel p st = Some true ->
  exists x, p = Some x /\ (x = st \/ reach par x st).
Proof.
  revert p. induction fuel as [|f IH]; intros p H; destruct p as [x|]; simpl in H; try discriminate.
  - destruct (Z.eqb_spec x st); [|discriminate]. eauto.
  - destruct (Z.eqb_spec x st); [eauto|]. destruct (IH _ H) as (y & Ey & Hy).
    exists x. split; [reflexivity|]. right. destruct Hy as [->|R]; [apply reach1; exact Ey|eapply reachS; eauto].
Qed.

Lemma walk_false par fuel p st : walk par fuel p st = Some false ->
  forall x, p = Some x -> x <> st /\ ~ reach par x st.
Proof.
  revert p. induction fuel as [|f IH]; intros p H x Ex; subst p; simpl in H.
  - destruct (Z.eqb_spec x st); discriminate.
  - destruct (Z.eqb_spec x st); [discriminate|]. split; [assumption|]. intro R.
    destruct (reach_first _ _ _ R) as (y & Ey & Hy). destruct (IH _ H y Ey) as [Hne Hnr].
    destruct Hy; auto.
Qed.

(* ---- chains of successive ancestors; pigeonhole ---- *)
Fixpoint chain (par : Z -> option Z) (p : option Z) (l : list Z) {struct l} : Prop :=
  match l with
  | [] => True
  | x :: r => p = Some x /\ chain par (par x) r
  end.

Lemma chain_reach par x r y : chain par (par x) r -> In y r -> reach par x y.
Proof.
  revert x. induction r as [|y0 r IH]; intros x Hc Hin; [destruct Hin|].
  destruct Hc as [E Hc]. destruct Hin as [<-|Hin]; [apply reach1; exact E|].
  eapply reachS; [exact E|]. apply IH; assumption.
Qed.

Lemma chain_nodup par p l : acyclic par -> chain par p l -> NoDup l.
Proof.
  intros Hac. revert p. induction l as [|x r IH]; intros p Hc; [constructor|].
  destruct Hc as [_ Hc]. constructor; [|eapply IH; exact Hc].
  intro Hin. exact (Hac x (chain_reach _ _ _ _ Hc Hin)).
Qed.


Lemma chain_incl nodes par p l :
  closed_in nodes par -> (forall x, p = Some x -> In x nodes) -> chain par p l -> incl l nodes.
Proof.
  intros Hcl. revert p. induction l as [|x r IH]; intros p Hp Hc y Hin; [destruct Hin|].
  destruct Hc as [E Hc]. destruct Hin as [<-|Hin]; [auto|].
  eapply IH; [|exact Hc|exact Hin]. intros z Ez. exact (proj2 (Hcl _ _ Ez)).
Qed.

Lemma chain_short nodes par p l :
  acyclic par -> closed_in nodes par -> (forall x, p = Some x -> In x nodes) -> chain par p l ->
  (length l <= length nodes)%nat.
Proof.
  intros Hac Hcl Hp Hc. apply NoDup_incl_length; [eapply chain_nodup; eauto|eapply chain_incl; eauto].
Qed.

Lemma walk_none_chain par fuel p st : walk par fuel p st = None ->
  exists l, length l = S fuel /\ chain par p l.
Proof.
  revert p. induction fuel as [|f IH]; intros p H; destruct p as [x|]; simpl in H; try discriminate;
    destruct (Z.eqb_spec x st); try discriminate.
  - exists [x]. simpl. auto.
  - destruct (IH _ H) as (l & Hl & Hc). exists (x :: l). simpl. auto.
Qed.

(* C36 termination: on an acyclic, closed parent map the walk answers within |nodes| steps *)
Lemma walk_terminates nodes par p st :
  acyclic par -> closed_in nodes par -> (forall x, p = Some x -> In x nodes) ->
  walk par (length nodes) p st <> None.
Proof.
  intros Hac Hcl Hp H. destruct (walk_none_chain _ _ _ _ H) as (l & Hl & Hc).
  pose proof (chain_short _ _ _ _ Hac Hcl Hp Hc). lia.
Qed.

(* ---- adjustStreamPriority preserves acyclicity (for any fuel; None = no answer) ---- *)
Lemma excl_step_acyclic isopen par st : acyclic par -> acyclic (excl_step isopen par st).
Proof.
  intro Hac. apply (repoint_acyclic par _ st); [|exact Hac]. intro x. unfold excl_step.
  destruct (isopen x && negb (x =? st) && oeqb (par x) (par st)) eqn:E; [|left; reflexivity].
  right; right. apply andb_true_iff in E. destruct E as [E E3]. apply andb_true_iff in E. destruct E as [_ E2].
  apply negb_true_iff in E2. apply Z.eqb_neq in E2. apply oeqb_eq in E3.
  split; [reflexivity|]. split; [exact E2|]. intro R.
  destruct (reach_first _ _ _ R) as (p & Ep & Hp). rewrite Ep in E3.
  destruct Hp as [->|Hp].
  - exact (Hac x (reach1 _ _ _ E3)).
  - exact (Hac x (reachS _ _ _ _ E3 Hp)).
Qed.

Lemma adjust_par_acyclic isopen par fuel sid dep excl par' :
  acyclic par -> adjust_par isopen par fuel sid dep excl = Some par' -> acyclic par'.
Proof.
  intros Hac H. unfold adjust_par in H.
  remember (if isopen dep then Some dep else None) as parent eqn:Eparent. clear Eparent.
  destruct (oeqb parent (Some sid)) eqn:Eself; [inversion H; subst; exact Hac|].
  assert (Hself : parent <> Some sid) by (intro E; apply oeqb_eq in E; congruence).
  destruct (walk par fuel parent sid) as [found|] eqn:Ew; [|discriminate].
  set (par1 := match found, parent with true, Some p => upd par p (par sid) | _, _ => par end) in *.
  assert (Hac2 : acyclic (upd par1 sid parent)).
  { destruct found.
    - (* st is an ancestor of the new parent p: p is first moved under st's old parent *)
      destruct (walk_true _ _ _ _ Ew) as (p & Ep & Hp). subst par1. subst parent. cbv beta iota in *.
      assert (Hps : p <> sid) by congruence.
      destruct Hp as [Hp|Hp]; [congruence|].
      destruct (par sid) as [q|] eqn:Eq.
      + assert (Hpq : p <> q).
        { intros <-. exact (Hac p (reach_trans _ _ _ _ Hp (reach1 _ _ _ Eq))). }
        assert (Hqp : ~ reach par q p).
        { intro R. exact (Hac sid (reachS _ _ _ _ Eq (reach_trans _ _ _ _ R Hp))). }
        assert (Hac1 : acyclic (upd par p (Some q))) by (apply upd_some_acyclic; assumption).
        apply upd_some_acyclic; [exact Hac1|congruence|].
        intro R. destruct (reach_first _ _ _ R) as (y & Ey & Hy). rewrite upd_eq in Ey.
        inversion Ey; subst y. clear Ey.
        assert (Hqs : q = sid \/ reach par q sid).
        { destruct Hy as [Hy|Hy]; [left; exact Hy|].
          destruct (reach_new_inv par (upd par p (Some q)) q) with (x := q) (z := sid) as [H1|(H1 & _)].
          - intro x. destruct (Z.eq_dec x p) as [->|Hx].
            + right; right. rewrite upd_eq. auto.
            + left. apply upd_ne; exact Hx.
          - exact Hy.
          - right; exact H1.
          - destruct H1 as [H1|H1]; [left; exact H1|right; exact H1]. }
        destruct Hqs as [->|Hqs].
        * exact (Hac sid (reach1 _ _ _ Eq)).
        * exact (Hac sid (reachS _ _ _ _ Eq Hqs)).
      + assert (Hac1 : acyclic (upd par p None)) by (apply upd_none_acyclic; exact Hac).
        apply upd_some_acyclic; [exact Hac1|congruence|].
        intro R. destruct (reach_first _ _ _ R) as (y & Ey & _). rewrite upd_eq in Ey. discriminate.
    - (* plain re-parent: st is not an ancestor of the new parent *)
      assert (par1 = par) as -> by (subst par1; destruct parent; reflexivity).
      destruct parent as [p|] eqn:Ep.
      + destruct (walk_false _ _ _ _ Ew p eq_refl) as [Hne Hnr].
        apply upd_some_acyclic; auto.
      + apply upd_none_acyclic; exact Hac. }
  destruct (excl && match parent with Some _ => true | None => dep =? 0 end);
    inversion H; subst; [apply excl_step_acyclic|]; exact Hac2.
Qed.

(* ---- the state invariant ---- *)

Lemma memZ_In x l : memZ x l = true <-> In x l.
Proof.
  unfold memZ. rewrite existsb_exists. split.
  - intros (y & Hy & E). apply Z.eqb_eq in E. congruence.
  - intro H. exists x. split; [exact H|apply Z.eqb_refl].
Qed.

Lemma wfp0 : wfp pst0.
Proof.
  split; [|split].
  - intros x y H. discriminate.
  - intros x H. destruct H.
  - intros x H. destruct (reach_first _ _ _ H) as (y & Ey & _). discriminate.
Qed.

Lemma adjust_par_closed nodes isopen par fuel sid dep excl par' :
  closed_in nodes par -> (forall x, isopen x = true -> In x nodes) -> isopen sid = true ->
  adjust_par isopen par fuel sid dep excl = Some par' -> closed_in nodes par'.
Proof.
  intros Hcl Hop Hsid H. unfold adjust_par in H.
  set (parent := if isopen dep then Some dep else None) in *.
  assert (Hpar : forall p, parent = Some p -> In p nodes).
  { intros p Ep. subst parent. destruct (isopen dep) eqn:Ed; inversion Ep; subst. auto. }
  destruct (oeqb parent (Some sid)); [inversion H; subst; exact Hcl|].
  destruct (walk par fuel parent sid) as [found|]; [|discriminate].
  set (par1 := match found, parent with true, Some p => upd par p (par sid) | _, _ => par end) in *.
  assert (Hcl1 : closed_in nodes par1).
  { subst par1. destruct found; [|exact Hcl]. destruct parent as [p|] eqn:Ep; [|exact Hcl].
    intros x y E. destruct (Z.eq_dec x p) as [->|Hx].
    - rewrite upd_eq in E. split; [auto|]. exact (proj2 (Hcl _ _ E)).
    - rewrite upd_ne in E by exact Hx. exact (Hcl _ _ E). }
  assert (Hcl2 : closed_in nodes (upd par1 sid parent)).
  { intros x y E. destruct (Z.eq_dec x sid) as [->|Hx].
    - rewrite upd_eq in E. split; auto.
    - rewrite upd_ne in E by exact Hx. exact (Hcl1 _ _ E). }
  destruct (excl && match parent with Some _ => true | None => dep =? 0 end);
    inversion H; subst; [|exact Hcl2].
  intros x y E. unfold excl_step in E.
  destruct (isopen x && negb (x =? sid) && oeqb (upd par1 sid parent x) (upd par1 sid parent sid)) eqn:Ec.
  - inversion E; subst y. apply andb_true_iff in Ec. destruct Ec as [Ec _]. apply andb_true_iff in Ec.
    destruct Ec as [Ec _]. auto.
  - exact (Hcl2 _ _ E).
Qed.

(* C36 main invariant lemma: every step keeps the tree closed and acyclic, and never runs out of fuel *)
Lemma pstep_wfp s o : wfp s -> exists s', pstep s o = Some s' /\ wfp s'.
Proof.
  intros (Hcl & Hop & Hac). destruct o as [id|id|id dep w excl]; simpl.
  - destruct ((id <=? 0) || memZ id (nodes s)) eqn:E; [exists s; split; [reflexivity|exact (conj Hcl (conj Hop Hac))]|].
    eexists; split; [reflexivity|]. split; [|split]; simpl.
    + intros x y Exy. destruct (Z.eq_dec x id) as [->|Hx].
      * rewrite upd_eq in Exy. discriminate.
      * rewrite upd_ne in Exy by exact Hx. destruct (Hcl _ _ Exy). split; right; assumption.
    + intros x [<-|Hx]; [left; reflexivity|right; auto].
    + apply upd_none_acyclic; exact Hac.
  - eexists; split; [reflexivity|]. split; [|split]; simpl; try assumption.
    intros x Hx. apply filter_In in Hx. apply Hop. tauto.
  - destruct (is_open s id) eqn:Eo; simpl; [|exists s; split; [reflexivity|exact (conj Hcl (conj Hop Hac))]].
    assert (Hop' : forall x, is_open s x = true -> In x (nodes s)).
    { intros x Hx. apply Hop. apply memZ_In. exact Hx. }
    destruct (adjust_par (is_open s) (par s) (fuel_of s) id dep excl) as [par'|] eqn:Ea.
    + eexists; split; [reflexivity|]. split; [|split]; simpl.
      * eapply adjust_par_closed; eauto.
      * exact Hop.
      * eapply adjust_par_acyclic; eauto.
    + exfalso. unfold adjust_par in Ea.
      destruct (oeqb (if is_open s dep then Some dep else None) (Some id)); [discriminate|].
      destruct (walk (par s) (fuel_of s) (if is_open s dep then Some dep else None) id) eqn:Ew; [discriminate|].
      revert Ew. apply walk_terminates; [exact Hac|exact Hcl|].
      intros x Ex. destruct (is_open s dep) eqn:Ed; inversion Ex; subst. auto.
Qed.


Lemma preach_wfp s : preach s -> wfp s.
Proof.
  induction 1 as [|s o s' _ IH E]; [exact wfp0|].
  destruct (pstep_wfp s o IH) as (s2 & E2 & W). rewrite E in E2. inversion E2; subst. exact W.
Qed.

(* headline statements *)
Lemma acyclic_preserved s o s' : wfp s -> pstep s o = Some s' -> acyclic (par s').
Proof.
  intros W E. destruct (pstep_wfp s o W) as (s2 & E2 & (_ & _ & Hac)). rewrite E in E2. inversion E2; subst. exact Hac.
Qed.

Lemma no_stream_own_ancestor s x : preach s -> ~ reach (par s) x x.
Proof. intros R. exact (proj2 (proj2 (preach_wfp s R)) x). Qed.

Lemma priority_processing_terminates s o : preach s -> pstep s o <> None.
Proof. intros R E. destruct (pstep_wfp s o (preach_wfp s R)) as (s2 & E2 & _). congruence. Qed.

Lemma prun_total s ops : wfp s -> exists ts, prun s ops = Some ts /\ length ts = length ops.
Proof.
  revert s. induction ops as [|o r IH]; intros s W; simpl; [exists []; auto|].
  destruct (pstep_wfp s o W) as (s' & E & W'). rewrite E.
  destruct (IH s' W') as (ts & Et & Hl). rewrite Et. eexists; split; [reflexivity|]. simpl. congruence.
Qed.

(* ---- the executable acyclicity check accepts every table of a well-formed state ---- *)
Definition ptable (s : pst) : list (Z * Z) := map (fun x => (x, oZ (par s x))) (nodes s).

Lemma tlookup_ptable_gen (f : Z -> Z) l x :
  tlookup (map (fun x => (x, f x)) l) x = if memZ x l then Some (f x) else None.
Proof.
  induction l as [|y l IH]; simpl; [reflexivity|].
  rewrite (Z.eqb_sym x y). destruct (Z.eqb_spec y x) as [->|H]; simpl; [reflexivity|exact IH].
Qed.

Lemma chain_ends_false_chain s fuel x :
  chain_ends (ptable s) fuel x = false ->
  exists l, length l = S (S fuel) /\ chain (par s) (Some x) l /\ In x (nodes s).
Proof.
  revert x. induction fuel as [|f IH]; intros x H; simpl in H; unfold ptable in H;
    rewrite tlookup_ptable_gen in H; destruct (memZ x (nodes s)) eqn:Em; try discriminate;
    apply memZ_In in Em; destruct (par s x) as [p|] eqn:Ep; simpl in H;
    try discriminate; destruct (Z.eqb_spec p 0); try discriminate.
  - exists [x; p]. simpl. rewrite Ep. auto.
  - destruct (IH p H) as (l & Hl & Hc & _). exists (x :: l). simpl. rewrite Ep. auto.
Qed.

Lemma table_acyclic_wfp s : wfp s -> table_acyclic (ptable s) = true.
Proof.
  intros (Hcl & Hop & Hac). unfold table_acyclic. apply forallb_forall. intros r Hr.
  destruct (chain_ends (ptable s) (length (ptable s)) (fst r)) eqn:E; [reflexivity|exfalso].
  destruct (chain_ends_false_chain _ _ _ E) as (l & Hl & Hc & Hin).
  assert (Hs : (length l <= length (nodes s))%nat).
  { eapply chain_short; eauto. intros y Ey. inversion Ey; subst; exact Hin. }
  unfold ptable in Hl. rewrite map_length in Hl. lia.
Qed.

Lemma dec_table_enc s : dec_table (enc_table (table s)) = Some (ptable s).
Proof.
  unfold enc_table, table, ptable, dec_table. rewrite !map_map.
  induction (nodes s) as [|x l IH]; simpl; [reflexivity|].
  simpl in IH. rewrite IH. reflexivity.
Qed.

Lemma table_ok_wfp s : wfp s -> table_ok (enc_table (table s)) = true.
Proof. intro W. unfold table_ok. rewrite dec_table_enc. apply table_acyclic_wfp; exact W. Qed.

Lemma prun_tables_ok s ops ts : wfp s -> prun s ops = Some ts -> forallb table_ok (map enc_table ts) = true.
Proof.
  revert s ts. induction ops as [|o r IH]; intros s ts W H; simpl in H.
  - inversion H; reflexivity.
  - destruct (pstep_wfp s o W) as (s' & E & W'). rewrite E in H.
    destruct (prun s' r) as [ts'|] eqn:Et; [|discriminate]. inversion H; subst. simpl.
    rewrite (table_ok_wfp s' W'). simpl. eapply IH; eauto.
Qed.

(* encoding of typed operations, for the statement over the wire functions *)

Lemma dec_ops_enc ops : dec_ops (enc_ops ops) = Some ops.
Proof.
  unfold dec_ops, enc_ops. rewrite map_map. induction ops as [|o r IH]; simpl; [reflexivity|].
  assert (dec_op (enc_op o) = Some o) as -> by (destruct o as [| |? ? ? []]; reflexivity).
  simpl in IH. rewrite IH. reflexivity.
Qed.

Lemma dec_live_enc_ops ops : dec_live (enc_ops ops) = None.
Proof. destruct ops as [|o r]; [reflexivity|]. destruct o; reflexivity. Qed.
Lemma steps_of_enc_ops ops : steps_of (enc_ops ops) = Some (length ops).
Proof.
  unfold enc_ops. destruct ops as [|o r]; [reflexivity|]. destruct o; cbn [map enc_op steps_of]; rewrite ?map_length; try reflexivity.
  all: destruct r as [|o2 r2]; [reflexivity|]; destruct o2; cbn [map enc_op length]; rewrite ?map_length; try reflexivity.
  all: destruct r2; reflexivity.
Qed.

Lemma prop_C36_of_model ops : prop_C36 (enc_ops ops) (run_C36 (enc_ops ops)) = true.
Proof.
  unfold run_C36. rewrite dec_live_enc_ops, dec_ops_enc.
  destruct (prun_total pst0 ops wfp0) as (ts & Et & Hl). rewrite Et.
  unfold prop_C36. rewrite steps_of_enc_ops. unfold enc_out. rewrite !map_length, Hl, Nat.eqb_refl. simpl.
  eapply prun_tables_ok; [exact wfp0|exact Et].
Qed.

(* ---- live scripts: HEADERS (with or without PRIORITY flag), PRIORITY, RST_STREAM ---- *)
Lemma psteps_wfp ops : forall s, wfp s -> exists s', psteps s ops = Some s' /\ wfp s'.
Proof.
  induction ops as [|o r IH]; intros s W; simpl; [eauto|].
  destruct (pstep_wfp s o W) as (s1 & E & W1). rewrite E. apply IH. exact W1.
Qed.

Lemma lrun_ok lops : forall s, wfp s ->
  exists ts, lrun s lops = Some ts /\ length ts = length lops /\ forallb table_ok (map enc_table ts) = true.
Proof.
  induction lops as [|o r IH]; intros s W; simpl; [exists []; auto|].
  destruct (psteps_wfp (lexpand o) s W) as (s1 & E & W1). rewrite E.
  destruct (IH s1 W1) as (ts & Et & Hl & Hok). rewrite Et.
  eexists; split; [reflexivity|]. split; [simpl; congruence|].
  simpl. rewrite (table_ok_wfp s1 W1). exact Hok.
Qed.

Lemma dec_live_enc lops : dec_live (enc_live lops) = Some lops.
Proof.
  unfold dec_live, enc_live. rewrite map_map. induction lops as [|o r IH]; simpl; [reflexivity|].
  assert (dec_lop (enc_lop o) = Some o) as -> by (destruct o as [? [] ? ? []|? ? ? []|?]; reflexivity).
  simpl in IH. rewrite IH. reflexivity.
Qed.

(* every live script: the serve-loop entry points keep the tree acyclic and every frame is processed (no hang) *)
Lemma prop_C36_of_model_live lops : prop_C36 (enc_live lops) (run_C36 (enc_live lops)) = true.
Proof.
  unfold run_C36. rewrite dec_live_enc.
  destruct (lrun_ok lops pst0 wfp0) as (ts & Et & Hl & Hok). rewrite Et.
  unfold prop_C36, enc_live, steps_of, enc_out. rewrite !map_length, Hl, Nat.eqb_refl. exact Hok.
Qed.

(* non-vacuity witnesses *)
Definition ex_ops : list pop :=
  [PNew 1; PNew 3; PNew 5; PAdj 3 1 10 false; PAdj 5 3 20 false; PAdj 1 5 30 false; PClose 3; PAdj 5 0 7 true].
Lemma ex_ops_run :
  option_map (map (map (fun r => let '(x, p, _, _) := r in (x, p)))) (prun pst0 ex_ops) =
  Some [ [(1,0)]; [(3,0);(1,0)]; [(5,0);(3,0);(1,0)]; [(5,0);(3,1);(1,0)]; [(5,3);(3,1);(1,0)];
         [(5,0);(3,1);(1,5)]; [(5,0);(3,1);(1,5)]; [(5,0);(3,1);(1,5)] ].
Proof. vm_compute. reflexivity. Qed.
