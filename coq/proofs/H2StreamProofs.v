(* Invariant proofs for the serve-loop model model/H2Stream.v (C33 flow accounting, C35 no panic site). *)
From Coq Require Import List ZArith Bool Lia.
From Bfe Require Import lib.Val model.H2Flow model.H2Stream proofs.H2FlowProofs run.RunC33.
Import ListNotations.
Open Scope Z_scope.

Definition sumbuf (l : list stream) : Z := fold_right (fun st acc => s_buf st + acc) 0 l.

(* per-stream invariant *)
Definition st_ok (isw : Z) (st : stream) : Prop :=
  (s_state st = 1 \/ s_state st = 2 \/ s_state st = 3) /\
  (s_state st = 1 -> s_body st = true /\ s_inflow st + s_buf st = isw) /\
  0 <= s_buf st /\ s_inflow st + s_buf st <= isw /\
  (s_body st = false -> s_buf st = 0).

(* connection invariant *)
Definition Good (c : conn) : Prop :=
  Forall (st_ok (c_isw c)) (c_streams c) /\
  0 <= c_inflow c /\
  c_inflow c + sumbuf (c_streams c) <= init_window /\
  (c_p3 c = false -> c_inflow c + sumbuf (c_streams c) = init_window) /\
  0 < c_isw c <= 1000000.

(* ---------- association-list lemmas ---------- *)
Lemma find_some id l st : find_stream id l = Some st -> In st l /\ s_id st = id.
Proof.
  induction l as [|x r IH]; simpl; [discriminate|].
  destruct (s_id x =? id) eqn:E.
  - intros H. inversion H; subst. split; [left; reflexivity|lia].
  - intros H. destruct (IH H) as [H1 H2]. split; [right; exact H1|exact H2].
Qed.

Lemma find_upd id l st st' :
  find_stream id l = Some st -> s_id st' = id -> find_stream id (upd_stream st' l) = Some st'.
Proof.
  induction l as [|x r IH]; simpl; [discriminate|].
  intros H Hid. destruct (s_id x =? id) eqn:E.
  - rewrite Hid, E. simpl. rewrite Hid, Z.eqb_refl. reflexivity.
  - rewrite Hid, E. simpl. rewrite E. apply IH; assumption.
Qed.

Lemma Forall_upd (P : stream -> Prop) l st' : Forall P l -> P st' -> Forall P (upd_stream st' l).
Proof.
  induction l as [|x r IH]; simpl; intros H Hp; [constructor|].
  inversion H; subst. destruct (s_id x =? s_id st'); constructor; auto.
Qed.

Lemma sum_upd l st st' :
  find_stream (s_id st') l = Some st -> sumbuf (upd_stream st' l) = sumbuf l - s_buf st + s_buf st'.
Proof.
  induction l as [|x r IH]; simpl; [discriminate|].
  destruct (s_id x =? s_id st') eqn:E; intros H.
  - inversion H; subst. simpl. lia.
  - simpl. rewrite (IH H). lia.
Qed.

Lemma find_live_some id l st :
  find_live id l = Some st -> find_stream id l = Some st /\ s_state st <> 3.
Proof.
  unfold find_live. destruct (find_stream id l) as [x|]; [|discriminate].
  destruct (s_state x =? 3) eqn:E; [discriminate|]. intros H. inversion H; subst. split; [reflexivity|lia].
Qed.

Lemma Good_st c id st : Good c -> find_stream id (c_streams c) = Some st -> st_ok (c_isw c) st.
Proof.
  intros [HF _] H. apply find_some in H. destruct H as [H _].
  rewrite Forall_forall in HF. apply HF. exact H.
Qed.

(* ---------- the one update lemma: replacing a stream and the connection window ---------- *)
Lemma good_set c st st' f p3' mx cur d b :
  Good c -> find_stream (s_id st') (c_streams c) = Some st -> st_ok (c_isw c) st' -> 0 <= f ->
  f + s_buf st' <= c_inflow c + s_buf st ->
  (p3' = false -> c_p3 c = false /\ f + s_buf st' = c_inflow c + s_buf st) ->
  Good (mkC mx (upd_stream st' (c_streams c)) cur (c_adv c) f (c_isw c) d b p3').
Proof.
  intros [HF [H0 [Hle [Heq Hisw]]]] Hfind Hok Hf Hle' Hp.
  unfold Good; simpl. rewrite (sum_upd _ _ _ Hfind).
  split; [apply Forall_upd; assumption|].
  split; [exact Hf|]. split; [lia|]. split; [|exact Hisw].
  intros Hp3. destruct (Hp Hp3) as [Hq He]. specialize (Heq Hq). lia.
Qed.

Lemma good_ext c c' :
  c_streams c' = c_streams c -> c_inflow c' = c_inflow c -> c_isw c' = c_isw c -> c_p3 c' = c_p3 c ->
  Good c -> Good c'.
Proof. unfold Good. intros -> -> -> -> H. exact H. Qed.

(* ---------- closeStream / resetStream ---------- *)
Lemma close_good c st c' :
  Good c -> find_stream (s_id st) (c_streams c) = Some st -> close_stream c st = Some c' ->
  Good c' /\ c_inflow c' = c_inflow c /\ c_isw c' = c_isw c /\ c_bug c' = c_bug c /\ c_dead c' = c_dead c /\
  c_max c' = c_max c.
Proof.
  intros HG Hfind. unfold close_stream. destruct (s_state st =? 3) eqn:E3; [discriminate|].
  intros H. inversion H; subst; clear H. simpl.
  split; [|repeat split; reflexivity].
  pose proof (Good_st _ _ _ HG Hfind) as [Hs [H1 [Hb [Hle Hnb]]]].
  assert (H0 : 0 <= c_inflow c) by (destruct HG as [_ [H0 _]]; exact H0).
  apply (good_set c st); [exact HG | exact Hfind | | exact H0 | | ]; simpl.
  - unfold st_ok; simpl.
    split; [right; right; reflexivity|].
    split; [intros; discriminate|].
    destruct (s_body st) eqn:Eb; simpl.
    + destruct (c_isw c =? init_window); simpl; repeat split; try lia; intros; discriminate.
    + specialize (Hnb eq_refl). repeat split; try lia.
  - destruct (s_body st && (c_isw c =? init_window)); lia.
  - intros Hp. apply orb_false_iff in Hp. destruct Hp as [Hp1 Hp2]. split; [exact Hp1|].
    destruct (s_body st) eqn:Eb; simpl in *.
    + assert (s_buf st = 0) by lia. destruct (c_isw c =? init_window); lia.
    + reflexivity.
Qed.

Lemma do_reset_good c id code pre c' evs :
  Good c -> c_bug c = false -> do_reset c id code pre = (c', evs) ->
  Good c' /\ c_bug c' = false /\ c_inflow c' = c_inflow c /\ c_isw c' = c_isw c /\ c_dead c' = c_dead c /\
  evs = pre ++ [(2, id, code)].
Proof.
  intros HG Hb. unfold do_reset.
  destruct (find_live id (c_streams c)) as [st|] eqn:Ef.
  - apply find_live_some in Ef. destruct Ef as [Ef Hn3].
    pose proof (find_some _ _ _ Ef) as [_ Hid].
    unfold close_stream at 1. destruct (s_state st =? 3) eqn:E3; [lia|].
    match goal with |- (?x, _) = _ -> _ => set (cc := x) end.
    intros H. inversion H; subst c' evs; clear H.
    assert (Hc : close_stream c st = Some cc).
    { unfold close_stream. rewrite E3. reflexivity. }
    rewrite <- Hid in Ef.
    destruct (close_good _ _ _ HG Ef Hc) as [G [A [B [C [D _]]]]].
    split; [exact G|]. split; [rewrite C; exact Hb|]. split; [exact A|]. split; [exact B|]. split; [exact D|reflexivity].
  - intros H. inversion H; subst. split; [exact HG|]. split; [exact Hb|]. repeat split; reflexivity.
Qed.

(* ---------- more helpers ---------- *)
Lemma upd_upd a b l : s_id a = s_id b -> upd_stream b (upd_stream a l) = upd_stream b l.
Proof.
  intros Hab. induction l as [|x r IH]; simpl; [reflexivity|].
  destruct (s_id x =? s_id a) eqn:E.
  - simpl. rewrite Hab, Z.eqb_refl. rewrite <- Hab, E. reflexivity.
  - simpl. rewrite <- Hab, E. rewrite IH. reflexivity.
Qed.

Lemma sumbuf_nonneg isw l : Forall (st_ok isw) l -> 0 <= sumbuf l.
Proof.
  induction 1 as [|x r Hx _ IH]; simpl; [lia|]. destruct Hx as [_ [_ [Hb _]]]. lia.
Qed.

Lemma Good_inflow_le c : Good c -> 0 <= c_inflow c <= init_window.
Proof.
  intros [HF [H0 [Hl _]]]. pose proof (sumbuf_nonneg _ _ HF). lia.
Qed.

Lemma wu_of_app a b s : wu_of (a ++ b) s = wu_of a s + wu_of b s.
Proof.
  unfold wu_of. induction a as [|e r IH]; simpl; [reflexivity|].
  destruct (ev_is 1 s e); lia.
Qed.
Lemma wu_of_wu s n : wu_of (wu_evt s n) s = n.
Proof.
  unfold wu_evt. destruct (n =? 0) eqn:E; simpl; [lia|]. rewrite Z.eqb_refl. simpl. lia.
Qed.
Lemma wu_of_wu_other s s' n : s' <> s -> wu_of (wu_evt s' n) s = 0.
Proof.
  intros H. unfold wu_evt. destruct (n =? 0); simpl; [reflexivity|].
  destruct (s' =? s) eqn:E; [lia|reflexivity].
Qed.

(* a stream is replaced (possibly leaving the open-stream equation) and immediately reset *)
Lemma reset_after_upd c st st1 f code pre mx cur d b c' evs :
  Good c ->
  find_stream (s_id st1) (c_streams c) = Some st ->
  (s_state st1 = 1 \/ s_state st1 = 2) -> 0 <= s_buf st1 -> s_inflow st1 + s_buf st1 <= c_isw c ->
  (s_body st1 = false -> s_buf st1 = 0) ->
  0 <= f -> f + s_buf st1 <= c_inflow c + s_buf st ->
  (c_p3 c = false -> f + s_buf st1 = c_inflow c + s_buf st) ->
  do_reset (mkC mx (upd_stream st1 (c_streams c)) cur (c_adv c) f (c_isw c) d b (c_p3 c)) (s_id st1) code pre = (c', evs) ->
  Good c' /\ c_bug c' = b /\ c_inflow c' = f /\ c_isw c' = c_isw c /\ c_dead c' = d /\ evs = pre ++ [(2, s_id st1, code)].
Proof.
  intros HG Hfind Hs Hb1 Hle1 Hnb1 Hf Hfle Hfeq.
  unfold do_reset. simpl c_streams.
  assert (Hl : find_live (s_id st1) (upd_stream st1 (c_streams c)) = Some st1).
  { unfold find_live. rewrite (find_upd _ _ _ _ Hfind eq_refl).
    destruct (s_state st1 =? 3) eqn:E; [lia|reflexivity]. }
  rewrite Hl. unfold close_stream. destruct (s_state st1 =? 3) eqn:E3; [lia|].
  simpl. rewrite upd_upd by reflexivity.
  intros H. inversion H; subst c' evs; clear H. simpl.
  split; [|repeat split; reflexivity].
  assert (H0 : 0 <= c_inflow c) by (destruct HG as [_ [H0 _]]; exact H0).
  apply (good_set c st); [exact HG | exact Hfind | | exact Hf | | ]; simpl.
  - unfold st_ok; simpl.
    split; [right; right; reflexivity|].
    split; [intros; discriminate|].
    destruct (s_body st1) eqn:Eb; simpl.
    + destruct (c_isw c =? init_window); simpl; repeat split; try lia; intros; discriminate.
    + specialize (Hnb1 eq_refl). repeat split; try lia.
  - destruct (s_body st1 && (c_isw c =? init_window)); lia.
  - intros Hp. apply orb_false_iff in Hp. destruct Hp as [Hp1 Hp2]. split; [exact Hp1|].
    specialize (Hfeq Hp1).
    destruct (s_body st1) eqn:Eb; simpl in *.
    + assert (s_buf st1 = 0) by lia. destruct (c_isw c =? init_window); lia.
    + lia.
Qed.

Lemma data_closed_post c id L c' evs :
  Good c -> c_bug c = false -> 0 <= L -> data_closed c id L = (c', evs) ->
  Good c' /\ c_bug c' = false /\ c_isw c' = c_isw c /\ c_dead c' = c_dead c /\
  (L <= c_inflow c -> c_inflow c' = c_inflow c - L + wu_of evs 0) /\
  (c_inflow c < L -> evs = [(2, id, 3)]).
Proof.
  intros HG Hb HL. unfold data_closed. pose proof (Good_inflow_le _ HG) as Hi.
  destruct (c_inflow c <? L) eqn:E.
  - intros H. destruct (do_reset_good _ _ _ _ _ _ HG Hb H) as [G [B [I [W [D Ev]]]]].
    split; [exact G|]. split; [exact B|]. split; [exact W|]. split; [exact D|]. split; [intros; lia|intros _; exact Ev].
  - rewrite flow_take_conn_some by lia.
    rewrite send_wu_some by (unfold max_i31, init_window in *; lia).
    replace (c_inflow c - L + L) with (c_inflow c) by lia.
    intros H.
    assert (HG' : Good (set_cinflow c (c_inflow c))) by (apply (good_ext c); [reflexivity..|exact HG]).
    destruct (do_reset_good _ _ _ _ _ _ HG' Hb H) as [G [B [I [W [D Ev]]]]].
    simpl in *. split; [exact G|]. split; [exact B|]. split; [exact W|]. split; [exact D|]. split.
    + intros _. subst evs. rewrite wu_of_app, wu_of_wu. simpl. lia.
    + intros; lia.
Qed.

Ltac side := simpl; try assumption; try lia; try (left; assumption); try (intros; lia).

Lemma data_open_post c st dlen L es c' evs :
  Good c -> c_bug c = false -> find_stream (s_id st) (c_streams c) = Some st -> s_state st = 1 ->
  0 <= dlen -> dlen <= L -> s_id st <> 0 ->
  data_open c st dlen L es = (c', evs) ->
  Good c' /\ c_bug c' = false /\ c_isw c' = c_isw c /\ c_dead c' = c_dead c /\
  (L <= c_inflow c -> L <= s_inflow st -> c_inflow c' = c_inflow c - L + wu_of evs 0) /\
  (c_inflow c < L -> evs = [(2, s_id st, 3)]) /\
  (0 < L -> s_inflow st < L -> (negb (s_decl st =? -1) && (s_decl st <? s_bytes st + dlen)) = false -> evs = [(2, s_id st, 3)]).
Proof.
  intros HG Hb Hfind Hst Hd HdL Hid.
  pose proof (Good_st _ _ _ HG Hfind) as [_ [H1 [Hbuf [Hle Hnb]]]].
  destruct (H1 Hst) as [Hbody Heq].
  pose proof (Good_inflow_le _ HG) as Hi.
  assert (Hisw : 0 < c_isw c <= 1000000) by (destruct HG as [_ [_ [_ [_ X]]]]; exact X).
  unfold data_open. rewrite Hbody. simpl negb. cbv iota.
  destruct (negb (s_decl st =? -1) && (s_decl st <? s_bytes st + dlen)) eqn:ECL.
  - destruct (c_inflow c <? L) eqn:E.
    + intros H. destruct (do_reset_good _ _ _ _ _ _ HG Hb H) as [G [B [I [W [D Ev]]]]].
      split; [exact G|]. split; [exact B|]. split; [exact W|]. split; [exact D|].
      split; [intros; lia|]. split; [intros _; exact Ev|intros _ _ X; discriminate X].
    + rewrite flow_take_conn_some by lia.
      rewrite send_wu_some by (unfold max_i31, init_window in *; lia).
      unfold upd, set_streams, set_cinflow. simpl.
      intros H. apply (reset_after_upd c st (set_perr st 2)) in H; side.
      destruct H as [G [B [I [W [D Ev]]]]]. simpl in *.
      split; [exact G|]. split; [congruence|]. split; [exact W|]. split; [exact D|].
      split; [|split; [intros; lia|intros _ _ X; discriminate X]].
      intros _ _. subst evs. rewrite wu_of_app, wu_of_wu. simpl. lia.
  - destruct (0 <? L) eqn:EL.
    + destruct (flow_available (s_inflow st) (c_inflow c) <? L) eqn:EA.
      * intros H. destruct (do_reset_good _ _ _ _ _ _ HG Hb H) as [G [B [I [W [D Ev]]]]].
        unfold flow_available in EA.
        split; [exact G|]. split; [exact B|]. split; [exact W|]. split; [exact D|].
        split; [intros; lia|]. split; intros; exact Ev.
      * rewrite (flow_take_stream_guarded _ _ _ EA). unfold flow_available in EA.
        destruct ((0 <? dlen) && (negb (s_perr st =? 0) || s_rel st)) eqn:EW.
        { rewrite send_wu_some by (unfold max_i31, init_window in *; lia).
          unfold upd, set_streams, set_cinflow. simpl.
          intros H. apply (reset_after_upd c st (set_sinflow st (s_inflow st - L))) in H; side.
          destruct H as [G [B [I [W [D Ev]]]]]. simpl in *.
          split; [exact G|]. split; [congruence|]. split; [exact W|]. split; [exact D|].
          split; [|split; intros; lia].
          intros _ _. subst evs. rewrite wu_of_app, wu_of_wu. simpl. lia. }
        destruct ((0 <? dlen) && (c_isw c <? s_buf st + dlen)) eqn:EF.
        { apply andb_true_iff in EF. destruct EF as [EF1 EF2]. lia. }
        set (st2 := if 0 <? dlen then add_body (set_sinflow st (s_inflow st - L)) dlen else set_sinflow st (s_inflow st - L)).
        assert (Hst2 : s_inflow st2 = s_inflow st - L /\ s_buf st2 = s_buf st + dlen /\ s_id st2 = s_id st /\
                       s_state st2 = 1 /\ s_body st2 = true).
        { unfold st2. destruct (0 <? dlen) eqn:E0; simpl; repeat split; try assumption; lia. }
        destruct Hst2 as [A1 [A2 [A3 [A4 A5]]]].
        simpl c_inflow. rewrite A1.
        rewrite !send_wu_some by (unfold max_i31, init_window in *; lia).
        unfold finish_data. destruct es.
        { unfold end_stream. simpl s_body. rewrite A5. simpl negb. cbv iota.
          unfold upd, set_streams, set_cinflow. simpl.
          intros H. inversion H; subst c' evs; clear H. simpl.
          split.
          { apply (good_set c st); [exact HG | simpl; rewrite A3; exact Hfind | | lia | simpl; lia | simpl; intros; split; [assumption|lia]].
            unfold st_ok; simpl. split; [right; left; reflexivity|]. split; [intros; discriminate|].
            rewrite A2; try rewrite A5. repeat split; try lia. }
          split; [exact Hb|]. split; [reflexivity|]. split; [reflexivity|].
          split; [|split; intros; lia].
          intros _ _. rewrite wu_of_app, wu_of_wu, wu_of_wu_other by assumption. lia. }
        { unfold upd, set_streams, set_cinflow. simpl.
          intros H. inversion H; subst c' evs; clear H. simpl.
          split.
          { apply (good_set c st); [exact HG | simpl; rewrite A3; exact Hfind | | lia | simpl; lia | simpl; intros; split; [assumption|lia]].
            unfold st_ok; simpl. split; [left; exact A4|]. rewrite A2; try rewrite A5.
            split; [intros; split; [reflexivity|lia]|]. repeat split; try lia. }
          split; [exact Hb|]. split; [reflexivity|]. split; [reflexivity|].
          split; [|split; intros; lia].
          intros _ _. rewrite wu_of_app, wu_of_wu, wu_of_wu_other by assumption. lia. }
    + assert (L = 0) by lia. assert (dlen = 0) by lia. subst L.
      unfold finish_data. destruct es.
      * unfold end_stream. rewrite Hbody. simpl negb. cbv iota.
        unfold upd, set_streams. simpl.
        intros H. inversion H; subst c' evs; clear H. simpl.
        split.
        { apply (good_set c st); [exact HG | simpl; exact Hfind | | lia | simpl; lia | simpl; intros; split; [assumption|lia]].
          unfold st_ok; simpl. split; [right; left; reflexivity|]. split; [intros; discriminate|].
          try rewrite Hbody. repeat split; try lia; try (intros; discriminate). }
        split; [exact Hb|]. split; [reflexivity|]. split; [reflexivity|].
        split; [intros; unfold wu_of; simpl; lia|split; intros; lia].
      * unfold upd, set_streams. simpl.
        intros H. inversion H; subst c' evs; clear H. simpl.
        split.
        { apply (good_set c st); [exact HG | exact Hfind | | lia | lia | intros; split; [assumption|lia]].
          exact (Good_st _ _ _ HG Hfind). }
        split; [exact Hb|]. split; [reflexivity|]. split; [reflexivity|].
        split; [intros; unfold wu_of; simpl; lia|split; intros; lia].
Qed.
