(* Invariant proofs for the serve-loop model model/H2Stream.v (C33 flow accounting, C35 no panic site). *)
From Coq Require Import List ZArith Bool Lia.
From Bfe Require Import lib.Val model.H2Flow model.H2Stream proofs.H2FlowProofs run.RunC33.
Import ListNotations.
Open Scope Z_scope.

Definition sumbuf (l : list stream) : Z := fold_right (fun st acc => s_buf st + acc) 0 l.

(* per-stream invariant *)
Definition st_ok (isw : Z) (st : stream) : Prop :=
  (s_state st = 1 \/ s_state st = 2 \/ s_state st = 3) /\
  (s_state st = 1 -> s_body st = true /\ s_inflow st + s_buf st = isw) /\
  0 <= s_buf st /\ s_inflow st + s_buf st <= isw /\
  (s_body st = false -> s_buf st = 0) /\
  s_id st <> 0.

(* connection invariant *)
Definition Good (c : conn) : Prop :=
  Forall (st_ok (c_isw c)) (c_streams c) /\
  0 <= c_inflow c /\
  c_inflow c + sumbuf (c_streams c) <= init_window /\
  (c_p3 c = false -> c_inflow c + sumbuf (c_streams c) = init_window) /\
  0 < c_isw c <= 1000000.

(* ---------- association-list lemmas ---------- *)
Lemma find_some id l st : find_stream id l = Some st -> In st l /\ s_id st = id.
Proof.
  induction l as [|x r IH]; simpl; [discriminate|].
  destruct (s_id x =? id) eqn:E.
  - intros H. inversion H; subst. split; [left; reflexivity|lia].
  - intros H. destruct (IH H) as [H1 H2]. split; [right; exact H1|exact H2].
Qed.

Lemma find_upd id l st st' :
  find_stream id l = Some st -> s_id st' = id -> find_stream id (upd_stream st' l) = Some st'.
Proof.
  induction l as [|x r IH]; simpl; [discriminate|].
  intros H Hid. destruct (s_id x =? id) eqn:E.
  - rewrite Hid, E. simpl. rewrite Hid, Z.eqb_refl. reflexivity.
  - rewrite Hid, E. simpl. rewrite E. apply IH; assumption.
Qed.

Lemma Forall_upd (P : stream -> Prop) l st' : Forall P l -> P st' -> Forall P (upd_stream st' l).
Proof.
  induction l as [|x r IH]; simpl; intros H Hp; [constructor|].
  inversion H; subst. destruct (s_id x =? s_id st'); constructor; auto.
Qed.

Lemma sum_upd l st st' :
  find_stream (s_id st') l = Some st -> sumbuf (upd_stream st' l) = sumbuf l - s_buf st + s_buf st'.
Proof.
  induction l as [|x r IH]; simpl; [discriminate|].
  destruct (s_id x =? s_id st') eqn:E; intros H.
  - inversion H; subst. simpl. lia.
  - simpl. rewrite (IH H). lia.
Qed.

Lemma find_live_some id l st :
  find_live id l = Some st -> find_stream id l = Some st /\ s_state st <> 3.
Proof.
  unfold find_live. destruct (find_stream id l) as [x|]; [|discriminate].
  destruct (s_state x =? 3) eqn:E; [discriminate|]. intros H. inversion H; subst. split; [reflexivity|lia].
Qed.

Lemma Good_st c id st : Good c -> find_stream id (c_streams c) = Some st -> st_ok (c_isw c) st.
Proof.
  intros [HF _] H. apply find_some in H. destruct H as [H _].
  rewrite Forall_forall in HF. apply HF. exact H.
Qed.

(* ---------- the one update lemma: replacing a stream and the connection window ---------- *)
Lemma good_set c st st' f p3' mx cur d b :
  Good c -> find_stream (s_id st') (c_streams c) = Some st -> st_ok (c_isw c) st' -> 0 <= f ->
  f + s_buf st' <= c_inflow c + s_buf st ->
  (p3' = false -> c_p3 c = false /\ f + s_buf st' = c_inflow c + s_buf st) ->
  Good (mkC mx (upd_stream st' (c_streams c)) cur (c_adv c) f (c_isw c) d b p3').
Proof.
  intros [HF [H0 [Hle [Heq Hisw]]]] Hfind Hok Hf Hle' Hp.
  unfold Good; simpl. rewrite (sum_upd _ _ _ Hfind).
  split; [apply Forall_upd; assumption|].
  split; [exact Hf|]. split; [lia|]. split; [|exact Hisw].
  intros Hp3. destruct (Hp Hp3) as [Hq He]. specialize (Heq Hq). lia.
Qed.

Lemma good_ext c c' :
  c_streams c' = c_streams c -> c_inflow c' = c_inflow c -> c_isw c' = c_isw c -> c_p3 c' = c_p3 c ->
  Good c -> Good c'.
Proof. unfold Good. intros -> -> -> -> H. exact H. Qed.

(* ---------- closeStream / resetStream ---------- *)
Lemma close_good c st c' :
  Good c -> find_stream (s_id st) (c_streams c) = Some st -> close_stream c st = Some c' ->
  Good c' /\ c_inflow c' = c_inflow c /\ c_isw c' = c_isw c /\ c_bug c' = c_bug c /\ c_dead c' = c_dead c /\
  c_max c' = c_max c.
Proof.
  intros HG Hfind. unfold close_stream. destruct (s_state st =? 3) eqn:E3; [discriminate|].
  intros H. inversion H; subst; clear H. simpl.
  split; [|repeat split; reflexivity].
  pose proof (Good_st _ _ _ HG Hfind) as [Hs [H1 [Hb [Hle [Hnb Hid0]]]]].
  assert (H0 : 0 <= c_inflow c) by (destruct HG as [_ [H0 _]]; exact H0).
  apply (good_set c st); [exact HG | exact Hfind | | exact H0 | | ]; simpl.
  - unfold st_ok; simpl.
    split; [right; right; reflexivity|].
    split; [intros; discriminate|].
    destruct (s_body st) eqn:Eb; simpl.
    + destruct (c_isw c =? init_window); simpl; repeat split; try lia; intros; discriminate.
    + specialize (Hnb eq_refl). repeat split; try lia.
  - destruct (s_body st && (c_isw c =? init_window)); lia.
  - intros Hp. apply orb_false_iff in Hp. destruct Hp as [Hp1 Hp2]. split; [exact Hp1|].
    destruct (s_body st) eqn:Eb; simpl in *.
    + assert (s_buf st = 0) by lia. destruct (c_isw c =? init_window); lia.
    + reflexivity.
Qed.

Lemma do_reset_good c id code pre c' evs :
  Good c -> c_bug c = false -> do_reset c id code pre = (c', evs) ->
  Good c' /\ c_bug c' = false /\ c_inflow c' = c_inflow c /\ c_isw c' = c_isw c /\ c_dead c' = c_dead c /\
  evs = pre ++ [(2, id, code)].
Proof.
  intros HG Hb. unfold do_reset.
  destruct (find_live id (c_streams c)) as [st|] eqn:Ef.
  - apply find_live_some in Ef. destruct Ef as [Ef Hn3].
    pose proof (find_some _ _ _ Ef) as [_ Hid].
    unfold close_stream at 1. destruct (s_state st =? 3) eqn:E3; [lia|].
    match goal with |- (?x, _) = _ -> _ => set (cc := x) end.
    intros H. inversion H; subst c' evs; clear H.
    assert (Hc : close_stream c st = Some cc).
    { unfold close_stream. rewrite E3. reflexivity. }
    rewrite <- Hid in Ef.
    destruct (close_good _ _ _ HG Ef Hc) as [G [A [B [C [D _]]]]].
    split; [exact G|]. split; [rewrite C; exact Hb|]. split; [exact A|]. split; [exact B|]. split; [exact D|reflexivity].
  - intros H. inversion H; subst. split; [exact HG|]. split; [exact Hb|]. repeat split; reflexivity.
Qed.

(* ---------- more helpers ---------- *)
Lemma upd_upd a b l : s_id a = s_id b -> upd_stream b (upd_stream a l) = upd_stream b l.
Proof.
  intros Hab. induction l as [|x r IH]; simpl; [reflexivity|].
  destruct (s_id x =? s_id a) eqn:E.
  - simpl. rewrite Hab, Z.eqb_refl. rewrite <- Hab, E. reflexivity.
  - simpl. rewrite <- Hab, E. rewrite IH. reflexivity.
Qed.

Lemma sumbuf_nonneg isw l : Forall (st_ok isw) l -> 0 <= sumbuf l.
Proof.
  induction 1 as [|x r Hx _ IH]; simpl; [lia|]. destruct Hx as [_ [_ [Hb _]]]. lia.
Qed.

Lemma buf_le_sum isw l st : Forall (st_ok isw) l -> In st l -> s_buf st <= sumbuf l.
Proof.
  induction 1 as [|x r Hx Hr IH]; simpl; [tauto|].
  pose proof (sumbuf_nonneg _ _ Hr). destruct Hx as [_ [_ [Hb _]]].
  intros [->|Hin]; [lia|]. specialize (IH Hin). lia.
Qed.

Lemma Good_inflow_le c : Good c -> 0 <= c_inflow c <= init_window.
Proof.
  intros [HF [H0 [Hl _]]]. pose proof (sumbuf_nonneg _ _ HF). lia.
Qed.

Lemma wu_of_app a b s : wu_of (a ++ b) s = wu_of a s + wu_of b s.
Proof.
  unfold wu_of. induction a as [|e r IH]; simpl; [reflexivity|].
  destruct (ev_is 1 s e); lia.
Qed.
Lemma wu_of_wu s n : wu_of (wu_evt s n) s = n.
Proof.
  unfold wu_evt. destruct (n =? 0) eqn:E; simpl; [lia|]. rewrite Z.eqb_refl. simpl. lia.
Qed.
Lemma wu_of_wu_other s s' n : s' <> s -> wu_of (wu_evt s' n) s = 0.
Proof.
  intros H. unfold wu_evt. destruct (n =? 0); simpl; [reflexivity|].
  destruct (s' =? s) eqn:E; [lia|reflexivity].
Qed.

(* a stream is replaced (possibly leaving the open-stream equation) and immediately reset *)
Lemma reset_after_upd c st st1 f code pre mx cur d b c' evs :
  Good c ->
  find_stream (s_id st1) (c_streams c) = Some st ->
  (s_state st1 = 1 \/ s_state st1 = 2) -> 0 <= s_buf st1 -> s_inflow st1 + s_buf st1 <= c_isw c ->
  (s_body st1 = false -> s_buf st1 = 0) -> s_id st1 <> 0 ->
  0 <= f -> f + s_buf st1 <= c_inflow c + s_buf st ->
  (c_p3 c = false -> f + s_buf st1 = c_inflow c + s_buf st) ->
  do_reset (mkC mx (upd_stream st1 (c_streams c)) cur (c_adv c) f (c_isw c) d b (c_p3 c)) (s_id st1) code pre = (c', evs) ->
  Good c' /\ c_bug c' = b /\ c_inflow c' = f /\ c_isw c' = c_isw c /\ c_dead c' = d /\ evs = pre ++ [(2, s_id st1, code)].
Proof.
  intros HG Hfind Hs Hb1 Hle1 Hnb1 Hid1 Hf Hfle Hfeq.
  unfold do_reset. simpl c_streams.
  assert (Hl : find_live (s_id st1) (upd_stream st1 (c_streams c)) = Some st1).
  { unfold find_live. rewrite (find_upd _ _ _ _ Hfind eq_refl).
    destruct (s_state st1 =? 3) eqn:E; [lia|reflexivity]. }
  rewrite Hl. unfold close_stream. destruct (s_state st1 =? 3) eqn:E3; [lia|].
  simpl. rewrite upd_upd by reflexivity.
  intros H. inversion H; subst c' evs; clear H. simpl.
  split; [|repeat split; reflexivity].
  assert (H0 : 0 <= c_inflow c) by (destruct HG as [_ [H0 _]]; exact H0).
  apply (good_set c st); [exact HG | exact Hfind | | exact Hf | | ]; simpl.
  - unfold st_ok; simpl.
    split; [right; right; reflexivity|].
    split; [intros; discriminate|].
    destruct (s_body st1) eqn:Eb; simpl.
    + destruct (c_isw c =? init_window); simpl; repeat split; try lia; intros; discriminate.
    + specialize (Hnb1 eq_refl). repeat split; try lia.
  - destruct (s_body st1 && (c_isw c =? init_window)); lia.
  - intros Hp. apply orb_false_iff in Hp. destruct Hp as [Hp1 Hp2]. split; [exact Hp1|].
    specialize (Hfeq Hp1).
    destruct (s_body st1) eqn:Eb; simpl in *.
    + assert (s_buf st1 = 0) by lia. destruct (c_isw c =? init_window); lia.
    + lia.
Qed.

Lemma data_closed_post c id L c' evs :
  Good c -> c_bug c = false -> 0 <= L -> data_closed c id L = (c', evs) ->
  Good c' /\ c_bug c' = false /\ c_isw c' = c_isw c /\ c_dead c' = c_dead c /\
  (L <= c_inflow c -> c_inflow c' = c_inflow c - L + wu_of evs 0) /\
  (c_inflow c < L -> evs = [(2, id, 3)]).
Proof.
  intros HG Hb HL. unfold data_closed. pose proof (Good_inflow_le _ HG) as Hi.
  destruct (c_inflow c <? L) eqn:E.
  - intros H. destruct (do_reset_good _ _ _ _ _ _ HG Hb H) as [G [B [I [W [D Ev]]]]].
    split; [exact G|]. split; [exact B|]. split; [exact W|]. split; [exact D|]. split; [intros; lia|intros _; exact Ev].
  - rewrite flow_take_conn_some by lia.
    rewrite send_wu_some by (unfold max_i31, init_window in *; lia).
    replace (c_inflow c - L + L) with (c_inflow c) by lia.
    intros H.
    assert (HG' : Good (set_cinflow c (c_inflow c))) by (apply (good_ext c); [reflexivity..|exact HG]).
    destruct (do_reset_good _ _ _ _ _ _ HG' Hb H) as [G [B [I [W [D Ev]]]]].
    simpl in *. split; [exact G|]. split; [exact B|]. split; [exact W|]. split; [exact D|]. split.
    + intros _. subst evs. rewrite wu_of_app, wu_of_wu. simpl. lia.
    + intros; lia.
Qed.

Ltac side := simpl; try assumption; try lia; try (left; assumption); try (intros; lia).

Lemma data_open_post c st dlen L es c' evs :
  Good c -> c_bug c = false -> find_stream (s_id st) (c_streams c) = Some st -> s_state st = 1 ->
  0 <= dlen -> dlen <= L -> s_id st <> 0 ->
  data_open c st dlen L es = (c', evs) ->
  Good c' /\ c_bug c' = false /\ c_isw c' = c_isw c /\ c_dead c' = c_dead c /\
  (L <= c_inflow c -> L <= s_inflow st -> c_inflow c' = c_inflow c - L + wu_of evs 0) /\
  (c_inflow c < L -> evs = [(2, s_id st, 3)]) /\
  (0 < L -> s_inflow st < L -> (negb (s_decl st =? -1) && (s_decl st <? s_bytes st + dlen)) = false -> evs = [(2, s_id st, 3)]).
Proof.
  intros HG Hb Hfind Hst Hd HdL Hid.
  pose proof (Good_st _ _ _ HG Hfind) as [_ [H1 [Hbuf [Hle [Hnb _]]]]].
  destruct (H1 Hst) as [Hbody Heq].
  pose proof (Good_inflow_le _ HG) as Hi.
  assert (Hisw : 0 < c_isw c <= 1000000) by (destruct HG as [_ [_ [_ [_ X]]]]; exact X).
  unfold data_open. rewrite Hbody. simpl negb. cbv iota.
  destruct (negb (s_decl st =? -1) && (s_decl st <? s_bytes st + dlen)) eqn:ECL.
  - destruct (c_inflow c <? L) eqn:E.
    + intros H. destruct (do_reset_good _ _ _ _ _ _ HG Hb H) as [G [B [I [W [D Ev]]]]].
      split; [exact G|]. split; [exact B|]. split; [exact W|]. split; [exact D|].
      split; [intros; lia|]. split; [intros _; exact Ev|intros _ _ X; discriminate X].
    + rewrite flow_take_conn_some by lia.
      rewrite send_wu_some by (unfold max_i31, init_window in *; lia).
      unfold upd, set_streams, set_cinflow. simpl.
      intros H. apply (reset_after_upd c st (set_perr st 2)) in H; side.
      destruct H as [G [B [I [W [D Ev]]]]]. simpl in *.
      split; [exact G|]. split; [congruence|]. split; [exact W|]. split; [exact D|].
      split; [|split; [intros; lia|intros _ _ X; discriminate X]].
      intros _ _. subst evs. rewrite wu_of_app, wu_of_wu. simpl. lia.
  - destruct (0 <? L) eqn:EL.
    + destruct (flow_available (s_inflow st) (c_inflow c) <? L) eqn:EA.
      * intros H. destruct (do_reset_good _ _ _ _ _ _ HG Hb H) as [G [B [I [W [D Ev]]]]].
        unfold flow_available in EA.
        split; [exact G|]. split; [exact B|]. split; [exact W|]. split; [exact D|].
        split; [intros; lia|]. split; intros; exact Ev.
      * rewrite (flow_take_stream_guarded _ _ _ EA). unfold flow_available in EA.
        destruct ((0 <? dlen) && (negb (s_perr st =? 0) || s_rel st)) eqn:EW.
        { rewrite send_wu_some by (unfold max_i31, init_window in *; lia).
          unfold upd, set_streams, set_cinflow. simpl.
          intros H. apply (reset_after_upd c st (set_sinflow st (s_inflow st - L))) in H; side.
          destruct H as [G [B [I [W [D Ev]]]]]. simpl in *.
          split; [exact G|]. split; [congruence|]. split; [exact W|]. split; [exact D|].
          split; [|split; intros; lia].
          intros _ _. subst evs. rewrite wu_of_app, wu_of_wu. simpl. lia. }
        destruct ((0 <? dlen) && (c_isw c <? s_buf st + dlen)) eqn:EF.
        { apply andb_true_iff in EF. destruct EF as [EF1 EF2]. lia. }
        set (st2 := if 0 <? dlen then add_body (set_sinflow st (s_inflow st - L)) dlen else set_sinflow st (s_inflow st - L)).
        assert (Hst2 : s_inflow st2 = s_inflow st - L /\ s_buf st2 = s_buf st + dlen /\ s_id st2 = s_id st /\
                       s_state st2 = 1 /\ s_body st2 = true).
        { unfold st2. destruct (0 <? dlen) eqn:E0; simpl; repeat split; try assumption; lia. }
        destruct Hst2 as [A1 [A2 [A3 [A4 A5]]]].
        simpl c_inflow. rewrite A1.
        rewrite !send_wu_some by (unfold max_i31, init_window in *; lia).
        unfold finish_data. destruct es.
        { unfold end_stream. simpl s_body. rewrite A5. simpl negb. cbv iota.
          unfold upd, set_streams, set_cinflow. simpl.
          intros H. inversion H; subst c' evs; clear H. simpl.
          split.
          { apply (good_set c st); [exact HG | simpl; rewrite A3; exact Hfind | | lia | simpl; lia | simpl; intros; split; [assumption|lia]].
            unfold st_ok; simpl. split; [right; left; reflexivity|]. split; [intros; discriminate|].
            rewrite A2; try rewrite A5. repeat split; try lia. }
          split; [exact Hb|]. split; [reflexivity|]. split; [reflexivity|].
          split; [|split; intros; lia].
          intros _ _. rewrite wu_of_app, wu_of_wu, wu_of_wu_other by assumption. lia. }
        { unfold upd, set_streams, set_cinflow. simpl.
          intros H. inversion H; subst c' evs; clear H. simpl.
          split.
          { apply (good_set c st); [exact HG | simpl; rewrite A3; exact Hfind | | lia | simpl; lia | simpl; intros; split; [assumption|lia]].
            unfold st_ok; simpl. split; [left; exact A4|]. rewrite A2; try rewrite A5.
            split; [intros; split; [reflexivity|lia]|]. repeat split; try lia. }
          split; [exact Hb|]. split; [reflexivity|]. split; [reflexivity|].
          split; [|split; intros; lia].
          intros _ _. rewrite wu_of_app, wu_of_wu, wu_of_wu_other by assumption. lia. }
    + assert (L = 0) by lia. assert (dlen = 0) by lia. subst L.
      unfold finish_data. destruct es.
      * unfold end_stream. rewrite Hbody. simpl negb. cbv iota.
        unfold upd, set_streams. simpl.
        intros H. inversion H; subst c' evs; clear H. simpl.
        split.
        { apply (good_set c st); [exact HG | simpl; exact Hfind | | lia | simpl; lia | simpl; intros; split; [assumption|lia]].
          unfold st_ok; simpl. split; [right; left; reflexivity|]. split; [intros; discriminate|].
          try rewrite Hbody. repeat split; try lia; try (intros; discriminate). }
        split; [exact Hb|]. split; [reflexivity|]. split; [reflexivity|].
        split; [intros; unfold wu_of; simpl; lia|split; intros; lia].
      * unfold upd, set_streams. simpl.
        intros H. inversion H; subst c' evs; clear H. simpl.
        split.
        { apply (good_set c st); [exact HG | exact Hfind | | lia | lia | intros; split; [assumption|lia]].
          exact (Good_st _ _ _ HG Hfind). }
        split; [exact Hb|]. split; [reflexivity|]. split; [reflexivity|].
        split; [intros; unfold wu_of; simpl; lia|split; intros; lia].
Qed.

(* ---------- one serve-loop step ---------- *)
(* octets a client frame takes out of the connection window as the client sees it *)
Definition debit (o : op) : Z :=
  match o with OData id dlen pad _ => if id =? 0 then 0 else frame_len dlen pad | _ => 0 end.
(* the client respects the windows it was given (as the server keeps them) *)
Definition within (c : conn) (o : op) : Prop :=
  match o with
  | OData id dlen pad _ =>
    frame_len dlen pad <= c_inflow c /\
    (forall st, find_live id (c_streams c) = Some st -> s_state st = 1 -> s_trailer st = false ->
                frame_len dlen pad <= s_inflow st)
  | _ => True
  end.
Definition Post (c : conn) (o : op) (c' : conn) (evs : list evt) : Prop :=
  c_bug c' = false /\
  (c_dead c' = false ->
   Good c' /\ c_isw c' = c_isw c /\ (within c o -> c_inflow c' = c_inflow c - debit o + wu_of evs 0)).

Lemma post_dead c o c' evs : c_bug c' = false -> c_dead c' = true -> Post c o c' evs.
Proof. intros H1 H2. split; [exact H1|]. rewrite H2. discriminate. Qed.

Lemma frame_len_ge dlen pad : -1 <= pad -> dlen <= frame_len dlen pad.
Proof. intros H. unfold frame_len. destruct (pad <? 0); lia. Qed.

Lemma good_cons c st mx cur d b :
  Good c -> st_ok (c_isw c) st -> s_buf st = 0 ->
  Good (mkC mx (st :: c_streams c) cur (c_adv c) (c_inflow c) (c_isw c) d b (c_p3 c)).
Proof.
  intros [HF [H0 [Hl [He Hi]]]] Hok Hb. unfold Good; simpl. rewrite Hb.
  split; [constructor; assumption|]. split; [exact H0|]. split; [lia|]. split; [|exact Hi].
  intros Hp. specialize (He Hp). lia.
Qed.

Lemma step_data_post c id dlen pad es c' evs :
  Good c -> c_bug c = false -> wf_op (OData id dlen pad es) = true ->
  step_data c id dlen pad es = (c', evs) -> Post c (OData id dlen pad es) c' evs.
Proof.
  intros HG Hb Hwf. simpl in Hwf.
  repeat (apply andb_true_iff in Hwf; destruct Hwf as [Hwf ?]).
  assert (Hge : dlen <= frame_len dlen pad) by (apply frame_len_ge; lia).
  unfold step_data. destruct (id =? 0) eqn:E0.
  - intros HS. inversion HS; subst. apply post_dead; [exact Hb|reflexivity].
  - destruct (find_live id (c_streams c)) as [st|] eqn:Ef.
    + pose proof (find_live_some _ _ _ Ef) as [Ef' Hn3].
      pose proof (find_some _ _ _ Ef') as [_ Hid].
      destruct ((s_state st =? 1) && negb (s_trailer st)) eqn:Eo.
      * apply andb_true_iff in Eo. destruct Eo as [Eo1 Eo2].
        intros HS. rewrite <- Hid in Ef'.
        destruct (data_open_post c st dlen (frame_len dlen pad) es c' evs HG Hb Ef') as [G [B [W [D [V _]]]]]; try lia; try assumption.
        split; [exact B|]. intros _. split; [exact G|]. split; [exact W|].
        intros [W1 W2]. simpl. rewrite E0. apply V; [exact W1|].
        apply W2; [exact Ef|lia|]. destruct (s_trailer st); [discriminate|reflexivity].
      * intros HS.
        destruct (data_closed_post c id (frame_len dlen pad) c' evs HG Hb) as [G [B [W [D [V _]]]]]; try lia; try assumption.
        split; [exact B|]. intros _. split; [exact G|]. split; [exact W|].
        intros [W1 _]. simpl. rewrite E0. apply V. exact W1.
    + intros HS.
      destruct (data_closed_post c id (frame_len dlen pad) c' evs HG Hb) as [G [B [W [D [V _]]]]]; try lia; try assumption.
      split; [exact B|]. intros _. split; [exact G|]. split; [exact W|].
      intros [W1 _]. simpl. rewrite E0. apply V. exact W1.
Qed.

Lemma step_rst_post c id code c' evs :
  Good c -> c_bug c = false -> step_rst c id = (c', evs) -> Post c (ORst id code) c' evs.
Proof.
  intros HG Hb. unfold step_rst. destruct (id =? 0).
  - intros H. inversion H; subst. apply post_dead; [exact Hb|reflexivity].
  - destruct (find_live id (c_streams c)) as [st|] eqn:Ef.
    + pose proof (find_live_some _ _ _ Ef) as [Ef' Hn3].
      pose proof (find_some _ _ _ Ef') as [_ Hid]. rewrite <- Hid in Ef'.
      destruct (close_stream c st) as [cc|] eqn:Ec.
      * destruct (close_good _ _ _ HG Ef' Ec) as [G [A [B [C [D _]]]]].
        intros H. inversion H; subst. split; [congruence|]. intros _.
        split; [exact G|]. split; [exact B|]. intros _. simpl. unfold wu_of; simpl. lia.
      * unfold close_stream in Ec. destruct (s_state st =? 3) eqn:E3; [lia|discriminate].
    + destruct (c_max c <? id).
      * intros H. inversion H; subst. apply post_dead; [exact Hb|reflexivity].
      * intros H. inversion H; subst. split; [exact Hb|]. intros _.
        split; [exact HG|]. split; [reflexivity|]. intros _. simpl. unfold wu_of; simpl. lia.
Qed.

Lemma post_same c o : Good c -> c_bug c = false -> debit o = 0 -> forall evs, wu_of evs 0 = 0 -> Post c o c evs.
Proof.
  intros HG Hb Hd evs Hw. split; [exact Hb|]. intros _. split; [exact HG|]. split; [reflexivity|].
  intros _. rewrite Hd, Hw. lia.
Qed.

Lemma step_closebody_post c id c' evs :
  Good c -> c_bug c = false -> step_closebody c id = (c', evs) -> Post c (OCloseBody id) c' evs.
Proof.
  intros HG Hb. unfold step_closebody.
  destruct (find_stream id (c_streams c)) as [st|] eqn:Ef.
  - destruct (negb (s_run st)).
    + intros H. inversion H; subst. apply post_same; auto.
    + destruct (s_body st) eqn:Eb.
      * intros H. inversion H; subst; clear H.
        pose proof (find_some _ _ _ Ef) as [_ Hid]. rewrite <- Hid in Ef.
        pose proof (Good_st _ _ _ HG Ef) as Hok.
        split; [exact Hb|]. intros _. split.
        { unfold upd, set_streams.
          apply (good_set c st); [exact HG | exact Ef | exact Hok | | simpl; lia | simpl; intros; split; [assumption|lia]].
          destruct HG as [_ [H0 _]]; exact H0. }
        split; [reflexivity|]. intros _. simpl. unfold wu_of; simpl. lia.
      * intros H. inversion H; subst. apply post_same; auto.
  - intros H. inversion H; subst. apply post_same; auto.
Qed.

Lemma step_read_post c id k c' evs :
  Good c -> c_bug c = false -> 1 <= k -> step_read c id k = (c', evs) -> Post c (ORead id k) c' evs.
Proof.
  intros HG Hb Hk. unfold step_read.
  destruct (find_stream id (c_streams c)) as [st|] eqn:Ef.
  2:{ intros H. inversion H; subst. apply post_same; auto. }
  destruct (negb (s_run st)).
  { intros H. inversion H; subst. apply post_same; auto. }
  destruct (negb (s_body st)).
  { intros H. inversion H; subst. apply post_same; auto. }
  destruct (negb (s_rel st) && (0 <? s_buf st)) eqn:Er.
  2:{ intros H. inversion H; subst. apply post_same; auto. }
  apply andb_true_iff in Er. destruct Er as [_ Er].
  pose proof (find_some _ _ _ Ef) as [_ Hid]. rewrite <- Hid in Ef.
  pose proof (Good_st _ _ _ HG Ef) as [Hs [H1 [Hbuf [Hle [Hnb Hid0]]]]].
  pose proof (Good_inflow_le _ HG) as Hi.
  assert (Hisw : 0 < c_isw c <= 1000000) by (destruct HG as [_ [_ [_ [_ X]]]]; exact X).
  set (n := Z.min k (s_buf st)). assert (Hn : 0 < n <= s_buf st) by (unfold n; lia).
  assert (Hsum : c_inflow c + s_buf st <= init_window).
  { destruct HG as [HF [_ [Hl _]]]. pose proof (buf_le_sum _ _ _ HF (proj1 (find_some _ _ _ Ef))). lia. }
  rewrite send_wu_some by (unfold max_i31, init_window in *; lia).
  destruct (s_state st =? 1) eqn:E1.
  - destruct (H1 ltac:(lia)) as [Hbody Heq].
    rewrite send_wu_some by (unfold max_i31 in *; lia).
    unfold upd, set_streams, set_cinflow. simpl.
    intros H. inversion H; subst c' evs; clear H.
    split; [exact Hb|]. intros _. split.
    { apply (good_set c st); [exact HG | exact Ef | | lia | simpl; lia | simpl; intros; split; [assumption|lia]].
      unfold st_ok; simpl. split; [exact Hs|]. split; [intros; split; [assumption|lia]|].
      repeat split; try lia. intros X. specialize (Hnb X). lia. }
    split; [reflexivity|]. intros _. simpl.
    rewrite wu_of_app, wu_of_wu, wu_of_app, wu_of_wu_other by lia. unfold wu_of at 1; simpl. lia.
  - unfold upd, set_streams, set_cinflow. simpl.
    intros H. inversion H; subst c' evs; clear H.
    split; [exact Hb|]. intros _. split.
    { apply (good_set c st); [exact HG | exact Ef | | lia | simpl; lia | simpl; intros; split; [assumption|lia]].
      unfold st_ok; simpl. split; [exact Hs|]. split; [intros; lia|].
      repeat split; try lia. intros X. specialize (Hnb X). lia. }
    split; [reflexivity|]. intros _. simpl.
    rewrite wu_of_app, wu_of_wu. unfold wu_of; simpl. lia.
Qed.

Lemma step_finish_post c id c' evs :
  Good c -> c_bug c = false -> step_finish c id = (c', evs) -> Post c (OFinish id) c' evs.
Proof.
  intros HG Hb. unfold step_finish.
  destruct (find_stream id (c_streams c)) as [st|] eqn:Ef.
  2:{ intros H. inversion H; subst. apply post_same; auto. }
  destruct (negb (s_run st)).
  { intros H. inversion H; subst. apply post_same; auto. }
  pose proof (find_some _ _ _ Ef) as [_ Hid]. rewrite <- Hid in Ef.
  pose proof (Good_st _ _ _ HG Ef) as Hok.
  assert (H0 : 0 <= c_inflow c) by (destruct HG as [_ [H0 _]]; exact H0).
  assert (HG1 : Good (upd c (set_run st false))).
  { unfold upd, set_streams.
    apply (good_set c st); [exact HG | exact Ef | exact Hok | exact H0 | simpl; lia | simpl; intros; split; [assumption|lia]]. }
  destruct (s_state st =? 3) eqn:E3.
  - intros H. inversion H; subst c' evs; clear H. split; [exact Hb|]. intros _.
    split; [exact HG1|]. split; [reflexivity|]. intros _. simpl. unfold wu_of; simpl. lia.
  - destruct (close_stream (upd c (set_run st false)) (set_run st false)) as [cc|] eqn:Ec.
    + assert (Ef1 : find_stream (s_id (set_run st false)) (c_streams (upd c (set_run st false))) = Some (set_run st false)).
      { simpl. apply (find_upd _ _ st); [exact Ef|reflexivity]. }
      destruct (close_good _ _ _ HG1 Ef1 Ec) as [G [A [B [C [D _]]]]].
      intros H. inversion H; subst c' evs; clear H. split; [simpl in C; congruence|]. intros _.
      split; [exact G|]. split; [exact B|]. intros _. simpl in A. rewrite A. simpl.
      destruct (s_state st =? 1); unfold wu_of; simpl; lia.
    + unfold close_stream in Ec. simpl in Ec. rewrite E3 in Ec. discriminate.
Qed.

Lemma step_headers_post c id es kind clen c' evs :
  Good c -> c_bug c = false -> step_headers c id es kind clen = (c', evs) -> Post c (OHeaders id es kind clen) c' evs.
Proof.
  intros HG Hb. unfold step_headers.
  assert (H0 : 0 <= c_inflow c) by (destruct HG as [_ [H0 _]]; exact H0).
  assert (Hisw : 0 < c_isw c <= 1000000) by (destruct HG as [_ [_ [_ [_ X]]]]; exact X).
  destruct (id =? 0).
  { intros H. inversion H; subst. apply post_dead; [exact Hb|reflexivity]. }
  destruct (kind =? 7).
  { intros H. destruct (do_reset_good _ _ _ _ _ _ HG Hb H) as [G [B [I [W [D Ev]]]]].
    split; [exact B|]. intros _. split; [exact G|]. split; [exact W|]. intros _.
    subst evs. simpl. unfold wu_of; simpl. lia. }
  destruct (negb (id mod 2 =? 1)) eqn:Eodd.
  { intros H. inversion H; subst. apply post_dead; [exact Hb|reflexivity]. }
  assert (Hid0 : id <> 0).
  { intros ->. simpl in Eodd. discriminate. }
  destruct (find_live id (c_streams c)) as [st|] eqn:Ef.
  - pose proof (find_live_some _ _ _ Ef) as [Ef' Hn3].
    pose proof (find_some _ _ _ Ef') as [_ Hid]. rewrite <- Hid in Ef'.
    pose proof (Good_st _ _ _ HG Ef') as [Hs [H1 [Hbuf [Hle [Hnb Hsid]]]]].
    destruct (s_state st =? 2) eqn:E2.
    { intros H. destruct (do_reset_good _ _ _ _ _ _ HG Hb H) as [G [B [I [W [D Ev]]]]].
      split; [exact B|]. intros _. split; [exact G|]. split; [exact W|]. intros _.
      subst evs. simpl. unfold wu_of; simpl. lia. }
    destruct (s_trailer st).
    { intros H. inversion H; subst. apply post_dead; [exact Hb|reflexivity]. }
    assert (Hst1 : s_state st = 1) by lia. destruct (H1 Hst1) as [Hbody Heq].
    assert (Hreset : forall code, do_reset (upd c (set_trailer st)) id code [] = (c', evs) -> Post c (OHeaders id es kind clen) c' evs).
    { intros code H. unfold upd, set_streams in H. rewrite <- Hid in H.
      apply (reset_after_upd c st (set_trailer st)) in H; side.
      destruct H as [G [B [I [W [D Ev]]]]].
      split; [congruence|]. intros _. split; [exact G|]. split; [exact W|]. intros _.
      subst evs. simpl. rewrite I. unfold wu_of; simpl. lia. }
    destruct (negb es); [apply Hreset|].
    destruct (negb (kind =? 1)); [apply Hreset|].
    unfold end_stream. simpl s_body. rewrite Hbody. simpl negb. cbv iota.
    unfold upd, set_streams. simpl.
    intros H. inversion H; subst c' evs; clear H.
    split; [exact Hb|]. intros _. split.
    { apply (good_set c st); [exact HG | exact Ef' | | lia | simpl; lia | simpl; intros; split; [assumption|lia]].
      unfold st_ok; simpl. split; [right; left; reflexivity|]. split; [intros; discriminate|].
      repeat split; try lia; try (intros X; rewrite Hbody in X; discriminate). }
    split; [reflexivity|]. intros _. simpl. unfold wu_of; simpl. lia.
  - destruct (id <=? c_max c).
    { intros H. inversion H; subst. apply post_dead; [exact Hb|reflexivity]. }
    match goal with |- context [closeconn ?x] => set (c1 := x) end.
    destruct (c_adv c <? c_cur c1).
    { intros H. inversion H; subst. apply post_dead; [exact Hb|reflexivity]. }
    destruct (malformed kind es).
    + unfold do_reset, find_live, close_stream, c1.
      destruct es; cbn; rewrite ?Z.eqb_refl; cbn; rewrite ?Z.eqb_refl; cbn;
        (intros H; inversion H; subst c' evs; clear H;
         split; [exact Hb|]; intros _; split;
         [ rewrite ?orb_false_r; apply (good_cons c); [exact HG| |reflexivity];
           unfold st_ok; simpl; split; [right; right; reflexivity|]; split; [intros; discriminate|];
           repeat split; try lia
         | split; [reflexivity|]; intros _; simpl; unfold wu_of; simpl; lia ]).
    + unfold upd, set_streams, c1. simpl. rewrite Z.eqb_refl.
      intros H. inversion H; subst c' evs; clear H.
      split; [exact Hb|]. intros _. split.
      { apply (good_cons c); [exact HG| |reflexivity].
        unfold st_ok; simpl. destruct es; simpl.
        - split; [right; left; reflexivity|]. split; [intros; discriminate|]. repeat split; try lia.
        - split; [left; reflexivity|]. split; [intros; split; [reflexivity|lia]|]. repeat split; try lia; try (intros; discriminate). }
      split; [reflexivity|]. intros _. simpl. unfold wu_of; simpl. lia.
Qed.


(* ---------- handler return racing with a client frame (startFrameWrite / client frame / wroteFrame) ---------- *)
Lemma race_inner_good c1 id ik c2 :
  Good c1 -> race_inner c1 id ik = Some c2 ->
  Good c2 /\ c_inflow c2 = c_inflow c1 /\ c_isw c2 = c_isw c1 /\ c_bug c2 = c_bug c1 /\ c_dead c2 = c_dead c1 /\
  (forall s, find_stream id (c_streams c1) = Some s -> exists s2, find_stream id (c_streams c2) = Some s2).
Proof.
  intros HG. unfold race_inner. destruct (ik =? 3).
  2:{ intros H. inversion H; subst. split; [exact HG|]. split; [reflexivity|]. split; [reflexivity|]. split; [reflexivity|]. split; [reflexivity|]. intros s0 Hs0. exists s0. exact Hs0. }
  destruct (find_live id (c_streams c1)) as [s|] eqn:Ef.
  2:{ intros H. inversion H; subst. split; [exact HG|]. split; [reflexivity|]. split; [reflexivity|]. split; [reflexivity|]. split; [reflexivity|]. intros s0 Hs0. exists s0. exact Hs0. }
  apply find_live_some in Ef. destruct Ef as [Ef _].
  pose proof (find_some _ _ _ Ef) as [_ Hid]. rewrite <- Hid in Ef.
  intros Hc. destruct (close_good _ _ _ HG Ef Hc) as [G [A [B [C [D _]]]]].
  split; [exact G|]. split; [exact A|]. split; [exact B|]. split; [exact C|]. split; [exact D|].
  intros s0 Hs0. unfold close_stream in Hc. destruct (s_state s =? 3); [discriminate|].
  inversion Hc; subst. simpl. eexists. apply (find_upd _ _ s0); [exact Hs0|reflexivity].
Qed.

Lemma race_inner_some c1 id ik : exists c2, race_inner c1 id ik = Some c2.
Proof.
  unfold race_inner. destruct (ik =? 3); [|eexists; reflexivity].
  destruct (find_live id (c_streams c1)) as [s|] eqn:Ef; [|eexists; reflexivity].
  apply find_live_some in Ef. destruct Ef as [_ Hn]. unfold close_stream.
  destruct (s_state s =? 3) eqn:E; [lia|eexists; reflexivity].
Qed.

Lemma step_race_post c id ik a b c' evs :
  Good c -> c_bug c = false -> step_race c id ik = (c', evs) -> Post c (ORace id ik a b) c' evs.
Proof.
  intros HG Hb. unfold step_race.
  destruct (find_stream id (c_streams c)) as [st|] eqn:Ef.
  2:{ intros H. inversion H; subst. apply post_same; auto. }
  destruct (negb (s_run st)).
  { intros H. inversion H; subst. apply post_same; auto. }
  pose proof (find_some _ _ _ Ef) as [_ Hid]. rewrite <- Hid in Ef.
  pose proof (Good_st _ _ _ HG Ef) as Hok.
  assert (H0 : 0 <= c_inflow c) by (destruct HG as [_ [H0 _]]; exact H0).
  assert (HG1 : Good (upd c (set_run st false))).
  { unfold upd, set_streams.
    apply (good_set c st); [exact HG | exact Ef | exact Hok | exact H0 | simpl; lia | simpl; intros; split; [assumption|lia]]. }
  assert (Ef1 : find_stream id (c_streams (upd c (set_run st false))) = Some (set_run st false)).
  { simpl. apply (find_upd _ _ st); [rewrite <- Hid; exact Ef|simpl; exact Hid]. }
  destruct (race_inner_some (upd c (set_run st false)) id ik) as [c2 E2]. rewrite E2.
  destruct (race_inner_good _ _ _ _ HG1 E2) as [G2 [I2 [W2 [B2 [D2 F2]]]]].
  destruct (F2 _ Ef1) as [st2 Ef2]. simpl in I2, W2, B2, D2.
  assert (Hfin : forall cc e, Good cc -> c_inflow cc = c_inflow c -> c_isw cc = c_isw c -> c_bug cc = false ->
                 wu_of e 0 = 0 -> Post c (ORace id ik a b) cc e).
  { intros cc e G I W B Hw. split; [exact B|]. intros _. split; [exact G|]. split; [exact W|].
    intros _. simpl. rewrite I, Hw. lia. }
  destruct (s_state st =? 3).
  { intros H. inversion H; subst. apply Hfin; try assumption; try congruence. reflexivity. }
  rewrite Ef2. destruct (s_state st2 =? 3) eqn:E3.
  { intros H. inversion H; subst. apply Hfin; try assumption; try congruence. reflexivity. }
  pose proof (find_some _ _ _ Ef2) as [_ Hid2]. rewrite <- Hid2 in Ef2.
  destruct (close_stream c2 st2) as [c3|] eqn:Ec.
  2:{ unfold close_stream in Ec. rewrite E3 in Ec. discriminate. }
  destruct (close_good _ _ _ G2 Ef2 Ec) as [G3 [I3 [W3 [B3 [D3 _]]]]].
  intros H. inversion H; subst. apply Hfin; try assumption; try congruence.
  destruct (s_state st2 =? 1); reflexivity.
Qed.

Theorem step_post c o c' evs :
  Good c -> c_bug c = false -> wf_op o = true -> step c o = (c', evs) -> Post c o c' evs.
Proof.
  intros HG Hb Hwf. destruct o; simpl.
  - apply step_headers_post; assumption.
  - apply step_data_post; assumption.
  - apply step_rst_post; assumption.
  - intros H. inversion H; subst. apply post_same; auto.
  - intros H. inversion H; subst. apply post_same; auto.
  - apply step_read_post; try assumption. simpl in Hwf.
    repeat (apply andb_true_iff in Hwf; destruct Hwf as [Hwf ?]). lia.
  - apply step_closebody_post; assumption.
  - apply step_finish_post; assumption.
  - intros H. inversion H; subst. apply post_dead; [exact Hb|reflexivity].
  - apply step_race_post; assumption.
Qed.

(* ---------- whole scripts ---------- *)
Lemma init_good isw maxs : wf_cfg isw maxs = true -> Good (init_conn isw maxs).
Proof.
  unfold wf_cfg. intros H. repeat (apply andb_true_iff in H; destruct H as [H ?]).
  unfold Good, init_conn; simpl. split; [constructor|].
  unfold init_window. destruct (isw =? 0) eqn:E; repeat split; try lia.
Qed.

Lemma run_dead ops : forall c c' out, c_dead c = true -> run_ops c ops = (c', out) -> c' = c.
Proof.
  induction ops as [|o r IH]; simpl; intros c c' out Hd.
  - intros H. inversion H. reflexivity.
  - rewrite Hd. destruct (run_ops c r) as [c2 out2] eqn:E. intros H. inversion H; subst.
    apply (IH _ _ _ Hd E).
Qed.

Lemma run_ops_inv ops : forall c c' out,
  forallb wf_op ops = true -> c_bug c = false -> (c_dead c = false -> Good c) ->
  run_ops c ops = (c', out) -> c_bug c' = false /\ (c_dead c' = false -> Good c').
Proof.
  induction ops as [|o r IH]; simpl; intros c c' out Hwf Hb HG.
  - intros H. inversion H; subst. split; assumption.
  - apply andb_true_iff in Hwf. destruct Hwf as [Hwo Hwr].
    destruct (c_dead c) eqn:Ed.
    + destruct (run_ops c r) as [c2 out2] eqn:E. intros H. inversion H; subst.
      pose proof (run_dead _ _ _ _ Ed E). subst c'.
      split; [exact Hb|]. rewrite Ed. discriminate.
    + destruct (step c o) as [c1 evs] eqn:Es.
      destruct (run_ops c1 r) as [c2 out2] eqn:E. intros H. inversion H; subst.
      destruct (step_post _ _ _ _ (HG eq_refl) Hb Hwo Es) as [B P].
      apply (IH _ _ _ Hwr B (fun d => proj1 (P d)) E).
Qed.

(* C35: no panic site is reachable *)
Theorem no_bug_reachable isw maxs ops :
  wf_cfg isw maxs = true -> forallb wf_op ops = true ->
  c_bug (fst (run_ops (init_conn isw maxs) ops)) = false.
Proof.
  intros Hc Hw. destruct (run_ops (init_conn isw maxs) ops) as [c' out] eqn:E. simpl.
  apply (run_ops_inv ops (init_conn isw maxs) c' out Hw eq_refl (fun _ => init_good _ _ Hc) E).
Qed.

(* the same through the wire functions: the model never reports a serve-loop panic *)
Theorem run_script_no_panic i c out isw maxs ops :
  dec_script i = Some (isw, maxs, ops) -> run_ops (init_conn isw maxs) ops = (c, out) ->
  run_script i = enc_out c out /\ c_bug c = false.
Proof.
  intros Hd Hr. unfold run_script. rewrite Hd, Hr. split; [reflexivity|].
  unfold dec_script in Hd.
  destruct i as [| |l]; try discriminate. destruct l as [|cfg [|[| |steps] [|]]]; try discriminate.
  destruct (as_LZ cfg) as [[|a [|b [|]]]|]; try discriminate.
  destruct (all_some (map dec_op steps)) as [ops'|]; try discriminate.
  destruct (wf_cfg a b && forallb wf_op ops') eqn:W; try discriminate.
  inversion Hd; subst. apply andb_true_iff in W. destruct W as [W1 W2].
  pose proof (no_bug_reachable _ _ _ W1 W2) as H. rewrite Hr in H. exact H.
Qed.

(* C33: reachable live states are balanced *)
Definition reach (c : conn) : Prop :=
  exists isw maxs ops, wf_cfg isw maxs = true /\ forallb wf_op ops = true /\
                       c = fst (run_ops (init_conn isw maxs) ops).

Lemma reach_good c : reach c -> c_dead c = false -> Good c /\ c_bug c = false.
Proof.
  intros [isw [maxs [ops [Hc [Hw ->]]]]] Hd.
  destruct (run_ops (init_conn isw maxs) ops) as [c' out] eqn:E. simpl in *.
  destruct (run_ops_inv ops (init_conn isw maxs) c' out Hw eq_refl (fun _ => init_good _ _ Hc) E) as [B G].
  split; [apply G; exact Hd|exact B].
Qed.

Theorem conservation c :
  reach c -> c_dead c = false ->
  c_inflow c + sumbuf (c_streams c) <= init_window /\
  (c_p3 c = false -> c_inflow c + sumbuf (c_streams c) = init_window) /\
  (forall st, In st (c_streams c) -> s_state st = 1 -> s_inflow st + s_buf st = c_isw c) /\
  (forall st, In st (c_streams c) -> 0 <= s_buf st /\ s_inflow st + s_buf st <= c_isw c).
Proof.
  intros Hr Hd. destruct (reach_good _ Hr Hd) as [[HF [H0 [Hl [He Hi]]]] _].
  split; [exact Hl|]. split; [exact He|]. rewrite Forall_forall in HF. split.
  - intros st Hin Hs. destruct (HF st Hin) as [_ [H1 _]]. apply H1. exact Hs.
  - intros st Hin. destruct (HF st Hin) as [_ [_ [Hb [Hle _]]]]. split; assumption.
Qed.

(* without the guard the equation is false: RST_STREAM while 60 octets are unread (default window) *)
Theorem conservation_refuted :
  exists c, reach c /\ c_dead c = false /\ c_inflow c + sumbuf (c_streams c) < init_window.
Proof.
  exists (fst (run_ops (init_conn 0 0) [OHeaders 1 false 0 (-1); OData 1 60 (-1) false; ORst 1 8])).
  split; [exists 0, 0, [OHeaders 1 false 0 (-1); OData 1 60 (-1) false; ORst 1 8]; repeat split; reflexivity|].
  split; vm_compute; reflexivity.
Qed.

(* the client's book-keeping of the connection window along a run *)
Fixpoint view_run (a : Z) (ops : list op) (out : list (list evt)) {struct ops} : Z :=
  match ops, out with
  | o :: r, e :: r' => view_run (a - debit o + wu_of e 0) r r'
  | _, _ => a
  end.
Fixpoint respects (c : conn) (ops : list op) {struct ops} : Prop :=
  match ops with
  | [] => True
  | o :: r => c_dead c = false -> within c o /\ respects (fst (step c o)) r
  end.

Theorem client_view_exact ops : forall c c' out,
  Good c -> c_bug c = false -> c_dead c = false -> forallb wf_op ops = true -> respects c ops ->
  run_ops c ops = (c', out) -> c_dead c' = false ->
  c_inflow c' = view_run (c_inflow c) ops out.
Proof.
  induction ops as [|o r IH]; simpl; intros c c' out HG Hb Hd Hwf Hre.
  - intros H _. inversion H; subst. reflexivity.
  - apply andb_true_iff in Hwf. destruct Hwf as [Hwo Hwr]. rewrite Hd.
    destruct (Hre Hd) as [Hw Hre'].
    destruct (step c o) as [c1 evs] eqn:Es. simpl in Hre'.
    destruct (run_ops c1 r) as [c2 out2] eqn:E. intros H Hd'. inversion H; subst.
    destruct (step_post _ _ _ _ HG Hb Hwo Es) as [B P].
    destruct (c_dead c1) eqn:Ed1.
    + pose proof (run_dead _ _ _ _ Ed1 E). subst c'. congruence.
    + destruct (P eq_refl) as [G [_ V]]. rewrite <- (V Hw).
      apply (IH _ _ _ G B Ed1 Hwr Hre' E Hd').
Qed.

(* C33: a DATA frame beyond the connection window is answered with FLOW_CONTROL_ERROR on its stream;
   beyond the stream window likewise (unless it also overruns the declared content-length) *)
Theorem excess_conn_is_flow_error c id dlen pad es c' evs :
  Good c -> c_bug c = false -> wf_op (OData id dlen pad es) = true -> id <> 0 ->
  c_inflow c < frame_len dlen pad ->
  step_data c id dlen pad es = (c', evs) -> evs = [(2, id, 3)] /\ c_inflow c' = c_inflow c.
Proof.
  intros HG Hb Hwf Hid Hex. simpl in Hwf.
  repeat (apply andb_true_iff in Hwf; destruct Hwf as [Hwf ?]).
  assert (Hge : dlen <= frame_len dlen pad) by (apply frame_len_ge; lia).
  unfold step_data. destruct (id =? 0) eqn:E0; [lia|].
  assert (Hc : forall c' evs, data_closed c id (frame_len dlen pad) = (c', evs) -> evs = [(2, id, 3)] /\ c_inflow c' = c_inflow c).
  { intros c2 e2 HS. unfold data_closed in HS.
    destruct (c_inflow c <? frame_len dlen pad) eqn:E; [|lia].
    destruct (do_reset_good _ _ _ _ _ _ HG Hb HS) as [_ [_ [I [_ [_ Ev]]]]]. split; assumption. }
  destruct (find_live id (c_streams c)) as [st|] eqn:Ef; [|apply Hc].
  destruct ((s_state st =? 1) && negb (s_trailer st)) eqn:Eo; [|apply Hc].
  apply andb_true_iff in Eo. destruct Eo as [Eo1 _].
  pose proof (find_live_some _ _ _ Ef) as [Ef' _].
  pose proof (find_some _ _ _ Ef') as [_ Hsid]. rewrite <- Hsid in Ef'.
  pose proof (Good_st _ _ _ HG Ef') as [_ [Hopen _]]. destruct (Hopen ltac:(lia)) as [Hbody _].
  intros HS. unfold data_open in HS. rewrite Hbody in HS. simpl in HS.
  assert (EL : (0 <? frame_len dlen pad) = true) by (pose proof (Good_inflow_le _ HG); lia).
  assert (EC : (c_inflow c <? frame_len dlen pad) = true) by lia.
  assert (EA : (flow_available (s_inflow st) (c_inflow c) <? frame_len dlen pad) = true) by (unfold flow_available; lia).
  rewrite EL, EC, EA in HS.
  destruct (negb (s_decl st =? -1) && (s_decl st <? s_bytes st + dlen));
    destruct (do_reset_good _ _ _ _ _ _ HG Hb HS) as [_ [_ [I [_ [_ Ev]]]]]; rewrite <- Hsid; split; assumption.
Qed.

Theorem excess_stream_is_flow_error c st dlen pad es c' evs :
  Good c -> c_bug c = false -> wf_op (OData (s_id st) dlen pad es) = true ->
  find_live (s_id st) (c_streams c) = Some st -> s_state st = 1 -> s_trailer st = false ->
  (negb (s_decl st =? -1) && (s_decl st <? s_bytes st + dlen)) = false ->
  s_inflow st < frame_len dlen pad -> 0 < frame_len dlen pad ->
  step_data c (s_id st) dlen pad es = (c', evs) -> evs = [(2, s_id st, 3)].
Proof.
  intros HG Hb Hwf Ef Hs Ht Hcl Hex HL. simpl in Hwf.
  repeat (apply andb_true_iff in Hwf; destruct Hwf as [Hwf ?]).
  assert (Hge : dlen <= frame_len dlen pad) by (apply frame_len_ge; lia).
  pose proof (find_live_some _ _ _ Ef) as [Ef' _].
  pose proof (Good_st _ _ _ HG Ef') as [_ [_ [_ [_ [_ Hid0]]]]].
  unfold step_data. destruct (s_id st =? 0) eqn:E0; [lia|]. rewrite Ef, Ht.
  replace (s_state st =? 1) with true by lia. simpl.
  intros HS.
  destruct (data_open_post c st dlen (frame_len dlen pad) es c' evs HG Hb Ef') as [_ [_ [_ [_ [_ [_ V]]]]]]; try lia; try assumption.
  apply V; assumption.
Qed.

(* ---------- C35 rules, as coded ---------- *)
Lemma rule_even_id c id es kind clen :
  (kind =? 7) = false -> (id mod 2 =? 1) = false -> step_headers c id es kind clen = goaway c 1.
Proof. intros K H. unfold step_headers. rewrite K, H. destruct (id =? 0); reflexivity. Qed.

Lemma odd_nonzero id : (id mod 2 =? 1) = true -> (id =? 0) = false.
Proof. intros H. destruct (id =? 0) eqn:E; [|reflexivity]. assert (id = 0) by lia. subst. discriminate. Qed.

Lemma rule_ids_increase c id es kind clen :
  (kind =? 7) = false -> (id mod 2 =? 1) = true -> find_live id (c_streams c) = None -> id <= c_max c ->
  step_headers c id es kind clen = goaway c 1.
Proof.
  intros K H Hf Hm. unfold step_headers. rewrite (odd_nonzero _ H), K, H, Hf. simpl.
  destruct (id <=? c_max c) eqn:E; [reflexivity|lia].
Qed.

Lemma rule_concurrency_limit c id es kind clen c' evs :
  (kind =? 7) = false -> (id mod 2 =? 1) = true -> find_live id (c_streams c) = None -> c_max c < id -> c_adv c <= c_cur c ->
  step_headers c id es kind clen = (c', evs) -> c_dead c' = true /\ evs = [(5, 0, 0)] /\ c_bug c' = c_bug c.
Proof.
  intros K H Hf Hm Ha. unfold step_headers. rewrite (odd_nonzero _ H), K, H, Hf. simpl.
  destruct (id <=? c_max c) eqn:E; [lia|].
  destruct (c_adv c <? c_cur c + 1) eqn:E2; [|lia].
  intros HS. inversion HS; subst. repeat split; reflexivity.
Qed.

Lemma rule_headers_on_half_closed c st es kind clen c' evs :
  Good c -> c_bug c = false -> (kind =? 7) = false -> (s_id st mod 2 =? 1) = true ->
  find_live (s_id st) (c_streams c) = Some st -> s_state st = 2 ->
  step_headers c (s_id st) es kind clen = (c', evs) -> evs = [(2, s_id st, 5)] /\ c_dead c' = c_dead c.
Proof.
  intros HG Hb K H Hf Hs. unfold step_headers. rewrite (odd_nonzero _ H), K, H, Hf. simpl.
  replace (s_state st =? 2) with true by lia.
  intros HS. destruct (do_reset_good _ _ _ _ _ _ HG Hb HS) as [_ [_ [_ [_ [D Ev]]]]]. split; assumption.
Qed.

Lemma rule_data_not_open c id dlen pad es c' evs :
  Good c -> c_bug c = false -> wf_op (OData id dlen pad es) = true -> id <> 0 ->
  (forall st, find_live id (c_streams c) = Some st -> (s_state st =? 1) && negb (s_trailer st) = false) ->
  step_data c id dlen pad es = (c', evs) ->
  (In (2, id, 5) evs \/ evs = [(2, id, 3)]) /\ c_dead c' = c_dead c.
Proof.
  intros HG Hb Hwf Hid Hno. simpl in Hwf.
  repeat (apply andb_true_iff in Hwf; destruct Hwf as [Hwf ?]).
  assert (Hge : dlen <= frame_len dlen pad) by (apply frame_len_ge; lia).
  unfold step_data. destruct (id =? 0) eqn:E0; [lia|].
  assert (Hc : forall c' evs, data_closed c id (frame_len dlen pad) = (c', evs) ->
               (In (2, id, 5) evs \/ evs = [(2, id, 3)]) /\ c_dead c' = c_dead c).
  { intros c2 e2 HS. pose proof (Good_inflow_le _ HG) as Hi. unfold data_closed in HS.
    destruct (c_inflow c <? frame_len dlen pad) eqn:E.
    - destruct (do_reset_good _ _ _ _ _ _ HG Hb HS) as [_ [_ [_ [_ [D Ev]]]]]. split; [right; exact Ev|exact D].
    - rewrite flow_take_conn_some in HS by lia.
      rewrite send_wu_some in HS by (unfold max_i31, init_window in *; lia).
      assert (HG' : Good (set_cinflow c (c_inflow c - frame_len dlen pad + frame_len dlen pad))).
      { apply (good_ext c); try reflexivity; [simpl; lia|exact HG]. }
      destruct (do_reset_good _ _ _ _ _ _ HG' Hb HS) as [_ [_ [_ [_ [D Ev]]]]].
      split; [left; subst e2; apply in_or_app; right; left; reflexivity|exact D]. }
  destruct (find_live id (c_streams c)) as [st|] eqn:Ef; [|apply Hc].
  rewrite (Hno st eq_refl). apply Hc.
Qed.

(* ---------- how a step can end: the connection continues, or GOAWAY, or close; never a panic event ---------- *)
Definition clean_end (evs : list evt) : Prop :=
  (exists last code, evs = [(4, last, code)]) \/ evs = [(5, 0, 0)].

Ltac crush := repeat match goal with
  | |- context [if ?b then _ else _] => destruct b
  | |- context [match ?x with _ => _ end] => destruct x
  end.

Lemma close_dead c st c' : close_stream c st = Some c' -> c_dead c' = c_dead c /\ c_bug c' = c_bug c.
Proof. unfold close_stream. destruct (s_state st =? 3); [discriminate|]. intros H; inversion H; subst; simpl; auto. Qed.

Lemma do_reset_dead c id code pre c' evs :
  do_reset c id code pre = (c', evs) -> c_bug c' = false -> c_dead c' = c_dead c.
Proof.
  unfold do_reset. destruct (find_live id (c_streams c)); [|intros H; inversion H; subst; auto].
  destruct (close_stream c s) eqn:E.
  - intros H; inversion H; subst. intros _. apply (close_dead _ _ _ E).
  - intros H; inversion H; subst. simpl. discriminate.
Qed.

Ltac leaf :=
  let H := fresh "H" in let Hb := fresh "Hb" in
  intros H Hb; first
  [ left; apply do_reset_dead in H; [simpl in H; exact H | exact Hb]
  | inversion H; subst; simpl in *;
    first [ discriminate | left; reflexivity | right; right; reflexivity | right; left; do 2 eexists; reflexivity ] ].

Definition ends_ok (c c' : conn) (evs : list evt) : Prop := c_dead c' = c_dead c \/ clean_end evs.

Lemma data_closed_end c id L c' evs :
  data_closed c id L = (c', evs) -> c_bug c' = false -> ends_ok c c' evs.
Proof. unfold data_closed, ends_ok, clean_end. crush; leaf. Qed.

Lemma data_open_end c st dlen L es c' evs :
  data_open c st dlen L es = (c', evs) -> c_bug c' = false -> ends_ok c c' evs.
Proof. unfold data_open, finish_data, ends_ok, clean_end. crush; leaf. Qed.

Lemma step_data_end c id dlen pad es c' evs :
  step_data c id dlen pad es = (c', evs) -> c_bug c' = false -> ends_ok c c' evs.
Proof.
  unfold step_data. destruct (id =? 0).
  - unfold ends_ok, clean_end. leaf.
  - destruct (find_live id (c_streams c)); [destruct (_ && _)|];
      first [apply data_open_end | apply data_closed_end].
Qed.

Lemma step_headers_end c id es kind clen c' evs :
  step_headers c id es kind clen = (c', evs) -> c_bug c' = false -> ends_ok c c' evs.
Proof. unfold step_headers, ends_ok, clean_end. crush; leaf. Qed.

Lemma step_rst_end c id c' evs :
  step_rst c id = (c', evs) -> c_bug c' = false -> ends_ok c c' evs.
Proof.
  unfold step_rst, ends_ok, clean_end. destruct (id =? 0); [leaf|].
  destruct (find_live id (c_streams c)).
  - destruct (close_stream c s) eqn:E; [|leaf].
    intros H _. inversion H; subst. left. apply (close_dead _ _ _ E).
  - destruct (c_max c <? id); leaf.
Qed.

Lemma step_read_end c id k c' evs :
  step_read c id k = (c', evs) -> c_bug c' = false -> ends_ok c c' evs.
Proof. unfold step_read, ends_ok, clean_end. crush; leaf. Qed.

Lemma step_closebody_end c id c' evs :
  step_closebody c id = (c', evs) -> c_bug c' = false -> ends_ok c c' evs.
Proof. unfold step_closebody, ends_ok, clean_end. crush; leaf. Qed.

Lemma step_finish_end c id c' evs :
  step_finish c id = (c', evs) -> c_bug c' = false -> ends_ok c c' evs.
Proof.
  unfold step_finish, ends_ok, clean_end.
  destruct (find_stream id (c_streams c)); [|leaf].
  destruct (negb (s_run s)); [leaf|]. destruct (s_state s =? 3); [leaf|].
  destruct (close_stream _ _) eqn:E; [|leaf].
  intros H _. inversion H; subst. left. destruct (close_dead _ _ _ E) as [D _]. exact D.
Qed.

Lemma step_race_dead c id ik c' evs :
  step_race c id ik = (c', evs) -> c_bug c' = false ->
  c_dead c' = c_dead c /\ (forall e, In e evs -> fst (fst e) = 2 \/ fst (fst e) = 3 \/ fst (fst e) = 6).
Proof.
  unfold step_race.
  destruct (find_stream id (c_streams c)) as [st|].
  2:{ intros H _. inversion H; subst. split; [reflexivity|]. intros e [<-|[]]. right; right; reflexivity. }
  destruct (negb (s_run st)).
  { intros H _. inversion H; subst. split; [reflexivity|]. intros e [<-|[]]. right; right; reflexivity. }
  assert (Hin : forall c2, race_inner (upd c (set_run st false)) id ik = Some c2 -> c_dead c2 = c_dead c).
  { intros c2. unfold race_inner. destruct (ik =? 3); [|intros H; inversion H; reflexivity].
    destruct (find_live id _); [|intros H; inversion H; reflexivity].
    intros H. apply close_dead in H. destruct H as [D _]. exact D. }
  destruct (race_inner _ id ik) as [c2|] eqn:E2.
  2:{ intros H Hb. inversion H; subst. simpl in Hb. discriminate. }
  specialize (Hin _ eq_refl).
  destruct (s_state st =? 3).
  { intros H _. inversion H; subst. split; [exact Hin|]. intros e [<-|[]]. right; right; reflexivity. }
  destruct (find_stream id (c_streams c2)) as [st2|].
  2:{ intros H Hb. inversion H; subst. simpl in Hb. discriminate. }
  destruct (s_state st2 =? 3).
  { intros H _. inversion H; subst. split; [exact Hin|].
    intros e [<-|[<-|[]]]; [right; left|right; right]; reflexivity. }
  destruct (close_stream c2 st2) as [c3|] eqn:Ec.
  2:{ intros H Hb. inversion H; subst. simpl in Hb. discriminate. }
  intros H _. inversion H; subst. apply close_dead in Ec. destruct Ec as [D _].
  split; [congruence|].
  destruct (s_state st2 =? 1); simpl; intros e Hi;
    repeat (destruct Hi as [<-|Hi]; [simpl; auto|]); contradiction.
Qed.

Theorem step_end c o c' evs :
  step c o = (c', evs) -> c_bug c' = false -> ends_ok c c' evs.
Proof.
  destruct o; simpl.
  - apply step_headers_end. - apply step_data_end. - apply step_rst_end.
  - unfold ends_ok; leaf. - unfold ends_ok; leaf.
  - apply step_read_end. - apply step_closebody_end. - apply step_finish_end.
  - unfold ends_ok, clean_end; leaf.
  - intros H Hb. left. apply (step_race_dead _ _ _ _ _ H Hb).
Qed.

Definition evt_ok (e : evt) : Prop := fst (fst e) <> 5 \/ e = (5, 0, 0).

Lemma do_reset_evs c id code pre c' evs :
  do_reset c id code pre = (c', evs) -> c_bug c' = false -> evs = pre ++ [(2, id, code)].
Proof.
  unfold do_reset. destruct (find_live id (c_streams c)); [destruct (close_stream c s)|];
    intros H Hb; inversion H; subst; simpl in *; try discriminate; reflexivity.
Qed.

Ltac inlist :=
  let e := fresh "e" in let Hin := fresh "Hin" in
  intros e Hin; simpl in Hin;
  repeat (destruct Hin as [<- | Hin]; [first [left; simpl; discriminate | right; reflexivity] | ]);
  try contradiction.

Ltac leaf2 :=
  let H := fresh "H" in let Hb := fresh "Hb" in
  intros H Hb; first
  [ apply do_reset_evs in H; [subst; unfold wu_evt; crush; inlist | exact Hb]
  | inversion H; subst; simpl in *; first [ discriminate | unfold wu_evt; crush; inlist ] ].

Lemma data_closed_evs c id L c' evs :
  data_closed c id L = (c', evs) -> c_bug c' = false -> forall e, In e evs -> evt_ok e.
Proof. unfold data_closed, evt_ok. crush; leaf2. Qed.

Lemma data_open_evs c st dlen L es c' evs :
  data_open c st dlen L es = (c', evs) -> c_bug c' = false -> forall e, In e evs -> evt_ok e.
Proof. unfold data_open, finish_data, evt_ok. crush; leaf2. Qed.

Lemma step_evs c o c' evs :
  step c o = (c', evs) -> c_bug c' = false -> forall e, In e evs -> evt_ok e.
Proof.
  destruct o; simpl.
  - unfold step_headers, evt_ok. crush; leaf2.
  - unfold step_data. destruct (id =? 0); [unfold evt_ok; leaf2|].
    destruct (find_live id (c_streams c)); [destruct (_ && _)|];
      first [apply data_open_evs | apply data_closed_evs].
  - unfold step_rst, evt_ok. crush; leaf2.
  - unfold evt_ok; leaf2.
  - unfold evt_ok; leaf2.
  - unfold step_read, evt_ok. crush; leaf2.
  - unfold step_closebody, evt_ok. crush; leaf2.
  - unfold step_finish, evt_ok. crush; leaf2.
  - unfold evt_ok; leaf2.
  - intros H Hb e Hin. destruct (step_race_dead _ _ _ _ _ H Hb) as [_ K].
    left. destruct (K e Hin) as [X|[X|X]]; rewrite X; discriminate.
Qed.

(* C35: one step from a good state: no panic; the connection stays as it was (alive) or the step's
   only event is GOAWAY or a plain close; no event reports a serve-loop panic *)
Theorem step_alive_or_clean_end c o c' evs :
  Good c -> c_bug c = false -> wf_op o = true -> step c o = (c', evs) ->
  c_bug c' = false /\ (c_dead c' = c_dead c \/ clean_end evs) /\ (forall e, In e evs -> evt_ok e).
Proof.
  intros HG Hb Hwf Hs. destruct (step_post _ _ _ _ HG Hb Hwf Hs) as [B _].
  split; [exact B|]. split; [apply (step_end _ _ _ _ Hs B)|apply (step_evs _ _ _ _ Hs B)].
Qed.

Lemma run_events_ok ops : forall c c' out,
  forallb wf_op ops = true -> c_bug c = false -> (c_dead c = false -> Good c) ->
  run_ops c ops = (c', out) -> forall evs, In evs out -> forall e, In e evs -> evt_ok e.
Proof.
  induction ops as [|o r IH]; simpl; intros c c' out Hwf Hb HG.
  - intros H. inversion H; subst. intros evs [].
  - apply andb_true_iff in Hwf. destruct Hwf as [Hwo Hwr].
    destruct (c_dead c) eqn:Ed.
    + destruct (run_ops c r) as [c2 out2] eqn:E. intros H. inversion H; subst.
      assert (HG' : c_dead c = false -> Good c) by (rewrite Ed; discriminate).
      intros evs [<-|Hin]; [intros e []|]. apply (IH _ _ _ Hwr Hb HG' E evs Hin).
    + destruct (step c o) as [c1 evs1] eqn:Es.
      destruct (run_ops c1 r) as [c2 out2] eqn:E. intros H. inversion H; subst.
      destruct (step_post _ _ _ _ (HG eq_refl) Hb Hwo Es) as [B P].
      intros evs [<-|Hin]; [apply (step_evs _ _ _ _ Es B)|].
      apply (IH _ _ _ Hwr B (fun d => proj1 (P d)) E evs Hin).
Qed.

Theorem no_panic_event isw maxs ops :
  wf_cfg isw maxs = true -> forallb wf_op ops = true ->
  forall evs, In evs (snd (run_ops (init_conn isw maxs) ops)) -> forall e, In e evs -> evt_ok e.
Proof.
  intros Hc Hw. destruct (run_ops (init_conn isw maxs) ops) as [c' out] eqn:E. simpl.
  apply (run_events_ok ops (init_conn isw maxs) c' out Hw eq_refl (fun _ => init_good _ _ Hc) E).
Qed.

(* ---------- curOpenStreams ---------- *)
(* curOpenStreams really is the number of streams in sc.streams *)
Definition lv (st : stream) : Z := if s_state st =? 3 then 0 else 1.
Definition nlive (l : list stream) : Z := fold_right (fun st a => lv st + a) 0 l.
Definition Cur (c : conn) : Prop := c_cur c = nlive (c_streams c).

Lemma nlive_upd l st st' :
  find_stream (s_id st') l = Some st -> nlive (upd_stream st' l) = nlive l - lv st + lv st'.
Proof.
  induction l as [|x r IH]; simpl; [discriminate|].
  destruct (s_id x =? s_id st') eqn:E; intros H.
  - inversion H; subst. simpl. lia.
  - simpl. rewrite (IH H). lia.
Qed.

Lemma cur_set c st st' mx f d b p cur adv isw :
  Cur c -> find_stream (s_id st') (c_streams c) = Some st -> cur = c_cur c - lv st + lv st' ->
  Cur (mkC mx (upd_stream st' (c_streams c)) cur adv f isw d b p).
Proof. unfold Cur; simpl. intros H Hf ->. rewrite (nlive_upd _ _ _ Hf). lia. Qed.

Lemma cur_close c st c' :
  Cur c -> find_stream (s_id st) (c_streams c) = Some st -> close_stream c st = Some c' -> Cur c'.
Proof.
  intros HC Hf. unfold close_stream. destruct (s_state st =? 3) eqn:E; [discriminate|].
  intros H. inversion H; subst; clear H.
  apply (cur_set c st); [exact HC|exact Hf|]. unfold lv; simpl. rewrite E. lia.
Qed.

Lemma do_reset_cur c id code pre c' evs :
  Cur c -> do_reset c id code pre = (c', evs) -> c_bug c' = false -> Cur c'.
Proof.
  intros HC. unfold do_reset. destruct (find_live id (c_streams c)) as [st|] eqn:Ef.
  - apply find_live_some in Ef. destruct Ef as [Ef _].
    pose proof (find_some _ _ _ Ef) as [_ Hid]. rewrite <- Hid in Ef.
    destruct (close_stream c st) eqn:Ec.
    + intros H _. inversion H; subst. apply (cur_close _ _ _ HC Ef Ec).
    + intros H Hb. inversion H; subst. simpl in Hb. discriminate.
  - intros H _. inversion H; subst. exact HC.
Qed.

(* an update that keeps the stream in (or out of) the map, followed by a reset *)
Lemma reset_after_upd_cur c st st1 f id code pre c' evs :
  Cur c -> find_stream (s_id st1) (c_streams c) = Some st -> lv st1 = lv st ->
  do_reset (upd (set_cinflow c f) st1) id code pre = (c', evs) -> c_bug c' = false -> Cur c'.
Proof.
  intros HC Hf Hl. apply do_reset_cur. unfold upd, set_streams, set_cinflow; simpl.
  apply (cur_set c st); [exact HC|exact Hf|lia].
Qed.
Lemma reset_after_upd_cur' c st st1 id code pre c' evs :
  Cur c -> find_stream (s_id st1) (c_streams c) = Some st -> lv st1 = lv st ->
  do_reset (upd c st1) id code pre = (c', evs) -> c_bug c' = false -> Cur c'.
Proof.
  intros HC Hf Hl. apply do_reset_cur. unfold upd, set_streams; simpl.
  apply (cur_set c st); [exact HC|exact Hf|lia].
Qed.

Lemma cur_inflow c f : Cur c -> Cur (set_cinflow c f).
Proof. unfold Cur; simpl; auto. Qed.

Lemma data_closed_cur c id L c' evs :
  Cur c -> data_closed c id L = (c', evs) -> c_bug c' = false -> Cur c'.
Proof.
  intros HC. unfold data_closed.
  destruct (c_inflow c <? L); [apply do_reset_cur; exact HC|].
  destruct (flow_take_conn (c_inflow c) L); [|intros H Hb; inversion H; subst; discriminate].
  destruct (send_wu z L) as [[f2 inc]|]; [|intros H Hb; inversion H; subst; discriminate].
  apply do_reset_cur. apply cur_inflow. exact HC.
Qed.

Ltac bugleaf := let H := fresh in let Hb := fresh in intros H Hb; inversion H; subst; simpl in Hb; discriminate.

Lemma data_open_cur c st dlen L es c' evs :
  Cur c -> find_stream (s_id st) (c_streams c) = Some st -> s_state st = 1 ->
  data_open c st dlen L es = (c', evs) -> c_bug c' = false -> Cur c'.
Proof.
  intros HC Hf Hs. unfold data_open.
  assert (Hlv : lv st = 1) by (unfold lv; rewrite Hs; reflexivity).
  assert (Hfin : forall cc st2 evs0, s_id st2 = s_id st -> s_state st2 = 1 -> c_cur cc = c_cur c -> c_streams cc = c_streams c ->
            finish_data cc st2 es evs0 = (c', evs) -> c_bug c' = false -> Cur c').
  { intros cc st2 evs0 Hid2 Hs2 Hcur Hstr. unfold finish_data. destruct es.
    - unfold end_stream. destruct (negb (s_body st2)); [bugleaf|].
      intros H _. inversion H; subst. unfold upd, set_streams. destruct cc; simpl in *. subst.
      apply (cur_set c st); [exact HC|simpl; rewrite Hid2; exact Hf|unfold lv; simpl; rewrite Hs; simpl; lia].
    - intros H _. inversion H; subst. unfold upd, set_streams. destruct cc; simpl in *. subst.
      apply (cur_set c st); [exact HC|rewrite Hid2; exact Hf|unfold lv; rewrite Hs, Hs2; simpl; lia]. }
  destruct (negb (s_body st)); [bugleaf|].
  destruct (negb (s_decl st =? -1) && (s_decl st <? s_bytes st + dlen)).
  { destruct (c_inflow c <? L); [apply do_reset_cur; exact HC|].
    destruct (flow_take_conn (c_inflow c) L); [|bugleaf].
    destruct (send_wu z L) as [[f2 inc]|]; [|bugleaf].
    apply (reset_after_upd_cur c st); [exact HC|exact Hf|reflexivity]. }
  destruct (0 <? L).
  2:{ apply (Hfin c st); auto. }
  destruct (flow_available (s_inflow st) (c_inflow c) <? L); [apply do_reset_cur; exact HC|].
  destruct (flow_take_stream (s_inflow st) (c_inflow c) L) as [[sf cf]|]; [|bugleaf].
  destruct ((0 <? dlen) && (negb (s_perr st =? 0) || s_rel st)).
  { destruct (send_wu cf L) as [[cf2 inc]|]; [|bugleaf].
    apply (reset_after_upd_cur c st); [exact HC|exact Hf|reflexivity]. }
  destruct ((0 <? dlen) && (c_isw c <? s_buf st + dlen)).
  { destruct (send_wu cf L) as [[cf2 inc]|]; [|bugleaf].
    apply (reset_after_upd_cur c st); [exact HC|exact Hf|reflexivity]. }
  destruct (send_wu (c_inflow (set_cinflow c cf)) (L - dlen)) as [[cf2 i1]|]; [|bugleaf].
  destruct (send_wu _ (L - dlen)) as [[sf2 i2]|]; [|bugleaf].
  destruct (0 <? dlen); apply Hfin; simpl; auto.
Qed.

Lemma step_data_cur c id dlen pad es c' evs :
  Cur c -> step_data c id dlen pad es = (c', evs) -> c_bug c' = false -> c_dead c' = false -> Cur c'.
Proof.
  intros HC. unfold step_data. destruct (id =? 0).
  { intros H _ Hd. inversion H; subst. simpl in Hd. discriminate. }
  destruct (find_live id (c_streams c)) as [st|] eqn:Ef.
  - apply find_live_some in Ef. destruct Ef as [Ef _].
    pose proof (find_some _ _ _ Ef) as [_ Hid]. rewrite <- Hid in Ef.
    destruct ((s_state st =? 1) && negb (s_trailer st)) eqn:Eo.
    + apply andb_true_iff in Eo. destruct Eo as [Eo _].
      intros H Hb _. apply (data_open_cur _ _ _ _ _ _ _ HC Ef ltac:(lia) H Hb).
    + intros H Hb _. apply (data_closed_cur _ _ _ _ _ HC H Hb).
  - intros H Hb _. apply (data_closed_cur _ _ _ _ _ HC H Hb).
Qed.

Lemma step_rst_cur c id c' evs :
  Cur c -> step_rst c id = (c', evs) -> c_bug c' = false -> c_dead c' = false -> Cur c'.
Proof.
  intros HC. unfold step_rst. destruct (id =? 0).
  { intros H _ Hd. inversion H; subst. simpl in Hd. discriminate. }
  destruct (find_live id (c_streams c)) as [st|] eqn:Ef.
  - apply find_live_some in Ef. destruct Ef as [Ef _].
    pose proof (find_some _ _ _ Ef) as [_ Hid]. rewrite <- Hid in Ef.
    destruct (close_stream c st) eqn:Ec.
    + intros H _ _. inversion H; subst. apply (cur_close _ _ _ HC Ef Ec).
    + intros H Hb. inversion H; subst. simpl in Hb. discriminate.
  - destruct (c_max c <? id); intros H _ Hd; inversion H; subst; [simpl in Hd; discriminate|exact HC].
Qed.

Lemma step_read_cur c id k c' evs :
  Cur c -> step_read c id k = (c', evs) -> c_bug c' = false -> Cur c'.
Proof.
  intros HC. unfold step_read.
  destruct (find_stream id (c_streams c)) as [st|] eqn:Ef; [|intros H _; inversion H; subst; exact HC].
  pose proof (find_some _ _ _ Ef) as [_ Hid]. rewrite <- Hid in Ef.
  destruct (negb (s_run st)); [intros H _; inversion H; subst; exact HC|].
  destruct (negb (s_body st)); [intros H _; inversion H; subst; exact HC|].
  destruct (negb (s_rel st) && (0 <? s_buf st)); [|intros H _; inversion H; subst; exact HC].
  destruct (send_wu (c_inflow c) _) as [[cf i1]|]; [|bugleaf].
  destruct (s_state st =? 1).
  - destruct (send_wu (s_inflow st) _) as [[sf i2]|]; [|bugleaf].
    intros H _. inversion H; subst. unfold upd, set_streams, set_cinflow; simpl.
    apply (cur_set c st); [exact HC|exact Ef|unfold lv; simpl; lia].
  - intros H _. inversion H; subst. unfold upd, set_streams, set_cinflow; simpl.
    apply (cur_set c st); [exact HC|exact Ef|unfold lv; simpl; lia].
Qed.

Lemma step_closebody_cur c id c' evs :
  Cur c -> step_closebody c id = (c', evs) -> Cur c'.
Proof.
  intros HC. unfold step_closebody.
  destruct (find_stream id (c_streams c)) as [st|] eqn:Ef; [|intros H; inversion H; subst; exact HC].
  pose proof (find_some _ _ _ Ef) as [_ Hid]. rewrite <- Hid in Ef.
  destruct (negb (s_run st)); [intros H; inversion H; subst; exact HC|].
  destruct (s_body st); intros H; inversion H; subst; [|exact HC].
  unfold upd, set_streams; simpl. apply (cur_set c st); [exact HC|exact Ef|unfold lv; simpl; lia].
Qed.

Lemma step_finish_cur c id c' evs :
  Cur c -> step_finish c id = (c', evs) -> c_bug c' = false -> Cur c'.
Proof.
  intros HC. unfold step_finish.
  destruct (find_stream id (c_streams c)) as [st|] eqn:Ef; [|intros H _; inversion H; subst; exact HC].
  pose proof (find_some _ _ _ Ef) as [_ Hid]. rewrite <- Hid in Ef.
  destruct (negb (s_run st)); [intros H _; inversion H; subst; exact HC|].
  assert (HC1 : Cur (upd c (set_run st false))).
  { unfold upd, set_streams. apply (cur_set c st); [exact HC|exact Ef|unfold lv; simpl; lia]. }
  destruct (s_state st =? 3); [intros H _; inversion H; subst; exact HC1|].
  destruct (close_stream _ _) eqn:Ec; [|bugleaf].
  intros H _. inversion H; subst.
  apply (cur_close _ _ _ HC1) in Ec; [exact Ec|].
  simpl. apply (find_upd _ _ st); [exact Ef|reflexivity].
Qed.

Lemma step_headers_cur c id es kind clen c' evs :
  Cur c -> step_headers c id es kind clen = (c', evs) -> c_bug c' = false -> c_dead c' = false -> Cur c'.
Proof.
  intros HC. unfold step_headers.
  destruct (id =? 0).
  { intros H _ Hd. inversion H; subst. simpl in Hd. discriminate. }
  destruct (kind =? 7); [intros H Hb _; apply (do_reset_cur _ _ _ _ _ _ HC H Hb)|].
  destruct (negb (id mod 2 =? 1)).
  { intros H _ Hd. inversion H; subst. simpl in Hd. discriminate. }
  destruct (find_live id (c_streams c)) as [st|] eqn:Ef.
  - apply find_live_some in Ef. destruct Ef as [Ef Hn3].
    pose proof (find_some _ _ _ Ef) as [_ Hid]. rewrite <- Hid in Ef.
    destruct (s_state st =? 2); [intros H Hb _; apply (do_reset_cur _ _ _ _ _ _ HC H Hb)|].
    destruct (s_trailer st).
    { intros H _ Hd. inversion H; subst. simpl in Hd. discriminate. }
    destruct (negb es); [intros H Hb _; apply (reset_after_upd_cur' c st (set_trailer st) _ _ _ _ _ HC Ef eq_refl H Hb)|].
    destruct (negb (kind =? 1)); [intros H Hb _; apply (reset_after_upd_cur' c st (set_trailer st) _ _ _ _ _ HC Ef eq_refl H Hb)|].
    unfold end_stream. destruct (negb (s_body (set_trailer st))); [intros H Hb; inversion H; subst; simpl in Hb; discriminate|].
    intros H _ _. inversion H; subst. unfold upd, set_streams; simpl.
    apply (cur_set c st); [exact HC|exact Ef|]. unfold lv; simpl.
    destruct (s_state st =? 3) eqn:E3; lia.
  - destruct (id <=? c_max c).
    { intros H _ Hd. inversion H; subst. simpl in Hd. discriminate. }
    match goal with |- context [closeconn ?x] => set (c1 := x) end.
    destruct (c_adv c <? c_cur c1).
    { intros H _ Hd. inversion H; subst. simpl in Hd. discriminate. }
    assert (E3 : ((if es then 2 else 1) =? 3) = false) by (destruct es; reflexivity).
    assert (HC1 : Cur c1).
    { unfold Cur, c1; simpl. unfold lv; simpl. rewrite E3. unfold Cur in HC. lia. }
    destruct (malformed kind es).
    + intros H Hb _. apply (do_reset_cur _ _ _ _ _ _ HC1 H Hb).
    + intros H _ _. inversion H; subst. unfold upd, set_streams, c1; simpl. rewrite Z.eqb_refl.
      unfold Cur; simpl. unfold lv; simpl. rewrite E3. unfold Cur in HC. lia.
Qed.

Lemma step_race_cur c id ik c' evs :
  Cur c -> step_race c id ik = (c', evs) -> c_bug c' = false -> Cur c'.
Proof.
  intros HC. unfold step_race.
  destruct (find_stream id (c_streams c)) as [st|] eqn:Ef; [|intros H _; inversion H; subst; exact HC].
  pose proof (find_some _ _ _ Ef) as [_ Hid]. rewrite <- Hid in Ef.
  destruct (negb (s_run st)); [intros H _; inversion H; subst; exact HC|].
  assert (HC1 : Cur (upd c (set_run st false))).
  { unfold upd, set_streams. apply (cur_set c st); [exact HC|exact Ef|unfold lv; simpl; lia]. }
  destruct (race_inner _ id ik) as [c2|] eqn:E2; [|bugleaf].
  assert (HC2 : Cur c2).
  { unfold race_inner in E2. destruct (ik =? 3); [|inversion E2; subst; exact HC1].
    destruct (find_live id _) as [s|] eqn:El; [|inversion E2; subst; exact HC1].
    apply find_live_some in El. destruct El as [El _].
    pose proof (find_some _ _ _ El) as [_ Hs]. rewrite <- Hs in El.
    apply (cur_close _ _ _ HC1 El E2). }
  destruct (s_state st =? 3); [intros H _; inversion H; subst; exact HC2|].
  destruct (find_stream id (c_streams c2)) as [st2|] eqn:Ef2; [|bugleaf].
  destruct (s_state st2 =? 3); [intros H _; inversion H; subst; exact HC2|].
  destruct (close_stream c2 st2) as [c3|] eqn:Ec; [|bugleaf].
  intros H _. inversion H; subst.
  pose proof (find_some _ _ _ Ef2) as [_ Hid2]. rewrite <- Hid2 in Ef2.
  apply (cur_close _ _ _ HC2 Ef2 Ec).
Qed.

Theorem step_cur c o c' evs :
  Cur c -> step c o = (c', evs) -> c_bug c' = false -> c_dead c' = false -> Cur c'.
Proof.
  intros HC. destruct o; simpl.
  - apply step_headers_cur; exact HC.
  - apply step_data_cur; exact HC.
  - apply step_rst_cur; exact HC.
  - intros H _ _. inversion H; subst. exact HC.
  - intros H _ _. inversion H; subst. exact HC.
  - intros H Hb _. apply (step_read_cur _ _ _ _ _ HC H Hb).
  - intros H _ _. apply (step_closebody_cur _ _ _ _ HC H).
  - intros H Hb _. apply (step_finish_cur _ _ _ _ HC H Hb).
  - intros H _ Hd. inversion H; subst. simpl in Hd. discriminate.
  - intros H Hb _. apply (step_race_cur _ _ _ _ _ HC H Hb).
Qed.

Lemma run_ops_cur ops : forall c c' out,
  forallb wf_op ops = true -> c_bug c = false -> (c_dead c = false -> Good c /\ Cur c) ->
  run_ops c ops = (c', out) -> c_dead c' = false -> Cur c'.
Proof.
  induction ops as [|o r IH]; simpl; intros c c' out Hwf Hb HG.
  - intros H Hd. inversion H; subst. apply (HG Hd).
  - apply andb_true_iff in Hwf. destruct Hwf as [Hwo Hwr].
    destruct (c_dead c) eqn:Ed.
    + destruct (run_ops c r) as [c2 out2] eqn:E. intros H Hd. inversion H; subst.
      pose proof (run_dead _ _ _ _ Ed E). subst c'. congruence.
    + destruct (HG eq_refl) as [G0 C0].
      destruct (step c o) as [c1 evs] eqn:Es.
      destruct (run_ops c1 r) as [c2 out2] eqn:E. intros H Hd. inversion H; subst.
      destruct (step_post _ _ _ _ G0 Hb Hwo Es) as [B P].
      apply (IH _ _ _ Hwr B) in E; [exact E| |exact Hd].
      intros d. split; [apply (P d)|apply (step_cur _ _ _ _ C0 Es B d)].
Qed.

(* C35: in every reachable live state curOpenStreams = number of streams that are not closed *)
Theorem cur_counts_live_streams c : reach c -> c_dead c = false -> c_cur c = nlive (c_streams c).
Proof.
  intros [isw [maxs [ops [Hc [Hw ->]]]]] Hd.
  destruct (run_ops (init_conn isw maxs) ops) as [c' out] eqn:E. simpl in *.
  apply (run_ops_cur ops (init_conn isw maxs) c' out Hw eq_refl); [|exact E|exact Hd].
  intros _. split; [apply init_good; exact Hc|reflexivity].
Qed.
