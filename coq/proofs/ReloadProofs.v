(* Proofs about model/Reload.v (C09). *)
From Coq Require Import List ZArith Bool Lia.
From Bfe Require Import lib.Val model.Reload run.RunC09.
Import ListNotations.
Open Scope Z_scope.

Definition clean (b : bk) : Prop := krel b = 0.          (* never released *)
Definition once (b : bk) : Prop := krel b = 1.           (* released exactly once *)
Definition sub_clean (s : sub) : Prop := Forall clean (sbks s).
Definition clu_clean (c : clu) : Prop := Forall sub_clean (csubs c).
Definition tbl_inv (t : tbl) : Prop := Forall clu_clean (clus t) /\ Forall once (orphans t).

Lemma release_bk_clean : forall b, clean b -> exists b', release_bk b = Some b' /\ once b'.
Proof.
  intros b H. unfold release_bk, clean in *. rewrite H. simpl. eexists. split; [reflexivity|]. unfold once. simpl. lia.
Qed.
Lemma release_all_clean : forall l, Forall clean l -> exists l', release_all l = Some l' /\ Forall once l'.
Proof.
  induction l as [|b r IH]; intros H; simpl.
  - exists []. split; [reflexivity|constructor].
  - inversion H as [|? ? Hb Hr]; subst. destruct (release_bk_clean b Hb) as [b' [E1 O1]].
    destruct (IH Hr) as [r' [E2 O2]]. rewrite E1, E2. eexists. split; [reflexivity|]. constructor; assumption.
Qed.

Lemma upd_old_clean : forall c l used, Forall clean l ->
  exists k rel u, upd_old c l used = Some (k, rel, u) /\ Forall clean k /\ Forall once rel /\
    (* every kept object is an old object whose weight alone was rewritten *)
    Forall (fun b' => exists b w, In b l /\ b' = set_weight b w) k.
Proof.
  intros c. induction l as [|b r IH]; intros used H; simpl.
  - exists [], [], used. repeat split; constructor.
  - inversion H as [|? ? Hb Hr]; subst.
    destruct (if memZ (kaddr b) used then None else conf_last (kaddr b) c None) as [[n w]|].
    + destruct (IH (kaddr b :: used) Hr) as [k [rel [u [E [Ck [Or Hk]]]]]]. rewrite E.
      exists (set_weight b w :: k), rel, u.
      split; [reflexivity|]. split; [constructor; [exact Hb|exact Ck]|]. split; [exact Or|].
      * constructor.
        -- exists b, w. split; [left; reflexivity|reflexivity].
        -- eapply Forall_impl; [|exact Hk]. intros a [b0 [w0 [Hin ->]]]. exists b0, w0. split; [right; exact Hin|reflexivity].
    + destruct (release_bk_clean b Hb) as [b' [E1 O1]]. rewrite E1.
      destruct (IH used Hr) as [k [rel [u [E [Ck [Or Hk]]]]]]. rewrite E.
      exists k, (b' :: rel), u.
      split; [reflexivity|]. split; [exact Ck|]. split; [constructor; assumption|].
      eapply Forall_impl; [|exact Hk]. intros a [b0 [w0 [Hin ->]]]. exists b0, w0. split; [right; exact Hin|reflexivity].
Qed.
Lemma upd_new_clean : forall c used, Forall clean (upd_new c used).
Proof.
  intros c used. unfold upd_new. apply Forall_forall. intros b Hin. apply in_flat_map in Hin.
  destruct Hin as [a [_ Hb]]. destruct (memZ a used); [destruct Hb|].
  destruct (conf_last a c None) as [[n w]|]; [|destruct Hb]. destruct Hb as [<-|[]]. reflexivity.
Qed.
Lemma update_rr_clean : forall c l, Forall clean l ->
  exists k rel, update_rr c l = Some (k, rel) /\ Forall clean k /\ Forall once rel.
Proof.
  intros c l H. unfold update_rr. destruct (upd_old_clean c l [] H) as [k [rel [u [E [Ck [Or _]]]]]]. rewrite E.
  eexists. eexists. split; [reflexivity|]. split; [|exact Or]. apply Forall_app. split; [exact Ck|apply upd_new_clean].
Qed.

Lemma reload_old_clean : forall g l, Forall sub_clean l ->
  let '(k, m, gone) := reload_old g l in Forall sub_clean k /\ Forall sub_clean m /\ Forall sub_clean gone.
Proof.
  intros g. induction l as [|s r IH]; intros H; simpl.
  - repeat split; constructor.
  - inversion H as [|? ? Hs Hr]; subst. specialize (IH Hr).
    destruct (reload_old g r) as [[k m] gone]. destruct IH as [A [B C]].
    destruct (gfind (sname s) g) as [w|]; repeat split; try constructor; auto.
Qed.
Lemma release_subs_clean : forall l, Forall sub_clean l -> exists rel, release_subs l = Some rel /\ Forall once rel.
Proof.
  induction l as [|s r IH]; intros H; simpl.
  - exists []. split; [reflexivity|constructor].
  - inversion H as [|? ? Hs Hr]; subst. destruct (release_all_clean (sbks s) Hs) as [a [E1 O1]]. rewrite E1.
    destruct (IH Hr) as [b [E2 O2]]. rewrite E2. eexists. split; [reflexivity|]. apply Forall_app. split; assumption.
Qed.
Lemma ins_sub_forall : forall (P : sub -> Prop) s l, P s -> Forall P l -> Forall P (ins_sub s l).
Proof.
  intros P s. induction l as [|x r IH]; intros Hs Hl; simpl.
  - constructor; [exact Hs|constructor].
  - inversion Hl; subst. destruct (sname s <? sname x); constructor; auto.
Qed.
Lemma sort_subs_forall : forall (P : sub -> Prop) l, Forall P l -> Forall P (sort_subs l).
Proof.
  intros P. induction l as [|x r IH]; intros H; simpl; [constructor|].
  inversion H; subst. apply ins_sub_forall; auto.
Qed.
Lemma reload_gslb_clean : forall g l m, Forall sub_clean l ->
  exists nl rel e m', reload_gslb g l m = Some (nl, rel, e, m') /\ Forall sub_clean nl /\ Forall once rel.
Proof.
  intros g l mt H. unfold reload_gslb. pose proof (reload_old_clean g l H) as Hc.
  destruct (reload_old g l) as [[k m] gone]. destruct Hc as [Ck [Cm Cg]].
  destruct (pos_total _ =? 0).
  - eexists. eexists. eexists. eexists. split; [reflexivity|]. split; [exact Cm|constructor].
  - destruct (release_subs_clean gone Cg) as [rel [E O]]. rewrite E.
    eexists. eexists. eexists. eexists. split; [reflexivity|]. split; [|exact O].
    apply sort_subs_forall. apply Forall_app. split; [exact Ck|].
    apply Forall_forall. intros s Hin. apply in_flat_map in Hin. destruct Hin as [e [_ Hs]].
    destruct (memZ (fst e) (map sname l)); [destruct Hs|]. destruct Hs as [<-|[]]. constructor.
Qed.

Lemma backend_reload_clean : forall cb l, Forall sub_clean l ->
  exists l' rel, backend_reload cb l = Some (l', rel) /\ Forall sub_clean l' /\ Forall once rel.
Proof.
  intros cb. induction l as [|s r IH]; intros H; simpl.
  - exists [], []. repeat split; constructor.
  - inversion H as [|? ? Hs Hr]; subst. destruct (IH Hr) as [r' [rel' [E [Cr Or]]]].
    destruct (bfind (sname s) cb) as [c|].
    + destruct (update_rr_clean c (sbks s) Hs) as [k [rel [E1 [Ck O1]]]]. rewrite E1, E.
      eexists. eexists. split; [reflexivity|]. split; [constructor; [exact Ck|exact Cr]|apply Forall_app; split; assumption].
    + rewrite E. eexists. eexists. split; [reflexivity|]. split; [constructor; assumption|exact Or].
Qed.

Lemma cfind_clean : forall n l, Forall clu_clean l ->
  Forall sub_clean (match cfind n l with Some c => csubs c | None => [] end).
Proof.
  intros n. induction l as [|c r IH]; intros H; simpl; [constructor|].
  inversion H; subst. destruct (cname c =? n); [assumption|apply IH; assumption].
Qed.
Lemma ins_clu_forall : forall (P : clu -> Prop) c l, P c -> Forall P l -> Forall P (ins_clu c l).
Proof.
  intros P c. induction l as [|x r IH]; intros Hc Hl; simpl.
  - constructor; [exact Hc|constructor].
  - inversion Hl; subst. destruct (cname c <? cname x); constructor; auto.
Qed.
Lemma phase1_clean : forall gs old, Forall clu_clean old ->
  exists cs rel e, phase1 gs old = Some (cs, rel, e) /\ Forall clu_clean cs /\ Forall once rel.
Proof.
  induction gs as [|[n g] r IH]; intros old H; simpl.
  - exists [], [], false. split; [reflexivity|]. split; constructor.
  - destruct (reload_gslb_clean g _ (match cfind n old with Some c => cmeta c | None => meta0 end) (cfind_clean n old H))
      as [nl [rel [e [m' [E [A B]]]]]]. rewrite E.
    destruct (IH old H) as [cs [rel' [e' [E' [A' B']]]]]. rewrite E'.
    eexists. eexists. eexists. split; [reflexivity|]. split.
    + apply ins_clu_forall; [exact A|exact A'].
    + apply Forall_app. split; assumption.
Qed.
Lemma flat_sbks_clean : forall l, Forall sub_clean l -> Forall clean (flat_map sbks l).
Proof.
  induction l as [|s r IH]; intros H; simpl; [constructor|]. inversion H; subst.
  apply Forall_app. split; [assumption|apply IH; assumption].
Qed.
Lemma release_clusters_clean : forall l, Forall clu_clean l -> exists rel, release_clusters l = Some rel /\ Forall once rel.
Proof.
  induction l as [|c r IH]; intros H; simpl.
  - exists []. split; [reflexivity|constructor].
  - inversion H as [|? ? Hc Hr]; subst.
    destruct (release_all_clean _ (flat_sbks_clean _ Hc)) as [a [E1 O1]]. rewrite E1.
    destruct (IH Hr) as [b [E2 O2]]. rewrite E2. eexists. split; [reflexivity|]. apply Forall_app. split; assumption.
Qed.
Lemma phase3_clean : forall bc l, Forall clu_clean l ->
  exists l' rel e, phase3 bc l = Some (l', rel, e) /\ Forall clu_clean l' /\ Forall once rel.
Proof.
  intros bc. induction l as [|c r IH]; intros H; simpl.
  - exists [], [], false. repeat split; constructor.
  - inversion H as [|? ? Hc Hr]; subst. destruct (IH Hr) as [r' [rel' [e' [E [Cr Or]]]]].
    destruct (bfind (cname c) bc) as [cb|].
    + destruct (backend_reload_clean cb _ Hc) as [subs [rel [E1 [Cs O1]]]]. rewrite E1, E.
      eexists. eexists. eexists. split; [reflexivity|]. split; [constructor; [exact Cs|exact Cr]|apply Forall_app; split; assumption].
    + rewrite E. eexists. eexists. eexists. split; [reflexivity|]. split; [constructor; assumption|exact Or].
Qed.
Lemma filter_forall : forall {A} (P : A -> Prop) f l, Forall P l -> Forall P (filter f l).
Proof.
  intros A P f. induction l as [|x r IH]; intros H; simpl; [constructor|]. inversion H; subst.
  destruct (f x); [constructor|]; auto.
Qed.

(* From a table in which nothing reachable has been released a reload never panics and preserves the invariant,
   also when a gslb Reload returns its "total weight = 0" error. *)
Theorem table_reload_inv : forall gs bc t, tbl_inv t ->
  exists t' gerr err, table_reload gs bc t = Some (t', gerr, err) /\ tbl_inv t'.
Proof.
  intros gs bc t [Hc Ho]. unfold table_reload.
  destruct (phase1_clean gs _ Hc) as [cs [rel1 [e [E1 [A B]]]]]. rewrite E1.
  destruct (release_clusters_clean _ (filter_forall clu_clean (fun c => negb (memZ (cname c) (map fst gs))) _ Hc)) as [rel2 [E2 O2]].
  rewrite E2.
  destruct (phase3_clean bc cs A) as [l' [rel [e' [E3 [C3 O3]]]]]. rewrite E3.
  eexists. eexists. eexists. split; [reflexivity|]. split; [exact C3|]. simpl.
  repeat (apply Forall_app; split); assumption.
Qed.

(* ---------- histories ---------- *)
Arguments gslb_err_path : simpl never.
Fixpoint states (t : tbl) (ops : list rop) : list (option tbl) :=
  match ops with
  | [] => []
  | OPoke c s a k x :: r => Some (poke c s a k x t) :: states (poke c s a k x t) r
  | OReload gs bc :: r =>
    match table_reload gs bc t with
    | None => [None]
    | Some (t', _, _) => Some t' :: states t' r
    end
  end.

Lemma poke_bk_krel : forall k v b, krel (poke_bk k v b) = krel b.
Proof. intros k v b. unfold poke_bk. destruct (k =? 0); [reflexivity|]. destruct (k =? 1); reflexivity. Qed.
Lemma poke_inv : forall c s a k x t, tbl_inv t -> tbl_inv (poke c s a k x t).
Proof.
  intros c s a k x t [Hc Ho]. split; [|exact Ho]. unfold poke; simpl.
  apply Forall_forall. intros cl Hin. apply in_map_iff in Hin. destruct Hin as [cl0 [<- Hin0]].
  rewrite Forall_forall in Hc. specialize (Hc cl0 Hin0).
  destruct (cname cl0 =? c); [|exact Hc]. unfold clu_clean; simpl.
  apply Forall_forall. intros sb Hs. apply in_map_iff in Hs. destruct Hs as [sb0 [<- Hs0]].
  unfold clu_clean in Hc. rewrite Forall_forall in Hc. specialize (Hc sb0 Hs0).
  destruct (sname sb0 =? s); [|exact Hc]. unfold sub_clean; simpl.
  apply Forall_forall. intros b Hb. apply in_map_iff in Hb. destruct Hb as [b0 [<- Hb0]].
  unfold sub_clean in Hc. rewrite Forall_forall in Hc. specialize (Hc b0 Hb0).
  destruct (kaddr b0 =? a); [|exact Hc]. unfold clean. rewrite poke_bk_krel. exact Hc.
Qed.
Lemma table_reload_flag : forall gs bc t t' gerr err,
  table_reload gs bc t = Some (t', gerr, err) -> gerr = gslb_err_path gs t.
Proof.
  intros gs bc t t' gerr err H. unfold table_reload, gslb_err_path in *.
  destruct (phase1 gs (clus t)) as [[[cs rel1] e]|]; [|discriminate].
  destruct (release_clusters _) as [rel2|]; [|discriminate].
  destruct (phase3 bc cs) as [[[cs' rel3] berr]|]; [|discriminate]. inversion H; reflexivity.
Qed.

(* For every history: no reload panics, and after every operation no object reachable from the table has been
   released and every object that left the table has been released exactly once. *)
Theorem history_inv : forall ops t, tbl_inv t ->
  Forall (fun st => exists t', st = Some t' /\ tbl_inv t') (states t ops).
Proof.
  induction ops as [|o r IH]; intros t Hi; [constructor|].
  destruct o as [gs bc|c s a k x]; simpl in *.
  - destruct (table_reload_inv gs bc t Hi) as [t' [gerr [err [E Hi']]]]. rewrite E.
    constructor; [exists t'; split; [reflexivity|exact Hi']|]. apply IH; assumption.
  - constructor; [eexists; split; [reflexivity|apply poke_inv; exact Hi]|]. apply IH. apply poke_inv; exact Hi.
Qed.
Lemma tbl0_inv : tbl_inv tbl0.
Proof. split; constructor. Qed.

(* ---------- kept state ---------- *)
Lemma memZ_false : forall x l, memZ x l = false -> ~ In x l.
Proof.
  intros x l H Hin. unfold memZ in H. assert (existsb (Z.eqb x) l = true); [|congruence].
  apply existsb_exists. exists x. split; [exact Hin|apply Z.eqb_refl].
Qed.
Lemma memZ_notin : forall x l, ~ In x l -> memZ x l = false.
Proof.
  intros x l H. unfold memZ. destruct (existsb (Z.eqb x) l) eqn:E; [|reflexivity].
  apply existsb_exists in E. destruct E as [y [Hy Hxy]]. apply Z.eqb_eq in Hxy. subst. contradiction.
Qed.
Lemma upd_old_keeps : forall c l used k rel u,
  upd_old c l used = Some (k, rel, u) -> NoDup (map kaddr l) ->
  forall b n w, In b l -> ~ In (kaddr b) used -> conf_last (kaddr b) c None = Some (n, w) ->
  In (set_weight b w) k.
Proof.
  intros c. induction l as [|b0 r IH]; intros used k rel u H Hnd b n w Hin Hnu Hc; [destruct Hin|].
  simpl in H. inversion Hnd as [|? ? Hn0 Hnd']; subst.
  destruct Hin as [<-|Hin].
  - rewrite (memZ_notin _ _ Hnu), Hc in H.
    destruct (upd_old c r (kaddr b0 :: used)) as [[[k' rel'] u']|]; [|discriminate]. inversion H; subst. left. reflexivity.
  - assert (Hne : kaddr b0 <> kaddr b).
    { intros E. apply Hn0. rewrite E. apply in_map. exact Hin. }
    destruct (if memZ (kaddr b0) used then None else conf_last (kaddr b0) c None) as [[n0 w0]|].
    + destruct (upd_old c r (kaddr b0 :: used)) as [[[k' rel'] u']|] eqn:E; [|discriminate]. inversion H; subst.
      right. eapply IH; [exact E|exact Hnd'|exact Hin| |exact Hc]. intros [F|F]; [congruence|contradiction].
    + destruct (release_bk b0); [|discriminate].
      destruct (upd_old c r used) as [[[k' rel'] u']|] eqn:E; [|discriminate]. inversion H; subst.
      eapply IH; [exact E|exact Hnd'|exact Hin|exact Hnu|exact Hc].
Qed.
(* BalanceRR.Update keeps the very object (availability, counters, name, release count untouched; only the weight is
   rewritten) of every backend whose address is still configured. *)
Theorem update_keeps_state : forall c l k rel, update_rr c l = Some (k, rel) -> NoDup (map kaddr l) ->
  forall b n w, In b l -> conf_last (kaddr b) c None = Some (n, w) -> In (set_weight b w) k.
Proof.
  intros c l k rel H Hnd b n w Hin Hc. unfold update_rr in H.
  destruct (upd_old c l []) as [[[k' rel'] u']|] eqn:E; [|discriminate]. inversion H; subst.
  apply in_or_app. left. eapply upd_old_keeps; [exact E|exact Hnd|exact Hin|intros []|exact Hc].
Qed.
Lemma upd_old_partition : forall c l used k rel u,
  upd_old c l used = Some (k, rel, u) -> (length k + length rel = length l)%nat.
Proof.
  intros c. induction l as [|b r IH]; intros used k rel u H; simpl in H.
  - inversion H; reflexivity.
  - destruct (if memZ (kaddr b) used then None else conf_last (kaddr b) c None) as [[n w]|].
    + destruct (upd_old c r (kaddr b :: used)) as [[[k' rel'] u']|] eqn:E; [|discriminate]. inversion H; subst.
      simpl. rewrite (IH _ _ _ _ E). reflexivity.
    + destruct (release_bk b); [|discriminate].
      destruct (upd_old c r used) as [[[k' rel'] u']|] eqn:E; [|discriminate]. inversion H; subst.
      simpl. rewrite <- (IH _ _ _ _ E). lia.
Qed.

(* ---------- the error path ---------- *)
(* reload 1 creates cluster 0 with sub-clusters 0 and 1, one backend each; reload 2 configures cluster 0 with
   sub 1 only and weight 0: Reload returns its error and keeps the old list, nothing released; reload 3 removes sub 0 *)
Definition err_hist : list rop :=
  [OReload [(0, [(0, 1); (1, 1)])] [(0, [(0, [(1, 1, 1)]); (1, [(2, 2, 1)])])];
   OReload [(0, [(1, 0)])] [(0, [(1, [(2, 2, 1)])])];
   OReload [(0, [(1, 1)])] [(0, [(1, [(2, 2, 1)])])]].
Lemma err_path_example :
  match states tbl0 err_hist with
  | [Some t1; Some t2; Some t3] =>
      map (fun t => map sname (flat_map csubs (clus t))) [t1; t2; t3] = [[0; 1]; [0; 1]; [1]] /\
      map (fun t => length (orphans t)) [t1; t2; t3] = [0; 0; 1]%nat /\
      map snd (run_rops tbl0 err_hist) = [false; true; false]
  | _ => False
  end.
Proof. vm_compute. repeat split. Qed.

(* ---------- wire level (the release clauses of prop_C09) ---------- *)
Definition obs_core (v : val) : bool :=
  match v with
  | VZ 0 => true
  | VL [_; d; VL [VZ n; VZ m]; _] => dump_ok d && (n =? m)
  | _ => false
  end.
Lemma ins_bk_forall : forall (P : bk -> Prop) b l, P b -> Forall P l -> Forall P (ins_bk b l).
Proof.
  intros P b. induction l as [|x r IH]; intros Hb Hl; simpl.
  - constructor; [exact Hb|constructor].
  - inversion Hl; subst. destruct (kaddr b <? kaddr x); constructor; auto.
Qed.
Lemma sort_bk_forall : forall (P : bk -> Prop) l, Forall P l -> Forall P (fold_right ins_bk [] l).
Proof.
  intros P. induction l as [|x r IH]; intros H; simpl; [constructor|]. inversion H; subst. apply ins_bk_forall; auto.
Qed.
Lemma dump_ok_enc : forall t, Forall clu_clean (clus t) -> dump_ok (enc_tbl t) = true.
Proof.
  intros t H. unfold dump_ok, enc_tbl. rewrite forallb_forall. intros cv Hin.
  apply in_map_iff in Hin. destruct Hin as [c [<- Hc]]. rewrite Forall_forall in H. specialize (H c Hc).
  unfold enc_clu, clu_subs. rewrite forallb_forall. intros sv Hs. apply in_map_iff in Hs. destruct Hs as [s [<- Hs]].
  unfold clu_clean in H. rewrite Forall_forall in H. specialize (H s Hs).
  unfold enc_sub, sub_bks. rewrite forallb_forall. intros bv Hb. apply in_map_iff in Hb. destruct Hb as [b [<- Hb]].
  pose proof (sort_bk_forall clean _ H) as Hsort. rewrite Forall_forall in Hsort. specialize (Hsort b Hb).
  unfold enc_bk, bk_closed. unfold clean in Hsort. rewrite Hsort. reflexivity.
Qed.
Lemma count_once : forall l, Forall once l -> countb (fun b => krel b >=? 1) l = Z.of_nat (length l).
Proof.
  intros l H. unfold countb. f_equal. induction H as [|b r Hb Hr IH]; [reflexivity|].
  simpl. unfold once in Hb. rewrite Hb. simpl. rewrite IH. reflexivity.
Qed.
Arguments dump_ok : simpl never.
Arguments enc_tbl : simpl never.
Arguments countb : simpl never.
Arguments enc_sel : simpl never.
Lemma run_core : forall ops t, tbl_inv t -> forallb obs_core (map fst (run_rops t ops)) = true.
Proof.
  induction ops as [|o r IH]; intros t Hi; [reflexivity|].
  destruct o as [gs bc|c s a k x]; simpl in *.
  - destruct (table_reload_inv gs bc t Hi) as [t' [gerr [err [E Hi']]]]. rewrite E. simpl.
    destruct Hi' as [Hc Ho]. rewrite (dump_ok_enc t' Hc), (count_once _ Ho), Z.eqb_refl. simpl.
    apply IH. split; assumption.
  - apply IH. apply poke_inv; exact Hi.
Qed.
Theorem model_core : forall i, dec_in i <> None ->
  match run_C09 i with VL obs => forallb obs_core obs = true | _ => False end.
Proof.
  intros i Hwf. unfold run_C09 in *. destruct (dec_in i) as [ops|]; [|exfalso; apply Hwf; reflexivity].
  apply run_core. apply tbl0_inv.
Qed.

(* ---------- newly configured backends are created available ---------- *)
Lemma insZ_in : forall x y l, In x (insZ y l) <-> x = y \/ In x l.
Proof.
  intros x y. induction l as [|a r IH]; simpl.
  - split; [intros [H|[]]; left; symmetry; exact H|intros [H|[]]; left; symmetry; exact H].
  - destruct (y <? a); simpl.
    + split; [intros [H|H]; [left; symmetry; exact H|right; exact H]|intros [H|H]; [left; symmetry; exact H|right; exact H]].
    + destruct (y =? a) eqn:E; simpl.
      * apply Z.eqb_eq in E. subst. split; [intros H; right; exact H|intros [H|H]; [left; symmetry; exact H|exact H]].
      * rewrite IH. split; [intros [H|[H|H]]; auto|intros [H|[H|H]]; auto].
Qed.
Lemma sort_dedup_in : forall x l, In x (sort_dedup l) <-> In x l.
Proof.
  intros x. induction l as [|a r IH]; simpl; [tauto|]. rewrite insZ_in, IH. split; intros [H|H]; auto.
Qed.
Lemma conf_last_in : forall a c acc x, conf_last a c acc = Some x ->
  acc = Some x \/ In a (map (fun e => fst (fst e)) c).
Proof.
  intros a. induction c as [|[[a' n] w] r IH]; intros acc x H; simpl in *; [left; exact H|].
  apply IH in H. destruct H as [H|H]; [|right; right; exact H].
  destruct (a' =? a) eqn:E; [apply Z.eqb_eq in E; right; left; exact E|left; exact H].
Qed.
Lemma upd_old_used : forall c l used k rel u, upd_old c l used = Some (k, rel, u) ->
  forall a, In a u -> In a used \/ In a (map kaddr l).
Proof.
  intros c. induction l as [|b r IH]; intros used k rel u H a Ha; simpl in H.
  - inversion H; subst. left. exact Ha.
  - destruct (if memZ (kaddr b) used then None else conf_last (kaddr b) c None) as [[n w]|].
    + destruct (upd_old c r (kaddr b :: used)) as [[[k' rel'] u']|] eqn:E; [|discriminate]. inversion H; subst.
      destruct (IH _ _ _ _ E a Ha) as [[F|F]|F]; [right; left; exact F|left; exact F|right; right; exact F].
    + destruct (release_bk b); [|discriminate].
      destruct (upd_old c r used) as [[[k' rel'] u']|] eqn:E; [|discriminate]. inversion H; subst.
      destruct (IH _ _ _ _ E a Ha) as [F|F]; [left; exact F|right; right; exact F].
Qed.
Theorem update_adds : forall c l k rel a n w, update_rr c l = Some (k, rel) ->
  conf_last a c None = Some (n, w) -> ~ In a (map kaddr l) ->
  In (mkBk a n (w * 100) true 0 0 0) k.
Proof.
  intros c l k rel a n w H Hc Hn. unfold update_rr in H.
  destruct (upd_old c l []) as [[[k' rel'] u]|] eqn:E; [|discriminate]. inversion H; subst.
  apply in_or_app. right. unfold upd_new. apply in_flat_map. exists a. split.
  - apply sort_dedup_in. destruct (conf_last_in _ _ _ _ Hc) as [F|F]; [discriminate|exact F].
  - assert (Hu : memZ a u = false).
    { apply memZ_notin. intros Hin. destruct (upd_old_used _ _ _ _ _ _ E a Hin) as [[]|F]. contradiction. }
    rewrite Hu, Hc. left. reflexivity.
Qed.

(* ---------- a sub-cluster that stays configured keeps its backend objects verbatim ---------- *)
Lemma reload_old_kept : forall g l s w, In s l -> gfind (sname s) g = Some w ->
  In (mkSub (sname s) w (sbks s)) (fst (fst (reload_old g l))).
Proof.
  intros g. induction l as [|x r IH]; intros s w Hin Hg; [destruct Hin|]. simpl.
  destruct Hin as [->|Hin].
  - destruct (reload_old g r) as [[k m] gone]. rewrite Hg. simpl. left. reflexivity.
  - specialize (IH s w Hin Hg).
    destruct (reload_old g r) as [[k m] gone]. simpl in IH.
    destruct (gfind (sname x) g); simpl; [right|]; exact IH.
Qed.
Lemma ins_sub_in : forall x s l, In x (ins_sub s l) <-> x = s \/ In x l.
Proof.
  intros x s. induction l as [|a r IH]; simpl.
  - split; [intros [H|[]]; left; symmetry; exact H|intros [H|[]]; left; symmetry; exact H].
  - destruct (sname s <? sname a); simpl.
    + split; [intros [H|H]; [left; symmetry; exact H|right; exact H]|intros [H|H]; [left; symmetry; exact H|right; exact H]].
    + rewrite IH. split; [intros [H|[H|H]]; auto|intros [H|[H|H]]; auto].
Qed.
Lemma sort_subs_in : forall x l, In x (sort_subs l) <-> In x l.
Proof.
  intros x. induction l as [|a r IH]; simpl; [tauto|]. rewrite ins_sub_in, IH.
  split; [intros [H|H]; [left; symmetry; exact H|right; exact H]|intros [H|H]; [left; symmetry; exact H|right; exact H]].
Qed.
Theorem gslb_keeps : forall g l m nl rel m' s w, reload_gslb g l m = Some (nl, rel, false, m') ->
  In s l -> gfind (sname s) g = Some w -> In (mkSub (sname s) w (sbks s)) nl.
Proof.
  intros g l mt nl rel m' s w H Hin Hg. unfold reload_gslb in H.
  pose proof (reload_old_kept g l s w Hin Hg) as Hk.
  destruct (reload_old g l) as [[k m] gone]. simpl in Hk.
  destruct (pos_total _ =? 0); [discriminate|].
  destruct (release_subs gone); [|discriminate]. inversion H; subst.
  apply sort_subs_in. apply in_or_app. left. exact Hk.
Qed.

(* ---------- kept state through a whole table reload ---------- *)
Lemma ins_clu_in : forall x c l, In x (ins_clu c l) <-> x = c \/ In x l.
Proof.
  intros x c. induction l as [|a r IH]; simpl.
  - split; [intros [H|[]]; left; symmetry; exact H|intros [H|[]]; left; symmetry; exact H].
  - destruct (cname c <? cname a); simpl.
    + split; [intros [H|H]; [left; symmetry; exact H|right; exact H]|intros [H|H]; [left; symmetry; exact H|right; exact H]].
    + rewrite IH. split; [intros [H|[H|H]]; auto|intros [H|[H|H]]; auto].
Qed.
(* phase 1: every configured cluster is in the result with the sub-cluster list its own Reload produced *)
Lemma phase1_in : forall gs old cs rel e n g,
  phase1 gs old = Some (cs, rel, e) -> In (n, g) gs ->
  exists subs' rel' e' m', 
    reload_gslb g (match cfind n old with Some c => csubs c | None => [] end)
                  (match cfind n old with Some c => cmeta c | None => meta0 end) = Some (subs', rel', e', m') /\
    In (mkClu n subs' m') cs /\ (e = false -> e' = false).
Proof.
  induction gs as [|[n0 g0] r IH]; intros old cs rel e n g H Hin; [destruct Hin|]. simpl in H.
  destruct (reload_gslb g0 _ _) as [[[[subs0 rel0] e0] m0]|] eqn:E0; [|discriminate].
  destruct (phase1 r old) as [[[cs1 rel1] e1]|] eqn:E1; [|discriminate]. inversion H; subst.
  destruct Hin as [Heq|Hin].
  - inversion Heq; subst. exists subs0, rel0, e0, m0. split; [exact E0|]. split; [apply ins_clu_in; left; reflexivity|].
    intros Hf. apply orb_false_iff in Hf. apply Hf.
  - destruct (IH old cs1 rel1 e1 n g E1 Hin) as [subs' [rel' [e' [m' [A [B C]]]]]].
    exists subs', rel', e', m'. split; [exact A|]. split; [apply ins_clu_in; right; exact B|].
    intros Hf. apply orb_false_iff in Hf. apply C. apply Hf.
Qed.
(* BackendReload keeps every sub-cluster, with its backend list updated or untouched *)
Lemma backend_reload_in : forall cb l l' rel s, backend_reload cb l = Some (l', rel) -> In s l ->
  match bfind (sname s) cb with
  | Some c => exists bs rel0, update_rr c (sbks s) = Some (bs, rel0) /\ In (mkSub (sname s) (sweight s) bs) l'
  | None => In s l'
  end.
Proof.
  intros cb. induction l as [|x r IH]; intros l' rel s H Hin; [destruct Hin|]. simpl in H.
  destruct Hin as [->|Hin].
  - destruct (bfind (sname s) cb) as [c|].
    + destruct (update_rr c (sbks s)) as [[bs rel0]|] eqn:E; [|discriminate].
      destruct (backend_reload cb r) as [[r' rel']|]; [|discriminate]. inversion H; subst.
      exists bs, rel0. split; [reflexivity|left; reflexivity].
    + destruct (backend_reload cb r) as [[r' rel']|]; [|discriminate]. inversion H; subst. left. reflexivity.
  - destruct (bfind (sname x) cb) as [cx|].
    + destruct (update_rr cx (sbks x)) as [[bsx relx]|]; [|discriminate].
      destruct (backend_reload cb r) as [[r1 rel1]|] eqn:E; [|discriminate].
      pose proof (IH _ _ _ eq_refl Hin) as Hrec. inversion H; subst.
      destruct (bfind (sname s) cb).
      * destruct Hrec as [bs [rel0 [A B]]]. exists bs, rel0. split; [exact A|right; exact B].
      * right. exact Hrec.
    + destruct (backend_reload cb r) as [[r1 rel1]|] eqn:E; [|discriminate].
      pose proof (IH _ _ _ eq_refl Hin) as Hrec. inversion H; subst.
      destruct (bfind (sname s) cb).
      * destruct Hrec as [bs [rel0 [A B]]]. exists bs, rel0. split; [exact A|right; exact B].
      * right. exact Hrec.
Qed.
Lemma phase3_in : forall bc l l' rel e c, phase3 bc l = Some (l', rel, e) -> In c l ->
  match bfind (cname c) bc with
  | Some cb => exists subs rel0, backend_reload cb (csubs c) = Some (subs, rel0) /\ In (mkClu (cname c) subs (cmeta c)) l'
  | None => In c l'
  end.
Proof.
  intros bc. induction l as [|x r IH]; intros l' rel e c H Hin; [destruct Hin|]. simpl in H.
  destruct Hin as [->|Hin].
  - destruct (bfind (cname c) bc) as [cb|].
    + destruct (backend_reload cb (csubs c)) as [[subs rel0]|] eqn:E; [|discriminate].
      destruct (phase3 bc r) as [[[r' rel'] e']|]; [|discriminate]. inversion H; subst.
      exists subs, rel0. split; [reflexivity|left; reflexivity].
    + destruct (phase3 bc r) as [[[r' rel'] e']|]; [|discriminate]. inversion H; subst. left. reflexivity.
  - destruct (bfind (cname x) bc) as [cbx|].
    + destruct (backend_reload cbx (csubs x)) as [[subsx relx]|]; [|discriminate].
      destruct (phase3 bc r) as [[[r1 rel1] e1]|] eqn:E; [|discriminate].
      pose proof (IH _ _ _ _ eq_refl Hin) as Hrec. inversion H; subst.
      destruct (bfind (cname c) bc).
      * destruct Hrec as [subs [rel0 [A B]]]. exists subs, rel0. split; [exact A|right; exact B].
      * right. exact Hrec.
    + destruct (phase3 bc r) as [[[r1 rel1] e1]|] eqn:E; [|discriminate].
      pose proof (IH _ _ _ _ eq_refl Hin) as Hrec. inversion H; subst.
      destruct (bfind (cname c) bc).
      * destruct Hrec as [subs [rel0 [A B]]]. exists subs, rel0. split; [exact A|right; exact B].
      * right. exact Hrec.
Qed.

(* what happens to backend b of a persisting sub-cluster: untouched when no backend conf names its cluster / sub-cluster,
   otherwise the same object with the configured weight *)
Definition kept_image (bc : list (Z * list (Z * bconf))) (cn sn : Z) (b : bk) : option bk :=
  match bfind cn bc with
  | None => Some b
  | Some cb => match bfind sn cb with
               | None => Some b
               | Some conf => match conf_last (kaddr b) conf None with
                              | Some (_, w) => Some (set_weight b w)
                              | None => None            (* address removed: released *)
                              end
               end
  end.

(* BalTableReload keeps the very object (availability, counters, name, release count) of every backend whose cluster,
   sub-cluster and address persist in the new configuration - through Reload, BackendReload and Update. *)
Theorem table_keeps : forall gs bc t t' err c g s w b b',
  table_reload gs bc t = Some (t', false, err) ->
  cfind (cname c) (clus t) = Some c -> In (cname c, g) gs ->
  In s (csubs c) -> gfind (sname s) g = Some w ->
  In b (sbks s) -> NoDup (map kaddr (sbks s)) ->
  kept_image bc (cname c) (sname s) b = Some b' ->
  exists c' s', In c' (clus t') /\ cname c' = cname c /\ In s' (csubs c') /\ sname s' = sname s /\
                sweight s' = w /\ In b' (sbks s').
Proof.
  intros gs bc t t' err c g s w b b' H Hc Hg Hs Hw Hb Hnd Hk. unfold table_reload in H.
  destruct (phase1 gs (clus t)) as [[[cs rel1] e]|] eqn:E1; [|discriminate].
  destruct (release_clusters _) as [rel2|]; [|discriminate].
  destruct (phase3 bc cs) as [[[cs' rel3] berr]|] eqn:E3; [|discriminate]. inversion H; subst. clear H.
  destruct (phase1_in _ _ _ _ _ _ _ E1 Hg) as [subs' [rel' [e' [m' [A [B C]]]]]].
  rewrite Hc in A. specialize (C eq_refl). subst e'.
  pose proof (gslb_keeps _ _ _ _ _ _ s w A Hs Hw) as Hin1.
  pose proof (phase3_in _ _ _ _ _ _ E3 B) as H3. cbn [cname csubs cmeta] in H3.
  unfold kept_image in Hk.
  destruct (bfind (cname c) bc) as [cb|].
  - destruct H3 as [subs [rel0 [Hbr Hin3]]].
    pose proof (backend_reload_in _ _ _ _ _ Hbr Hin1) as H4. cbn [sname sweight sbks] in H4.
    destruct (bfind (sname s) cb) as [conf|].
    + destruct H4 as [bs [rel00 [Hu Hin4]]].
      destruct (conf_last (kaddr b) conf None) as [[n0 w0]|] eqn:Ecl; [|discriminate]. inversion Hk; subst.
      eexists. eexists. split; [exact Hin3|]. split; [reflexivity|]. split; [exact Hin4|]. split; [reflexivity|].
      split; [reflexivity|]. eapply update_keeps_state; eassumption.
    + inversion Hk; subst. eexists. eexists. split; [exact Hin3|]. split; [reflexivity|]. split; [exact H4|].
      split; [reflexivity|]. split; [reflexivity|exact Hb].
  - inversion Hk; subst. eexists. eexists. split; [exact H3|]. split; [reflexivity|]. split; [exact Hin1|].
    split; [reflexivity|]. split; [reflexivity|exact Hb].
Qed.

(* ---------- selection after a reload: exactly the eligible backends of the positive-weight sub-clusters ---------- *)
Lemma pos_total_nonneg : forall l, 0 <= pos_total l.
Proof.
  induction l as [|s r IH]; simpl; [lia|]. destruct (sweight s >? 0) eqn:E; [|exact IH].
  rewrite Z.gtb_ltb in E. apply Z.ltb_lt in E. lia.
Qed.
Lemma walk_sound : forall l w cur, 0 <= w < pos_total l ->
  exists s, walk l w cur = Some s /\ In s l /\ sweight s > 0.
Proof.
  induction l as [|s r IH]; intros w cur Hw; simpl in *; [lia|].
  destruct (sweight s >? 0) eqn:E; rewrite Z.gtb_ltb in E.
  - apply Z.ltb_lt in E. destruct (sweight s <=? 0) eqn:E2; [apply Z.leb_le in E2; lia|].
    destruct (w - sweight s <? 0) eqn:E3.
    + exists s. split; [reflexivity|]. split; [left; reflexivity|lia].
    + apply Z.ltb_ge in E3. destruct (IH (w - sweight s) (Some s)) as [s' [A [B C]]]; [lia|].
      exists s'. split; [exact A|]. split; [right; exact B|exact C].
  - apply Z.ltb_ge in E. destruct (sweight s <=? 0) eqn:E2; [|apply Z.leb_gt in E2; lia].
    destruct (IH w (Some s) Hw) as [s' [A [B C]]]. exists s'. split; [exact A|]. split; [right; exact B|exact C].
Qed.
Lemma walk_complete : forall l s, In s l -> sweight s > 0 ->
  exists w, 0 <= w < pos_total l /\ forall cur, walk l w cur = Some s.
Proof.
  induction l as [|x r IH]; intros s Hin Hs; [destruct Hin|]. simpl.
  destruct Hin as [->|Hin].
  - exists 0. destruct (sweight s >? 0) eqn:E; [|rewrite Z.gtb_ltb in E; apply Z.ltb_ge in E; lia].
    pose proof (pos_total_nonneg r). split; [lia|]. intros cur.
    destruct (sweight s <=? 0) eqn:E2; [apply Z.leb_le in E2; lia|].
    destruct (0 - sweight s <? 0) eqn:E3; [reflexivity|apply Z.ltb_ge in E3; lia].
  - destruct (IH s Hin Hs) as [w0 [Hw0 Hwalk]].
    destruct (sweight x >? 0) eqn:E; rewrite Z.gtb_ltb in E.
    + apply Z.ltb_lt in E. exists (w0 + sweight x). split; [lia|]. intros cur.
      destruct (sweight x <=? 0) eqn:E2; [apply Z.leb_le in E2; lia|].
      replace (w0 + sweight x - sweight x) with w0 by lia.
      destruct (w0 <? 0) eqn:E3; [apply Z.ltb_lt in E3; lia|]. apply Hwalk.
    + apply Z.ltb_ge in E. exists w0. split; [exact Hw0|]. intros cur.
      destruct (sweight x <=? 0) eqn:E2; [|apply Z.leb_gt in E2; lia]. apply Hwalk.
Qed.

Definition positive (s : sub) : bool := sweight s >? 0.
(* lastAvailIndex really is the position of the last positive-weight sub-cluster *)
Lemma last_pos_spec : forall l i acc, 0 <= i -> existsb positive l = true ->
  exists s, nth_error l (Z.to_nat (last_pos l i acc - i)) = Some s /\ sweight s > 0 /\ i <= last_pos l i acc.
Proof.
  induction l as [|x r IH]; intros i acc Hi Hex; [discriminate|]. simpl in Hex. simpl.
  destruct (existsb positive r) eqn:Er.
  - destruct (IH (i + 1) (if sweight x >? 0 then i else acc)) as [s [A [B C]]]; [lia|reflexivity|].
    exists s. split; [|split; [exact B|lia]].
    replace (Z.to_nat (last_pos r (i + 1) (if sweight x >? 0 then i else acc) - i))
      with (S (Z.to_nat (last_pos r (i + 1) (if sweight x >? 0 then i else acc) - (i + 1)))) by lia.
    exact A.
  - rewrite orb_false_r in Hex. unfold positive in Hex. rewrite Hex.
    assert (Hlp : forall j a, last_pos r j a = a).
    { clear -Er. induction r as [|y r IH]; intros j a; simpl; [reflexivity|].
      simpl in Er. apply orb_false_iff in Er. destruct Er as [E1 E2]. unfold positive in E1. rewrite E1. apply IH. exact E2. }
    rewrite Hlp. replace (i - i) with 0 by lia. exists x. split; [reflexivity|]. split; [|lia].
    rewrite Z.gtb_ltb in Hex. apply Z.ltb_lt in Hex. lia.
Qed.
Lemma count_pos_one : forall l, count_pos l = 1 -> exists s, filter positive l = [s].
Proof.
  intros l H. unfold count_pos in H. fold positive in H.
  destruct (filter positive l) as [|s [|s2 r]]; simpl in H; try lia. exists s. reflexivity.
Qed.

(* the short-cuts are those Reload computes from the list itself *)
Definition meta_fresh (c : clu) : Prop :=
  fst (fst (cmeta c)) = pos_total (csubs c) /\
  snd (fst (cmeta c)) = (count_pos (csubs c) =? 1) /\
  (count_pos (csubs c) =? 1 = true -> snd (cmeta c) = last_pos (csubs c) 0 0).

Lemma choose_sound : forall c r, meta_fresh c -> 0 <= r < pos_total (csubs c) ->
  exists s, choose_sub c r = Some s /\ In s (csubs c) /\ sweight s > 0.
Proof.
  intros c r [H1 [H2 H3]] Hr. unfold choose_sub. destruct (cmeta c) as [[total single] av]. simpl in *. subst.
  destruct (count_pos (csubs c) =? 1) eqn:E.
  - rewrite (H3 eq_refl). apply Z.eqb_eq in E. destruct (count_pos_one _ E) as [s0 Hf].
    assert (Hex : existsb positive (csubs c) = true).
    { apply existsb_exists. exists s0. assert (Hin : In s0 (filter positive (csubs c))) by (rewrite Hf; left; reflexivity).
      apply filter_In in Hin. exact Hin. }
    destruct (last_pos_spec (csubs c) 0 0 (Z.le_refl 0) Hex) as [s [A [B C]]].
    rewrite Z.sub_0_r in A. destruct (last_pos (csubs c) 0 0 <? 0) eqn:E2; [apply Z.ltb_lt in E2; lia|].
    exists s. split; [exact A|]. split; [eapply nth_error_In; exact A|exact B].
  - apply walk_sound. exact Hr.
Qed.
Lemma choose_complete : forall c s, meta_fresh c -> In s (csubs c) -> sweight s > 0 ->
  exists r, 0 <= r < pos_total (csubs c) /\ choose_sub c r = Some s.
Proof.
  intros c s [H1 [H2 H3]] Hin Hs. unfold choose_sub. destruct (cmeta c) as [[total single] av]. simpl in *. subst.
  destruct (walk_complete _ _ Hin Hs) as [w [Hw Hwalk]].
  destruct (count_pos (csubs c) =? 1) eqn:E.
  - exists w. split; [exact Hw|]. rewrite (H3 eq_refl). apply Z.eqb_eq in E. destruct (count_pos_one _ E) as [s0 Hf].
    assert (Hs0 : s = s0).
    { assert (Hin' : In s (filter positive (csubs c))).
      { apply filter_In. split; [exact Hin|]. unfold positive. rewrite Z.gtb_ltb. apply Z.ltb_lt. lia. }
      rewrite Hf in Hin'. destruct Hin' as [<-|[]]. reflexivity. }
    assert (Hex : existsb positive (csubs c) = true).
    { apply existsb_exists. exists s. split; [exact Hin|]. unfold positive. rewrite Z.gtb_ltb. apply Z.ltb_lt. lia. }
    destruct (last_pos_spec (csubs c) 0 0 (Z.le_refl 0) Hex) as [s1 [A [B C]]].
    rewrite Z.sub_0_r in A. destruct (last_pos (csubs c) 0 0 <? 0) eqn:E2; [apply Z.ltb_lt in E2; lia|].
    rewrite A. f_equal.
    assert (Hin1 : In s1 (filter positive (csubs c))).
    { apply filter_In. split; [eapply nth_error_In; exact A|]. unfold positive. rewrite Z.gtb_ltb. apply Z.ltb_lt. lia. }
    rewrite Hf in Hin1. destruct Hin1 as [<-|[]]. symmetry. exact Hs0.
  - exists w. split; [exact Hw|apply Hwalk].
Qed.

(* BalanceGslb.Balance (all hash residues, enough picks) selects exactly the available positive-weight backends of
   the positive-weight sub-clusters: added ones are selectable, drained / unavailable / weight-0 ones are not *)
Theorem selected_exact : forall c x, meta_fresh c -> 0 < pos_total (csubs c) ->
  (In x (fst (selected c)) <->
   exists s b, In s (csubs c) /\ sweight s > 0 /\ In b (sbks s) /\ bk_eligible b = true /\ x = sel_code s b).
Proof.
  intros c x Hm Hpos. unfold selected. destruct Hm as [H1 H2]. rewrite H1.
  destruct (pos_total (csubs c) <=? 0) eqn:E; [apply Z.leb_le in E; lia|]. cbn [fst].
  rewrite sort_dedup_in. rewrite in_flat_map. split.
  - intros [[pk er] [Hin Hx]]. apply in_map_iff in Hin. destruct Hin as [k [Hk Hseq]]. apply in_seq in Hseq.
    unfold select_r in Hk. destruct (choose_sound c (Z.of_nat k) (conj H1 H2)) as [s [A [B C]]]; [lia|]. rewrite A in Hk.
    destruct (filter bk_eligible (sbks s)) as [|b0 el] eqn:Ef; inversion Hk; subst; cbn [fst] in Hx; [destruct Hx|].
    change (In x (map (sel_code s) (b0 :: el))) in Hx.
    rewrite <- Ef in Hx.
    apply in_map_iff in Hx. destruct Hx as [b [Hb Hbin]]. apply filter_In in Hbin. destruct Hbin as [Hb1 Hb2].
    exists s, b. repeat split; auto.
  - intros [s [b [Hs [Hw [Hb [He ->]]]]]].
    destruct (choose_complete c s (conj H1 H2) Hs Hw) as [r [Hr Hc]].
    exists (select_r c r). split.
    + apply in_map_iff. exists (Z.to_nat r). split; [rewrite Z2Nat.id by lia; reflexivity|]. apply in_seq. lia.
    + unfold select_r. rewrite Hc.
      assert (Hin : In b (filter bk_eligible (sbks s))) by (apply filter_In; split; assumption).
      destruct (filter bk_eligible (sbks s)) as [|b0 el] eqn:Ef; [destruct Hin|]. cbn [fst].
      rewrite <- Ef. apply in_map. apply filter_In. split; assumption.
Qed.
(* a successful BalanceGslb.Reload leaves fresh short-cuts *)
Lemma reload_gslb_fresh : forall g l m nl rel m', reload_gslb g l m = Some (nl, rel, false, m') ->
  meta_fresh (mkClu 0 nl m').
Proof.
  intros g l m nl rel m' H. unfold reload_gslb in H. destruct (reload_old g l) as [[k mu] gone].
  destruct (pos_total _ =? 0); [discriminate|]. destruct (release_subs gone); [|discriminate]. inversion H; subst.
  unfold meta_fresh, new_meta. simpl. split; [reflexivity|]. split; [reflexivity|]. intros ->. reflexivity.
Qed.
