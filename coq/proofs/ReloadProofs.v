(* Proofs about model/Reload.v (C09). *)
From Coq Require Import List ZArith Bool Lia.
From Bfe Require Import lib.Val model.Reload run.RunC09.
Import ListNotations.
Open Scope Z_scope.

Definition clean (b : bk) : Prop := krel b = 0.          (* never released *)
Definition once (b : bk) : Prop := krel b = 1.           (* released exactly once *)
Definition sub_clean (s : sub) : Prop := Forall clean (sbks s).
Definition clu_clean (c : clu) : Prop := Forall sub_clean (csubs c).
Definition tbl_inv (t : tbl) : Prop := Forall clu_clean (clus t) /\ Forall once (orphans t).

Lemma release_bk_clean : forall b, clean b -> exists b', release_bk b = Some b' /\ once b'.
Proof.
  intros b H. unfold release_bk, clean in *. rewrite H. simpl. eexists. split; [reflexivity|]. unfold once. simpl. lia.
Qed.
Lemma release_all_clean : forall l, Forall clean l -> exists l', release_all l = Some l' /\ Forall once l'.
Proof.
  induction l as [|b r IH]; intros H; simpl.
  - exists []. split; [reflexivity|constructor].
  - inversion H as [|? ? Hb Hr]; subst. destruct (release_bk_clean b Hb) as [b' [E1 O1]].
    destruct (IH Hr) as [r' [E2 O2]]. rewrite E1, E2. eexists. split; [reflexivity|]. constructor; assumption.
Qed.

Lemma upd_old_clean : forall c l used, Forall clean l ->
  exists k rel u, upd_old c l used = Some (k, rel, u) /\ Forall clean k /\ Forall once rel /\
    (* every kept object is an old object whose weight alone was rewritten *)
    Forall (fun b' => exists b w, In b l /\ b' = set_weight b w) k.
Proof.
  intros c. induction l as [|b r IH]; intros used H; simpl.
  - exists [], [], used. repeat split; constructor.
  - inversion H as [|? ? Hb Hr]; subst.
    destruct (if memZ (kaddr b) used then None else conf_last (kaddr b) c None) as [[n w]|].
    + destruct (IH (kaddr b :: used) Hr) as [k [rel [u [E [Ck [Or Hk]]]]]]. rewrite E.
      exists (set_weight b w :: k), rel, u.
      split; [reflexivity|]. split; [constructor; [exact Hb|exact Ck]|]. split; [exact Or|].
      * constructor.
        -- exists b, w. split; [left; reflexivity|reflexivity].
        -- eapply Forall_impl; [|exact Hk]. intros a [b0 [w0 [Hin ->]]]. exists b0, w0. split; [right; exact Hin|reflexivity].
    + destruct (release_bk_clean b Hb) as [b' [E1 O1]]. rewrite E1.
      destruct (IH used Hr) as [k [rel [u [E [Ck [Or Hk]]]]]]. rewrite E.
      exists k, (b' :: rel), u.
      split; [reflexivity|]. split; [exact Ck|]. split; [constructor; assumption|].
      eapply Forall_impl; [|exact Hk]. intros a [b0 [w0 [Hin ->]]]. exists b0, w0. split; [right; exact Hin|reflexivity].
Qed.
Lemma upd_new_clean : forall c used, Forall clean (upd_new c used).
Proof.
  intros c used. unfold upd_new. apply Forall_forall. intros b Hin. apply in_flat_map in Hin.
  destruct Hin as [a [_ Hb]]. destruct (memZ a used); [destruct Hb|].
  destruct (conf_last a c None) as [[n w]|]; [|destruct Hb]. destruct Hb as [<-|[]]. reflexivity.
Qed.
Lemma update_rr_clean : forall c l, Forall clean l ->
  exists k rel, update_rr c l = Some (k, rel) /\ Forall clean k /\ Forall once rel.
Proof.
  intros c l H. unfold update_rr. destruct (upd_old_clean c l [] H) as [k [rel [u [E [Ck [Or _]]]]]]. rewrite E.
  eexists. eexists. split; [reflexivity|]. split; [|exact Or]. apply Forall_app. split; [exact Ck|apply upd_new_clean].
Qed.

Lemma reload_old_clean : forall g l, Forall sub_clean l ->
  let '(k, m, gone) := reload_old g l in Forall sub_clean k /\ Forall sub_clean m /\ Forall sub_clean gone.
Proof.
  intros g. induction l as [|s r IH]; intros H; simpl.
  - repeat split; constructor.
  - inversion H as [|? ? Hs Hr]; subst. specialize (IH Hr).
    destruct (reload_old g r) as [[k m] gone]. destruct IH as [A [B C]].
    destruct (gfind (sname s) g) as [w|]; repeat split; try constructor; auto.
Qed.
Lemma release_subs_clean : forall l, Forall sub_clean l -> exists rel, release_subs l = Some rel /\ Forall once rel.
Proof.
  induction l as [|s r IH]; intros H; simpl.
  - exists []. split; [reflexivity|constructor].
  - inversion H as [|? ? Hs Hr]; subst. destruct (release_all_clean (sbks s) Hs) as [a [E1 O1]]. rewrite E1.
    destruct (IH Hr) as [b [E2 O2]]. rewrite E2. eexists. split; [reflexivity|]. apply Forall_app. split; assumption.
Qed.
Lemma ins_sub_forall : forall (P : sub -> Prop) s l, P s -> Forall P l -> Forall P (ins_sub s l).
Proof.
  intros P s. induction l as [|x r IH]; intros Hs Hl; simpl.
  - constructor; [exact Hs|constructor].
  - inversion Hl; subst. destruct (sname s <? sname x); constructor; auto.
Qed.
Lemma sort_subs_forall : forall (P : sub -> Prop) l, Forall P l -> Forall P (sort_subs l).
Proof.
  intros P. induction l as [|x r IH]; intros H; simpl; [constructor|].
  inversion H; subst. apply ins_sub_forall; auto.
Qed.
Lemma reload_gslb_clean : forall g l m, Forall sub_clean l ->
  exists nl rel e m', reload_gslb g l m = Some (nl, rel, e, m') /\ Forall sub_clean nl /\ Forall once rel.
Proof.
  intros g l mt H. unfold reload_gslb. pose proof (reload_old_clean g l H) as Hc.
  destruct (reload_old g l) as [[k m] gone]. destruct Hc as [Ck [Cm Cg]].
  destruct (pos_total _ =? 0).
  - eexists. eexists. eexists. eexists. split; [reflexivity|]. split; [exact Cm|constructor].
  - destruct (release_subs_clean gone Cg) as [rel [E O]]. rewrite E.
    eexists. eexists. eexists. eexists. split; [reflexivity|]. split; [|exact O].
    apply sort_subs_forall. apply Forall_app. split; [exact Ck|].
    apply Forall_forall. intros s Hin. apply in_flat_map in Hin. destruct Hin as [e [_ Hs]].
    destruct (memZ (fst e) (map sname l)); [destruct Hs|]. destruct Hs as [<-|[]]. constructor.
Qed.

Lemma backend_reload_clean : forall cb l, Forall sub_clean l ->
  exists l' rel, backend_reload cb l = Some (l', rel) /\ Forall sub_clean l' /\ Forall once rel.
Proof.
  intros cb. induction l as [|s r IH]; intros H; simpl.
  - exists [], []. repeat split; constructor.
  - inversion H as [|? ? Hs Hr]; subst. destruct (IH Hr) as [r' [rel' [E [Cr Or]]]].
    destruct (bfind (sname s) cb) as [c|].
    + destruct (update_rr_clean c (sbks s) Hs) as [k [rel [E1 [Ck O1]]]]. rewrite E1, E.
      eexists. eexists. split; [reflexivity|]. split; [constructor; [exact Ck|exact Cr]|apply Forall_app; split; assumption].
    + rewrite E. eexists. eexists. split; [reflexivity|]. split; [constructor; assumption|exact Or].
Qed.

Lemma cfind_clean : forall n l, Forall clu_clean l ->
  Forall sub_clean (match cfind n l with Some c => csubs c | None => [] end).
Proof.
  intros n. induction l as [|c r IH]; intros H; simpl; [constructor|].
  inversion H; subst. destruct (cname c =? n); [assumption|apply IH; assumption].
Qed.
Lemma ins_clu_forall : forall (P : clu -> Prop) c l, P c -> Forall P l -> Forall P (ins_clu c l).
Proof.
  intros P c. induction l as [|x r IH]; intros Hc Hl; simpl.
  - constructor; [exact Hc|constructor].
  - inversion Hl; subst. destruct (cname c <? cname x); constructor; auto.
Qed.
Lemma phase1_clean : forall gs old, Forall clu_clean old ->
  exists cs rel e, phase1 gs old = Some (cs, rel, e) /\ Forall clu_clean cs /\ Forall once rel.
Proof.
  induction gs as [|[n g] r IH]; intros old H; simpl.
  - exists [], [], false. split; [reflexivity|]. split; constructor.
  - destruct (reload_gslb_clean g _ (match cfind n old with Some c => cmeta c | None => meta0 end) (cfind_clean n old H))
      as [nl [rel [e [m' [E [A B]]]]]]. rewrite E.
    destruct (IH old H) as [cs [rel' [e' [E' [A' B']]]]]. rewrite E'.
    eexists. eexists. eexists. split; [reflexivity|]. split.
    + apply ins_clu_forall; [exact A|exact A'].
    + apply Forall_app. split; assumption.
Qed.
Lemma flat_sbks_clean : forall l, Forall sub_clean l -> Forall clean (flat_map sbks l).
Proof.
  induction l as [|s r IH]; intros H; simpl; [constructor|]. inversion H; subst.
  apply Forall_app. split; [assumption|apply IH; assumption].
Qed.
Lemma release_clusters_clean : forall l, Forall clu_clean l -> exists rel, release_clusters l = Some rel /\ Forall once rel.
Proof.
  induction l as [|c r IH]; intros H; simpl.
  - exists []. split; [reflexivity|constructor].
  - inversion H as [|? ? Hc Hr]; subst.
    destruct (release_all_clean _ (flat_sbks_clean _ Hc)) as [a [E1 O1]]. rewrite E1.
    destruct (IH Hr) as [b [E2 O2]]. rewrite E2. eexists. split; [reflexivity|]. apply Forall_app. split; assumption.
Qed.
Lemma phase3_clean : forall bc l, Forall clu_clean l ->
  exists l' rel e, phase3 bc l = Some (l', rel, e) /\ Forall clu_clean l' /\ Forall once rel.
Proof.
  intros bc. induction l as [|c r IH]; intros H; simpl.
  - exists [], [], false. repeat split; constructor.
  - inversion H as [|? ? Hc Hr]; subst. destruct (IH Hr) as [r' [rel' [e' [E [Cr Or]]]]].
    destruct (bfind (cname c) bc) as [cb|].
    + destruct (backend_reload_clean cb _ Hc) as [subs [rel [E1 [Cs O1]]]]. rewrite E1, E.
      eexists. eexists. eexists. split; [reflexivity|]. split; [constructor; [exact Cs|exact Cr]|apply Forall_app; split; assumption].
    + rewrite E. eexists. eexists. eexists. split; [reflexivity|]. split; [constructor; assumption|exact Or].
Qed.
Lemma filter_forall : forall {A} (P : A -> Prop) f l, Forall P l -> Forall P (filter f l).
Proof.
  intros A P f. induction l as [|x r IH]; intros H; simpl; [constructor|]. inversion H; subst.
  destruct (f x); [constructor|]; auto.
Qed.

(* From a table in which nothing reachable has been released a reload never panics and preserves the invariant,
   also when a gslb Reload returns its "total weight = 0" error. *)
Theorem table_reload_inv : forall gs bc t, tbl_inv t ->
  exists t' gerr err, table_reload gs bc t = Some (t', gerr, err) /\ tbl_inv t'.
Proof.
  intros gs bc t [Hc Ho]. unfold table_reload.
  destruct (phase1_clean gs _ Hc) as [cs [rel1 [e [E1 [A B]]]]]. rewrite E1.
  destruct (release_clusters_clean _ (filter_forall clu_clean (fun c => negb (memZ (cname c) (map fst gs))) _ Hc)) as [rel2 [E2 O2]].
  rewrite E2.
  destruct (phase3_clean bc cs A) as [l' [rel [e' [E3 [C3 O3]]]]]. rewrite E3.
  eexists. eexists. eexists. split; [reflexivity|]. split; [exact C3|]. simpl.
  repeat (apply Forall_app; split); assumption.
Qed.

(* ---------- histories ---------- *)
Arguments gslb_err_path : simpl never.
Fixpoint states (t : tbl) (ops : list rop) : list (option tbl) :=
  match ops with
  | [] => []
  | OPoke c s a k x :: r => Some (poke c s a k x t) :: states (poke c s a k x t) r
  | OReload gs bc :: r =>
    match table_reload gs bc t with
    | None => [None]
    | Some (t', _, _) => Some t' :: states t' r
    end
  end.

Lemma poke_bk_krel : forall k v b, krel (poke_bk k v b) = krel b.
Proof. intros k v b. unfold poke_bk. destruct (k =? 0); [reflexivity|]. destruct (k =? 1); reflexivity. Qed.
Lemma poke_inv : forall c s a k x t, tbl_inv t -> tbl_inv (poke c s a k x t).
Proof.
  intros c s a k x t [Hc Ho]. split; [|exact Ho]. unfold poke; simpl.
  apply Forall_forall. intros cl Hin. apply in_map_iff in Hin. destruct Hin as [cl0 [<- Hin0]].
  rewrite Forall_forall in Hc. specialize (Hc cl0 Hin0).
  destruct (cname cl0 =? c); [|exact Hc]. unfold clu_clean; simpl.
  apply Forall_forall. intros sb Hs. apply in_map_iff in Hs. destruct Hs as [sb0 [<- Hs0]].
  unfold clu_clean in Hc. rewrite Forall_forall in Hc. specialize (Hc sb0 Hs0).
  destruct (sname sb0 =? s); [|exact Hc]. unfold sub_clean; simpl.
  apply Forall_forall. intros b Hb. apply in_map_iff in Hb. destruct Hb as [b0 [<- Hb0]].
  unfold sub_clean in Hc. rewrite Forall_forall in Hc. specialize (Hc b0 Hb0).
  destruct (kaddr b0 =? a); [|exact Hc]. unfold clean. rewrite poke_bk_krel. exact Hc.
Qed.
Lemma table_reload_flag : forall gs bc t t' gerr err,
  table_reload gs bc t = Some (t', gerr, err) -> gerr = gslb_err_path gs t.
Proof.
  intros gs bc t t' gerr err H. unfold table_reload, gslb_err_path in *.
  destruct (phase1 gs (clus t)) as [[[cs rel1] e]|]; [|discriminate].
  destruct (release_clusters _) as [rel2|]; [|discriminate].
  destruct (phase3 bc cs) as [[[cs' rel3] berr]|]; [|discriminate]. inversion H; reflexivity.
Qed.

(* For every history: no reload panics, and after every operation no object reachable from the table has been
   released and every object that left the table has been released exactly once. *)
Theorem history_inv : forall ops t, tbl_inv t ->
  Forall (fun st => exists t', st = Some t' /\ tbl_inv t') (states t ops).
Proof.
  induction ops as [|o r IH]; intros t Hi; [constructor|].
  destruct o as [gs bc|c s a k x]; simpl in *.
  - destruct (table_reload_inv gs bc t Hi) as [t' [gerr [err [E Hi']]]]. rewrite E.
    constructor; [exists t'; split; [reflexivity|exact Hi']|]. apply IH; assumption.
  - constructor; [eexists; split; [reflexivity|apply poke_inv; exact Hi]|]. apply IH. apply poke_inv; exact Hi.
Qed.
Lemma tbl0_inv : tbl_inv tbl0.
Proof. split; constructor. Qed.

(* ---------- kept state ---------- *)
Lemma memZ_false : forall x l, memZ x l = false -> ~ In x l.
Proof.
  intros x l H Hin. unfold memZ in H. assert (existsb (Z.eqb x) l = true); [|congruence].
  apply existsb_exists. exists x. split; [exact Hin|apply Z.eqb_refl].
Qed.
Lemma memZ_notin : forall x l, ~ In x l -> memZ x l = false.
Proof.
  intros x l H. unfold memZ. destruct (existsb (Z.eqb x) l) eqn:E; [|reflexivity].
  apply existsb_exists in E. destruct E as [y [Hy Hxy]]. apply Z.eqb_eq in Hxy. subst. contradiction.
Qed.
Lemma upd_old_keeps : forall c l used k rel u,
  upd_old c l used = Some (k, rel, u) -> NoDup (map kaddr l) ->
  forall b n w, In b l -> ~ In (kaddr b) used -> conf_last (kaddr b) c None = Some (n, w) ->
  In (set_weight b w) k.
Proof.
  intros c. induction l as [|b0 r IH]; intros used k rel u H Hnd b n w Hin Hnu Hc; [destruct Hin|].
  simpl in H. inversion Hnd as [|? ? Hn0 Hnd']; subst.
  destruct Hin as [<-|Hin].
  - rewrite (memZ_notin _ _ Hnu), Hc in H.
    destruct (upd_old c r (kaddr b0 :: used)) as [[[k' rel'] u']|]; [|discriminate]. inversion H; subst. left. reflexivity.
  - assert (Hne : kaddr b0 <> kaddr b).
    { intros E. apply Hn0. rewrite E. apply in_map. exact Hin. }
    destruct (if memZ (kaddr b0) used then None else conf_last (kaddr b0) c None) as [[n0 w0]|].
    + destruct (upd_old c r (kaddr b0 :: used)) as [[[k' rel'] u']|] eqn:E; [|discriminate]. inversion H; subst.
      right. eapply IH; [exact E|exact Hnd'|exact Hin| |exact Hc]. intros [F|F]; [congruence|contradiction].
    + destruct (release_bk b0); [|discriminate].
      destruct (upd_old c r used) as [[[k' rel'] u']|] eqn:E; [|discriminate]. inversion H; subst.
      eapply IH; [exact E|exact Hnd'|exact Hin|exact Hnu|exact Hc].
Qed.
(* BalanceRR.Update keeps the very object (availability, counters, name, release count untouched; only the weight is
   rewritten) of every backend whose address is still configured. *)
Theorem update_keeps_state : forall c l k rel, update_rr c l = Some (k, rel) -> NoDup (map kaddr l) ->
  forall b n w, In b l -> conf_last (kaddr b) c None = Some (n, w) -> In (set_weight b w) k.
Proof.
  intros c l k rel H Hnd b n w Hin Hc. unfold update_rr in H.
  destruct (upd_old c l []) as [[[k' rel'] u']|] eqn:E; [|discriminate]. inversion H; subst.
  apply in_or_app. left. eapply upd_old_keeps; [exact E|exact Hnd|exact Hin|intros []|exact Hc].
Qed.
Lemma upd_old_partition : forall c l used k rel u,
  upd_old c l used = Some (k, rel, u) -> (length k + length rel = length l)%nat.
Proof.
  intros c. induction l as [|b r IH]; intros used k rel u H; simpl in H.
  - inversion H; reflexivity.
  - destruct (if memZ (kaddr b) used then None else conf_last (kaddr b) c None) as [[n w]|].
    + destruct (upd_old c r (kaddr b :: used)) as [[[k' rel'] u']|] eqn:E; [|discriminate]. inversion H; subst.
      simpl. rewrite (IH _ _ _ _ E). reflexivity.
    + destruct (release_bk b); [|discriminate].
      destruct (upd_old c r used) as [[[k' rel'] u']|] eqn:E; [|discriminate]. inversion H; subst.
      simpl. rewrite <- (IH _ _ _ _ E). lia.
Qed.

(* ---------- the error path ---------- *)
(* reload 1 creates cluster 0 with sub-clusters 0 and 1, one backend each; reload 2 configures cluster 0 with
   sub 1 only and weight 0: Reload returns its error and keeps the old list, nothing released; reload 3 removes sub 0 *)
Definition err_hist : list rop :=
  [OReload [(0, [(0, 1); (1, 1)])] [(0, [(0, [(1, 1, 1)]); (1, [(2, 2, 1)])])];
   OReload [(0, [(1, 0)])] [(0, [(1, [(2, 2, 1)])])];
   OReload [(0, [(1, 1)])] [(0, [(1, [(2, 2, 1)])])]].
Lemma err_path_example :
  match states tbl0 err_hist with
  | [Some t1; Some t2; Some t3] =>
      map (fun t => map sname (flat_map csubs (clus t))) [t1; t2; t3] = [[0; 1]; [0; 1]; [1]] /\
      map (fun t => length (orphans t)) [t1; t2; t3] = [0; 0; 1]%nat /\
      map snd (run_rops tbl0 err_hist) = [false; true; false]
  | _ => False
  end.
Proof. vm_compute. repeat split. Qed.

(* ---------- wire level (the release clauses of prop_C09) ---------- *)
Definition obs_core (v : val) : bool :=
  match v with
  | VZ 0 => true
  | VL [_; d; VL [VZ n; VZ m]; _] => dump_ok d && (n =? m)
  | _ => false
  end.
Lemma ins_bk_forall : forall (P : bk -> Prop) b l, P b -> Forall P l -> Forall P (ins_bk b l).
Proof.
  intros P b. induction l as [|x r IH]; intros Hb Hl; simpl.
  - constructor; [exact Hb|constructor].
  - inversion Hl; subst. destruct (kaddr b <? kaddr x); constructor; auto.
Qed.
Lemma sort_bk_forall : forall (P : bk -> Prop) l, Forall P l -> Forall P (fold_right ins_bk [] l).
Proof.
  intros P. induction l as [|x r IH]; intros H; simpl; [constructor|]. inversion H; subst. apply ins_bk_forall; auto.
Qed.
Lemma dump_ok_enc : forall t, Forall clu_clean (clus t) -> dump_ok (enc_tbl t) = true.
Proof.
  intros t H. unfold dump_ok, enc_tbl. rewrite forallb_forall. intros cv Hin.
  apply in_map_iff in Hin. destruct Hin as [c [<- Hc]]. rewrite Forall_forall in H. specialize (H c Hc).
  unfold enc_clu, clu_subs. rewrite forallb_forall. intros sv Hs. apply in_map_iff in Hs. destruct Hs as [s [<- Hs]].
  unfold clu_clean in H. rewrite Forall_forall in H. specialize (H s Hs).
  unfold enc_sub, sub_bks. rewrite forallb_forall. intros bv Hb. apply in_map_iff in Hb. destruct Hb as [b [<- Hb]].
  pose proof (sort_bk_forall clean _ H) as Hsort. rewrite Forall_forall in Hsort. specialize (Hsort b Hb).
  unfold enc_bk, bk_closed. unfold clean in Hsort. rewrite Hsort. reflexivity.
Qed.
Lemma count_once : forall l, Forall once l -> countb (fun b => krel b >=? 1) l = Z.of_nat (length l).
Proof.
  intros l H. unfold countb. f_equal. induction H as [|b r Hb Hr IH]; [reflexivity|].
  simpl. unfold once in Hb. rewrite Hb. simpl. rewrite IH. reflexivity.
Qed.
Arguments dump_ok : simpl never.
Arguments enc_tbl : simpl never.
Arguments countb : simpl never.
Arguments enc_sel : simpl never.
Lemma run_core : forall ops t, tbl_inv t -> forallb obs_core (map fst (run_rops t ops)) = true.
Proof.
  induction ops as [|o r IH]; intros t Hi; [reflexivity|].
  destruct o as [gs bc|c s a k x]; simpl in *.
  - destruct (table_reload_inv gs bc t Hi) as [t' [gerr [err [E Hi']]]]. rewrite E. simpl.
    destruct Hi' as [Hc Ho]. rewrite (dump_ok_enc t' Hc), (count_once _ Ho), Z.eqb_refl. simpl.
    apply IH. split; assumption.
  - apply IH. apply poke_inv; exact Hi.
Qed.
Theorem model_core : forall i, dec_in i <> None ->
  match run_C09 i with VL obs => forallb obs_core obs = true | _ => False end.
Proof.
  intros i Hwf. unfold run_C09 in *. destruct (dec_in i) as [ops|]; [|exfalso; apply Hwf; reflexivity].
  apply run_core. apply tbl0_inv.
Qed.

(* ---------- newly configured backends are created available ---------- *)
Lemma insZ_in : forall x y l, In x (insZ y l) <-> x = y \/ In x l.
Proof.
  intros x y. induction l as [|a r IH]; simpl.
  - split; [intros [H|[]]; left; symmetry; exact H|intros [H|[]]; left; symmetry; exact H].
  - destruct (y <? a); simpl.
    + split; [intros [H|H]; [left; symmetry; exact H|right; exact H]|intros [H|H]; [left; symmetry; exact H|right; exact H]].
    + destruct (y =? a) eqn:E; simpl.
      * apply Z.eqb_eq in E. subst. split; [intros H; right; exact H|intros [H|H]; [left; symmetry; exact H|exact H]].
      * rewrite IH. split; [intros [H|[H|H]]; auto|intros [H|[H|H]]; auto].
Qed.
Lemma sort_dedup_in : forall x l, In x (sort_dedup l) <-> In x l.
Proof.
  intros x. induction l as [|a r IH]; simpl; [tauto|]. rewrite insZ_in, IH. split; intros [H|H]; auto.
Qed.
Lemma conf_last_in : forall a c acc x, conf_last a c acc = Some x ->
  acc = Some x \/ In a (map (fun e => fst (fst e)) c).
Proof.
  intros a. induction c as [|[[a' n] w] r IH]; intros acc x H; simpl in *; [left; exact H|].
  apply IH in H. destruct H as [H|H]; [|right; right; exact H].
  destruct (a' =? a) eqn:E; [apply Z.eqb_eq in E; right; left; exact E|left; exact H].
Qed.
Lemma upd_old_used : forall c l used k rel u, upd_old c l used = Some (k, rel, u) ->
  forall a, In a u -> In a used \/ In a (map kaddr l).
Proof.
  intros c. induction l as [|b r IH]; intros used k rel u H a Ha; simpl in H.
  - inversion H; subst. left. exact Ha.
  - destruct (if memZ (kaddr b) used then None else conf_last (kaddr b) c None) as [[n w]|].
    + destruct (upd_old c r (kaddr b :: used)) as [[[k' rel'] u']|] eqn:E; [|discriminate]. inversion H; subst.
      destruct (IH _ _ _ _ E a Ha) as [[F|F]|F]; [right; left; exact F|left; exact F|right; right; exact F].
    + destruct (release_bk b); [|discriminate].
      destruct (upd_old c r used) as [[[k' rel'] u']|] eqn:E; [|discriminate]. inversion H; subst.
      destruct (IH _ _ _ _ E a Ha) as [F|F]; [left; exact F|right; right; exact F].
Qed.
Theorem update_adds : forall c l k rel a n w, update_rr c l = Some (k, rel) ->
  conf_last a c None = Some (n, w) -> ~ In a (map kaddr l) ->
  In (mkBk a n (w * 100) true 0 0 0) k.
Proof.
  intros c l k rel a n w H Hc Hn. unfold update_rr in H.
  destruct (upd_old c l []) as [[[k' rel'] u]|] eqn:E; [|discriminate]. inversion H; subst.
  apply in_or_app. right. unfold upd_new. apply in_flat_map. exists a. split.
  - apply sort_dedup_in. destruct (conf_last_in _ _ _ _ Hc) as [F|F]; [discriminate|exact F].
  - assert (Hu : memZ a u = false).
    { apply memZ_notin. intros Hin. destruct (upd_old_used _ _ _ _ _ _ E a Hin) as [[]|F]. contradiction. }
    rewrite Hu, Hc. left. reflexivity.
Qed.

(* ---------- a sub-cluster that stays configured keeps its backend objects verbatim ---------- *)
Lemma reload_old_kept : forall g l s w, In s l -> gfind (sname s) g = Some w ->
  In (mkSub (sname s) w (sbks s)) (fst (fst (reload_old g l))).
Proof.
  intros g. induction l as [|x r IH]; intros s w Hin Hg; [destruct Hin|]. simpl.
  destruct Hin as [->|Hin].
  - destruct (reload_old g r) as [[k m] gone]. rewrite Hg. simpl. left. reflexivity.
  - specialize (IH s w Hin Hg).
    destruct (reload_old g r) as [[k m] gone]. simpl in IH.
    destruct (gfind (sname x) g); simpl; [right|]; exact IH.
Qed.
Lemma ins_sub_in : forall x s l, In x (ins_sub s l) <-> x = s \/ In x l.
Proof.
  intros x s. induction l as [|a r IH]; simpl.
  - split; [intros [H|[]]; left; symmetry; exact H|intros [H|[]]; left; symmetry; exact H].
  - destruct (sname s <? sname a); simpl.
    + split; [intros [H|H]; [left; symmetry; exact H|right; exact H]|intros [H|H]; [left; symmetry; exact H|right; exact H]].
    + rewrite IH. split; [intros [H|[H|H]]; auto|intros [H|[H|H]]; auto].
Qed.
Lemma sort_subs_in : forall x l, In x (sort_subs l) <-> In x l.
Proof.
  intros x. induction l as [|a r IH]; simpl; [tauto|]. rewrite ins_sub_in, IH.
  split; [intros [H|H]; [left; symmetry; exact H|right; exact H]|intros [H|H]; [left; symmetry; exact H|right; exact H]].
Qed.
Theorem gslb_keeps : forall g l m nl rel m' s w, reload_gslb g l m = Some (nl, rel, false, m') ->
  In s l -> gfind (sname s) g = Some w -> In (mkSub (sname s) w (sbks s)) nl.
Proof.
  intros g l mt nl rel m' s w H Hin Hg. unfold reload_gslb in H.
  pose proof (reload_old_kept g l s w Hin Hg) as Hk.
  destruct (reload_old g l) as [[k m] gone]. simpl in Hk.
  destruct (pos_total _ =? 0); [discriminate|].
  destruct (release_subs gone); [|discriminate]. inversion H; subst.
  apply sort_subs_in. apply in_or_app. left. exact Hk.
Qed.
