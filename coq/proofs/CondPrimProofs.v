(* Proofs about the primitive/builder model: C17 (validation, totality of the model of Build) and C18. *)
From Coq Require Import List ZArith Bool Lia.
From Bfe Require Import lib.Val lib.ValProofs lib.Bytes gen.CondProtos model.CondParse model.CondPrim model.CondScan
     proofs.CondParseProofs run.RunC16 run.RunC17 run.RunC18.
Import ListNotations.
Local Open Scope Z_scope.

(* ================================================================== generic helpers *)
Lemma lookup_In {A} (name : bytes) (tbl : list (bytes * A)) (a : A) :
  lookup name tbl = Some a -> In (name, a) tbl.
Proof.
  induction tbl as [|[n v] r IH]; simpl; [discriminate|].
  destruct (list_Z_eqb n name) eqn:E.
  - intros H. inversion H; subst. apply list_Z_eqb_eq in E. subst. left. reflexivity.
  - intros H. right. apply IH. exact H.
Qed.

Lemma kinds_eqb_eq a b : kinds_eqb a b = true <-> a = b.
Proof.
  revert b; induction a as [|x a IH]; intros [|y b]; simpl; split; intro H; try reflexivity; try discriminate.
  - apply andb_true_iff in H. destruct H as [H1 H2]. apply Z.eqb_eq in H1. apply IH in H2. congruence.
  - inversion H; subst. rewrite Z.eqb_refl. simpl. apply IH. reflexivity.
Qed.

Lemma all_some_map_none {A B} (f : A -> option B) (l : list A) :
  all_some (map f l) = None <-> existsb (fun a => match f a with None => true | Some _ => false end) l = true.
Proof.
  induction l as [|a l IH]; simpl; [split; discriminate|].
  destruct (f a) as [b|]; simpl.
  - destruct (all_some (map f l)) as [r|].
    + split; [discriminate|]. intro H. apply IH in H. discriminate.
    + split; [intros _; apply IH; reflexivity|reflexivity].
  - split; reflexivity.
Qed.

Lemma existsb_ext' {A} (f g : A -> bool) l : (forall a, f a = g a) -> existsb f l = existsb g l.
Proof. intros H. induction l as [|a l IH]; simpl; [reflexivity|]. rewrite H, IH. reflexivity. Qed.

Lemma forallb_negb_existsb {A} (f : A -> bool) l : forallb f l = negb (existsb (fun a => negb (f a)) l).
Proof. induction l as [|a l IH]; simpl; [reflexivity|]. rewrite IH. destruct (f a); reflexivity. Qed.

(* ================================================================== C17: table-level facts (generated tables) *)
Lemma every_proto_has_builder_ok : every_proto_has_builder = true.
Proof. vm_compute. reflexivity. Qed.
Lemma every_builder_has_proto_ok : every_builder_has_proto = true.
Proof. vm_compute. reflexivity. Qed.
Lemma arg_indices_in_range_ok : arg_indices_in_range = true.
Proof. vm_compute. reflexivity. Qed.
Lemma kinds_known_ok : kinds_known = true.
Proof. vm_compute. reflexivity. Qed.
Lemma proto_names_distinct : no_dup_names (map fst protos) = true.
Proof. vm_compute. reflexivity. Qed.
Lemma default_rejects_ok : default_rejects = true.
Proof. reflexivity. Qed.

(* prototypeCheck *)
Theorem proto_check_exact : forall name kinds,
  prototype_check protos name kinds = 0 <-> lookup name protos = Some kinds.
Proof.
  intros name kinds. unfold prototype_check. destruct (lookup name protos) as [want|]; [|split; discriminate].
  destruct (Nat.eqb (length want) (length kinds)) eqn:El; simpl.
  - destruct (kinds_eqb want kinds) eqn:Ek.
    + apply kinds_eqb_eq in Ek. subst. split; reflexivity.
    + split; [discriminate|]. intro H. inversion H; subst.
      rewrite (proj2 (kinds_eqb_eq kinds kinds) eq_refl) in Ek. discriminate.
  - split; [discriminate|]. intro H. inversion H; subst. rewrite Nat.eqb_refl in El. discriminate.
Qed.

Theorem unknown_rejected : forall name kinds, lookup name protos = None -> prototype_check protos name kinds = 1.
Proof. intros name kinds H. unfold prototype_check. rewrite H. reflexivity. Qed.

Theorem arity_checked : forall name want kinds,
  lookup name protos = Some want -> length want <> length kinds -> prototype_check protos name kinds = 2.
Proof.
  intros name want kinds H Hl. unfold prototype_check. rewrite H.
  destruct (Nat.eqb (length want) (length kinds)) eqn:E; [apply Nat.eqb_eq in E; contradiction|reflexivity].
Qed.

Theorem kind_checked : forall name want kinds,
  lookup name protos = Some want -> length want = length kinds -> want <> kinds ->
  prototype_check protos name kinds = 3.
Proof.
  intros name want kinds H Hl Hk. unfold prototype_check. rewrite H, Hl, Nat.eqb_refl. simpl.
  destruct (kinds_eqb want kinds) eqn:E; [apply kinds_eqb_eq in E; contradiction|reflexivity].
Qed.

(* after prototypeCheck no node.Args[k] of the selected case clause is out of range *)
Theorem indices_in_range_after_check : forall name (args : list arg),
  prototype_check protos name (map fst args) = 0 -> build_index_ok name (length args) = true.
Proof.
  intros name args H. apply proto_check_exact in H. apply lookup_In in H.
  pose proof arg_indices_in_range_ok as T. unfold arg_indices_in_range in T.
  rewrite forallb_forall in T. specialize (T _ H). simpl in T. rewrite map_length in T. exact T.
Qed.

(* parserHashSectionConf: an accepted section addresses existing buckets only *)
Lemma fold_digits_nonneg : forall l acc, 0 <= acc -> forallb is_digit l = true ->
  0 <= fold_left (fun a b => a * 10 + (b - 48)) l acc.
Proof.
  induction l as [|d l IH]; intros acc Ha Hd; simpl; [exact Ha|].
  simpl in Hd. apply andb_true_iff in Hd. destruct Hd as [H1 H2].
  apply IH; [|exact H2]. unfold is_digit in H1. apply andb_true_iff in H1. destruct H1 as [Ha1 Ha2].
  apply Z.leb_le in Ha1. apply Z.leb_le in Ha2. lia.
Qed.
Lemma atoi_bucket_range : forall s n, atoi_bucket s = Some n -> 0 <= n < HashBuckets.
Proof.
  intros s n. unfold atoi_bucket.
  set (d := match s with 43 :: r => r | _ => s end).
  unfold parse_dec. destruct d as [|c d']; [discriminate|].
  destruct (forallb is_digit (c :: d')) eqn:E; [|discriminate].
  destruct (fold_left _ (c :: d') 0 <? HashBuckets) eqn:L; [|discriminate].
  intro H. inversion H; subst. apply Z.ltb_lt in L. split; [|exact L].
  exact (fold_digits_nonneg (c :: d') 0 ltac:(lia) E).
Qed.
Theorem hash_section_bounds : forall sec a b, hash_section sec = Some (a, b) -> 0 <= a /\ a <= b /\ b < HashBuckets.
Proof.
  intros sec a b. unfold hash_section.
  destruct (split_byte 45 sec) as [|p [|q [|? ?]]]; try discriminate.
  - destruct (atoi_bucket (strip_spaces p)) as [n|] eqn:E; [|discriminate].
    intro H. inversion H; subst. apply atoi_bucket_range in E. lia.
  - destruct (atoi_bucket (strip_spaces p)) as [n|] eqn:E; [|discriminate].
    destruct (atoi_bucket (strip_spaces q)) as [m|] eqn:E2; [|discriminate].
    destruct (m <? n) eqn:L; [discriminate|]. intro H. inversion H; subst.
    apply atoi_bucket_range in E. apply atoi_bucket_range in E2. apply Z.ltb_ge in L. lia.
Qed.

(* ================================================================== C17: Build rejects exactly the invalid calls *)
Definition class_of_kind (k : ckind) : vclass :=
  match k with
  | KIpIn => VIpList | KHost => VHostList | KIpRange => VIpRange | KReg => VRegex | KHash => VHash
  | KTime => VTime | KPeriodic => VPeriodic | _ => VNone
  end.
Definition vclass_eqb (a b : vclass) : bool :=
  match a, b with
  | VNone, VNone | VIpList, VIpList | VIpRange, VIpRange | VRegex, VRegex | VHash, VHash | VTime, VTime
  | VPeriodic, VPeriodic | VHostList, VHostList => true
  | _, _ => false
  end.
Lemma vclass_eqb_eq a b : vclass_eqb a b = true -> a = b.
Proof. destruct a, b; simpl; intro H; try reflexivity; discriminate. Qed.

Definition pos_ok (c : vclass) (pp : Z) (mi : list Z) : bool :=
  match c with
  | VNone => true
  | VIpList | VHostList => list_Z_eqb mi [0]
  | VIpRange | VTime => list_Z_eqb mi [0; 1]
  | VPeriodic => list_Z_eqb mi [0; 1; 2]
  | VRegex => list_Z_eqb mi [pp]
  | VHash => match mi with k :: _ => k =? pp | [] => false end
  end.
Definition row_consistent (w : bytes * bytes * list Z * bytes * list Z * Z) : bool :=
  let '(n, f, fi, m, mi, fo) := w in
  if bytes_eqb m n_none then vclass_eqb (vclass_of n) VNone
  else match ctor_of m with
       | Some k => vclass_eqb (vclass_of n) (class_of_kind k) && pos_ok (class_of_kind k) (pat_pos n) mi
       | None => false
       end.
(* the documented validation class of every primitive (by name) is the one its matcher constructor applies,
   on the documented argument positions: checked on the generated wiring table *)
Lemma wiring_consistent : forallb row_consistent wiring = true.
Proof. vm_compute. reflexivity. Qed.
Lemma protos_wired :
  forallb (fun p => match wiring_of (fst p) with Some _ => true | None => false end) protos = true.
Proof. vm_compute. reflexivity. Qed.

Lemma nth_arg_map1 args k : nth_arg (map (nth_arg args) [k]) 0 = nth_arg args k.
Proof. reflexivity. Qed.

Lemma build_k_reject x k mi fo args pp :
  pos_ok (class_of_kind k) pp mi = true ->
  (build_matcher_k x k (map (nth_arg args) mi) fo = None <-> invalid_args x (class_of_kind k) pp args = true).
Proof.
  intro Hp. destruct k; simpl class_of_kind in *; simpl pos_ok in Hp;
    try (unfold build_matcher_k, invalid_args; split; discriminate).
  - (* KHost *)
    apply list_Z_eqb_eq in Hp. subst mi. unfold build_matcher_k, invalid_args. cbv zeta. cbn [map]. 
    change (nth_arg [nth_arg args 0] 0) with (nth_arg args 0).
    match goal with |- context[if ?c then None else _] => destruct c end; split; intro H; try reflexivity; discriminate.
  - (* KReg *)
    apply list_Z_eqb_eq in Hp. subst mi. unfold build_matcher_k, invalid_args. cbv zeta. cbn [map].
    change (nth_arg [nth_arg args pp] 0) with (nth_arg args pp).
    match goal with |- context[if ?c then _ else None] => destruct c end; simpl; split; intro H; try reflexivity; discriminate.
  - (* KIpIn *)
    apply list_Z_eqb_eq in Hp. subst mi. unfold build_matcher_k, invalid_args. cbv zeta. cbn [map].
    change (nth_arg [nth_arg args 0] 0) with (nth_arg args 0).
    set (parts := split_bar (arg_str (nth_arg args 0))).
    rewrite (existsb_ext' _ (fun a => match option_map fst (x_ip x a) with None => true | Some _ => false end))
      by (intro a; destruct (x_ip x a); reflexivity).
    rewrite <- all_some_map_none.
    match goal with |- context[match ?c with Some _ => _ | None => None end] => destruct c end; split; intro H; try reflexivity; discriminate.
  - (* KIpRange *)
    apply list_Z_eqb_eq in Hp. subst mi. unfold build_matcher_k, invalid_args. cbv zeta. cbn [map].
    change (nth_arg [nth_arg args 0; nth_arg args 1] 0) with (nth_arg args 0).
    change (nth_arg [nth_arg args 0; nth_arg args 1] 1) with (nth_arg args 1).
    destruct (x_ip x (arg_str (nth_arg args 0))) as [[s v4s]|];
      destruct (x_ip x (arg_str (nth_arg args 1))) as [[e v4e]|]; try (split; reflexivity).
    destruct (Bool.eqb v4s v4e); simpl; [|split; reflexivity].
    destruct (bytes_le s e); simpl; split; intro H; try reflexivity; discriminate.
  - (* KHash *)
    destruct mi as [|k0 rest]; [discriminate|]. apply Z.eqb_eq in Hp. subst k0.
    unfold build_matcher_k, invalid_args. cbv zeta. cbn [map].
    change (nth_arg (nth_arg args pp :: map (nth_arg args) rest) 0) with (nth_arg args pp).
    rewrite <- all_some_map_none.
    match goal with |- context[match ?c with Some _ => _ | None => None end] => destruct c end; split; intro H; try reflexivity; discriminate.
  - (* KTime *)
    apply list_Z_eqb_eq in Hp. subst mi. unfold build_matcher_k, invalid_args. cbv zeta. cbn [map].
    change (nth_arg [nth_arg args 0; nth_arg args 1] 0) with (nth_arg args 0).
    change (nth_arg [nth_arg args 0; nth_arg args 1] 1) with (nth_arg args 1).
    destruct (x_time x (arg_str (nth_arg args 0))); destruct (x_time x (arg_str (nth_arg args 1))); try (split; reflexivity).
    match goal with |- context[if ?c then None else _] => destruct c end; split; intro H; try reflexivity; discriminate.
  - (* KPeriodic *)
    apply list_Z_eqb_eq in Hp. subst mi. unfold build_matcher_k, invalid_args. cbv zeta. cbn [map].
    change (nth_arg [nth_arg args 0; nth_arg args 1; nth_arg args 2] 0) with (nth_arg args 0).
    change (nth_arg [nth_arg args 0; nth_arg args 1; nth_arg args 2] 1) with (nth_arg args 1).
    change (nth_arg [nth_arg args 0; nth_arg args 1; nth_arg args 2] 2) with (nth_arg args 2).
    destruct (arg_str (nth_arg args 2)); [|split; reflexivity].
    destruct (x_tod x (arg_str (nth_arg args 0))) as [[s o1]|];
      destruct (x_tod x (arg_str (nth_arg args 1))) as [[e o2]|]; try (split; reflexivity).
    destruct (e <? s); simpl; [split; reflexivity|].
    destruct (o1 =? o2); simpl; split; intro H; try reflexivity; discriminate.
Qed.

Lemma wiring_of_In name row : wiring_of name = Some row ->
  exists w, In w wiring /\ (let '(n, f, fi, m, mi, fo) := w in (n, (f, fi, m, mi, fo))) = (name, row).
Proof.
  unfold wiring_of. intro H. apply lookup_In in H. apply in_map_iff in H.
  destruct H as [w [Hw Hin]]. exists w. split; assumption.
Qed.

Theorem build_call_reject : forall x name args,
  build_call x name args = None <-> must_reject x name args = true.
Proof.
  intros x name args. unfold build_call, must_reject.
  destruct (prototype_check protos name (map fst args) =? 0) eqn:P; simpl; [|split; reflexivity].
  apply Z.eqb_eq in P. apply proto_check_exact in P. apply lookup_In in P.
  pose proof protos_wired as W. rewrite forallb_forall in W. specialize (W _ P). simpl in W.
  destruct (wiring_of name) as [[[[[f fi] m] mi] fo]|] eqn:Ew; [|discriminate].
  destruct (wiring_of_In _ _ Ew) as [[[[[[n f'] fi'] m'] mi'] fo'] [Hin Heq]].
  inversion Heq; subst. clear Heq.
  pose proof wiring_consistent as C. rewrite forallb_forall in C. specialize (C _ Hin). simpl in C.
  destruct (bytes_eqb m n_none).
  - apply vclass_eqb_eq in C. rewrite C. simpl. split; discriminate.
  - unfold build_matcher. destruct (ctor_of m) as [k|]; [|discriminate].
    apply andb_true_iff in C. destruct C as [C1 C2]. apply vclass_eqb_eq in C1. rewrite C1.
    rewrite <- (build_k_reject x k mi fo args (pat_pos name) C2).
    destruct (build_matcher_k x k (map (nth_arg args) mi) fo); split; intro H; try reflexivity; discriminate.
Qed.

Lemma built_is_reject x name args : built (build_call x name args) = if must_reject x name args then 1 else 0.
Proof.
  pose proof (build_call_reject x name args) as [H1 H2].
  destruct (build_call x name args); destruct (must_reject x name args); simpl; try reflexivity.
  - discriminate (H2 eq_refl).
  - discriminate (H1 eq_refl).
Qed.

Lemma composite_is_reject x ts cs : build_composite x ts cs = if must_reject_comp x ts cs then 1 else 0.
Proof.
  unfold build_composite, must_reject_comp. rewrite src_parse_is_doc_parse.
  destruct (parse doc_table ts) as [e|]; [|reflexivity].
  rewrite forallb_negb_existsb.
  rewrite (existsb_ext' _ (fun n => match nth_error cs n with
                                     | Some (name, Some args) => must_reject x name args
                                     | _ => true end)).
  - destruct (existsb _ (atoms_of e)); reflexivity.
  - intro n. destruct (nth_error cs n) as [[nm [a|]]|]; try reflexivity.
    rewrite built_is_reject. destruct (must_reject x nm a); reflexivity.
Qed.

Lemma composite_01 x ts cs : build_composite x ts cs = 0 \/ build_composite x ts cs = 1.
Proof. rewrite composite_is_reject. destruct (must_reject_comp x ts cs); [right|left]; reflexivity. Qed.
Lemma build_text_01 x text : build_text (build_composite x) text = 0 \/ build_text (build_composite x) text = 1.
Proof.
  unfold build_text. destruct (lex text) as [rts|]; [|right; reflexivity].
  destruct (group (S (length rts)) rts 0) as [[ks cs]|]; [|right; reflexivity]. apply composite_01.
Qed.

(* every observation that agrees with the model of Build satisfies the property predicate *)
Lemma core_implies_prop_C17 : forall i o, agree_core i o = true -> prop_C17 i o = true.
Proof.
  intros i o. unfold agree_core, prop_C17, run_C17.
  destruct (decode_C17 i) as [[text | x name a | x ts cs | x text]|]; try (intros _; reflexivity).
  - intro H. exact H.
  - intro H. apply val_eqb_eq in H. subst o. rewrite built_is_reject. apply val_eqb_refl.
  - intro H. apply val_eqb_eq in H. subst o. rewrite composite_is_reject. apply val_eqb_refl.
  - intro H. apply val_eqb_eq in H. subst o. destruct (build_text_01 x text) as [E|E]; rewrite E; reflexivity.
Qed.

Theorem agree_implies_prop_C17 : forall i o, agree_C17 i o = true -> prop_C17 i o = true.
Proof.
  intros i o H. unfold agree_C17 in H. apply andb_true_iff in H. apply core_implies_prop_C17. exact (proj1 H).
Qed.

(* central theorem: on every well-formed input (single call, composite, ASCII text) the model satisfies the property *)
Theorem prop_C17_of_model : forall i, wf_C17 i = true -> kf_C17 i = 0 -> prop_C17 i (run_C17 i) = true.
Proof.
  intros i Hw _. apply core_implies_prop_C17. unfold agree_core. unfold wf_C17 in Hw. unfold run_C17.
  destruct (decode_C17 i) as [[text | x name a | x ts cs | x text]|]; try discriminate; apply val_eqb_refl.
Qed.

(* the model of Build is total: it answers 0 or 1 on every call / composite / ASCII text *)
Theorem model_total_C17 : forall i, match run_C17 i with
                                    | VZ z => z = 0 \/ z = 1
                                    | VL [] => True                        (* raw bytes: left open *)
                                    | v => v = VErr 0                       (* not a C17 input *)
                                    end.
Proof.
  intros i. unfold run_C17. destruct (decode_C17 i) as [[text | x name a | x ts cs | x text]|]; try exact I; try reflexivity.
  - rewrite built_is_reject. destruct (must_reject x name a); [right|left]; reflexivity.
  - apply composite_01.
  - apply build_text_01.
Qed.

(* ================================================================== C18: fold-case lemmas (ASCII bytes) *)
Lemma byte_fold_eqb x y : (upper_byte x =? upper_byte y) = (lower_byte x =? lower_byte y).
Proof.
  apply Bool.eq_true_iff_eq. rewrite !Z.eqb_eq. unfold upper_byte, lower_byte.
  destruct ((97 <=? x) && (x <=? 122)) eqn:A; destruct ((97 <=? y) && (y <=? 122)) eqn:B;
  destruct ((65 <=? x) && (x <=? 90)) eqn:C; destruct ((65 <=? y) && (y <=? 90)) eqn:D;
  rewrite ?andb_true_iff, ?andb_false_iff, ?Z.leb_le, ?Z.leb_gt in *; lia.
Qed.

Lemma eqb_fold a b : bytes_eqb (to_upper a) (to_upper b) = bytes_eqb (to_lower a) (to_lower b).
Proof.
  unfold bytes_eqb, to_upper, to_lower. revert b; induction a as [|x a IH]; intros [|y b]; simpl; try reflexivity.
  rewrite byte_fold_eqb, IH. reflexivity.
Qed.
Lemma prefix_fold p v : is_prefix (to_upper p) (to_upper v) = is_prefix (to_lower p) (to_lower v).
Proof.
  unfold to_upper, to_lower. revert v; induction p as [|x p IH]; intros [|y v]; simpl; try reflexivity.
  rewrite byte_fold_eqb, IH. reflexivity.
Qed.
Lemma suffix_fold p v : is_suffix (to_upper p) (to_upper v) = is_suffix (to_lower p) (to_lower v).
Proof.
  unfold is_suffix, to_upper, to_lower. rewrite <- !map_rev. apply prefix_fold.
Qed.
Lemma contains_fold p v : contains (to_upper p) (to_upper v) = contains (to_lower p) (to_lower v).
Proof.
  induction v as [|y v IH].
  - simpl. change (@nil Z) with (to_upper []) at 1. rewrite prefix_fold. reflexivity.
  - change (to_upper (y :: v)) with (upper_byte y :: to_upper v).
    change (to_lower (y :: v)) with (lower_byte y :: to_lower v).
    simpl. rewrite <- IH.
    change (upper_byte y :: to_upper v) with (to_upper (y :: v)).
    change (lower_byte y :: to_lower v) with (to_lower (y :: v)).
    rewrite prefix_fold. reflexivity.
Qed.

(* model side folds with ToUpper, documented side compares case-insensitively *)
Lemma fold_eq f v p : bytes_eqb (fold_up f v) (fold_up f p) = ci_eq f p v.
Proof.
  destruct f; simpl.
  - unfold eq_fold. rewrite eqb_fold. unfold bytes_eqb.
    apply Bool.eq_true_iff_eq. rewrite !list_Z_eqb_eq. split; congruence.
  - unfold bytes_eqb. apply Bool.eq_true_iff_eq. rewrite !list_Z_eqb_eq. split; congruence.
Qed.
Lemma fold_prefix f p v : is_prefix (fold_up f p) (fold_up f v) = is_prefix (ci f p) (ci f v).
Proof. destruct f; simpl; [apply prefix_fold|reflexivity]. Qed.
Lemma fold_suffix f p v : is_suffix (fold_up f p) (fold_up f v) = is_suffix (ci f p) (ci f v).
Proof. destruct f; simpl; [apply suffix_fold|reflexivity]. Qed.
Lemma fold_contains f p v : contains (fold_up f p) (fold_up f v) = contains (ci f p) (ci f v).
Proof. destruct f; simpl; [apply contains_fold|reflexivity]. Qed.

Lemma existsb_map {A B} (g : A -> B) (f : B -> bool) l : existsb f (map g l) = existsb (fun a => f (g a)) l.
Proof. induction l as [|a l IH]; simpl; [reflexivity|]. rewrite IH. reflexivity. Qed.

(* the six matcher lemmas *)
Lemma in_spec f pats v : mem_bytes (fold_up f v) (map (fold_up f) pats) = existsb (fun p => ci_eq f p v) pats.
Proof. unfold mem_bytes. rewrite existsb_map. apply existsb_ext'. intro p. apply fold_eq. Qed.
Lemma prefix_spec f pats v :
  existsb (fun p => is_prefix p (fold_up f v)) (map (fold_up f) pats) = existsb (fun p => is_prefix (ci f p) (ci f v)) pats.
Proof. rewrite existsb_map. apply existsb_ext'. intro p. apply fold_prefix. Qed.
Lemma suffix_spec f pats v :
  existsb (fun p => is_suffix p (fold_up f v)) (map (fold_up f) pats) = existsb (fun p => is_suffix (ci f p) (ci f v)) pats.
Proof. rewrite existsb_map. apply existsb_ext'. intro p. apply fold_suffix. Qed.
Lemma contain_spec f pats v :
  existsb (fun p => contains p (fold_up f v)) (map (fold_up f) pats) = existsb (fun p => contains (ci f p) (ci f v)) pats.
Proof. rewrite existsb_map. apply existsb_ext'. intro p. apply fold_contains. Qed.
Lemma pathelem_spec f pats v :
  existsb (fun p => is_prefix p (fold_up f (add_slash v))) (map (fun q => fold_up f (add_slash q)) pats)
  = existsb (fun p => is_prefix (ci f (add_slash p)) (ci f (add_slash v))) pats.
Proof. rewrite existsb_map. apply existsb_ext'. intro p. apply fold_prefix. Qed.
Lemma host_spec pats v : mem_bytes (to_upper v) (map to_upper pats) = existsb (fun p => ci_eq true p v) pats.
Proof. apply (in_spec true). Qed.

(* ================================================================== C18: wiring vs documentation *)
Definition fo_ok (fs : foldsrc) (pi : Z) (mi : list Z) (fo : Z) : bool :=
  match fs with
  | FsTrue => (fo =? 1) && list_Z_eqb mi [pi]
  | FsFalse => (fo =? 0) && list_Z_eqb mi [pi]
  | FsArg i => (fo =? 2) && list_Z_eqb mi [pi; i]
  end.
Definition mcompat (k : ckind) (tk : tkind) (fs : foldsrc) (pi : Z) (mi : list Z) (fo : Z) : bool :=
  match k, tk with
  | KIn, TKIn | KExact, TKExact | KPrefix, TKPrefix | KSuffix, TKSuffix | KContain, TKContain
  | KPathElem, TKPathElem => fo_ok fs pi mi fo
  | KHost, TKIn => match fs with FsTrue => list_Z_eqb mi [pi] | _ => false end
  | KReg, TKRegex => list_Z_eqb mi [pi]
  | KHash, TKHash => match fs with FsArg i => (fo =? 2) && list_Z_eqb mi [pi; i] | _ => false end
  | _, _ => false
  end.

Lemma fo_ok_fold fs pi mi fo args : fo_ok fs pi mi fo = true ->
  mi = pi :: match fs with FsArg i => [i] | _ => [] end /\
  ctor_fold fo (map (nth_arg args) mi) = fold_of fs args.
Proof.
  destruct fs; simpl; intro H; apply andb_true_iff in H; destruct H as [H1 H2];
    apply Z.eqb_eq in H1; apply list_Z_eqb_eq in H2; subst; split; reflexivity.
Qed.

Lemma matcher_meets_test x k tk fs pi mi fo args m v :
  mcompat k tk fs pi mi fo = true ->
  build_matcher_k x k (map (nth_arg args) mi) fo = Some m ->
  match_val x m (FStr v) = spec_test x (test_of tk fs args) (arg_str (nth_arg args pi)) v.
Proof.
  intros Hc Hb. destruct k, tk; simpl in Hc; try discriminate.
  - (* In *)
    destruct (fo_ok_fold fs pi mi fo args Hc) as [Hm Hf]. unfold build_matcher_k in Hb. cbv zeta in Hb.
    rewrite Hf in Hb. rewrite Hm in Hb. inversion Hb; subst m. simpl. 
    change (nth_arg (nth_arg args pi :: _) 0) with (nth_arg args pi). apply in_spec.
  - (* Exact *)
    destruct (fo_ok_fold fs pi mi fo args Hc) as [Hm Hf]. unfold build_matcher_k in Hb. cbv zeta in Hb.
    rewrite Hf in Hb. rewrite Hm in Hb. inversion Hb; subst m. simpl.
    change (nth_arg (nth_arg args pi :: _) 0) with (nth_arg args pi). apply fold_eq.
  - (* Prefix *)
    destruct (fo_ok_fold fs pi mi fo args Hc) as [Hm Hf]. unfold build_matcher_k in Hb. cbv zeta in Hb.
    rewrite Hf in Hb. rewrite Hm in Hb. inversion Hb; subst m. simpl.
    change (nth_arg (nth_arg args pi :: _) 0) with (nth_arg args pi). apply prefix_spec.
  - (* Suffix *)
    destruct (fo_ok_fold fs pi mi fo args Hc) as [Hm Hf]. unfold build_matcher_k in Hb. cbv zeta in Hb.
    rewrite Hf in Hb. rewrite Hm in Hb. inversion Hb; subst m. simpl.
    change (nth_arg (nth_arg args pi :: _) 0) with (nth_arg args pi). apply suffix_spec.
  - (* Contain *)
    destruct (fo_ok_fold fs pi mi fo args Hc) as [Hm Hf]. unfold build_matcher_k in Hb. cbv zeta in Hb.
    rewrite Hf in Hb. rewrite Hm in Hb. inversion Hb; subst m. simpl.
    change (nth_arg (nth_arg args pi :: _) 0) with (nth_arg args pi). apply contain_spec.
  - (* PathElem *)
    destruct (fo_ok_fold fs pi mi fo args Hc) as [Hm Hf]. unfold build_matcher_k in Hb. cbv zeta in Hb.
    rewrite Hf in Hb. rewrite Hm in Hb. inversion Hb; subst m. simpl.
    change (nth_arg (nth_arg args pi :: _) 0) with (nth_arg args pi). apply pathelem_spec.
  - (* Host ~ In true *)
    destruct fs; try discriminate. apply list_Z_eqb_eq in Hc. subst mi.
    unfold build_matcher_k in Hb. cbv zeta in Hb. cbn [map] in Hb.
    change (nth_arg [nth_arg args pi] 0) with (nth_arg args pi) in Hb.
    match type of Hb with (if ?c then _ else _) = _ => destruct c end; [discriminate|].
    inversion Hb; subst m. simpl. apply host_spec.
  - (* Reg *)
    apply list_Z_eqb_eq in Hc. subst mi. unfold build_matcher_k in Hb. cbv zeta in Hb. cbn [map] in Hb.
    change (nth_arg [nth_arg args pi] 0) with (nth_arg args pi) in Hb.
    match type of Hb with (if ?c then _ else _) = _ => destruct c end; [|discriminate].
    inversion Hb; subst m. reflexivity.
  - (* Hash *)
    destruct fs as [| |i]; try discriminate. apply andb_true_iff in Hc. destruct Hc as [H1 H2].
    apply Z.eqb_eq in H1. apply list_Z_eqb_eq in H2. subst fo mi.
    unfold build_matcher_k in Hb. cbv zeta in Hb. cbn [map] in Hb.
    change (nth_arg [nth_arg args pi; nth_arg args i] 0) with (nth_arg args pi) in Hb.
    simpl. destruct (all_some (map hash_section (split_bar (arg_str (nth_arg args pi))))) as [rs|]; [|discriminate].
    inversion Hb; subst m. reflexivity.
Qed.

Lemma match_nil x m : match_val x m FNil = false.
Proof. destruct m; reflexivity. Qed.

(* fetchers vs documented attributes *)
Definition fcompat (fk : fkind) (ak : akind) (fi : list Z) : bool :=
  match fk, ak with
  | FHostFetcher, AKHost | FHostTagFetcher, AKHostTag | FProtoFetcher, AKProto | FMethodFetcher, AKMethod
  | FPortFetcher, AKPort | FUrlFetcher, AKUrl | FPathFetcher, AKPath | FUAFetcher, AKUA | FResCodeFetcher, AKResCode
  | FSniFetcher, AKSni | FClientCANameFetcher, AKClientCA => list_Z_eqb fi []
  | FQueryValueFetcher, AKQuery | FCookieValueFetcher, AKCookie | FHeaderValueFetcher, AKHeader
  | FResHeaderValueFetcher, AKResHeader | FContextValueFetcher, AKContext => list_Z_eqb fi [0]
  | _, _ => false
  end.

Lemma after_first_index c s :
  after_first c s = match index_byte c s with Some j => Some (skipn (S j) s) | None => None end.
Proof.
  induction s as [|y s IH]; simpl; [reflexivity|].
  destruct (y =? c); [reflexivity|]. rewrite IH. destruct (index_byte c s); reflexivity.
Qed.

Lemma hget_cases {k} {h : alist (list bytes)} :
  match aget k h with Some (v :: _) => hget k h = v | _ => hget k h = [] end.
Proof. unfold hget. destruct (aget k h) as [[|v ?]|]; reflexivity. Qed.

Lemma fetch_meets_attr x fk ak fi args r :
  fcompat fk ak fi = true ->
  let key := match fi return bytes with k :: _ => arg_str (nth_arg args k) | [] => [] end in
  match attr_val (attr_of ak args) r with
  | Some v => fetch_k x fk key r = FStr v
  | None => fetch_k x fk key r = FErr \/ fetch_k x fk key r = FNil \/
            (fetched_as_empty (attr_of ak args) r = true /\ fetch_k x fk key r = FStr [])
  end.
Proof.
  intro Hc. destruct fk, ak; simpl in Hc; try discriminate; apply list_Z_eqb_eq in Hc; subst fi; cbv zeta;
    cbn [attr_of attr_val fetch_k fetched_as_empty]; try reflexivity.
  - (* port *)
    destruct (r_host r) as [|c rest]; simpl; [reflexivity|].
    destruct (c =? 58); [reflexivity|]. rewrite after_first_index.
    destruct (index_byte 58 rest); reflexivity.
  - (* query value *)
    pose proof (@hget_cases (arg_str (nth_arg args 0)) (r_query r)) as H.
    destruct (aget (arg_str (nth_arg args 0)) (r_query r)) as [[|v ?]|]; rewrite H; auto.
  - (* cookie *)
    destruct (aget (arg_str (nth_arg args 0)) (r_cookies r)); auto.
  - (* header value *)
    unfold header_get.
    pose proof (@hget_cases (canon_key (arg_str (nth_arg args 0))) (r_headers r)) as H.
    destruct (aget (canon_key (arg_str (nth_arg args 0))) (r_headers r)) as [[|v ?]|]; rewrite H; auto.
  - (* UA *)
    pose proof (@hget_cases n_UserAgent (r_headers r)) as H. fold n_UserAgent.
    destruct (aget n_UserAgent (r_headers r)) as [[|v ?]|]; rewrite H; auto.
  - (* res header value *)
    destruct (r_resp r) as [[code h]|]; [|auto]. unfold header_get.
    pose proof (@hget_cases (canon_key (arg_str (nth_arg args 0))) h) as H.
    destruct (aget (canon_key (arg_str (nth_arg args 0))) h) as [[|v ?]|]; rewrite H; auto.
  - (* res code *)
    destruct (r_resp r) as [[code h]|]; auto.
  - (* sni *)
    destruct (ok_tls r) as [t|]; [|auto]. destruct (nonempty (t_sni t)); auto.
  - (* client ca *)
    destruct (ok_tls r) as [t|]; [|auto]. destruct (t_client_auth t && nonempty (t_ca t)); auto.
  - (* context *)
    destruct (r_context r) as [c|]; [|auto]. destruct (arg_str (nth_arg args 0)) as [|k0 kr]; [auto|].
    destruct (aget (k0 :: kr) c) as [[s|]|]; auto.
Qed.

Definition srow_compat (e : bytes * sspec) : bool :=
  let '(name, SS ak pi tk fs) := e in
  match wiring_of name with
  | Some (f, fi, m, mi, fo) =>
    negb (bytes_eqb m n_none) &&
    match fetcher_of f, ctor_of m with
    | Some fk, Some k => fcompat fk ak fi && mcompat k tk fs pi mi fo
    | _, _ => false
    end
  | None => false
  end.
(* every documented string primitive is wired (generated table) to the fetcher of its documented attribute and to
   the matcher constructor of its documented test, with the documented argument positions and fold-case flag *)
Lemma string_specs_compat : forallb srow_compat string_specs = true.
Proof. vm_compute. reflexivity. Qed.

Theorem string_prims_meet_spec : forall x name args r c s,
  lookup name string_specs = Some s -> build_call x name args = Some c -> kf1 x name args r = false ->
  spec_match x name args r = Some (cond_match x c r).
Proof.
  intros x name args r c s Hs Hb Hk.
  pose proof (lookup_In _ _ _ Hs) as Hin.
  pose proof string_specs_compat as C. rewrite forallb_forall in C. specialize (C _ Hin).
  destruct s as [ak pi tk fs]. simpl in C.
  unfold spec_match. rewrite Hs. unfold kf1 in Hk. rewrite Hs in Hk.
  unfold build_call in Hb. destruct (negb (prototype_check protos name (map fst args) =? 0)); [discriminate|].
  destruct (wiring_of name) as [[[[[f fi] m] mi] fo]|]; [|discriminate].
  apply andb_true_iff in C. destruct C as [Cn C].
  destruct (bytes_eqb m n_none); [discriminate|].
  destruct (fetcher_of f) as [fk|] eqn:Ef; [|discriminate].
  unfold build_matcher in Hb. destruct (ctor_of m) as [k|]; [|discriminate].
  apply andb_true_iff in C. destruct C as [Cf Cm].
  destruct (build_matcher_k x k (map (nth_arg args) mi) fo) as [mt|] eqn:Em; [|discriminate].
  inversion Hb; subst c. clear Hb. f_equal.
  unfold cond_match, fetch. rewrite Ef.
  pose proof (fetch_meets_attr x fk ak fi args r Cf) as Hf. cbv zeta in Hf.
  revert Hf Hk. destruct (attr_val (attr_of ak args) r) as [v|]; intros Hf Hk.
  - rewrite Hf. symmetry. apply (matcher_meets_test x k tk fs pi mi fo args mt v Cm Em).
  - destruct Hf as [Hf|[Hf|[He Hf]]]; rewrite Hf.
    + reflexivity.
    + symmetry. apply match_nil.
    + rewrite He in Hk. simpl in Hk.
      rewrite (matcher_meets_test x k tk fs pi mi fo args mt [] Cm Em). symmetry. exact Hk.
Qed.

(* "a missing attribute makes the primitive false" -- outside known-finding class 1 *)
Theorem missing_false_partial : forall x name args r c,
  build_call x name args = Some c -> attr_missing name args r = true -> kf1 x name args r = false ->
  cond_match x c r = false.
Proof.
  intros x name args r c Hb Hm Hk. unfold attr_missing in Hm.
  destruct (lookup name string_specs) as [s|] eqn:Hs; [|discriminate].
  pose proof (string_prims_meet_spec x name args r c s Hs Hb Hk) as H.
  unfold spec_match in H. rewrite Hs in H. destruct s as [ak pi tk fs].
  destruct (attr_val (attr_of ak args) r); [discriminate|]. inversion H. reflexivity.
Qed.

(* ... and it is false of the code as it is: header value primitive on a request without the header *)
Definition x0 : ext := {| x_ip := fun _ => None; x_re_ok := fun _ => true; x_re_match := fun _ _ => true;
                          x_time := fun _ => None; x_tod := fun _ => None; x_hash := fun _ => 0; x_ipstr := fun _ => []; x_now := 0 |}.
Definition r0 : request :=
  {| r_host := []; r_hosttag := []; r_secure := false; r_sproto := []; r_hproto := []; r_method := [];
     r_tags := None; r_uri := []; r_path := []; r_query := []; r_cookies := []; r_headers := []; r_resp := None;
     r_cip := None; r_sip := None; r_vip := None; r_trusted := false; r_tls := None; r_context := None |}.
Definition n_req_header_value_prefix_in : bytes :=
  [114;101;113;95;104;101;97;100;101;114;95;118;97;108;117;101;95;112;114;101;102;105;120;95;105;110].
Lemma missing_refuted : exists x name args r c,
  build_call x name args = Some c /\ attr_missing name args r = true /\ cond_match x c r = true.
Proof.
  exists x0, n_req_header_value_prefix_in, [(1, [88]); (1, []); (2, [102;97;108;115;101])], r0.
  eexists. split; [vm_compute; reflexivity|]. split; vm_compute; reflexivity.
Qed.

(* every observation that agrees with the model satisfies the property predicate, outside the listed findings,
   for the documented string primitives *)
Theorem agree_implies_prop_C18_strings : forall i o name a r x s,
  decode_C18 i = Some (name, a, r, x) -> lookup name string_specs = Some s ->
  agree_C18 i o = true -> kf_C18 i = 0 -> prop_C18 i o = true.
Proof.
  intros i o name a r x s Hd Hs Ha Hk. unfold agree_C18, run_C18 in Ha. unfold kf_C18 in Hk. unfold prop_C18.
  rewrite Hd in *. apply val_eqb_eq in Ha. subst o. unfold model_C18.
  destruct (build_call x name a) as [c|] eqn:Hb; [|reflexivity].
  destruct (kf1 x name a r) eqn:K1; [discriminate|].
  assert (Hdoc : doc_match x name a r = spec_match x name a r).
  { unfold doc_match.
    destruct (bytes_eqb name [114;101;113;95;104;101;97;100;101;114;95;107;101;121;95;105;110]) eqn:E1.
    - apply list_Z_eqb_eq in E1. subst name. vm_compute in Hs. discriminate.
    - destruct (bytes_eqb name [114;101;115;95;104;101;97;100;101;114;95;107;101;121;95;105;110]) eqn:E2; [|reflexivity].
      apply list_Z_eqb_eq in E2. subst name. vm_compute in Hs. discriminate. }
  rewrite Hdoc, (string_prims_meet_spec x name a r c s Hs Hb K1).
  destruct (cond_match x c r); reflexivity.
Qed.

(* ================================================================== C18: the 19 primitives outside string_specs *)
(* tactics: evaluate closed table lookups / name tests, leave everything else alone *)
Ltac ev_closed t := let v := eval vm_compute in t in change t with v.
Ltac ev_closed_in t H := let v := eval vm_compute in t in change t with v in H.
Ltac open_build H :=
  unfold build_call in H;
  match type of H with (if negb ?c then _ else _) = _ => destruct c; [|discriminate]; cbn [negb] in H end;
  match type of H with context[wiring_of ?n] => ev_closed_in (wiring_of n) H end;
  cbv beta iota in H;
  match type of H with context[bytes_eqb ?m n_none] => ev_closed_in (bytes_eqb m n_none) H end;
  cbv beta iota in H;
  try (unfold build_matcher in H;
       match type of H with context[ctor_of ?n] => ev_closed_in (ctor_of n) H end;
       cbv beta iota in H; unfold build_matcher_k in H; cbv zeta in H; cbn [map] in H).
Ltac name_tests :=
  repeat (match goal with
          | |- context[if bytes_eqb ?a ?b then _ else _] => ev_closed (bytes_eqb a b); cbv beta iota
          end).
Ltac open_spec := unfold spec_other; cbv zeta; name_tests.
Ltac open_fetch :=
  unfold cond_match, fetch;
  match goal with |- context[fetcher_of ?n] => ev_closed (fetcher_of n) end; cbv beta iota;
  cbn [fetch_k].
Ltac open_direct :=
  unfold cond_match, direct_match; name_tests.

Lemma header_key_in_model keys h :
  existsb (fun k => nonempty (header_get k h)) (split_bar keys) = header_key_in keys h.
Proof.
  unfold header_key_in. apply existsb_ext'. intro k. unfold header_get, hget.
  destruct (aget (canon_key k) h) as [[|v ?]|]; reflexivity.
Qed.
Lemma header_key_in_present keys h : header_key_in keys h = true -> header_key_present keys h = true.
Proof.
  unfold header_key_in, header_key_present. induction (split_bar keys) as [|k l IH]; simpl; [discriminate|].
  intro H. apply orb_true_iff in H. apply orb_true_iff. destruct H as [H|H]; [left|right; apply IH; exact H].
  destruct (aget (canon_key k) h) as [[|v ?]|]; try discriminate. reflexivity.
Qed.
Lemma present_eq_in keys h :
  header_key_present keys h && negb (header_key_in keys h) = false -> header_key_present keys h = header_key_in keys h.
Proof.
  intro H. destruct (header_key_in keys h) eqn:E.
  - apply header_key_in_present. exact E.
  - rewrite andb_true_r in H. exact H.
Qed.

Section Others.
Variable x : ext.
Variables (args : list arg) (r : request) (c : cond).

Lemma o_default_t : build_call x [100;101;102;97;117;108;116;95;116] args = Some c ->
  spec_other x [100;101;102;97;117;108;116;95;116] args r = Some (cond_match x c r).
Proof. intro H. open_build H. inversion H; subst c. open_spec. open_direct. reflexivity. Qed.

Lemma o_req_cip_trusted : build_call x [114;101;113;95;99;105;112;95;116;114;117;115;116;101;100] args = Some c ->
  spec_other x [114;101;113;95;99;105;112;95;116;114;117;115;116;101;100] args r = Some (cond_match x c r).
Proof. intro H. open_build H. inversion H; subst c. open_spec. open_direct. reflexivity. Qed.

Lemma o_req_proto_secure : build_call x [114;101;113;95;112;114;111;116;111;95;115;101;99;117;114;101] args = Some c ->
  spec_other x [114;101;113;95;112;114;111;116;111;95;115;101;99;117;114;101] args r = Some (cond_match x c r).
Proof. intro H. open_build H. inversion H; subst c. open_spec. open_direct. reflexivity. Qed.

Lemma o_req_query_exist : build_call x [114;101;113;95;113;117;101;114;121;95;101;120;105;115;116] args = Some c ->
  spec_other x [114;101;113;95;113;117;101;114;121;95;101;120;105;115;116] args r = Some (cond_match x c r).
Proof. intro H. open_build H. inversion H; subst c. open_spec. open_direct. destruct (r_query r); reflexivity. Qed.

Lemma o_ses_tls_client_auth : build_call x [115;101;115;95;116;108;115;95;99;108;105;101;110;116;95;97;117;116;104] args = Some c ->
  spec_other x [115;101;115;95;116;108;115;95;99;108;105;101;110;116;95;97;117;116;104] args r = Some (cond_match x c r).
Proof. intro H. open_build H. inversion H; subst c. open_spec. open_direct. reflexivity. Qed.

Lemma o_req_cip_range : build_call x [114;101;113;95;99;105;112;95;114;97;110;103;101] args = Some c ->
  spec_other x [114;101;113;95;99;105;112;95;114;97;110;103;101] args r = Some (cond_match x c r).
Proof.
  intro H. open_build H.
  change (nth_arg [nth_arg args 0; nth_arg args 1] 0) with (nth_arg args 0) in H.
  change (nth_arg [nth_arg args 0; nth_arg args 1] 1) with (nth_arg args 1) in H.
  open_spec. unfold ip_in_range.
  destruct (x_ip x (arg_str (nth_arg args 0))) as [[s v4s]|]; [|discriminate].
  destruct (x_ip x (arg_str (nth_arg args 1))) as [[e v4e]|]; [|discriminate].
  destruct (negb (Bool.eqb v4s v4e)); [discriminate|]. destruct (bytes_le s e); [|discriminate].
  inversion H; subst c. open_fetch. destruct (r_cip r) as [ip|]; simpl; [|reflexivity].
  destruct (to16 ip); reflexivity.
Qed.

Lemma o_req_vip_range : build_call x [114;101;113;95;118;105;112;95;114;97;110;103;101] args = Some c ->
  spec_other x [114;101;113;95;118;105;112;95;114;97;110;103;101] args r = Some (cond_match x c r).
Proof.
  intro H. open_build H.
  change (nth_arg [nth_arg args 0; nth_arg args 1] 0) with (nth_arg args 0) in H.
  change (nth_arg [nth_arg args 0; nth_arg args 1] 1) with (nth_arg args 1) in H.
  open_spec. unfold ip_in_range.
  destruct (x_ip x (arg_str (nth_arg args 0))) as [[s v4s]|]; [|discriminate].
  destruct (x_ip x (arg_str (nth_arg args 1))) as [[e v4e]|]; [|discriminate].
  destruct (negb (Bool.eqb v4s v4e)); [discriminate|]. destruct (bytes_le s e); [|discriminate].
  inversion H; subst c. open_fetch. destruct (r_vip r) as [ip|]; simpl; [|reflexivity].
  destruct (to16 ip); reflexivity.
Qed.

Lemma o_ses_vip_range : build_call x [115;101;115;95;118;105;112;95;114;97;110;103;101] args = Some c ->
  spec_other x [115;101;115;95;118;105;112;95;114;97;110;103;101] args r = Some (cond_match x c r).
Proof.
  intro H. open_build H.
  change (nth_arg [nth_arg args 0; nth_arg args 1] 0) with (nth_arg args 0) in H.
  change (nth_arg [nth_arg args 0; nth_arg args 1] 1) with (nth_arg args 1) in H.
  open_spec. unfold ip_in_range.
  destruct (x_ip x (arg_str (nth_arg args 0))) as [[s v4s]|]; [|discriminate].
  destruct (x_ip x (arg_str (nth_arg args 1))) as [[e v4e]|]; [|discriminate].
  destruct (negb (Bool.eqb v4s v4e)); [discriminate|]. destruct (bytes_le s e); [|discriminate].
  inversion H; subst c. open_fetch. destruct (r_vip r) as [ip|]; simpl; [|reflexivity].
  destruct (to16 ip); reflexivity.
Qed.

Lemma o_ses_sip_range : build_call x [115;101;115;95;115;105;112;95;114;97;110;103;101] args = Some c ->
  spec_other x [115;101;115;95;115;105;112;95;114;97;110;103;101] args r = Some (cond_match x c r).
Proof.
  intro H. open_build H.
  change (nth_arg [nth_arg args 0; nth_arg args 1] 0) with (nth_arg args 0) in H.
  change (nth_arg [nth_arg args 0; nth_arg args 1] 1) with (nth_arg args 1) in H.
  open_spec. unfold ip_in_range.
  destruct (x_ip x (arg_str (nth_arg args 0))) as [[s v4s]|]; [|discriminate].
  destruct (x_ip x (arg_str (nth_arg args 1))) as [[e v4e]|]; [|discriminate].
  destruct (negb (Bool.eqb v4s v4e)); [discriminate|]. destruct (bytes_le s e); [|discriminate].
  inversion H; subst c. open_fetch. destruct (r_sip r) as [ip|]; simpl; [|reflexivity].
  destruct (to16 ip); reflexivity.
Qed.

Lemma o_req_vip_in : build_call x [114;101;113;95;118;105;112;95;105;110] args = Some c ->
  spec_other x [114;101;113;95;118;105;112;95;105;110] args r = Some (cond_match x c r).
Proof.
  intro H. open_build H. change (nth_arg [nth_arg args 0] 0) with (nth_arg args 0) in H.
  open_spec.
  destruct (all_some (map (fun p => option_map fst (x_ip x p)) (split_bar (arg_str (nth_arg args 0))))) as [ips|] eqn:E;
    [|discriminate].
  inversion H; subst c. open_fetch. destruct (r_vip r) as [ip|]; simpl; [|reflexivity].
  destruct (to16 ip) as [ip16|]; [|reflexivity]. f_equal. unfold mem_bytes.
  clear H. revert ips E. induction (split_bar (arg_str (nth_arg args 0))) as [|p l IH]; intros ips E; simpl in E.
  - inversion E. reflexivity.
  - destruct (x_ip x p) as [[q v4]|] eqn:Ep; simpl in E; [|discriminate].
    destruct (all_some (map (fun p0 => option_map fst (x_ip x p0)) l)) as [r'|]; [|discriminate].
    inversion E; subst ips. simpl. rewrite Ep. rewrite (IH r' eq_refl).
    f_equal. unfold bytes_eqb. apply Bool.eq_true_iff_eq. rewrite !list_Z_eqb_eq. split; congruence.
Qed.

Lemma o_req_cip_hash_in : build_call x [114;101;113;95;99;105;112;95;104;97;115;104;95;105;110] args = Some c ->
  spec_other x [114;101;113;95;99;105;112;95;104;97;115;104;95;105;110] args r = Some (cond_match x c r).
Proof.
  intro H. open_build H. change (nth_arg [nth_arg args 0] 0) with (nth_arg args 0) in H.
  open_spec.
  destruct (all_some (map hash_section (split_bar (arg_str (nth_arg args 0))))) as [rs|]; [|discriminate].
  ev_closed_in (0 =? 2) H. cbv beta iota in H.
  inversion H; subst c. open_fetch. destruct (r_cip r) as [ip|]; reflexivity.
Qed.

Lemma o_req_query_key_in : build_call x [114;101;113;95;113;117;101;114;121;95;107;101;121;95;105;110] args = Some c ->
  spec_other x [114;101;113;95;113;117;101;114;121;95;107;101;121;95;105;110] args r = Some (cond_match x c r).
Proof. intro H. open_build H. inversion H; subst c. open_spec. open_fetch. reflexivity. Qed.

Lemma o_req_query_key_prefix_in : build_call x [114;101;113;95;113;117;101;114;121;95;107;101;121;95;112;114;101;102;105;120;95;105;110] args = Some c ->
  spec_other x [114;101;113;95;113;117;101;114;121;95;107;101;121;95;112;114;101;102;105;120;95;105;110] args r = Some (cond_match x c r).
Proof. intro H. open_build H. inversion H; subst c. open_spec. open_fetch. reflexivity. Qed.

Lemma o_req_cookie_key_in : build_call x [114;101;113;95;99;111;111;107;105;101;95;107;101;121;95;105;110] args = Some c ->
  spec_other x [114;101;113;95;99;111;111;107;105;101;95;107;101;121;95;105;110] args r = Some (cond_match x c r).
Proof. intro H. open_build H. inversion H; subst c. open_spec. open_fetch. reflexivity. Qed.

Lemma o_req_tag_match : build_call x [114;101;113;95;116;97;103;95;109;97;116;99;104] args = Some c ->
  spec_other x [114;101;113;95;116;97;103;95;109;97;116;99;104] args r = Some (cond_match x c r).
Proof.
  intro H. open_build H. change (nth_arg [nth_arg args 1] 0) with (nth_arg args 1) in H.
  inversion H; subst c. open_spec. open_fetch.
  destruct (r_tags r) as [tbl|]; [|reflexivity]. destruct (aget (arg_str (nth_arg args 0)) tbl); reflexivity.
Qed.

Lemma o_bfe_time_range : build_call x [98;102;101;95;116;105;109;101;95;114;97;110;103;101] args = Some c ->
  spec_other x [98;102;101;95;116;105;109;101;95;114;97;110;103;101] args r = Some (cond_match x c r).
Proof.
  intro H. open_build H.
  change (nth_arg [nth_arg args 0; nth_arg args 1] 0) with (nth_arg args 0) in H.
  change (nth_arg [nth_arg args 0; nth_arg args 1] 1) with (nth_arg args 1) in H.
  open_spec.
  destruct (x_time x (arg_str (nth_arg args 0))) as [s|]; [|discriminate].
  destruct (x_time x (arg_str (nth_arg args 1))) as [e|]; [|discriminate].
  destruct (e <? s); [discriminate|]. inversion H; subst c. open_fetch.
  unfold current_time. destruct (aget n_DebugTime (r_headers r)) as [[|v ?]|]; try reflexivity.
  destruct (x_time x v); reflexivity.
Qed.

Lemma o_bfe_periodic_time_range : build_call x [98;102;101;95;112;101;114;105;111;100;105;99;95;116;105;109;101;95;114;97;110;103;101] args = Some c ->
  spec_other x [98;102;101;95;112;101;114;105;111;100;105;99;95;116;105;109;101;95;114;97;110;103;101] args r = Some (cond_match x c r).
Proof.
  intro H. open_build H.
  change (nth_arg [nth_arg args 0; nth_arg args 1; nth_arg args 2] 0) with (nth_arg args 0) in H.
  change (nth_arg [nth_arg args 0; nth_arg args 1; nth_arg args 2] 1) with (nth_arg args 1) in H.
  change (nth_arg [nth_arg args 0; nth_arg args 1; nth_arg args 2] 2) with (nth_arg args 2) in H.
  open_spec.
  destruct (arg_str (nth_arg args 2)); [|discriminate].
  destruct (x_tod x (arg_str (nth_arg args 0))) as [[s o1]|]; [|discriminate].
  destruct (x_tod x (arg_str (nth_arg args 1))) as [[e o2]|]; [|discriminate].
  destruct (e <? s); [discriminate|]. destruct (negb (o1 =? o2)); [discriminate|]. inversion H; subst c. open_fetch.
  unfold current_time. destruct (aget n_DebugTime (r_headers r)) as [[|v ?]|]; try reflexivity.
  destruct (x_time x v); reflexivity.
Qed.

Lemma o_req_header_key_in : build_call x [114;101;113;95;104;101;97;100;101;114;95;107;101;121;95;105;110] args = Some c -> kf2 [114;101;113;95;104;101;97;100;101;114;95;107;101;121;95;105;110] args r = false ->
  doc_match x [114;101;113;95;104;101;97;100;101;114;95;107;101;121;95;105;110] args r = Some (cond_match x c r).
Proof.
  intros H K. open_build H. inversion H; subst c. unfold doc_match, kf2 in *. cbv zeta in *.
  name_tests.
  repeat (match type of K with context[if bytes_eqb ?a ?b then _ else _] => ev_closed_in (bytes_eqb a b) K; cbv beta iota in K end).
  open_fetch. f_equal. rewrite header_key_in_model. apply present_eq_in. exact K.
Qed.
Lemma o_res_header_key_in : build_call x [114;101;115;95;104;101;97;100;101;114;95;107;101;121;95;105;110] args = Some c -> kf2 [114;101;115;95;104;101;97;100;101;114;95;107;101;121;95;105;110] args r = false ->
  doc_match x [114;101;115;95;104;101;97;100;101;114;95;107;101;121;95;105;110] args r = Some (cond_match x c r).
Proof.
  intros H K. open_build H. inversion H; subst c. unfold doc_match, kf2 in *. cbv zeta in *.
  name_tests.
  repeat (match type of K with context[if bytes_eqb ?a ?b then _ else _] => ev_closed_in (bytes_eqb a b) K; cbv beta iota in K end).
  open_fetch. destruct (r_resp r) as [[code h]|]; [|reflexivity].
  f_equal. rewrite header_key_in_model. apply present_eq_in. exact K.
Qed.
End Others.

Ltac other_case H :=
  first [ apply o_default_t; exact H
        | apply o_req_cip_trusted; exact H
        | apply o_req_proto_secure; exact H
        | apply o_req_query_exist; exact H
        | apply o_ses_tls_client_auth; exact H
        | apply o_req_cip_range; exact H
        | apply o_req_vip_range; exact H
        | apply o_ses_vip_range; exact H
        | apply o_ses_sip_range; exact H
        | apply o_req_vip_in; exact H
        | apply o_req_cip_hash_in; exact H
        | apply o_req_query_key_in; exact H
        | apply o_req_query_key_prefix_in; exact H
        | apply o_req_cookie_key_in; exact H
        | apply o_req_tag_match; exact H
        | apply o_bfe_time_range; exact H
        | apply o_bfe_periodic_time_range; exact H ].

(* all 56 primitives: on a call that Build accepts and a request outside the two finding classes, Match returns
   the documented verdict *)
Theorem model_meets_doc : forall x name args r c,
  build_call x name args = Some c -> kf1 x name args r = false -> kf2 name args r = false ->
  doc_match x name args r = Some (cond_match x c r).
Proof.
  intros x name args r c H K1 K2.
  assert (P : prototype_check protos name (map fst args) = 0).
  { unfold build_call in H. destruct (prototype_check protos name (map fst args) =? 0) eqn:E;
      [apply Z.eqb_eq; exact E|discriminate]. }
  apply proto_check_exact in P. apply lookup_In in P. unfold protos in P. simpl in P.
  repeat (destruct P as [P|P];
          [ inversion P; subst name; clear P;
            first [ apply o_req_header_key_in; assumption
                  | apply o_res_header_key_in; assumption
                  | (unfold doc_match; cbv zeta; name_tests;
                     first [ (let s := fresh "s" in
                              evar (s : sspec);
                              apply (string_prims_meet_spec x _ args r c s); [vm_compute; reflexivity|exact H|exact K1])
                           | (unfold spec_match;
                              match goal with |- context[lookup ?n string_specs] => ev_closed (lookup n string_specs) end;
                              cbv beta iota; other_case H) ]) ]
          | ]).
  contradiction.
Qed.

(* every observation that agrees with the model satisfies the property predicate outside the listed findings *)
Theorem agree_implies_prop_C18 : forall i o, agree_C18 i o = true -> kf_C18 i = 0 -> prop_C18 i o = true.
Proof.
  intros i o Ha Hk. unfold agree_C18, run_C18 in Ha. unfold kf_C18 in Hk. unfold prop_C18.
  destruct (decode_C18 i) as [[[[name a] r] x]|].
  - apply val_eqb_eq in Ha. subst o. unfold model_C18.
    destruct (build_call x name a) as [c|] eqn:Hb; [|reflexivity].
    destruct (kf1 x name a r) eqn:K1; [discriminate|]. destruct (kf2 name a r) eqn:K2; [discriminate|].
    rewrite (model_meets_doc x name a r c Hb K1 K2). destruct (cond_match x c r); reflexivity.
  - destruct (decode_shape i) as [[[[[name a] r] x] sh]|]; [|reflexivity].
    apply val_eqb_eq in Ha. subst o. apply val_eqb_refl.
Qed.

(* central theorem: the model satisfies the property on every input outside the finding classes *)
Theorem prop_C18_of_model : forall i, kf_C18 i = 0 -> prop_C18 i (run_C18 i) = true.
Proof. intros i Hk. apply agree_implies_prop_C18; [apply val_eqb_refl|exact Hk]. Qed.
