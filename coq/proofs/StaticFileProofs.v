(* C50 proofs: lexical confinement of http.Dir.Open and what serve returns. *)
From Coq Require Import List ZArith Bool Lia.
From Bfe Require Import lib.Val lib.ValProofs lib.Bytes model.StaticFile run.RunC50.
Import ListNotations.
Open Scope Z_scope.

(* an element that survives path.Clean: not empty, not ".", not ".." *)
Definition good_elem (e : elem) : Prop := e <> [] /\ e <> DOT /\ e <> DOTDOT.

Lemma clean_step_good stk e : Forall good_elem stk -> Forall good_elem (clean_step stk e).
Proof.
  intros H. unfold clean_step.
  destruct (bytes_eqb e []) eqn:E1; simpl; [exact H|].
  destruct (bytes_eqb e DOT) eqn:E2; simpl; [exact H|].
  destruct (bytes_eqb e DOTDOT) eqn:E3.
  - destruct stk; simpl; [constructor|]. inversion H; assumption.
  - constructor; [|exact H]. repeat split; intro; subst e.
    + rewrite (proj2 (bytes_eqb_eq _ _) eq_refl) in E1. discriminate.
    + rewrite (proj2 (bytes_eqb_eq _ _) eq_refl) in E2. discriminate.
    + rewrite (proj2 (bytes_eqb_eq _ _) eq_refl) in E3. discriminate.
Qed.
Lemma clean_from_good es : forall stk, Forall good_elem stk -> Forall good_elem (clean_from stk es).
Proof.
  induction es as [|e es IH]; intros stk H; simpl; [exact H|]. apply IH. apply clean_step_good. exact H.
Qed.
Lemma clean_abs_good es : Forall good_elem (clean_abs es).
Proof.
  unfold clean_abs. apply Forall_rev. apply clean_from_good. constructor.
Qed.

(* every '/'-separated piece produced by split_byte is free of '/' *)
Lemma split_byte_no_sep c l : Forall (fun e => ~ In c e) (split_byte c l).
Proof.
  induction l as [|x r IH]; simpl; [constructor; [intros []|constructor]|].
  destruct (split_byte c r) as [|cur rest] eqn:E; [constructor; [intros []|constructor]|].
  inversion IH as [|? ? Hc Hr]; subst.
  destruct (x =? c) eqn:Ex.
  - constructor; [intros []|]. constructor; assumption.
  - constructor; [|assumption]. intros [H|H]; [subst; rewrite Z.eqb_refl in Ex; discriminate|contradiction].
Qed.
Lemma clean_step_sub P stk e : Forall P stk -> P e -> Forall P (clean_step stk e).
Proof.
  intros H He. unfold clean_step.
  destruct (bytes_eqb e [] || bytes_eqb e DOT); [exact H|].
  destruct (bytes_eqb e DOTDOT); [destruct stk; simpl; [constructor|inversion H; assumption]|].
  constructor; assumption.
Qed.
Lemma clean_from_sub P es : forall stk, Forall P stk -> Forall P es -> Forall P (clean_from stk es).
Proof.
  induction es as [|e es IH]; intros stk H He; simpl; [exact H|].
  inversion He; subst. apply IH; [apply clean_step_sub; assumption|assumption].
Qed.

Theorem clean_rooted_no_dotdot_lemma : forall name,
  Forall (fun e => good_elem e /\ ~ In SLASH e) (clean_name name).
Proof.
  intros name. apply Forall_forall. intros e He. split.
  - pose proof (clean_abs_good (split_byte SLASH name)) as H. rewrite Forall_forall in H. apply H. exact He.
  - assert (H : Forall (fun e => ~ In SLASH e) (clean_name name)).
    { unfold clean_name, clean_abs. apply Forall_rev. apply clean_from_sub; [constructor|apply split_byte_no_sep]. }
    rewrite Forall_forall in H. apply H. exact He.
Qed.

(* ---- the path walk only ever returns what is stored at exactly the walked path *)
Lemma walk_file fs rest : forall cur c, walk fs cur rest = RFile c -> fs_get fs (cur ++ rest) = Some (NFile c).
Proof.
  induction rest as [|e r IH]; intros cur c H; simpl in H.
  - rewrite app_nil_r. destruct (fs_get fs cur) as [[c'|]|]; try discriminate. congruence.
  - destruct (fs_get fs cur) as [[c'|]|]; try discriminate.
    destruct (NAME_MAX <? blen e); [discriminate|].
    apply IH in H. rewrite <- app_assoc in H. exact H.
Qed.

Lemma path_eqb_eq a : forall b, path_eqb a b = true <-> a = b.
Proof.
  induction a as [|x a IH]; intros [|y b]; simpl; split; intro H; try reflexivity; try discriminate.
  - apply andb_true_iff in H. destruct H as [H1 H2]. apply bytes_eqb_eq in H1. apply IH in H2. congruence.
  - inversion H; subst. apply andb_true_iff. split; [apply bytes_eqb_eq; reflexivity|apply IH; reflexivity].
Qed.
Lemma fs_find_in fs p n : fs_find fs p = Some n -> In (p, n) fs.
Proof.
  induction fs as [|[q m] r IH]; simpl; [discriminate|].
  destruct (path_eqb q p) eqn:E.
  - intros H. inversion H; subst. apply path_eqb_eq in E. subst. left. reflexivity.
  - intros H. right. apply IH. exact H.
Qed.

(* C50_under_root *)
Theorem dir_open_under_root : forall fs root name c,
  dir_open fs root name = RFile c ->
  exists rel, Forall (fun e => good_elem e /\ ~ In SLASH e) rel /\ has_nul rel = false /\
              opened_path root name = Some (root ++ rel) /\
              fs_get fs (root ++ rel) = Some (NFile c).
Proof.
  intros fs root name c H. unfold dir_open in H. unfold opened_path in *.
  destruct (has_nul (clean_name name)) eqn:En; [discriminate|].
  exists (clean_name name). split; [apply clean_rooted_no_dotdot_lemma|]. split; [exact En|].
  split; [reflexivity|]. apply walk_file in H. exact H.
Qed.

(* ---- what serve returns *)
Lemma new_static_file_open fs root name encs :
  exists fname, fst (new_static_file fs root name encs) = dir_open fs root fname.
Proof.
  unfold new_static_file. destruct (pick_sibling fs root name encs) as [fname enc]. exists fname. reflexivity.
Qed.
Lemma open_static_file_open fs root name def encs :
  exists fname, fst (open_static_file fs root name def encs) = dir_open fs root fname.
Proof.
  unfold open_static_file.
  destruct (new_static_file_open fs root name encs) as [f1 H1].
  destruct (new_static_file_open fs root def encs) as [f2 H2].
  destruct (fst (new_static_file fs root name encs)) eqn:E; try (exists f1; rewrite E; exact H1);
    destruct def; try (exists f1; rewrite E; exact H1); exists f2; exact H2.
Qed.

Theorem serve_200_under_root : forall fs root meth name ae def compress,
  r_status (serve fs root meth name ae def compress) = 200 ->
  exists rel c, Forall (fun e => good_elem e /\ ~ In SLASH e) rel /\ has_nul rel = false /\
    fs_get fs (root ++ rel) = Some (NFile c) /\
    r_clen (serve fs root meth name ae def compress) = dec_of_Z (blen c) /\
    r_body (serve fs root meth name ae def compress) = (if bytes_eqb meth HEAD then [] else c) /\
    (meth = GET \/ meth = HEAD).
Proof.
  intros fs root meth name ae def compress. unfold serve.
  destruct (negb (bytes_eqb meth GET) && negb (bytes_eqb meth HEAD)) eqn:Em; [simpl; discriminate|].
  set (encs := if compress then accept_list ae else []).
  destruct (open_static_file_open fs root name def encs) as [fname Hf].
  destruct (open_static_file fs root name def encs) as [r enc]. simpl in Hf.
  destruct r; simpl; try discriminate. intros _.
  symmetry in Hf. apply dir_open_under_root in Hf. destruct Hf as [rel [Hg [Hn [_ Hfs]]]].
  exists rel, c. repeat split; try assumption.
  apply andb_false_iff in Em. destruct Em as [Em|Em]; apply negb_false_iff in Em; apply bytes_eqb_eq in Em; auto.
Qed.

Theorem serve_methods : forall fs root meth name ae def compress,
  meth <> GET -> meth <> HEAD ->
  serve fs root meth name ae def compress = {| r_status := 405; r_body := []; r_clen := []; r_cenc := [] |}.
Proof.
  intros fs root meth name ae def compress H1 H2. unfold serve.
  destruct (bytes_eqb meth GET) eqn:E1; [apply bytes_eqb_eq in E1; contradiction|].
  destruct (bytes_eqb meth HEAD) eqn:E2; [apply bytes_eqb_eq in E2; contradiction|]. reflexivity.
Qed.

Theorem serve_status_range : forall fs root meth name ae def compress,
  let r := serve fs root meth name ae def compress in
  (r_status r = 200 \/ r_status r = 404 \/ r_status r = 405 \/ r_status r = 500) /\
  (r_status r <> 200 -> r_body r = [] /\ r_clen r = [] /\ r_cenc r = []).
Proof.
  intros fs root meth name ae def compress. unfold serve.
  destruct (negb (bytes_eqb meth GET) && negb (bytes_eqb meth HEAD)); simpl; [split; [auto|intros _; auto]|].
  destruct (open_static_file fs root name def (if compress then accept_list ae else [])) as [r enc].
  destruct r; simpl; split; auto; intros H; try contradiction; auto.
Qed.

Lemma C50_example_lemma :
  let fs := [([[119]], NDir); ([[119]; [97]], NFile [1; 2; 3]); ([[115]], NFile [9])] in
  r_status (serve fs [[119]] GET [47; 46; 46; 47; 115] [] [] false) = 404 /\
  serve fs [[119]] GET [47; 120; 47; 46; 46; 47; 97] [] [] false
    = {| r_status := 200; r_body := [1; 2; 3]; r_clen := [51]; r_cenc := [] |}.
Proof. vm_compute. split; reflexivity. Qed.
