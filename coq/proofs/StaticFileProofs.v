(* C50 proofs: lexical confinement of http.Dir.Open and what serve returns. *)
From Coq Require Import List ZArith Bool Lia.
From Bfe Require Import lib.Val lib.ValProofs lib.Bytes model.StaticFile run.RunC50.
Import ListNotations.
Open Scope Z_scope.

(* an element that survives path.Clean: not empty, not ".", not ".." *)
Definition good_elem (e : elem) : Prop := e <> [] /\ e <> DOT /\ e <> DOTDOT.

Lemma clean_step_good stk e : Forall good_elem stk -> Forall good_elem (clean_step stk e).
Proof.
  intros H. unfold clean_step.
  destruct (bytes_eqb e []) eqn:E1; simpl; [exact H|].
  destruct (bytes_eqb e DOT) eqn:E2; simpl; [exact H|].
  destruct (bytes_eqb e DOTDOT) eqn:E3.
  - destruct stk; simpl; [constructor|]. inversion H; assumption.
  - constructor; [|exact H]. repeat split; intro; subst e.
    + rewrite (proj2 (bytes_eqb_eq _ _) eq_refl) in E1. discriminate.
    + rewrite (proj2 (bytes_eqb_eq _ _) eq_refl) in E2. discriminate.
    + rewrite (proj2 (bytes_eqb_eq _ _) eq_refl) in E3. discriminate.
Qed.
Lemma clean_from_good es : forall stk, Forall good_elem stk -> Forall good_elem (clean_from stk es).
Proof.
  induction es as [|e es IH]; intros stk H; simpl; [exact H|]. apply IH. apply clean_step_good. exact H.
Qed.
Lemma clean_abs_good es : Forall good_elem (clean_abs es).
Proof.
  unfold clean_abs. apply Forall_rev. apply clean_from_good. constructor.
Qed.

(* every '/'-separated piece produced by split_byte is free of '/' *)
Lemma split_byte_no_sep c l : Forall (fun e => ~ In c e) (split_byte c l).
Proof.
  induction l as [|x r IH]; simpl; [constructor; [intros []|constructor]|].
  destruct (split_byte c r) as [|cur rest] eqn:E; [constructor; [intros []|constructor]|].
  inversion IH as [|? ? Hc Hr]; subst.
  destruct (x =? c) eqn:Ex.
  - constructor; [intros []|]. constructor; assumption.
  - constructor; [|assumption]. intros [H|H]; [subst; rewrite Z.eqb_refl in Ex; discriminate|contradiction].
Qed.
Lemma clean_step_sub P stk e : Forall P stk -> P e -> Forall P (clean_step stk e).
Proof.
  intros H He. unfold clean_step.
  destruct (bytes_eqb e [] || bytes_eqb e DOT); [exact H|].
  destruct (bytes_eqb e DOTDOT); [destruct stk; simpl; [constructor|inversion H; assumption]|].
  constructor; assumption.
Qed.
Lemma clean_from_sub P es : forall stk, Forall P stk -> Forall P es -> Forall P (clean_from stk es).
Proof.
  induction es as [|e es IH]; intros stk H He; simpl; [exact H|].
  inversion He; subst. apply IH; [apply clean_step_sub; assumption|assumption].
Qed.

Theorem clean_rooted_no_dotdot_lemma : forall name,
  Forall (fun e => good_elem e /\ ~ In SLASH e) (clean_name name).
Proof.
  intros name. apply Forall_forall. intros e He. split.
  - pose proof (clean_abs_good (split_byte SLASH name)) as H. rewrite Forall_forall in H. apply H. exact He.
  - assert (H : Forall (fun e => ~ In SLASH e) (clean_name name)).
    { unfold clean_name, clean_abs. apply Forall_rev. apply clean_from_sub; [constructor|apply split_byte_no_sep]. }
    rewrite Forall_forall in H. apply H. exact He.
Qed.

(* ---- the path walk only ever returns what is stored at exactly the walked path *)
Lemma walk_file fs rest : forall cur c, walk fs cur rest = RFile c -> fs_get fs (cur ++ rest) = Some (NFile c).
Proof.
  induction rest as [|e r IH]; intros cur c H; simpl in H.
  - rewrite app_nil_r. destruct (fs_get fs cur) as [[c'|]|]; try discriminate. congruence.
  - destruct (fs_get fs cur) as [[c'|]|]; try discriminate.
    destruct (NAME_MAX <? blen e); [discriminate|].
    apply IH in H. rewrite <- app_assoc in H. exact H.
Qed.

Lemma path_eqb_eq a : forall b, path_eqb a b = true <-> a = b.
Proof.
  induction a as [|x a IH]; intros [|y b]; simpl; split; intro H; try reflexivity; try discriminate.
  - apply andb_true_iff in H. destruct H as [H1 H2]. apply bytes_eqb_eq in H1. apply IH in H2. congruence.
  - inversion H; subst. apply andb_true_iff. split; [apply bytes_eqb_eq; reflexivity|apply IH; reflexivity].
Qed.
Lemma fs_find_in fs p n : fs_find fs p = Some n -> In (p, n) fs.
Proof.
  induction fs as [|[q m] r IH]; simpl; [discriminate|].
  destruct (path_eqb q p) eqn:E.
  - intros H. inversion H; subst. apply path_eqb_eq in E. subst. left. reflexivity.
  - intros H. right. apply IH. exact H.
Qed.

(* C50_under_root *)
Theorem dir_open_under_root : forall fs root name c,
  dir_open fs root name = RFile c ->
  exists rel, Forall (fun e => good_elem e /\ ~ In SLASH e) rel /\ has_nul rel = false /\
              opened_path root name = Some (root ++ rel) /\
              fs_get fs (root ++ rel) = Some (NFile c).
Proof.
  intros fs root name c H. unfold dir_open in H. unfold opened_path in *.
  destruct (has_nul (clean_name name)) eqn:En; [discriminate|].
  exists (clean_name name). split; [apply clean_rooted_no_dotdot_lemma|]. split; [exact En|].
  split; [reflexivity|]. apply walk_file in H. exact H.
Qed.

(* ---- what serve returns *)
Lemma new_static_file_open fs root name encs :
  exists fname, fst (new_static_file fs root name encs) = dir_open fs root fname.
Proof.
  unfold new_static_file. destruct (pick_sibling fs root name encs) as [fname enc]. exists fname. reflexivity.
Qed.
Lemma open_static_file_open fs root name def encs :
  exists fname, fst (open_static_file fs root name def encs) = dir_open fs root fname.
Proof.
  unfold open_static_file.
  destruct (new_static_file_open fs root name encs) as [f1 H1].
  destruct (new_static_file_open fs root def encs) as [f2 H2].
  destruct (fst (new_static_file fs root name encs)) eqn:E; try (exists f1; rewrite E; exact H1);
    destruct def; try (exists f1; rewrite E; exact H1); exists f2; exact H2.
Qed.

Theorem serve_200_under_root : forall fs root meth name ae def compress,
  r_status (serve fs root meth name ae def compress) = 200 ->
  exists rel c, Forall (fun e => good_elem e /\ ~ In SLASH e) rel /\ has_nul rel = false /\
    fs_get fs (root ++ rel) = Some (NFile c) /\
    r_clen (serve fs root meth name ae def compress) = dec_of_Z (blen c) /\
    r_body (serve fs root meth name ae def compress) = (if bytes_eqb meth HEAD then [] else c) /\
    (meth = GET \/ meth = HEAD).
Proof.
  intros fs root meth name ae def compress. unfold serve.
  destruct (negb (bytes_eqb meth GET) && negb (bytes_eqb meth HEAD)) eqn:Em; [simpl; discriminate|].
  set (encs := if compress then accept_list ae else []).
  destruct (open_static_file_open fs root name def encs) as [fname Hf].
  destruct (open_static_file fs root name def encs) as [r enc]. simpl in Hf.
  destruct r; simpl; try discriminate. intros _.
  symmetry in Hf. apply dir_open_under_root in Hf. destruct Hf as [rel [Hg [Hn [_ Hfs]]]].
  exists rel, c. repeat split; try assumption.
  apply andb_false_iff in Em. destruct Em as [Em|Em]; apply negb_false_iff in Em; apply bytes_eqb_eq in Em; auto.
Qed.

Theorem serve_methods : forall fs root meth name ae def compress,
  meth <> GET -> meth <> HEAD ->
  serve fs root meth name ae def compress = {| r_status := 405; r_body := []; r_clen := []; r_cenc := [] |}.
Proof.
  intros fs root meth name ae def compress H1 H2. unfold serve.
  destruct (bytes_eqb meth GET) eqn:E1; [apply bytes_eqb_eq in E1; contradiction|].
  destruct (bytes_eqb meth HEAD) eqn:E2; [apply bytes_eqb_eq in E2; contradiction|]. reflexivity.
Qed.

Theorem serve_status_range : forall fs root meth name ae def compress,
  let r := serve fs root meth name ae def compress in
  (r_status r = 200 \/ r_status r = 404 \/ r_status r = 405 \/ r_status r = 500) /\
  (r_status r <> 200 -> r_body r = [] /\ r_clen r = [] /\ r_cenc r = []).
Proof.
  intros fs root meth name ae def compress. unfold serve.
  destruct (negb (bytes_eqb meth GET) && negb (bytes_eqb meth HEAD)); simpl; [split; [auto|intros _; auto]|].
  destruct (open_static_file fs root name def (if compress then accept_list ae else [])) as [r enc].
  destruct r; simpl; split; auto; intros H; try contradiction; auto.
Qed.

(* ---------- the executable property predicate holds of the model on every decoded input ---------- *)
Lemma path_prefix_app root : forall rel, path_prefix root (root ++ rel) = true.
Proof.
  induction root as [|e r IH]; intros rel; [reflexivity|]. cbn [app path_prefix].
  rewrite (proj2 (bytes_eqb_eq e e) eq_refl). apply IH.
Qed.
Lemma bytes_eqb_refl' l : bytes_eqb l l = true.
Proof. apply bytes_eqb_eq. reflexivity. Qed.
Lemma fs_get_find fs p : p <> [] -> fs_get fs p = fs_find fs p.
Proof. destruct p; [congruence|reflexivity]. Qed.

Lemma walk_dir fs rest : forall cur, walk fs cur rest = RDir -> fs_get fs (cur ++ rest) = Some NDir.
Proof.
  induction rest as [|e r IH]; intros cur H; simpl in H.
  - rewrite app_nil_r. destruct (fs_get fs cur) as [[c'|]|]; try discriminate. reflexivity.
  - destruct (fs_get fs cur) as [[c'|]|]; try discriminate.
    destruct (NAME_MAX <? blen e); [discriminate|].
    apply IH in H. rewrite <- app_assoc in H. exact H.
Qed.
Lemma walk_not_invalid fs rest : forall cur, walk fs cur rest <> RInvalid.
Proof.
  induction rest as [|e r IH]; intros cur; simpl.
  - destruct (fs_get fs cur) as [[c'|]|]; discriminate.
  - destruct (fs_get fs cur) as [[c'|]|]; try discriminate.
    destruct (NAME_MAX <? blen e); [discriminate|apply IH].
Qed.
Lemma walk_not_toolong fs rest : forall cur, forallb plain_elem rest = true -> walk fs cur rest <> RTooLong.
Proof.
  induction rest as [|e r IH]; intros cur H; simpl.
  - destruct (fs_get fs cur) as [[c'|]|]; discriminate.
  - simpl in H. apply andb_true_iff in H. destruct H as [He Hr].
    destruct (fs_get fs cur) as [[c'|]|]; try discriminate.
    unfold plain_elem in He. rewrite !andb_true_iff in He. destruct He as [_ Hl].
    destruct (NAME_MAX <? blen e) eqn:E; [lia|apply IH; exact Hr].
Qed.

Lemma prefixes_in (a : list elem) e r : In a (prefixes (a ++ e :: r)).
Proof.
  induction a as [|x a IH]; cbn [app prefixes]; [left; reflexivity|].
  right. apply in_map. exact IH.
Qed.
Lemma walk_present fs : fs_closed fs = true -> forall rest cur n,
  cur ++ rest <> [] -> fs_find fs (cur ++ rest) = Some n ->
  walk fs cur rest = match n with NFile c => RFile c | NDir => RDir end.
Proof.
  intros Hcl. induction rest as [|e r IH]; intros cur n Hne Hf.
  - rewrite app_nil_r in *. simpl. rewrite fs_get_find by exact Hne. rewrite Hf. destruct n; reflexivity.
  - pose proof (fs_find_in _ _ _ Hf) as Hin.
    unfold fs_closed in Hcl. rewrite forallb_forall in Hcl. specialize (Hcl _ Hin). cbn [fst] in Hcl.
    apply andb_true_iff in Hcl. destruct Hcl as [Hpre Hplain].
    rewrite forallb_forall in Hpre. specialize (Hpre cur (prefixes_in cur e r)).
    cbn [walk]. destruct (fs_get fs cur) as [[c'|]|]; try discriminate.
    rewrite forallb_forall in Hplain. assert (He : plain_elem e = true) by (apply Hplain; apply in_or_app; right; left; reflexivity).
    unfold plain_elem in He. rewrite !andb_true_iff in He. destruct He as [_ Hl].
    destruct (NAME_MAX <? blen e) eqn:E; [lia|].
    apply IH; rewrite <- app_assoc; cbn [app]; [exact Hne|exact Hf].
Qed.

Lemma clean_from_plain es : forall stk, forallb plain_elem es = true -> clean_from stk es = rev es ++ stk.
Proof.
  induction es as [|e r IH]; intros stk H; [reflexivity|]. simpl in H. apply andb_true_iff in H. destruct H as [He Hr].
  cbn [clean_from fold_left]. change (fold_left clean_step r (clean_step stk e)) with (clean_from (clean_step stk e) r).
  unfold plain_elem in He. rewrite !andb_true_iff, !negb_true_iff in He. destruct He as [[[[H1 H2] H3] _] _].
  unfold clean_step. rewrite H1, H2, H3. cbn [orb]. rewrite IH by exact Hr. cbn [rev]. rewrite <- app_assoc. reflexivity.
Qed.
Lemma plain_has_nul es : forallb plain_elem es = true -> has_nul es = false.
Proof.
  induction es as [|e r IH]; intros H; [reflexivity|]. simpl in H. apply andb_true_iff in H. destruct H as [He Hr].
  unfold has_nul in *. cbn [existsb]. rewrite (IH Hr), orb_false_r.
  unfold plain_elem in He. rewrite !andb_true_iff, !negb_true_iff in He. tauto.
Qed.
Lemma plain_dir_open fs root name es : plain_path name = Some es ->
  dir_open fs root name = walk fs [] (root ++ es) /\ forallb plain_elem es = true.
Proof.
  unfold plain_path. destruct (split_byte SLASH name) as [|[|x xs] rest] eqn:E; try discriminate.
  destruct (forallb plain_elem rest) eqn:Ep; [|discriminate]. intros H. inversion H; subst es. split; [|exact Ep].
  unfold dir_open, opened_path, clean_name, clean_abs. rewrite E.
  cbn [clean_from fold_left]. change (fold_left clean_step rest (clean_step [] [])) with (clean_from (clean_step [] []) rest).
  change (clean_step [] []) with (@nil elem). rewrite clean_from_plain by exact Ep. rewrite app_nil_r, rev_involutive.
  rewrite plain_has_nul by exact Ep. reflexivity.
Qed.

Theorem prop_resp_of_model : forall x,
  let r := serve_input x in prop_resp x (r_status r) (r_body r) (r_clen r) (r_cenc r) = true.
Proof.
  intros x. unfold serve_input. destruct x as [meth name ae root def compress fs]. cbn [i_fs i_root i_meth i_name i_ae i_def i_compress].
  unfold prop_resp. cbn [i_fs i_root i_meth i_name i_ae i_def i_compress].
  pose proof (serve_200_under_root fs root meth name ae def compress) as H200.
  unfold serve in *.
  destruct (negb (bytes_eqb meth GET) && negb (bytes_eqb meth HEAD)) eqn:Em; [reflexivity|].
  set (encs := if compress then accept_list ae else []) in *.
  apply andb_true_iff. split.
  - (* whatever is served lies under the root *)
    destruct (open_static_file fs root name def encs) as [res enc] eqn:EO.
    destruct res; cbn [r_status r_body r_clen Z.eqb Pos.eqb]; try reflexivity.
    cbn [r_status r_body r_clen] in H200. destruct (H200 eq_refl) as [rel [c' [_ [_ [Hget [Hcl [Hbody Hm]]]]]]].
    assert (Hne : root ++ rel <> []) by (intros E0; rewrite E0 in Hget; discriminate).
    rewrite fs_get_find in Hget by exact Hne. apply fs_find_in in Hget.
    unfold served_from_root. apply existsb_exists. exists (root ++ rel, NFile c'). split; [exact Hget|].
    rewrite path_prefix_app, Hcl, bytes_eqb_refl'. cbn [andb].
    destruct Hm as [Hm|Hm]; subst meth; [change (bytes_eqb GET GET) with true; change (bytes_eqb GET HEAD) with false in Hbody|
                                         change (bytes_eqb HEAD GET) with false; change (bytes_eqb HEAD HEAD) with true in Hbody];
      rewrite Hbody; apply bytes_eqb_refl'.
  - (* plain paths *)
    destruct (plain_path name) as [es|] eqn:Epl; [|reflexivity].
    destruct compress; [reflexivity|]. cbn [orb].
    destruct (fs_closed fs) eqn:Ecl; [|reflexivity]. cbn [negb orb].
    destruct (forallb plain_elem root) eqn:Er; [|reflexivity]. cbn [negb].
    destruct (plain_dir_open fs root name es Epl) as [Hopen Hes].
    subst encs. unfold open_static_file, new_static_file. cbn [pick_sibling fst]. rewrite Hopen.
    destruct (fs_get fs (root ++ es)) as [[c|]|] eqn:Eg; [| reflexivity |].
    + assert (Hne : root ++ es <> []) by (intros E0; rewrite E0 in Eg; discriminate).
      rewrite fs_get_find in Eg by exact Hne.
      change (root ++ es) with ([] ++ (root ++ es)) in Eg.
      rewrite (walk_present fs Ecl (root ++ es) [] (NFile c) Hne Eg).
      cbn [r_status r_body r_clen Z.eqb Pos.eqb andb]. rewrite bytes_eqb_refl'. cbn [andb].
      apply andb_false_iff in Em. destruct Em as [Em|Em]; apply negb_false_iff in Em; apply bytes_eqb_eq in Em; subst meth.
      * change (bytes_eqb GET GET) with true. change (bytes_eqb GET HEAD) with false. apply bytes_eqb_refl'.
      * change (bytes_eqb HEAD GET) with false. change (bytes_eqb HEAD HEAD) with true. reflexivity.
    + destruct def as [|d0 def']; [|reflexivity].
      destruct (walk fs [] (root ++ es)) eqn:Ew.
      * apply walk_file in Ew. cbn [app] in Ew. rewrite Ew in Eg. discriminate.
      * apply walk_dir in Ew. cbn [app] in Ew. rewrite Ew in Eg. discriminate.
      * reflexivity.
      * exfalso. apply (walk_not_toolong fs (root ++ es) []); [|exact Ew]. rewrite forallb_app, Er, Hes. reflexivity.
      * exfalso. apply (walk_not_invalid fs (root ++ es) [] Ew).
Qed.

Theorem missing_404 : forall fs root meth name ae es,
  (meth = GET \/ meth = HEAD) -> plain_path name = Some es -> forallb plain_elem root = true ->
  fs_get fs (root ++ es) = None ->
  serve fs root meth name ae [] false = {| r_status := 404; r_body := []; r_clen := []; r_cenc := [] |}.
Proof.
  intros fs root meth name ae es Hm Hp Hr Hg.
  destruct (plain_dir_open fs root name es Hp) as [Hopen Hes].
  unfold serve. replace (negb (bytes_eqb meth GET) && negb (bytes_eqb meth HEAD)) with false by (destruct Hm; subst meth; reflexivity).
  unfold open_static_file, new_static_file. cbn [pick_sibling fst]. rewrite !Hopen.
  destruct (walk fs [] (root ++ es)) eqn:Ew; cbn [fst]; try rewrite Ew; try reflexivity.
  - apply walk_file in Ew. cbn [app] in Ew. congruence.
  - apply walk_dir in Ew. cbn [app] in Ew. congruence.
  - exfalso. apply (walk_not_toolong fs (root ++ es) []); [|exact Ew]. rewrite forallb_app, Hr, Hes. reflexivity.
  - exfalso. apply (walk_not_invalid fs (root ++ es) [] Ew).
Qed.

Theorem plain_file_served : forall fs root meth name ae def es c,
  (meth = GET \/ meth = HEAD) -> plain_path name = Some es -> fs_closed fs = true ->
  fs_get fs (root ++ es) = Some (NFile c) ->
  serve fs root meth name ae def false =
    {| r_status := 200; r_body := if bytes_eqb meth HEAD then [] else c; r_clen := dec_of_Z (blen c); r_cenc := [] |}.
Proof.
  intros fs root meth name ae def es c Hm Hp Hcl Hg.
  destruct (plain_dir_open fs root name es Hp) as [Hopen Hes].
  assert (Hne : root ++ es <> []) by (intros E0; rewrite E0 in Hg; discriminate).
  rewrite fs_get_find in Hg by exact Hne. change (root ++ es) with ([] ++ (root ++ es)) in Hg.
  pose proof (walk_present fs Hcl (root ++ es) [] (NFile c) Hne Hg) as Hw.
  unfold serve. replace (negb (bytes_eqb meth GET) && negb (bytes_eqb meth HEAD)) with false by (destruct Hm; subst meth; reflexivity).
  unfold open_static_file, new_static_file. cbn [pick_sibling fst]. rewrite !Hopen, !Hw. reflexivity.
Qed.

(* ---------- pre-compressed siblings ---------- *)
Lemma split_nosep c b : ~ In c b -> split_byte c b = [b].
Proof.
  induction b as [|x r IH]; intros H; [reflexivity|]. cbn [split_byte]. rewrite IH by (intros Hc; apply H; right; exact Hc).
  destruct (x =? c) eqn:E; [apply Z.eqb_eq in E; exfalso; apply H; left; exact E|reflexivity].
Qed.
Lemma split_app_nosep c b : ~ In c b -> forall a,
  split_byte c (a ++ b) = removelast (split_byte c a) ++ [last (split_byte c a) [] ++ b].
Proof.
  intros Hb. induction a as [|x a IH]; [cbn; apply split_nosep; exact Hb|].
  cbn [app split_byte]. rewrite IH. pose proof (split_byte_nonempty c a) as Hne.
  destruct (split_byte c a) as [|cur rest]; [congruence|].
  destruct rest as [|r1 rs].
  - cbn [removelast last app]. destruct (x =? c); reflexivity.
  - change (removelast (cur :: r1 :: rs)) with (cur :: removelast (r1 :: rs)).
    change (last (cur :: r1 :: rs) []) with (last (r1 :: rs) []). cbn [app].
    destruct (x =? c).
    + change (removelast ([] :: cur :: r1 :: rs)) with ([] :: cur :: removelast (r1 :: rs)).
      change (last ([] :: cur :: r1 :: rs) []) with (last (r1 :: rs) []). reflexivity.
    + change (removelast ((x :: cur) :: r1 :: rs)) with ((x :: cur) :: removelast (r1 :: rs)).
      change (last ((x :: cur) :: r1 :: rs) []) with (last (r1 :: rs) []). reflexivity.
Qed.
Lemma last_app_ne {A} (l l' : list A) d : l' <> [] -> last (l ++ l') d = last l' d.
Proof.
  intros H. induction l as [|x l IH]; [reflexivity|]. cbn [app]. rewrite <- IH.
  destruct (l ++ l') eqn:E; [apply app_eq_nil in E; destruct E; contradiction|reflexivity].
Qed.

(* an element that path.Clean keeps *)
Definition ord_elem (e : elem) : bool := negb (bytes_eqb e []) && negb (bytes_eqb e DOT) && negb (bytes_eqb e DOTDOT).
Lemma plain_ord e : plain_elem e = true -> ord_elem e = true.
Proof. unfold plain_elem, ord_elem. rewrite !andb_true_iff. tauto. Qed.
Lemma clean_from_ord es : forall stk, forallb ord_elem es = true -> clean_from stk es = rev es ++ stk.
Proof.
  induction es as [|e r IH]; intros stk H; [reflexivity|]. simpl in H. apply andb_true_iff in H. destruct H as [He Hr].
  cbn [clean_from fold_left]. change (fold_left clean_step r (clean_step stk e)) with (clean_from (clean_step stk e) r).
  unfold ord_elem in He. rewrite !andb_true_iff, !negb_true_iff in He. destruct He as [[H1 H2] H3].
  unfold clean_step. rewrite H1, H2, H3. cbn [orb]. rewrite IH by exact Hr. cbn [rev]. rewrite <- app_assoc. reflexivity.
Qed.
Lemma clean_abs_ord es : forallb ord_elem es = true -> clean_abs es = es.
Proof. intros H. unfold clean_abs. rewrite clean_from_ord by exact H. rewrite app_nil_r. apply rev_involutive. Qed.

(* "l.ext" is an ordinary element when ext is non-empty and does not end with a dot *)
Definition good_ext (ext : bytes) : bool :=
  negb (bytes_eqb ext []) && negb (last ext 0 =? 46) && negb (existsb (Z.eqb 0) ext) && negb (existsb (Z.eqb SLASH) ext).
Lemma ext_ord l ext : good_ext ext = true -> ord_elem (l ++ 46 :: ext) = true.
Proof.
  unfold good_ext. rewrite !andb_true_iff, !negb_true_iff. intros [[[Hne Hl] _] _].
  assert (Hne' : ext <> []) by (intros E0; subst; discriminate).
  unfold ord_elem. rewrite !andb_true_iff, !negb_true_iff. repeat split.
  - destruct l; reflexivity.
  - destruct (bytes_eqb (l ++ 46 :: ext) DOT) eqn:E; [|reflexivity]. apply bytes_eqb_eq in E.
    apply (f_equal (@length Z)) in E. rewrite app_length in E. destruct ext; [congruence|]. cbn in E. lia.
  - destruct (bytes_eqb (l ++ 46 :: ext) DOTDOT) eqn:E; [|reflexivity]. apply bytes_eqb_eq in E. exfalso.
    assert (Hlast : last (l ++ 46 :: ext) 0 = last ext 0).
    { rewrite last_app_ne by discriminate. destruct ext; [congruence|reflexivity]. }
    rewrite E in Hlast. cbn in Hlast. apply Z.eqb_neq in Hl. congruence.
Qed.
Lemma accept_list_good ae : Forall (fun c => good_ext (snd c) = true /\ ((fst c = GZIP /\ snd c = GZ /\ has_token ae GZIP = true) \/ (fst c = BR /\ snd c = BR /\ has_token ae BR = true))) (accept_list ae).
Proof.
  assert (HG : good_ext GZ = true) by reflexivity. assert (HB : good_ext BR = true) by reflexivity.
  unfold accept_list. destruct (has_token ae GZIP) eqn:G; destruct (has_token ae BR) eqn:B; cbn [app].
  - apply Forall_cons; [split; [exact HG|left; auto]|]. apply Forall_cons; [split; [exact HB|right; auto]|]. constructor.
  - apply Forall_cons; [split; [exact HG|left; auto]|]. constructor.
  - apply Forall_cons; [split; [exact HB|right; auto]|]. constructor.
  - constructor.
Qed.

(* the candidate name "name.ext": its cleaned path ends with an element that has the suffix ".ext" *)
Lemma cand_clean name ext : good_ext ext = true ->
  exists pre l, clean_name (name ++ 46 :: ext) = pre ++ [l ++ 46 :: ext].
Proof.
  intros Hg. unfold clean_name.
  assert (Hns : ~ In SLASH (46 :: ext)).
  { unfold good_ext in Hg. rewrite !andb_true_iff, !negb_true_iff in Hg. destruct Hg as [_ Hs].
    intros [H|H]; [discriminate|]. assert (existsb (Z.eqb SLASH) ext = true); [|congruence].
    apply existsb_exists. exists SLASH. split; [exact H|apply Z.eqb_refl]. }
  rewrite (split_app_nosep SLASH (46 :: ext) Hns name).
  set (S := split_byte SLASH name). unfold clean_abs, clean_from. rewrite fold_left_app. cbn [fold_left].
  pose proof (ext_ord (last S []) ext Hg) as Ho. unfold ord_elem in Ho. rewrite !andb_true_iff, !negb_true_iff in Ho.
  destruct Ho as [[H1 H2] H3]. unfold clean_step at 1. rewrite H1, H2, H3. cbn [orb rev].
  exists (rev (fold_left clean_step (removelast S) [])), (last S []). reflexivity.
Qed.


Lemma pick_sibling_cases fs root name : forall cands,
  let fe := pick_sibling fs root name cands in
  (fe = (name, [])) \/ (exists ext, In (snd fe, ext) cands /\ fst fe = name ++ 46 :: ext).
Proof.
  induction cands as [|[enc ext] r IH]; cbn [pick_sibling]; [left; reflexivity|].
  destruct (stat_ok fs root (name ++ 46 :: ext)).
  - right. exists ext. cbn [fst snd]. split; [left; reflexivity|reflexivity].
  - destruct IH as [IH|[ext' [H1 H2]]]; [left; exact IH|right; exists ext'; split; [right; exact H1|exact H2]].
Qed.

Lemma is_suffix_app l s : is_suffix s (l ++ s) = true.
Proof. unfold is_suffix. rewrite rev_app_distr. apply is_prefix_spec. exists (rev l). reflexivity. Qed.

(* a file opened through a candidate name "nm.ext" is stored under the root in an element ending with ".ext" *)
Lemma nsf_enc fs root nm encs c enc :
  new_static_file fs root nm encs = (RFile c, enc) -> enc <> [] ->
  Forall (fun ce => good_ext (snd ce) = true) encs ->
  exists ext pre l, In (enc, ext) encs /\ fs_get fs (root ++ pre ++ [l ++ 46 :: ext]) = Some (NFile c).
Proof.
  intros H Hne Hg. unfold new_static_file in H.
  pose proof (pick_sibling_cases fs root nm encs) as Hc. cbv zeta in Hc.
  destruct (pick_sibling fs root nm encs) as [fname e]. inversion H; subst e. clear H.
  destruct Hc as [Hc|[ext [Hin Hf]]]; [inversion Hc; subst; congruence|]. cbn [fst snd] in *. subst fname.
  rewrite Forall_forall in Hg. pose proof (Hg _ Hin) as Hge. cbn [snd] in Hge.
  destruct (cand_clean nm ext Hge) as [pre [l Hcl]].
  rename H1 into Ho. unfold dir_open, opened_path in Ho. rewrite Hcl in Ho.
  destruct (has_nul (pre ++ [l ++ 46 :: ext])); [discriminate|].
  apply walk_file in Ho. cbn [app] in Ho. exists ext, pre, l. split; [exact Hin|exact Ho].
Qed.

Lemma served_suffix_intro fs root pre l sufx c (is_get : bool) (body clen : bytes) :
  fs_get fs (root ++ pre ++ [l ++ sufx]) = Some (NFile c) ->
  clen = dec_of_Z (blen c) -> (if is_get then body = c else body = []) ->
  served_suffix fs root is_get body clen sufx = true.
Proof.
  intros Hget Hcl Hb.
  assert (Hne : root ++ pre ++ [l ++ sufx] <> []).
  { intros E0. apply app_eq_nil in E0. destruct E0 as [_ E0]. apply app_eq_nil in E0. destruct E0; discriminate. }
  rewrite fs_get_find in Hget by exact Hne. apply fs_find_in in Hget.
  unfold served_suffix. apply existsb_exists. exists (root ++ pre ++ [l ++ sufx], NFile c). split; [exact Hget|].
  rewrite path_prefix_app. rewrite app_assoc, last_last. rewrite is_suffix_app. subst clen. rewrite bytes_eqb_refl'.
  cbn [andb]. destruct is_get; subst body; apply bytes_eqb_refl'.
Qed.

Theorem prop_enc_of_model : forall x,
  let r := serve_input x in prop_enc x (r_status r) (r_body r) (r_clen r) (r_cenc r) = true.
Proof.
  intros x. unfold serve_input, prop_enc. destruct x as [meth name ae root def compress fs route].
  cbn [i_fs i_root i_meth i_name i_ae i_def i_compress].
  unfold serve.
  destruct (negb (bytes_eqb meth GET) && negb (bytes_eqb meth HEAD)) eqn:Em; [reflexivity|].
  set (encs := if compress then accept_list ae else []).
  assert (Hencs : Forall (fun c => good_ext (snd c) = true /\ ((fst c = GZIP /\ snd c = GZ /\ has_token ae GZIP = true) \/
                        (fst c = BR /\ snd c = BR /\ has_token ae BR = true))) encs /\ (encs <> [] -> compress = true)).
  { subst encs. destruct compress; [split; [apply accept_list_good|reflexivity]|split; [constructor|congruence]]. }
  destruct Hencs as [Hencs Hcomp].
  assert (Hgood : Forall (fun ce => good_ext (snd ce) = true) encs).
  { eapply Forall_impl; [|exact Hencs]. intros a [H _]. exact H. }
  assert (Hopen : exists nm, open_static_file fs root name def encs = new_static_file fs root nm encs).
  { unfold open_static_file. destruct (fst (new_static_file fs root name encs)); try (exists name; reflexivity);
      destruct def; try (exists name; reflexivity); eexists; reflexivity. }
  destruct Hopen as [nm Hopen]. rewrite Hopen.
  destruct (new_static_file fs root nm encs) as [res enc] eqn:EN.
  destruct res; cbn [r_status r_body r_clen r_cenc]; try reflexivity.
  destruct (bytes_eqb enc []) eqn:Ee; [reflexivity|].
  assert (Hne : enc <> []) by (intros E0; subst; discriminate).
  destruct (nsf_enc fs root nm encs c enc EN Hne Hgood) as [ext [pre [l [Hin Hget]]]].
  rewrite Forall_forall in Hencs. destruct (Hencs _ Hin) as [_ Hk]. cbn [fst snd] in Hk.
  assert (Hc : compress = true) by (apply Hcomp; intros E0; rewrite E0 in Hin; exact Hin).
  rewrite Hc. cbn [Z.eqb Pos.eqb andb].
  assert (Hm : meth = GET \/ meth = HEAD).
  { apply andb_false_iff in Em. destruct Em as [Em|Em]; apply negb_false_iff in Em; apply bytes_eqb_eq in Em; auto. }
  assert (Hbody : if bytes_eqb meth GET then (if bytes_eqb meth HEAD then [] else c) = c
                  else (if bytes_eqb meth HEAD then [] else c) = []).
  { destruct Hm; subst meth; reflexivity. }
  destruct Hk as [[He [Hx Ht]]|[He [Hx Ht]]]; subst enc ext; rewrite Ht.
  - change (bytes_eqb GZIP GZIP) with true. cbn [andb].
    apply orb_true_iff. left. apply (served_suffix_intro fs root pre l DOTGZ c _ _ _ Hget eq_refl Hbody).
  - change (bytes_eqb BR GZIP) with false. change (bytes_eqb BR BR) with true. cbn [andb orb].
    apply (served_suffix_intro fs root pre l DOTBR c _ _ _ Hget eq_refl Hbody).
Qed.


(* ---------- plain paths with pre-compressed lookup ---------- *)
Lemma forallb_removelast {A} (P : A -> bool) l : forallb P l = true -> forallb P (removelast l) = true.
Proof.
  induction l as [|x l IH]; [reflexivity|]. intros H. simpl in H. apply andb_true_iff in H. destruct H as [Hx Hl].
  destruct l as [|y l]; [reflexivity|]. change (removelast (x :: y :: l)) with (x :: removelast (y :: l)).
  cbn [forallb]. rewrite Hx. apply IH. exact Hl.
Qed.
Lemma forallb_last {A} (P : A -> bool) l d : forallb P l = true -> P d = true -> P (last l d) = true.
Proof.
  induction l as [|x l IH]; intros H Hd; [exact Hd|]. simpl in H. apply andb_true_iff in H. destruct H as [Hx Hl].
  destruct l as [|y l]; [exact Hx|]. change (last (x :: y :: l) d) with (last (y :: l) d). apply IH; assumption.
Qed.
Definition nonul (e : elem) : bool := negb (existsb (Z.eqb 0) e).
Lemma has_nul_forallb es : has_nul es = negb (forallb nonul es).
Proof.
  unfold has_nul, nonul. induction es as [|e r IH]; [reflexivity|]. cbn [existsb forallb]. rewrite IH.
  destruct (existsb (Z.eqb 0) e); reflexivity.
Qed.
Lemma plain_nonul e : plain_elem e = true -> nonul e = true.
Proof. unfold plain_elem, nonul. rewrite !andb_true_iff. tauto. Qed.
Lemma forallb_impl {A} (P Q : A -> bool) l : (forall x, P x = true -> Q x = true) -> forallb P l = true -> forallb Q l = true.
Proof. intros H. induction l as [|x l IH]; [reflexivity|]. simpl. rewrite !andb_true_iff. intros [H1 H2]. split; auto. Qed.

Lemma sib_facts es ext : forallb plain_elem es = true -> good_ext ext = true ->
  forallb ord_elem (sib es ext) = true /\ forallb nonul (sib es ext) = true.
Proof.
  intros Hes Hg. unfold sib. rewrite !forallb_app. cbn [forallb]. rewrite !andb_true_r. split; apply andb_true_iff; split.
  - apply forallb_removelast. apply (forallb_impl plain_elem); [apply plain_ord|exact Hes].
  - apply ext_ord. exact Hg.
  - apply forallb_removelast. apply (forallb_impl plain_elem); [apply plain_nonul|exact Hes].
  - unfold nonul. rewrite existsb_app. cbn [existsb]. change (46 =? 0) with false. cbn [orb].
    assert (H1 : nonul (last es []) = true) by (apply forallb_last; [apply (forallb_impl plain_elem); [apply plain_nonul|exact Hes]|reflexivity]).
    unfold nonul in H1. apply negb_true_iff in H1. rewrite H1.
    unfold good_ext in Hg. rewrite !andb_true_iff in Hg. destruct Hg as [[_ Hn] _]. apply negb_true_iff in Hn. rewrite Hn. reflexivity.
Qed.

Lemma clean_from_app stk a b : clean_from stk (a ++ b) = clean_from (clean_from stk a) b.
Proof. unfold clean_from. apply fold_left_app. Qed.

(* the candidate "name.ext" of a plain name: both the (unconfined) Stat path and the opened path are root ++ sib *)
Lemma plain_cand fs root name es ext : plain_path name = Some es -> forallb plain_elem root = true -> good_ext ext = true ->
  stat_path root (name ++ 46 :: ext) = root ++ sib es ext /\
  dir_open fs root (name ++ 46 :: ext) = walk fs [] (root ++ sib es ext) /\
  has_nul (root ++ sib es ext) = false.
Proof.
  intros Hp Hr Hg. unfold plain_path in Hp.
  destruct (split_byte SLASH name) as [|[|x xs] rest] eqn:E; try discriminate.
  destruct (forallb plain_elem rest) eqn:Ep; [|discriminate]. inversion Hp; subst es. clear Hp.
  destruct (sib_facts rest ext Ep Hg) as [Hord Hnn].
  assert (Hns : ~ In SLASH (46 :: ext)).
  { unfold good_ext in Hg. rewrite !andb_true_iff, !negb_true_iff in Hg. destruct Hg as [_ Hs].
    intros [H|H]; [discriminate|]. assert (existsb (Z.eqb SLASH) ext = true); [|congruence].
    apply existsb_exists. exists SLASH. split; [exact H|apply Z.eqb_refl]. }
  assert (Hsplit : exists pre, split_byte SLASH (name ++ 46 :: ext) = pre ++ sib rest ext /\ (pre = [] \/ pre = [[]])).
  { rewrite (split_app_nosep SLASH (46 :: ext) Hns name), E. destruct rest as [|e r].
    - exists []. split; [reflexivity|left; reflexivity].
    - exists [[]]. split; [|right; reflexivity]. unfold sib.
      change (removelast ([] :: e :: r)) with ([] :: removelast (e :: r)).
      change (last ([] :: e :: r) []) with (last (e :: r) []). reflexivity. }
  destruct Hsplit as [pre [Hsplit Hpre]].
  assert (Hclean : forall stk, clean_from stk (pre ++ sib rest ext) = rev (sib rest ext) ++ stk).
  { intros stk. rewrite clean_from_app. destruct Hpre; subst pre; cbn [clean_from fold_left];
      [|change (clean_step stk []) with stk]; apply clean_from_ord; exact Hord. }
  assert (Hrn : has_nul (root ++ sib rest ext) = false).
  { rewrite has_nul_forallb, forallb_app, Hnn, (forallb_impl plain_elem nonul root plain_nonul Hr). reflexivity. }
  assert (Hsn : has_nul (sib rest ext) = false) by (rewrite has_nul_forallb, Hnn; reflexivity).
  split; [|split; [|exact Hrn]].
  - unfold stat_path, clean_abs. rewrite Hsplit, clean_from_app.
    rewrite (clean_from_ord root []) by (apply (forallb_impl plain_elem); [apply plain_ord|exact Hr]).
    rewrite Hclean, !app_nil_r, rev_app_distr, !rev_involutive. reflexivity.
  - unfold dir_open, opened_path, clean_name, clean_abs. rewrite Hsplit, Hclean, app_nil_r, rev_involutive, Hsn. reflexivity.
Qed.

Lemma stat_ok_spec fs root name es ext : fs_closed fs = true ->
  plain_path name = Some es -> forallb plain_elem root = true -> good_ext ext = true ->
  stat_ok fs root (name ++ 46 :: ext) = match fs_get fs (root ++ sib es ext) with Some _ => true | None => false end.
Proof.
  intros Hcl Hp Hr Hg. destruct (plain_cand fs root name es ext Hp Hr Hg) as [Hsp [_ Hn]].
  unfold stat_ok. rewrite Hsp, Hn.
  assert (Hne : root ++ sib es ext <> []).
  { unfold sib. intros E0. apply app_eq_nil in E0. destruct E0 as [_ E0]. apply app_eq_nil in E0. destruct E0; discriminate. }
  destruct (fs_get fs (root ++ sib es ext)) as [n|] eqn:Eg.
  - rewrite fs_get_find in Eg by exact Hne. change (root ++ sib es ext) with ([] ++ (root ++ sib es ext)) in Eg.
    rewrite (walk_present fs Hcl _ [] n Hne Eg). destruct n; reflexivity.
  - destruct (walk fs [] (root ++ sib es ext)) eqn:Ew; try reflexivity.
    + apply walk_file in Ew. cbn [app] in Ew. congruence.
    + apply walk_dir in Ew. cbn [app] in Ew. congruence.
Qed.

Definition pick_target (fs : fsys) (root es : list elem) (cands : list (bytes * bytes)) : list elem * bytes :=
  match spec_pick fs root es cands with Some te => te | None => (es, []) end.
Lemma pick_sibling_spec fs root name es : fs_closed fs = true ->
  plain_path name = Some es -> forallb plain_elem root = true -> forall cands,
  Forall (fun ce => good_ext (snd ce) = true) cands ->
  snd (pick_sibling fs root name cands) = snd (pick_target fs root es cands) /\
  dir_open fs root (fst (pick_sibling fs root name cands)) = walk fs [] (root ++ fst (pick_target fs root es cands)) /\
  (fst (pick_target fs root es cands) = es \/ fs_get fs (root ++ fst (pick_target fs root es cands)) <> None).
Proof.
  intros Hcl Hp Hr. induction cands as [|[enc ext] r IH]; intros Hg.
  - unfold pick_target. cbn [pick_sibling spec_pick fst snd]. split; [reflexivity|]. split; [|left; reflexivity].
    apply (plain_dir_open fs root name es Hp).
  - inversion Hg as [|? ? Hge Hgr]; subst. cbn [snd] in Hge. unfold pick_target. cbn [pick_sibling spec_pick].
    rewrite (stat_ok_spec fs root name es ext Hcl Hp Hr Hge).
    destruct (fs_get fs (root ++ sib es ext)) eqn:Eg.
    + cbn [fst snd]. split; [reflexivity|]. split; [|right; rewrite Eg; discriminate].
      apply (plain_cand fs root name es ext Hp Hr Hge).
    + apply IH. exact Hgr.
Qed.

Theorem prop_sibling_of_model : forall x,
  let r := serve_input x in prop_sibling x (r_status r) (r_body r) (r_clen r) (r_cenc r) = true.
Proof.
  intros x. unfold serve_input, prop_sibling. destruct x as [meth name ae root def compress fs route].
  cbn [i_fs i_root i_meth i_name i_ae i_def i_compress].
  destruct (bytes_eqb meth GET || bytes_eqb meth HEAD) eqn:Em; [|reflexivity]. cbn [negb orb].
  destruct compress; [|reflexivity]. cbn [negb orb].
  destruct (fs_closed fs) eqn:Ecl; [|reflexivity]. cbn [negb orb].
  destruct (forallb plain_elem root) eqn:Er; [|reflexivity]. cbn [negb].
  destruct (plain_path name) as [es|] eqn:Epl; [|reflexivity].
  assert (Hgood : Forall (fun ce => good_ext (snd ce) = true) (accept_list ae)).
  { eapply Forall_impl; [|apply accept_list_good]. intros a [H _]. exact H. }
  destruct (pick_sibling_spec fs root name es Ecl Epl Er (accept_list ae) Hgood) as [Henc [Hopen Htgt]].
  fold (pick_target fs root es (accept_list ae)).
  destruct (pick_target fs root es (accept_list ae)) as [target enc]. cbn [fst snd] in *.
  unfold serve.
  replace (negb (bytes_eqb meth GET) && negb (bytes_eqb meth HEAD)) with false
    by (symmetry; apply orb_true_iff in Em; destruct Em as [Em|Em]; rewrite Em; [reflexivity|apply andb_false_r]).
  unfold open_static_file, new_static_file.
  destruct (pick_sibling fs root name (accept_list ae)) as [fname e]. cbn [fst snd] in *. subst e. rewrite Hopen.
  destruct (fs_get fs (root ++ target)) as [[c|]|] eqn:Eg; [|reflexivity|].
  - assert (Hne : root ++ target <> []) by (intros E0; rewrite E0 in Eg; discriminate).
    rewrite fs_get_find in Eg by exact Hne. change (root ++ target) with ([] ++ (root ++ target)) in Eg.
    rewrite (walk_present fs Ecl (root ++ target) [] (NFile c) Hne Eg).
    cbn [r_status r_body r_clen r_cenc Z.eqb Pos.eqb andb]. rewrite !bytes_eqb_refl'. cbn [andb].
    apply orb_true_iff in Em. destruct Em as [Em|Em]; apply bytes_eqb_eq in Em; subst meth.
    + change (bytes_eqb GET GET) with true. change (bytes_eqb GET HEAD) with false. apply bytes_eqb_refl'.
    + change (bytes_eqb HEAD GET) with false. change (bytes_eqb HEAD HEAD) with true. reflexivity.
  - destruct Htgt as [Htgt|Htgt]; [subst target|congruence].
    destruct (plain_dir_open fs root name es Epl) as [_ Hes].
    destruct def as [|d0 def']; [|reflexivity].
    destruct (walk fs [] (root ++ es)) eqn:Ew.
    + apply walk_file in Ew. cbn [app] in Ew. rewrite Ew in Eg. discriminate.
    + apply walk_dir in Ew. cbn [app] in Ew. rewrite Ew in Eg. discriminate.
    + reflexivity.
    + exfalso. apply (walk_not_toolong fs (root ++ es) []); [|exact Ew]. rewrite forallb_app, Er, Hes. reflexivity.
    + exfalso. apply (walk_not_invalid fs (root ++ es) [] Ew).
Qed.

(* ---------- central theorem ---------- *)
Definition wf_C50 (i : val) : bool := match dec_input i with Some _ => true | None => false end.
Theorem prop_C50_of_model : forall i, wf_C50 i = true -> kf_C50 i = 0 -> prop_C50 i (run_C50 i) = true.
Proof.
  intros i Hwf _. unfold wf_C50 in Hwf. unfold prop_C50, run_C50. destruct (dec_input i) as [x|]; [|discriminate].
  unfold enc_resp, handled, loaded_input. destruct (i_route x =? 0) eqn:Ert; cbn [orb].
  - destruct (counters_input x) as [ne fb]. cbv iota beta.
    destruct ((i_route x =? 3) && rule_file_ok (i_fs x) (i_root x) (i_def x) (i_cmd x)); cbn [vbool VT VF]; cbv iota beta;
      rewrite prop_resp_of_model, prop_enc_of_model, prop_sibling_of_model; reflexivity.
  - destruct ((i_route x =? 3) && rule_file_ok (i_fs x) (i_root x) (i_def x) (i_cmd x)) eqn:El.
    + destruct (counters_input x) as [ne fb]. cbv iota beta. apply andb_true_iff in El. destruct El as [E3 _]. rewrite E3.
      cbn [vbool VT]. change (1 =? 0) with false. cbn [negb andb].
      rewrite prop_resp_of_model, prop_enc_of_model, prop_sibling_of_model. reflexivity.
    + cbv iota beta. change (0 =? 0) with true. cbn [negb]. rewrite andb_false_r. reflexivity.
Qed.

Lemma C50_example_lemma :
  let fs := [([[119]], NDir); ([[119]; [97]], NFile [1; 2; 3]); ([[115]], NFile [9])] in
  r_status (serve fs [[119]] GET [47; 46; 46; 47; 115] [] [] false) = 404 /\
  serve fs [[119]] GET [47; 120; 47; 46; 46; 47; 97] [] [] false
    = {| r_status := 200; r_body := [1; 2; 3]; r_clen := [51]; r_cenc := [] |}.
Proof. vm_compute. split; reflexivity. Qed.

(* the corpus case corpus/C50/basics.case "sibling-gz" (GET /a.txt, Accept-Encoding "gzip, br", lookup on) *)
Definition corpus_sibling_gz : val :=
  (VL [(VB [71;69;84]); (VB [47;97;46;116;120;116]); (VB [103;122;105;112;44;32;98;114]); (VL [(VB [116;109;112]); (VB [119;45;109;111;100;50]); (VB [99;53;48]); (VB [116;99;111;114;112;117;115]); (VB [119;119;119])]); (VB []); (VZ 1); (VL [(VL [(VL [(VB [116;109;112])]); (VZ 0)]); (VL [(VL [(VB [116;109;112]); (VB [119;45;109;111;100;50])]); (VZ 0)]); (VL [(VL [(VB [116;109;112]); (VB [119;45;109;111;100;50]); (VB [99;53;48])]); (VZ 0)]); (VL [(VL [(VB [116;109;112]); (VB [119;45;109;111;100;50]); (VB [99;53;48]); (VB [116;99;111;114;112;117;115])]); (VZ 0)]); (VL [(VL [(VB [116;109;112]); (VB [119;45;109;111;100;50]); (VB [99;53;48]); (VB [116;99;111;114;112;117;115]); (VB [119;119;119])]); (VZ 0)]); (VL [(VL [(VB [116;109;112]); (VB [119;45;109;111;100;50]); (VB [99;53;48]); (VB [116;99;111;114;112;117;115]); (VB [119;119;119]); (VB [97;46;116;120;116])]); (VB [104;101;108;108;111])]); (VL [(VL [(VB [116;109;112]); (VB [119;45;109;111;100;50]); (VB [99;53;48]); (VB [116;99;111;114;112;117;115]); (VB [119;119;119]); (VB [97;46;116;120;116;46;103;122])]); (VB [71;90;66;89;84;69;83])]); (VL [(VL [(VB [116;109;112]); (VB [119;45;109;111;100;50]); (VB [99;53;48]); (VB [116;99;111;114;112;117;115]); (VB [119;119;119]); (VB [115;117;98])]); (VZ 0)]); (VL [(VL [(VB [116;109;112]); (VB [119;45;109;111;100;50]); (VB [99;53;48]); (VB [116;99;111;114;112;117;115]); (VB [119;119;119]); (VB [115;117;98]); (VB [98;46;116;120;116;46;98;114])]); (VB [66;82;66;89;84;69;83])]); (VL [(VL [(VB [116;109;112]); (VB [119;45;109;111;100;50]); (VB [99;53;48]); (VB [116;99;111;114;112;117;115]); (VB [119;119;119]); (VB [115;117;98]); (VB [98;46;116;120;116])]); (VB [98;101;101])]); (VL [(VL [(VB [116;109;112]); (VB [119;45;109;111;100;50]); (VB [99;53;48]); (VB [116;99;111;114;112;117;115]); (VB [115;101;99;114;101;116;46;116;120;116])]); (VB [83;69;78;84;73;78;69;76])]); (VL [(VL [(VB [116;109;112]); (VB [119;45;109;111;100;50]); (VB [99;53;48]); (VB [116;99;111;114;112;117;115]); (VB [115;101;99;114;101;116;46;116;120;116;46;103;122])]); (VB [83;69;78;84;73;78;69;76;71;90])])]); (VZ 0); (VB [])]).
Lemma C50_wf_example_lemma :
  wf_C50 corpus_sibling_gz = true /\
  run_C50 corpus_sibling_gz = VL [VZ 200; VB [71;90;66;89;84;69;83]; VB [55]; VB GZIP; VL [VZ 0; VZ 0; VZ 0; VZ 0]].
Proof. vm_compute. split; reflexivity. Qed.
