(* C50 proofs: lexical confinement of http.Dir.Open and what serve returns. *)
From Coq Require Import List ZArith Bool Lia.
From Bfe Require Import lib.Val lib.ValProofs lib.Bytes model.StaticFile run.RunC50.
Import ListNotations.
Open Scope Z_scope.

(* an element that survives path.Clean: not empty, not ".", not ".." *)
Definition good_elem (e : elem) : Prop := e <> [] /\ e <> DOT /\ e <> DOTDOT.

Lemma clean_step_good stk e : Forall good_elem stk -> Forall good_elem (clean_step stk e).
Proof.
  intros H. unfold clean_step.
  destruct (bytes_eqb e []) eqn:E1; simpl; [exact H|].
  destruct (bytes_eqb e DOT) eqn:E2; simpl; [exact H|].
  destruct (bytes_eqb e DOTDOT) eqn:E3.
  - destruct stk; simpl; [constructor|]. inversion H; assumption.
  - constructor; [|exact H]. repeat split; intro; subst e.
    + rewrite (proj2 (bytes_eqb_eq _ _) eq_refl) in E1. discriminate.
    + rewrite (proj2 (bytes_eqb_eq _ _) eq_refl) in E2. discriminate.
    + rewrite (proj2 (bytes_eqb_eq _ _) eq_refl) in E3. discriminate.
Qed.
Lemma clean_from_good es : forall stk, Forall good_elem stk -> Forall good_elem (clean_from stk es).
Proof.
  induction es as [|e es IH]; intros stk H; simpl; [exact H|]. apply IH. apply clean_step_good. exact H.
Qed.
Lemma clean_abs_good es : Forall good_elem (clean_abs es).
Proof.
  unfold clean_abs. apply Forall_rev. apply clean_from_good. constructor.
Qed.

(* every '/'-separated piece produced by split_byte is free of '/' *)
Lemma split_byte_no_sep c l : Forall (fun e => ~ In c e) (split_byte c l).
Proof.
  induction l as [|x r IH]; simpl; [constructor; [intros []|constructor]|].
  destruct (split_byte c r) as [|cur rest] eqn:E; [constructor; [intros []|constructor]|].
  inversion IH as [|? ? Hc Hr]; subst.
  destruct (x =? c) eqn:Ex.
  - constructor; [intros []|]. constructor; assumption.
  - constructor; [|assumption]. intros [H|H]; [subst; rewrite Z.eqb_refl in Ex; discriminate|contradiction].
Qed.
Lemma clean_step_sub P stk e : Forall P stk -> P e -> Forall P (clean_step stk e).
Proof.
  intros H He. unfold clean_step.
  destruct (bytes_eqb e [] || bytes_eqb e DOT); [exact H|].
  destruct (bytes_eqb e DOTDOT); [destruct stk; simpl; [constructor|inversion H; assumption]|].
  constructor; assumption.
Qed.
Lemma clean_from_sub P es : forall stk, Forall P stk -> Forall P es -> Forall P (clean_from stk es).
Proof.
  induction es as [|e es IH]; intros stk H He; simpl; [exact H|].
  inversion He; subst. apply IH; [apply clean_step_sub; assumption|assumption].
Qed.

Theorem clean_rooted_no_dotdot_lemma : forall name,
  Forall (fun e => good_elem e /\ ~ In SLASH e) (clean_name name).
Proof.
  intros name. apply Forall_forall. intros e He. split.
  - pose proof (clean_abs_good (split_byte SLASH name)) as H. rewrite Forall_forall in H. apply H. exact He.
  - assert (H : Forall (fun e => ~ In SLASH e) (clean_name name)).
    { unfold clean_name, clean_abs. apply Forall_rev. apply clean_from_sub; [constructor|apply split_byte_no_sep]. }
    rewrite Forall_forall in H. apply H. exact He.
Qed.

(* ---- the path walk only ever returns what is stored at exactly the walked path *)
Lemma walk_file fs rest : forall cur c, walk fs cur rest = RFile c -> fs_get fs (cur ++ rest) = Some (NFile c).
Proof.
  induction rest as [|e r IH]; intros cur c H; simpl in H.
  - rewrite app_nil_r. destruct (fs_get fs cur) as [[c'|]|]; try discriminate. congruence.
  - destruct (fs_get fs cur) as [[c'|]|]; try discriminate.
    destruct (NAME_MAX <? blen e); [discriminate|].
    apply IH in H. rewrite <- app_assoc in H. exact H.
Qed.

Lemma path_eqb_eq a : forall b, path_eqb a b = true <-> a = b.
Proof.
  induction a as [|x a IH]; intros [|y b]; simpl; split; intro H; try reflexivity; try discriminate.
  - apply andb_true_iff in H. destruct H as [H1 H2]. apply bytes_eqb_eq in H1. apply IH in H2. congruence.
  - inversion H; subst. apply andb_true_iff. split; [apply bytes_eqb_eq; reflexivity|apply IH; reflexivity].
Qed.
Lemma fs_find_in fs p n : fs_find fs p = Some n -> In (p, n) fs.
Proof.
  induction fs as [|[q m] r IH]; simpl; [discriminate|].
  destruct (path_eqb q p) eqn:E.
  - intros H. inversion H; subst. apply path_eqb_eq in E. subst. left. reflexivity.
  - intros H. right. apply IH. exact H.
Qed.

(* C50_under_root *)
Theorem dir_open_under_root : forall fs root name c,
  dir_open fs root name = RFile c ->
  exists rel, Forall (fun e => good_elem e /\ ~ In SLASH e) rel /\ has_nul rel = false /\
              opened_path root name = Some (root ++ rel) /\
              fs_get fs (root ++ rel) = Some (NFile c).
Proof.
  intros fs root name c H. unfold dir_open in H. unfold opened_path in *.
  destruct (has_nul (clean_name name)) eqn:En; [discriminate|].
  exists (clean_name name). split; [apply clean_rooted_no_dotdot_lemma|]. split; [exact En|].
  split; [reflexivity|]. apply walk_file in H. exact H.
Qed.

(* ---- what serve returns *)
Lemma new_static_file_open fs root name encs :
  exists fname, fst (new_static_file fs root name encs) = dir_open fs root fname.
Proof.
  unfold new_static_file. destruct (pick_sibling fs root name encs) as [fname enc]. exists fname. reflexivity.
Qed.
Lemma open_static_file_open fs root name def encs :
  exists fname, fst (open_static_file fs root name def encs) = dir_open fs root fname.
Proof.
  unfold open_static_file.
  destruct (new_static_file_open fs root name encs) as [f1 H1].
  destruct (new_static_file_open fs root def encs) as [f2 H2].
  destruct (fst (new_static_file fs root name encs)) eqn:E; try (exists f1; rewrite E; exact H1);
    destruct def; try (exists f1; rewrite E; exact H1); exists f2; exact H2.
Qed.

Theorem serve_200_under_root : forall fs root meth name ae def compress,
  r_status (serve fs root meth name ae def compress) = 200 ->
  exists rel c, Forall (fun e => good_elem e /\ ~ In SLASH e) rel /\ has_nul rel = false /\
    fs_get fs (root ++ rel) = Some (NFile c) /\
    r_clen (serve fs root meth name ae def compress) = dec_of_Z (blen c) /\
    r_body (serve fs root meth name ae def compress) = (if bytes_eqb meth HEAD then [] else c) /\
    (meth = GET \/ meth = HEAD).
Proof.
  intros fs root meth name ae def compress. unfold serve.
  destruct (negb (bytes_eqb meth GET) && negb (bytes_eqb meth HEAD)) eqn:Em; [simpl; discriminate|].
  set (encs := if compress then accept_list ae else []).
  destruct (open_static_file_open fs root name def encs) as [fname Hf].
  destruct (open_static_file fs root name def encs) as [r enc]. simpl in Hf.
  destruct r; simpl; try discriminate. intros _.
  symmetry in Hf. apply dir_open_under_root in Hf. destruct Hf as [rel [Hg [Hn [_ Hfs]]]].
  exists rel, c. repeat split; try assumption.
  apply andb_false_iff in Em. destruct Em as [Em|Em]; apply negb_false_iff in Em; apply bytes_eqb_eq in Em; auto.
Qed.

Theorem serve_methods : forall fs root meth name ae def compress,
  meth <> GET -> meth <> HEAD ->
  serve fs root meth name ae def compress = {| r_status := 405; r_body := []; r_clen := []; r_cenc := [] |}.
Proof.
  intros fs root meth name ae def compress H1 H2. unfold serve.
  destruct (bytes_eqb meth GET) eqn:E1; [apply bytes_eqb_eq in E1; contradiction|].
  destruct (bytes_eqb meth HEAD) eqn:E2; [apply bytes_eqb_eq in E2; contradiction|]. reflexivity.
Qed.

Theorem serve_status_range : forall fs root meth name ae def compress,
  let r := serve fs root meth name ae def compress in
  (r_status r = 200 \/ r_status r = 404 \/ r_status r = 405 \/ r_status r = 500) /\
  (r_status r <> 200 -> r_body r = [] /\ r_clen r = [] /\ r_cenc r = []).
Proof.
  intros fs root meth name ae def compress. unfold serve.
  destruct (negb (bytes_eqb meth GET) && negb (bytes_eqb meth HEAD)); simpl; [split; [auto|intros _; auto]|].
  destruct (open_static_file fs root name def (if compress then accept_list ae else [])) as [r enc].
  destruct r; simpl; split; auto; intros H; try contradiction; auto.
Qed.

(* ---------- the executable property predicate holds of the model on every decoded input ---------- *)
Lemma path_prefix_app root : forall rel, path_prefix root (root ++ rel) = true.
Proof.
  induction root as [|e r IH]; intros rel; [reflexivity|]. cbn [app path_prefix].
  rewrite (proj2 (bytes_eqb_eq e e) eq_refl). apply IH.
Qed.
Lemma bytes_eqb_refl' l : bytes_eqb l l = true.
Proof. apply bytes_eqb_eq. reflexivity. Qed.
Lemma fs_get_find fs p : p <> [] -> fs_get fs p = fs_find fs p.
Proof. destruct p; [congruence|reflexivity]. Qed.

Lemma walk_dir fs rest : forall cur, walk fs cur rest = RDir -> fs_get fs (cur ++ rest) = Some NDir.
Proof.
  induction rest as [|e r IH]; intros cur H; simpl in H.
  - rewrite app_nil_r. destruct (fs_get fs cur) as [[c'|]|]; try discriminate. reflexivity.
  - destruct (fs_get fs cur) as [[c'|]|]; try discriminate.
    destruct (NAME_MAX <? blen e); [discriminate|].
    apply IH in H. rewrite <- app_assoc in H. exact H.
Qed.
Lemma walk_not_invalid fs rest : forall cur, walk fs cur rest <> RInvalid.
Proof.
  induction rest as [|e r IH]; intros cur; simpl.
  - destruct (fs_get fs cur) as [[c'|]|]; discriminate.
  - destruct (fs_get fs cur) as [[c'|]|]; try discriminate.
    destruct (NAME_MAX <? blen e); [discriminate|apply IH].
Qed.
Lemma walk_not_toolong fs rest : forall cur, forallb plain_elem rest = true -> walk fs cur rest <> RTooLong.
Proof.
  induction rest as [|e r IH]; intros cur H; simpl.
  - destruct (fs_get fs cur) as [[c'|]|]; discriminate.
  - simpl in H. apply andb_true_iff in H. destruct H as [He Hr].
    destruct (fs_get fs cur) as [[c'|]|]; try discriminate.
    unfold plain_elem in He. rewrite !andb_true_iff in He. destruct He as [_ Hl].
    destruct (NAME_MAX <? blen e) eqn:E; [lia|apply IH; exact Hr].
Qed.

Lemma prefixes_in (a : list elem) e r : In a (prefixes (a ++ e :: r)).
Proof.
  induction a as [|x a IH]; cbn [app prefixes]; [left; reflexivity|].
  right. apply in_map. exact IH.
Qed.
Lemma walk_present fs : fs_closed fs = true -> forall rest cur n,
  cur ++ rest <> [] -> fs_find fs (cur ++ rest) = Some n ->
  walk fs cur rest = match n with NFile c => RFile c | NDir => RDir end.
Proof.
  intros Hcl. induction rest as [|e r IH]; intros cur n Hne Hf.
  - rewrite app_nil_r in *. simpl. rewrite fs_get_find by exact Hne. rewrite Hf. destruct n; reflexivity.
  - pose proof (fs_find_in _ _ _ Hf) as Hin.
    unfold fs_closed in Hcl. rewrite forallb_forall in Hcl. specialize (Hcl _ Hin). cbn [fst] in Hcl.
    apply andb_true_iff in Hcl. destruct Hcl as [Hpre Hplain].
    rewrite forallb_forall in Hpre. specialize (Hpre cur (prefixes_in cur e r)).
    cbn [walk]. destruct (fs_get fs cur) as [[c'|]|]; try discriminate.
    rewrite forallb_forall in Hplain. assert (He : plain_elem e = true) by (apply Hplain; apply in_or_app; right; left; reflexivity).
    unfold plain_elem in He. rewrite !andb_true_iff in He. destruct He as [_ Hl].
    destruct (NAME_MAX <? blen e) eqn:E; [lia|].
    apply IH; rewrite <- app_assoc; cbn [app]; [exact Hne|exact Hf].
Qed.

Lemma clean_from_plain es : forall stk, forallb plain_elem es = true -> clean_from stk es = rev es ++ stk.
Proof.
  induction es as [|e r IH]; intros stk H; [reflexivity|]. simpl in H. apply andb_true_iff in H. destruct H as [He Hr].
  cbn [clean_from fold_left]. change (fold_left clean_step r (clean_step stk e)) with (clean_from (clean_step stk e) r).
  unfold plain_elem in He. rewrite !andb_true_iff, !negb_true_iff in He. destruct He as [[[[H1 H2] H3] _] _].
  unfold clean_step. rewrite H1, H2, H3. cbn [orb]. rewrite IH by exact Hr. cbn [rev]. rewrite <- app_assoc. reflexivity.
Qed.
Lemma plain_has_nul es : forallb plain_elem es = true -> has_nul es = false.
Proof.
  induction es as [|e r IH]; intros H; [reflexivity|]. simpl in H. apply andb_true_iff in H. destruct H as [He Hr].
  unfold has_nul in *. cbn [existsb]. rewrite (IH Hr), orb_false_r.
  unfold plain_elem in He. rewrite !andb_true_iff, !negb_true_iff in He. tauto.
Qed.
Lemma plain_dir_open fs root name es : plain_path name = Some es ->
  dir_open fs root name = walk fs [] (root ++ es) /\ forallb plain_elem es = true.
Proof.
  unfold plain_path. destruct (split_byte SLASH name) as [|[|x xs] rest] eqn:E; try discriminate.
  destruct (forallb plain_elem rest) eqn:Ep; [|discriminate]. intros H. inversion H; subst es. split; [|exact Ep].
  unfold dir_open, opened_path, clean_name, clean_abs. rewrite E.
  cbn [clean_from fold_left]. change (fold_left clean_step rest (clean_step [] [])) with (clean_from (clean_step [] []) rest).
  change (clean_step [] []) with (@nil elem). rewrite clean_from_plain by exact Ep. rewrite app_nil_r, rev_involutive.
  rewrite plain_has_nul by exact Ep. reflexivity.
Qed.

Theorem prop_resp_of_model : forall x,
  let r := serve_input x in prop_resp x (r_status r) (r_body r) (r_clen r) (r_cenc r) = true.
Proof.
  intros x. unfold serve_input. destruct x as [meth name ae root def compress fs]. cbn [i_fs i_root i_meth i_name i_ae i_def i_compress].
  unfold prop_resp. cbn [i_fs i_root i_meth i_name i_ae i_def i_compress].
  pose proof (serve_200_under_root fs root meth name ae def compress) as H200.
  unfold serve in *.
  destruct (negb (bytes_eqb meth GET) && negb (bytes_eqb meth HEAD)) eqn:Em; [reflexivity|].
  set (encs := if compress then accept_list ae else []) in *.
  apply andb_true_iff. split.
  - (* whatever is served lies under the root *)
    destruct (open_static_file fs root name def encs) as [res enc] eqn:EO.
    destruct res; cbn [r_status r_body r_clen Z.eqb Pos.eqb]; try reflexivity.
    cbn [r_status r_body r_clen] in H200. destruct (H200 eq_refl) as [rel [c' [_ [_ [Hget [Hcl [Hbody Hm]]]]]]].
    assert (Hne : root ++ rel <> []) by (intros E0; rewrite E0 in Hget; discriminate).
    rewrite fs_get_find in Hget by exact Hne. apply fs_find_in in Hget.
    unfold served_from_root. apply existsb_exists. exists (root ++ rel, NFile c'). split; [exact Hget|].
    rewrite path_prefix_app, Hcl, bytes_eqb_refl'. cbn [andb].
    destruct Hm as [Hm|Hm]; subst meth; [change (bytes_eqb GET GET) with true; change (bytes_eqb GET HEAD) with false in Hbody|
                                         change (bytes_eqb HEAD GET) with false; change (bytes_eqb HEAD HEAD) with true in Hbody];
      rewrite Hbody; apply bytes_eqb_refl'.
  - (* plain paths *)
    destruct (plain_path name) as [es|] eqn:Epl; [|reflexivity].
    destruct compress; [reflexivity|]. cbn [orb].
    destruct (fs_closed fs) eqn:Ecl; [|reflexivity]. cbn [negb orb].
    destruct (forallb plain_elem root) eqn:Er; [|reflexivity]. cbn [negb].
    destruct (plain_dir_open fs root name es Epl) as [Hopen Hes].
    subst encs. unfold open_static_file, new_static_file. cbn [pick_sibling fst]. rewrite Hopen.
    destruct (fs_get fs (root ++ es)) as [[c|]|] eqn:Eg; [| reflexivity |].
    + assert (Hne : root ++ es <> []) by (intros E0; rewrite E0 in Eg; discriminate).
      rewrite fs_get_find in Eg by exact Hne.
      change (root ++ es) with ([] ++ (root ++ es)) in Eg.
      rewrite (walk_present fs Ecl (root ++ es) [] (NFile c) Hne Eg).
      cbn [r_status r_body r_clen Z.eqb Pos.eqb andb]. rewrite bytes_eqb_refl'. cbn [andb].
      apply andb_false_iff in Em. destruct Em as [Em|Em]; apply negb_false_iff in Em; apply bytes_eqb_eq in Em; subst meth.
      * change (bytes_eqb GET GET) with true. change (bytes_eqb GET HEAD) with false. apply bytes_eqb_refl'.
      * change (bytes_eqb HEAD GET) with false. change (bytes_eqb HEAD HEAD) with true. reflexivity.
    + destruct def as [|d0 def']; [|reflexivity].
      destruct (walk fs [] (root ++ es)) eqn:Ew.
      * apply walk_file in Ew. cbn [app] in Ew. rewrite Ew in Eg. discriminate.
      * apply walk_dir in Ew. cbn [app] in Ew. rewrite Ew in Eg. discriminate.
      * reflexivity.
      * exfalso. apply (walk_not_toolong fs (root ++ es) []); [|exact Ew]. rewrite forallb_app, Er, Hes. reflexivity.
      * exfalso. apply (walk_not_invalid fs (root ++ es) [] Ew).
Qed.

Theorem missing_404 : forall fs root meth name ae es,
  (meth = GET \/ meth = HEAD) -> plain_path name = Some es -> forallb plain_elem root = true ->
  fs_get fs (root ++ es) = None ->
  serve fs root meth name ae [] false = {| r_status := 404; r_body := []; r_clen := []; r_cenc := [] |}.
Proof.
  intros fs root meth name ae es Hm Hp Hr Hg.
  destruct (plain_dir_open fs root name es Hp) as [Hopen Hes].
  unfold serve. replace (negb (bytes_eqb meth GET) && negb (bytes_eqb meth HEAD)) with false by (destruct Hm; subst meth; reflexivity).
  unfold open_static_file, new_static_file. cbn [pick_sibling fst]. rewrite !Hopen.
  destruct (walk fs [] (root ++ es)) eqn:Ew; cbn [fst]; try rewrite Ew; try reflexivity.
  - apply walk_file in Ew. cbn [app] in Ew. congruence.
  - apply walk_dir in Ew. cbn [app] in Ew. congruence.
  - exfalso. apply (walk_not_toolong fs (root ++ es) []); [|exact Ew]. rewrite forallb_app, Hr, Hes. reflexivity.
  - exfalso. apply (walk_not_invalid fs (root ++ es) [] Ew).
Qed.

Theorem plain_file_served : forall fs root meth name ae def es c,
  (meth = GET \/ meth = HEAD) -> plain_path name = Some es -> fs_closed fs = true ->
  fs_get fs (root ++ es) = Some (NFile c) ->
  serve fs root meth name ae def false =
    {| r_status := 200; r_body := if bytes_eqb meth HEAD then [] else c; r_clen := dec_of_Z (blen c); r_cenc := [] |}.
Proof.
  intros fs root meth name ae def es c Hm Hp Hcl Hg.
  destruct (plain_dir_open fs root name es Hp) as [Hopen Hes].
  assert (Hne : root ++ es <> []) by (intros E0; rewrite E0 in Hg; discriminate).
  rewrite fs_get_find in Hg by exact Hne. change (root ++ es) with ([] ++ (root ++ es)) in Hg.
  pose proof (walk_present fs Hcl (root ++ es) [] (NFile c) Hne Hg) as Hw.
  unfold serve. replace (negb (bytes_eqb meth GET) && negb (bytes_eqb meth HEAD)) with false by (destruct Hm; subst meth; reflexivity).
  unfold open_static_file, new_static_file. cbn [pick_sibling fst]. rewrite !Hopen, !Hw. reflexivity.
Qed.

Theorem prop_C50_of_model : forall i, dec_input i <> None -> prop_C50 i (run_C50 i) = true.
Proof.
  intros i Hd. unfold prop_C50, run_C50. destruct (dec_input i) as [x|]; [|contradiction].
  unfold enc_resp. apply prop_resp_of_model.
Qed.

Lemma C50_example_lemma :
  let fs := [([[119]], NDir); ([[119]; [97]], NFile [1; 2; 3]); ([[115]], NFile [9])] in
  r_status (serve fs [[119]] GET [47; 46; 46; 47; 115] [] [] false) = 404 /\
  serve fs [[119]] GET [47; 120; 47; 46; 46; 47; 97] [] [] false
    = {| r_status := 200; r_body := [1; 2; 3]; r_clen := [51]; r_cenc := [] |}.
Proof. vm_compute. split; reflexivity. Qed.
