(* Array level (A) of the hash-set model simulates the bucket-list level (B) for every history:
   chains through `next` are acyclic, pairwise disjoint and disjoint from the free list; the keys stored
   along the chain of bucket i are the bucket list of (B); |free list| = cap - length. *)
From Coq Require Import List ZArith Bool Lia ZifyBool.
From Bfe Require Import lib.Val lib.ValProofs model.HashSet proofs.HashSetProofs.
Import ListNotations.
Open Scope Z_scope.

Definition lenZ {A} (l : list A) : Z := Z.of_nat (length l).

(* ---- list update ---- *)
Lemma upd_nat_length {A} (l : list A) i v : length (upd_nat l i v) = length l.
Proof. revert i. induction l as [|x l IH]; intros [|i]; simpl; auto. Qed.
Lemma upd_length {A} (l : list A) i v : length (upd l i v) = length l.
Proof. apply upd_nat_length. Qed.
Lemma nth_upd_nat_same {A} (l : list A) i v d : (i < length l)%nat -> nth i (upd_nat l i v) d = v.
Proof. revert i. induction l as [|x l IH]; intros [|i] H; simpl in *; try lia; auto. apply IH. lia. Qed.
Lemma nth_upd_nat_other {A} (l : list A) i j v d : i <> j -> nth j (upd_nat l i v) d = nth j l d.
Proof.
  revert i j. induction l as [|x l IH]; intros [|i] [|j] H; simpl; auto; try congruence.
Qed.
Lemma getZ_upd_same l i v : 0 <= i < lenZ l -> getZ (upd l i v) i = v.
Proof. unfold getZ, upd, lenZ. intros H. apply nth_upd_nat_same. lia. Qed.
Lemma getZ_upd_other l i j v : 0 <= i -> 0 <= j -> i <> j -> getZ (upd l i v) j = getZ l j.
Proof. unfold getZ, upd. intros. apply nth_upd_nat_other. lia. Qed.
Lemma getK_upd_same (l : list key) i v : 0 <= i < lenZ l -> getK (upd l i v) i = v.
Proof. unfold getK, upd, lenZ. intros H. apply nth_upd_nat_same. lia. Qed.
Lemma getK_upd_other (l : list key) i j v : 0 <= i -> 0 <= j -> i <> j -> getK (upd l i v) j = getK l j.
Proof. unfold getK, upd. intros. apply nth_upd_nat_other. lia. Qed.
Lemma upd_upd {A} (l : list A) i a b : upd (upd l i a) i b = upd l i b.
Proof. apply upd_nat_twice. Qed.

(* ---- zseq ---- *)
Lemma zseq_length s n : length (zseq s n) = n.
Proof. revert s. induction n; intros; simpl; auto. Qed.
Lemma In_zseq x s n : In x (zseq s n) <-> s <= x < s + Z.of_nat n.
Proof.
  revert s. induction n as [|n IH]; intros s; cbn [zseq In]; [lia|]. rewrite IH. lia.
Qed.
Lemma NoDup_zseq s n : NoDup (zseq s n).
Proof.
  revert s. induction n as [|n IH]; intros s; cbn [zseq]; constructor; [|apply IH]. rewrite In_zseq. lia.
Qed.
Lemma nth_zseq i s n d : (i < n)%nat -> nth i (zseq s n) d = s + Z.of_nat i.
Proof.
  revert i s. induction n as [|n IH]; intros [|i] s H; cbn [zseq nth]; try lia.
  rewrite IH by lia. lia.
Qed.
Lemma NoDup_range_length (l : list Z) n :
  0 <= n -> NoDup l -> (forall m, In m l -> 0 <= m < n) -> lenZ l <= n.
Proof.
  intros Hn Hnd Hr.
  - assert (Hi : incl l (zseq 0 (Z.to_nat n))).
    { intros x Hx. apply In_zseq. specialize (Hr x Hx). lia. }
    pose proof (NoDup_incl_length Hnd Hi) as H. rewrite zseq_length in H. unfold lenZ. lia.
Qed.

(* ---- chains through next ---- *)
Inductive chain (nx : list Z) : Z -> list Z -> Prop :=
| chain_nil : chain nx (-1) []
| chain_cons h l : 0 <= h < lenZ nx -> chain nx (getZ nx h) l -> chain nx h (h :: l).

Lemma chain_range nx h l : chain nx h l -> forall m, In m l -> 0 <= m < lenZ nx.
Proof. induction 1 as [|h l Hh _ IH]; intros m []; subst; auto. Qed.
Lemma chain_ext nx nx' h l :
  chain nx h l -> length nx' = length nx -> (forall m, In m l -> getZ nx' m = getZ nx m) -> chain nx' h l.
Proof.
  induction 1 as [|h l Hh Hc IH]; intros Hl Hg; constructor.
  - unfold lenZ in *. rewrite Hl. exact Hh.
  - rewrite (Hg h (or_introl eq_refl)). apply IH; [exact Hl|]. intros m Hm. apply Hg. right. exact Hm.
Qed.
Lemma chain_m1 nx l : chain nx (-1) l -> l = [].
Proof. inversion 1; subst; [reflexivity | lia]. Qed.
Lemma chain_node nx h l : chain nx h l -> h <> -1 ->
  exists l', l = h :: l' /\ 0 <= h < lenZ nx /\ chain nx (getZ nx h) l'.
Proof. inversion 1; subst; [congruence|]. intros _. eauto. Qed.
Lemma chain_nonempty_head nx h x l : chain nx h (x :: l) -> h = x /\ 0 <= h < lenZ nx /\ chain nx (getZ nx h) l.
Proof. inversion 1; subst. auto. Qed.

Lemma chain_nil_inv nx h : chain nx h [] -> h = -1.
Proof. inversion 1; reflexivity. Qed.
Lemma kmem_cons k x r : kmem k (x :: r) = key_eqb k x || kmem k r.
Proof. reflexivity. Qed.

Lemma np_exist_chain k s : forall fuel h l,
  chain (nxt s) h l -> (length l < fuel)%nat ->
  np_exist fuel s h k = Some (kmem k (map (getK (slots s)) l)).
Proof.
  induction fuel as [|f IH]; intros h l Hc Hl; [lia|]. cbn [np_exist].
  inversion Hc as [|h' l' Hh Hc']; subst.
  - reflexivity.
  - destruct (h =? -1) eqn:E; [lia|]. cbn [map]. rewrite kmem_cons.
    destruct (key_eqb k (getK (slots s) h)); [reflexivity|]. cbn [orb]. apply IH; [exact Hc' | simpl in Hl; lia].
Qed.

Lemma map_getK_frame (sl : list key) f v l :
  0 <= f -> (forall m, In m l -> 0 <= m) -> ~ In f l -> map (getK (upd sl f v)) l = map (getK sl) l.
Proof.
  intros Hf Hr Hn. apply map_ext_in. intros m Hm. apply getK_upd_other; [exact Hf | apply Hr; exact Hm|].
  intros ->. contradiction.
Qed.

Definition keys (s : st) (l : list Z) : list key := map (getK (slots s)) l.

(* ---- the "check at the list" loop of nodePool.del ---- *)
Lemma del_loop_spec k : forall l fuel s p,
  chain (nxt s) p (p :: l) -> NoDup (p :: l) -> (length l < fuel)%nat ->
  exists s', del_loop fuel s p k = Some s' /\ ha s' = ha s /\ slots s' = slots s /\
    length (nxt s') = length (nxt s) /\
    (forall m, 0 <= m -> ~ In m (p :: l) -> getZ (nxt s') m = getZ (nxt s) m) /\
    (kmem k (keys s l) = false -> s' = s) /\
    (kmem k (keys s l) = true -> exists n l',
        In n l /\ ~ In n l' /\ (forall m, In m l' -> In m l) /\ NoDup l' /\
        chain (nxt s') p (p :: l') /\ keys s l' = kremove k (keys s l) /\
        free s' = n /\ getZ (nxt s') n = free s /\ len s' = len s - 1).
Proof.
  induction l as [|n l2 IH]; intros fuel s p Hc Hnd Hf; (destruct fuel as [|f]; [simpl in Hf; lia|]); cbn [del_loop].
  - apply chain_nonempty_head in Hc. destruct Hc as (_ & Hp & Hc). apply chain_nil_inv in Hc.
    rewrite Hc. rewrite Z.eqb_refl.
    exists s. repeat split; auto. intros H. discriminate H.
  - apply chain_nonempty_head in Hc. destruct Hc as (_ & Hp & Hc).
    apply chain_nonempty_head in Hc. destruct Hc as (En & Hn & Hc).
    rewrite En. destruct (n =? -1) eqn:E1; [lia|].
    inversion Hnd as [|? ? Hpn Hnd2]; subst. inversion Hnd2 as [|? ? Hnl Hnd3]; subst.
    assert (Hpn' : p <> getZ (nxt s) p) by (intros E; apply Hpn; left; symmetry; exact E).
    set (n := getZ (nxt s) p) in *.
    destruct (key_eqb k (getK (slots s) n)) eqn:Ek.
    + eexists. split; [reflexivity|]. cbn [recycle ha slots nxt free len].
      split; [reflexivity|]. split; [reflexivity|]. split; [rewrite !upd_length; reflexivity|].
      split.
      { intros m Hm Hni. rewrite getZ_upd_other; [|lia|exact Hm|intros ->; apply Hni; right; left; reflexivity].
        rewrite getZ_upd_other; [reflexivity|lia|exact Hm|intros ->; apply Hni; left; reflexivity]. }
      split.
      { unfold keys. cbn [map]. rewrite kmem_cons, Ek. discriminate. }
      intros _. exists n, l2.
      split; [left; reflexivity|]. split; [exact Hnl|]. split; [intros m Hm; right; exact Hm|]. split; [exact Hnd3|].
      split.
      { constructor; [unfold lenZ in *; rewrite !upd_length; exact Hp|].
        rewrite getZ_upd_other; [|lia|lia|auto]. rewrite getZ_upd_same; [|exact Hp].
        eapply chain_ext; [exact Hc | rewrite !upd_length; reflexivity|].
        intros m Hm. pose proof (chain_range _ _ _ Hc m Hm) as Hr.
        rewrite getZ_upd_other; [|lia|lia|intros ->; contradiction].
        rewrite getZ_upd_other; [reflexivity|lia|lia|intros ->; apply Hpn; right; exact Hm]. }
      split; [unfold keys; cbn [map kremove]; rewrite Ek; reflexivity|].
      split; [reflexivity|]. split; [|reflexivity].
      apply getZ_upd_same. unfold lenZ in *. rewrite upd_length. exact Hn.
    + destruct (IH f s n) as (s' & Hd & Hha & Hsl & Hlen & Hfr & Hno & Hyes).
      { constructor; assumption. } { exact Hnd2. } { simpl in Hf. lia. }
      exists s'. split; [exact Hd|]. split; [exact Hha|]. split; [exact Hsl|]. split; [exact Hlen|].
      split; [intros m Hm Hni; apply Hfr; [exact Hm | intros Hin; apply Hni; right; exact Hin]|].
      unfold keys in *. cbn [map]. rewrite kmem_cons, Ek. cbn [orb].
      split; [exact Hno|]. intros Hk. destruct (Hyes Hk) as (n0 & l' & G1 & G2 & G3 & G4 & G5 & G6 & G7 & G8 & G9).
      exists n0, (n :: l').
      split; [right; exact G1|].
      split; [intros [<- | Hin]; [contradiction | contradiction]|].
      split; [intros m [<- | Hm]; [left; reflexivity | right; apply G3; exact Hm]|].
      split; [constructor; [intros Hin; apply Hnl; apply G3; exact Hin | exact G4]|].
      split.
      { constructor; [unfold lenZ in *; rewrite Hlen; exact Hp|].
        rewrite Hfr; [exact G5 | lia | exact Hpn]. }
      split; [cbn [map kremove]; rewrite Ek, G6; reflexivity|].
      auto.
Qed.

Definition nodes_set (f : Z -> list Z) (i : Z) (l : list Z) : Z -> list Z :=
  fun j => if j =? i then l else f j.

Section Sim.
  Variable c : cfg.
  Hypothesis Hcap : 0 < cap c.
  Hypothesis Hnb : 0 < hsz c.

  Record Abs (s : st) (b : bl) (nodes : Z -> list Z) (fl : list Z) : Prop := {
    A_ha : lenZ (ha s) = hsz c;
    A_nx : lenZ (nxt s) = cap c;
    A_sl : lenZ (slots s) = cap c;
    A_ch : forall i, 0 <= i < hsz c -> chain (nxt s) (getZ (ha s) i) (nodes i);
    A_keys : forall i, 0 <= i < hsz c -> keys s (nodes i) = bk b i;
    A_fl : chain (nxt s) (free s) fl;
    A_ndf : NoDup fl;
    A_ndn : forall i, 0 <= i < hsz c -> NoDup (nodes i);
    A_dfl : forall i n, 0 <= i < hsz c -> In n (nodes i) -> ~ In n fl;
    A_dij : forall i j n, 0 <= i < hsz c -> 0 <= j < hsz c -> i <> j -> In n (nodes i) -> ~ In n (nodes j);
    A_len : len s = bn b;
    A_cnt : lenZ fl = cap c - len s }.

  Lemma bucket_range h : 0 <= bucket c h < hsz c.
  Proof. unfold bucket. apply Z.mod_pos_bound. exact Hnb. Qed.

  Lemma abs_fuel s b nodes fl i : Abs s b nodes fl -> 0 <= i < hsz c -> (length (nodes i) < fuel_of c)%nat.
  Proof.
    intros HA Hi. pose proof (A_ch _ _ _ _ HA i Hi) as Hc.
    assert (H : lenZ (nodes i) <= cap c).
    { apply NoDup_range_length; [lia | apply (A_ndn _ _ _ _ HA i Hi)|].
      intros m Hm. rewrite <- (A_nx _ _ _ _ HA). eapply chain_range; eauto. }
    unfold fuel_of, lenZ in *. lia.
  Qed.

  Lemma abs_exist s b nodes fl i k : Abs s b nodes fl -> 0 <= i < hsz c ->
    np_exist (fuel_of c) s (getZ (ha s) i) k = Some (kmem k (bk b i)).
  Proof.
    intros HA Hi. rewrite <- (A_keys _ _ _ _ HA i Hi). apply np_exist_chain.
    - apply (A_ch _ _ _ _ HA i Hi).
    - eapply abs_fuel; eauto.
  Qed.

  Lemma abs_remove s b nodes fl i k s2 h2 L' n :
    Abs s b nodes fl -> 0 <= i < hsz c ->
    ha s2 = upd (ha s) i h2 -> slots s2 = slots s -> length (nxt s2) = length (nxt s) ->
    (forall m, 0 <= m -> ~ In m (nodes i) -> getZ (nxt s2) m = getZ (nxt s) m) ->
    chain (nxt s2) h2 L' -> (forall m, In m L' -> In m (nodes i)) -> NoDup L' ->
    In n (nodes i) -> ~ In n L' -> free s2 = n -> getZ (nxt s2) n = free s -> len s2 = len s - 1 ->
    keys s L' = kremove k (bk b i) ->
    Abs s2 {| bk := bk_set (bk b) i (kremove k (bk b i)); bn := bn b - 1 |} (nodes_set nodes i L') (n :: fl).
  Proof.
    intros HA Hi Hha Hsl Hlen Hfr Hch Hsub HndL Hn HnL Hfree Hnn Hl Hk.
    pose proof (A_ha _ _ _ _ HA) as Aha. pose proof (A_nx _ _ _ _ HA) as Anx.
    assert (Hlen' : lenZ (nxt s2) = lenZ (nxt s)) by (unfold lenZ; rewrite Hlen; reflexivity).
    assert (Hnr : 0 <= n < lenZ (nxt s)) by (eapply chain_range; [apply (A_ch _ _ _ _ HA i Hi) | exact Hn]).
    constructor; cbn [bk bn].
    - rewrite Hha. unfold lenZ in *. rewrite upd_length. exact Aha.
    - rewrite Hlen'. exact Anx.
    - rewrite Hsl. apply (A_sl _ _ _ _ HA).
    - intros j Hj. unfold nodes_set. rewrite Hha. destruct (j =? i) eqn:E.
      + assert (j = i) by lia. subst j. rewrite getZ_upd_same by lia. exact Hch.
      + rewrite getZ_upd_other by lia. eapply chain_ext; [apply (A_ch _ _ _ _ HA j Hj) | exact Hlen|].
        intros m Hm. apply Hfr.
        * pose proof (chain_range _ _ _ (A_ch _ _ _ _ HA j Hj) m Hm). lia.
        * apply (A_dij _ _ _ _ HA j i m Hj Hi); [lia | exact Hm].
    - intros j Hj. unfold nodes_set, bk_set, keys. rewrite Hsl. destruct (j =? i) eqn:E.
      + exact Hk.
      + apply (A_keys _ _ _ _ HA j Hj).
    - rewrite Hfree. constructor; [lia|]. rewrite Hnn.
      eapply chain_ext; [apply (A_fl _ _ _ _ HA) | exact Hlen|].
      intros m Hm. apply Hfr.
      + pose proof (chain_range _ _ _ (A_fl _ _ _ _ HA) m Hm). lia.
      + intros Hin. apply (A_dfl _ _ _ _ HA i m Hi Hin Hm).
    - constructor; [apply (A_dfl _ _ _ _ HA i n Hi Hn) | apply (A_ndf _ _ _ _ HA)].
    - intros j Hj. unfold nodes_set. destruct (j =? i); [exact HndL | apply (A_ndn _ _ _ _ HA j Hj)].
    - intros j m Hj. unfold nodes_set. destruct (j =? i) eqn:E; intros Hm [<- | Hin].
      + contradiction.
      + apply (A_dfl _ _ _ _ HA i m Hi (Hsub m Hm) Hin).
      + apply (A_dij _ _ _ _ HA j i n Hj Hi); [lia | exact Hm | exact Hn].
      + apply (A_dfl _ _ _ _ HA j m Hj Hm Hin).
    - intros j1 j2 m Hj1 Hj2 Hne. unfold nodes_set.
      destruct (j1 =? i) eqn:E1; destruct (j2 =? i) eqn:E2; intros Hm1 Hm2.
      + lia.
      + apply (A_dij _ _ _ _ HA i j2 m Hi Hj2); [lia | apply Hsub; exact Hm1 | exact Hm2].
      + apply (A_dij _ _ _ _ HA j1 i m Hj1 Hi); [lia | exact Hm1 | apply Hsub; exact Hm2].
      + apply (A_dij _ _ _ _ HA j1 j2 m Hj1 Hj2 Hne Hm1 Hm2).
    - rewrite Hl, (A_len _ _ _ _ HA). reflexivity.
    - pose proof (A_cnt _ _ _ _ HA) as Hc. unfold lenZ in *. cbn [length]. lia.
  Qed.

  Lemma abs_add s b nodes fl i k : Abs s b nodes fl -> 0 <= i < hsz c -> len s < cap c ->
    free s <> -1 /\ 0 <= free s < lenZ (nxt s) /\
    exists fl',
    Abs (set_ha {| ha := ha s; nxt := upd (upd (nxt s) (free s) (-1)) (free s) (getZ (ha s) i);
                   free := getZ (nxt s) (free s); len := len s + 1; slots := upd (slots s) (free s) k |} i (free s))
        {| bk := bk_set (bk b) i (k :: bk b i); bn := bn b + 1 |} (nodes_set nodes i (free s :: nodes i)) fl'.
  Proof.
    intros HA Hi Hl.
    pose proof (A_ha _ _ _ _ HA) as Aha. pose proof (A_nx _ _ _ _ HA) as Anx. pose proof (A_sl _ _ _ _ HA) as Asl.
    pose proof (A_cnt _ _ _ _ HA) as Hc. pose proof (A_fl _ _ _ _ HA) as Hfl.
    destruct fl as [|f fl']; [unfold lenZ in Hc; simpl in Hc; lia|].
    apply chain_nonempty_head in Hfl. destruct Hfl as (Ef & Hf & Hfl'). subst f.
    pose proof (A_ndf _ _ _ _ HA) as Hnd. apply NoDup_cons_iff in Hnd. destruct Hnd as [Hfn Hnd'].
    set (f := free s) in *.
    split; [lia|]. split; [exact Hf|]. exists fl'.
    assert (Hfni : forall j, 0 <= j < hsz c -> ~ In f (nodes j)).
    { intros j Hj Hin. apply (A_dfl _ _ _ _ HA j f Hj Hin). left. reflexivity. }
    assert (Hnx : forall m, 0 <= m -> m <> f ->
               getZ (upd (upd (nxt s) f (-1)) f (getZ (ha s) i)) m = getZ (nxt s) m).
    { intros m Hm Hne. rewrite upd_upd. apply getZ_upd_other; [lia | exact Hm | congruence]. }
    unfold set_ha. cbn [ha nxt free len slots].
    constructor; cbn [ha nxt free len slots bk bn].
    - unfold lenZ in *. rewrite upd_length. exact Aha.
    - unfold lenZ in *. rewrite !upd_length. exact Anx.
    - unfold lenZ in *. rewrite upd_length. exact Asl.
    - intros j Hj. unfold nodes_set. destruct (j =? i) eqn:E.
      + assert (j = i) by lia. subst j. rewrite getZ_upd_same by lia.
        constructor; [unfold lenZ in *; rewrite !upd_length; exact Hf|].
        rewrite upd_upd, getZ_upd_same by exact Hf.
        eapply chain_ext; [apply (A_ch _ _ _ _ HA i Hi) | rewrite upd_length; reflexivity|].
        intros m Hm. apply getZ_upd_other; [lia | |].
        * pose proof (chain_range _ _ _ (A_ch _ _ _ _ HA i Hi) m Hm). lia.
        * intros ->. apply (Hfni i Hi Hm).
      + rewrite getZ_upd_other by lia.
        eapply chain_ext; [apply (A_ch _ _ _ _ HA j Hj) | rewrite !upd_length; reflexivity|].
        intros m Hm. apply Hnx.
        * pose proof (chain_range _ _ _ (A_ch _ _ _ _ HA j Hj) m Hm). lia.
        * intros ->. apply (Hfni j Hj Hm).
    - intros j Hj. unfold nodes_set, bk_set, keys. cbn [slots]. destruct (j =? i) eqn:E.
      + assert (j = i) by lia. subst j. cbn [map]. rewrite getK_upd_same by lia. f_equal.
        rewrite map_getK_frame; [apply (A_keys _ _ _ _ HA i Hi) | lia | | apply Hfni; exact Hi].
        intros m Hm. pose proof (chain_range _ _ _ (A_ch _ _ _ _ HA i Hi) m Hm). lia.
      + rewrite map_getK_frame; [apply (A_keys _ _ _ _ HA j Hj) | lia | | apply Hfni; exact Hj].
        intros m Hm. pose proof (chain_range _ _ _ (A_ch _ _ _ _ HA j Hj) m Hm). lia.
    - eapply chain_ext; [exact Hfl' | rewrite !upd_length; reflexivity|].
      intros m Hm. apply Hnx.
      + pose proof (chain_range _ _ _ Hfl' m Hm). lia.
      + intros ->. contradiction.
    - exact Hnd'.
    - intros j Hj. unfold nodes_set. destruct (j =? i) eqn:E; [|apply (A_ndn _ _ _ _ HA j Hj)].
      constructor; [apply Hfni; exact Hi | apply (A_ndn _ _ _ _ HA i Hi)].
    - intros j m Hj. unfold nodes_set. destruct (j =? i) eqn:E.
      + intros [<- | Hm] Hin; [contradiction|]. apply (A_dfl _ _ _ _ HA i m Hi Hm). right. exact Hin.
      + intros Hm Hin. apply (A_dfl _ _ _ _ HA j m Hj Hm). right. exact Hin.
    - intros j1 j2 m Hj1 Hj2 Hne. unfold nodes_set.
      destruct (j1 =? i) eqn:E1; destruct (j2 =? i) eqn:E2.
      + lia.
      + intros [<- | Hm1] Hm2; [apply (Hfni j2 Hj2 Hm2)|].
        apply (A_dij _ _ _ _ HA i j2 m Hi Hj2); [lia | exact Hm1 | exact Hm2].
      + intros Hm1 [<- | Hm2]; [apply (Hfni j1 Hj1 Hm1)|].
        apply (A_dij _ _ _ _ HA j1 i m Hj1 Hi); [lia | exact Hm1 | exact Hm2].
      + apply (A_dij _ _ _ _ HA j1 j2 m Hj1 Hj2 Hne).
    - rewrite (A_len _ _ _ _ HA). reflexivity.
    - unfold lenZ in *. cbn [length] in Hc. lia.
  Qed.
End Sim.

Lemma set_ha_same s i : 0 <= i < lenZ (ha s) -> set_ha s i (getZ (ha s) i) = s.
Proof.
  destruct s as [h n f l sl]. unfold set_ha, lenZ. cbn [ha nxt free len slots]. intros H. f_equal.
  unfold upd, getZ. apply upd_nat_same. lia.
Qed.

Section Step.
  Variable c : cfg.
  Hypothesis Hcap : 0 < cap c.
  Hypothesis Hnb : 0 < hsz c.

  Lemma abs_step s b nodes fl o : Abs c s b nodes fl ->
    exists nodes' fl', snd (step c s o) = snd (bl_step c b o) /\
                       Abs c (fst (step c s o)) (fst (bl_step c b o)) nodes' fl'.
  Proof.
    intros HA. pose proof (A_len _ _ _ _ _ HA) as Hlen.
    destruct o as [k h | k h | k h |]; cbn [step bl_step].
    - (* Add *)
      pose proof (bucket_range c Hnb h) as Hi. set (i := bucket c h) in *.
      rewrite Hlen. destruct (cap c <=? bn b) eqn:Efull; [exists nodes, fl; split; [reflexivity | exact HA]|].
      destruct (negb (validate c k)); [exists nodes, fl; split; [reflexivity | exact HA]|].
      rewrite (abs_exist c Hcap _ _ _ _ i k HA Hi).
      destruct (kmem k (bk b i)) eqn:Em; [exists nodes, fl; split; [reflexivity | exact HA]|].
      assert (Hl : len s < cap c) by lia.
      destruct (abs_add c s b nodes fl i k HA Hi Hl) as (Hf1 & Hf2 & fl' & HA').
      unfold np_add. destruct (free s =? -1) eqn:Ef; [lia|].
      destruct (pool_accepts c k).
      + cbn [ha nxt free len slots fst snd]. eexists _, fl'. split; [reflexivity | exact HA'].
      + cbn [fst snd]. rewrite (refused_state_same s Hf2). exists nodes, fl. split; [reflexivity | exact HA].
    - (* Remove *)
      pose proof (bucket_range c Hnb h) as Hi. set (i := bucket c h) in *.
      destruct (negb (validate c k)); [exists nodes, fl; split; [reflexivity | exact HA]|].
      pose proof (A_ch _ _ _ _ _ HA i Hi) as Hch. pose proof (A_keys _ _ _ _ _ HA i Hi) as Hk.
      pose proof (A_ndn _ _ _ _ _ HA i Hi) as Hnd.
      destruct (getZ (ha s) i =? -1) eqn:Eh.
      + assert (E : getZ (ha s) i = -1) by lia. rewrite E in Hch. apply chain_m1 in Hch.
        rewrite Hch in Hk. unfold keys in Hk. cbn [map] in Hk. rewrite <- Hk. cbn [kmem existsb fst snd].
        exists nodes, fl. split; [reflexivity | exact HA].
      + assert (E : getZ (ha s) i <> -1) by lia. destruct (chain_node _ _ _ Hch E) as (rest & Hn & Hr & Hc').
        set (head := getZ (ha s) i) in *.
        assert (Hbk : bk b i = getK (slots s) head :: keys s rest).
        { rewrite <- Hk, Hn. reflexivity. }
        rewrite Hn in Hnd. apply NoDup_cons_iff in Hnd. destruct Hnd as [Hhr Hndr].
        unfold np_del. destruct (key_eqb k (getK (slots s) head)) eqn:Ek.
        * (* the head of the chain is removed *)
          assert (Hm : kmem k (bk b i) = true) by (rewrite Hbk, kmem_cons, Ek; reflexivity).
          rewrite Hm. cbn [fst snd].
          eexists _, (head :: fl). split; [reflexivity|].
          eapply (abs_remove c s b nodes fl i k _ (getZ (nxt s) head) rest head HA Hi).
          -- reflexivity.
          -- reflexivity.
          -- cbn [set_ha recycle nxt]. apply upd_length.
          -- intros m Hm0 Hni. cbn [set_ha recycle nxt]. apply getZ_upd_other; [lia | exact Hm0|].
             intros ->. apply Hni. rewrite Hn. left. reflexivity.
          -- cbn [set_ha recycle nxt]. eapply chain_ext; [exact Hc' | apply upd_length|].
             intros m Hm0. pose proof (chain_range _ _ _ Hc' m Hm0). apply getZ_upd_other; [lia | lia|].
             intros ->. contradiction.
          -- intros m Hm0. rewrite Hn. right. exact Hm0.
          -- exact Hndr.
          -- rewrite Hn. left. reflexivity.
          -- exact Hhr.
          -- reflexivity.
          -- cbn [set_ha recycle nxt free]. apply getZ_upd_same. exact Hr.
          -- reflexivity.
          -- rewrite Hbk. cbn [kremove]. rewrite Ek. reflexivity.
        * assert (Hfu : (length rest < fuel_of c)%nat).
          { pose proof (abs_fuel c Hcap _ _ _ _ i HA Hi) as H. rewrite Hn in H. simpl in H. lia. }
          assert (Hch2 : chain (nxt s) head (head :: rest)) by (rewrite <- Hn; exact Hch).
          assert (Hnd2 : NoDup (head :: rest)) by (constructor; assumption).
          destruct (del_loop_spec k rest (fuel_of c) s head Hch2 Hnd2 Hfu)
            as (s' & Hd & Hha & Hsl & Hln & Hfr & Hno & Hyes).
          rewrite Hd. rewrite Hbk, kmem_cons, Ek. cbn [orb].
          destruct (kmem k (keys s rest)) eqn:Em; cbn [fst snd].
          -- destruct (Hyes eq_refl) as (n & l' & G1 & G2 & G3 & G4 & G5 & G6 & G7 & G8 & G9).
             eexists _, (n :: fl). split; [reflexivity|]. rewrite <- Hbk.
             eapply (abs_remove c s b nodes fl i k _ head (head :: l') n HA Hi).
             ++ cbn [set_ha ha]. rewrite Hha. reflexivity.
             ++ exact Hsl.
             ++ exact Hln.
             ++ intros m Hm0 Hni. apply Hfr; [exact Hm0 | rewrite <- Hn; exact Hni].
             ++ exact G5.
             ++ intros m [<- | Hm0]; rewrite Hn; [left; reflexivity | right; apply G3; exact Hm0].
             ++ constructor; [intros Hin; apply Hhr; apply G3; exact Hin | exact G4].
             ++ rewrite Hn. right. exact G1.
             ++ intros [<- | Hin]; [contradiction | contradiction].
             ++ exact G7.
             ++ exact G8.
             ++ exact G9.
             ++ rewrite Hbk. unfold keys in *. cbn [map kremove]. rewrite Ek, G6. reflexivity.
          -- rewrite (Hno eq_refl). rewrite set_ha_same; [|pose proof (A_ha _ _ _ _ _ HA); lia].
             exists nodes, fl. split; [reflexivity | exact HA].
    - (* Exist *)
      pose proof (bucket_range c Hnb h) as Hi.
      destruct (negb (validate c k)); [exists nodes, fl; split; [reflexivity | exact HA]|].
      rewrite (abs_exist c Hcap _ _ _ _ _ k HA Hi).
      exists nodes, fl. split; [reflexivity | exact HA].
    - exists nodes, fl. split; [exact Hlen | exact HA].
  Qed.

  Lemma abs_run : forall ops s b nodes fl, Abs c s b nodes fl -> snd (run_ops c s ops) = bl_run c b ops.
  Proof.
    induction ops as [|o r IH]; intros s b nodes fl HA; [reflexivity|]. cbn [run_ops bl_run].
    destruct (abs_step s b nodes fl o HA) as (nodes' & fl' & Hx & HA').
    destruct (step c s o) as [s1 x]. destruct (bl_step c b o) as [b1 y]. cbn [fst snd] in *.
    specialize (IH _ _ _ _ HA'). destruct (run_ops c s1 r) as [s2 xs]. cbn [snd] in *. congruence.
  Qed.
End Step.

(* ---- the initial state ---- *)
Lemma chain_zseq nx : forall n s,
  (forall i, s <= i < s + Z.of_nat (S n) ->
     0 <= i < lenZ nx /\ getZ nx i = (if i =? s + Z.of_nat (S n) - 1 then -1 else i + 1)) ->
  chain nx s (zseq s (S n)).
Proof.
  induction n as [|n IH]; intros s H.
  - cbn [zseq]. destruct (H s ltac:(lia)) as [Hr Hg]. constructor; [exact Hr|]. rewrite Hg.
    destruct (s =? s + Z.of_nat 1 - 1) eqn:E; [constructor | lia].
  - change (zseq s (S (S n))) with (s :: zseq (s + 1) (S n)).
    destruct (H s ltac:(lia)) as [Hr Hg]. constructor; [exact Hr|]. rewrite Hg.
    destruct (s =? s + Z.of_nat (S (S n)) - 1) eqn:E; [lia|].
    apply IH. intros i Hi. destruct (H i ltac:(lia)) as [Hr' Hg']. split; [exact Hr'|]. rewrite Hg'.
    destruct (i =? s + Z.of_nat (S (S n)) - 1) eqn:E1; destruct (i =? s + 1 + Z.of_nat (S n) - 1) eqn:E2; lia.
Qed.

Lemma getZ_repeat n i : getZ (repeat (-1) n) i = -1.
Proof. unfold getZ. apply nth_repeat. Qed.

Lemma init_next_get N i : (0 < N)%nat -> 0 <= i < Z.of_nat N ->
  getZ (zseq 1 (N - 1) ++ [-1]) i = (if i =? Z.of_nat N - 1 then -1 else i + 1).
Proof.
  intros HN Hi. unfold getZ. destruct (i =? Z.of_nat N - 1) eqn:E.
  - rewrite app_nth2; rewrite zseq_length; [|lia]. replace (Z.to_nat i - (N - 1))%nat with 0%nat by lia. reflexivity.
  - rewrite app_nth1; [|rewrite zseq_length; lia]. rewrite nth_zseq by lia. lia.
Qed.

Lemma abs_init c : 0 < cap c -> 0 < hsz c -> Abs c (init c) bl_init (fun _ => []) (zseq 0 (Z.to_nat (cap c))).
Proof.
  intros Hcap Hnb. set (N := Z.to_nat (cap c)). assert (HN : (0 < N)%nat) by lia.
  assert (Hnx : lenZ (zseq 1 (N - 1) ++ [-1]) = cap c).
  { unfold lenZ. rewrite app_length, zseq_length. simpl. lia. }
  constructor; unfold init; cbn [ha nxt free len slots bl_init bk bn]; fold N.
  - unfold lenZ. rewrite repeat_length. lia.
  - exact Hnx.
  - unfold lenZ. rewrite repeat_length. lia.
  - intros i _. rewrite getZ_repeat. constructor.
  - intros i _. reflexivity.
  - destruct N as [|n] eqn:EN; [lia|]. apply chain_zseq. intros i Hi.
    split; [rewrite Hnx; lia|]. rewrite init_next_get by lia. reflexivity.
  - apply NoDup_zseq.
  - intros i _. constructor.
  - intros i n _ [].
  - intros i j n _ _ _ [].
  - reflexivity.
  - unfold lenZ. rewrite zseq_length. lia.
Qed.

(* (A) simulates (B) on every history, whatever the hash column *)
Theorem array_refines_bl : forall c ops,
  0 < cap c -> 0 < hsz c -> snd (run_ops c (init c) ops) = bl_run c bl_init ops.
Proof. intros c ops Hc Hn. eapply abs_run; [exact Hc | exact Hn | apply abs_init; assumption]. Qed.

(* (A) refines (S): the Go arrays behave as a bounded mathematical set, for every hash function *)
Theorem array_refines_set : forall (hash : key -> Z) c ops,
  0 < cap c -> 0 < hsz c -> Forall (consistent hash) ops -> snd (run_ops c (init c) ops) = sp_run c [] ops.
Proof. intros hash c ops Hc Hn Hh. rewrite (array_refines_bl c ops Hc Hn). apply (bl_refines_set hash). exact Hh. Qed.

(* the executable representation invariant / abstraction check can never fail either (its observation part) *)
From Bfe Require Import run.RunC20.

Lemma some_inj' {A} (x y : A) : Some x = Some y -> x = y.
Proof. intros H. injection H. auto. Qed.
Lemma sp_check_run c : forall ops s, sp_check c s ops (sp_run c s ops) = true.
Proof.
  induction ops as [|o r IH]; intros s; [reflexivity|]. cbn [sp_check sp_run].
  destruct (sp_step c s o) as [s1 x]. rewrite Z.eqb_refl. cbn [orb andb]. apply IH.
Qed.
Lemma all_some_map_Z l : all_some (map as_Z (map VZ l)) = Some l.
Proof. induction l as [|x l IH]; [reflexivity|]. cbn [map all_some as_Z]. rewrite IH. reflexivity. Qed.

(* ---- a functional hash column is the graph of a hash function ---- *)
Definition hash_of (l : list (key * Z)) (k : key) : Z :=
  match find (fun p => key_eqb k (fst p)) l with Some p => snd p | None => 0 end.
Lemma functional_lookup l : functional_b l = true -> forall p, In p l -> hash_of l (fst p) = snd p.
Proof.
  intros Hf p Hp. unfold hash_of. destruct (find (fun q => key_eqb (fst p) (fst q)) l) as [q|] eqn:E.
  - apply find_some in E. destruct E as [Hq Hk]. unfold functional_b in Hf. rewrite forallb_forall in Hf.
    specialize (Hf p Hp). rewrite forallb_forall in Hf. specialize (Hf q Hq). rewrite Hk in Hf. cbn [negb orb] in Hf. lia.
  - exfalso. pose proof (find_none _ _ E p Hp) as H. cbn beta in H.
    assert (key_eqb (fst p) (fst p) = true) by (apply key_eqb_eq; reflexivity). congruence.
Qed.
Lemma functional_consistent ops : functional_b (kh ops) = true -> Forall (consistent (hash_of (kh ops))) ops.
Proof.
  intros Hf. apply Forall_forall. intros o Ho.
  assert (Hin : forall p, In p (op_kh o) -> In p (kh ops)).
  { intros p Hp. unfold kh. apply in_flat_map. exists o. tauto. }
  destruct o as [k h | k h | k h |]; cbn [consistent]; auto;
    symmetry; apply (functional_lookup _ Hf (k, h)); apply Hin; left; reflexivity.
Qed.

(* ---- byte pools used directly: slots = last-write-wins map ---- *)
Lemma pool_refines c : forall ops sl m,
  lenZ sl = cap c -> (forall j, 0 <= j < cap c -> getK sl j = alookup j m (pool_default c)) ->
  forallb pop_ok ops = true -> pool_run c sl ops = psp_run c m ops.
Proof.
  induction ops as [|o r IH]; intros sl m Hl Hm Hok; [reflexivity|].
  cbn [forallb] in Hok. apply andb_true_iff in Hok. destruct Hok as [Ho Hr]. cbn [pool_run psp_run].
  destruct o as [idx k | idx |]; cbn [pool_step psp_step pop_ok] in *.
  - destruct (cap c <=? idx) eqn:E; [f_equal; apply IH; assumption|].
    destruct (pool_accepts c k); [|f_equal; apply IH; assumption].
    f_equal. apply IH; [unfold lenZ in *; rewrite upd_length; exact Hl | | exact Hr].
    intros j Hj. cbn [alookup]. destruct (j =? idx) eqn:Ej.
    + assert (j = idx) by lia. subst j. apply getK_upd_same. lia.
    + rewrite getK_upd_other by lia. apply Hm. exact Hj.
  - destruct (cap c <=? idx) eqn:E; [f_equal; apply IH; assumption|].
    rewrite (Hm idx) by lia. f_equal. apply IH; assumption.
  - f_equal. apply IH; assumption.
Qed.
Lemma pool_init_get c j : 0 <= j < cap c -> getK (pool_init c) j = pool_default c.
Proof.
  intros Hj. unfold pool_init, init, getK, pool_default. cbn [slots].
  rewrite (nth_indep _ [] (if fixed c then repeat 0 (Z.to_nat (ksz c)) else [])) by (rewrite repeat_length; lia).
  apply nth_repeat.
Qed.
Lemma dec_pop_ok : forall vs ops, all_some (map dec_pop vs) = Some ops -> forallb pop_ok ops = true.
Proof.
  induction vs as [|v vs IH]; intros ops H; cbn [map all_some] in H.
  - apply some_inj' in H. subst. reflexivity.
  - destruct (dec_pop v) as [o|] eqn:Eo; [|discriminate].
    destruct (all_some (map dec_pop vs)) as [r|] eqn:Er; [|discriminate].
    apply some_inj' in H. subst ops. cbn [forallb]. rewrite (IH r eq_refl), andb_true_r.
    unfold dec_pop in Eo.
    repeat match type of Eo with
           | match ?x with _ => _ end = _ => destruct x eqn:?; try discriminate
           end; apply some_inj' in Eo; subst o; cbn [pop_ok]; auto.
Qed.

Theorem pool_prop_of_model : forall v, is_pool v = true -> dec_pool v <> None -> prop_pool v (run_pool v) = true.
Proof.
  intros v _ Hd. unfold prop_pool, run_pool. destruct (dec_pool v) as [[c ops]|] eqn:E; [|congruence].
  destruct (cfg_ok c) eqn:Eok; [|reflexivity].
  assert (Hok : forallb pop_ok ops = true).
  { unfold dec_pool in E.
    repeat match type of E with
           | match ?x with _ => _ end = _ => destruct x eqn:?; try discriminate
           end.
    apply some_inj' in E. inversion E; subst. eapply dec_pop_ok; eauto. }
  rewrite (pool_refines c ops (pool_init c) []); [apply val_eqb_refl | | | exact Hok].
  - unfold pool_init, init, lenZ. cbn [slots]. rewrite repeat_length. unfold cfg_ok in Eok. lia.
  - intros j Hj. rewrite (pool_init_get c j Hj). reflexivity.
Qed.

Theorem set_prop_of_model : forall v c ops (hash : key -> Z),
  dec_input v = Some (c, ops) -> Forall (consistent hash) ops -> prop_set v (run_set v) = true.
Proof.
  intros v c ops hash Hd Hh. unfold prop_set, run_set, run_cfg. rewrite Hd.
  destruct (cfg_ok c) eqn:Eok; [|reflexivity].
  assert (Hc : 0 < cap c) by (unfold cfg_ok in Eok; lia).
  assert (Hn : 0 < hsz c) by (unfold cfg_ok, hsz in *; lia).
  pose proof (array_refines_set hash c ops Hc Hn Hh) as Hr.
  destruct (run_ops c (init c) ops) as [s obs]. cbn [snd] in Hr. subst obs.
  unfold as_LZ, vLZ. rewrite all_some_map_Z. apply sp_check_run.
Qed.

(* CENTRAL: the model satisfies the executable property on every well-formed wire input *)
Theorem prop_C20_of_model : forall v, wf_C20 v = true -> kf_C20 v = 0 -> prop_C20 v (run_C20 v) = true.
Proof.
  intros v Hwf _. unfold wf_C20, prop_C20, run_C20 in *. destruct (is_pool v) eqn:Ep.
  - apply pool_prop_of_model; [exact Ep|]. destruct (dec_pool v); [discriminate | discriminate].
  - destruct (dec_input v) as [[c ops]|] eqn:Ed; [|discriminate].
    eapply set_prop_of_model; [exact Ed | apply functional_consistent; exact Hwf].
Qed.

Lemma wf_C20_example :
  wf_C20 (VL [VZ 2; VZ 2; VZ 1; VZ 3; VL [VL [VZ 1; VB [1;1]; VZ 1]; VL [VZ 1; VB [1]; VZ 1]; VL [VZ 4];
              VL [VZ 3; VB [1]; VZ 1]; VL [VZ 2; VB [1;1]; VZ 1]; VL [VZ 1; VB [0]; VZ 0]; VL [VZ 3; VB [1;1]; VZ 1]; VL [VZ 4]]; VZ 10]) = true
  /\ wf_C20 (VL [VZ 2; VZ 2; VZ 1; VZ (-1); VL [VL [VZ 1; VZ 0; VB [1;1]]; VL [VZ 2; VZ 0]; VL [VZ 1; VZ 2; VB [1;1]]; VL [VZ 3]]; VZ 0]) = true.
Proof. split; reflexivity. Qed.
