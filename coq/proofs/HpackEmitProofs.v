(* SetEmitEnabled: the dynamic table (and the whole decoder state) evolves independently of the emit budget. *)
From Coq Require Import List ZArith Bool Lia ZifyBool ZifyNat.
From Bfe Require Import lib.Val lib.Bytes gen.HpackTables model.Huffman model.Hpack proofs.HpackIncrProofs proofs.HpackLimProofs.
Import ListNotations.
Open Scope Z_scope.

Section EmitP.
Variable hd : bytes -> hres.
Variable M : Z.
Hypothesis HM : 0 <= M.

Lemma too_long_0 : too_long M 0 = false.
Proof. unfold too_long. destruct (M =? 0) eqn:E; [reflexivity|]. cbn [negb andb]. lia. Qed.

Lemma varint_err n p c : read_varint n p = RErr c -> c <> 0.
Proof. intros H. pose proof (read_varint_mono n p []) as Hm. rewrite H in Hm. apply Hm. Qed.

(* skipped strings: same consumption, same need for more data; errors of the reading decoder are never code 0 *)
Lemma rs_w p :
  match read_string_lim hd M p with
  | ROk s rest => read_string_w hd M false p = ROk [] rest
  | RNeedMore => read_string_w hd M false p = RNeedMore
  | RErr c => c <> 0
  | RPanic => True
  end.
Proof.
  destruct p as [|b0 p0]; [reflexivity|]. unfold read_string_lim, read_string_w.
  destruct (read_varint 7 (b0 :: p0)) as [len r| |c|] eqn:E; [|reflexivity|eapply varint_err; exact E|exact I].
  destruct (too_long M len); [discriminate|]. destruct (blen r <? len); [reflexivity|].
  destruct (128 <=? b0); [|reflexivity].
  destruct (hd (firstn (Z.to_nat len) r)); try discriminate; try exact I.
  destruct (too_long M (blen s)); [discriminate|reflexivity].
Qed.

Definition blank (x x' : field) : Prop :=
  (fname x' = fname x \/ fname x' = []) /\ (fvalue x' = fvalue x \/ fvalue x' = []).
Definition oblank (o o' : option field) : Prop :=
  match o, o' with Some x, Some x' => blank x x' | None, None => True | _, _ => False end.
Lemma oblank_refl o : oblank o o.
Proof. destruct o; [split; left; reflexivity|exact I]. Qed.

Definition t1 (r r' : rd (dyntab * option field)) : Prop :=
  match r with
  | ROk (d', o) rest => exists o', r' = ROk (d', o') rest /\ oblank o o'
  | RNeedMore => r' = RNeedMore
  | RErr c => c <> 0
  | RPanic => True
  end.
Lemma t1_same r : (forall c, r = RErr c -> c <> 0) -> t1 r r.
Proof. intros H. destruct r as [[d' o] rest| |c|]; cbn; auto. exists o. split; [reflexivity|apply oblank_refl]. Qed.

Lemma lit_err d n it p c : parse_literal_lim hd M d n it p = RErr c -> c <> 0.
Proof.
  unfold parse_literal_lim. destruct (read_varint n p) as [idx r| |c0|] eqn:E; try discriminate.
  2:{ intros H. inversion H; subst. eapply varint_err; exact E. }
  assert (forall c1, (if idx >? 0 then match dec_at d idx with Some (nm, _) => ROk nm r | None => RErr E_INDEX end
                      else read_string_lim hd M r) = RErr c1 -> c1 <> 0) as Hn.
  { intros c1. destruct (idx >? 0).
    - destruct (dec_at d idx) as [[nm x]|]; intros H; inversion H. discriminate.
    - intros H. pose proof (rs_w r) as Hr. rewrite H in Hr. exact Hr. }
  destruct (if idx >? 0 then match dec_at d idx with Some (nm, _) => ROk nm r | None => RErr E_INDEX end
            else read_string_lim hd M r) as [nm r1| |c1|]; try discriminate.
  2:{ intros H. inversion H; subst. apply Hn. reflexivity. }
  pose proof (rs_w r1) as Hr. destruct (read_string_lim hd M r1) as [v r2| |c2|]; try discriminate.
  - destruct (it =? 0); [destruct (dt_add d (mkF nm v false))|]; discriminate.
  - intros H. inversion H; subst. exact Hr.
Qed.

Lemma lit_t1 d n it p : t1 (parse_literal_lim hd M d n it p) (parse_literal_e hd M false d n it p).
Proof.
  destruct (it =? 0) eqn:Eit.
  - assert (parse_literal_e hd M false d n it p = parse_literal_lim hd M d n it p) as ->.
    { unfold parse_literal_e, parse_literal_lim. rewrite Eit. reflexivity. }
    apply t1_same. intros c. apply lit_err.
  - pose proof (lit_err d n it p) as Herr.
    unfold parse_literal_lim, parse_literal_e in *. rewrite Eit in *. cbn [orb] in *.
    destruct (read_varint n p) as [idx r| |c0|]; cbn [t1]; try reflexivity; try exact I; [|apply Herr; reflexivity].
    destruct (idx >? 0).
    + destruct (dec_at d idx) as [[nm x]|]; cbn [t1]; [|discriminate].
      pose proof (rs_w r) as Hr.
      destruct (read_string_lim hd M r) as [v r2| |c2|]; cbn [t1].
      * rewrite Hr. eexists. split; [reflexivity|]. split; cbn; auto.
      * rewrite Hr. reflexivity.
      * apply Herr. reflexivity.
      * exact I.
    + pose proof (rs_w r) as Hr. destruct (read_string_lim hd M r) as [nm r1| |c1|]; cbn [t1].
      * rewrite Hr. pose proof (rs_w r1) as Hr1.
        destruct (read_string_lim hd M r1) as [v r2| |c2|]; cbn [t1].
        -- rewrite Hr1. eexists. split; [reflexivity|]. split; cbn; auto.
        -- rewrite Hr1. reflexivity.
        -- apply Herr. reflexivity.
        -- exact I.
      * rewrite Hr. reflexivity.
      * apply Herr. reflexivity.
      * exact I.
Qed.

Lemma repr_t1 first d p : t1 (parse_repr_lim hd M first d p) (parse_repr_e hd M false first d p).
Proof.
  destruct p as [|b p0]; [reflexivity|]. unfold parse_repr_lim, parse_repr_e.
  destruct (128 <=? b).
  - apply t1_same. intros c H. pose proof (parse_indexed_mono d (b :: p0) []) as Hm. rewrite H in Hm. apply Hm.
  - destruct (64 <=? b); [apply lit_t1|]. destruct (b <? 16); [apply lit_t1|]. destruct (b <? 32); [apply lit_t1|].
    apply t1_same. intros c H. pose proof (parse_size_update_mono first d (b :: p0) []) as Hm. rewrite H in Hm. apply Hm.
Qed.
Lemma repr_e_true first d p : parse_repr_e hd M true first d p = parse_repr_lim hd M first d p.
Proof. reflexivity. Qed.

(* budget after emitting the fields fs *)
Definition bnext {A} (b : Z) (fs : list A) : Z := if b <? 0 then b else Z.max 0 (b - Z.of_nat (length fs)).

Lemma take_b_nil (b : Z) : @take_b field b [] = [].
Proof. unfold take_b. destruct (b <? 0); [reflexivity|apply firstn_nil]. Qed.
Lemma bnext_nil (b : Z) : @bnext field b [] = b.
Proof. unfold bnext. cbn [length]. destruct (b <? 0) eqn:E; [reflexivity|lia]. Qed.
Lemma take_b_cons b (x : field) fs : b <> 0 -> take_b b (x :: fs) = x :: take_b (budget_next b) fs.
Proof.
  intros Hb. unfold take_b, budget_next. destruct (b <? 0) eqn:E.
  - assert (b >? 0 = false) as -> by lia. rewrite E. reflexivity.
  - assert (b >? 0 = true) as -> by lia. assert (b - 1 <? 0 = false) as -> by lia.
    replace (Z.to_nat b) with (S (Z.to_nat (b - 1))) by lia. reflexivity.
Qed.
Lemma bnext_cons b (x : field) fs : b <> 0 -> bnext b (x :: fs) = bnext (budget_next b) fs.
Proof.
  intros Hb. unfold bnext, budget_next. cbn [length]. destruct (b <? 0) eqn:E.
  - assert (b >? 0 = false) as -> by lia. rewrite E. reflexivity.
  - assert (b >? 0 = true) as -> by lia. assert (b - 1 <? 0 = false) as -> by lia. lia.
Qed.

Lemma bnext0 (fs : list field) : bnext 0 fs = 0.
Proof. unfold bnext. change (0 <? 0) with false. cbv iota. lia. Qed.
Lemma take_b0 (fs : list field) : take_b 0 fs = [].
Proof. reflexivity. Qed.

Lemma loop_e_budget : forall fuel b first d buf acc acc' dd a0,
  parse_loop_lim hd M fuel first d buf acc = (dd, a0, 0) ->
  exists fs, a0 = rev fs ++ acc /\
             parse_loop_e hd M fuel b first d buf acc' = (dd, bnext b fs, rev (take_b b fs) ++ acc', 0).
Proof.
  induction fuel as [|f IH]; intros b first d buf acc acc' dd a0 H.
  - destruct buf as [|x0 p0]; cbn [parse_loop_lim] in H; [|inversion H].
    inversion H; subst. exists []. split; [reflexivity|]. cbn [parse_loop_e]. rewrite take_b_nil, bnext_nil. reflexivity.
  - destruct buf as [|x0 p0].
    + cbn [parse_loop_lim] in H. inversion H; subst. exists []. split; [reflexivity|]. cbn [parse_loop_e].
      rewrite take_b_nil, bnext_nil. reflexivity.
    + cbn [parse_loop_lim] in H. cbn [parse_loop_e].
      pose proof (repr_t1 first d (x0 :: p0)) as Ht.
      destruct (parse_repr_lim hd M first d (x0 :: p0)) as [[d' o] rest| |c|] eqn:Er.
      * destruct o as [x|].
        -- destruct (too_long M (blen (fname x)) || too_long M (blen (fvalue x))) eqn:Etl; [inversion H|].
           destruct (IH (if b =? 0 then b else budget_next b) false d' rest (x :: acc)
                        (if b =? 0 then acc' else x :: acc') dd a0 H) as [fs' [Ha Hl]].
           exists (x :: fs'). split; [rewrite Ha; cbn [rev]; rewrite <- app_assoc; reflexivity|].
           destruct (b =? 0) eqn:Eb.
           ++ cbn [negb]. destruct Ht as [o' [Hr' Hbl]]. rewrite Hr'. destruct o' as [x'|]; [|contradiction].
              destruct Hbl as [Hn Hv].
              assert (too_long M (blen (fname x')) || too_long M (blen (fvalue x')) = false) as ->.
              { apply orb_false_iff in Etl. destruct Etl as [E1 E2]. apply orb_false_iff. split.
                - destruct Hn as [->| ->]; [exact E1|apply too_long_0].
                - destruct Hv as [->| ->]; [exact E2|apply too_long_0]. }
              assert (b = 0) as -> by lia. rewrite Hl, !bnext0, !take_b0. reflexivity.
           ++ cbn [negb]. rewrite repr_e_true, Er, Etl, Hl.
              rewrite (take_b_cons b x fs') by lia. rewrite (bnext_cons b x fs') by lia.
              cbn [rev]. rewrite <- app_assoc. reflexivity.
        -- destruct (IH b first d' rest acc acc' dd a0 H) as [fs' [Ha Hl]]. exists fs'. split; [exact Ha|].
           destruct (b =? 0) eqn:Eb; cbn [negb].
           ++ destruct Ht as [o' [Hr' Hbl]]. rewrite Hr'. destruct o'; [contradiction|]. exact Hl.
           ++ rewrite repr_e_true, Er. exact Hl.
      * destruct (negb (M =? 0) && (blen (x0 :: p0) >? 2 * (M + 8))) eqn:Ep; [inversion H|].
        inversion H; subst. exists []. split; [reflexivity|]. rewrite take_b_nil, bnext_nil.
        destruct (b =? 0) eqn:Eb; cbn [negb].
        -- cbn [t1] in Ht. rewrite Ht. reflexivity.
        -- rewrite repr_e_true, Er. reflexivity.
      * inversion H. subst. exfalso. apply Ht. reflexivity.
      * inversion H.
Qed.

Lemma take_b_app (b : Z) (l1 l2 : list field) : take_b b (l1 ++ l2) = take_b b l1 ++ take_b (bnext b l1) l2.
Proof.
  unfold take_b, bnext. destruct (b <? 0) eqn:E; [rewrite E; reflexivity|].
  assert (Z.max 0 (b - Z.of_nat (length l1)) <? 0 = false) as -> by lia.
  rewrite firstn_app. do 2 f_equal. lia.
Qed.

Lemma write_e_budget d b p dd fs : dec_write_lim hd M d p = (dd, fs, 0) ->
  dec_write_e hd M d b p = (dd, bnext b fs, take_b b fs, 0).
Proof.
  destruct p as [|x0 p0].
  - cbn [dec_write_lim dec_write_e]. intros H. inversion H; subst. rewrite bnext_nil, take_b_nil. reflexivity.
  - unfold dec_write_lim, dec_write_e.
    destruct (parse_loop_lim hd M (S (length (dsave d ++ x0 :: p0))) (dfirst d) (ddt d) (dsave d ++ x0 :: p0) []) as [[dd' a0] st] eqn:El.
    intros H. inversion H; subst dd' st. clear H.
    destruct (loop_e_budget _ b _ _ _ [] [] _ _ El) as [fs0 [Ha Hl]]. rewrite Hl.
    rewrite app_nil_r in Ha. subst a0. rewrite rev_involutive, !app_nil_r, rev_involutive. reflexivity.
Qed.

Lemma run_e_budget : forall chunks d b acc acc' dd fsall,
  dec_run_lim hd M d chunks acc = (dd, fsall, 0) ->
  exists fs, fsall = acc ++ fs /\ dec_run_e hd M d b chunks acc' = (dd, acc' ++ take_b b fs, 0).
Proof.
  induction chunks as [|c r IH]; intros d b acc acc' dd fsall H.
  - cbn [dec_run_lim dec_run_e] in *. destruct (dec_close d) as [d' st]. inversion H; subst.
    exists []. rewrite take_b_nil, !app_nil_r. split; reflexivity.
  - cbn [dec_run_lim dec_run_e] in *.
    destruct (dec_write_lim hd M d c) as [[d1 fs1] st1] eqn:Ew.
    destruct (st1 =? 0) eqn:Es; [|inversion H; lia].
    assert (st1 = 0) by lia. subst st1. rewrite (write_e_budget d b c d1 fs1 Ew). change (0 =? 0) with true. cbv iota.
    destruct (IH d1 (bnext b fs1) (acc ++ fs1) (acc' ++ take_b b fs1) dd fsall H) as [fs' [Hf He]].
    exists (fs1 ++ fs'). split; [rewrite Hf, app_assoc; reflexivity|].
    rewrite He, take_b_app, app_assoc. reflexivity.
Qed.

(* TABLE EVOLUTION IS INDEPENDENT OF THE EMIT FLAG: whenever the block is accepted with emit always enabled, it is
   accepted with any emit budget b, the final decoder state (dynamic table, saved bytes, firstField) is identical,
   and exactly the first b fields were emitted. *)
Theorem emit_independent d b chunks dd fs :
  dec_run_lim hd M d chunks [] = (dd, fs, 0) -> dec_run_e hd M d b chunks [] = (dd, take_b b fs, 0).
Proof.
  intros H. destruct (run_e_budget chunks d b [] [] dd fs H) as [fs' [Hf He]]. cbn [app] in *. subst fs'. exact He.
Qed.

(* a negative budget (never disabled) is the plain decoder, whatever the outcome *)
Lemma loop_e_all : forall fuel b first d buf acc, b < 0 ->
  parse_loop_e hd M fuel b first d buf acc =
  let '(dd, a, st) := parse_loop_lim hd M fuel first d buf acc in (dd, b, a, st).
Proof.
  induction fuel as [|f IH]; intros b first d buf acc Hb; destruct buf as [|x0 p0]; try reflexivity.
  cbn [parse_loop_e parse_loop_lim]. assert (b =? 0 = false) as Eb by lia. rewrite Eb. cbn [negb]. rewrite repr_e_true.
  destruct (parse_repr_lim hd M first d (x0 :: p0)) as [[d' o] rest| |c|]; try reflexivity.
  - destruct o as [x|]; [|apply IH; exact Hb].
    destruct (too_long M (blen (fname x)) || too_long M (blen (fvalue x))); [reflexivity|].
    assert (budget_next b = b) as -> by (unfold budget_next; assert (b >? 0 = false) as -> by lia; reflexivity).
    apply IH. exact Hb.
  - destruct (negb (M =? 0) && (blen (x0 :: p0) >? 2 * (M + 8))); reflexivity.
Qed.
Lemma write_e_all d b p : b < 0 ->
  dec_write_e hd M d b p = let '(dd, fs, st) := dec_write_lim hd M d p in (dd, b, fs, st).
Proof.
  intros Hb. destruct p as [|x0 p0]; [reflexivity|]. unfold dec_write_e, dec_write_lim. rewrite loop_e_all by exact Hb.
  destruct (parse_loop_lim hd M (S (length (dsave d ++ x0 :: p0))) (dfirst d) (ddt d) (dsave d ++ x0 :: p0) []) as [[dd a] st].
  reflexivity.
Qed.
Lemma run_e_all : forall chunks d b acc, b < 0 -> dec_run_e hd M d b chunks acc = dec_run_lim hd M d chunks acc.
Proof.
  induction chunks as [|c r IH]; intros d b acc Hb; [reflexivity|]. cbn [dec_run_e dec_run_lim]. rewrite write_e_all by exact Hb.
  destruct (dec_write_lim hd M d c) as [[d1 fs1] st1]. destruct (st1 =? 0); [apply IH; exact Hb|reflexivity].
Qed.
End EmitP.
