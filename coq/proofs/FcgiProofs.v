(* Proofs about model/Fcgi.v *)
From Coq Require Import List ZArith Bool Lia ZifyBool ZifyNat.
From Bfe Require Import lib.Val lib.Bytes model.Fcgi.
Import ListNotations.
Open Scope Z_scope.

Local Arguments Z.mul : simpl never.
Local Arguments Z.add : simpl never.
Local Arguments Z.sub : simpl never.
Local Arguments Z.div : simpl never.
Local Arguments Z.modulo : simpl never.
Local Arguments Z.to_nat : simpl never.
Local Arguments Z.of_nat : simpl never.
Local Arguments MAXW : simpl never.

Lemma blen_app (a b : bytes) : blen (a ++ b) = blen a + blen b.
Proof. unfold blen. rewrite app_length. lia. Qed.
Lemma blen_nonneg (a : bytes) : 0 <= blen a.
Proof. unfold blen. lia. Qed.
Lemma blen_firstn (n : Z) (a : bytes) : 0 <= n <= blen a -> blen (firstn (Z.to_nat n) a) = n.
Proof. unfold blen. intros H. rewrite firstn_length. lia. Qed.
Lemma blen_skipn (n : Z) (a : bytes) : 0 <= n <= blen a -> blen (skipn (Z.to_nat n) a) = blen a - n.
Proof. unfold blen. intros H. rewrite skipn_length. lia. Qed.
Lemma blen_nil_iff (a : bytes) : blen a = 0 <-> a = [].
Proof. unfold blen. destruct a; simpl; split; intros; try reflexivity; try discriminate; lia. Qed.

(* ---------------- the buffered writer preserves the byte stream and bounds the records ---------------- *)
Definition w_all (w : wst) : bytes := concat (snd w) ++ fst w.
Definition rec_ok (c : bytes) : Prop := 0 < blen c <= MAXW.
Definition w_ok (w : wst) : Prop := blen (fst w) <= MAXW /\ Forall rec_ok (snd w).

Lemma split_full_concat fuel : forall s recs rem, split_full fuel s = (recs, rem) -> concat recs ++ rem = s.
Proof.
  induction fuel as [|f IH]; intros s recs rem H; cbn [split_full] in H.
  - destruct (blen s <=? MAXW); inversion H; reflexivity.
  - destruct (blen s <=? MAXW); [inversion H; reflexivity|].
    destruct (split_full f (skipn (Z.to_nat MAXW) s)) as [r1 m1] eqn:E.
    inversion H; subst. simpl. rewrite <- app_assoc. rewrite (IH _ _ _ E). apply firstn_skipn.
Qed.

Lemma split_full_ok fuel : forall s recs rem,
  split_full fuel s = (recs, rem) -> blen s <= (Z.of_nat fuel + 1) * MAXW ->
  blen rem <= MAXW /\ Forall rec_ok recs.
Proof.
  unfold rec_ok.
  induction fuel as [|f IH]; intros s recs rem H Hb; cbn [split_full] in H.
  - destruct (blen s <=? MAXW) eqn:E; inversion H; subst; split; try constructor; unfold MAXW in *; lia.
  - destruct (blen s <=? MAXW) eqn:E; [inversion H; subst; split; [lia|constructor]|].
    destruct (split_full f (skipn (Z.to_nat MAXW) s)) as [r1 m1] eqn:E1.
    inversion H; subst. 
    assert (Hs : blen (skipn (Z.to_nat MAXW) s) = blen s - MAXW) by (apply blen_skipn; unfold MAXW in *; lia).
    destruct (IH _ _ _ E1) as [H1 H2]; [rewrite Hs; unfold MAXW in *; lia|].
    split; [exact H1|]. constructor; [|exact H2].
    rewrite blen_firstn; unfold MAXW in *; lia.
Qed.

Lemma fuel_for_enough s : blen s <= (Z.of_nat (fuel_for s) + 1) * MAXW.
Proof.
  unfold fuel_for. pose proof (blen_nonneg s) as Hn.
  assert (H : blen s = MAXW * (blen s / MAXW) + blen s mod MAXW) by (apply Z.div_mod; unfold MAXW; lia).
  assert (H2 : 0 <= blen s mod MAXW < MAXW) by (apply Z.mod_pos_bound; unfold MAXW; lia).
  assert (H3 : 0 <= blen s / MAXW) by (apply Z.div_pos; unfold MAXW; lia).
  rewrite Nat2Z.inj_succ, Z2Nat.id by lia. nia.
Qed.

Lemma w_write_all w s : w_all (w_write w s) = w_all w ++ s.
Proof.
  destruct w as [buf out]. unfold w_write, w_all. 
  destruct (blen s <=? MAXW - blen buf) eqn:E; simpl.
  - rewrite app_assoc. reflexivity.
  - destruct (split_full (fuel_for s) (skipn (Z.to_nat (MAXW - blen buf)) s)) as [recs rem] eqn:E1. simpl.
    apply split_full_concat in E1.
    rewrite !concat_app. simpl. rewrite app_nil_r. rewrite <- !app_assoc. f_equal. f_equal.
    rewrite E1. apply firstn_skipn.
Qed.

Lemma w_write_ok w s : w_ok w -> w_ok (w_write w s).
Proof.
  destruct w as [buf out]. unfold w_ok, w_write. simpl. intros [Hb Ho].
  pose proof (blen_nonneg buf) as Hn. pose proof (blen_nonneg s) as Hs.
  destruct (blen s <=? MAXW - blen buf) eqn:E; simpl.
  - split; [rewrite blen_app; lia|exact Ho].
  - destruct (split_full (fuel_for s) (skipn (Z.to_nat (MAXW - blen buf)) s)) as [recs rem] eqn:E1. simpl.
    assert (Hsk : blen (skipn (Z.to_nat (MAXW - blen buf)) s) = blen s - (MAXW - blen buf)) by (apply blen_skipn; lia).
    destruct (split_full_ok _ _ _ _ E1) as [H1 H2].
    { rewrite Hsk. pose proof (fuel_for_enough s). unfold MAXW in *. lia. }
    split; [exact H1|]. apply Forall_app. split; [exact Ho|]. constructor; [|exact H2].
    unfold rec_ok. rewrite blen_app, blen_firstn by lia. unfold MAXW in *. lia.
Qed.

Lemma w_flush_all w : w_all (w_flush w) = w_all w.
Proof.
  destruct w as [buf out]. unfold w_flush, w_all. destruct buf as [|b buf]; [reflexivity|].
  simpl fst. simpl snd. rewrite concat_app. simpl. rewrite !app_nil_r. reflexivity.
Qed.
Lemma w_flush_ok w : w_ok w -> w_ok (w_flush w) /\ fst (w_flush w) = [].
Proof.
  destruct w as [buf out]. unfold w_ok, w_flush. simpl. intros [Hb Ho].
  destruct buf as [|b buf]; simpl; [split; [split; [unfold MAXW; lia|exact Ho]|reflexivity]|].
  split; [|reflexivity]. split; [unfold blen, MAXW; simpl; lia|].
  apply Forall_app. split; [exact Ho|]. constructor; [|constructor].
  unfold rec_ok. split; [unfold blen; simpl; lia|exact Hb].
Qed.

Lemma pair_step_all st kv : w_all (fst (pair_step st kv)) = w_all (fst st) ++ enc_pair kv.
Proof.
  destruct st as [w nn]. destruct kv as [k v]. unfold pair_step, enc_pair. simpl fst. simpl snd.
  destruct (MAXW <? nn + _); simpl fst; rewrite !w_write_all; try rewrite w_flush_all; rewrite <- !app_assoc; reflexivity.
Qed.
Lemma pair_step_ok st kv : w_ok (fst st) -> w_ok (fst (pair_step st kv)).
Proof.
  destruct st as [w nn]. destruct kv as [k v]. unfold pair_step. simpl fst. intros H.
  destruct (MAXW <? nn + _); simpl fst; repeat apply w_write_ok; try exact H. apply w_flush_ok. exact H.
Qed.

Lemma fold_pairs_all ps : forall st,
  w_all (fst (fold_left pair_step ps st)) = w_all (fst st) ++ concat (map enc_pair ps).
Proof.
  induction ps as [|p ps IH]; intros st; simpl; [rewrite app_nil_r; reflexivity|].
  rewrite IH, pair_step_all, <- app_assoc. reflexivity.
Qed.
Lemma fold_pairs_ok ps : forall st, w_ok (fst st) -> w_ok (fst (fold_left pair_step ps st)).
Proof.
  induction ps as [|p ps IH]; intros st H; simpl; [exact H|]. apply IH. apply pair_step_ok. exact H.
Qed.

(* the params records: non-empty, at most MAXW bytes each, closed by one empty record; they carry exactly the
   concatenation of the encoded pairs *)
Lemma params_records_shape ps : exists recs,
  params_records ps = recs ++ [[]] /\ Forall rec_ok recs /\ concat recs = concat (map enc_pair ps).
Proof.
  unfold params_records.
  destruct (fold_left pair_step ps ([], [], 0)) as [w nn] eqn:E.
  assert (Hall : w_all w = concat (map enc_pair ps)).
  { pose proof (fold_pairs_all ps ([], [], 0)) as H. rewrite E in H. exact H. }
  assert (Hok : w_ok w).
  { pose proof (fold_pairs_ok ps ([], [], 0)) as H. rewrite E in H. apply H. split; [unfold blen, MAXW; simpl; lia|constructor]. }
  exists (snd (w_flush w)). split; [reflexivity|].
  destruct (w_flush_ok w Hok) as [[_ H2] H3]. split; [exact H2|].
  rewrite <- Hall, <- (w_flush_all w). unfold w_all. rewrite H3, app_nil_r. reflexivity.
Qed.

Lemma chunks_shape fuel : forall s, blen s <= (Z.of_nat fuel + 1) * MAXW ->
  Forall rec_ok (chunks fuel s) /\ concat (chunks fuel s) = s.
Proof.
  unfold rec_ok.
  induction fuel as [|f IH]; intros s Hb.
  - destruct s as [|b s]; simpl; [split; [constructor|reflexivity]|].
    assert (E : (blen (b :: s) <=? MAXW) = true) by (unfold MAXW in *; lia). rewrite E.
    split; [constructor; [|constructor]|simpl; rewrite app_nil_r; reflexivity].
    unfold blen in *; simpl in *; unfold MAXW in *; lia.
  - destruct s as [|b s]; [simpl; split; [constructor|reflexivity]|].
    cbn [chunks]. destruct (blen (b :: s) <=? MAXW) eqn:E.
    + split; [constructor; [|constructor]|simpl; rewrite app_nil_r; reflexivity].
      unfold blen in *; simpl in *; unfold MAXW in *; lia.
    + assert (Hs : blen (skipn (Z.to_nat MAXW) (b :: s)) = blen (b :: s) - MAXW) by (apply blen_skipn; unfold MAXW in *; lia).
      destruct (IH (skipn (Z.to_nat MAXW) (b :: s))) as [H1 H2]; [rewrite Hs; unfold MAXW in *; lia|].
      split.
      * constructor; [|exact H1]. rewrite blen_firstn; unfold MAXW in *; lia.
      * cbn [concat]. rewrite H2. apply firstn_skipn.
Qed.
Lemma stdin_records_shape body : exists recs,
  stdin_records body = recs ++ [[]] /\ Forall rec_ok recs /\ concat recs = body.
Proof.
  unfold stdin_records. exists (chunks (fuel_for body) body). split; [reflexivity|].
  apply chunks_shape. apply fuel_for_enough.
Qed.
