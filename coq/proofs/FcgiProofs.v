(* Proofs about model/Fcgi.v *)
From Coq Require Import List ZArith Bool Lia ZifyBool ZifyNat.
From Bfe Require Import lib.Val lib.Bytes model.Fcgi.
Import ListNotations.
Open Scope Z_scope.

Local Arguments Z.mul : simpl never.
Local Arguments Z.add : simpl never.
Local Arguments Z.sub : simpl never.
Local Arguments Z.div : simpl never.
Local Arguments Z.modulo : simpl never.
Local Arguments Z.to_nat : simpl never.
Local Arguments Z.of_nat : simpl never.
Local Arguments MAXW : simpl never.

Lemma blen_app (a b : bytes) : blen (a ++ b) = blen a + blen b.
Proof. unfold blen. rewrite app_length. lia. Qed.
Lemma blen_nonneg (a : bytes) : 0 <= blen a.
Proof. unfold blen. lia. Qed.
Lemma blen_firstn (n : Z) (a : bytes) : 0 <= n <= blen a -> blen (firstn (Z.to_nat n) a) = n.
Proof. unfold blen. intros H. rewrite firstn_length. lia. Qed.
Lemma blen_skipn (n : Z) (a : bytes) : 0 <= n <= blen a -> blen (skipn (Z.to_nat n) a) = blen a - n.
Proof. unfold blen. intros H. rewrite skipn_length. lia. Qed.
Lemma blen_nil_iff (a : bytes) : blen a = 0 <-> a = [].
Proof. unfold blen. destruct a; simpl; split; intros; try reflexivity; try discriminate; lia. Qed.

Ltac pinj H := apply pair_equal_spec in H; destruct H as [? ?]; subst.

(* ---------------- the buffered writer preserves the byte stream and bounds the records ---------------- *)
Definition w_all (w : wst) : bytes := concat (snd w) ++ fst w.
Definition rec_ok (c : bytes) : Prop := 0 < blen c <= MAXW.
Definition w_ok (w : wst) : Prop := blen (fst w) <= MAXW /\ Forall rec_ok (snd w).

Lemma split_full_concat fuel : forall s recs rem, split_full fuel s = (recs, rem) -> concat recs ++ rem = s.
Proof.
  induction fuel as [|f IH]; intros s recs rem H; cbn [split_full] in H.
  - destruct (blen s <=? MAXW); pinj H; reflexivity.
  - destruct (blen s <=? MAXW); [pinj H; reflexivity|].
    destruct (split_full f (skipn (Z.to_nat MAXW) s)) as [r1 m1] eqn:E.
    pinj H. cbn [concat]. rewrite <- app_assoc. rewrite (IH _ _ _ E). apply firstn_skipn.
Qed.

Lemma split_full_ok fuel : forall s recs rem,
  split_full fuel s = (recs, rem) -> blen s <= (Z.of_nat fuel + 1) * MAXW ->
  blen rem <= MAXW /\ Forall rec_ok recs.
Proof.
  unfold rec_ok.
  induction fuel as [|f IH]; intros s recs rem H Hb; cbn [split_full] in H.
  - destruct (blen s <=? MAXW) eqn:E; pinj H; split; try constructor; unfold MAXW in *; lia.
  - destruct (blen s <=? MAXW) eqn:E; [pinj H; split; [lia|constructor]|].
    destruct (split_full f (skipn (Z.to_nat MAXW) s)) as [r1 m1] eqn:E1.
    pinj H.
    assert (Hs : blen (skipn (Z.to_nat MAXW) s) = blen s - MAXW) by (apply blen_skipn; unfold MAXW in *; lia).
    destruct (IH _ _ _ E1) as [H1 H2]; [rewrite Hs; unfold MAXW in *; lia|].
    split; [exact H1|]. constructor; [|exact H2].
    rewrite blen_firstn; unfold MAXW in *; lia.
Qed.

Lemma fuel_for_enough s : blen s <= (Z.of_nat (fuel_for s) + 1) * MAXW.
Proof.
  unfold fuel_for. pose proof (blen_nonneg s) as Hn.
  assert (H : blen s = MAXW * (blen s / MAXW) + blen s mod MAXW) by (apply Z.div_mod; unfold MAXW; lia).
  assert (H2 : 0 <= blen s mod MAXW < MAXW) by (apply Z.mod_pos_bound; unfold MAXW; lia).
  assert (H3 : 0 <= blen s / MAXW) by (apply Z.div_pos; unfold MAXW; lia).
  rewrite Nat2Z.inj_succ, Z2Nat.id by lia. nia.
Qed.

Lemma w_write_all w s : w_all (w_write w s) = w_all w ++ s.
Proof.
  destruct w as [buf out]. unfold w_write, w_all. 
  destruct (blen s <=? MAXW - blen buf) eqn:E; cbn [fst snd].
  - rewrite app_assoc. reflexivity.
  - destruct (split_full (fuel_for s) (skipn (Z.to_nat (MAXW - blen buf)) s)) as [recs rem] eqn:E1. cbn [fst snd].
    apply split_full_concat in E1.
    rewrite !concat_app. cbn [concat]. rewrite app_nil_r. rewrite <- !app_assoc. f_equal. f_equal.
    rewrite E1. apply firstn_skipn.
Qed.

Lemma w_write_ok w s : w_ok w -> w_ok (w_write w s).
Proof.
  destruct w as [buf out]. unfold w_ok, w_write. cbn [fst snd]. intros [Hb Ho].
  pose proof (blen_nonneg buf) as Hn. pose proof (blen_nonneg s) as Hs.
  destruct (blen s <=? MAXW - blen buf) eqn:E; cbn [fst snd].
  - split; [rewrite blen_app; lia|exact Ho].
  - destruct (split_full (fuel_for s) (skipn (Z.to_nat (MAXW - blen buf)) s)) as [recs rem] eqn:E1. cbn [fst snd].
    assert (Hsk : blen (skipn (Z.to_nat (MAXW - blen buf)) s) = blen s - (MAXW - blen buf)) by (apply blen_skipn; lia).
    destruct (split_full_ok _ _ _ _ E1) as [H1 H2].
    { rewrite Hsk. pose proof (fuel_for_enough s). unfold MAXW in *. lia. }
    split; [exact H1|]. apply Forall_app. split; [exact Ho|]. constructor; [|exact H2].
    unfold rec_ok. rewrite blen_app, blen_firstn by lia. unfold MAXW in *. lia.
Qed.

Lemma w_flush_all w : w_all (w_flush w) = w_all w.
Proof.
  destruct w as [buf out]. unfold w_flush, w_all. destruct buf as [|b buf]; [reflexivity|].
  simpl fst. simpl snd. rewrite concat_app. simpl. rewrite !app_nil_r. reflexivity.
Qed.
Lemma w_flush_ok w : w_ok w -> w_ok (w_flush w) /\ fst (w_flush w) = [].
Proof.
  destruct w as [buf out]. unfold w_ok, w_flush. simpl. intros [Hb Ho].
  destruct buf as [|b buf]; simpl; [split; [split; [unfold blen, MAXW; simpl; lia|exact Ho]|reflexivity]|].
  split; [|reflexivity]. split; [unfold blen, MAXW; simpl; lia|].
  apply Forall_app. split; [exact Ho|]. constructor; [|constructor].
  unfold rec_ok. split; [unfold blen; simpl; lia|exact Hb].
Qed.

Lemma pair_step_all st kv : w_all (fst (pair_step st kv)) = w_all (fst st) ++ enc_pair kv.
Proof.
  destruct st as [w nn]. destruct kv as [k v]. unfold pair_step, enc_pair. simpl fst. simpl snd.
  destruct (MAXW <? nn + _); simpl fst; rewrite !w_write_all; try rewrite w_flush_all; rewrite <- !app_assoc; reflexivity.
Qed.
Lemma pair_step_ok st kv : w_ok (fst st) -> w_ok (fst (pair_step st kv)).
Proof.
  destruct st as [w nn]. destruct kv as [k v]. unfold pair_step. simpl fst. intros H.
  destruct (MAXW <? nn + _); simpl fst; repeat apply w_write_ok; try exact H. apply w_flush_ok. exact H.
Qed.

Lemma fold_pairs_all ps : forall st,
  w_all (fst (fold_left pair_step ps st)) = w_all (fst st) ++ concat (map enc_pair ps).
Proof.
  induction ps as [|p ps IH]; intros st; simpl; [rewrite app_nil_r; reflexivity|].
  rewrite IH, pair_step_all, <- app_assoc. reflexivity.
Qed.
Lemma fold_pairs_ok ps : forall st, w_ok (fst st) -> w_ok (fst (fold_left pair_step ps st)).
Proof.
  induction ps as [|p ps IH]; intros st H; simpl; [exact H|]. apply IH. apply pair_step_ok. exact H.
Qed.

(* the params records: non-empty, at most MAXW bytes each, closed by one empty record; they carry exactly the
   concatenation of the encoded pairs *)
Lemma params_records_shape ps : exists recs,
  params_records ps = recs ++ [[]] /\ Forall rec_ok recs /\ concat recs = concat (map enc_pair ps).
Proof.
  unfold params_records.
  destruct (fold_left pair_step ps ([], [], 0)) as [w nn] eqn:E.
  assert (Hall : w_all w = concat (map enc_pair ps)).
  { pose proof (fold_pairs_all ps ([], [], 0)) as H. rewrite E in H. exact H. }
  assert (Hok : w_ok w).
  { pose proof (fold_pairs_ok ps ([], [], 0)) as H. rewrite E in H. apply H. split; [unfold blen, MAXW; simpl; lia|constructor]. }
  exists (snd (w_flush w)). split; [reflexivity|].
  destruct (w_flush_ok w Hok) as [[_ H2] H3]. split; [exact H2|].
  rewrite <- Hall, <- (w_flush_all w). unfold w_all. rewrite H3, app_nil_r. reflexivity.
Qed.

Lemma chunks_shape fuel : forall s, blen s <= (Z.of_nat fuel + 1) * MAXW ->
  Forall rec_ok (chunks fuel s) /\ concat (chunks fuel s) = s.
Proof.
  unfold rec_ok.
  induction fuel as [|f IH]; intros s Hb.
  - destruct s as [|b s]; simpl; [split; [constructor|reflexivity]|].
    assert (E : (blen (b :: s) <=? MAXW) = true) by (unfold MAXW in *; lia). rewrite E.
    split; [constructor; [|constructor]|simpl; rewrite app_nil_r; reflexivity].
    unfold blen in *; simpl in *; unfold MAXW in *; lia.
  - destruct s as [|b s]; [simpl; split; [constructor|reflexivity]|].
    cbn [chunks]. destruct (blen (b :: s) <=? MAXW) eqn:E.
    + split; [constructor; [|constructor]|simpl; rewrite app_nil_r; reflexivity].
      unfold blen in *; simpl in *; unfold MAXW in *; lia.
    + assert (Hs : blen (skipn (Z.to_nat MAXW) (b :: s)) = blen (b :: s) - MAXW) by (apply blen_skipn; unfold MAXW in *; lia).
      destruct (IH (skipn (Z.to_nat MAXW) (b :: s))) as [H1 H2]; [rewrite Hs; unfold MAXW in *; lia|].
      split.
      * constructor; [|exact H1]. rewrite blen_firstn; unfold MAXW in *; lia.
      * cbn [concat]. rewrite H2. apply firstn_skipn.
Qed.
Lemma stdin_records_shape body : exists recs,
  stdin_records body = recs ++ [[]] /\ Forall rec_ok recs /\ concat recs = body.
Proof.
  unfold stdin_records. exists (chunks (fuel_for body) body). split; [reflexivity|].
  apply chunks_shape. apply fuel_for_enough.
Qed.

(* the WriterTo path *)
Lemma chunks_ok s : Forall rec_ok (chunks (fuel_for s) s) /\ concat (chunks (fuel_for s) s) = s.
Proof. apply chunks_shape. apply fuel_for_enough. Qed.

Lemma w_write_b_all w p : w_all (w_write_b w p) = w_all w ++ p.
Proof.
  destruct w as [buf out]. unfold w_write_b, w_all.
  destruct (blen p <=? MAXW - blen buf) eqn:E; cbn [fst snd].
  - rewrite app_assoc. reflexivity.
  - destruct buf as [|b buf].
    + cbn [fst snd]. rewrite concat_app, (proj2 (chunks_ok p)), !app_nil_r. reflexivity.
    + set (bf := b :: buf) in *. set (av := Z.to_nat (MAXW - blen bf)).
      destruct (blen (skipn av p) <=? MAXW); cbn [fst snd].
      * rewrite concat_app. cbn [concat]. rewrite app_nil_r, <- !app_assoc. f_equal. f_equal. apply firstn_skipn.
      * rewrite !concat_app. cbn [concat]. rewrite (proj2 (chunks_ok (skipn av p))), !app_nil_r, <- !app_assoc.
        f_equal. f_equal. apply firstn_skipn.
Qed.

Lemma w_write_b_ok w p : w_ok w -> w_ok (w_write_b w p).
Proof.
  destruct w as [buf out]. unfold w_ok, w_write_b. cbn [fst snd]. intros [Hb Ho].
  pose proof (blen_nonneg buf) as Hn. pose proof (blen_nonneg p) as Hp.
  destruct (blen p <=? MAXW - blen buf) eqn:E; cbn [fst snd].
  - split; [rewrite blen_app; lia|exact Ho].
  - destruct buf as [|b buf].
    + cbn [fst snd]. split; [unfold blen, MAXW; cbn [length]; lia|].
      apply Forall_app. split; [exact Ho|apply chunks_ok].
    + set (bf := b :: buf) in *. set (av := MAXW - blen bf).
      assert (Hbf : 0 < blen bf) by (unfold bf, blen; cbn [length]; lia).
      assert (Hsk : blen (skipn (Z.to_nat av) p) = blen p - av) by (apply blen_skipn; unfold av; lia).
      assert (Hrec : rec_ok (bf ++ firstn (Z.to_nat av) p)).
      { unfold rec_ok. rewrite blen_app, blen_firstn by (unfold av; lia). unfold av, MAXW in *. lia. }
      destruct (blen (skipn (Z.to_nat av) p) <=? MAXW) eqn:E2; cbn [fst snd].
      * split; [lia|]. apply Forall_app. split; [exact Ho|constructor; [exact Hrec|constructor]].
      * split; [unfold blen, MAXW; cbn [length]; lia|].
        apply Forall_app. split; [apply Forall_app; split; [exact Ho|constructor; [exact Hrec|constructor]]|apply chunks_ok].
Qed.

Lemma fold_write_b ps : forall w, w_ok w ->
  w_ok (fold_left w_write_b ps w) /\ w_all (fold_left w_write_b ps w) = w_all w ++ concat ps.
Proof.
  induction ps as [|p ps IH]; intros w H; cbn [fold_left concat]; [rewrite app_nil_r; auto|].
  destruct (IH (w_write_b w p) (w_write_b_ok w p H)) as [H1 H2].
  split; [exact H1|]. rewrite H2, w_write_b_all, <- app_assoc. reflexivity.
Qed.

Lemma pieces_concat fuel : forall k s, concat (pieces fuel k s) = s.
Proof.
  induction fuel as [|f IH]; intros k s; destruct s as [|b s]; cbn [pieces]; try reflexivity.
  - destruct (blen (b :: s) <=? k); cbn [concat]; apply app_nil_r.
  - destruct (blen (b :: s) <=? k); [cbn [concat]; apply app_nil_r|].
    cbn [concat]. rewrite IH. apply firstn_skipn.
Qed.
Lemma pieces_of_concat k body : concat (pieces_of k body) = body.
Proof.
  unfold pieces_of. destruct (k <=? 0); [destruct body; cbn [concat]; [reflexivity|apply app_nil_r]|apply pieces_concat].
Qed.

Lemma stdin_records_m_shape bc body : exists recs,
  stdin_records_m bc body = recs ++ [[]] /\ Forall rec_ok recs /\ concat recs = body.
Proof.
  unfold stdin_records_m. destruct (0 <? bc); [apply stdin_records_shape|].
  unfold stdin_records_w.
  assert (H0 : w_ok ([], [])) by (split; [unfold blen, MAXW; cbn [fst length]; lia|constructor]).
  destruct (fold_write_b (pieces_of (- bc) body) ([], []) H0) as [H1 H2].
  set (w := fold_left w_write_b (pieces_of (- bc) body) ([], [])) in *.
  exists (snd (w_flush w)). split; [reflexivity|].
  destruct (w_flush_ok w H1) as [[_ H3] H4]. split; [exact H3|].
  rewrite <- (pieces_of_concat (- bc) body). unfold w_all in H2 at 2. cbn [fst snd concat app] in H2.
  rewrite <- H2, <- (w_flush_all w). unfold w_all. rewrite H4, app_nil_r. reflexivity.
Qed.

(* ---------------- records written by the client decode with the specification's record decoder ---------------- *)
Lemma clen_roundtrip len : 0 <= len <= 65535 -> (len / 256) mod 256 * 256 + len mod 256 = len.
Proof.
  intros H. pose proof (Z.div_mod len 256 ltac:(lia)) as H1. pose proof (Z.mod_pos_bound len 256 ltac:(lia)) as H2.
  rewrite (Z.mod_small (len / 256)); [lia|]. split; [apply Z.div_pos; lia|apply Z.div_lt_upper_bound; lia].
Qed.
Lemma pad_of_bound len : 0 <= pad_of len < 8.
Proof. unfold pad_of. apply Z.mod_pos_bound. lia. Qed.

Lemma blen_cons8 (a b c d e f g h : Z) (r : bytes) : blen (a :: b :: c :: d :: e :: f :: g :: h :: r) = 8 + blen r.
Proof. unfold blen. cbn [length]. lia. Qed.

Lemma dec_records_step f t i1 i0 c1 c0 p r rest :
  c1 * 256 + c0 + p <= blen rest ->
  dec_records (S f) (1 :: t :: i1 :: i0 :: c1 :: c0 :: p :: r :: rest) =
  (let '(l, ok) := dec_records f (skipn (Z.to_nat (c1 * 256 + c0 + p)) rest) in
   (mkRec t (i1 * 256 + i0) (firstn (Z.to_nat (c1 * 256 + c0)) rest) :: l, ok)).
Proof.
  intros H. cbn [dec_records nth skipn]. rewrite blen_cons8.
  pose proof (blen_nonneg rest) as Hn.
  replace (8 + blen rest <? 8) with false by lia.
  replace (1 =? 1) with true by reflexivity. cbn [negb].
  replace (blen rest <? c1 * 256 + c0 + p) with false by lia. reflexivity.
Qed.

Lemma blen_repeat0 n : blen (repeat 0 n) = Z.of_nat n.
Proof. unfold blen. rewrite repeat_length. reflexivity. Qed.

Lemma skipn_app_exact (a b : bytes) n : skipn (length a + n) (a ++ b) = skipn n b.
Proof. induction a as [|x a IH]; [reflexivity|]. cbn [length plus app skipn]. exact IH. Qed.
Lemma firstn_app_exact (a b : bytes) : firstn (length a) (a ++ b) = a.
Proof. induction a as [|x a IH]; [reflexivity|]. cbn [length app firstn]. rewrite IH. reflexivity. Qed.
Lemma skipn_repeat_app n (s : bytes) : skipn n (repeat 0 n ++ s) = s.
Proof. induction n as [|n IH]; [reflexivity|]. cbn [repeat app skipn]. exact IH. Qed.

Lemma dec_records_enc_one f typ c s : blen c <= 65535 ->
  dec_records (S f) (enc_record typ c ++ s) =
  (let '(l, ok) := dec_records f s in (mkRec typ 1 c :: l, ok)).
Proof.
  intros Hc. unfold enc_record. pose proof (blen_nonneg c) as Hn. pose proof (pad_of_bound (blen c)) as Hp.
  cbn [app]. rewrite <- app_assoc.
  rewrite dec_records_step.
  - rewrite clen_roundtrip by lia.
    assert (E1 : Z.to_nat (blen c + pad_of (blen c)) = (length c + Z.to_nat (pad_of (blen c)))%nat) by (unfold blen in *; lia).
    assert (E2 : Z.to_nat (blen c) = length c) by (unfold blen; lia).
    rewrite E1, E2, skipn_app_exact, skipn_repeat_app, firstn_app_exact. reflexivity.
  - rewrite clen_roundtrip by lia. rewrite !blen_app, blen_repeat0. pose proof (blen_nonneg s). lia.
Qed.

Definition mk_recs (typ : Z) (cs : list bytes) : list frec := map (fun c => mkRec typ 1 c) cs.

Lemma dec_records_enc_list typ cs : Forall (fun c => blen c <= 65535) cs -> forall f s,
  dec_records (length cs + f) (concat (map (enc_record typ) cs) ++ s) =
  (let '(l, ok) := dec_records f s in (mk_recs typ cs ++ l, ok)).
Proof.
  induction 1 as [|c cs Hc _ IH]; intros f s.
  - cbn [length map concat app plus mk_recs]. destruct (dec_records f s); reflexivity.
  - cbn [length map concat plus mk_recs]. rewrite <- app_assoc. rewrite dec_records_enc_one by exact Hc.
    rewrite IH. destruct (dec_records f s). reflexivity.
Qed.

(* a complete decoding is stable under more fuel *)
Lemma dec_records_mono f : forall s l, dec_records f s = (l, true) -> forall g, (f <= g)%nat -> dec_records g s = (l, true).
Proof.
  induction f as [|f IH]; intros s l H g Hg.
  - cbn [dec_records] in H. discriminate.
  - destruct g as [|g]; [lia|].
    destruct s as [|b s]; [exact H|].
    cbn [dec_records] in *.
    destruct (blen (b :: s) <? 8); [discriminate|].
    destruct (negb (nth 0 (b :: s) 0 =? 1)); [discriminate|].
    destruct (blen (skipn 8 (b :: s)) <? _); [discriminate|].
    destruct (dec_records f _) as [l' ok'] eqn:E.
    apply pair_equal_spec in H. destruct H as [H1 H2]. subst ok'.
    rewrite (IH _ _ E g) by lia. rewrite H1. reflexivity.
Qed.

Lemma blen_enc_record t c : 8 <= blen (enc_record t c).
Proof. unfold enc_record. cbn [app]. rewrite blen_cons8. pose proof (blen_nonneg (c ++ repeat 0 (Z.to_nat (pad_of (blen c))))). lia. Qed.
Lemma blen_enc_records t cs : 8 * Z.of_nat (length cs) <= blen (concat (map (enc_record t) cs)).
Proof.
  induction cs as [|c cs IH]; [unfold blen; cbn [length map concat]; lia|].
  cbn [length map concat]. rewrite blen_app. pose proof (blen_enc_record t c). lia.
Qed.

(* ---------------- streams ---------------- *)
Lemma take_stream_ok typ recs rest : Forall rec_ok recs ->
  take_stream typ (mk_recs typ (recs ++ [[]]) ++ rest) = Some (concat recs, rest).
Proof.
  induction 1 as [|c recs Hc _ IH].
  - cbn [app mk_recs map take_stream f_type f_content]. rewrite Z.eqb_refl. reflexivity.
  - cbn [app mk_recs map take_stream f_type f_content concat]. rewrite Z.eqb_refl. cbn [negb].
    destruct c as [|x c]; [unfold rec_ok, blen in Hc; cbn [length] in Hc; lia|].
    unfold mk_recs in IH. rewrite IH. reflexivity.
Qed.

(* ---------------- name-value pairs ---------------- *)
Lemma dec_size_enc n r : 0 <= n < 2^31 -> dec_size (enc_size n ++ r) = Some (n, r).
Proof.
  intros H. unfold enc_size. destruct (n <=? 127) eqn:E.
  - cbn [app dec_size]. replace (n <? 128) with true by lia. reflexivity.
  - cbn [app dec_size].
    assert (H1 : 0 <= n / 16777216 < 128) by (split; [apply Z.div_pos; lia|apply Z.div_lt_upper_bound; lia]).
    rewrite (Z.mod_small (n / 16777216) 128) by lia.
    replace (n / 16777216 + 128 <? 128) with false by lia.
    f_equal. f_equal.
    pose proof (Z.div_mod n 256 ltac:(lia)) as D0. pose proof (Z.mod_pos_bound n 256 ltac:(lia)) as B0.
    pose proof (Z.div_mod (n / 256) 256 ltac:(lia)) as D1. pose proof (Z.mod_pos_bound (n / 256) 256 ltac:(lia)) as B1.
    pose proof (Z.div_mod (n / 256 / 256) 256 ltac:(lia)) as D2. pose proof (Z.mod_pos_bound (n / 256 / 256) 256 ltac:(lia)) as B2.
    rewrite !Z.div_div in D1, D2, B2 by lia. rewrite !Z.div_div in D2 by lia.
    change (256 * 256) with 65536 in *. change (65536 * 256) with 16777216 in *.
    lia.
Qed.

Lemma enc_size_nonempty n : exists b t, enc_size n = b :: t.
Proof. unfold enc_size. destruct (n <=? 127); eauto. Qed.

Lemma skipn_app_exact0 (a b : bytes) : skipn (length a) (a ++ b) = b.
Proof. rewrite <- (Nat.add_0_r (length a)). apply skipn_app_exact. Qed.

Lemma dec_pairs_step f k v rest : blen k < 2^31 -> blen v < 2^31 ->
  dec_pairs (S f) (enc_pair (k, v) ++ rest) =
  match dec_pairs f rest with None => None | Some l => Some ((k, v) :: l) end.
Proof.
  intros Hk Hv. pose proof (blen_nonneg k) as Hk0. pose proof (blen_nonneg v) as Hv0.
  unfold enc_pair. cbn [fst snd]. rewrite <- !app_assoc.
  cbn [dec_pairs].
  destruct (enc_size (blen k) ++ enc_size (blen v) ++ k ++ v ++ rest) as [|b0 s0] eqn:E0.
  { destruct (enc_size_nonempty (blen k)) as (b & t & E). rewrite E in E0. discriminate. }
  rewrite <- E0. rewrite dec_size_enc by lia. rewrite dec_size_enc by lia.
  rewrite !blen_app. pose proof (blen_nonneg rest).
  replace (blen k + (blen v + blen rest) <? blen k + blen v) with false by lia.
  assert (E1 : Z.to_nat (blen k + blen v) = (length k + length v)%nat) by (unfold blen; lia).
  assert (E2 : Z.to_nat (blen k) = length k) by (unfold blen; lia).
  assert (E3 : Z.to_nat (blen v) = length v) by (unfold blen; lia).
  rewrite E1, E2, E3, skipn_app_exact, !skipn_app_exact0, !firstn_app_exact. reflexivity.
Qed.

Definition pairs_wf (ps : list (bytes * bytes)) : Prop :=
  Forall (fun kv => blen (fst kv) < 2^31 /\ blen (snd kv) < 2^31) ps.

Lemma dec_pairs_enc ps : pairs_wf ps -> forall f, (length ps <= f)%nat ->
  dec_pairs f (concat (map enc_pair ps)) = Some ps.
Proof.
  induction 1 as [|[k v] ps [Hk Hv] _ IH]; intros f Hf.
  - destruct f; reflexivity.
  - destruct f as [|f]; [cbn [length] in Hf; lia|].
    cbn [map concat]. cbn [fst snd] in Hk, Hv. rewrite dec_pairs_step by assumption.
    rewrite IH by (cbn [length] in Hf; lia). reflexivity.
Qed.

Lemma pairs_len_le ps : (length ps <= length (concat (map enc_pair ps)))%nat.
Proof.
  induction ps as [|[k v] ps IH]; [cbn; lia|].
  cbn [map concat length]. rewrite app_length. unfold enc_pair at 1. cbn [fst snd]. rewrite app_length.
  destruct (enc_size_nonempty (blen k)) as (b & t & E). rewrite E. cbn [length]. lia.
Qed.

Lemma spec_pairs_enc ps : pairs_wf ps -> spec_pairs (concat (map enc_pair ps)) = Some ps.
Proof. intros H. unfold spec_pairs. apply dec_pairs_enc; [exact H|]. pose proof (pairs_len_le ps). lia. Qed.

(* ---------------- the request round trip ---------------- *)
Lemma rec_ok_le c : rec_ok c -> blen c <= 65535.
Proof. unfold rec_ok, MAXW. lia. Qed.
Lemma Forall_rec_le (l : list bytes) : Forall rec_ok l -> Forall (fun c => blen c <= 65535) (l ++ [[]]).
Proof.
  intros H. apply Forall_app. split.
  - eapply Forall_impl; [|exact H]. intros c. apply rec_ok_le.
  - constructor; [unfold blen; cbn [length]; lia|constructor].
Qed.
Lemma forallb_mk_recs typ cs : forallb (fun r => f_id r =? 1) (mk_recs typ cs) = true.
Proof. induction cs as [|c cs IH]; [reflexivity|]. cbn [mk_recs map forallb f_id]. exact IH. Qed.

Theorem request_roundtrip bc ps body : pairs_wf ps -> spec_request (do_written bc ps body) = Some (ps, body).
Proof.
  intros Hwf.
  destruct (params_records_shape ps) as (P & EP & HP & CP).
  destruct (stdin_records_m_shape bc body) as (S0 & ES & HS & CS).
  unfold spec_request, spec_records, do_written. rewrite EP, ES.
  set (w := enc_record T_BEGIN [0; 1; 0; 0; 0; 0; 0; 0] ++
            concat (map (enc_record T_PARAMS) (P ++ [[]])) ++ concat (map (enc_record T_STDIN) (S0 ++ [[]]))).
  set (N := S (length (P ++ [[]]) + (length (S0 ++ [[]]) + 1))).
  assert (HN : dec_records N w =
               (mkRec T_BEGIN 1 [0; 1; 0; 0; 0; 0; 0; 0] :: mk_recs T_PARAMS (P ++ [[]]) ++ mk_recs T_STDIN (S0 ++ [[]]) ++ [], true)).
  { unfold N, w. rewrite dec_records_enc_one by (unfold blen; cbn [length]; lia).
    rewrite dec_records_enc_list by (apply Forall_rec_le; exact HP).
    rewrite <- (app_nil_r (concat (map (enc_record T_STDIN) (S0 ++ [[]])))).
    rewrite dec_records_enc_list by (apply Forall_rec_le; exact HS).
    reflexivity. }
  rewrite (dec_records_mono N w _ HN).
  2:{ unfold resp_fuel, N, w. rewrite !blen_app.
      pose proof (blen_enc_record T_BEGIN [0; 1; 0; 0; 0; 0; 0; 0]) as B1.
      pose proof (blen_enc_records T_PARAMS (P ++ [[]])) as B2.
      pose proof (blen_enc_records T_STDIN (S0 ++ [[]])) as B3.
      set (x1 := blen (enc_record T_BEGIN [0; 1; 0; 0; 0; 0; 0; 0])) in *.
      set (x2 := blen (concat (map (enc_record T_PARAMS) (P ++ [[]])))) in *.
      set (x3 := blen (concat (map (enc_record T_STDIN) (S0 ++ [[]])))) in *.
      clearbody x1 x2 x3. unfold bytes in *.
      assert (Hd : 1 + Z.of_nat (length (P ++ [[]])) + Z.of_nat (length (S0 ++ [[]])) <= (x1 + (x2 + x3)) / 8) by (apply Z.div_le_lower_bound; lia).
      set (q := (x1 + (x2 + x3)) / 8) in *. clearbody q. lia. }
  rewrite app_nil_r.
  cbn [f_type f_content]. replace (T_BEGIN =? T_BEGIN) with true by reflexivity.
  replace (bytes_eqb [0; 1; 0; 0; 0; 0; 0; 0] [0; 1; 0; 0; 0; 0; 0; 0]) with true by reflexivity.
  cbn [andb forallb f_id]. rewrite forallb_app, !forallb_mk_recs. cbn [andb].
  replace (1 =? 1) with true by reflexivity. cbn [andb].
  rewrite take_stream_ok by exact HP.
  rewrite <- (app_nil_r (mk_recs T_STDIN (S0 ++ [[]]))).
  rewrite take_stream_ok by exact HS.
  rewrite CP, CS, spec_pairs_enc by exact Hwf. reflexivity.
Qed.

(* every record the client writes carries at most 65500 (< 65535) bytes *)
Theorem records_bounded bc ps body :
  Forall (fun c => blen c <= MAXW) (params_records ps ++ stdin_records_m bc body).
Proof.
  destruct (params_records_shape ps) as (P & EP & HP & _).
  destruct (stdin_records_m_shape bc body) as (S0 & ES & HS & _).
  rewrite EP, ES. 
  assert (Hnil : Forall (fun c : bytes => blen c <= MAXW) [[]]) by (constructor; [unfold blen, MAXW; cbn [length]; lia|constructor]).
  repeat (apply Forall_app; split); try exact Hnil;
    (eapply Forall_impl; [|eassumption]; intros c Hc; unfold rec_ok in Hc; lia).
Qed.

(* ---------------- the response reader ---------------- *)
Lemma read_stream_spec f : forall resp acc,
  fst (read_stream f resp acc) = acc ++ concat (map f_content (before_end (fst (dec_records f resp)))).
Proof.
  induction f as [|f IH]; intros resp acc.
  - cbn [read_stream dec_records fst before_end map concat]. rewrite app_nil_r. reflexivity.
  - destruct resp as [|b resp]; [cbn [read_stream dec_records fst before_end map concat]; rewrite app_nil_r; reflexivity|].
    cbn [read_stream dec_records].
    destruct (blen (b :: resp) <? 8); [cbn [fst before_end map concat]; rewrite app_nil_r; reflexivity|].
    destruct (negb (nth 0 (b :: resp) 0 =? 1)); [cbn [fst before_end map concat]; rewrite app_nil_r; reflexivity|].
    set (clen := nth 4 (b :: resp) 0 * 256 + nth 5 (b :: resp) 0).
    set (pad := nth 6 (b :: resp) 0).
    set (rest := skipn 8 (b :: resp)).
    destruct (nth 1 (b :: resp) 0 =? T_END) eqn:Et.
    + cbn [fst]. destruct (blen rest <? clen + pad); [cbn [fst before_end map concat]; rewrite app_nil_r; reflexivity|].
      destruct (dec_records f _) as [l ok]. cbn [fst before_end f_type]. rewrite Et. cbn [map concat]. rewrite app_nil_r. reflexivity.
    + destruct ((0 <? clen + pad) && (blen rest =? 0)) eqn:E0.
      * assert (E1 : (blen rest <? clen + pad) = true) by lia. rewrite E1.
        cbn [fst before_end map concat]. rewrite app_nil_r. reflexivity.
      * destruct (blen rest <? clen + pad); [cbn [fst before_end map concat]; rewrite app_nil_r; reflexivity|].
        rewrite IH. destruct (dec_records f _) as [l ok]. cbn [fst before_end f_type]. rewrite Et.
        cbn [map concat f_content]. rewrite <- app_assoc. reflexivity.
Qed.

Lemma read_stream_end f : forall resp acc,
  existsb (fun r => f_type r =? T_END) (fst (dec_records f resp)) = true -> snd (read_stream f resp acc) = 0.
Proof.
  induction f as [|f IH]; intros resp acc H.
  - cbn [dec_records fst existsb] in H. discriminate.
  - destruct resp as [|b resp]; [cbn [dec_records fst existsb] in H; discriminate|].
    cbn [read_stream dec_records] in *.
    destruct (blen (b :: resp) <? 8); [cbn [fst existsb] in H; discriminate|].
    destruct (negb (nth 0 (b :: resp) 0 =? 1)); [cbn [fst existsb] in H; discriminate|].
    set (clen := nth 4 (b :: resp) 0 * 256 + nth 5 (b :: resp) 0) in *.
    set (pad := nth 6 (b :: resp) 0) in *.
    set (rest := skipn 8 (b :: resp)) in *.
    destruct (nth 1 (b :: resp) 0 =? T_END) eqn:Et; [reflexivity|].
    destruct ((0 <? clen + pad) && (blen rest =? 0)); [reflexivity|].
    destruct (blen rest <? clen + pad); [cbn [fst existsb] in H; discriminate|].
    apply IH. destruct (dec_records f _) as [l ok]. cbn [fst existsb f_type] in H. rewrite Et in H. exact H.
Qed.

Lemma concat_stdout_only (l : list frec) :
  existsb (fun r => negb (f_type r =? T_STDOUT) && negb (blen (f_content r) =? 0)) l = false ->
  concat (map f_content l) = concat (map f_content (filter (fun r => f_type r =? T_STDOUT) l)).
Proof.
  induction l as [|r l IH]; intros H; [reflexivity|].
  cbn [existsb] in H. apply orb_false_iff in H. destruct H as [H1 H2].
  cbn [map concat filter]. destruct (f_type r =? T_STDOUT) eqn:E.
  - cbn [map concat]. rewrite IH by exact H2. reflexivity.
  - cbn [negb andb] in H1. assert (Hz : blen (f_content r) = 0) by lia.
    apply blen_nil_iff in Hz. rewrite Hz. cbn [app]. apply IH. exact H2.
Qed.

(* the response stream is the STDOUT content, provided no other record carries content *)
Theorem stdout_only_partial resp :
  has_other_content resp = false -> fst (client_stream resp) = spec_stdout resp.
Proof.
  intros H. unfold client_stream. rewrite read_stream_spec. cbn [app].
  unfold spec_stdout, reply_records, spec_records. apply concat_stdout_only. exact H.
Qed.
Theorem end_request_eof resp :
  existsb (fun r => f_type r =? T_END) (fst (spec_records resp)) = true -> snd (client_stream resp) = 0.
Proof. intros H. unfold client_stream. apply read_stream_end. exact H. Qed.

(* ... and this is false in general: "ok" on STDOUT, "ERR" on STDERR *)
Definition stderr_witness : bytes :=
  [1;6;0;1;0;2;0;0;111;107; 1;7;0;1;0;3;0;0;69;82;82; 1;6;0;1;0;0;0;0; 1;3;0;1;0;8;0;0;0;0;0;0;0;0;0;0].
Lemma stdout_only_refuted_lemma :
  exists resp, spec_stdout resp = [111; 107] /\ fst (client_stream resp) = [111; 107; 69; 82; 82] /\ has_other_content resp = true.
Proof. exists stderr_witness. vm_compute. repeat split. Qed.

(* ---------------- the executable property holds of the model outside the finding class ---------------- *)
From Bfe Require Import run.RunC55.

Definition in_C55 (ps : list (bytes * bytes)) (body : bytes) (bc : Z) (resp : bytes) : val :=
  VL [VL (map (fun kv => VL [VB (fst kv); VB (snd kv)]) ps); VB body; VZ bc; VB resp].

Lemma dec_in_C55 ps body bc resp : dec_C55 (in_C55 ps body bc resp) = Some (ps, body, resp).
Proof.
  unfold in_C55, dec_C55.
  assert (H : all_some (map dec_pair (map (fun kv => VL [VB (fst kv); VB (snd kv)]) ps)) = Some ps).
  { induction ps as [|[k v] ps IH]; [reflexivity|]. cbn [map dec_pair fst snd all_some]. rewrite IH. reflexivity. }
  rewrite H. reflexivity.
Qed.

Lemma bytes_eqb_refl (a : bytes) : bytes_eqb a a = true.
Proof. apply bytes_eqb_eq. reflexivity. Qed.
Lemma same_pairs_refl l : same_pairs l l = true.
Proof.
  unfold same_pairs. rewrite Nat.eqb_refl. cbn [andb].
  assert (H : forallb (fun x => existsb (pair_eqb x) l) l = true).
  { apply forallb_forall. intros x Hx. apply existsb_exists. exists x. split; [exact Hx|].
    unfold pair_eqb. rewrite !bytes_eqb_refl. reflexivity. }
  rewrite H. reflexivity.
Qed.

Theorem prop_C55_of_model ps body bc resp :
  pairs_wf ps -> kf_C55 (in_C55 ps body bc resp) = 0 ->
  prop_C55 (in_C55 ps body bc resp) (run_C55 (in_C55 ps body bc resp)) = true.
Proof.
  intros Hwf Hkf. unfold kf_C55 in Hkf. unfold run_C55, prop_C55. rewrite dec_in_C55 in *.
  unfold out_C55. destruct (client_stream resp) as [st code] eqn:Ec.
  match goal with |- bad_input ?o || _ = true => assert (Hb : bad_input o = false) by reflexivity end.
  rewrite Hb. cbn [orb].
  rewrite request_roundtrip by exact Hwf. rewrite same_pairs_refl, bytes_eqb_refl. cbn [andb].
  destruct (has_other_content resp) eqn:Eo; [discriminate|].
  pose proof (stdout_only_partial resp Eo) as Hs. rewrite Ec in Hs. cbn [fst] in Hs. rewrite Hs, bytes_eqb_refl. cbn [andb].
  destruct (has_end resp) eqn:Ee; [|reflexivity].
  pose proof (end_request_eof resp Ee) as He. rewrite Ec in He. cbn [snd] in He. rewrite He. reflexivity.
Qed.

Lemma nonvacuous_lemma :
  let ps := [([72; 79; 83; 84], [97]); ([81], repeat 7 200)] in
  pairs_wf ps /\ kf_C55 (in_C55 ps [1; 2; 3] 7 [1;6;0;1;0;2;0;0;111;107; 1;3;0;1;0;8;0;0;0;0;0;0;0;0;0;0]) = 0
  /\ run_C55 (in_C55 ps [1; 2; 3] 7 [1;6;0;1;0;2;0;0;111;107; 1;3;0;1;0;8;0;0;0;0;0;0;0;0;0;0]) <> VErr 0.
Proof.
  cbv zeta. split; [|split].
  - repeat constructor; vm_compute; reflexivity.
  - vm_compute. reflexivity.
  - vm_compute. discriminate.
Qed.

Corollary pairs_roundtrip bc ps body : pairs_wf ps -> option_map fst (spec_request (do_written bc ps body)) = Some ps.
Proof. intros H. rewrite request_roundtrip by exact H. reflexivity. Qed.
Corollary body_roundtrip bc ps body : pairs_wf ps -> option_map snd (spec_request (do_written bc ps body)) = Some body.
Proof. intros H. rewrite request_roundtrip by exact H. reflexivity. Qed.

(* ---------------- central theorem for arbitrary inputs (op 1 and op 2) ---------------- *)
Lemma sizes_ok_wf ps : sizes_ok ps = true -> pairs_wf ps.
Proof.
  unfold sizes_ok, pairs_wf. intros H. apply Forall_forall. intros kv Hin.
  rewrite forallb_forall in H. specialize (H kv Hin). lia.
Qed.

(* the keys of a header map built with h_add / h_set stay distinct *)
Lemma h_add_keys m k v x : In x (map fst (h_add m k v)) -> x = k \/ In x (map fst m).
Proof.
  induction m as [|[k' vs] m IH]; cbn [h_add map fst In]; [intros [H|[]]; auto|].
  destruct (bytes_eqb k k'); cbn [map fst In]; intros [H|H]; auto. destruct (IH H); auto.
Qed.
Lemma h_set_keys m k v x : In x (map fst (h_set m k v)) -> x = k \/ In x (map fst m).
Proof.
  induction m as [|[k' vs] m IH]; cbn [h_set map fst In]; [intros [H|[]]; auto|].
  destruct (bytes_eqb k k'); cbn [map fst In]; intros [H|H]; auto. destruct (IH H); auto.
Qed.
Lemma h_add_nodup m k v : NoDup (map fst m) -> NoDup (map fst (h_add m k v)).
Proof.
  induction m as [|[k' vs] m IH]; intros H; cbn [h_add map fst]; [constructor; [intros []|constructor]|].
  inversion H as [|? ? Hn Hd]; subst. destruct (bytes_eqb k k') eqn:E; cbn [map fst]; constructor; auto.
  intros Hin. destruct (h_add_keys _ _ _ _ Hin) as [->|Hin']; [|contradiction].
  rewrite bytes_eqb_refl in E. discriminate.
Qed.
Lemma h_set_nodup m k v : NoDup (map fst m) -> NoDup (map fst (h_set m k v)).
Proof.
  induction m as [|[k' vs] m IH]; intros H; cbn [h_set map fst]; [constructor; [intros []|constructor]|].
  inversion H as [|? ? Hn Hd]; subst. destruct (bytes_eqb k k') eqn:E; cbn [map fst]; constructor; auto.
  intros Hin. destruct (h_set_keys _ _ _ _ Hin) as [->|Hin']; [|contradiction].
  rewrite bytes_eqb_refl in E. discriminate.
Qed.
Lemma fold_add_nodup {X} (f : X -> bytes) (g : X -> bytes) l : forall m,
  NoDup (map fst m) -> NoDup (map fst (fold_left (fun m kv => h_add m (f kv) (g kv)) l m)).
Proof. induction l as [|x l IH]; intros m H; cbn [fold_left]; [exact H|]. apply IH. apply h_add_nodup. exact H. Qed.
Lemma fold_set_nodup {X} (f : X -> bytes) (g : X -> bytes) l : forall m,
  NoDup (map fst m) -> NoDup (map fst (fold_left (fun m kv => h_set m (f kv) (g kv)) l m)).
Proof. induction l as [|x l IH]; intros m H; cbn [fold_left]; [exact H|]. apply IH. apply h_set_nodup. exact H. Qed.

Lemma meta_header_nodup q : NoDup (map fst (meta_header q)).
Proof.
  unfold meta_header. destruct (remote_ip_port (q_remote q)) as [ip port].
  destruct (match split_host_port (q_host q) with Some hp => hp | None => (q_host q, []) end) as [rhost rport].
  cbv zeta. unfold A.
  repeat first [apply h_set_nodup | apply h_add_nodup | apply fold_add_nodup | apply fold_set_nodup].
  constructor.
Qed.

Lemma nodup_distinct (l : list (bytes * bytes)) : NoDup (map fst l) -> distinct_keys l = true.
Proof.
  induction l as [|[k v] l IH]; intros H; [reflexivity|]. cbn [map fst] in H. inversion H as [|? ? Hn Hd]; subst.
  cbn [distinct_keys]. rewrite (IH Hd), andb_true_r.
  destruct (existsb (fun kv => bytes_eqb k (fst kv)) l) eqn:E; [|reflexivity].
  exfalso. apply Hn. apply existsb_exists in E. destruct E as (kv & Hin & He).
  apply bytes_eqb_eq in He. subst. apply in_map. exact Hin.
Qed.
Lemma meta_pairs_distinct q : distinct_keys (meta_pairs q) = true.
Proof.
  apply nodup_distinct. unfold meta_pairs. rewrite map_map. cbn [fst]. apply meta_header_nodup.
Qed.

Theorem central_C55 i : wf_C55 i = true -> kf_C55 i = 0 -> prop_C55 i (run_C55 i) = true.
Proof.
  unfold wf_C55, kf_C55. intros Hwf Hkf.
  destruct (dec_C55 i) as [[[ps body] resp]|] eqn:Hd.
  - (* op 1 *)
    apply andb_true_iff in Hwf. destruct Hwf as [Hsz _]. pose proof (sizes_ok_wf _ Hsz) as Hp.
    unfold run_C55, prop_C55. rewrite Hd. unfold out_C55. destruct (client_stream resp) as [st code] eqn:Ec.
    match goal with |- bad_input ?o || _ = true => assert (Hb : bad_input o = false) by reflexivity end.
    rewrite Hb. cbn [orb].
    rewrite request_roundtrip by exact Hp. rewrite same_pairs_refl, bytes_eqb_refl. cbn [andb].
    destruct (has_other_content resp) eqn:Eo; [discriminate|].
    pose proof (stdout_only_partial resp Eo) as Hs. rewrite Ec in Hs. cbn [fst] in Hs. rewrite Hs, bytes_eqb_refl. cbn [andb].
    destruct (has_end resp) eqn:Ee; [|reflexivity].
    pose proof (end_request_eof resp Ee) as He. rewrite Ec in He. cbn [snd] in He. rewrite He. reflexivity.
  - (* op 2 *)
    destruct (dec2_C55 i) as [[[q body] resp]|] eqn:Hd2; [|discriminate].
    apply andb_true_iff in Hwf. destruct Hwf as [Hwf Hrep]. apply andb_true_iff in Hwf. destruct Hwf as [Hsz Hmeta].
    pose proof (sizes_ok_wf _ Hsz) as Hp.
    unfold run_C55, prop_C55. rewrite Hd, Hd2. unfold out2_C55.
    destruct (client_stream resp) as [st code] eqn:Ec.
    destruct (parse_reply st code) as [[[[rterr status] rtext] rbody]|] eqn:Epr; [|discriminate].
    match goal with |- bad_input ?o || _ = true => assert (Hb : bad_input o = false) by reflexivity; rewrite Hb end.
    cbn [orb].
    rewrite request_roundtrip by exact Hp. rewrite bytes_eqb_refl. cbn [andb].
    unfold meta_ok in Hmeta. rewrite Hmeta, meta_pairs_distinct. cbn [andb].
    destruct (has_end resp) eqn:Ee; [|reflexivity].
    destruct (has_other_content resp) eqn:Eo; [discriminate|].
    pose proof (stdout_only_partial resp Eo) as Hs. rewrite Ec in Hs. cbn [fst] in Hs.
    pose proof (end_request_eof resp Ee) as He. rewrite Ec in He. cbn [snd] in He.
    subst st code. rewrite Epr. rewrite !Z.eqb_refl, !bytes_eqb_refl. cbn [andb].
    destruct (rterr =? 0); reflexivity.
Qed.

Definition ex_op2 : val :=
  VL [VZ 2; VB [71;69;84]; VB [104;116;116;112]; VB [104;58;56;48]; VB [49;46;50;46;51;46;52;58;53]; VB [47;97]; VB [];
      VB [72;84;84;80;47;49;46;49]; VZ 0; VL [VL [VB [88;45;65]; VL [VB [49]]]]; VB [47;114]; VL []; VB [];
      VB [1;6;0;1;0;2;0;0;13;10; 1;6;0;1;0;0;0;0; 1;3;0;1;0;8;0;0;0;0;0;0;0;0;0;0]].
Definition ex_op1 : val := VL [VL [VL [VB [65]; VB [66]]]; VB [98;111;100;121]; VZ 7;
      VB [1;6;0;1;0;2;0;0;111;107; 1;6;0;1;0;0;0;0; 1;3;0;1;0;8;0;0;0;0;0;0;0;0;0;0]].
Lemma central_examples_C55 :
  wf_C55 ex_op1 = true /\ kf_C55 ex_op1 = 0 /\ wf_C55 ex_op2 = true /\ kf_C55 ex_op2 = 0
  /\ run_C55 ex_op2 <> VErr 7 /\ run_C55 ex_op2 <> VErr 0.
Proof. vm_compute. repeat split; discriminate. Qed.
