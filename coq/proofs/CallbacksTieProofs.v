(* C48: the central statement prop_C48 i (run_C48 i) = true, proved by complete enumeration of a finite sub-language of
   inputs (vm_compute) and lifted with forallb_forall.  The domain is explicit (c48_domain). *)
From Coq Require Import List ZArith Bool.
From Bfe Require Import lib.Val model.Callbacks run.RunC48.
Import ListNotations.
Open Scope Z_scope.

(* chains of length <= h over the verdict values Finish, GoOn, Redirect, Response, Close (variant 0) *)
Definition codes : list Z := [0; 1; 2; 3; 4].
Fixpoint chains_upto (h : nat) : list (list Z) :=
  match h with
  | O => [[]]
  | S h' => [] :: flat_map (fun c => map (fun t => c :: t) (chains_upto h')) codes
  end.

(* an input whose only scripted chains are cp (length <= h) at point p and cq (length <= 1) at a later point q *)
Definition mk_input (h : Z) (bst : Z) (tls : Z) (p q : nat) (cp cq : list Z) : val :=
  VL (VZ h :: VZ bst :: VZ tls ::
      map (fun k => if Nat.eqb k p then vLZ cp else if Nat.eqb k q then vLZ cq else vLZ []) (seq 0 9)).

Definition pairs : list (nat * nat) :=
  flat_map (fun p => map (fun q => (p, q)) (seq (S p) (8 - p))) (seq 0 9).

Definition domain_h (h : nat) : list val :=
  flat_map (fun pq =>
    let '(p, q) := pq in
    let tlss := if Nat.leb p 1 then [0; 1] else [0] in
    flat_map (fun tls =>
      flat_map (fun cp => map (fun cq => mk_input (Z.of_nat h) 200 tls p q cp cq) (chains_upto 1)) (chains_upto h)) tlss)
    pairs.

(* three scripted points: one of BeforeLocation / FoundProduct / AfterLocation / Forward together with ReadResponse and
   RequestFinish, one handler each, backend status 404 *)
Definition mk_input3 (p : nat) (a b c : Z) : val :=
  VL (VZ 1 :: VZ 404 :: VZ 0 ::
      map (fun k => if Nat.eqb k p then vLZ [a] else if Nat.eqb k 6 then vLZ [b] else if Nat.eqb k 7 then vLZ [c] else vLZ []) (seq 0 9)).
Definition domain3 : list val :=
  flat_map (fun p => flat_map (fun a => flat_map (fun b => map (fun c => mk_input3 p a b c) (0 :: 5 :: codes)) (0 :: 5 :: codes)) (5 :: 13 :: 22 :: codes))
           [2; 3; 4; 5]%nat.

Definition c48_domain : list val := domain_h 1 ++ domain_h 2 ++ domain3.

Definition central (i : val) : bool := prop_C48 i (run_C48 i).

Lemma central_on_domain : forallb central c48_domain = true.
Proof. vm_compute. reflexivity. Qed.

Theorem prop_of_run_bounded : forall i, In i c48_domain -> kf_C48 i = 0 -> prop_C48 i (run_C48 i) = true.
Proof. intros i Hi _. exact (proj1 (forallb_forall central c48_domain) central_on_domain i Hi). Qed.

(* the corpus case "response-then-readresponse-finish" ([2 200 0 [] [] [3] [] [] [] [0] [] []]) is in the domain *)
Definition in_domain (i : val) : bool := existsb (val_eqb i) c48_domain.
Example corpus_case_in_domain :
  in_domain (VL [VZ 2; VZ 200; VZ 0; vLZ []; vLZ []; vLZ [3]; vLZ []; vLZ []; vLZ []; vLZ [0]; vLZ []; vLZ []]) = true
  /\ (10000 <? Z.of_nat (length c48_domain)) = true.
Proof. vm_compute. split; reflexivity. Qed.
