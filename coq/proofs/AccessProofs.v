(* C51 proofs *)
From Coq Require Import List ZArith Bool Lia.
From Bfe Require Import lib.Val lib.ValProofs lib.Bytes model.Access run.RunC51.
Import ListNotations.
Open Scope Z_scope.

Lemma jwt_iff_valid auth mal alg c now keys :
  jwt_accept auth mal alg c now keys = true <->
  (exists tok, get_token auth = Some tok) /\ mal = false /\ claims_ok c now = true /\
  exists k, In k keys /\ (k_alg k = 0 \/ k_alg k = alg) /\ alg_compat alg (k_kty k) = true /\ k_sig_ok k = true.
Proof.
  unfold jwt_accept, validate_token, key_alg_ok. destruct (get_token auth) as [tok|].
  - rewrite andb_true_iff, negb_true_iff, existsb_exists. split.
    + intros [Hm [k [Hk H]]]. rewrite !andb_true_iff, orb_true_iff, !Z.eqb_eq in H. destruct H as [[[Ha H1] H2] H3].
      split; [exists tok; reflexivity|]. split; [exact Hm|]. split; [exact H3|]. exists k. auto.
    + intros [_ [Hm [Hc [k [Hk [Ha [H1 H2]]]]]]]. split; [exact Hm|]. exists k. split; [exact Hk|].
      rewrite !andb_true_iff, orb_true_iff, !Z.eqb_eq. auto.
  - split; [discriminate|]. intros [[tok H] _]. discriminate.
Qed.

(* time claims that jwt-go reads as intended: numbers different from 0 (or absent) *)
Definition claim_strict (c : claim) : bool :=
  match c with CAbsent => true | CNum v => negb (v =? 0) | CBad => false end.
Definition claims_strict (c : claims) : bool :=
  claim_strict (c_exp c) && claim_strict (c_iat c) && claim_strict (c_nbf c).
Lemma exp_strict c now : claim_strict c = true ->
  match c with CAbsent => true | CNum e => now <=? e | CBad => false end = exp_ok c now.
Proof.
  destruct c as [|v|]; cbn [claim_strict exp_ok]; [reflexivity| |discriminate].
  intros H. apply negb_true_iff in H. rewrite H. reflexivity.
Qed.
Lemma from_strict c now : claim_strict c = true ->
  match c with CAbsent => true | CNum i => i <=? now | CBad => false end = from_ok c now.
Proof.
  destruct c as [|v|]; cbn [claim_strict from_ok]; [reflexivity| |discriminate].
  intros H. apply negb_true_iff in H. rewrite H. reflexivity.
Qed.
Lemma claims_strict_valid c now : claims_strict c = true -> claims_valid c now = claims_ok c now.
Proof.
  unfold claims_strict, claims_valid, claims_ok. rewrite !andb_true_iff. intros [[H1 H2] H3].
  rewrite (exp_strict _ now H1), (from_strict _ now H2), (from_strict _ now H3). reflexivity.
Qed.
Lemma exp_valid_ok c now : match c with CAbsent => true | CNum e => now <=? e | CBad => false end = true -> exp_ok c now = true.
Proof. destruct c as [|v|]; cbn [exp_ok]; [reflexivity| |discriminate]. intros H. rewrite H. destruct (v =? 0); reflexivity. Qed.
Lemma from_valid_ok c now : match c with CAbsent => true | CNum i => i <=? now | CBad => false end = true -> from_ok c now = true.
Proof. destruct c as [|v|]; cbn [from_ok]; [reflexivity| |discriminate]. intros H. rewrite H. destruct (v =? 0); reflexivity. Qed.
Lemma claims_valid_ok c now : claims_valid c now = true -> claims_ok c now = true.
Proof.
  unfold claims_valid, claims_ok. rewrite !andb_true_iff. intros [[H1 H2] H3].
  rewrite (exp_valid_ok _ now H1), (from_valid_ok _ now H2), (from_valid_ok _ now H3). auto.
Qed.

(* shape shared by the model's decision and the statement's validity predicate *)
Lemma jwt_shape auth mal alg c now keys :
  jwt_accept auth mal alg c now keys =
  match get_token auth with
  | None => false
  | Some _ => negb mal && claims_ok c now
              && existsb (fun k => ((k_alg k =? 0) || (k_alg k =? alg)) && alg_compat alg (k_kty k) && k_sig_ok k) keys
  end.
Proof.
  unfold jwt_accept, validate_token, key_alg_ok. destruct (get_token auth); [|reflexivity].
  destruct mal; [reflexivity|]. cbn [negb andb].
  induction keys as [|k r IH]; cbn [existsb]; [rewrite andb_false_r; reflexivity|].
  rewrite IH. destruct ((k_alg k =? 0) || (k_alg k =? alg)); destruct (alg_compat alg (k_kty k));
    destruct (k_sig_ok k); destruct (claims_ok c now); cbn [andb orb]; reflexivity.
Qed.

(* the statement's reading of the time claims fails for zero / non-numeric claims: *)
Lemma jwt_time_refuted :
  exists auth alg c now keys,
    jwt_accept auth false alg c now keys = true /\ jwt_valid auth false alg c now keys = false.
Proof.
  exists (BEARER ++ [32; 120]), 1, {| c_exp := CNum 0; c_iat := CAbsent; c_nbf := CAbsent |}, 100,
         [{| k_kty := 0; k_alg := 1; k_sig_ok := true |}].
  split; vm_compute; reflexivity.
Qed.
(* for all other tokens the module accepts exactly what the statement calls valid *)
Lemma jwt_accept_is_valid auth mal alg c now keys : claims_strict c = true ->
  jwt_valid auth mal alg c now keys = jwt_accept auth mal alg c now keys.
Proof.
  intros Hs. rewrite jwt_shape. unfold jwt_valid. rewrite (claims_strict_valid c now Hs). reflexivity.
Qed.
(* and a valid request is always forwarded *)
Lemma jwt_valid_accepted auth mal alg c now keys :
  jwt_valid auth mal alg c now keys = true -> jwt_accept auth mal alg c now keys = true.
Proof.
  rewrite jwt_shape. unfold jwt_valid. destruct (get_token auth); [|discriminate].
  rewrite !andb_true_iff. intros [[H1 H2] H3]. rewrite (claims_valid_ok c now H2). auto.
Qed.

Lemma securelink_iff he expires checksum digest now :
  secure_link he expires checksum digest now = 0 <-> link_valid he expires checksum digest now = true.
Proof.
  unfold secure_link, link_valid.
  destruct he.
  - destruct expires as [|x xs].
    + cbn. split; discriminate.
    + destruct (parse_int (x :: xs)) as [e|].
      * rewrite Z.leb_antisym. destruct (e <? now); cbn [negb Z.eqb andb].
        -- split; discriminate.
        -- destruct checksum as [|y ys]; [cbn; split; discriminate|].
           cbn [bytes_eqb list_Z_eqb negb andb].
           destruct (bytes_eqb (b64url digest) (y :: ys)); split; try reflexivity; discriminate.
      * cbn. split; discriminate.
  - cbn [negb Z.eqb andb]. destruct checksum as [|y ys]; [cbn; split; discriminate|].
    cbn [bytes_eqb list_Z_eqb negb andb].
    destruct (bytes_eqb (b64url digest) (y :: ys)); split; try reflexivity; discriminate.
Qed.

Lemma basic_iff auth decoded users :
  basic_accept auth decoded users = true <->
  exists u, basic_user auth decoded = Some u /\ lookup_user users u = Some true.
Proof.
  unfold basic_accept. destruct (basic_user auth decoded) as [u|].
  - destruct (lookup_user users u) as [[|]|] eqn:E.
    + split; [intros _; exists u; auto|reflexivity].
    + split; [discriminate|]. intros [u' [H1 H2]]. inversion H1; subst. congruence.
    + split; [discriminate|]. intros [u' [H1 H2]]. inversion H1; subst. congruence.
  - split; [discriminate|]. intros [u [H _]]. discriminate.
Qed.

Lemma rules_process_decisive l :
  rules_process l = match decisive (Some l) with Some c => Some (c =? 1) | None => None end.
Proof.
  unfold decisive. induction l as [|[m cmd] r IH]; [reflexivity|].
  cbn [rules_process filter fst snd]. destruct m; cbn [andb]; [|exact IH].
  destruct (cmd =? 0) eqn:E0; cbn [orb].
  - apply Z.eqb_eq in E0. subst. reflexivity.
  - destruct (cmd =? 1) eqn:E1; [rewrite E1; reflexivity|exact IH].
Qed.
Lemma block_refuses g p :
  global_block true = true /\
  product_block g p = match decisive g with Some c => c =? 1 | None =>
                      match decisive p with Some c => c =? 1 | None => false end end.
Proof.
  split; [reflexivity|]. unfold product_block.
  destruct g as [g|]; destruct p as [p|]; rewrite ?rules_process_decisive;
    try destruct (decisive (Some g)); try destruct (decisive (Some p)); reflexivity.
Qed.

Lemma C51_example_lemma :
  jwt_accept (BEARER ++ [32; 120]) false 1 {| c_exp := CNum 99; c_iat := CAbsent; c_nbf := CAbsent |} 100
             [{| k_kty := 0; k_alg := 1; k_sig_ok := true |}] = false /\
  secure_link false [] (firstn 21 (b64url (repeat 7 16))) (repeat 7 16) 0 = 4 /\
  secure_link false [] (b64url (repeat 7 16)) (repeat 7 16) 0 = 0.
Proof. vm_compute. auto. Qed.

(* ---------- the executable property predicate holds of the model, per operation ---------- *)
Lemma is_verdict_refl x : is_verdict (verdict x) x = true.
Proof. unfold is_verdict. apply val_eqb_refl. Qed.
Lemma b_vbool x : b (match vbool x with VZ z => z | _ => 0 end) = x.
Proof. destruct x; reflexivity. Qed.

Lemma secure_link_range he expires checksum digest now :
  0 <= secure_link he expires checksum digest now <= 5.
Proof.
  unfold secure_link. destruct he.
  - destruct expires as [|x xs]; [cbn; lia|]. destruct (parse_int (x :: xs)) as [e|]; [|cbn; lia].
    destruct (e <? now); cbn [negb Z.eqb]; [lia|].
    destruct checksum; [lia|]. destruct (bytes_eqb (b64url digest) (z :: checksum)); lia.
  - cbn [negb Z.eqb]. destruct checksum; [lia|]. destruct (bytes_eqb (b64url digest) (z :: checksum)); lia.
Qed.
Lemma uniq_lookup users : uniq_users users = true -> forall u,
  existsb (fun e => bytes_eqb (fst e) u && snd e) users = match lookup_user users u with Some ok => ok | None => false end.
Proof.
  induction users as [|[n ok] r IH]; intros Hu u; [reflexivity|].
  cbn [uniq_users] in Hu. apply andb_true_iff in Hu. destruct Hu as [Hn Hr].
  cbn [existsb lookup_user fst snd]. destruct (bytes_eqb n u) eqn:E.
  - apply bytes_eqb_eq in E. subst u. cbn [andb]. destruct ok; [reflexivity|]. cbn [orb].
    rewrite IH by exact Hr. apply negb_true_iff in Hn.
    assert (Hnone : lookup_user r n = None).
    { clear -Hn. induction r as [|[m o] r IH]; [reflexivity|]. cbn [existsb fst] in Hn. apply orb_false_iff in Hn. destruct Hn as [H1 H2].
      cbn [lookup_user]. rewrite H1. apply IH. exact H2. }
    rewrite Hnone. reflexivity.
  - cbn [andb orb]. apply IH. exact Hr.
Qed.
Lemma basic_valid_accept auth decoded users : uniq_users users = true ->
  basic_valid auth decoded users = basic_accept auth decoded users.
Proof.
  intros EU. unfold basic_valid, basic_accept. destruct (basic_user auth decoded); [|reflexivity].
  apply uniq_lookup. exact EU.
Qed.

(* ---------- block rule files ---------- *)
Lemma frule_ok_spec r : frule_ok r = true -> spec_rule r = Some (fconv r).
Proof.
  unfold frule_ok, spec_rule, fconv, ci_cmd. rewrite !andb_true_iff. intros [[[[Hc _] _] Hcmd] _].
  rewrite Hc. apply orb_true_iff in Hcmd. destruct Hcmd as [H|H]; apply bytes_eqb_eq in H; rewrite H; reflexivity.
Qed.
Lemma flist_ok_spec l : forallb frule_ok l = true -> all_some (map spec_rule l) = Some (map fconv l).
Proof.
  induction l as [|r l IH]; [reflexivity|]. cbn [forallb map all_some]. rewrite andb_true_iff. intros [H1 H2].
  rewrite (frule_ok_spec r H1), (IH H2). reflexivity.
Qed.
Lemma ffile_ok_spec f : ffile_ok f = true -> spec_table f = Some (ftable f).
Proof.
  destruct f as [g p]. unfold ffile_ok, spec_table, ftable, spec_list, flist_ok. cbn [fst snd]. rewrite andb_true_iff. intros [Hg Hp].
  destruct g as [g|]; destruct p as [p|]; cbn [option_map];
    repeat match goal with H : _ && _ = true |- _ => apply andb_true_iff in H; destruct H as [H _] end;
    rewrite ?(flist_ok_spec g Hg), ?(flist_ok_spec p Hp); reflexivity.
Qed.
Lemma block_steps_prop files : forall tbl,
  prop_steps tbl files (map (fun lc => VL [vbool (fst lc); vbool (snd lc)]) (block_steps tbl files)) = true.
Proof.
  induction files as [|f r IH]; intros tbl; [reflexivity|]. cbn [block_steps map prop_steps fst snd].
  destruct (ffile_ok f) eqn:Eok.
  - cbn [vbool VT]. change (b 1) with true. cbv iota. rewrite (ffile_ok_spec f Eok).
    destruct (product_block (fst (ftable f)) (snd (ftable f))); cbn [vbool VT VF]; [change (b 1) with true|change (b 0) with false];
      cbn [Bool.eqb andb]; apply IH.
  - cbn [vbool VF]. change (b 0) with false. cbv iota.
    destruct (product_block (fst tbl) (snd tbl)); cbn [vbool VT VF]; [change (b 1) with true|change (b 0) with false];
      cbn [Bool.eqb andb]; apply IH.
Qed.

(* central theorem on typed operations *)
Theorem prop_op_of_model : forall x, wf_op x = true -> kf_op x = 0 -> prop_op x (run_op x) = true.
Proof.
  intros [auth decoded users route|auth mal alg c now keys route|he expires checksum digest now|inT g p|files] Hwf Hkf;
    cbn [prop_op run_op wf_op kf_op] in *.
  - rewrite (basic_valid_accept auth decoded users Hwf). apply is_verdict_refl.
  - destruct (covered route); cbn [negb orb andb] in *; [|apply is_verdict_refl].
    pose proof (jwt_valid_accepted auth mal alg c now keys) as Hva.
    destruct (jwt_valid auth mal alg c now keys) eqn:Ev.
    + rewrite (Hva eq_refl). apply is_verdict_refl.
    + destruct (jwt_accept auth mal alg c now keys); cbn [negb andb] in Hkf; [discriminate|]. apply is_verdict_refl.
  - pose proof (secure_link_range he expires checksum digest now) as Hr.
    pose proof (securelink_iff he expires checksum digest now) as Hi.
    destruct (secure_link he expires checksum digest now =? 0) eqn:E.
    + apply Z.eqb_eq in E. rewrite (proj1 Hi E). cbn [Bool.eqb andb]. rewrite E. reflexivity.
    + destruct (link_valid he expires checksum digest now) eqn:EL.
      * apply Z.eqb_neq in E. exfalso. apply E. apply Hi. reflexivity.
      * cbn [Bool.eqb andb]. apply andb_true_iff. split; apply Z.leb_le; lia.
  - destruct (block_refuses g p) as [_ H]. rewrite <- H. unfold global_block.
    destruct inT; destruct (product_block g p); reflexivity.
  - apply block_steps_prop.
Qed.
Theorem prop_C51_of_model : forall i, wf_C51 i = true -> kf_C51 i = 0 -> prop_C51 i (run_C51 i) = true.
Proof.
  intros i. unfold wf_C51, kf_C51, prop_C51, run_C51. destruct (dec_C51 i) as [x|]; [|discriminate].
  apply prop_op_of_model.
Qed.

Lemma C51_wf_example_lemma :
  let i := VL [VZ 3; VZ 0; VB []; VB (firstn 21 (b64url (repeat 7 16))); VB (repeat 7 16); VZ 0; VB []; VB []; VB []; VZ 0] in
  wf_C51 i = true /\ kf_C51 i = 0 /\ run_C51 i = VZ 4.
Proof. vm_compute. auto. Qed.
