(* C51 proofs *)
From Coq Require Import List ZArith Bool Lia.
From Bfe Require Import lib.Val lib.ValProofs lib.Bytes model.Access run.RunC51.
Import ListNotations.
Open Scope Z_scope.

Lemma jwt_iff_valid auth mal alg c now keys :
  jwt_accept auth mal alg c now keys = true <->
  (exists tok, get_token auth = Some tok) /\ mal = false /\ claims_ok c now = true /\
  exists k, In k keys /\ alg_compat alg (k_kty k) = true /\ k_sig_ok k = true.
Proof.
  unfold jwt_accept, validate_token. destruct (get_token auth) as [tok|].
  - rewrite andb_true_iff, negb_true_iff, existsb_exists. split.
    + intros [Hm [k [Hk H]]]. apply andb_true_iff in H. destruct H as [H H3]. apply andb_true_iff in H. destruct H as [H1 H2].
      split; [exists tok; reflexivity|]. split; [exact Hm|]. split; [exact H3|]. exists k. auto.
    + intros [_ [Hm [Hc [k [Hk [H1 H2]]]]]]. split; [exact Hm|]. exists k. split; [exact Hk|].
      rewrite H1, H2, Hc. reflexivity.
  - split; [discriminate|]. intros [[tok H] _]. discriminate.
Qed.

(* the statement's stronger reading (the key's declared algorithm must be the token's) fails: *)
Lemma jwt_alg_refuted :
  exists auth alg c now keys,
    jwt_accept auth false alg c now keys = true /\ jwt_valid auth false alg c now keys = false.
Proof.
  exists (BEARER ++ [32; 120]), 1, {| c_exp := None; c_iat := None; c_nbf := None |}, 0,
         [{| k_kty := 0; k_alg := 3; k_sig_ok := true |}].
  split; vm_compute; reflexivity.
Qed.
(* ... and holds whenever no configured key declares a different algorithm than the token's *)
Lemma jwt_alg_partial auth mal alg c now keys :
  (forall k, In k keys -> k_alg k = 0 \/ k_alg k = alg) ->
  jwt_valid auth mal alg c now keys = jwt_accept auth mal alg c now keys.
Proof.
  intros H. unfold jwt_valid, jwt_accept, validate_token. destruct (get_token auth); [|reflexivity].
  destruct mal; [reflexivity|]. cbn [negb andb].
  induction keys as [|k r IH]; cbn [existsb]; [apply andb_false_r|].
  assert (Hk : ((k_alg k =? 0) || (k_alg k =? alg)) = true).
  { destruct (H k (or_introl eq_refl)) as [E|E]; rewrite E; [reflexivity|rewrite Z.eqb_refl; apply orb_true_r]. }
  rewrite Hk, andb_true_r.
  rewrite <- IH by (intros k' Hk'; apply H; right; exact Hk').
  destruct (alg_compat alg (k_kty k) && k_sig_ok k); destruct (claims_ok c now); cbn [andb orb]; reflexivity.
Qed.
(* every request the statement calls valid is accepted (no false rejection), for all key sets *)
Lemma jwt_valid_accepted auth mal alg c now keys :
  jwt_valid auth mal alg c now keys = true -> jwt_accept auth mal alg c now keys = true.
Proof.
  unfold jwt_valid, jwt_accept, validate_token. destruct (get_token auth); [|discriminate].
  intros H. apply andb_true_iff in H. destruct H as [H H3]. apply andb_true_iff in H. destruct H as [H1 H2].
  rewrite H1. cbn [andb]. apply existsb_exists. apply existsb_exists in H3. destruct H3 as [k [Hk Hx]].
  exists k. split; [exact Hk|]. apply andb_true_iff in Hx. destruct Hx as [Hx _]. rewrite Hx, H2. reflexivity.
Qed.

Lemma securelink_iff he expires checksum digest now :
  secure_link he expires checksum digest now = 0 <-> link_valid he expires checksum digest now = true.
Proof.
  unfold secure_link, link_valid.
  destruct he.
  - destruct expires as [|x xs].
    + cbn. split; discriminate.
    + destruct (parse_int (x :: xs)) as [e|].
      * rewrite Z.leb_antisym. destruct (e <? now); cbn [negb Z.eqb andb].
        -- split; discriminate.
        -- destruct checksum as [|y ys]; [cbn; split; discriminate|].
           cbn [bytes_eqb list_Z_eqb negb andb].
           destruct (bytes_eqb (b64url digest) (y :: ys)); split; try reflexivity; discriminate.
      * cbn. split; discriminate.
  - cbn [negb Z.eqb andb]. destruct checksum as [|y ys]; [cbn; split; discriminate|].
    cbn [bytes_eqb list_Z_eqb negb andb].
    destruct (bytes_eqb (b64url digest) (y :: ys)); split; try reflexivity; discriminate.
Qed.

Lemma basic_iff auth decoded users :
  basic_accept auth decoded users = true <->
  exists u, basic_user auth decoded = Some u /\ lookup_user users u = Some true.
Proof.
  unfold basic_accept. destruct (basic_user auth decoded) as [u|].
  - destruct (lookup_user users u) as [[|]|] eqn:E.
    + split; [intros _; exists u; auto|reflexivity].
    + split; [discriminate|]. intros [u' [H1 H2]]. inversion H1; subst. congruence.
    + split; [discriminate|]. intros [u' [H1 H2]]. inversion H1; subst. congruence.
  - split; [discriminate|]. intros [u [H _]]. discriminate.
Qed.

Lemma rules_process_decisive l :
  rules_process l = match decisive (Some l) with Some c => Some (c =? 1) | None => None end.
Proof.
  unfold decisive. induction l as [|[m cmd] r IH]; [reflexivity|].
  cbn [rules_process filter fst snd]. destruct m; cbn [andb]; [|exact IH].
  destruct (cmd =? 0) eqn:E0; cbn [orb].
  - apply Z.eqb_eq in E0. subst. reflexivity.
  - destruct (cmd =? 1) eqn:E1; [rewrite E1; reflexivity|exact IH].
Qed.
Lemma block_refuses g p :
  global_block true = true /\
  product_block g p = match decisive g with Some c => c =? 1 | None =>
                      match decisive p with Some c => c =? 1 | None => false end end.
Proof.
  split; [reflexivity|]. unfold product_block.
  destruct g as [g|]; destruct p as [p|]; rewrite ?rules_process_decisive;
    try destruct (decisive (Some g)); try destruct (decisive (Some p)); reflexivity.
Qed.

Lemma C51_example_lemma :
  jwt_accept (BEARER ++ [32; 120]) false 1 {| c_exp := Some 99; c_iat := None; c_nbf := None |} 100
             [{| k_kty := 0; k_alg := 1; k_sig_ok := true |}] = false /\
  secure_link false [] (firstn 21 (b64url (repeat 7 16))) (repeat 7 16) 0 = 4 /\
  secure_link false [] (b64url (repeat 7 16)) (repeat 7 16) 0 = 0.
Proof. vm_compute. auto. Qed.
