From Coq Require Import List ZArith Bool Lia.
From Bfe Require Import model.CbcPad.
Import ListNotations.
Open Scope Z_scope.

Definition byte (z : Z) : Prop := 0 <= z < 256.

(* ---- finite sweeps over bytes, lifted with forallb_forall ---- *)
Definition bytes256 : list Z := map Z.of_nat (seq 0 256).
Lemma in_bytes256 z : byte z -> In z bytes256.
Proof.
  intros H. unfold byte in H. unfold bytes256. apply in_map_iff. exists (Z.to_nat z). split; [lia|].
  apply in_seq. lia.
Qed.

Lemma fold8_sweep : forallb (fun g => fold8 g =? (if g =? 255 then 255 else 0)) bytes256 = true.
Proof. vm_compute. reflexivity. Qed.
Lemma fold8_spec g : byte g -> fold8 g = if g =? 255 then 255 else 0.
Proof.
  intros H. pose proof fold8_sweep as S. rewrite forallb_forall in S.
  specialize (S g (in_bytes256 g H)). apply Z.eqb_eq in S. exact S.
Qed.

(* 2-D sweeps *)
Definition sweep2 (f : Z -> Z -> bool) : bool := forallb (fun a => forallb (f a) bytes256) bytes256.
Lemma sweep2_spec f : sweep2 f = true -> forall a b, byte a -> byte b -> f a b = true.
Proof.
  unfold sweep2. intros S a b Ha Hb. rewrite forallb_forall in S.
  specialize (S a (in_bytes256 a Ha)). rewrite forallb_forall in S. exact (S b (in_bytes256 b Hb)).
Qed.

Definition inv255 (p b : Z) : Z := Z.lxor (Z.lxor (Z.land 255 p) (Z.land 255 b)) 255.
Lemma sweepA : sweep2 (fun g y => (0 <=? Z.land g y) && (Z.land g y <? 256) &&
                                  Bool.eqb (Z.land g y =? 255) ((g =? 255) && (y =? 255))) = true.
Proof. vm_compute. reflexivity. Qed.
Lemma sweepB : sweep2 (fun p b => (0 <=? inv255 p b) && (inv255 p b <? 256) &&
                                  Bool.eqb (inv255 p b =? 255) (p =? b)) = true.
Proof. vm_compute. reflexivity. Qed.

Lemma land_bytes g y : byte g -> byte y ->
  byte (Z.land g y) /\ (Z.land g y = 255 <-> g = 255 /\ y = 255).
Proof.
  intros Hg Hy. pose proof (sweep2_spec _ sweepA g y Hg Hy) as S.
  apply andb_true_iff in S. destruct S as [S S3]. apply andb_true_iff in S. destruct S as [S1 S2].
  apply Z.leb_le in S1. apply Z.ltb_lt in S2. apply Bool.eqb_prop in S3.
  split; [split; assumption|].
  rewrite <- Z.eqb_eq, S3, andb_true_iff, !Z.eqb_eq. reflexivity.
Qed.
Lemma inv255_spec p b : byte p -> byte b -> byte (inv255 p b) /\ (inv255 p b = 255 <-> p = b).
Proof.
  intros Hp Hb. pose proof (sweep2_spec _ sweepB p b Hp Hb) as S.
  apply andb_true_iff in S. destruct S as [S S3]. apply andb_true_iff in S. destruct S as [S1 S2].
  apply Z.leb_le in S1. apply Z.ltb_lt in S2. apply Bool.eqb_prop in S3.
  split; [split; assumption|]. rewrite <- Z.eqb_eq, S3, Z.eqb_eq. reflexivity.
Qed.

Lemma step_good_mask0 g p b : byte g -> step_good g 0 p b = g.
Proof.
  intros Hg. unfold step_good. rewrite !Z.land_0_l. simpl Z.lxor.
  change 255 with (Z.ones 8). rewrite Z.land_ones by lia. apply Z.mod_small. exact Hg.
Qed.

Lemma step_good_255 g p b : byte g -> byte p -> byte b ->
  byte (step_good g 255 p b) /\ (step_good g 255 p b = 255 <-> g = 255 /\ p = b).
Proof.
  intros Hg Hp Hb. unfold step_good. fold (inv255 p b).
  destruct (inv255_spec p b Hp Hb) as [Hi He].
  destruct (land_bytes g (inv255 p b) Hg Hi) as [Hl Hle].
  split; [exact Hl|]. rewrite Hle, He. reflexivity.
Qed.

(* ---- the sign mask ---- *)
Lemma msb_mask_spec t : - 2^31 <= t < 2^31 -> msb_mask t = if 0 <=? t then 255 else 0.
Proof.
  intros H. unfold msb_mask, u64.
  destruct (0 <=? t) eqn:E.
  - apply Z.leb_le in E. rewrite Z.mod_small by lia.
    assert (Hb : Z.testbit t 31 = false).
    { apply Z.testbit_false; [lia|]. rewrite Z.div_small by lia. reflexivity. }
    rewrite Hb. reflexivity.
  - apply Z.leb_gt in E.
    assert (Hm : t mod 2^64 = 2^64 + t).
    { symmetry. apply Z.mod_unique with (q := -1); lia. }
    rewrite Hm. 
    assert (Hb : Z.testbit (2^64 + t) 31 = true).
    { apply Z.testbit_true; [lia|].
      assert (Hq : (2^64 + t) / 2^31 = 2^33 - 1).
      { symmetry. apply Z.div_unique with (r := 2^31 + t); lia. }
      rewrite Hq. reflexivity. }
    rewrite Hb. reflexivity.
Qed.

(* ---- the loop ---- *)
Lemma loop_spec : forall n rp p i g, byte g -> byte p -> 0 <= i -> i + Z.of_nat n <= 256 ->
  Forall byte rp ->
  byte (loop rp p i n g) /\
  (loop rp p i n g = 255 <->
   g = 255 /\ forall j b, (j < n)%nat -> nth_error rp j = Some b -> i + Z.of_nat j <= p -> b = p).
Proof.
  induction n as [|n IH]; intros rp p i g Hg Hp Hi Hn Hrp.
  - simpl. split; [assumption|]. split; [intros ->; split; [reflexivity|]; intros; lia | intros [-> _]; reflexivity].
  - destruct rp as [|b r].
    + simpl. split; [assumption|]. split.
      * intros ->. split; [reflexivity|]. intros j b _ Hj. destruct j; discriminate.
      * intros [-> _]. reflexivity.
    + inversion Hrp as [|? ? Hb Hr]; subst. cbn [loop].
      assert (Hmask : msb_mask (p - i) = if 0 <=? p - i then 255 else 0).
      { apply msb_mask_spec. unfold byte in Hp. lia. }
      set (g' := step_good g (msb_mask (p - i)) p b).
      assert (Hg' : byte g').
      { unfold g'. rewrite Hmask. destruct (0 <=? p - i).
        - apply step_good_255; assumption.
        - rewrite step_good_mask0; assumption. }
      destruct (IH r p (i + 1) g' Hg' Hp ltac:(lia) ltac:(lia) Hr) as [IHb IHe].
      split; [exact IHb|]. rewrite IHe. clear IHe IHb.
      unfold g'. rewrite Hmask. destruct (0 <=? p - i) eqn:E.
      * apply Z.leb_le in E. rewrite (proj2 (step_good_255 g p b Hg Hp Hb)). split.
        -- intros [[-> <-] H]. split; [reflexivity|]. intros j b0 Hj Hnth Hle.
           destruct j as [|j]; simpl in Hnth.
           ++ inversion Hnth; reflexivity.
           ++ apply (H j b0); [lia|assumption|lia].
        -- intros [-> H]. split; [split; [reflexivity|]|].
           ++ symmetry. apply (H 0%nat b); [lia|reflexivity|lia].
           ++ intros j b0 Hj Hnth Hle. apply (H (S j) b0); [lia|exact Hnth|lia].
      * apply Z.leb_gt in E. rewrite (step_good_mask0 g p b Hg). split.
        -- intros [-> H]. split; [reflexivity|]. intros j b0 Hj Hnth Hle. lia.
        -- intros [-> H]. split; [reflexivity|]. intros j b0 Hj Hnth Hle. lia.
Qed.

Lemma wf_bytes_Forall l : wf_bytes l = true -> Forall byte l.
Proof.
  unfold wf_bytes. rewrite forallb_forall, Forall_forall. intros H x Hx.
  specialize (H x Hx). apply andb_true_iff in H. destruct H as [H1 H2].
  apply Z.leb_le in H1. apply Z.ltb_lt in H2. split; assumption.
Qed.

Lemma forallb_firstn_nth p (l : list Z) k :
  (k <= length l)%nat ->
  (forallb (Z.eqb p) (firstn k l) = true <-> forall j b, (j < k)%nat -> nth_error l j = Some b -> b = p).
Proof.
  revert k; induction l as [|x l IH]; intros k Hk.
  - simpl in Hk. assert (k = 0)%nat by lia. subst. simpl. split; [intros _ j b Hj; lia|reflexivity].
  - destruct k as [|k]; simpl.
    + split; [intros _ j b Hj; lia|reflexivity].
    + simpl in Hk. rewrite andb_true_iff, (IH k) by lia. split.
      * intros [Hx H] j b Hj Hn. destruct j; simpl in Hn.
        -- inversion Hn; subst. apply Z.eqb_eq in Hx. congruence.
        -- apply (H j b); [lia|exact Hn].
      * intros H. split.
        -- apply Z.eqb_eq. symmetry. apply (H 0%nat x); [lia|reflexivity].
        -- intros j b Hj Hn. apply (H (S j) b); [lia|exact Hn].
Qed.

Theorem remove_padding_exact pl :
  wf_bytes pl = true -> Z.of_nat (length pl) < 2^31 -> remove_padding pl = spec_remove pl.
Proof.
  intros Hwf Hlen. destruct pl as [|x0 pl0]; [reflexivity|].
  unfold remove_padding, spec_remove. cbv beta iota.
  set (pl := x0 :: pl0) in *.
  assert (Hne : rev pl <> []).
  { intro H. apply (f_equal (@length Z)) in H. rewrite rev_length in H. simpl in H. discriminate. }
  destruct (rev pl) as [|p r] eqn:Erev; [congruence|]. clear Hne.
  assert (Hrp : Forall byte (p :: r)).
  { rewrite <- Erev. apply Forall_rev. apply wf_bytes_Forall. exact Hwf. }
  assert (Hp : byte p) by (inversion Hrp; assumption).
  cbn [hd].
  assert (Hl : Z.of_nat (length pl) = Z.of_nat (length (p :: r))) by (rewrite <- Erev, rev_length; reflexivity).
  set (len := Z.of_nat (length pl)) in *.
  assert (Hlen1 : 1 <= len) by (rewrite Hl; simpl length; lia).
  set (toCheck := if 256 >? len then len else 256).
  assert (HtoCheck : 0 <= toCheck <= 256 /\ toCheck <= len /\ (len >= 256 -> toCheck = 256) /\ (len < 256 -> toCheck = len)).
  { unfold toCheck. destruct (256 >? len) eqn:E; [apply Z.gtb_lt in E|rewrite Z.gtb_ltb in E; apply Z.ltb_ge in E]; lia. }
  assert (Hg0 : msb_mask (len - 1 - p) = if 0 <=? len - 1 - p then 255 else 0).
  { apply msb_mask_spec. unfold byte in Hp. lia. }
  assert (Hg0b : byte (msb_mask (len - 1 - p))).
  { rewrite Hg0. destruct (0 <=? len - 1 - p); unfold byte; lia. }
  destruct (loop_spec (Z.to_nat toCheck) (p :: r) p 0 (msb_mask (len - 1 - p)) Hg0b Hp ltac:(lia) ltac:(lia) Hrp)
    as [Hlb Hle].
  rewrite (fold8_spec _ Hlb).
  (* relate to valid_padding *)
  assert (Hvalid : valid_padding pl = true <-> loop (p :: r) p 0 (Z.to_nat toCheck) (msb_mask (len - 1 - p)) = 255).
  { unfold valid_padding. rewrite Erev. fold len. rewrite andb_true_iff, Hle, Hg0.
    split.
    - intros [H1 H2]. apply Z.leb_le in H1. 
      split; [destruct (Z.leb_spec 0 (len - 1 - p)); [reflexivity|lia]|].
      rewrite forallb_firstn_nth in H2 by (simpl length in Hl |- *; unfold byte in Hp; lia).
      intros j b Hj Hn Hjp. apply (H2 j b); [unfold byte in Hp; lia|exact Hn].
    - intros [H1 H2]. assert (p + 1 <= len) by (destruct (Z.leb_spec 0 (len - 1 - p)); [lia|discriminate]).
      split; [apply Z.leb_le; assumption|].
      rewrite forallb_firstn_nth by (simpl length in Hl |- *; unfold byte in Hp; lia).
      intros j b Hj Hn. apply (H2 j b); [unfold byte in Hp; lia|exact Hn|lia]. }
  destruct (valid_padding pl) eqn:Ev.
  - assert (E : loop (p :: r) p 0 (Z.to_nat toCheck) (msb_mask (len - 1 - p)) = 255) by (apply Hvalid; reflexivity).
    rewrite E. simpl (255 =? 255). cbv iota.
    assert (Z.land 255 p = p).
    { rewrite Z.land_comm. change 255 with (Z.ones 8). rewrite Z.land_ones by lia. apply Z.mod_small. exact Hp. }
    rewrite H. f_equal. f_equal.
    unfold valid_padding in Ev. rewrite Erev in Ev. apply andb_true_iff in Ev. destruct Ev as [Ev _].
    apply Z.leb_le in Ev. fold len in Ev. unfold byte in Hp. unfold len. lia.
  - assert (E : loop (p :: r) p 0 (Z.to_nat toCheck) (msb_mask (len - 1 - p)) <> 255).
    { intro E. apply Hvalid in E. discriminate. }
    apply Z.eqb_neq in E. rewrite E. rewrite Z.land_0_l. f_equal. f_equal. unfold len. lia.
Qed.

From Bfe Require Import lib.Val lib.ValProofs run.RunC43.
Lemma prop_C43_of_model pl :
  wf_bytes pl = true -> Z.of_nat (length pl) < 2^31 -> prop_C43 (VB pl) (run_C43 (VB pl)) = true.
Proof.
  intros H1 H2. unfold prop_C43, run_C43. rewrite (remove_padding_exact pl H1 H2).
  destruct (spec_remove pl) as [out good]. apply val_eqb_refl.
Qed.
Lemma C43_p255_valid_lemma :
  let pl := repeat 7 44 ++ repeat 255 256 in
  wf_bytes pl = true /\ valid_padding pl = true /\ remove_padding pl = (repeat 7 44, 255).
Proof. vm_compute. repeat split; reflexivity. Qed.
Lemma C43_p255_invalid_lemma :
  let pl := repeat 255 44 ++ [0] ++ repeat 255 255 in
  wf_bytes pl = true /\ valid_padding pl = false /\ remove_padding pl = (firstn 299 pl, 0).
Proof. vm_compute. repeat split; reflexivity. Qed.

(* ---- the CBC branch of halfConn.decrypt ---- *)
Lemma cbc_record_ok_spec vers clen macSize full :
  wf_bytes full = true -> Z.of_nat (length full) < 2^31 -> 0 <= clen -> 0 <= macSize ->
  cbc_record_ok vers clen macSize full = spec_record_ok vers clen macSize full.
Proof.
  intros Hwf Hlen Hc Hm. unfold cbc_record_ok, spec_record_ok.
  destruct (vers =? 768) eqn:Ev.
  - unfold remove_padding_ssl30. destruct (rev full) as [|p r] eqn:Er.
    + assert (full = []) by (destruct full; [reflexivity|]; apply (f_equal (@length Z)) in Er; rewrite rev_length in Er; discriminate).
      subst. reflexivity.
    + assert (Hp : byte p).
      { assert (Forall byte (p :: r)) by (rewrite <- Er; apply Forall_rev, wf_bytes_Forall; exact Hwf).
        inversion H; assumption. }
      unfold byte in Hp.
      destruct (p + 1 >? Z.of_nat (length full)) eqn:Eg.
      * rewrite Z.gtb_ltb in Eg. apply Z.ltb_lt in Eg. simpl.
        destruct (Z.leb_spec (p + 1) (Z.of_nat (length full))); [lia|reflexivity].
      * rewrite Z.gtb_ltb in Eg. apply Z.ltb_ge in Eg.
        rewrite Z.eqb_refl. cbn [andb]. rewrite firstn_length.
        destruct (Z.leb_spec (p + 1) (Z.of_nat (length full))); [|lia]. cbn [andb].
        rewrite Nat.min_l by lia.
        rewrite Z2Nat.id by lia.
        destruct (Z.eqb_spec (Z.of_nat (length full) - (p + 1)) (clen + macSize));
          destruct (Z.eqb_spec (p + 1) (Z.of_nat (length full) - clen - macSize)); try reflexivity; lia.
  - rewrite (remove_padding_exact full Hwf Hlen). unfold spec_remove.
    destruct (rev full) as [|p r] eqn:Er; [reflexivity|].
    assert (Hp : byte p).
    { assert (Forall byte (p :: r)) by (rewrite <- Er; apply Forall_rev, wf_bytes_Forall; exact Hwf).
      inversion H; assumption. }
    unfold byte in Hp.
    destruct (valid_padding full) eqn:Evp.
    + rewrite Z.eqb_refl. cbn [andb]. rewrite firstn_length.
      assert (p + 1 <= Z.of_nat (length full)).
      { unfold valid_padding in Evp. rewrite Er in Evp. apply andb_true_iff in Evp. destruct Evp as [E _].
        apply Z.leb_le in E. exact E. }
      rewrite Nat.min_l by lia.
      destruct (Z.eqb_spec (Z.of_nat (length full - Z.to_nat (p + 1))) (clen + macSize));
        destruct (Z.eqb_spec (p + 1) (Z.of_nat (length full) - clen - macSize)); try reflexivity; lia.
    + reflexivity.
Qed.

Lemma prop_C43_record_of_model vers clen full :
  wf_bytes full = true -> Z.of_nat (length full) < 2^31 -> 0 <= clen ->
  prop_C43 (VL [VZ 2; VZ vers; VZ clen; VB full]) (run_C43 (VL [VZ 2; VZ vers; VZ clen; VB full])) = true.
Proof.
  intros H1 H2 H3. unfold prop_C43, run_C43. rewrite (cbc_record_ok_spec vers clen 20 full H1 H2 H3 ltac:(lia)).
  apply val_eqb_refl.
Qed.

(* ---- removePaddingSSL30 ---- *)
Lemma remove_padding_ssl30_exact pl : wf_bytes pl = true -> remove_padding_ssl30 pl = spec_remove_ssl30 pl.
Proof.
  intros Hwf. unfold remove_padding_ssl30, spec_remove_ssl30.
  destruct (rev pl) as [|p r] eqn:Er; [reflexivity|].
  assert (Hp : byte p).
  { assert (Forall byte (p :: r)) by (rewrite <- Er; apply Forall_rev, wf_bytes_Forall; exact Hwf).
    inversion H; assumption. }
  unfold byte in Hp. rewrite Z.gtb_ltb.
  destruct (Z.ltb_spec (Z.of_nat (length pl)) (p + 1)); destruct (Z.leb_spec (p + 1) (Z.of_nat (length pl))); try lia; try reflexivity.
  f_equal. f_equal. lia.
Qed.
Lemma prop_C43_ssl30_of_model pl :
  wf_bytes pl = true -> prop_C43 (VL [VZ 3; VB pl]) (run_C43 (VL [VZ 3; VB pl])) = true.
Proof.
  intros H. unfold prop_C43, run_C43. rewrite (remove_padding_ssl30_exact pl H).
  destruct (spec_remove_ssl30 pl). apply val_eqb_refl.
Qed.
