(* Proofs about the HTTP/2 frame codec model (C32). *)
From Coq Require Import List ZArith Bool Lia ZifyBool.
From Bfe Require Import lib.Val lib.ValProofs model.H2Frame run.RunC32.
Import ListNotations.
Open Scope Z_scope.

Lemma blen_cons x l : blen (x :: l) = blen l + 1.
Proof. unfold blen. cbn [length]. lia. Qed.
Lemma blen_nil : blen [] = 0.
Proof. reflexivity. Qed.
Lemma blen_app a b : blen (a ++ b) = blen a + blen b.
Proof. unfold blen. rewrite app_length. lia. Qed.
Lemma blen_nonneg l : 0 <= blen l.
Proof. unfold blen. lia. Qed.

Lemma dropZ_le0 n l : n <= 0 -> dropZ n l = l.
Proof. intro H. destruct l; simpl; [reflexivity|]. destruct (Z.leb_spec n 0); [reflexivity|lia]. Qed.
Lemma takeZ_le0 n l : n <= 0 -> takeZ n l = [].
Proof. intro H. destruct l; simpl; [reflexivity|]. destruct (Z.leb_spec n 0); [reflexivity|lia]. Qed.
Lemma dropZ_cons n x l : 0 < n -> dropZ n (x :: l) = dropZ (n - 1) l.
Proof. intro H. simpl. destruct (Z.leb_spec n 0); [lia|reflexivity]. Qed.
Lemma takeZ_cons n x l : 0 < n -> takeZ n (x :: l) = x :: takeZ (n - 1) l.
Proof. intro H. simpl. destruct (Z.leb_spec n 0); [lia|reflexivity]. Qed.

Lemma dropZ_app a b : dropZ (blen a) (a ++ b) = b.
Proof.
  induction a as [|x a IH]; [apply dropZ_le0; reflexivity|].
  cbn [app]. rewrite dropZ_cons by (rewrite blen_cons; pose proof (blen_nonneg a); lia).
  rewrite blen_cons. replace (blen a + 1 - 1) with (blen a) by lia. exact IH.
Qed.
Lemma takeZ_app a b : takeZ (blen a) (a ++ b) = a.
Proof.
  induction a as [|x a IH]; [apply takeZ_le0; reflexivity|].
  cbn [app]. rewrite takeZ_cons by (rewrite blen_cons; pose proof (blen_nonneg a); lia).
  rewrite blen_cons. replace (blen a + 1 - 1) with (blen a) by lia. rewrite IH. reflexivity.
Qed.
Lemma takeZ_all a : takeZ (blen a) a = a.
Proof. rewrite <- (app_nil_r a) at 2. apply takeZ_app. Qed.
Lemma blen_dropZ l : forall n, 0 <= n <= blen l -> blen (dropZ n l) = blen l - n.
Proof.
  induction l as [|x l IH]; intros n H.
  - simpl. rewrite blen_nil in *. lia.
  - destruct (Z.eq_dec n 0) as [->|Hn]; [rewrite dropZ_le0 by lia; lia|].
    rewrite dropZ_cons by lia. rewrite blen_cons in *. rewrite IH by lia. lia.
Qed.

(* ---------- rules: whatever the model's ReadFrame accepts violates no frame-level rule ---------- *)
Ltac split_ifs H :=
  repeat match type of H with context [if ?c then _ else _] => destruct c eqn:? end.

Ltac fin_ty H1 H2 :=
  cbn in H1, H2 |- *; split_ifs H1; try discriminate; split_ifs H2; try discriminate; lia.

Lemma rules_sound maxread lhs h p b lhs' :
  h_len h = blen p -> h_len h <= maxread ->
  parse_body h p = POk b -> check_order lhs h = Some lhs' ->
  must_reject maxread lhs h p = false.
Proof.
  destruct h as [ty fl sid len]. unfold must_reject, parse_body, check_order. cbn [h_ty h_fl h_sid h_len].
  intros -> Hmax.
  generalize (hasf fl 8) (hasf fl 32) (hasf fl 1) (hasf fl 4). intros f8 f32 f1 f4.
  generalize (dec32 p mod P31). intro inc.
  generalize (settings_value (length p) p 4). intro sv.
  generalize (blen p mod 6). intro m6.
  assert (Htl : blen p = 0 \/ blen (tl p) = blen p - 1).
  { destruct p; [left; reflexivity|right]. cbn [tl]. rewrite blen_cons. lia. }
  pose proof (blen_nonneg p) as Hp0. pose proof (blen_nonneg (tl p)) as Ht0.
  pose proof (blen_dropZ p 5) as Hd5p. pose proof (blen_dropZ (tl p) 5) as Hd5t.
  pose proof (blen_dropZ p 4) as Hd4p. pose proof (blen_dropZ (tl p) 4) as Hd4t.
  destruct f8, f32; cbv beta iota zeta;
  revert Hd5p Hd5t Hd4p Hd4t Htl Hmax Hp0 Ht0;
  generalize (blen (dropZ 5 p)) (blen (dropZ 5 (tl p))) (blen (dropZ 4 p)) (blen (dropZ 4 (tl p))) (blen (tl p)) (hd 0 p) (blen p);
  intros n5 n5t n4 n4t nt h0 n Hd5p Hd5t Hd4p Hd4t Htl Hmax Hp0 Ht0;
  intros H1 H2.
  all: destruct (Z.eqb_spec ty 0) as [->|N0]; [fin_ty H1 H2|].
  all: destruct (Z.eqb_spec ty 1) as [->|N1]; [fin_ty H1 H2|].
  all: destruct (Z.eqb_spec ty 2) as [->|N2]; [fin_ty H1 H2|].
  all: destruct (Z.eqb_spec ty 3) as [->|N3]; [fin_ty H1 H2|].
  all: destruct (Z.eqb_spec ty 4) as [->|N4]; [destruct sv; fin_ty H1 H2|].
  all: destruct (Z.eqb_spec ty 5) as [->|N5]; [fin_ty H1 H2|].
  all: destruct (Z.eqb_spec ty 6) as [->|N6]; [fin_ty H1 H2|].
  all: destruct (Z.eqb_spec ty 7) as [->|N7]; [fin_ty H1 H2|].
  all: destruct (Z.eqb_spec ty 8) as [->|N8]; [fin_ty H1 H2|].
  all: destruct (Z.eqb_spec ty 9) as [->|N9]; [fin_ty H1 H2|].
  all: fin_ty H1 H2.
Qed.

(* ---------- round trip ---------- *)
Ltac Zify.zify_post_hook ::= Z.div_mod_to_equations.

Lemma dec24_eq n : 0 <= n < 16777216 ->
  (n / 65536 mod 256 * 256 + n / 256 mod 256) * 256 + n mod 256 = n.
Proof. intro H. lia. Qed.
Lemma dec32_eq v : 0 <= v < 4294967296 ->
  ((v / 16777216 mod 256 * 256 + v / 65536 mod 256) * 256 + v / 256 mod 256) * 256 + v mod 256 = v.
Proof. intro H. lia. Qed.
Lemma dec32_enc32 v r : 0 <= v < 4294967296 -> dec32 (enc32 v ++ r) = v.
Proof. intro H. unfold enc32, dec32. cbn [app]. apply dec32_eq. exact H. Qed.
Lemma dec16_enc16 v r : 0 <= v < 65536 -> dec16 (enc16 v ++ r) = v.
Proof. intro H. unfold enc16, dec16. cbn [app]. lia. Qed.
Lemma blen_enc32 v : blen (enc32 v) = 4.
Proof. reflexivity. Qed.
Lemma blen_repeat n : 0 <= n -> blen (repeat 0 (Z.to_nat n)) = n.
Proof. intro H. unfold blen. rewrite repeat_length. lia. Qed.

Lemma read_frame_hdr maxread lhs a0 a1 a2 ty fl s0 s1 s2 s3 tail :
  read_frame maxread lhs (a0 :: a1 :: a2 :: ty :: fl :: s0 :: s1 :: s2 :: s3 :: tail) =
  let h := mkh ty fl ((((s0 * 256 + s1) * 256 + s2) * 256 + s3) mod P31) ((a0 * 256 + a1) * 256 + a2) in
  if h_len h >? maxread then (RTooLarge, lhs, tail)
  else if (h_len h >? 0) && (blen tail =? 0) then (REOF, lhs, [])
  else if blen tail <? h_len h then (RUnexpEOF, lhs, [])
  else match parse_body h (takeZ (h_len h) tail) with
       | PErr e => (e, lhs, dropZ (h_len h) tail)
       | POk b => match check_order lhs h with
                  | None => (RConn 1, lhs, dropZ (h_len h) tail)
                  | Some lhs' => (ROk h b, lhs', dropZ (h_len h) tail)
                  end
       end.
Proof.
  unfold read_frame.
  assert (E : blen (a0 :: a1 :: a2 :: ty :: fl :: s0 :: s1 :: s2 :: s3 :: tail) <? 9 = false).
  { rewrite !blen_cons. pose proof (blen_nonneg tail). lia. }
  rewrite E. unfold parse_hdr.
  assert (D9 : dropZ 9 (a0 :: a1 :: a2 :: ty :: fl :: s0 :: s1 :: s2 :: s3 :: tail) = tail).
  { rewrite !dropZ_cons by lia. apply dropZ_le0. lia. }
  assert (D5 : dropZ 5 (a0 :: a1 :: a2 :: ty :: fl :: s0 :: s1 :: s2 :: s3 :: tail) = s0 :: s1 :: s2 :: s3 :: tail).
  { do 5 (rewrite dropZ_cons by lia). apply dropZ_le0. lia. }
  rewrite D9, D5. reflexivity.
Qed.

Lemma read_written maxread lhs ty fl sid p rest b lhs' :
  0 <= sid < P31 -> blen p < 16777216 -> blen p <= maxread ->
  parse_body (mkh ty fl sid (blen p)) p = POk b ->
  check_order lhs (mkh ty fl sid (blen p)) = Some lhs' ->
  read_frame maxread lhs (frame_bytes ty fl sid p ++ rest) = (ROk (mkh ty fl sid (blen p)) b, lhs', rest).
Proof.
  intros Hs Hl Hm Hp Ho. unfold frame_bytes, enc24, enc32. rewrite <- !app_assoc. cbn [app].
  rewrite read_frame_hdr. cbv zeta.
  pose proof (blen_nonneg p) as Hp0. pose proof (blen_nonneg rest) as Hr0.
  rewrite (dec24_eq (blen p)) by lia. unfold P31 in *. rewrite (dec32_eq sid) by lia.
  rewrite (Z.mod_small sid) by lia. cbn [h_len].
  destruct (Z.gtb_spec (blen p) maxread); [lia|].
  rewrite blen_app.
  destruct ((blen p >? 0) && (blen p + blen rest =? 0)) eqn:E1; [lia|].
  destruct (Z.ltb_spec (blen p + blen rest) (blen p)); [lia|].
  rewrite takeZ_app, dropZ_app, Hp, Ho. reflexivity.
Qed.

Definition rt_ok (c : wcmd) : Prop :=
  forall bytes h b maxread lhs lhs' rest,
    wf_cmd c = true -> empty_headers c = false ->
    write_cmd c = Some bytes -> expected c = Some (h, b) ->
    blen bytes < 16777216 -> h_len h <= maxread -> check_order lhs h = Some lhs' ->
    read_frame maxread lhs (bytes ++ rest) = (ROk h b, lhs', rest).

Lemma blen_frame_bytes ty fl sid p : blen (frame_bytes ty fl sid p) = 9 + blen p.
Proof. unfold frame_bytes. rewrite !blen_app. change (blen (enc24 (blen p))) with 3. change (blen [ty; fl]) with 2. change (blen (enc32 sid)) with 4. lia. Qed.

(* common tail of every case: the payload p parses to body b under the expected header *)
Lemma rt_finish ty fl sid p b bytes h b' maxread lhs lhs' rest :
  0 <= sid < P31 ->
  Some (frame_bytes ty fl sid p) = Some bytes -> Some (mkh ty fl sid (blen p), b) = Some (h, b') ->
  blen bytes < 16777216 -> h_len h <= maxread -> check_order lhs h = Some lhs' ->
  parse_body (mkh ty fl sid (blen p)) p = POk b ->
  read_frame maxread lhs (bytes ++ rest) = (ROk h b', lhs', rest).
Proof.
  intros Hs Hb He Hl Hm Ho Hp. inversion Hb; subst bytes. inversion He; subst h b'. clear Hb He.
  rewrite blen_frame_bytes in Hl. pose proof (blen_nonneg p). cbn [h_len] in Hm.
  apply read_written; auto; lia.
Qed.

Ltac rt_start :=
  intros bytes h b maxread lhs lhs' rest Hwf Hne Hw He Hl Hm Ho;
  unfold wf_cmd in Hwf; unfold write_cmd in Hw; unfold expected in He; unfold empty_headers in Hne;
  unfold validStreamID, sid_ok, u32_ok, byte_ok in *.

Lemma rt_rst sid code : rt_ok (WRst sid code).
Proof.
  rt_start. unfold P31 in *.
  destruct (negb (negb (sid =? 0) && (sid <? 2147483648))) eqn:Ev; [lia|].
  eapply rt_finish with (p := enc32 code); unfold P31; eauto; try lia.
  unfold parse_body. cbn [h_ty h_sid h_fl h_len]. cbn -[enc32 dec32].
  destruct (Z.eqb_spec sid 0); [lia|]. cbn -[enc32 dec32].
  rewrite <- (app_nil_r (enc32 code)), dec32_enc32 by lia. reflexivity.
Qed.

Ltac red_ty :=
  repeat match goal with
  | |- context [Z.eqb (Zpos ?a) (Zpos ?b)] =>
    let v := eval vm_compute in (Z.eqb (Zpos a) (Zpos b)) in change (Z.eqb (Zpos a) (Zpos b)) with v
  | |- context [Z.eqb (Zpos ?a) Z0] => change (Z.eqb (Zpos a) Z0) with false
  | |- context [Z.eqb Z0 (Zpos ?a)] => change (Z.eqb Z0 (Zpos a)) with false
  | |- context [Z.eqb Z0 Z0] => change (Z.eqb Z0 Z0) with true
  end.
Ltac pb_red := unfold parse_body; cbn [h_ty h_sid h_fl h_len]; red_ty; cbv beta iota zeta.

Lemma hasf_vals : hasf 0 8 = false /\ hasf 1 8 = false /\ hasf 8 8 = true /\ hasf 9 8 = true /\
  hasf 4 8 = false /\ hasf 12 8 = true /\ hasf 0 1 = false /\ hasf 1 1 = true.
Proof. repeat split. Qed.

Lemma rt_cont sid eh frag : rt_ok (WCont sid eh frag).
Proof.
  rt_start. unfold P31 in *.
  destruct (negb (negb (sid =? 0) && (sid <? 2147483648))) eqn:Ev; [lia|].
  eapply rt_finish with (p := frag); unfold P31; eauto; try lia.
  pb_red. destruct (Z.eqb_spec sid 0); [lia|reflexivity].
Qed.

Lemma rt_ping ack data : rt_ok (WPing ack data).
Proof.
  rt_start. assert (Hd : blen data = 8) by lia.
  eapply rt_finish with (p := data) (sid := 0); unfold P31; eauto; try lia.
  - rewrite Hd. exact He.
  - pb_red. rewrite Hd. reflexivity.
Qed.

Lemma rt_window sid inc : rt_ok (WWindow sid inc).
Proof.
  rt_start. unfold P31 in *.
  destruct ((inc <? 1) || (inc >? 2147483647)) eqn:Ev; [lia|].
  eapply rt_finish with (p := enc32 inc); unfold P31; eauto; try lia.
  pb_red. change (blen (enc32 inc)) with 4. cbv beta iota. change (negb (4 =? 4)) with false. cbv iota.
  rewrite <- (app_nil_r (enc32 inc)), dec32_enc32 by lia. unfold P31.
  rewrite Z.mod_small by lia. destruct (Z.eqb_spec inc 0); [lia|reflexivity].
Qed.

Lemma rt_settings_ack : rt_ok WSettingsAck.
Proof.
  rt_start. eapply rt_finish with (p := []) (sid := 0); unfold P31; eauto; try lia.
Qed.

Lemma rt_goaway last code debug : rt_ok (WGoAway last code debug).
Proof.
  rt_start. unfold P31 in *.
  eapply rt_finish with (p := enc32 (last mod 2147483648) ++ enc32 code ++ debug) (sid := 0); unfold P31; eauto; try lia.
  - rewrite !blen_app, !blen_enc32. replace (4 + (4 + blen debug)) with (8 + blen debug) by lia. exact He.
  - pb_red. rewrite !blen_app, !blen_enc32. pose proof (blen_nonneg debug).
    destruct (Z.ltb_spec (4 + (4 + blen debug)) 8); [lia|].
    rewrite dec32_enc32 by lia. rewrite (Z.mod_small last) by lia. unfold P31. rewrite (Z.mod_small last) by lia.
    change 4 with (blen (enc32 last)) at 1. rewrite dropZ_app. rewrite dec32_enc32 by lia.
    rewrite app_assoc. change 8 with (blen (enc32 last ++ enc32 code)). rewrite dropZ_app. reflexivity.
Qed.

Lemma rt_priority sid dep excl weight : rt_ok (WPriority sid dep excl weight).
Proof.
  rt_start. unfold P31 in *.
  destruct (negb (negb (sid =? 0) && (sid <? 2147483648))) eqn:Ev; [lia|].
  set (v := if excl && (dep <? 2147483648) then dep + 2147483648 else dep) in *.
  assert (Hv : 0 <= v < 4294967296 /\ v mod 2147483648 = dep /\ negb (dep =? v) = excl).
  { subst v. destruct excl; cbn [andb]; [destruct (Z.ltb_spec dep 2147483648)|]; lia. }
  destruct Hv as (Hv1 & Hv2 & Hv3).
  eapply rt_finish with (p := enc32 v ++ [weight]); unfold P31; eauto; try lia.
  pb_red. destruct (Z.eqb_spec sid 0); [lia|]. rewrite blen_app, blen_enc32. change (blen [weight]) with 1.
  change (negb (4 + 1 =? 5)) with false. cbv iota. rewrite dec32_enc32 by lia. unfold P31. rewrite Hv2, Hv3.
  reflexivity.
Qed.

Lemma rt_data sid es data pad : rt_ok (WData sid es data pad).
Proof.
  rt_start. unfold P31 in *.
  destruct (negb (negb (sid =? 0) && (sid <? 2147483648))) eqn:Ev; [lia|].
  pose proof (blen_nonneg data) as Hd0.
  destruct pad as [pd|].
  - pose proof (blen_nonneg pd) as Hp0.
    destruct (Z.gtb_spec (blen pd) 255); [lia|].
    eapply rt_finish with (p := [blen pd] ++ data ++ pd); unfold P31; eauto; try lia.
    + rewrite !blen_app. change (blen [blen pd]) with 1.
      replace (1 + (blen data + blen pd)) with (blen data + (1 + blen pd)) by lia. exact He.
    + pb_red. destruct (Z.eqb_spec sid 0); [lia|].
      assert (Hf : hasf (b2z es + 8) 8 = true) by (destruct es; reflexivity). rewrite Hf. cbv iota.
      cbn [app hd tl andb]. rewrite blen_cons.
      destruct (Z.eqb_spec (blen (data ++ pd) + 1) 0); [pose proof (blen_nonneg (data ++ pd)); lia|].
      rewrite blen_app. destruct (Z.gtb_spec (blen pd) (blen data + blen pd)); [lia|].
      replace (blen data + blen pd - blen pd) with (blen data) by lia. rewrite takeZ_app. reflexivity.
  - eapply rt_finish with (p := data); unfold P31; eauto; try lia.
    + replace (b2z es + 0) with (b2z es) in He by lia. replace (blen data + 0) with (blen data) in He by lia. exact He.
    + pb_red. destruct (Z.eqb_spec sid 0); [lia|].
      assert (Hf : hasf (b2z es) 8 = false) by (destruct es; reflexivity). rewrite Hf. cbv iota. cbn [andb].
      destruct (Z.gtb_spec 0 (blen data)); [lia|]. rewrite Z.sub_0_r, takeZ_all. reflexivity.
Qed.

Lemma hflags (a es eh pz : bool) :
  let fl := (if a then 0 else 8) + b2z es + (if eh then 4 else 0) + (if pz then 0 else 32) in
  hasf fl 8 = negb a /\ hasf fl 32 = negb pz.
Proof. destruct a, es, eh, pz; split; reflexivity. Qed.

Lemma dropZ5_enc v w r : dropZ 5 (enc32 v ++ [w] ++ r) = r.
Proof. change 5 with (blen (enc32 v ++ [w])). rewrite app_assoc. apply dropZ_app. Qed.
Lemma dropZ4_enc v r : dropZ 4 (enc32 v ++ r) = r.
Proof. change 4 with (blen (enc32 v)). apply dropZ_app. Qed.

Lemma rt_headers sid frag es eh padlen dep excl weight : rt_ok (WHeaders sid frag es eh padlen dep excl weight).
Proof.
  rt_start. unfold P31 in *.
  destruct (negb (negb (sid =? 0) && (sid <? 2147483648))) eqn:Ev; [lia|].
  cbv zeta in Hw, He. pose proof (blen_nonneg frag) as Hf0.
  assert (Hfr : 0 < blen frag) by lia.
  destruct (hflags (padlen =? 0) es eh (prio_is_zero dep excl weight)) as [F8 F32]. cbv zeta in F8, F32.
  set (fl := (if padlen =? 0 then 0 else 8) + b2z es + (if eh then 4 else 0) +
             (if prio_is_zero dep excl weight then 0 else 32)) in *.
  assert (Hz : blen (repeat 0 (Z.to_nat padlen)) = padlen) by (apply blen_repeat; lia).
  set (zs := repeat 0 (Z.to_nat padlen)) in *.
  destruct (prio_is_zero dep excl weight) eqn:Epz.
  - assert (dep = 0 /\ excl = false /\ weight = 0) as (-> & -> & ->).
    { unfold prio_is_zero in Epz. destruct excl; cbn in Epz; [lia|]. repeat split; lia. }
    cbn [negb andb] in Hw, F32.
    destruct (Z.eqb_spec padlen 0) as [Ep|Ep]; cbn [negb] in F8.
    + eapply rt_finish with (p := [] ++ [] ++ frag ++ zs); unfold P31; eauto; try lia.
      * cbn [app]. rewrite blen_app, Hz, Ep. replace (blen frag + 0 + 0) with (blen frag + 0) in He by lia. exact He.
      * pb_red. destruct (Z.eqb_spec sid 0); [lia|]. rewrite F8, F32. cbv iota. cbn [andb app].
        rewrite blen_app, Hz, Ep. destruct (Z.leb_spec (blen frag + 0 - 0) 0); [lia|].
        replace (blen frag + 0 - 0) with (blen frag) by lia. rewrite takeZ_app. reflexivity.
    + eapply rt_finish with (p := [padlen] ++ [] ++ frag ++ zs); unfold P31; eauto; try lia.
      * cbn [app]. rewrite blen_cons, blen_app, Hz.
        replace (blen frag + padlen + 1) with (blen frag + (1 + padlen) + 0) by lia. exact He.
      * pb_red. destruct (Z.eqb_spec sid 0); [lia|]. rewrite F8, F32. cbv iota. cbn [andb app hd tl].
        rewrite blen_cons, blen_app, Hz. destruct (Z.eqb_spec (blen frag + padlen + 1) 0); [lia|].
        destruct (Z.leb_spec (blen frag + padlen - padlen) 0); [lia|].
        replace (blen frag + padlen - padlen) with (blen frag) by lia. rewrite takeZ_app. reflexivity.
  - cbn [negb andb] in Hw, F32. cbn [orb] in Hwf.
    destruct (negb (negb (dep =? 0) && (dep <? 2147483648))) eqn:Evd; [lia|].
    set (v := dep + (if excl then 2147483648 else 0)) in *.
    assert (Hv : 0 <= v < 4294967296 /\ v mod 2147483648 = dep /\ negb (v =? dep) = excl).
    { subst v. destruct excl; lia. }
    destruct Hv as (Hv1 & Hv2 & Hv3).
    destruct (Z.eqb_spec padlen 0) as [Ep|Ep]; cbn [negb] in F8.
    + eapply rt_finish with (p := [] ++ (enc32 v ++ [weight]) ++ frag ++ zs); unfold P31; eauto; try lia.
      * cbn [app]. rewrite !blen_app, blen_enc32, Hz, Ep. change (blen [weight]) with 1.
        replace (4 + 1 + (blen frag + 0)) with (blen frag + 0 + 5) by lia. exact He.
      * pb_red. destruct (Z.eqb_spec sid 0); [lia|]. rewrite F8, F32. cbv iota. cbn [andb].
        rewrite app_nil_l. rewrite <- app_assoc.
        rewrite dropZ5_enc, dec32_enc32 by lia. rewrite !blen_app, blen_enc32, Hz, Ep. change (blen [weight]) with 1.
        destruct (Z.ltb_spec (4 + (1 + (blen frag + 0))) 4); [lia|].
        destruct (Z.eqb_spec (4 + (1 + (blen frag + 0))) 4); [lia|]. cbn [andb]. cbv iota.
        unfold P31. rewrite Hv2, Hv3.
        destruct (Z.leb_spec (blen frag + 0 - 0) 0); [lia|].
        replace (blen frag + 0 - 0) with (blen frag) by lia. rewrite takeZ_app.
        unfold enc32. cbn [app nth]. reflexivity.
    + eapply rt_finish with (p := [padlen] ++ (enc32 v ++ [weight]) ++ frag ++ zs); unfold P31; eauto; try lia.
      * cbn [app]. rewrite blen_cons, !blen_app, blen_enc32, Hz. change (blen [weight]) with 1.
        replace (4 + 1 + (blen frag + padlen) + 1) with (blen frag + (1 + padlen) + 5) by lia. exact He.
      * pb_red. destruct (Z.eqb_spec sid 0); [lia|]. rewrite F8, F32. cbv iota. cbn [andb app hd tl].
        rewrite blen_cons. rewrite <- app_assoc.
        rewrite dropZ5_enc, dec32_enc32 by lia. rewrite !blen_app, blen_enc32, Hz. change (blen [weight]) with 1.
        destruct (Z.eqb_spec (4 + (1 + (blen frag + padlen)) + 1) 0); [lia|].
        destruct (Z.ltb_spec (4 + (1 + (blen frag + padlen))) 4); [lia|].
        destruct (Z.eqb_spec (4 + (1 + (blen frag + padlen))) 4); [lia|]. cbn [andb]. cbv iota.
        unfold P31. rewrite Hv2, Hv3.
        destruct (Z.leb_spec (blen frag + padlen - padlen) 0); [lia|].
        replace (blen frag + padlen - padlen) with (blen frag) by lia. rewrite takeZ_app.
        unfold enc32. cbn [app nth]. reflexivity.
Qed.

Lemma pflags (a eh : bool) :
  hasf ((if a then 0 else 8) + (if eh then 4 else 0)) 8 = negb a.
Proof. destruct a, eh; reflexivity. Qed.

Lemma rt_push sid promise frag eh padlen : rt_ok (WPush sid promise frag eh padlen).
Proof.
  rt_start. unfold P31 in *.
  destruct (negb (negb (sid =? 0) && (sid <? 2147483648))) eqn:Ev; [lia|].
  destruct (negb (negb (promise =? 0) && (promise <? 2147483648))) eqn:Evp; [lia|].
  pose proof (blen_nonneg frag) as Hf0.
  pose proof (pflags (padlen =? 0) eh) as F8.
  set (fl := (if padlen =? 0 then 0 else 8) + (if eh then 4 else 0)) in *.
  assert (Hz : blen (repeat 0 (Z.to_nat padlen)) = padlen) by (apply blen_repeat; lia).
  set (zs := repeat 0 (Z.to_nat padlen)) in *.
  destruct (Z.eqb_spec padlen 0) as [Ep|Ep]; cbn [negb] in F8.
  - eapply rt_finish with (p := [] ++ enc32 promise ++ frag ++ zs); unfold P31; eauto; try lia.
    + cbn [app]. rewrite !blen_app, blen_enc32, Hz, Ep.
      replace (4 + (blen frag + 0)) with (4 + blen frag + 0) by lia. exact He.
    + pb_red. destruct (Z.eqb_spec sid 0); [lia|]. rewrite F8. cbv iota. cbn [andb app].
      rewrite dropZ4_enc, dec32_enc32 by lia. rewrite !blen_app, blen_enc32, Hz, Ep.
      destruct (Z.ltb_spec (4 + (blen frag + 0)) 4); [lia|].
      destruct (Z.gtb_spec 0 (blen frag + 0)); [lia|].
      unfold P31. rewrite Z.mod_small by lia.
      replace (blen frag + 0 - 0) with (blen frag) by lia. rewrite takeZ_app. reflexivity.
  - eapply rt_finish with (p := [padlen] ++ enc32 promise ++ frag ++ zs); unfold P31; eauto; try lia.
    + cbn [app]. rewrite blen_cons, !blen_app, blen_enc32, Hz.
      replace (4 + (blen frag + padlen) + 1) with (4 + blen frag + (1 + padlen)) by lia. exact He.
    + pb_red. destruct (Z.eqb_spec sid 0); [lia|]. rewrite F8. cbv iota. cbn [andb app hd tl].
      rewrite blen_cons.
      rewrite dropZ4_enc, dec32_enc32 by lia. rewrite !blen_app, blen_enc32, Hz.
      destruct (Z.eqb_spec (4 + (blen frag + padlen) + 1) 0); [lia|].
      destruct (Z.ltb_spec (4 + (blen frag + padlen)) 4); [lia|].
      destruct (Z.gtb_spec padlen (blen frag + padlen)); [lia|].
      unfold P31. rewrite Z.mod_small by lia.
      replace (blen frag + padlen - padlen) with (blen frag) by lia. rewrite takeZ_app. reflexivity.
Qed.

Definition enc_setting (s : Z * Z) : list Z := enc16 (fst s) ++ enc32 (snd s).
Definition setting_ok (s : Z * Z) : bool :=
  (0 <=? fst s) && (fst s <? 65536) && u32_ok (snd s) && (setting_valid (fst s) (snd s) =? 0).

Lemma entry_dec id v rest : 0 <= id < 65536 -> 0 <= v < 4294967296 ->
  let p := enc_setting (id, v) ++ rest in
  dec16 p = id /\ dec32 (dropZ 2 p) = v /\ dropZ 6 p = rest /\ exists x t, p = x :: t.
Proof.
  intros Hi Hv. unfold enc_setting. cbn [fst snd]. cbv zeta. repeat split.
  - rewrite <- app_assoc. apply dec16_enc16. exact Hi.
  - rewrite <- app_assoc. change 2 with (blen (enc16 id)). rewrite dropZ_app. apply dec32_enc32. exact Hv.
  - change 6 with (blen (enc16 id ++ enc32 v)). apply dropZ_app.
  - unfold enc16. cbn [app]. eauto.
Qed.

Lemma settings_ok_gen l : forall fuel, forallb setting_ok l = true -> (length l <= fuel)%nat ->
  settings_vcode fuel (flat_map enc_setting l) = 0 /\
  match settings_value fuel (flat_map enc_setting l) 4 with Some v => v <= 2147483647 | None => True end.
Proof.
  induction l as [|[id v] l IH]; intros fuel Hok Hf.
  - destruct fuel; simpl; auto.
  - destruct fuel as [|f]; [simpl in Hf; lia|].
    cbn [forallb] in Hok. apply andb_true_iff in Hok. destruct Hok as [Hs Hok].
    unfold setting_ok, u32_ok in Hs. cbn [fst snd] in Hs.
    cbn [flat_map].
    destruct (entry_dec id v (flat_map enc_setting l)) as (E1 & E2 & E3 & x & t & Ep); [lia|lia|].
    cbv zeta in E1, E2, E3, Ep.
    destruct (IH f Hok ltac:(simpl in Hf; lia)) as [IH1 IH2].
    cbn [settings_vcode settings_value]. rewrite Ep. rewrite <- Ep. rewrite E1, E2, E3.
    assert (Hsv : setting_valid id v = 0) by lia. rewrite Hsv. cbn [Z.eqb]. split; [exact IH1|].
    destruct (Z.eqb_spec id 4) as [->|]; [|exact IH2].
    unfold setting_valid in Hsv. cbn in Hsv. destruct (Z.gtb_spec v 2147483647); [discriminate|lia].
Qed.

Lemma blen_flat_settings l : blen (flat_map enc_setting l) = 6 * blen (map fst l).
Proof.
  induction l as [|s l IH]; [reflexivity|]. cbn [flat_map map]. rewrite blen_app, blen_cons, IH.
  change (blen (enc_setting s)) with 6. lia.
Qed.

Lemma rt_settings l : rt_ok (WSettings l).
Proof.
  rt_start. fold enc_setting in Hw, He.
  change (forallb setting_ok l = true) in Hwf.
  set (p := flat_map enc_setting l) in *.
  pose proof (blen_flat_settings l) as Hlen. fold p in Hlen.
  assert (Hfuel : (length l <= length p)%nat).
  { unfold blen in Hlen. rewrite map_length in Hlen. lia. }
  destruct (settings_ok_gen l (length p) Hwf Hfuel) as [Hvc Hsv]. fold p in Hvc, Hsv.
  eapply rt_finish with (p := p) (sid := 0); unfold P31; eauto; try lia.
  - rewrite Hlen. exact He.
  - pb_red. change (hasf 0 1) with false. cbn [andb negb]. cbv iota.
    assert (Hm6 : blen p mod 6 = 0) by (rewrite Hlen; lia). rewrite Hm6. cbn [Z.eqb negb]. cbv iota.
    rewrite Hvc. destruct (settings_value (length p) p 4) as [v|]; [|reflexivity].
    destruct (Z.gtb_spec v 2147483647); [lia|reflexivity].
Qed.

(* every Write method with legal parameters round-trips through ReadFrame *)
Lemma roundtrip_all c : rt_ok c.
Proof.
  destruct c.
  - apply rt_data.
  - apply rt_headers.
  - apply rt_priority.
  - apply rt_rst.
  - apply rt_settings.
  - apply rt_settings_ack.
  - apply rt_push.
  - apply rt_ping.
  - apply rt_goaway.
  - apply rt_window.
  - apply rt_cont.
  - intros ? ? ? ? ? ? ? Hwf. discriminate Hwf.
  - intros ? ? ? ? ? ? ? Hwf. discriminate Hwf.
Qed.

Lemma blen_takeZ l : forall n, 0 <= n <= blen l -> blen (takeZ n l) = n.
Proof.
  induction l as [|x l IH]; intros n H.
  - rewrite blen_nil in H. simpl. rewrite blen_nil. lia.
  - destruct (Z.eq_dec n 0) as [->|Hn]; [rewrite takeZ_le0 by lia; reflexivity|].
    rewrite takeZ_cons by lia. rewrite blen_cons in *. rewrite IH by lia. lia.
Qed.

Lemma parse_err_not_ok h p e : parse_body h p = PErr e -> match e with ROk _ _ => False | _ => True end.
Proof.
  unfold parse_body. intro H.
  repeat match type of H with
         | context [if ?c then _ else _] => destruct c
         | context [match ?o with Some _ => _ | None => _ end] => destruct o
         end; try discriminate; inversion H; exact I.
Qed.

(* what an accepted frame looks like on the wire, and that it breaks no rule *)
Lemma read_frame_ok_rules maxread lhs bs h b lhs' rest :
  bytes_ok bs = true ->
  read_frame maxread lhs bs = (ROk h b, lhs', rest) ->
  h = parse_hdr bs /\ h_len h <= maxread /\
  let p := takeZ (h_len h) (dropZ 9 bs) in
  blen p = h_len h /\ rest = dropZ (h_len h) (dropZ 9 bs) /\
  must_reject maxread lhs h p = false.
Proof.
  intros Hb H. unfold read_frame in H. destruct bs as [|x0 bs0] eqn:Ebs; [discriminate|]. rewrite <- Ebs in *.
  destruct (Z.ltb_spec (blen bs) 9) as [|H9]; [discriminate|].
  assert (Hlen0 : 0 <= h_len (parse_hdr bs)).
  { unfold parse_hdr. cbn [h_len]. subst bs.
    destruct bs0 as [|x1 [|x2 r]]; try (rewrite !blen_cons, ?blen_nil in H9; lia).
    unfold bytes_ok in Hb. cbn [forallb] in Hb. unfold byte_ok in Hb. unfold dec24. lia. }
  set (hh := parse_hdr bs) in *. set (r9 := dropZ 9 bs) in *.
  destruct (Z.gtb_spec (h_len hh) maxread); [discriminate|].
  destruct ((h_len hh >? 0) && (blen r9 =? 0)); [discriminate|].
  destruct (Z.ltb_spec (blen r9) (h_len hh)); [discriminate|].
  destruct (parse_body hh (takeZ (h_len hh) r9)) as [bb|e] eqn:Ep.
  2:{ apply parse_err_not_ok in Ep. inversion H; subst e. destruct Ep. }
  destruct (check_order lhs hh) as [l2|] eqn:Eo; [|discriminate].
  inversion H; subst h b lhs' rest. split; [reflexivity|]. split; [lia|]. cbv zeta.
  assert (Hbl : blen (takeZ (h_len hh) r9) = h_len hh) by (apply blen_takeZ; lia).
  split; [exact Hbl|]. split; [reflexivity|].
  apply (rules_sound maxread lhs hh _ bb l2); [symmetry; exact Hbl|lia|exact Ep|exact Eo].
Qed.

(* known finding 1 *)
Lemma empty_headers_refuted :
  wf_cmd (WHeaders 1 [] false true 0 0 false 0) = true /\
  exists bytes, write_cmd (WHeaders 1 [] false true 0 0 false 0) = Some bytes /\
                read_frame 16777215 0 bytes = (RStream 1 1, 0, []).
Proof. split; [reflexivity|]. eexists. split; [reflexivity|]. vm_compute. reflexivity. Qed.

Lemma roundtrip_example :
  let c := WHeaders 3 [130; 134] true false 2 1 true 200 in
  wf_cmd c = true /\ empty_headers c = false /\
  exists bytes, write_cmd c = Some bytes /\
    read_frame 16384 0 (bytes ++ [9; 9]) =
      (ROk (mkh 1 41 3 10) (BHeaders 1 true 200 [130; 134]), 3, [9; 9]).
Proof. repeat split. eexists. split; [reflexivity|]. vm_compute. reflexivity. Qed.

Lemma rules_example :
  must_reject 16384 0 (mkh 0 8 1 3) [3; 1; 2] = true /\ must_reject 16384 0 (mkh 4 0 0 5) [0; 1; 0; 0; 0] = true /\
  must_reject 16384 5 (mkh 0 0 5 0) [] = true /\ must_reject 16384 0 (mkh 0 8 1 3) [2; 1; 2] = false.
Proof. repeat split. Qed.

(* ================= stream level: the central statement ================= *)
Lemma wf_writes c : wf_cmd c = true -> exists bytes h b, write_cmd c = Some bytes /\ expected c = Some (h, b).
Proof.
  destruct c; intro Hwf; try discriminate Hwf; unfold wf_cmd in Hwf; unfold write_cmd, expected;
    unfold validStreamID, sid_ok, u32_ok, byte_ok, P31 in *.
  - destruct (negb (negb (sid =? 0) && (sid <? 2147483648))) eqn:E; [lia|].
    destruct pad as [pd|]; [destruct (Z.gtb_spec (blen pd) 255); [lia|]|]; eauto.
  - destruct (negb (negb (sid =? 0) && (sid <? 2147483648))) eqn:E; [lia|]. cbv zeta.
    destruct (prio_is_zero dep excl weight) eqn:Ep; cbn [negb andb orb] in *; [eauto|].
    destruct (negb (negb (dep =? 0) && (dep <? 2147483648))) eqn:E2; [lia|]. eauto.
  - destruct (negb (negb (sid =? 0) && (sid <? 2147483648))) eqn:E; [lia|]. eauto.
  - destruct (negb (negb (sid =? 0) && (sid <? 2147483648))) eqn:E; [lia|]. eauto.
  - eauto.
  - eauto.
  - destruct (negb (negb (sid =? 0) && (sid <? 2147483648))) eqn:E; [lia|].
    destruct (negb (negb (promise =? 0) && (promise <? 2147483648))) eqn:E2; [lia|]. eauto.
  - eauto.
  - eauto.
  - destruct ((inc <? 1) || (inc >? 2147483647)) eqn:E; [lia|]. eauto.
  - destruct (negb (negb (sid =? 0) && (sid <? 2147483648))) eqn:E; [lia|]. eauto.
Qed.

Lemma check_order_exists c h b : wf_cmd c = true -> expected c = Some (h, b) ->
  exists lhs0 l', check_order lhs0 h = Some l'.
Proof.
  destruct c; intros Hwf He; try discriminate Hwf; unfold expected in He; inversion He; subst h b; clear He.
  11:{ exists sid. unfold check_order. cbn [h_ty h_sid h_fl]. unfold wf_cmd, sid_ok in Hwf.
       destruct (Z.eqb_spec sid 0); [lia|]. cbn. rewrite Z.eqb_refl. cbn. eauto. }
  all: exists 0; unfold check_order; cbn [h_ty h_sid h_fl]; cbn; eauto.
Qed.

Lemma read_frame_lhs maxread lhs0 lhs bs h b l0 rest :
  read_frame maxread lhs0 bs = (ROk h b, l0, rest) -> check_order lhs h = None ->
  read_frame maxread lhs bs = (RConn 1, lhs, rest).
Proof.
  unfold read_frame. destruct bs as [|x0 bs0] eqn:Ebs; [discriminate|]. rewrite <- Ebs.
  destruct (blen bs <? 9); [discriminate|].
  set (hh := parse_hdr bs). set (r9 := dropZ 9 bs).
  destruct (h_len hh >? maxread); [discriminate|].
  destruct ((h_len hh >? 0) && (blen r9 =? 0)); [discriminate|].
  destruct (blen r9 <? h_len hh); [discriminate|].
  destruct (parse_body hh (takeZ (h_len hh) r9)) as [bb|e] eqn:Ep.
  - destruct (check_order lhs0 hh); [|discriminate]. intros H Hn. inversion H; subst. rewrite Hn. reflexivity.
  - intros H. apply parse_err_not_ok in Ep. inversion H; subst e. destruct Ep.
Qed.

Lemma read_all_written cs : forall fuel lhs,
  forallb wf_cmd cs = true -> existsb empty_headers cs = false -> forallb len_ok cs = true ->
  blen (fst (write_all cs)) < 16777216 -> (length cs < fuel)%nat ->
  read_all fuel 16777215 lhs (fst (write_all cs)) = expect_all lhs cs /\
  forallb (fun e => e =? 0) (snd (write_all cs)) = true.
Proof.
  induction cs as [|c r IH]; intros fuel lhs Hwf Hne Hlen Hb Hf.
  - destruct fuel; [simpl in Hf; lia|]. split; reflexivity.
  - destruct fuel as [|f]; [simpl in Hf; lia|].
    cbn [forallb existsb] in Hwf, Hne, Hlen.
    apply andb_true_iff in Hwf. destruct Hwf as [Hc Hr].
    apply orb_false_iff in Hne. destruct Hne as [Hec Her].
    apply andb_true_iff in Hlen. destruct Hlen as [Hlc Hlr].
    destruct (wf_writes c Hc) as (bytes & h & b & Ew & Ee).
    cbn [write_all] in *. destruct (write_all r) as [bs es] eqn:Er. rewrite Ew in *. cbn [fst snd] in *.
    rewrite blen_app in Hb. pose proof (blen_nonneg bytes). pose proof (blen_nonneg bs).
    destruct (IH f (match check_order lhs h with Some l => l | None => 0 end) Hr Her Hlr ltac:(lia) ltac:(simpl in Hf; lia))
      as [IH1 IH2].
    split; [|cbn [forallb]; exact IH2].
    unfold len_ok in Hlc. rewrite Ee in Hlc.
    cbn [read_all expect_all]. rewrite Ee.
    destruct (check_order lhs h) as [lhs'|] eqn:Eo.
    + rewrite (roundtrip_all c bytes h b 16777215 lhs lhs' bs Hc Hec Ew Ee ltac:(lia) ltac:(lia) Eo).
      cbn [terminal]. rewrite IH1. reflexivity.
    + destruct (check_order_exists c h b Hc Ee) as (lhs0 & l' & E0).
      pose proof (roundtrip_all c bytes h b 16777215 lhs0 l' bs Hc Hec Ew Ee ltac:(lia) ltac:(lia) E0) as Hrt.
      rewrite (read_frame_lhs _ _ lhs _ _ _ _ _ Hrt Eo). reflexivity.
Qed.

(* what dec_rres_lite keeps of a result *)
Definition lite (r : rres) : rres :=
  match r with
  | ROk h b => ROk h (match h_ty h, enc_body b with 4, [VB p; VZ vc] => BSettings p vc | _, _ => BUnknown [] end)
  | _ => r
  end.
Lemma dec_lite_enc r : dec_rres_lite (enc_rres r) = Some (lite r).
Proof. destruct r as [[ty fl sid len] b| | | | |]; reflexivity. Qed.
Lemma dec_lite_all rs : all_some (map dec_rres_lite (map enc_rres rs)) = Some (map lite rs).
Proof.
  rewrite map_map. induction rs as [|r rs IH]; simpl; [reflexivity|].
  rewrite dec_lite_enc. simpl in IH. rewrite IH. reflexivity.
Qed.

Lemma settings_bad_vcode fuel : forall p, settings_bad fuel p = negb (settings_vcode fuel p =? 0).
Proof.
  induction fuel as [|f IH]; intro p; cbn [settings_bad settings_vcode]; [reflexivity|].
  destruct p as [|x p']; [reflexivity|].
  set (c := setting_valid (dec16 (x :: p')) (dec32 (dropZ 2 (x :: p')))).
  destruct (Z.eqb_spec c 0) as [E|E]; cbn [negb orb]; [apply IH|].
  destruct (c =? 0) eqn:E2; [lia|]. reflexivity.
Qed.

Lemma bytes_ok_dropZ l : forall n, bytes_ok l = true -> bytes_ok (dropZ n l) = true.
Proof.
  induction l as [|x l IH]; intros n H; [reflexivity|].
  simpl. destruct (n <=? 0); [exact H|]. apply IH. unfold bytes_ok in *. simpl in H.
  apply andb_true_iff in H. tauto.
Qed.

(* a SETTINGS body produced by the parser carries the validity code of its own payload *)
Lemma parse_settings_vcode h p b : h_ty h = 4 -> parse_body h p = POk b ->
  b = BSettings p (settings_vcode (length p) p).
Proof.
  destruct h as [ty fl sid len]. cbn [h_ty]. intros -> H. unfold parse_body in H. cbn [h_ty h_fl h_sid h_len] in H.
  cbn in H. split_ifs H; try discriminate.
  destruct (settings_value (length p) p 4); split_ifs H; try discriminate; inversion H; reflexivity.
Qed.
Lemma parse_nonsettings h p b : h_ty h <> 4 -> parse_body h p = POk b ->
  match b with BSettings _ _ => False | _ => True end.
Proof.
  destruct h as [ty fl sid len]. cbn [h_ty]. intros Hn H. unfold parse_body in H. cbn [h_ty h_fl h_sid h_len] in H.
  destruct (Z.eqb_spec ty 4); [contradiction|].
  repeat match type of H with
         | context [if ?c then _ else _] => destruct c
         end; try discriminate; inversion H; exact I.
Qed.

Lemma rules_ok_read_all fuel : forall maxread lhs bs,
  bytes_ok bs = true -> rules_ok fuel maxread lhs bs (map lite (read_all fuel maxread lhs bs)) = true.
Proof.
  induction fuel as [|f IH]; intros maxread lhs bs Hb; [reflexivity|].
  cbn [read_all]. destruct (read_frame maxread lhs bs) as [[r lhs'] rest] eqn:Er.
  pose proof Er as Er0. unfold read_frame in Er.
  destruct bs as [|x0 bs0] eqn:Ebs.
  { inversion Er; subst. reflexivity. }
  rewrite <- Ebs in *.
  assert (Hnil : (blen bs =? 0) = false).
  { rewrite Ebs, blen_cons. pose proof (blen_nonneg bs0). lia. }
  destruct (Z.ltb_spec (blen bs) 9) as [H9|H9].
  { inversion Er; subst r lhs' rest; try change (dec24 bs) with (h_len hh). cbn [terminal map lite rules_ok].
    destruct (Z.ltb_spec (blen bs) 9); [|lia]. rewrite Hnil. reflexivity. }
  set (hh := parse_hdr bs) in *. set (r9 := dropZ 9 bs) in *.
  assert (Hshape : forall rs, rules_ok (S f) maxread lhs bs rs =
    match rs with
    | [] => true
    | r :: rs' =>
      if (h_len hh <=? maxread) && (blen r9 <? h_len hh) then
        (match r with REOF | RUnexpEOF => true | _ => false end)
      else
        match r with
        | ROk h' b =>
          negb (must_reject maxread lhs hh (takeZ (h_len hh) r9)) && hdr_eqb hh h' &&
          (match b with BSettings _ vc => negb (settings_bad (length (takeZ (h_len hh) r9)) (takeZ (h_len hh) r9) && (vc =? 0)) | _ => true end) &&
          rules_ok f maxread
                   (if (h_ty hh =? 1) || (h_ty hh =? 9) then (if hasf (h_fl hh) 4 then 0 else h_sid hh) else lhs)
                   (dropZ (h_len hh) r9) rs'
        | RStream _ _ => rules_ok f maxread lhs (dropZ (h_len hh) r9) rs'
        | _ => true
        end
    end).
  { intros rs. destruct rs as [|r1 rs1]; [reflexivity|]. cbn [rules_ok].
    destruct (Z.ltb_spec (blen bs) 9); [lia|]. reflexivity. }
  destruct (Z.gtb_spec (h_len hh) maxread) as [Hbig|Hsmall].
  { inversion Er; subst r lhs' rest; try change (dec24 bs) with (h_len hh). cbn [terminal map lite]. rewrite Hshape.
    destruct (Z.leb_spec (h_len hh) maxread); [lia|]. reflexivity. }
  destruct ((h_len hh >? 0) && (blen r9 =? 0)) eqn:E1.
  { inversion Er; subst r lhs' rest; try change (dec24 bs) with (h_len hh). cbn [terminal map lite]. rewrite Hshape.
    destruct (Z.leb_spec (h_len hh) maxread); [|lia]. destruct (Z.ltb_spec (blen r9) (h_len hh)); [reflexivity|lia]. }
  destruct (Z.ltb_spec (blen r9) (h_len hh)) as [Hshort|Hfull].
  { inversion Er; subst r lhs' rest; try change (dec24 bs) with (h_len hh). cbn [terminal map lite]. rewrite Hshape.
    destruct (Z.leb_spec (h_len hh) maxread); [|lia]. destruct (Z.ltb_spec (blen r9) (h_len hh)); [reflexivity|lia]. }
  assert (Hcond : (h_len hh <=? maxread) && (blen r9 <? h_len hh) = false) by lia.
  assert (Hbr : bytes_ok (dropZ (h_len hh) r9) = true).
  { apply bytes_ok_dropZ. apply bytes_ok_dropZ. exact Hb. }
  destruct (parse_body hh (takeZ (h_len hh) r9)) as [bb|e] eqn:Ep.
  - destruct (check_order lhs hh) as [l2|] eqn:Eo.
    + inversion Er; subst r lhs' rest; try change (dec24 bs) with (h_len hh). cbn [terminal map lite]. rewrite Hshape; rewrite ?Hcond, ?andb_false_r; cbv iota.
      destruct (read_frame_ok_rules maxread lhs bs hh bb l2 _ Hb Er0) as (_ & _ & _ & _ & Hmr).
      cbv zeta in Hmr. fold r9 in Hmr. rewrite Hmr. cbn [negb andb].
      assert (Hh : hdr_eqb hh hh = true) by (unfold hdr_eqb; rewrite !Z.eqb_refl; reflexivity). rewrite Hh. cbn [andb].
      assert (Hl2 : l2 = (if (h_ty hh =? 1) || (h_ty hh =? 9) then (if hasf (h_fl hh) 4 then 0 else h_sid hh) else lhs)).
      { unfold check_order in Eo. split_ifs Eo; try discriminate; inversion Eo; reflexivity. }
      rewrite <- Hl2. rewrite (IH maxread l2 _ Hbr). rewrite andb_true_r.
      destruct (Z.eq_dec (h_ty hh) 4) as [E4|N4].
      * rewrite E4. rewrite (parse_settings_vcode hh _ bb E4 Ep). cbn [enc_body].
        rewrite settings_bad_vcode. destruct (settings_vcode _ _ =? 0); reflexivity.
      * pose proof (parse_nonsettings hh _ bb N4 Ep) as Hns.
        destruct (h_ty hh) as [|[q|q|]|]; try reflexivity;
          try (destruct q as [q|q|]; try reflexivity; destruct q; try reflexivity).
        all: try (exfalso; apply N4; reflexivity).
        all: destruct (enc_body bb) as [|[?|?|?] [|[?|?|?] [|? ?]]]; reflexivity.
    + inversion Er; subst r lhs' rest; try change (dec24 bs) with (h_len hh). cbn [terminal map lite]. rewrite Hshape; rewrite ?Hcond, ?andb_false_r; cbv iota. reflexivity.
  - inversion Er; subst r lhs' rest; try change (dec24 bs) with (h_len hh). pose proof (parse_err_not_ok _ _ _ Ep) as Hne.
    destruct e as [? ?|c|s c| | |]; try contradiction; cbn [terminal map lite]; rewrite Hshape; rewrite ?Hcond, ?andb_false_r; cbv iota; try reflexivity.
    apply IH. exact Hbr.
Qed.

Lemma prop_C32_of_model i : wf_C32 i = true -> kf_C32 i = 0 -> prop_C32 i (run_C32 i) = true.
Proof.
  unfold wf_C32, kf_C32, prop_C32, run_C32. destruct (dec_input i) as [[mr cs]|] eqn:Ei; [|discriminate].
  destruct (write_all cs) as [wire errs] eqn:Ew. cbn [fst snd]. unfold vLZ, prop_base. rewrite Ei. intros Hwf Hkf.
  apply andb_true_iff in Hwf. destruct Hwf as [Hwf H4]. apply andb_true_iff in Hwf. destruct Hwf as [Hwf H3].
  apply andb_true_iff in Hwf. destruct Hwf as [H1 H2].
  unfold vLZ. rewrite dec_lite_all. rewrite (rules_ok_read_all _ _ _ _ H1). cbn [andb].
  destruct (all_wf cs) eqn:Eall; cbn [andb]; [|reflexivity].
  destruct (Z.eqb_spec mr 16777215) as [->|]; [|reflexivity].
  assert (Hne : existsb empty_headers cs = false) by (destruct (existsb empty_headers cs); [discriminate|reflexivity]).
  destruct (read_all_written cs (fuel_of wire) 0 Eall Hne H4) as [Hr He].
  - rewrite Ew. cbn [fst]. lia.
  - apply Nat.ltb_lt. exact H3.
  - rewrite Ew in Hr, He. cbn [fst snd] in Hr, He. rewrite Hr.
    assert (Hz : forallb (fun e : val => val_eqb e (VZ 0)) (map VZ errs) = true).
    { clear -He. induction errs as [|e r IH]; [reflexivity|]. cbn [forallb map] in *.
      apply andb_true_iff in He. destruct He as [E1 E2]. cbn [val_eqb]. rewrite E1. cbn [andb]. apply IH. exact E2. }
    rewrite Hz. cbn [andb]. apply val_eqb_refl.
Qed.

Lemma wf_C32_example :
  wf_C32 (VL [VZ 16777215; VL [VL [VZ 1; VZ 3; VB [130; 134]; VZ 1; VZ 0; VZ 2; VZ 1; VZ 1; VZ 200];
                               VL [VZ 9; VZ 3; VZ 1; VB [1; 2]]; VL [VZ 6; VZ 0; VB [1;2;3;4;5;6;7;8]]]]) = true /\
  wf_C32 (VL [VZ 8; VL [VL [VZ 11; VB [0; 0; 5; 2; 0; 0; 0; 0; 1; 1; 2; 3; 4; 5]]; VL [VZ 10; VZ 8; VZ 0; VZ 0; VB [0; 0; 0; 0]]]]) = true.
Proof. split; reflexivity. Qed.
